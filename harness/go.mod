module verif/harness

go 1.26.2

require (
	github.com/hydraide/hydraide v0.0.0
	github.com/hydraide/hydraide/sdk/go/hydraidego/v3 v3.0.0
	github.com/Masterminds/semver/v3 v3.4.0
	github.com/cespare/xxhash/v2 v2.3.0
	github.com/charmbracelet/bubbles v1.0.0
	github.com/charmbracelet/bubbletea v1.3.10
	github.com/charmbracelet/lipgloss v1.1.0
	github.com/golang/snappy v1.0.0
	github.com/google/uuid v1.6.0
	github.com/joho/godotenv v1.5.1
	github.com/klauspost/compress v1.18.5
	github.com/pierrec/lz4 v2.6.1+incompatible
	github.com/schollz/progressbar/v3 v3.19.0
	github.com/shirou/gopsutil v3.21.11+incompatible
	github.com/spf13/cobra v1.10.2
	github.com/stretchr/testify v1.11.1
	github.com/vmihailenco/msgpack/v5 v5.4.1
	golang.org/x/net v0.53.0 // indirect
	golang.org/x/sys v0.43.0
	google.golang.org/grpc v1.81.0
	google.golang.org/protobuf v1.36.11
	github.com/fasthttp/router v1.5.4
	github.com/valyala/fasthttp v1.70.0
	github.com/andybalholm/brotli v1.2.1 // indirect
	github.com/aymanbagabas/go-osc52/v2 v2.0.1 // indirect
	github.com/charmbracelet/colorprofile v0.4.3 // indirect
	github.com/charmbracelet/x/ansi v0.11.7 // indirect
	github.com/charmbracelet/x/cellbuf v0.0.15 // indirect
	github.com/charmbracelet/x/term v0.2.2 // indirect
	github.com/clipperhouse/displaywidth v0.11.0 // indirect
	github.com/clipperhouse/uax29/v2 v2.7.0 // indirect
	github.com/davecgh/go-spew v1.1.1 // indirect
	github.com/erikgeiser/coninput v0.0.0-20211004153227-1c3628e74d0f // indirect
	github.com/frankban/quicktest v1.14.6 // indirect
	github.com/go-ole/go-ole v1.3.0 // indirect
	github.com/inconshreveable/mousetrap v1.1.0 // indirect
	github.com/lucasb-eyer/go-colorful v1.4.0 // indirect
	github.com/mattn/go-isatty v0.0.22 // indirect
	github.com/mattn/go-localereader v0.0.1 // indirect
	github.com/mattn/go-runewidth v0.0.23 // indirect
	github.com/mitchellh/colorstring v0.0.0-20190213212951-d06e56a500db // indirect
	github.com/muesli/ansi v0.0.0-20230316100256-276c6243b2f6 // indirect
	github.com/muesli/cancelreader v0.2.2 // indirect
	github.com/muesli/termenv v0.16.0 // indirect
	github.com/pmezard/go-difflib v1.0.0 // indirect
	github.com/rivo/uniseg v0.4.7 // indirect
	github.com/savsgio/gotils v0.0.0-20240704082632-aef3928b8a38 // indirect
	github.com/spf13/pflag v1.0.10 // indirect
	github.com/tklauser/go-sysconf v0.3.16 // indirect
	github.com/tklauser/numcpus v0.11.0 // indirect
	github.com/valyala/bytebufferpool v1.0.0 // indirect
	github.com/vmihailenco/tagparser/v2 v2.0.0 // indirect
	github.com/xo/terminfo v0.0.0-20220910002029-abceb7e1c41e // indirect
	github.com/yusufpapurcu/wmi v1.2.4 // indirect
	golang.org/x/term v0.42.0 // indirect
	golang.org/x/text v0.36.0 // indirect
	google.golang.org/genproto/googleapis/rpc v0.0.0-20260427160629-7cedc36a6bc4 // indirect
	gopkg.in/yaml.v3 v3.0.1 // indirect
)

replace github.com/hydraide/hydraide => /tmp/agents/a14/repo
replace github.com/hydraide/hydraide/sdk/go/hydraidego/v3 => /tmp/agents/a14/repo/sdk/go/hydraidego
