// Package c30: thin typed wrappers over the in-process gateway used by the C30 and C05
// harnesses. Every wrapper calls the real gateway handler (directly, or over bufconn for the
// streaming RPC) and maps "swamp does not exist" (the swamp auto-destroys when its last record
// is claimed) to an empty answer.
package c30

import (
	"context"
	"fmt"
	"io"
	"sort"
	"time"

	hydrapb "github.com/hydraide/hydraide/sdk/go/hydraidego/v3/hydraidepbgo"
	"google.golang.org/grpc/codes"
	"google.golang.org/grpc/status"
	"google.golang.org/protobuf/types/known/timestamppb"
	"verif/harness/rig"
)

type API struct {
	S      *rig.Server
	SC     hydrapb.HydraideServiceClient
	done   func()
	Island uint64
}

func New(s *rig.Server) *API {
	_, sc, done := s.SDK()
	return &API{S: s, SC: sc, done: done, Island: 1}
}

func (a *API) Close() { a.done() }

func ctx() (context.Context, context.CancelFunc) {
	return context.WithTimeout(context.Background(), 30*time.Second)
}

func missing(err error) bool {
	if err == nil {
		return false
	}
	st, ok := status.FromError(err)
	return ok && st.Code() == codes.FailedPrecondition
}

// TS builds a raw protobuf timestamp (no normalisation).
func TS(sec int64, nanos int32) *timestamppb.Timestamp {
	return &timestamppb.Timestamp{Seconds: sec, Nanos: nanos}
}

// TSNanos is the timestamp of a UnixNano instant (floor division, nanos in [0,1e9)).
func TSNanos(e int64) *timestamppb.Timestamp {
	sec := e / 1e9
	n := e % 1e9
	if n < 0 {
		n += 1e9
		sec--
	}
	return TS(sec, int32(n))
}

// Nanos reads a reported timestamp back as UnixNano; ok=false when the field is absent.
func Nanos(ts *timestamppb.Timestamp) (int64, bool) {
	if ts == nil {
		return 0, false
	}
	return ts.GetSeconds()*1e9 + int64(ts.GetNanos()), true
}

func (a *API) Set(swamp string, kv *hydrapb.KeyValuePair) (hydrapb.Status_Code, error) {
	c, cancel := ctx()
	defer cancel()
	resp, err := a.S.GW.Set(c, &hydrapb.SetRequest{Swamps: []*hydrapb.SwampRequest{{
		IslandID: a.Island, SwampName: swamp, CreateIfNotExist: true, Overwrite: true,
		KeyValues: []*hydrapb.KeyValuePair{kv}}}})
	if err != nil {
		return 0, err
	}
	if resp == nil || len(resp.Swamps) != 1 || len(resp.Swamps[0].KeysAndStatuses) != 1 {
		return 0, fmt.Errorf("set: unexpected response %v", resp)
	}
	return resp.Swamps[0].KeysAndStatuses[0].Status, nil
}

// Get returns one Treasure per key (IsExist=false for missing keys or a missing swamp).
func (a *API) Get(swamp string, keys []string) ([]*hydrapb.Treasure, error) {
	c, cancel := ctx()
	defer cancel()
	resp, err := a.S.GW.Get(c, &hydrapb.GetRequest{Swamps: []*hydrapb.GetSwamp{{IslandID: a.Island, SwampName: swamp, Keys: keys}}})
	if missing(err) || (err == nil && resp != nil && len(resp.Swamps) == 1 && !resp.Swamps[0].IsExist) {
		out := make([]*hydrapb.Treasure, len(keys))
		for i, k := range keys {
			out[i] = &hydrapb.Treasure{Key: k}
		}
		return out, nil
	}
	if err != nil {
		return nil, err
	}
	if resp == nil || len(resp.Swamps) != 1 || len(resp.Swamps[0].Treasures) != len(keys) {
		return nil, fmt.Errorf("get: unexpected response %v", resp)
	}
	return resp.Swamps[0].Treasures, nil
}

func (a *API) Delete(swamp string, keys []string) error {
	c, cancel := ctx()
	defer cancel()
	_, err := a.S.GW.Delete(c, &hydrapb.DeleteRequest{Swamps: []*hydrapb.DeleteRequest_SwampKeys{{IslandID: a.Island, SwampName: swamp, Keys: keys}}})
	if missing(err) {
		return nil
	}
	return err
}

func (a *API) GetByIndex(swamp string, it hydrapb.IndexType_Type, ot hydrapb.OrderType_Type, from, to *timestamppb.Timestamp) ([]*hydrapb.Treasure, error) {
	c, cancel := ctx()
	defer cancel()
	resp, err := a.S.GW.GetByIndex(c, &hydrapb.GetByIndexRequest{IslandID: a.Island, SwampName: swamp, IndexType: it, OrderType: ot, FromTime: from, ToTime: to})
	if missing(err) {
		return nil, nil
	}
	if err != nil {
		return nil, err
	}
	if resp == nil {
		return nil, fmt.Errorf("GetByIndex: nil response (panic swallowed?)")
	}
	return resp.Treasures, nil
}

// Stream runs GetByIndexStream over bufconn with an optional filter group.
func (a *API) Stream(swamp string, it hydrapb.IndexType_Type, ot hydrapb.OrderType_Type, fg *hydrapb.FilterGroup) ([]*hydrapb.Treasure, error) {
	c, cancel := ctx()
	defer cancel()
	st, err := a.SC.GetByIndexStream(c, &hydrapb.GetByIndexStreamRequest{IslandID: a.Island, SwampName: swamp, IndexType: it, OrderType: ot, Filters: fg})
	if err != nil {
		return nil, err
	}
	var out []*hydrapb.Treasure
	for {
		m, err := st.Recv()
		if err == io.EOF {
			return out, nil
		}
		if missing(err) {
			return nil, nil
		}
		if err != nil {
			return nil, err
		}
		out = append(out, m.Treasure)
	}
}

func ExpiredAtFilter(op hydrapb.Relational_Operator, ref *timestamppb.Timestamp) *hydrapb.FilterGroup {
	return &hydrapb.FilterGroup{Filters: []*hydrapb.TreasureFilter{{Operator: op, CompareValue: &hydrapb.TreasureFilter_ExpiredAtVal{ExpiredAtVal: ref}}}}
}

func (a *API) ShiftExpired(swamp string, howMany int32) ([]*hydrapb.Treasure, error) {
	c, cancel := ctx()
	defer cancel()
	resp, err := a.S.GW.ShiftExpiredTreasures(c, &hydrapb.ShiftExpiredTreasuresRequest{IslandID: a.Island, SwampName: swamp, HowMany: howMany})
	if missing(err) {
		return nil, nil
	}
	if err != nil {
		return nil, err
	}
	if resp == nil {
		return nil, fmt.Errorf("ShiftExpired: nil response")
	}
	return resp.Treasures, nil
}

func (a *API) ShiftMatching(swamp string, it hydrapb.IndexType_Type, ot hydrapb.OrderType_Type, from, to *timestamppb.Timestamp, fg *hydrapb.FilterGroup) ([]*hydrapb.Treasure, error) {
	c, cancel := ctx()
	defer cancel()
	resp, err := a.S.GW.ShiftMatchingTreasures(c, &hydrapb.ShiftMatchingTreasuresRequest{IslandID: a.Island, SwampName: swamp, IndexType: it, OrderType: ot, FromTime: from, ToTime: to, Filters: fg})
	if missing(err) {
		return nil, nil
	}
	if err != nil {
		return nil, err
	}
	if resp == nil {
		return nil, fmt.Errorf("ShiftMatching: nil response")
	}
	return resp.Treasures, nil
}

func (a *API) PatchExpired(swamp string, meta *hydrapb.PatchMeta, ops []*hydrapb.PatchOp) ([]*hydrapb.PatchedExpiredTreasure, error) {
	c, cancel := ctx()
	defer cancel()
	resp, err := a.S.GW.PatchExpiredTreasures(c, &hydrapb.PatchExpiredTreasuresRequest{IslandID: a.Island, SwampName: swamp, Meta: meta, Ops: ops})
	if missing(err) {
		return nil, nil
	}
	if err != nil {
		return nil, err
	}
	if resp == nil {
		return nil, fmt.Errorf("PatchExpired: nil response")
	}
	return resp.Patched, nil
}

func (a *API) Patch(swamp, key string, create bool, meta *hydrapb.PatchMeta, ops []*hydrapb.PatchOp) (hydrapb.PatchResult_StatusCode, error) {
	c, cancel := ctx()
	defer cancel()
	resp, err := a.S.GW.PatchTreasures(c, &hydrapb.PatchTreasuresRequest{IslandID: a.Island, SwampName: swamp, CreateIfNotExist: create,
		Patches: []*hydrapb.TreasurePatch{{Key: key, Ops: ops, Meta: meta}}})
	if err != nil {
		return 0, err
	}
	if resp == nil || len(resp.Results) != 1 {
		return 0, fmt.Errorf("patch: unexpected response %v", resp)
	}
	return resp.Results[0].Status, nil
}

func (a *API) IncInt64(swamp, key string, by int64, ifNot, ifExist *hydrapb.IncrementRequestMetadata) (*hydrapb.IncrementInt64Response, error) {
	c, cancel := ctx()
	defer cancel()
	return a.S.GW.IncrementInt64(c, &hydrapb.IncrementInt64Request{IslandID: a.Island, SwampName: swamp, Key: key, IncrementBy: by, SetIfNotExist: ifNot, SetIfExist: ifExist})
}

// Keys returns the sorted keys of a treasure list.
func Keys(ts []*hydrapb.Treasure) []string {
	out := make([]string, 0, len(ts))
	for _, t := range ts {
		out = append(out, t.GetKey())
	}
	sort.Strings(out)
	return out
}

// MsgpackBody is a minimal msgpack-encoded ByteArray value {"n": v} with the SDK's magic prefix,
// so that PatchTreasures / PatchExpiredTreasures accept the record.
func MsgpackBody(v byte) []byte { return []byte{0xC7, 0x00, 0x81, 0xA1, 'n', v & 0x7f} }
