package c02

import (
	"bufio"
	"encoding/json"
	"fmt"
	"os"
	"os/exec"
	"path/filepath"
	"strconv"
	"strings"
)

// Event kinds: what the process did to the .hyd file through a writer descriptor.
const (
	EvCreate = iota + 1 // openat(O_CREAT|O_TRUNC)
	EvOpenRW            // openat(O_RDWR) of the existing file (no file operation)
	EvWrite             // write(fd, buf, req) = ret   (ret < 0: failed attempt)
	EvPwrite            // pwrite64(fd, buf, req, off) = ret
	EvTrunc             // ftruncate(fd, off) = ret
	EvFsync             // fsync / fdatasync
	EvClose             // close of a writer descriptor
	EvSeek              // lseek result (cross-check of the tracked position)
)

type Event struct {
	Kind int
	Call int    // API call (MARK) during which it happened, -1 before the first
	Req  int    // requested byte count (write/pwrite)
	Ret  int64  // return value, -1 on failure
	Off  int64  // pwrite offset / ftruncate length / lseek result
	Buf  []byte // the buffer the call was given (full, also for short/failed writes)
	Pos  int64  // file position of the descriptor when the call was made (write)
}

// Op is one canonical file operation (the pairs Storage/C02Crash.v compares).
type Op struct {
	Code int   // 1 create, 2 append n, 3 header rewrite, 4 truncate n, 5 fsync, 6 close; 7/8 = unexpected
	N    int64 //
	Call int
	Buf  []byte // appended / rewritten bytes
}

// Trace is the parsed strace log of one child.
type Trace struct {
	Events []Event
	Ops    []Op
	NCalls int
	Bad    []string // anything the parser did not expect
}

const straceSyscalls = "trace=openat,write,pwrite64,lseek,ftruncate,fsync,fdatasync,renameat,renameat2,unlinkat,close"

// RunChild runs the script in a child process under strace on directory dir (created fresh
// by the caller) and returns the step results and the parsed trace.
func RunChild(self string, dir string, s *Script) ([]StepResult, *Trace, error) {
	sc := *s
	sc.Dir = dir
	raw, _ := json.Marshal(&sc)
	sfile := filepath.Join(dir, "script.json")
	if err := os.WriteFile(sfile, raw, 0o644); err != nil {
		return nil, nil, err
	}
	logf := filepath.Join(dir, "strace.log")
	args := []string{"-f", "-y", "-s", "1000000", "-x", "-o", logf, "-e", straceSyscalls}
	for _, sc := range []string{"pwrite64", "fsync", "ftruncate"} {
		if w, ok := s.Inject[sc]; ok && w != "" {
			args = append(args, "-e", fmt.Sprintf("inject=%s:error=EIO:when=%s", sc, w))
		}
	}
	args = append(args, self, "--child", sfile)
	cmd := exec.Command("strace", args...)
	cmd.Stdin, cmd.Stdout, cmd.Stderr = nil, nil, nil // /dev/null: never a regular file (RLIMIT_FSIZE)
	if err := cmd.Run(); err != nil {
		return nil, nil, fmt.Errorf("strace child: %v", err)
	}
	rb, err := os.ReadFile(filepath.Join(dir, "results.json"))
	if err != nil {
		return nil, nil, err
	}
	var res []StepResult
	if err := json.Unmarshal(rb, &res); err != nil {
		return nil, nil, err
	}
	tr, err := ParseStrace(logf, HydPath(dir))
	if err != nil {
		return nil, nil, err
	}
	return res, tr, nil
}

// ---- strace line parsing ---------------------------------------------------------------------

type call struct {
	name string
	args []string
	ret  string
}

// parseCall splits "name(arg, arg, ...) = ret ..." honouring quoted strings and <...>.
func parseCall(l string) (call, bool) {
	p := strings.IndexByte(l, '(')
	if p <= 0 {
		return call{}, false
	}
	c := call{name: l[:p]}
	for _, ch := range c.name {
		if !(ch == '_' || (ch >= 'a' && ch <= 'z') || (ch >= '0' && ch <= '9')) {
			return call{}, false
		}
	}
	i := p + 1
	start := i
	depth := 0
	for i < len(l) {
		ch := l[i]
		switch {
		case ch == '"':
			i++
			for i < len(l) && l[i] != '"' {
				if l[i] == '\\' {
					i++
				}
				i++
			}
		case ch == '<':
			// descriptor annotation 7</path> or AT_FDCWD</dir>
			for i < len(l) && l[i] != '>' {
				i++
			}
		case ch == '(' || ch == '[' || ch == '{':
			depth++
		case ch == ']' || ch == '}':
			depth--
		case ch == ')' && depth > 0:
			depth--
		case ch == ',' && depth == 0:
			c.args = append(c.args, strings.TrimSpace(l[start:i]))
			start = i + 1
		case ch == ')' && depth == 0:
			if s := strings.TrimSpace(l[start:i]); s != "" || len(c.args) > 0 {
				c.args = append(c.args, s)
			}
			rest := strings.TrimSpace(l[i+1:])
			if !strings.HasPrefix(rest, "=") {
				return call{}, false
			}
			c.ret = strings.TrimSpace(rest[1:])
			return c, true
		}
		i++
	}
	return call{}, false
}

// decodeStr decodes a strace string literal ("..." with C escapes, optionally followed by ...).
func decodeStr(a string) ([]byte, bool) {
	if len(a) < 2 || a[0] != '"' {
		return nil, false
	}
	out := make([]byte, 0, len(a)/4+8)
	i := 1
	for i < len(a) {
		ch := a[i]
		if ch == '"' {
			return out, true
		}
		if ch != '\\' {
			out = append(out, ch)
			i++
			continue
		}
		i++
		if i >= len(a) {
			return nil, false
		}
		switch e := a[i]; {
		case e == 'x':
			if i+2 >= len(a) {
				return nil, false
			}
			v, err := strconv.ParseUint(a[i+1:i+3], 16, 8)
			if err != nil {
				return nil, false
			}
			out = append(out, byte(v))
			i += 3
		case e >= '0' && e <= '7':
			j := i
			v := 0
			for j < len(a) && j < i+3 && a[j] >= '0' && a[j] <= '7' {
				v = v*8 + int(a[j]-'0')
				j++
			}
			out = append(out, byte(v))
			i = j
		default:
			m := map[byte]byte{'n': '\n', 't': '\t', 'r': '\r', 'v': '\v', 'f': '\f', 'a': 7, 'b': 8, 'e': 27, '"': '"', '\\': '\\', '\'': '\''}
			b, ok := m[e]
			if !ok {
				return nil, false
			}
			out = append(out, b)
			i++
		}
	}
	return nil, false
}

// fdOf parses "7</path>" into (7, "/path").
func fdOf(a string) (int, string) {
	p := strings.IndexByte(a, '<')
	if p < 0 {
		n, err := strconv.Atoi(a)
		if err != nil {
			return -1, ""
		}
		return n, ""
	}
	n, err := strconv.Atoi(a[:p])
	if err != nil {
		return -1, ""
	}
	path := a[p+1:]
	path = strings.TrimSuffix(path, ">")
	return n, path
}

func retInt(r string) int64 {
	f := r
	if p := strings.IndexAny(f, " <"); p >= 0 {
		f = f[:p]
	}
	n, err := strconv.ParseInt(f, 10, 64)
	if err != nil {
		return -1
	}
	return n
}

// ParseStrace reads a strace -f -y -x log and extracts what happened to file hyd.
func ParseStrace(logf, hyd string) (*Trace, error) {
	f, err := os.Open(logf)
	if err != nil {
		return nil, err
	}
	defer f.Close()
	tr := &Trace{}
	sc := bufio.NewScanner(f)
	sc.Buffer(make([]byte, 1<<20), 1<<28)
	pending := map[string]string{}
	writer := map[int]int64{} // writer descriptor -> tracked file position
	curCall := -1
	var vlen int64 = -1 // current length of the file as implied by the operations (-1 = unknown/absent)
	bad := func(format string, a ...interface{}) {
		if len(tr.Bad) < 20 {
			tr.Bad = append(tr.Bad, fmt.Sprintf(format, a...))
		}
	}
	for sc.Scan() {
		line := sc.Text()
		sp := strings.IndexByte(line, ' ')
		if sp <= 0 {
			continue
		}
		pid, rest := line[:sp], strings.TrimLeft(line[sp:], " ")
		if strings.HasPrefix(rest, "---") || strings.HasPrefix(rest, "+++") {
			continue
		}
		if strings.HasSuffix(rest, "<unfinished ...>") {
			pending[pid] = strings.TrimSuffix(rest, "<unfinished ...>")
			continue
		}
		if strings.HasPrefix(rest, "<... ") {
			q := strings.Index(rest, "resumed>")
			if q < 0 {
				continue
			}
			rest = pending[pid] + rest[q+len("resumed>"):]
			delete(pending, pid)
		}
		c, ok := parseCall(rest)
		if !ok {
			continue
		}
		switch c.name {
		case "openat":
			if len(c.args) < 3 {
				continue
			}
			pb, ok := decodeStr(c.args[1])
			if !ok || string(pb) != hyd {
				continue
			}
			fd := retInt(c.ret)
			flags := c.args[2]
			if fd < 0 {
				if strings.Contains(flags, "O_CREAT") || strings.Contains(flags, "O_RDWR") {
					bad("failed open of the data file: %s", rest)
				}
				continue
			}
			switch {
			case strings.Contains(flags, "O_CREAT") || strings.Contains(flags, "O_TRUNC"):
				writer[int(fd)] = 0
				vlen = 0
				tr.Events = append(tr.Events, Event{Kind: EvCreate, Call: curCall})
				tr.Ops = append(tr.Ops, Op{Code: 1, Call: curCall})
			case strings.Contains(flags, "O_RDWR") || strings.Contains(flags, "O_WRONLY"):
				writer[int(fd)] = 0
				tr.Events = append(tr.Events, Event{Kind: EvOpenRW, Call: curCall})
			}
		case "write":
			if len(c.args) != 3 {
				continue
			}
			fd, path := fdOf(c.args[0])
			if path == "/dev/null" {
				if b, ok := decodeStr(c.args[1]); ok && strings.HasPrefix(string(b), "MARK ") {
					n, err := strconv.Atoi(strings.TrimSpace(string(b[5:])))
					if err == nil {
						if n < 1<<30 {
							curCall = n
							tr.NCalls = n + 1
						} else {
							curCall = 1 << 30
						}
					}
				}
				continue
			}
			pos, isw := writer[fd]
			if path != hyd || !isw {
				continue
			}
			buf, ok := decodeStr(c.args[1])
			req, _ := strconv.Atoi(c.args[2])
			if !ok || len(buf) != req {
				bad("undecodable write buffer (%d of %d bytes)", len(buf), req)
			}
			ret := retInt(c.ret)
			tr.Events = append(tr.Events, Event{Kind: EvWrite, Call: curCall, Req: req, Ret: ret, Buf: buf, Pos: pos})
			if ret > 0 {
				if int(ret) > len(buf) {
					ret = int64(len(buf))
				}
				if pos != vlen {
					// the writer only ever appends: anything else is reported to the model as an
					// operation it does not have
					tr.Ops = append(tr.Ops, Op{Code: 7, N: pos, Call: curCall})
					bad("write at position %d of a file of %d bytes", pos, vlen)
				}
				tr.Ops = append(tr.Ops, Op{Code: 2, N: ret, Call: curCall, Buf: buf[:ret]})
				writer[fd] = pos + ret
				if pos+ret > vlen {
					vlen = pos + ret
				}
			}
		case "pwrite64":
			if len(c.args) != 4 {
				continue
			}
			fd, path := fdOf(c.args[0])
			if _, isw := writer[fd]; path != hyd || !isw {
				continue
			}
			buf, _ := decodeStr(c.args[1])
			req, _ := strconv.Atoi(c.args[2])
			off, _ := strconv.ParseInt(c.args[3], 10, 64)
			ret := retInt(c.ret)
			tr.Events = append(tr.Events, Event{Kind: EvPwrite, Call: curCall, Req: req, Ret: ret, Off: off, Buf: buf})
			if off == 0 && req == FH {
				o := Op{Code: 3, N: FH, Call: curCall}
				if ret == FH && len(buf) == FH {
					o.Buf = buf
				}
				tr.Ops = append(tr.Ops, o)
			} else {
				tr.Ops = append(tr.Ops, Op{Code: 8, N: off, Call: curCall})
				bad("positioned write of %d bytes at %d", req, off)
			}
		case "ftruncate":
			if len(c.args) != 2 {
				continue
			}
			fd, path := fdOf(c.args[0])
			if _, isw := writer[fd]; path != hyd || !isw {
				continue
			}
			n, _ := strconv.ParseInt(c.args[1], 10, 64)
			ret := retInt(c.ret)
			tr.Events = append(tr.Events, Event{Kind: EvTrunc, Call: curCall, Ret: ret, Off: n})
			if ret == 0 {
				tr.Ops = append(tr.Ops, Op{Code: 4, N: n, Call: curCall})
				vlen = n
			}
		case "fsync", "fdatasync":
			if len(c.args) != 1 {
				continue
			}
			fd, path := fdOf(c.args[0])
			if _, isw := writer[fd]; path != hyd || !isw {
				continue
			}
			ret := retInt(c.ret)
			tr.Events = append(tr.Events, Event{Kind: EvFsync, Call: curCall, Ret: ret})
			if ret == 0 {
				tr.Ops = append(tr.Ops, Op{Code: 5, Call: curCall})
			}
		case "lseek":
			if len(c.args) != 3 {
				continue
			}
			fd, path := fdOf(c.args[0])
			if _, isw := writer[fd]; path != hyd || !isw {
				continue
			}
			ret := retInt(c.ret)
			if ret >= 0 {
				writer[fd] = ret
				tr.Events = append(tr.Events, Event{Kind: EvSeek, Call: curCall, Off: ret})
			}
		case "close":
			if len(c.args) != 1 {
				continue
			}
			fd, path := fdOf(c.args[0])
			if _, isw := writer[fd]; path != hyd || !isw {
				continue
			}
			delete(writer, fd)
			tr.Events = append(tr.Events, Event{Kind: EvClose, Call: curCall, Ret: retInt(c.ret)})
			tr.Ops = append(tr.Ops, Op{Code: 6, Call: curCall})
		case "renameat", "renameat2", "unlinkat":
			for _, a := range c.args {
				if b, ok := decodeStr(a); ok && string(b) == hyd && retInt(c.ret) == 0 {
					tr.Ops = append(tr.Ops, Op{Code: 9, Call: curCall})
					bad("data file renamed/unlinked: %s", rest)
				}
			}
		}
	}
	if err := sc.Err(); err != nil {
		return nil, err
	}
	if curCall != 1<<30 {
		bad("end marker missing (child did not finish)")
	}
	return tr, nil
}
