package c02

import (
	"fmt"
	"os"
	"strings"

	"verif/harness/common"
)

var blockSizes = []int{64, 200, 400, 1000, 4000}

// GenScript generates a fault-free workload: nW write calls (single writes/deletes of keys
// 0..7, ~30% multi-treasure batches) with values that
// are unique within the script, 1-4 Syncs, with probability closePct a Close in the middle (the next
// write reopens the file), a final Close.
func GenScript(rng *common.Rng, idx int, minW, maxW int, closePct int) Script {
	return GenScriptB(rng, idx, minW, maxW, closePct, 12, 5)
}

// GenScriptB: batchPct percent of the write calls are batches of 2..maxBatch treasures.
func GenScriptB(rng *common.Rng, idx int, minW, maxW int, closePct, batchPct, maxBatch int) Script {
	s := Script{MBS: blockSizes[rng.Intn(len(blockSizes))]}
	if rng.Intn(3) != 0 {
		s.Name = fmt.Sprintf("verif/c02/s%d", idx)
		switch rng.Intn(4) {
		case 0:
			s.Name = (s.Name + "/0123456789abcdef")[:16] // as long as a block header
		case 1:
			s.Name += "/" + strings.Repeat("x", 1+rng.Intn(60))
		}
	}
	nW := minW + rng.Intn(maxW-minW+1)
	val := int64(0)
	for i := 0; i < nW; i++ {
		val++
		if rng.Chance(batchPct) {
			// one chronicler.Write call with 2..maxBatch treasures (what the swamp's writer tick hands
			// over): duplicate keys and deletes of keys written in the same batch included; with
			// the small block sizes the batch spans several block boundaries
			n := 2 + rng.Intn(maxBatch-1)
			st := Step{K: KBatch, FaultJ: -1}
			for m := 0; m < n; m++ {
				st.Items = append(st.Items, Item{Key: rng.Intn(8), Val: val, Del: rng.Chance(20)})
				val++
			}
			s.Steps = append(s.Steps, st)
			continue
		}
		k := KWrite
		if rng.Chance(20) {
			k = KDelete
		}
		s.Steps = append(s.Steps, Step{K: k, Key: rng.Intn(8), Val: val, FaultJ: -1})
	}
	insert := func(st Step) {
		p := 1 + rng.Intn(len(s.Steps))
		s.Steps = append(s.Steps[:p], append([]Step{st}, s.Steps[p:]...)...)
	}
	for n := 1 + rng.Intn(4); n > 0; n-- {
		insert(Step{K: KSync, FaultJ: -1})
	}
	if rng.Chance(closePct) {
		insert(Step{K: KClose, FaultJ: -1})
	}
	s.Steps = append(s.Steps, Step{K: KClose, FaultJ: -1})
	return s
}

// GenAfter generates the workload run on a crash image: 1-4 writes/deletes with values
// (>= 1000000) no script uses, then Close.
func GenAfter(rng *common.Rng) []Step {
	var st []Step
	n := 1 + rng.Intn(4)
	for i := 0; i < n; i++ {
		k := KWrite
		if rng.Chance(25) {
			k = KDelete
		}
		st = append(st, Step{K: k, Key: rng.Intn(8), Val: int64(1000000 + rng.Intn(1000000)), FaultJ: -1})
	}
	return append(st, Step{K: KClose, FaultJ: -1})
}

// ImgResult is what the implementation did with one crash image.
type ImgResult struct {
	Loaded   State
	After    []Api
	Reloaded State
}

// EvalImage puts the image (present = false: no file) into a fresh directory, loads it, runs
// the after-workload with a new chronicler, and loads again. The flush decisions of the
// after-workload are read off the growth of the file.
func EvalImage(root string, s *Script, img []byte, present bool, after []Step) ImgResult {
	dir, loaded := LoadImage(root, img, present, s.MBS, s.Name)
	defer os.RemoveAll(dir)
	as := &Script{Name: s.Name, MBS: s.MBS, Steps: after}
	sizes, res := RunInProc(dir, as)
	pre := int64(FH + s.NLen())
	prev := pre // the writer (re)creates a file whose header/name area is incomplete
	if present && int64(len(img)) >= pre {
		prev = int64(GoodEnd(img, s.NLen())) // ... and cuts a torn tail off otherwise
	}
	var hist []Api
	for i, st := range after {
		if !res[i].Executed {
			continue
		}
		if res[i].Opened {
			hist = append(hist, Api{Kind: "open", J: -1})
		}
		a := Api{J: -1, SyncOK: true}
		switch st.K {
		case KWrite, KDelete:
			a.Kind, a.Key, a.Val, a.Del = "write", st.Key, st.Val, st.K == KDelete
		case KSync:
			a.Kind = "sync"
		case KClose:
			a.Kind = "close"
		}
		if g := sizes[i] - prev; g > 0 {
			a.Flushed, a.Sz = true, g-BH
			if a.Sz < 0 {
				a.Sz = 0 // growth no block explains: the model will not follow, which is reported
			}
		}
		if sizes[i] >= 0 {
			prev = sizes[i]
		}
		hist = append(hist, a)
	}
	return ImgResult{Loaded: loaded, After: hist, Reloaded: LoadState(dir, s.MBS, s.Name)}
}

// TempRoot creates the directory all case directories of a run live in: $VERIF_TMP, else
// /dev/shm (the harness builds crash images itself, so the durability of the scratch file
// system is irrelevant and a memory file system keeps fsync cheap), else the default.
func TempRoot(prefix string) (string, error) {
	for _, base := range []string{os.Getenv("VERIF_TMP"), "/dev/shm"} {
		if base == "" {
			continue
		}
		if d, err := os.MkdirTemp(base, prefix); err == nil {
			return d, nil
		}
	}
	return os.MkdirTemp("", prefix)
}

// Compact renders a script on one line: name|mbs|steps (W key=val, D key, S, C; !j = fault).
func (s *Script) Compact() string {
	var sb strings.Builder
	fmt.Fprintf(&sb, "%q|%d|", s.Name, s.MBS)
	for i, st := range s.Steps {
		if i > 0 {
			sb.WriteByte(' ')
		}
		switch st.K {
		case KWrite:
			fmt.Fprintf(&sb, "W%d=%d", st.Key, st.Val)
		case KDelete:
			fmt.Fprintf(&sb, "D%d", st.Key)
		case KBatch:
			sb.WriteString("B[")
			for n, it := range st.Items {
				if n > 0 {
					sb.WriteByte(',')
				}
				if it.Del {
					fmt.Fprintf(&sb, "D%d", it.Key)
				} else {
					fmt.Fprintf(&sb, "W%d=%d", it.Key, it.Val)
				}
			}
			sb.WriteByte(']')
		default:
			sb.WriteString(st.K)
		}
		if st.FaultJ >= 0 {
			fmt.Fprintf(&sb, "!%d", st.FaultJ)
		}
	}
	return sb.String()
}
