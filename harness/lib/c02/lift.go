package c02

import (
	"encoding/binary"
	"fmt"
	"strings"
)

// Api is one call of the model's API history (Storage/C02Writer.v, type api).
type Api struct {
	Kind    string // "open", "write", "sync", "close"
	Key     int
	Val     int64
	Del     bool
	Flushed bool  // the call wrote (or tried to write) a block
	Sz      int64 // compressed payload size of that block
	J       int64 // -1: block written completely; >= 0: the block write stopped after J bytes
	HdrFail bool  // block written, in-place header update failed
	SyncOK  bool  // header update + fsync of Sync/Close succeeded
	// TruncFail: the block write stopped short (J >= 0) and the truncation back failed too
	TruncFail bool
	// Pre: the call found a dirty tail, its truncation failed again, nothing else was attempted
	Pre bool
	// Trunc (Kind "openfail"): the truncation of the torn tail succeeded, the fsync after it failed
	Trunc bool
}

func ffCoq(a Api) string {
	switch {
	case a.Pre:
		return "C02Writer.FFpre"
	case a.J >= 0 && a.TruncFail:
		return fmt.Sprintf("(C02Writer.FFshortDirty %d)", a.J)
	case a.J >= 0:
		return fmt.Sprintf("(C02Writer.FFshort %d)", a.J)
	case a.HdrFail:
		return "C02Writer.FFhdr"
	}
	return "C02Writer.FFok"
}

func (a Api) Coq() string {
	switch a.Kind {
	case "open":
		return "C02Writer.AOpen"
	case "openfail":
		if a.Trunc {
			return "C02Writer.AOpenFail true"
		}
		return "C02Writer.AOpenFail false"
	case "write":
		e := fmt.Sprintf("(%d, Some %d)", a.Key, a.Val)
		if a.Del {
			e = fmt.Sprintf("(%d, None)", a.Key)
		}
		if !a.Flushed {
			return "C02Writer.AWrite " + e + " None"
		}
		return fmt.Sprintf("C02Writer.AWrite %s (Some (%d, %s))", e, a.Sz, ffCoq(a))
	case "sync", "close":
		c := "C02Writer.ASync"
		if a.Kind == "close" {
			c = "C02Writer.AClose"
		}
		sz, ff := int64(1), "C02Writer.FFok"
		if a.Flushed {
			sz, ff = a.Sz, ffCoq(a)
		}
		ok := "true"
		if !a.SyncOK {
			ok = "false"
		}
		return fmt.Sprintf("%s %d %s %s", c, sz, ff, ok)
	}
	return "C02Writer.AOpen"
}

func HistCoq(h []Api) string {
	s := make([]string, len(h))
	for i, a := range h {
		s[i] = a.Coq()
	}
	return "[" + strings.Join(s, "; ") + "]"
}

func HistHuman(h []Api) []string {
	s := make([]string, len(h))
	for i, a := range h {
		s[i] = strings.ReplaceAll(a.Coq(), "C02Writer.", "")
	}
	return s
}

func StateCoq(st State) string {
	s := make([]string, len(st))
	for i, p := range st {
		s[i] = fmt.Sprintf("(%d, %d)", p[0], p[1])
	}
	return "[" + strings.Join(s, "; ") + "]"
}

func OpsCoq(ops []Op) string {
	s := make([]string, len(ops))
	for i, o := range ops {
		s[i] = fmt.Sprintf("(%d, %d)", o.Code, o.N)
	}
	return "[" + strings.Join(s, "; ") + "]"
}

func OpsHuman(ops []Op) []string {
	names := map[int]string{1: "create", 2: "append", 3: "hdr", 4: "trunc", 5: "fsync", 6: "close", 7: "write-not-at-end", 8: "pwrite-elsewhere", 9: "rename/unlink"}
	s := make([]string, len(ops))
	for i, o := range ops {
		s[i] = fmt.Sprintf("%s %d @call%d", names[o.Code], o.N, o.Call)
	}
	return s
}

func BoolsCoq(b []bool) string {
	s := make([]string, len(b))
	for i, x := range b {
		if x {
			s[i] = "true"
		} else {
			s[i] = "false"
		}
	}
	return "[" + strings.Join(s, "; ") + "]"
}

// liftFlush inspects the events of one API call (after the part that belongs to the lazy
// open) and fills in the flush outcome of a.
func liftFlush(a *Api, evs []Event) {
	a.J = -1
	a.SyncOK = true
	var total int64
	hdrSeen := false
	var firstPw, fsyncEv *Event
	nPw := 0
	for i := range evs {
		e := &evs[i]
		switch e.Kind {
		case EvTrunc:
			if e.Ret != 0 {
				if !hdrSeen {
					// the retried truncation of an earlier failure failed again: flushLocked gave up
					a.Pre, a.Flushed, a.Sz = true, true, 1
				} else {
					a.TruncFail = true
				}
			}
		case EvWrite:
			if !hdrSeen {
				hdrSeen = true
				a.Flushed = true
				if len(e.Buf) >= 4 {
					a.Sz = int64(binary.LittleEndian.Uint32(e.Buf[0:4]))
				}
			}
			if e.Ret > 0 {
				total += e.Ret
			}
		case EvPwrite:
			if firstPw == nil {
				firstPw = e
			}
			nPw++
		case EvFsync:
			fsyncEv = e
		}
	}
	if a.Pre {
		if a.Kind == "sync" || a.Kind == "close" {
			a.SyncOK = true // irrelevant: the flush failed first
		}
		return
	}
	if a.Flushed {
		if total < BH+a.Sz {
			a.J = total
			return
		}
		if firstPw != nil && firstPw.Ret != FH {
			a.HdrFail = true
			return
		}
	}
	if a.Kind == "sync" || a.Kind == "close" {
		// the Sync/Close header update is the last positioned write, then fsync
		var lastPw *Event
		for i := range evs {
			if evs[i].Kind == EvPwrite {
				lastPw = &evs[i]
			}
		}
		need := 1
		if a.Flushed {
			need = 2 // the flush rewrites the header too
		}
		if nPw < need || lastPw == nil || lastPw.Ret != FH || fsyncEv == nil || fsyncEv.Ret != 0 {
			a.SyncOK = false
		}
	}
}

// Lift builds the model history, the per-call results (AOpen = true) and, for every step,
// the number of model calls done after it (-1 for skipped steps).
func Lift(s *Script, res []StepResult, tr *Trace) (hist []Api, oks []bool, done []int) {
	byCall := map[int][]Event{}
	for _, e := range tr.Events {
		if e.Kind == EvSeek {
			continue
		}
		byCall[e.Call] = append(byCall[e.Call], e)
	}
	done = make([]int, len(res))
	buffered := 0 // entries in the writer's buffer (lifted)
	for i, r := range res {
		if !r.Executed {
			done[i] = -1
			continue
		}
		st := s.Steps[i]
		evs := byCall[r.Call]
		if r.Opened && r.OpenFailed {
			// opening the existing file failed while its torn tail was being cut off
			tr := false
			for _, e := range evs {
				if e.Kind == EvTrunc && e.Ret == 0 {
					tr = true
				}
			}
			hist = append(hist, Api{Kind: "openfail", J: -1, Trunc: tr})
			oks = append(oks, false)
			for _, it := range st.ItemsOf() {
				hist = append(hist, Api{Kind: "write", Key: it.Key, Val: it.Val, Del: it.Del, J: -1, SyncOK: true})
				oks = append(oks, r.OK)
			}
			done[i] = len(hist)
			continue
		}
		if r.Opened {
			hist = append(hist, Api{Kind: "open", J: -1})
			oks = append(oks, true)
			// strip what belongs to the open: [openat O_RDWR] | create, header, name
			k := 0
			for k < len(evs) && evs[k].Kind == EvOpenRW {
				k++
			}
			if k < len(evs) && evs[k].Kind == EvCreate {
				k++
				if k < len(evs) && evs[k].Kind == EvWrite && evs[k].Req == FH {
					k++
				}
				if s.NLen() > 0 && k < len(evs) && evs[k].Kind == EvWrite && evs[k].Req == s.NLen() {
					k++
				}
			} else {
				// torn tail cut off on open: ftruncate + fsync (never in a child run, kept for completeness)
				for k < len(evs) && (evs[k].Kind == EvTrunc || evs[k].Kind == EvFsync) {
					k++
				}
			}
			evs = evs[k:]
		}
		if r.Opened {
			buffered = 0
		}
		if st.K == KBatch {
			// one chronicler.Write call with several treasures: the block header every flush
			// attempt hands to write(2) says how many entries the buffer held, which tells
			// which treasure of the batch triggered it
			items := st.ItemsOf()
			groups := splitFlushGroups(evs)
			gi := 0
			allOK := true
			first := len(hist)
			for _, it := range items {
				a := Api{Kind: "write", Key: it.Key, Val: it.Val, Del: it.Del, J: -1, SyncOK: true}
				buffered++
				ok := true
				if gi < len(groups) && (groups[gi].entries == buffered || groups[gi].entries == -1) {
					liftFlush(&a, groups[gi].evs)
					a.SyncOK = true
					gi++
					ok = a.J < 0 && !a.HdrFail && !a.Pre
					if a.J < 0 && !a.Pre {
						buffered = 0 // the block is in the file (even if the header update failed)
					}
				}
				allOK = allOK && ok
				hist = append(hist, a)
				oks = append(oks, ok)
			}
			if gi != len(groups) {
				tr.Bad = append(tr.Bad, fmt.Sprintf("call %d: %d of %d block writes of a batch could not be attributed to a treasure", r.Call, len(groups)-gi, len(groups)))
				if len(hist) > first {
					oks[len(oks)-1] = !oks[len(oks)-1] // make the disagreement visible to the model check
				}
			} else if allOK != r.OK && len(hist) > first {
				// the call logged an error although every flush went well (or the other way round)
				tr.Bad = append(tr.Bad, fmt.Sprintf("call %d: chronicler.Write error log = %v, lifted flush results = %v", r.Call, !r.OK, allOK))
				oks[len(oks)-1] = !oks[len(oks)-1]
			}
			done[i] = len(hist)
			continue
		}
		a := Api{J: -1, SyncOK: true}
		switch st.K {
		case KWrite, KDelete:
			a.Kind, a.Key, a.Val, a.Del = "write", st.Key, st.Val, st.K == KDelete
			buffered++
		case KSync:
			a.Kind = "sync"
		case KClose:
			a.Kind = "close"
		}
		liftFlush(&a, evs)
		if a.Kind == "write" {
			a.SyncOK = true
		}
		if (a.Flushed && a.J < 0 && !a.Pre) || a.Kind == "close" {
			buffered = 0
		}
		hist = append(hist, a)
		oks = append(oks, r.OK)
		done[i] = len(hist)
	}
	return
}

type flushGroup struct {
	entries int // EntryCount of the block header the writer tried to write
	evs     []Event
}

// splitFlushGroups cuts the events of one chronicler.Write call into one group per flush
// attempt: a group starts at the write(2) of a 16-byte block header (successful or not).
func splitFlushGroups(evs []Event) []flushGroup {
	var gs []flushGroup
	var lead []Event
	truncs := 0 // truncations seen in the current group after its block header
	for _, e := range evs {
		if e.Kind == EvWrite && e.Req == BH && len(e.Buf) >= 10 {
			g := flushGroup{entries: int(binary.LittleEndian.Uint16(e.Buf[8:10]))}
			g.evs = append(append([]Event{}, lead...), e)
			lead = nil
			truncs = 0
			gs = append(gs, g)
			continue
		}
		if e.Kind == EvTrunc && (len(gs) == 0 || truncs >= 1 || len(lead) > 0) {
			// not the truncation back of the current group: the retried removal of a dirty tail
			// at the start of the next flush attempt
			if e.Ret != 0 {
				// it failed again: that flush attempt ends here (entries unknown: next treasure)
				gs = append(gs, flushGroup{entries: -1, evs: append(append([]Event{}, lead...), e)})
				lead = nil
				truncs = 1
				continue
			}
			lead = append(lead, e)
			continue
		}
		if e.Kind == EvTrunc {
			truncs++
		}
		if len(gs) == 0 {
			lead = append(lead, e)
			continue
		}
		gs[len(gs)-1].evs = append(gs[len(gs)-1].evs, e)
	}
	return gs
}

// ---- the model's operation log, rebuilt in Go (fault-free histories only) ------------------

// MOp is one model file operation: code/n as in canon_op, Drop = a zero-length append (an
// operation of the model's log that the canonical log omits).
type MOp struct {
	Code int
	N    int64
	Drop bool
}

// ModelOps follows w_step of Storage/C02Writer.v for a fault-free history that starts without
// a file. ok = false when the history contains something this replay does not cover.
func ModelOps(nlen int, h []Api) (ops []MOp, ok bool) {
	exists := false
	open := false
	flush := func(a Api) {
		ops = append(ops, MOp{2, BH, false}, MOp{2, a.Sz, a.Sz == 0}, MOp{3, FH, false})
	}
	for _, a := range h {
		if a.J >= 0 || a.HdrFail || a.Pre || a.Kind == "openfail" || ((a.Kind == "sync" || a.Kind == "close") && !a.SyncOK) {
			return nil, false
		}
		switch a.Kind {
		case "open":
			if open {
				return nil, false
			}
			if !exists {
				ops = append(ops, MOp{1, 0, false}, MOp{2, FH, false}, MOp{2, int64(nlen), nlen == 0})
				exists = true
			}
			open = true
		case "write":
			if !open {
				return nil, false
			}
			if a.Flushed {
				flush(a)
			}
		case "sync":
			if !open {
				return nil, false
			}
			if a.Flushed {
				flush(a)
			}
			ops = append(ops, MOp{3, FH, false}, MOp{5, 0, false})
		case "close":
			if !open {
				return nil, false
			}
			if a.Flushed {
				flush(a)
			}
			ops = append(ops, MOp{3, FH, false}, MOp{5, 0, false}, MOp{6, 0, false})
			open = false
		}
	}
	return ops, true
}

// PairOps checks canon(model ops) = observed ops and returns, for every model op count n
// (0..len(mops)), the number of observed ops it corresponds to.
func PairOps(mops []MOp, obs []Op) ([]int, bool) {
	idx := make([]int, len(mops)+1)
	j := 0
	for i, m := range mops {
		idx[i] = j
		if m.Drop {
			continue
		}
		if j >= len(obs) || obs[j].Code != m.Code || obs[j].N != m.N {
			return nil, false
		}
		j++
	}
	idx[len(mops)] = j
	return idx, j == len(obs)
}

// ---- byte images -----------------------------------------------------------------------------

// GoodEnd is the end offset of the last complete block of a byte image whose swamp name has
// nlen bytes; 0 when the header+name area itself is incomplete.
func GoodEnd(img []byte, nlen int) int {
	pre := FH + nlen
	if len(img) < pre {
		return 0
	}
	pos := pre
	for pos+BH <= len(img) {
		sz := int(binary.LittleEndian.Uint32(img[pos : pos+4]))
		next := pos + BH + sz
		if next > len(img) {
			break
		}
		pos = next
	}
	return pos
}

// BlockBoundaries returns the offsets at which blocks of a byte image start/end (beginning
// with the end of the header+name area) and the number of complete blocks.
func BlockBoundaries(img []byte, nlen int) (bounds []int, nblocks int) {
	pre := FH + nlen
	if len(img) < pre {
		return nil, 0
	}
	pos := pre
	bounds = append(bounds, pos)
	for pos+BH <= len(img) {
		sz := int(binary.LittleEndian.Uint32(img[pos : pos+4]))
		next := pos + BH + sz
		if next > len(img) {
			break
		}
		pos = next
		bounds = append(bounds, pos)
		nblocks++
	}
	return
}

// FileImages replays observed operations on the volatile and the durable byte image.
type FileImages struct {
	Vol, Dur     []byte
	VolOK, DurOK bool  // file exists
	SegEnds      []int // end offsets of the appends that make up Vol (region boundaries)
}

func (f *FileImages) Apply(o Op) {
	switch o.Code {
	case 1:
		f.Vol, f.VolOK, f.SegEnds = []byte{}, true, nil
	case 2:
		f.Vol = append(append([]byte{}, f.Vol...), o.Buf...)
		f.SegEnds = append(append([]int{}, f.SegEnds...), len(f.Vol))
	case 3:
		if len(o.Buf) == FH && len(f.Vol) >= FH {
			v := append([]byte{}, f.Vol...)
			copy(v[:FH], o.Buf)
			f.Vol = v
		}
	case 4:
		if int(o.N) <= len(f.Vol) {
			f.Vol = append([]byte{}, f.Vol[:o.N]...)
		}
		var se []int
		for _, e := range f.SegEnds {
			if e <= int(o.N) {
				se = append(se, e)
			}
		}
		f.SegEnds = se
	case 5:
		f.Dur, f.DurOK = append([]byte{}, f.Vol...), f.VolOK
	}
}
