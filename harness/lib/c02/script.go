// Package c02: shared machinery of the C02 (crash at any point) and C25 (disk write faults)
// correspondence harnesses for the V2 chronicler.
//
//   - a *script* is a workload for one chronicler: swamp name, block size and a list of
//     Write/Delete/Sync/Close steps (every Write call carries exactly one treasure);
//   - the script is executed by a child process (the harness binary re-executed with
//     --child) under strace, which gives the exact sequence of file operations on the .hyd
//     file without any hook in the code under test; RLIMIT_FSIZE in the child produces real
//     short writes + EFBIG for the fault property;
//   - the observed operations are lifted to the API history of Storage/C02Writer.v (flush
//     decisions, payload sizes and fault outcomes are observed, not predicted).
package c02

import (
	"context"
	"encoding/json"
	"fmt"
	"log/slog"
	"os"
	"os/signal"
	"path/filepath"
	"runtime"
	"sort"
	"sync/atomic"
	"syscall"

	"github.com/hydraide/hydraide/app/core/hydra/swamp/beacon"
	"github.com/hydraide/hydraide/app/core/hydra/swamp/chronicler"
	"github.com/hydraide/hydraide/app/core/hydra/swamp/treasure"
	"github.com/hydraide/hydraide/app/core/hydra/swamp/treasure/guard"
)

const (
	FH = 64 // v2.FileHeaderSize
	BH = 16 // v2.BlockHeaderSize
	// SwampFile is the base name of the chronicler path inside a case directory; the data
	// file is <dir>/sw.hyd.
	SwampFile = "sw"
)

// Step kinds.
const (
	KWrite  = "W"
	KDelete = "D"
	KBatch  = "B" // one chronicler.Write call with several treasures (Items)
	KSync   = "S"
	KClose  = "C"
)

// Item is one treasure of a batch.
type Item struct {
	Key int   `json:"key"`
	Val int64 `json:"val"`
	Del bool  `json:"del,omitempty"`
}

// ItemsOf returns the treasures a write step hands to chronicler.Write (one for W/D).
func (st *Step) ItemsOf() []Item {
	switch st.K {
	case KBatch:
		return st.Items
	case KWrite, KDelete:
		return []Item{{st.Key, st.Val, st.K == KDelete}}
	}
	return nil
}

// IsWrite: the step is a chronicler.Write call.
func (st *Step) IsWrite() bool { return st.K == KWrite || st.K == KDelete || st.K == KBatch }

type Step struct {
	K   string `json:"k"`
	// Items (K = "B"): the treasures of one chronicler.Write call, in order
	Items []Item `json:"items,omitempty"`
	Key int    `json:"key,omitempty"`
	Val int64  `json:"val,omitempty"`
	// FaultJ >= 0: lower RLIMIT_FSIZE right before this call to (size of the file before the
	// call + FaultJ) so that the appending writes of the call stop after exactly FaultJ bytes;
	// the limit is restored right after the call. -1: no fault.
	FaultJ int `json:"j"`
	// Snap: copy the .hyd file to <dir>/snap_<step index> right after the call.
	Snap bool `json:"snap,omitempty"`
}

type Script struct {
	Name  string `json:"name"` // swamp name stored behind the file header ("" allowed)
	MBS   int    `json:"mbs"`  // maxBlockSize
	Steps []Step `json:"steps"`
	Dir   string `json:"dir,omitempty"` // case directory (child mode)
	// Inject: syscall name (pwrite64 | fsync | ftruncate) -> strace "when" expression ("3",
	// "1..2", "2+"): strace makes those calls (counted per syscall over the child's workload
	// thread) fail with EIO (strace -e inject=<syscall>:error=EIO:when=<expr>).
	// The child locks its workload goroutine to the main thread, so the ordinal counts exactly
	// the calls the workload makes (in-place header rewrites / fsyncs / truncations of the
	// .hyd file; nothing else in the child uses these calls).
	Inject map[string]string `json:"inject,omitempty"`
}

func (s *Script) NLen() int { return len(s.Name) }

// StepResult is what the child reports per step.
type StepResult struct {
	Executed bool  `json:"x"`    // false: the step was skipped (Sync/Close without an open writer)
	Call     int   `json:"call"` // index of the API call (MARK number), -1 when skipped
	OK       bool  `json:"ok"`
	Opened   bool  `json:"opened"` // the call opened the writer lazily (AOpen precedes it in the model history)
	// OpenFailed: the lazy open failed (no writer descriptor on the .hyd file after the call):
	// the treasure was rejected and the next Write opens again
	OpenFailed bool `json:"open_failed,omitempty"`
	Limit    int64 `json:"limit"`  // RLIMIT_FSIZE used, 0 = none
	Snap     bool  `json:"snap"`
}

type State [][2]int64 // (key id, value), ascending key id

func HydPath(dir string) string { return filepath.Join(dir, SwampFile+".hyd") }

// ---- slog: silent, counts Error records ------------------------------------------------

type countingHandler struct{ errs *atomic.Int64 }

func (h countingHandler) Enabled(_ context.Context, l slog.Level) bool { return l >= slog.LevelError }
func (h countingHandler) Handle(_ context.Context, r slog.Record) error {
	if r.Level >= slog.LevelError {
		h.errs.Add(1)
	}
	return nil
}
func (h countingHandler) WithAttrs([]slog.Attr) slog.Handler { return h }
func (h countingHandler) WithGroup(string) slog.Handler      { return h }

var errorRecords atomic.Int64

// SilenceLogs installs a slog default handler that prints nothing and counts Error records.
func SilenceLogs() { slog.SetDefault(slog.New(countingHandler{&errorRecords})) }

// ErrorRecords returns the number of Error-level records logged so far.
func ErrorRecords() int64 { return errorRecords.Load() }

// ---- treasures, chronicler ----------------------------------------------------------------

func MakeTreasure(key int, val int64, del bool) treasure.Treasure {
	tr := treasure.New(nil)
	g := tr.StartTreasureGuard(false, guard.BodyAuthID)
	tr.BodySetKey(g, fmt.Sprintf("k%d", key))
	tr.SetContentInt64(g, val)
	if del {
		tr.BodySetForDeletion(g, "verif", true)
	}
	tr.ReleaseTreasureGuard(g)
	return tr
}

func NewChron(dir string, mbs int, name string) chronicler.Chronicler {
	return chronicler.NewV2VerifC02(filepath.Join(dir, SwampFile), 10, mbs, name)
}

// LoadState loads <dir>/sw.hyd with a fresh chronicler and returns the swamp content.
func LoadState(dir string, mbs int, name string) State {
	b := beacon.New()
	NewChron(dir, mbs, name).Load(b)
	var st State
	for k, t := range b.GetAll() {
		var id int
		if _, err := fmt.Sscanf(k, "k%d", &id); err != nil {
			id = 1 << 20 // a key the workload never wrote: shows up as a mismatch
		}
		v, err := t.GetContentInt64()
		if err != nil || v < 0 {
			v = 999999999 // not an int64 content the workload wrote: shows up as a mismatch
		}
		st = append(st, [2]int64{int64(id), v})
	}
	sort.Slice(st, func(i, j int) bool { return st[i][0] < st[j][0] })
	return st
}

// LoadImage materialises a file image (nil = no file) in a fresh directory below root and
// returns that directory together with the loaded state.
func LoadImage(root string, img []byte, present bool, mbs int, name string) (string, State) {
	dir, err := os.MkdirTemp(root, "img")
	if err != nil {
		panic(err)
	}
	if present {
		if err := os.WriteFile(HydPath(dir), img, 0o644); err != nil {
			panic(err)
		}
	}
	return dir, LoadState(dir, mbs, name)
}

// hydOpen: does this process hold a descriptor on path (is the chronicler's writer open)?
func hydOpen(path string) bool {
	ents, err := os.ReadDir("/proc/self/fd")
	if err != nil {
		return true
	}
	for _, e := range ents {
		if l, err := os.Readlink("/proc/self/fd/" + e.Name()); err == nil && l == path {
			return true
		}
	}
	return false
}

func fileSize(path string) (int64, bool) {
	fi, err := os.Stat(path)
	if err != nil {
		return 0, false
	}
	return fi.Size(), true
}

// runner executes steps against chronicler instances on one directory.
type runner struct {
	dir    string
	s      *Script
	ch     chronicler.Chronicler
	open   bool
	before func(call int, st *Step) // called right before the API call
	after  func(call int, st *Step)
}

func (r *runner) run() []StepResult {
	res := make([]StepResult, len(r.s.Steps))
	r.ch = NewChron(r.dir, r.s.MBS, r.s.Name)
	r.ch.CreateDirectoryIfNotExists()
	call := 0
	for i := range r.s.Steps {
		st := &r.s.Steps[i]
		if (st.K == KSync || st.K == KClose) && !r.open {
			res[i] = StepResult{Executed: false, Call: -1}
			continue
		}
		res[i] = StepResult{Executed: true, Call: call}
		if r.before != nil {
			r.before(call, st)
		}
		switch st.K {
		case KWrite, KDelete, KBatch:
			res[i].Opened = !r.open
			var trs []treasure.Treasure
			for _, it := range st.ItemsOf() {
				trs = append(trs, MakeTreasure(it.Key, it.Val, it.Del))
			}
			e0 := ErrorRecords()
			r.ch.Write(trs)
			res[i].OK = ErrorRecords() == e0
			r.open = true
			if res[i].Opened && !res[i].OK && !hydOpen(HydPath(r.dir)) {
				res[i].OpenFailed = true
				r.open = false
			}
		case KSync:
			res[i].OK = r.ch.Sync() == nil
		case KClose:
			err := r.ch.Close()
			res[i].OK = err == nil
			r.open = false
			if err != nil {
				// a failed Close leaves a dead writer inside the chronicler: the instance is finished
				r.ch = NewChron(r.dir, r.s.MBS, r.s.Name)
				r.ch.CreateDirectoryIfNotExists()
			}
		}
		if r.after != nil {
			r.after(call, st)
		}
		call++
	}
	return res
}

// RunInProc runs a fault-free script in this process and returns, per step, the size of the
// .hyd file after the call (-1 = no file) plus the step results.
func RunInProc(dir string, s *Script) ([]int64, []StepResult) {
	sizes, _, res := RunInProcBlocks(dir, s)
	return sizes, res
}

// RunInProcBlocks is RunInProc plus, per step, the number of complete blocks in the file
// after the call.
func RunInProcBlocks(dir string, s *Script) ([]int64, []int, []StepResult) {
	r := &runner{dir: dir, s: s}
	idx := map[*Step]int{}
	for i := range s.Steps {
		idx[&s.Steps[i]] = i
	}
	out := make([]int64, len(s.Steps))
	for i := range out {
		out[i] = -2 // skipped
	}
	blocks := make([]int, len(s.Steps))
	r.after = func(_ int, st *Step) {
		n, ok := fileSize(HydPath(dir))
		if !ok {
			n = -1
		}
		out[idx[st]] = n
		if b, err := os.ReadFile(HydPath(dir)); err == nil {
			_, blocks[idx[st]] = BlockBoundaries(b, s.NLen())
		}
	}
	res := r.run()
	return out, blocks, res
}

// ---- child mode --------------------------------------------------------------------------

// ChildMain runs the script stored in file and exits. The strace log of this process is
// split per API call by the "MARK i" lines written to /dev/null.
func ChildMain(file string) {
	runtime.LockOSThread() // every syscall of the workload is made by the main thread (see Script.Inject)
	SilenceLogs()
	signal.Ignore(syscall.SIGXFSZ)
	raw, err := os.ReadFile(file)
	if err != nil {
		fmt.Fprintln(os.Stderr, err)
		os.Exit(3)
	}
	var s Script
	if err := json.Unmarshal(raw, &s); err != nil {
		fmt.Fprintln(os.Stderr, err)
		os.Exit(3)
	}
	marks, err := os.OpenFile("/dev/null", os.O_WRONLY, 0)
	if err != nil {
		os.Exit(3)
	}
	var lim syscall.Rlimit
	if err := syscall.Getrlimit(syscall.RLIMIT_FSIZE, &lim); err != nil {
		os.Exit(3)
	}
	hyd := HydPath(s.Dir)
	r := &runner{dir: s.Dir, s: &s}
	idx := map[*Step]int{}
	for i := range s.Steps {
		idx[&s.Steps[i]] = i
	}
	limits := make([]int64, len(s.Steps))
	r.before = func(call int, st *Step) {
		fmt.Fprintf(marks, "MARK %d\n", call)
		if st.FaultJ >= 0 {
			base, ok := fileSize(hyd)
			if !ok || (!r.open && base < int64(FH+len(s.Name))) {
				base = int64(FH + len(s.Name)) // the call creates the file first
			}
			l := base + int64(st.FaultJ)
			limits[idx[st]] = l
			syscall.Setrlimit(syscall.RLIMIT_FSIZE, &syscall.Rlimit{Cur: uint64(l), Max: lim.Max})
		}
	}
	r.after = func(call int, st *Step) {
		if st.FaultJ >= 0 {
			syscall.Setrlimit(syscall.RLIMIT_FSIZE, &syscall.Rlimit{Cur: lim.Cur, Max: lim.Max})
		}
		if st.Snap {
			if b, err := os.ReadFile(hyd); err == nil {
				os.WriteFile(filepath.Join(s.Dir, fmt.Sprintf("snap_%d", idx[st])), b, 0o644)
			}
		}
	}
	res := r.run()
	fmt.Fprintf(marks, "MARK %d\n", 1<<30) // end marker
	for i := range res {
		res[i].Limit = limits[i]
		res[i].Snap = s.Steps[i].Snap
	}
	out, _ := json.Marshal(res)
	if err := os.WriteFile(filepath.Join(s.Dir, "results.json"), out, 0o644); err != nil {
		os.Exit(3)
	}
	os.Exit(0)
}
