// Package c11lib: helpers shared by the C11 (claims) and C12 (cap) harnesses – a thin client
// over the in-process gateway (harness/rig) for swamps whose records are msgpack maps
// {"status": string, "grp": int64} with an optional expiry, plus a scheduler controller for
// the app/verifhook instrumentation points.
package c11lib

import (
	"context"
	"fmt"
	"os"
	"sort"
	"sync"
	"time"

	"github.com/hydraide/hydraide/app/verifhook"
	hydrapb "github.com/hydraide/hydraide/sdk/go/hydraidego/v3/hydraidepbgo"
	"github.com/vmihailenco/msgpack/v5"
	"google.golang.org/protobuf/types/known/timestamppb"
	"verif/harness/rig"
)

const Island = uint64(1)

// Anchor is a record that never matches any filter used by the harness and never expires; it
// keeps the swamp from auto-destroying when the last claimable record is shifted.
const Anchor = "zz-anchor"

type Env struct {
	S    *rig.Server
	Root string
	n    int
	mu   sync.Mutex
}

func NewEnv(tag string) *Env {
	rig.Quiet()
	root, _ := os.MkdirTemp("", "verif-"+tag)
	s := rig.Start(root, true)
	s.Register("c11m/*/*", true, 3600, 1, 8192)   // in-memory swamps
	s.Register("c11d/*/*", false, 3600, 3600, 65536) // persistent, never flushed during a case
	return &Env{S: s, Root: root}
}

func (e *Env) Close() {
	e.S.Stop()
	os.RemoveAll(e.Root)
}

// FreshSwamp returns a new swamp name (in-memory pattern unless disk).
func (e *Env) FreshSwamp(disk bool) string {
	e.mu.Lock()
	defer e.mu.Unlock()
	e.n++
	p := "c11m"
	if disk {
		p = "c11d"
	}
	return fmt.Sprintf("%s/r%d/s%d", p, e.n%50, e.n)
}

func Enc(v interface{}) []byte {
	b, err := msgpack.Marshal(v)
	if err != nil {
		panic(err)
	}
	return b
}

func strp(s string) *string { return &s }

// FEq is the filter leg `body.path == val` (indexable by the bucket planner).
func FEq(path, val string) *hydrapb.TreasureFilter {
	return &hydrapb.TreasureFilter{BytesFieldPath: strp(path), Operator: hydrapb.Relational_EQUAL,
		CompareValue: &hydrapb.TreasureFilter_StringVal{StringVal: val}}
}

// FNe is `body.path != val` (never indexable).
func FNe(path, val string) *hydrapb.TreasureFilter {
	return &hydrapb.TreasureFilter{BytesFieldPath: strp(path), Operator: hydrapb.Relational_NOT_EQUAL,
		CompareValue: &hydrapb.TreasureFilter_StringVal{StringVal: val}}
}

// FIntEq is `body.path == n` on an int64 field (indexable).
func FIntEq(path string, n int64) *hydrapb.TreasureFilter {
	return &hydrapb.TreasureFilter{BytesFieldPath: strp(path), Operator: hydrapb.Relational_EQUAL,
		CompareValue: &hydrapb.TreasureFilter_Int64Val{Int64Val: n}}
}

// FIntGe is `body.path >= n` (not indexable).
func FIntGe(path string, n int64) *hydrapb.TreasureFilter {
	return &hydrapb.TreasureFilter{BytesFieldPath: strp(path), Operator: hydrapb.Relational_GREATER_THAN_OR_EQUAL,
		CompareValue: &hydrapb.TreasureFilter_Int64Val{Int64Val: n}}
}

func And(legs ...*hydrapb.TreasureFilter) *hydrapb.FilterGroup {
	return &hydrapb.FilterGroup{Logic: hydrapb.FilterLogic_AND, Filters: legs}
}

func CapOf(status string, max int32) *hydrapb.Cap {
	return &hydrapb.Cap{Filter: And(FEq("status", status)), MaxMatching: max}
}

type Rec struct {
	Key    string
	Status string
	Grp    int64
	Exp    int64 // unix nano, 0 = none
	Cre    int64
}

// Seed creates (or overwrites) a record. exp zero => no expiry.
func (e *Env) Seed(swamp, key, status string, grp int64, exp time.Time) {
	meta := &hydrapb.PatchMeta{SetCreatedAt: true}
	if !exp.IsZero() {
		meta.SetExpiredAt = timestamppb.New(exp)
	}
	resp, err := e.S.GW.PatchTreasures(context.Background(), &hydrapb.PatchTreasuresRequest{
		IslandID: Island, SwampName: swamp, CreateIfNotExist: true, Meta: meta,
		Patches: []*hydrapb.TreasurePatch{{Key: key, Ops: []*hydrapb.PatchOp{
			{Op: hydrapb.PatchOp_SET, Path: "status", Value: Enc(status)},
			{Op: hydrapb.PatchOp_SET, Path: "grp", Value: Enc(grp)},
		}}}})
	if err != nil || len(resp.GetResults()) != 1 || (resp.Results[0].Status != hydrapb.PatchResult_CREATED && resp.Results[0].Status != hydrapb.PatchResult_PATCHED) {
		panic(fmt.Sprintf("seed %s/%s: %v %v", swamp, key, resp, err))
	}
}

func (e *Env) SeedAnchor(swamp string) { e.Seed(swamp, Anchor, "anchor", -1, time.Time{}) }

// PatchItem: set status (and optionally expiry) of one key.
type PatchItem struct {
	Key    string
	Status string
}

// PatchStatus runs one PatchTreasures batch. create => CreateIfNotExist.
func (e *Env) PatchStatus(swamp string, items []PatchItem, cap *hydrapb.Cap, create bool, meta *hydrapb.PatchMeta) (*hydrapb.PatchTreasuresResponse, error) {
	ps := make([]*hydrapb.TreasurePatch, 0, len(items))
	for _, it := range items {
		ps = append(ps, &hydrapb.TreasurePatch{Key: it.Key, Ops: []*hydrapb.PatchOp{
			{Op: hydrapb.PatchOp_SET, Path: "status", Value: Enc(it.Status)}}})
	}
	return e.S.GW.PatchTreasures(context.Background(), &hydrapb.PatchTreasuresRequest{
		IslandID: Island, SwampName: swamp, CreateIfNotExist: create, Patches: ps, Cap: cap, Meta: meta})
}

func (e *Env) Delete(swamp string, keys ...string) error {
	_, err := e.S.GW.Delete(context.Background(), &hydrapb.DeleteRequest{Swamps: []*hydrapb.DeleteRequest_SwampKeys{
		{IslandID: Island, SwampName: swamp, Keys: keys}}})
	return err
}

func (e *Env) ShiftExpired(swamp string, howMany int32) ([]Rec, error) {
	r, err := e.S.GW.ShiftExpiredTreasures(context.Background(), &hydrapb.ShiftExpiredTreasuresRequest{
		IslandID: Island, SwampName: swamp, HowMany: howMany})
	if err != nil {
		return nil, err
	}
	return recsOf(r.GetTreasures()), nil
}

type ShiftReq struct {
	Index    hydrapb.IndexType_Type
	Desc     bool
	HowMany  int32
	Filters  *hydrapb.FilterGroup
	Cap      *hydrapb.Cap
	From, To *time.Time
}

func (e *Env) ShiftMatching(swamp string, q ShiftReq) ([]Rec, bool, error) {
	in := &hydrapb.ShiftMatchingTreasuresRequest{IslandID: Island, SwampName: swamp, IndexType: q.Index,
		OrderType: hydrapb.OrderType_ASC, HowMany: q.HowMany, Filters: q.Filters, Cap: q.Cap}
	if q.Desc {
		in.OrderType = hydrapb.OrderType_DESC
	}
	if q.From != nil {
		in.FromTime = timestamppb.New(*q.From)
	}
	if q.To != nil {
		in.ToTime = timestamppb.New(*q.To)
	}
	r, err := e.S.GW.ShiftMatchingTreasures(context.Background(), in)
	if err != nil {
		return nil, false, err
	}
	return recsOf(r.GetTreasures()), r.GetCapReached(), nil
}

type PatchedRec struct {
	Key    string
	Status hydrapb.PatchResult_StatusCode
	Body   map[string]interface{}
	Exp    int64
}

type PEReq struct {
	HowMany   int32
	NewStatus string     // SET status
	NewExp    *time.Time // nil: leave; zero time: clear; else set
	Filters   *hydrapb.FilterGroup
	Cap       *hydrapb.Cap
}

func (e *Env) PatchExpired(swamp string, q PEReq) ([]PatchedRec, bool, error) {
	in := &hydrapb.PatchExpiredTreasuresRequest{IslandID: Island, SwampName: swamp, HowMany: q.HowMany,
		Filters: q.Filters, Cap: q.Cap}
	if q.NewStatus != "" {
		in.Ops = []*hydrapb.PatchOp{{Op: hydrapb.PatchOp_SET, Path: "status", Value: Enc(q.NewStatus)}}
	}
	in.Meta = &hydrapb.PatchMeta{SetUpdatedAt: true}
	if q.NewExp != nil {
		if q.NewExp.IsZero() {
			in.Meta.ClearExpiredAt = true
		} else {
			in.Meta.SetExpiredAt = timestamppb.New(*q.NewExp)
		}
	}
	r, err := e.S.GW.PatchExpiredTreasures(context.Background(), in)
	if err != nil {
		return nil, false, err
	}
	out := make([]PatchedRec, 0, len(r.GetPatched()))
	for _, p := range r.GetPatched() {
		pr := PatchedRec{Key: p.GetKey(), Status: p.GetStatus()}
		if len(p.GetNewMsgpack()) > 0 {
			_ = msgpack.Unmarshal(p.GetNewMsgpack(), &pr.Body)
		}
		if p.GetExpiredAt() != nil {
			pr.Exp = p.GetExpiredAt().AsTime().UnixNano()
		}
		out = append(out, pr)
	}
	return out, r.GetCapReached(), nil
}

func recOf(t *hydrapb.Treasure) Rec {
	rc := Rec{Key: t.GetKey()}
	if t.GetExpiredAt() != nil {
		rc.Exp = t.GetExpiredAt().AsTime().UnixNano()
	}
	if t.GetCreatedAt() != nil {
		rc.Cre = t.GetCreatedAt().AsTime().UnixNano()
	}
	b := t.GetBytesVal()
	if len(b) > 2 {
		var m map[string]interface{}
		if msgpack.Unmarshal(b[2:], &m) == nil {
			if s, ok := m["status"].(string); ok {
				rc.Status = s
			}
			switch g := m["grp"].(type) {
			case int64:
				rc.Grp = g
			case int8:
				rc.Grp = int64(g)
			case uint64:
				rc.Grp = int64(g)
			case int:
				rc.Grp = int64(g)
			case int32:
				rc.Grp = int64(g)
			case int16:
				rc.Grp = int64(g)
			case uint8:
				rc.Grp = int64(g)
			}
		}
	}
	return rc
}

func recsOf(ts []*hydrapb.Treasure) []Rec {
	out := make([]Rec, 0, len(ts))
	for _, t := range ts {
		out = append(out, recOf(t))
	}
	return out
}

// Dump returns every record of the swamp (without the anchor) sorted by key; nil if the
// swamp does not exist.
func (e *Env) Dump(swamp string) []Rec {
	r, err := e.S.GW.GetAll(context.Background(), &hydrapb.GetAllRequest{IslandID: Island, SwampName: swamp})
	if err != nil {
		return nil
	}
	out := []Rec{}
	for _, t := range r.GetTreasures() {
		if t.GetKey() == Anchor {
			continue
		}
		out = append(out, recOf(t))
	}
	sort.Slice(out, func(i, j int) bool { return out[i].Key < out[j].Key })
	return out
}

func CountStatus(rs []Rec, status string) int {
	n := 0
	for _, r := range rs {
		if r.Status == status {
			n++
		}
	}
	return n
}

func Keys(rs []Rec) []string {
	out := make([]string, len(rs))
	for i, r := range rs {
		out[i] = r.Key
	}
	return out
}

// ---- schedule controller over verifhook --------------------------------------------------

// Ctl parks goroutines that reach a named site (only goroutines registered through Go) until
// Release is called for them. One Ctl at a time (verifhook.Install is global).
type Ctl struct {
	mu     sync.Mutex
	sites  map[string]bool       // sites at which registered goroutines park
	gid    map[int64]int         // goroutine id -> thread index
	parked map[int]chan struct{} // thread index -> release channel (present while parked)
	at     map[int]string
	cond   *sync.Cond
}

func NewCtl(sites ...string) *Ctl {
	c := &Ctl{sites: map[string]bool{}, gid: map[int64]int{}, parked: map[int]chan struct{}{}, at: map[int]string{}}
	for _, s := range sites {
		c.sites[s] = true
	}
	c.cond = sync.NewCond(&c.mu)
	verifhook.Install(func(site string, gid int64, args []int64) {
		c.mu.Lock()
		t, ok := c.gid[gid]
		if !ok || !c.sites[site] {
			c.mu.Unlock()
			return
		}
		ch := make(chan struct{})
		c.parked[t] = ch
		c.at[t] = site
		c.cond.Broadcast()
		c.mu.Unlock()
		<-ch
	})
	return c
}

func (c *Ctl) Close() { verifhook.Install(nil) }

// Go runs f on a new goroutine registered as thread t; the returned channel is closed when f
// returns.
func (c *Ctl) Go(t int, f func()) chan struct{} {
	done := make(chan struct{})
	started := make(chan struct{})
	go func() {
		c.mu.Lock()
		c.gid[verifhook.GoID()] = t
		c.mu.Unlock()
		close(started)
		defer func() {
			c.mu.Lock()
			delete(c.gid, verifhook.GoID())
			c.mu.Unlock()
			close(done)
		}()
		f()
	}()
	<-started
	return done
}

// WaitParked blocks until thread t is parked (returns its site) or done is closed (returns "").
func (c *Ctl) WaitParked(t int, done chan struct{}, timeout time.Duration) (string, bool) {
	deadline := time.Now().Add(timeout)
	for {
		c.mu.Lock()
		if _, ok := c.parked[t]; ok {
			s := c.at[t]
			c.mu.Unlock()
			return s, true
		}
		c.mu.Unlock()
		select {
		case <-done:
			return "", true
		default:
		}
		if time.Now().After(deadline) {
			return "", false
		}
		time.Sleep(20 * time.Microsecond)
	}
}

// Release lets a parked thread continue.
func (c *Ctl) Release(t int) {
	c.mu.Lock()
	ch, ok := c.parked[t]
	if ok {
		delete(c.parked, t)
		delete(c.at, t)
	}
	c.mu.Unlock()
	if ok {
		close(ch)
	}
}
