// Package c11lib: helpers shared by the C11 (claims) and C12 (cap) harnesses – a thin client
// over the in-process gateway (harness/rig) for swamps whose records are msgpack maps
// {"status": string, "grp": int64} with an optional expiry, plus a scheduler controller for
// the app/verifhook instrumentation points.
package c11lib

import (
	"context"
	"fmt"
	"os"
	"sort"
	"sync"
	"time"

	"github.com/hydraide/hydraide/app/verifhook"
	hydrapb "github.com/hydraide/hydraide/sdk/go/hydraidego/v3/hydraidepbgo"
	"github.com/vmihailenco/msgpack/v5"
	"google.golang.org/protobuf/types/known/timestamppb"
	"verif/harness/rig"
)

const Island = uint64(1)

// Anchor is a record that never matches any filter used by the harness and never expires; it
// keeps the swamp from auto-destroying when the last claimable record is shifted.
const Anchor = "zz-anchor"

type Env struct {
	S    *rig.Server
	Root string
	n    int
	mu   sync.Mutex
}

func NewEnv(tag string) *Env {
	rig.Quiet()
	root, _ := os.MkdirTemp("", "verif-"+tag)
	s := rig.Start(root, true)
	s.Register("c11m/*/*", true, 3600, 1, 8192)      // in-memory swamps
	s.Register("c11d/*/*", false, 3600, 3600, 65536) // persistent, never flushed during a case
	return &Env{S: s, Root: root}
}

func (e *Env) Close() {
	e.S.Stop()
	os.RemoveAll(e.Root)
}

// FreshSwamp returns a new swamp name (in-memory pattern unless disk).
func (e *Env) FreshSwamp(disk bool) string {
	e.mu.Lock()
	defer e.mu.Unlock()
	e.n++
	p := "c11m"
	if disk {
		p = "c11d"
	}
	return fmt.Sprintf("%s/r%d/s%d", p, e.n%50, e.n)
}

func Enc(v interface{}) []byte {
	b, err := msgpack.Marshal(v)
	if err != nil {
		panic(err)
	}
	return b
}

func strp(s string) *string { return &s }

// FEq is the filter leg `body.path == val` (indexable by the bucket planner).
func FEq(path, val string) *hydrapb.TreasureFilter {
	return &hydrapb.TreasureFilter{BytesFieldPath: strp(path), Operator: hydrapb.Relational_EQUAL,
		CompareValue: &hydrapb.TreasureFilter_StringVal{StringVal: val}}
}

// FNe is `body.path != val` (never indexable).
func FNe(path, val string) *hydrapb.TreasureFilter {
	return &hydrapb.TreasureFilter{BytesFieldPath: strp(path), Operator: hydrapb.Relational_NOT_EQUAL,
		CompareValue: &hydrapb.TreasureFilter_StringVal{StringVal: val}}
}

// FIntEq is `body.path == n` on an int64 field (indexable).
func FIntEq(path string, n int64) *hydrapb.TreasureFilter {
	return &hydrapb.TreasureFilter{BytesFieldPath: strp(path), Operator: hydrapb.Relational_EQUAL,
		CompareValue: &hydrapb.TreasureFilter_Int64Val{Int64Val: n}}
}

// FIntGe is `body.path >= n` (not indexable).
func FIntGe(path string, n int64) *hydrapb.TreasureFilter {
	return &hydrapb.TreasureFilter{BytesFieldPath: strp(path), Operator: hydrapb.Relational_GREATER_THAN_OR_EQUAL,
		CompareValue: &hydrapb.TreasureFilter_Int64Val{Int64Val: n}}
}

func And(legs ...*hydrapb.TreasureFilter) *hydrapb.FilterGroup {
	return &hydrapb.FilterGroup{Logic: hydrapb.FilterLogic_AND, Filters: legs}
}

// CapUnlocked: at most max records WITHOUT a "lock" field (a negative filter: lock IS_EMPTY).
func CapUnlocked(max int32) *hydrapb.Cap {
	return &hydrapb.Cap{Filter: And(&hydrapb.TreasureFilter{BytesFieldPath: strp("lock"), Operator: hydrapb.Relational_IS_EMPTY}), MaxMatching: max}
}

func OpSetLock() []*hydrapb.PatchOp {
	return []*hydrapb.PatchOp{{Op: hydrapb.PatchOp_SET, Path: "lock", Value: Enc("x")}}
}
func OpDelLock() []*hydrapb.PatchOp {
	return []*hydrapb.PatchOp{{Op: hydrapb.PatchOp_DELETE, Path: "lock"}}
}

func CapOf(status string, max int32) *hydrapb.Cap {
	return &hydrapb.Cap{Filter: And(FEq("status", status)), MaxMatching: max}
}

type Rec struct {
	Key    string
	Status string
	Grp    int64
	Exp    int64 // unix nano, 0 = none
	Cre    int64
	Lock   bool // body has a non-empty "lock" field
}

// Seed creates (or overwrites) a record. exp zero => no expiry.
func (e *Env) Seed(swamp, key, status string, grp int64, exp time.Time) {
	meta := &hydrapb.PatchMeta{SetCreatedAt: true}
	if !exp.IsZero() {
		meta.SetExpiredAt = timestamppb.New(exp)
	} else {
		meta.ClearExpiredAt = true
	}
	resp, err := e.S.GW.PatchTreasures(context.Background(), &hydrapb.PatchTreasuresRequest{
		IslandID: Island, SwampName: swamp, CreateIfNotExist: true, Meta: meta,
		Patches: []*hydrapb.TreasurePatch{{Key: key, Ops: []*hydrapb.PatchOp{
			{Op: hydrapb.PatchOp_SET, Path: "status", Value: Enc(status)},
			{Op: hydrapb.PatchOp_SET, Path: "grp", Value: Enc(grp)},
		}}}})
	if err != nil || len(resp.GetResults()) != 1 || (resp.Results[0].Status != hydrapb.PatchResult_CREATED && resp.Results[0].Status != hydrapb.PatchResult_PATCHED) {
		panic(fmt.Sprintf("seed %s/%s: %v %v", swamp, key, resp, err))
	}
}

func (e *Env) SeedAnchor(swamp string) { e.Seed(swamp, Anchor, "anchor", -1, time.Time{}) }

// PatchItem: set status (and optionally expiry) of one key.
type PatchItem struct {
	Key    string
	Status string
	Touch  bool               // instead of setting status: SET touched = 1 (leaves status as it is / as seeded)
	Meta   bool               // the patch carries its own per-key Meta (replaces the request-level Meta)
	Cond   int                // per-key Condition: 0 none, 1 one that always holds, 2 one that never holds
	RawOps []*hydrapb.PatchOp // when set: these ops instead of the status / touched op
}

// PatchStatus runs one PatchTreasures batch. create => CreateIfNotExist.
func (e *Env) PatchStatus(swamp string, items []PatchItem, cap *hydrapb.Cap, create bool, meta *hydrapb.PatchMeta) (*hydrapb.PatchTreasuresResponse, error) {
	return e.PatchStatusSeed(swamp, items, cap, create, meta, nil)
}

// PatchStatusSeed is PatchStatus with an InitialMsgpackOnCreate seed body (nil = default).
func (e *Env) PatchStatusSeed(swamp string, items []PatchItem, cap *hydrapb.Cap, create bool, meta *hydrapb.PatchMeta, seed []byte) (*hydrapb.PatchTreasuresResponse, error) {
	ps := make([]*hydrapb.TreasurePatch, 0, len(items))
	for _, it := range items {
		op := &hydrapb.PatchOp{Op: hydrapb.PatchOp_SET, Path: "status", Value: Enc(it.Status)}
		if it.Touch {
			op = &hydrapb.PatchOp{Op: hydrapb.PatchOp_SET, Path: "touched", Value: Enc(int64(1))}
		}
		tp := &hydrapb.TreasurePatch{Key: it.Key, Ops: []*hydrapb.PatchOp{op}}
		if it.RawOps != nil && !it.Touch {
			tp.Ops = it.RawOps
		}
		if it.Meta {
			tp.Meta = &hydrapb.PatchMeta{SetUpdatedAt: true, SetUpdatedBy: strp("per-key")}
		}
		switch it.Cond {
		case 1:
			tp.Condition = &hydrapb.PatchCondition{Path: "no_such_field", Operator: hydrapb.PatchCondition_NOT_EXISTS}
		case 2:
			tp.Condition = &hydrapb.PatchCondition{Path: "no_such_field", Operator: hydrapb.PatchCondition_EXISTS}
		}
		ps = append(ps, tp)
	}
	return e.S.GW.PatchTreasures(context.Background(), &hydrapb.PatchTreasuresRequest{
		IslandID: Island, SwampName: swamp, CreateIfNotExist: create, InitialMsgpackOnCreate: seed, Patches: ps, Cap: cap, Meta: meta})
}

// SetExpiry changes only the expiry of an existing record (zero time clears it).
func (e *Env) SetExpiry(swamp, key string, exp time.Time) {
	meta := &hydrapb.PatchMeta{}
	if exp.IsZero() {
		meta.ClearExpiredAt = true
	} else {
		meta.SetExpiredAt = timestamppb.New(exp)
	}
	_, _ = e.S.GW.PatchTreasures(context.Background(), &hydrapb.PatchTreasuresRequest{
		IslandID: Island, SwampName: swamp, Meta: meta, Patches: []*hydrapb.TreasurePatch{{Key: key}}})
}

func (e *Env) Delete(swamp string, keys ...string) error {
	_, err := e.S.GW.Delete(context.Background(), &hydrapb.DeleteRequest{Swamps: []*hydrapb.DeleteRequest_SwampKeys{
		{IslandID: Island, SwampName: swamp, Keys: keys}}})
	return err
}

// DeleteOK deletes one key and reports whether the engine answered DELETED.
func (e *Env) DeleteOK(swamp, key string) bool {
	r, err := e.S.GW.Delete(context.Background(), &hydrapb.DeleteRequest{Swamps: []*hydrapb.DeleteRequest_SwampKeys{
		{IslandID: Island, SwampName: swamp, Keys: []string{key}}}})
	if err != nil {
		return false
	}
	for _, sr := range r.GetResponses() {
		for _, ks := range sr.GetKeyStatuses() {
			if ks.GetKey() == key && ks.GetStatus() == hydrapb.Status_DELETED {
				return true
			}
		}
	}
	return false
}

func (e *Env) ShiftExpired(swamp string, howMany int32) ([]Rec, error) {
	r, err := e.S.GW.ShiftExpiredTreasures(context.Background(), &hydrapb.ShiftExpiredTreasuresRequest{
		IslandID: Island, SwampName: swamp, HowMany: howMany})
	if err != nil {
		return nil, err
	}
	return recsOf(r.GetTreasures()), nil
}

type ShiftReq struct {
	Index    hydrapb.IndexType_Type
	Desc     bool
	HowMany  int32
	Filters  *hydrapb.FilterGroup
	Cap      *hydrapb.Cap
	From, To *time.Time
}

func (e *Env) ShiftMatching(swamp string, q ShiftReq) ([]Rec, bool, error) {
	in := &hydrapb.ShiftMatchingTreasuresRequest{IslandID: Island, SwampName: swamp, IndexType: q.Index,
		OrderType: hydrapb.OrderType_ASC, HowMany: q.HowMany, Filters: q.Filters, Cap: q.Cap}
	if q.Desc {
		in.OrderType = hydrapb.OrderType_DESC
	}
	if q.From != nil {
		in.FromTime = timestamppb.New(*q.From)
	}
	if q.To != nil {
		in.ToTime = timestamppb.New(*q.To)
	}
	r, err := e.S.GW.ShiftMatchingTreasures(context.Background(), in)
	if err != nil {
		return nil, false, err
	}
	return recsOf(r.GetTreasures()), r.GetCapReached(), nil
}

type PatchedRec struct {
	Key    string
	Status hydrapb.PatchResult_StatusCode
	Body   map[string]interface{}
	Exp    int64
}

type PEReq struct {
	HowMany   int32
	NewStatus string             // SET status
	NewExp    *time.Time         // nil: leave; zero time: clear; else set
	RawOps    []*hydrapb.PatchOp // when set: these ops instead of SET status
	CondFail  bool               // request Condition that no record meets (every selected record is rejected)
	Filters   *hydrapb.FilterGroup
	Cap       *hydrapb.Cap
}

func (e *Env) PatchExpired(swamp string, q PEReq) ([]PatchedRec, bool, error) {
	in := &hydrapb.PatchExpiredTreasuresRequest{IslandID: Island, SwampName: swamp, HowMany: q.HowMany,
		Filters: q.Filters, Cap: q.Cap}
	if q.NewStatus != "" {
		in.Ops = []*hydrapb.PatchOp{{Op: hydrapb.PatchOp_SET, Path: "status", Value: Enc(q.NewStatus)}}
	}
	if q.RawOps != nil {
		in.Ops = q.RawOps
	}
	if q.CondFail {
		in.Condition = &hydrapb.PatchCondition{Path: "no_such_field", Operator: hydrapb.PatchCondition_EXISTS}
	}
	in.Meta = &hydrapb.PatchMeta{SetUpdatedAt: true}
	if q.NewExp != nil {
		if q.NewExp.IsZero() {
			in.Meta.ClearExpiredAt = true
		} else {
			in.Meta.SetExpiredAt = timestamppb.New(*q.NewExp)
		}
	}
	r, err := e.S.GW.PatchExpiredTreasures(context.Background(), in)
	if err != nil {
		return nil, false, err
	}
	out := make([]PatchedRec, 0, len(r.GetPatched()))
	for _, p := range r.GetPatched() {
		pr := PatchedRec{Key: p.GetKey(), Status: p.GetStatus()}
		if len(p.GetNewMsgpack()) > 0 {
			_ = msgpack.Unmarshal(p.GetNewMsgpack(), &pr.Body)
		}
		if p.GetExpiredAt() != nil {
			pr.Exp = p.GetExpiredAt().AsTime().UnixNano()
		}
		out = append(out, pr)
	}
	return out, r.GetCapReached(), nil
}

func recOf(t *hydrapb.Treasure) Rec {
	rc := Rec{Key: t.GetKey()}
	if t.GetExpiredAt() != nil {
		rc.Exp = t.GetExpiredAt().AsTime().UnixNano()
	}
	if t.GetCreatedAt() != nil {
		rc.Cre = t.GetCreatedAt().AsTime().UnixNano()
	}
	b := t.GetBytesVal()
	if len(b) > 2 {
		var m map[string]interface{}
		if msgpack.Unmarshal(b[2:], &m) == nil {
			if s, ok := m["status"].(string); ok {
				rc.Status = s
			}
			if l, ok := m["lock"].(string); ok && l != "" {
				rc.Lock = true
			}
			switch g := m["grp"].(type) {
			case int64:
				rc.Grp = g
			case int8:
				rc.Grp = int64(g)
			case uint64:
				rc.Grp = int64(g)
			case int:
				rc.Grp = int64(g)
			case int32:
				rc.Grp = int64(g)
			case int16:
				rc.Grp = int64(g)
			case uint8:
				rc.Grp = int64(g)
			}
		}
	}
	return rc
}

func recsOf(ts []*hydrapb.Treasure) []Rec {
	out := make([]Rec, 0, len(ts))
	for _, t := range ts {
		out = append(out, recOf(t))
	}
	return out
}

// Dump returns every record of the swamp (without the anchor) sorted by key; nil if the
// swamp does not exist.
func (e *Env) Dump(swamp string) []Rec {
	r, err := e.S.GW.GetAll(context.Background(), &hydrapb.GetAllRequest{IslandID: Island, SwampName: swamp})
	if err != nil {
		return nil
	}
	out := []Rec{}
	for _, t := range r.GetTreasures() {
		if t.GetKey() == Anchor {
			continue
		}
		out = append(out, recOf(t))
	}
	sort.Slice(out, func(i, j int) bool { return out[i].Key < out[j].Key })
	return out
}

func CountStatus(rs []Rec, status string) int {
	n := 0
	for _, r := range rs {
		if r.Status == status {
			n++
		}
	}
	return n
}

func Keys(rs []Rec) []string {
	out := make([]string, len(rs))
	for i, r := range rs {
		out[i] = r.Key
	}
	return out
}

// ---- schedule controller over verifhook --------------------------------------------------

// Ctl runs registered thread functions on goroutines and parks them at verifhook sites. A thread
// only parks at the sites named in the Advance call that released it. One Ctl at a time
// (verifhook.Install is global); goroutines not registered with the Ctl are never parked.
type Ctl struct {
	mu     sync.Mutex
	fn     map[int]func()
	gid    map[int64]int           // goroutine id -> thread
	stop   map[int]map[string]bool // thread -> sites at which it parks next
	parked map[int]chan struct{}   // thread -> release channel (present while parked)
	at     map[int]string
	done   map[int]chan struct{}
}

func NewCtl() *Ctl {
	c := &Ctl{fn: map[int]func(){}, gid: map[int64]int{}, stop: map[int]map[string]bool{},
		parked: map[int]chan struct{}{}, at: map[int]string{}, done: map[int]chan struct{}{}}
	verifhook.Install(func(site string, gid int64, args []int64) {
		c.mu.Lock()
		t, ok := c.gid[gid]
		if !ok || !c.stop[t][site] {
			c.mu.Unlock()
			return
		}
		ch := make(chan struct{})
		c.parked[t] = ch
		c.at[t] = site
		c.mu.Unlock()
		<-ch
	})
	return c
}

func (c *Ctl) Close() { verifhook.Install(nil) }

// Add registers thread t (not started yet).
func (c *Ctl) Add(t int, f func()) { c.fn[t] = f }

// Started reports whether thread t has been started.
func (c *Ctl) Started(t int) bool { c.mu.Lock(); defer c.mu.Unlock(); _, ok := c.done[t]; return ok }

// Finished reports whether thread t has returned.
func (c *Ctl) Finished(t int) bool {
	c.mu.Lock()
	d, ok := c.done[t]
	c.mu.Unlock()
	if !ok {
		return false
	}
	select {
	case <-d:
		return true
	default:
		return false
	}
}

// Advance starts or releases thread t and waits until it parks at one of sites ("site"),
// returns ("done"), or neither happens within timeout ("blocked": it waits for a lock).
func (c *Ctl) Advance(t int, timeout time.Duration, sites ...string) string {
	c.mu.Lock()
	st := map[string]bool{}
	for _, s := range sites {
		st[s] = true
	}
	c.stop[t] = st
	d, started := c.done[t]
	if !started {
		d = make(chan struct{})
		c.done[t] = d
		f := c.fn[t]
		reg := make(chan struct{})
		go func() {
			c.mu.Lock()
			c.gid[verifhook.GoID()] = t
			c.mu.Unlock()
			close(reg)
			defer func() {
				c.mu.Lock()
				delete(c.gid, verifhook.GoID())
				c.mu.Unlock()
				close(d)
			}()
			f()
		}()
		c.mu.Unlock()
		<-reg
	} else {
		ch, ok := c.parked[t]
		if ok {
			delete(c.parked, t)
			delete(c.at, t)
		}
		c.mu.Unlock()
		if ok {
			close(ch)
		}
	}
	return c.Wait(t, timeout)
}

// Wait waits for thread t to park or finish.
func (c *Ctl) Wait(t int, timeout time.Duration) string {
	c.mu.Lock()
	d := c.done[t]
	c.mu.Unlock()
	deadline := time.Now().Add(timeout)
	for {
		c.mu.Lock()
		_, ok := c.parked[t]
		s := c.at[t]
		c.mu.Unlock()
		if ok {
			return s
		}
		select {
		case <-d:
			return "done"
		default:
		}
		if time.Now().After(deadline) {
			return "blocked"
		}
		time.Sleep(20 * time.Microsecond)
	}
}

// Drain lets every started thread run to completion (no more parking) and starts the rest.
func (c *Ctl) Drain(n int, timeout time.Duration) bool {
	c.mu.Lock()
	for t := range c.stop {
		c.stop[t] = map[string]bool{}
	}
	var chs []chan struct{}
	for t, ch := range c.parked {
		chs = append(chs, ch)
		delete(c.parked, t)
		delete(c.at, t)
	}
	c.mu.Unlock()
	for _, ch := range chs {
		close(ch)
	}
	ok := true
	for t := 0; t < n; t++ {
		if !c.Started(t) {
			c.Advance(t, timeout)
		}
	}
	for t := 0; t < n; t++ {
		if c.Wait(t, timeout) != "done" {
			ok = false
		}
	}
	return ok
}
