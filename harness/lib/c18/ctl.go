// Package c18 holds the schedule controller shared by the C18 and C16 harnesses: goroutines of
// the harness ("logical threads") are parked at chosen verifhook sites and released one step
// at a time in the order a model schedule dictates; every hook event of a logical thread is
// recorded in one global order.
package c18

import (
	"sync"
	"time"

	"github.com/hydraide/hydraide/app/verifhook"
)

type Ev struct {
	Tid  int
	Site string
	Args []int64
}

const (
	Running = iota
	Parked
	Sleeping // inside a blocking call announced by a sleep site (cond.Wait, WaitForGracefulClose)
	Finished
)

type thr struct {
	tid       int
	state     int
	resume    chan struct{}
	site      string
	args      []int64
	sleepKind string
	sleepOn   int64
}

type adoptRule struct {
	site  string
	match func(args []int64) bool
	tid   int
}

// Ctl is the controller. Park: sites at which a logical thread stops until Step releases it.
// Sleep: site -> kind ("slot"/"inst"): the thread is about to block on object args[0].
// Wake: site -> kind: every thread sleeping on (kind, args[0]) is running again.
type Ctl struct {
	mu     sync.Mutex
	cond   *sync.Cond
	byGid  map[int64]*thr
	thr    map[int]*thr
	Park   map[string]bool
	Sleep  map[string]string
	Wake   map[string]string
	log    []Ev
	adopt  []adoptRule
	// Foreign: if set, events of goroutines that are not logical threads are logged with Tid -1
	Foreign bool
	// Keep: if set, only events for which it returns true are logged (parking and thread states
	// are not affected); used to keep busy-waiting threads from flooding the log
	Keep func(site string) bool
	free    bool // free-running: nobody parks any more (teardown)
}

func New() *Ctl {
	c := &Ctl{byGid: map[int64]*thr{}, thr: map[int]*thr{}, Park: map[string]bool{},
		Sleep: map[string]string{}, Wake: map[string]string{}}
	c.cond = sync.NewCond(&c.mu)
	return c
}

// Install makes this controller the process-wide verifhook controller.
func (c *Ctl) Install() { verifhook.Install(c.hook) }

// Uninstall releases everything that is parked and removes the controller.
func (c *Ctl) Uninstall() {
	c.mu.Lock()
	c.free = true
	for _, t := range c.thr {
		if t.state == Parked {
			t.state = Running
			t.resume <- struct{}{}
		}
	}
	c.mu.Unlock()
	verifhook.Install(nil)
}

// FreeRun releases every parked thread and stops parking (events are still logged).
func (c *Ctl) FreeRun() {
	c.mu.Lock()
	c.free = true
	for _, t := range c.thr {
		if t.state == Parked {
			t.state = Running
			t.resume <- struct{}{}
		}
	}
	c.cond.Broadcast()
	c.mu.Unlock()
}

func (c *Ctl) hook(site string, gid int64, args []int64) {
	c.mu.Lock()
	t := c.byGid[gid]
	if t == nil {
		for k, r := range c.adopt {
			if r.site == site && (r.match == nil || r.match(args)) {
				t = &thr{tid: r.tid, state: Running, resume: make(chan struct{}, 1)}
				c.byGid[gid] = t
				c.thr[r.tid] = t
				c.adopt = append(c.adopt[:k], c.adopt[k+1:]...)
				break
			}
		}
	}
	if t == nil {
		if c.Foreign {
			c.log = append(c.log, Ev{-1, site, append([]int64{}, args...)})
		}
		c.mu.Unlock()
		return
	}
	if c.Keep == nil || c.Keep(site) {
		c.log = append(c.log, Ev{t.tid, site, append([]int64{}, args...)})
	}
	if k, ok := c.Wake[site]; ok && len(args) > 0 {
		for _, u := range c.thr {
			if u.state == Sleeping && u.sleepKind == k && u.sleepOn == args[0] {
				u.state = Running
			}
		}
	}
	// any event of a thread means that it is running now (it woke up / got unblocked)
	t.state = Running
	if k, ok := c.Sleep[site]; ok && len(args) > 0 {
		t.state = Sleeping
		t.sleepKind, t.sleepOn = k, args[0]
	}
	if c.Park[site] && !c.free {
		t.state = Parked
		t.site, t.args = site, append([]int64{}, args...)
		ch := t.resume
		c.cond.Broadcast()
		c.mu.Unlock()
		<-ch
		return
	}
	c.cond.Broadcast()
	c.mu.Unlock()
}

// Spawn starts logical thread tid running f. The goroutine is registered before f starts.
func (c *Ctl) Spawn(tid int, f func()) {
	t := &thr{tid: tid, state: Running, resume: make(chan struct{}, 1)}
	c.mu.Lock()
	c.thr[tid] = t
	c.mu.Unlock()
	reg := make(chan struct{})
	go func() {
		gid := verifhook.GoID()
		c.mu.Lock()
		c.byGid[gid] = t
		c.mu.Unlock()
		close(reg)
		f()
		c.mu.Lock()
		t.state = Finished
		c.cond.Broadcast()
		c.mu.Unlock()
	}()
	<-reg
}

// Adopt: the next goroutine that is not a logical thread and hits site with matching args
// becomes logical thread tid (used for goroutines the engine starts itself, e.g. the idle
// listener of an instance).
func (c *Ctl) Adopt(site string, match func(args []int64) bool, tid int) {
	c.mu.Lock()
	c.adopt = append(c.adopt, adoptRule{site, match, tid})
	c.mu.Unlock()
}

// Note appends a synthetic event of thread tid to the log (harness-side observations).
func (c *Ctl) Note(tid int, site string, args ...int64) {
	c.mu.Lock()
	c.log = append(c.log, Ev{tid, site, append([]int64{}, args...)})
	c.mu.Unlock()
}

func (c *Ctl) stableLocked() bool {
	for _, t := range c.thr {
		if t.state == Running {
			return false
		}
	}
	return true
}

// Settle waits until no logical thread is running (all parked, asleep or finished) or the
// timeout expires; it reports whether everything settled.
func (c *Ctl) Settle(timeout time.Duration) bool {
	deadline := time.Now().Add(timeout)
	c.mu.Lock()
	defer c.mu.Unlock()
	for !c.stableLocked() {
		if time.Now().After(deadline) {
			return false
		}
		// timed wait: poll (sync.Cond has no timeout)
		c.mu.Unlock()
		time.Sleep(20 * time.Microsecond)
		c.mu.Lock()
	}
	return true
}

// State returns the state and (if parked) the site of a thread; Finished for unknown threads
// that were never spawned is not distinguished.
func (c *Ctl) State(tid int) (int, string, []int64) {
	c.mu.Lock()
	defer c.mu.Unlock()
	t := c.thr[tid]
	if t == nil {
		return -1, "", nil
	}
	return t.state, t.site, t.args
}

// Step releases thread tid if it is parked and waits for the system to settle. It returns
// false if the thread was not parked (asleep, running/blocked without a hook, finished).
func (c *Ctl) Step(tid int, timeout time.Duration) (released bool, settled bool) {
	c.mu.Lock()
	t := c.thr[tid]
	if t == nil || t.state != Parked {
		c.mu.Unlock()
		return false, c.Settle(timeout)
	}
	t.state = Running
	t.resume <- struct{}{}
	c.mu.Unlock()
	return true, c.Settle(timeout)
}

// MarkBlocked tells the controller that a thread that did not settle is blocked in a call
// without a hook (so that later Settle calls do not wait for it). It becomes Running again
// by itself when it logs its next event.
func (c *Ctl) MarkBlocked(tid int) {
	c.mu.Lock()
	if t := c.thr[tid]; t != nil && t.state == Running {
		t.state = Sleeping
		t.sleepKind, t.sleepOn = "blocked", 0
	}
	c.mu.Unlock()
}

// Log returns a copy of the event log.
func (c *Ctl) Log() []Ev {
	c.mu.Lock()
	defer c.mu.Unlock()
	return append([]Ev{}, c.log...)
}

// LogLen returns the current length of the log.
func (c *Ctl) LogLen() int {
	c.mu.Lock()
	defer c.mu.Unlock()
	return len(c.log)
}

// WaitThread waits until thread tid is not running (parked, asleep, finished) or the timeout
// expires, and returns its state. Unlike Settle it ignores all other threads, so independent
// scenarios can share one controller.
func (c *Ctl) WaitThread(tid int, timeout time.Duration) int {
	deadline := time.Now().Add(timeout)
	for {
		c.mu.Lock()
		t := c.thr[tid]
		st := -1
		if t != nil {
			st = t.state
		}
		c.mu.Unlock()
		if st != Running && st != -1 {
			return st
		}
		if time.Now().After(deadline) {
			return st
		}
		time.Sleep(100 * time.Microsecond)
	}
}

// StepThread releases thread tid if it is parked and waits for that thread only.
func (c *Ctl) StepThread(tid int, timeout time.Duration) int {
	c.mu.Lock()
	t := c.thr[tid]
	if t != nil && t.state == Parked {
		t.state = Running
		t.resume <- struct{}{}
	}
	c.mu.Unlock()
	return c.WaitThread(tid, timeout)
}
