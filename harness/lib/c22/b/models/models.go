// Package models (variant b): same package name and type names as lib/c22/a/models, other shapes.
package models

import "time"

// Doc: single-value catalog model here.
type Doc struct {
	Value  string    `hydraide:"value,omitempty"`
	ID     string    `hydraide:"key"`
	Expire time.Time `hydraide:"expireAt,omitempty"`
}

// Counter: map-body catalog model here, with near-miss names.
type Counter struct {
	Count  uint32            `hydraide:"values"`
	Labels map[string]string `hydraide:"createdAtUtc,omitempty"`
	Name   string            `hydraide:"key"`
}

// Settings: profile model with other fields.
type Settings struct {
	Level float64
	Theme []byte `hydraide:"deletable"`
	Since time.Time `hydraide:"omitempty"`
}

func Types() []any { return []any{Doc{}, Counter{}, Settings{}} }
