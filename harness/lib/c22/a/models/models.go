// Package models (variant a): named catalog / profile model types for the C22 harness. The
// sibling package lib/c22/b/models declares DIFFERENT types under the same package name and
// the same type names, so reflect's Name() and String() coincide while PkgPath() differs.
package models

import "time"

// Doc: map-body catalog model.
type Doc struct {
	ID    string   `hydraide:"key"`
	Title string   `hydraide:"title"`
	Pages int32    `hydraide:"pages,omitempty"`
	Tags  []string `hydraide:"keywords"`
	At    time.Time `hydraide:"createdAt,omitempty"`
}

// Counter: single-value catalog model.
type Counter struct {
	Name  string `hydraide:"key"`
	Count int64  `hydraide:"value"`
	By    string `hydraide:"updatedBy,omitempty"`
}

// Settings: profile model.
type Settings struct {
	Theme string
	Level uint16 `hydraide:"omitempty"`
	Tags  []string
}

func Types() []any { return []any{Doc{}, Counter{}, Settings{}} }
