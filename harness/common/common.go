// Package common: shared pieces of the correspondence harness – one PRNG, the Coq term
// printers, and the run-directory protocol (cases_*.v + meta.json) that tools/check.py reads.
package common

import (
	"encoding/json"
	"flag"
	"fmt"
	"os"
	"path/filepath"
	"sort"
	"strconv"
	"strings"
)

// ---- PRNG: SplitMix64, every random choice of a run derives from one state -------------

type Rng struct{ s uint64 }

func NewRng(seed uint64, salt string) *Rng {
	h := uint64(1469598103934665603)
	for i := 0; i < len(salt); i++ {
		h ^= uint64(salt[i])
		h *= 1099511628211
	}
	return &Rng{s: seed*0x9E3779B97F4A7C15 ^ h}
}
func (r *Rng) U64() uint64 {
	r.s += 0x9E3779B97F4A7C15
	z := r.s
	z = (z ^ (z >> 30)) * 0xBF58476D1CE4E5B9
	z = (z ^ (z >> 27)) * 0x94D049BB133111EB
	return z ^ (z >> 31)
}
func (r *Rng) Intn(n int) int {
	if n <= 0 {
		return 0
	}
	return int(r.U64() % uint64(n))
}
func (r *Rng) Bool() bool         { return r.U64()&1 == 1 }
func (r *Rng) Chance(p int) bool  { return r.Intn(100) < p } // p percent
func (r *Rng) Pick(xs []int) int  { return xs[r.Intn(len(xs))] }
func (r *Rng) Fork(tag string) *Rng { return NewRng(r.U64(), tag) }
func (r *Rng) Bytes(n int) []byte {
	b := make([]byte, n)
	for i := range b {
		b[i] = byte(r.U64())
	}
	return b
}

// Parallel runs f(0..n-1) on up to w goroutines.
func Parallel(n, w int, f func(i int)) {
	if w < 1 {
		w = 1
	}
	ch := make(chan int)
	done := make(chan struct{})
	for k := 0; k < w; k++ {
		go func() {
			for i := range ch {
				f(i)
			}
			done <- struct{}{}
		}()
	}
	for i := 0; i < n; i++ {
		ch <- i
	}
	close(ch)
	for k := 0; k < w; k++ {
		<-done
	}
}

// ---- Coq term printers -------------------------------------------------------------------

func Z(v int64) string {
	if v < 0 {
		return "(" + strconv.FormatInt(v, 10) + ")%Z"
	}
	return strconv.FormatInt(v, 10) + "%Z"
}
func N(v uint64) string   { return strconv.FormatUint(v, 10) + "%N" }
func Nat(v int) string    { return strconv.Itoa(v) + "%nat" }
func Bool(b bool) string  { if b { return "true" }; return "false" }
func List(xs []string) string { return "[" + strings.Join(xs, "; ") + "]" }
func ZList(xs []int64) string {
	s := make([]string, len(xs))
	for i, x := range xs {
		s[i] = Z(x)
	}
	return List(s)
}
func NList(xs []uint64) string {
	s := make([]string, len(xs))
	for i, x := range xs {
		s[i] = N(x)
	}
	return List(s)
}
// ByteList prints a byte string as a list of N (byte := N in the models).
func ByteList(b []byte) string {
	var sb strings.Builder
	sb.WriteString("[")
	for i, x := range b {
		if i > 0 {
			sb.WriteString(";")
		}
		sb.WriteString(strconv.Itoa(int(x)))
	}
	sb.WriteString("]%N")
	return sb.String()
}
func Pair(a, b string) string { return "(" + a + ", " + b + ")" }
func App(f string, args ...string) string {
	if len(args) == 0 {
		return f
	}
	return "(" + f + " " + strings.Join(args, " ") + ")"
}
func Some(x string) string { return "(Some " + x + ")" }
func Opt(x *string) string {
	if x == nil {
		return "None"
	}
	return Some(*x)
}

// ---- run directory ------------------------------------------------------------------------

type Violation struct {
	Index     int    `json:"index"`
	Clause    string `json:"clause"`
	Signature string `json:"signature"`
	Detail    string `json:"detail"`
}

type Meta struct {
	Property     string                 `json:"property"`
	Seed         uint64                 `json:"seed"`
	Tier         string                 `json:"tier"`
	Evaluations  int                    `json:"evaluations"`
	Nontrivial   int                    `json:"distinct_nontrivial"`
	Rule         string                 `json:"rule"`
	Samples      []interface{}          `json:"samples"`
	Histogram    map[string]int         `json:"histogram"`
	ImplViolations []Violation          `json:"impl_violations"` // found by Go-side oracles
	Traces       int                    `json:"traces_validated_against_impl"`
	Extra        map[string]interface{} `json:"extra,omitempty"`
	CaseDescr    map[string]interface{} `json:"case_descr,omitempty"` // index -> replay description
}

// Run collects the cases of one harness invocation.
type Run struct {
	Dir      string
	Module   string // Coq module with check_all, e.g. "HV.Conc.Guard"
	CaseType string // informational
	Shard    int    // cases per cases_k.v
	Meta     Meta
	cases    []string
	descr    []interface{}
	distinct map[string]bool
}

type Args struct {
	Seed   uint64
	Tier   string
	Out    string
	Replay string
	Only   int
}

func ParseArgs() Args {
	var a Args
	flag.Uint64Var(&a.Seed, "seed", 1, "VERIF_SEED")
	flag.StringVar(&a.Tier, "tier", "quick", "quick|thorough")
	flag.StringVar(&a.Out, "out", "", "run directory")
	flag.StringVar(&a.Replay, "replay", "", "replay file (re-run the case it describes)")
	flag.IntVar(&a.Only, "only", -1, "only this case index")
	flag.Parse()
	if a.Out == "" {
		fmt.Fprintln(os.Stderr, "need --out")
		os.Exit(2)
	}
	os.MkdirAll(a.Out, 0o755)
	return a
}

func NewRun(a Args, prop, module string) *Run {
	return &Run{Dir: a.Out, Module: module, Shard: 400,
		Meta: Meta{Property: prop, Seed: a.Seed, Tier: a.Tier, Histogram: map[string]int{},
			Extra: map[string]interface{}{}, CaseDescr: map[string]interface{}{}},
		distinct: map[string]bool{}}
}

// Add registers one case. term is the Coq term of the case (input + observations);
// descr is a JSON-able description for replay files; nontrivial per the property's rule.
func (r *Run) Add(term string, descr interface{}, nontrivial bool) int {
	idx := len(r.cases)
	r.cases = append(r.cases, term)
	r.descr = append(r.descr, descr)
	r.Meta.Evaluations++
	if nontrivial && !r.distinct[term] {
		r.distinct[term] = true
		r.Meta.Nontrivial++
	}
	if len(r.Meta.Samples) < 3 {
		r.Meta.Samples = append(r.Meta.Samples, descr)
	}
	return idx
}

func (r *Run) Hist(key string) { r.Meta.Histogram[key]++ }
func (r *Run) HistN(key string, n int) { r.Meta.Histogram[key] += n }

func (r *Run) Violate(idx int, clause, sig, detail string) {
	r.Meta.ImplViolations = append(r.Meta.ImplViolations, Violation{idx, clause, sig, detail})
}

// Finish writes cases_k.v (each evaluates [check_all] on its shard with vm_compute and
// prints one line per non-zero verdict) and meta.json.
func (r *Run) Finish(checkFn string) {
	if r.Shard <= 0 {
		r.Shard = 400
	}
	nsh := 0
	for start := 0; start < len(r.cases) || (start == 0 && nsh == 0); start += r.Shard {
		end := start + r.Shard
		if end > len(r.cases) {
			end = len(r.cases)
		}
		var sb strings.Builder
		sb.WriteString("(* generated by the harness – do not edit *)\n")
		sb.WriteString("From HV Require Import Base.Prelude " + strings.TrimPrefix(r.Module, "HV.") + ".\n")
		sb.WriteString("Local Open Scope N_scope.\n")
		sb.WriteString("Definition cases := [\n")
		for i := start; i < end; i++ {
			if i > start {
				sb.WriteString(";\n")
			}
			sb.WriteString("  " + r.cases[i])
		}
		sb.WriteString("\n].\n")
		fmt.Fprintf(&sb, "Definition R := Eval vm_compute in (map (fun p => (N.add %d (fst p), snd p)) (%s cases)).\n", start, checkFn)
		sb.WriteString("Print R.\n")
		os.WriteFile(filepath.Join(r.Dir, fmt.Sprintf("cases_%d.v", nsh)), []byte(sb.String()), 0o644)
		nsh++
		if len(r.cases) == 0 {
			break
		}
	}
	// keep descriptions for every case: the driver needs them for replay files
	d := map[string]interface{}{}
	for i, x := range r.descr {
		d[strconv.Itoa(i)] = x
	}
	b, _ := json.Marshal(d)
	os.WriteFile(filepath.Join(r.Dir, "descr.json"), b, 0o644)
	t := map[string]string{}
	for i, x := range r.cases {
		t[strconv.Itoa(i)] = x
	}
	b, _ = json.Marshal(t)
	os.WriteFile(filepath.Join(r.Dir, "terms.json"), b, 0o644)
	r.Meta.Extra["shards"] = nsh
	r.Meta.CaseDescr = nil
	keys := make([]string, 0, len(r.Meta.Histogram))
	for k := range r.Meta.Histogram {
		keys = append(keys, k)
	}
	sort.Strings(keys)
	b, _ = json.MarshalIndent(r.Meta, "", " ")
	os.WriteFile(filepath.Join(r.Dir, "meta.json"), b, 0o644)
}
