// Package rig starts the real HydrAIDE engine in-process: settings + zeus/hydra + the gRPC
// gateway object (called directly, no network), and optionally the real Go SDK connected to
// it over an in-memory bufconn listener. One server per process (the data root is a package
// global of app/core/settings), but it can be stopped and started again on the same root.
package rig

import (
	"context"
	"io"
	"log/slog"
	"net"
	"os"
	"strings"

	"github.com/hydraide/hydraide/app/core/filesystem"
	"github.com/hydraide/hydraide/app/core/settings"
	"github.com/hydraide/hydraide/app/core/zeus"
	"github.com/hydraide/hydraide/app/name"
	"github.com/hydraide/hydraide/app/server/gateway"
	"github.com/hydraide/hydraide/sdk/go/hydraidego/v3"
	"github.com/hydraide/hydraide/sdk/go/hydraidego/v3/client"
	hydrapb "github.com/hydraide/hydraide/sdk/go/hydraidego/v3/hydraidepbgo"
	sdkname "github.com/hydraide/hydraide/sdk/go/hydraidego/v3/name"
	"google.golang.org/grpc"
	"google.golang.org/grpc/credentials/insecure"
	"google.golang.org/grpc/test/bufconn"
)

type Server struct {
	Root     string
	Settings settings.Settings
	Zeus     zeus.Zeus
	GW       *gateway.Gateway
	V2       bool
	cancel   context.CancelFunc
}

// Quiet silences slog (the engine logs a lot) - except recovered gateway panics, whose message and
// stack are appended to the file named by VERIF_PANIC_LOG (if set), so that a "request panicked"
// observation of a harness can be explained afterwards.
func Quiet() { slog.SetDefault(slog.New(panicOnly{slog.NewTextHandler(io.Discard, nil)})) }

type panicOnly struct{ slog.Handler }

func (p panicOnly) Enabled(_ context.Context, l slog.Level) bool { return l >= slog.LevelError }
func (p panicOnly) Handle(_ context.Context, r slog.Record) error {
	if !strings.Contains(r.Message, "panic") {
		return nil
	}
	path := os.Getenv("VERIF_PANIC_LOG")
	if path == "" {
		return nil
	}
	f, err := os.OpenFile(path, os.O_APPEND|os.O_CREATE|os.O_WRONLY, 0o644)
	if err != nil {
		return nil
	}
	defer f.Close()
	var sb strings.Builder
	sb.WriteString("==== " + r.Message + "\n")
	r.Attrs(func(a slog.Attr) bool { sb.WriteString(a.Key + ": " + a.Value.String() + "\n"); return true })
	_, _ = f.WriteString(sb.String())
	return nil
}
func (p panicOnly) WithAttrs([]slog.Attr) slog.Handler { return p }
func (p panicOnly) WithGroup(string) slog.Handler      { return p }

// Start boots an engine whose data lives under root/data. depth/perLevel are the hashed
// folder parameters (the production server uses 1 and 1000).
func Start(root string, v2 bool) *Server { return StartWith(root, v2, 1, 1000) }

func StartWith(root string, v2 bool, depth, perLevel int) *Server {
	os.MkdirAll(root, 0o755)
	os.Setenv("HYDRAIDE_ROOT_PATH", root)
	st := settings.New(depth, perLevel)
	if v2 {
		_ = st.SetEngine(settings.EngineV2)
	}
	z := zeus.New(st, filesystem.New())
	z.StartHydra()
	ctx, cancel := context.WithCancel(context.Background())
	gw := &gateway.Gateway{
		SettingsInterface:     st,
		ZeusInterface:         z,
		DefaultCloseAfterIdle: 3600,
		DefaultWriteInterval:  1,
		DefaultFileSize:       8192,
		ShutdownCtx:           ctx,
	}
	return &Server{Root: root, Settings: st, Zeus: z, GW: gw, V2: v2, cancel: cancel}
}

// Name parses "sanctuary/realm/swamp".
func Name(s string) name.Name {
	p := strings.SplitN(s, "/", 3)
	for len(p) < 3 {
		p = append(p, "")
	}
	return name.New().Sanctuary(p[0]).Realm(p[1]).Swamp(p[2])
}

// Register registers a pattern. writeIntervalSec < 0 => in-memory swamp.
func (s *Server) Register(pattern string, inMemory bool, idleSec, writeIntervalSec, maxFileSize int64) {
	var fs *settings.FileSystemSettings
	if !inMemory {
		fs = &settings.FileSystemSettings{WriteIntervalSec: writeIntervalSec, MaxFileSizeByte: maxFileSize, UseChroniclerV2: s.V2}
	}
	s.Settings.RegisterPattern(Name(pattern), inMemory, idleSec, fs)
}

// Stop shuts the engine down gracefully (flushes and closes every swamp).
func (s *Server) Stop() {
	s.cancel()
	s.Zeus.StopHydra()
}

// Restart stops the engine and boots a new one on the same root.
func (s *Server) Restart() *Server {
	s.Stop()
	return Start(s.Root, s.V2)
}

// ---- real SDK over bufconn ---------------------------------------------------------------

type fakeClient struct {
	sc   hydrapb.HydraideServiceClient
	conn *grpc.ClientConn
}

func (f *fakeClient) Connect(bool) error { return nil }
func (f *fakeClient) CloseConnection()   {}
func (f *fakeClient) GetServiceClient(sdkname.Name) hydrapb.HydraideServiceClient {
	return f.sc
}
func (f *fakeClient) GetServiceClientAndHost(sdkname.Name) *client.ServiceClient {
	return &client.ServiceClient{GrpcClient: f.sc, Host: "bufconn"}
}
func (f *fakeClient) GetUniqueServiceClients() []hydrapb.HydraideServiceClient {
	return []hydrapb.HydraideServiceClient{f.sc}
}
func (f *fakeClient) GetAllIslands() uint64 { return 1000 }

// SDK serves the gateway on a bufconn listener and returns the real SDK bound to it, the raw
// gRPC client, and a cleanup function.
func (s *Server) SDK() (hydraidego.Hydraidego, hydrapb.HydraideServiceClient, func()) {
	lis := bufconn.Listen(4 << 20)
	gs := grpc.NewServer(grpc.MaxRecvMsgSize(1<<30), grpc.MaxSendMsgSize(1<<30))
	hydrapb.RegisterHydraideServiceServer(gs, s.GW)
	go func() { _ = gs.Serve(lis) }()
	conn, err := grpc.NewClient("passthrough:///bufnet",
		grpc.WithContextDialer(func(ctx context.Context, _ string) (net.Conn, error) { return lis.DialContext(ctx) }),
		grpc.WithTransportCredentials(insecure.NewCredentials()),
		grpc.WithDefaultCallOptions(grpc.MaxCallRecvMsgSize(1<<30), grpc.MaxCallSendMsgSize(1<<30)))
	if err != nil {
		panic(err)
	}
	sc := hydrapb.NewHydraideServiceClient(conn)
	fc := &fakeClient{sc: sc, conn: conn}
	return hydraidego.New(fc), sc, func() { conn.Close(); gs.Stop(); lis.Close() }
}
