// c24: correspondence check for app/core/compressor against Compress/Wrapper.v and
// Compress/Snappy.v.
//
// For every algorithm and generated input the real Compressor is run (Compress, Decompress,
// Decompress of damaged forms); the third-party codec is also called directly, the way
// compressor.go calls it, to give the wrapper model its oracle (M5).  The Coq side replays
// the wrapper model, evaluates the property clauses (round trip; damaged data gives an error
// or the original), classifies silent differences, and runs the Gallina snappy decoder on
// every snappy block (valid and damaged).
package main

import (
	"bytes"
	"compress/gzip"
	"encoding/binary"
	"fmt"
	"io"
	"os"
	"runtime/debug"
	"strings"
	"sync"
	"time"

	"github.com/golang/snappy"
	"github.com/hydraide/hydraide/app/core/compressor"
	"github.com/klauspost/compress/zstd"
	"github.com/pierrec/lz4"
	"verif/harness/common"
)

var algName = map[int]string{1: "gzip", 2: "lz4", 3: "snappy", 4: "zstd"}

type result struct {
	data  []byte
	err   bool
	panic string
}

func (r result) coq() string {
	if r.err || r.panic != "" {
		return "Err"
	}
	return common.App("Ok", common.ByteList(r.data))
}
func (r result) human() string {
	if r.panic != "" {
		return "panic: " + r.panic
	}
	if r.err {
		return "error"
	}
	return fmt.Sprintf("ok len=%d %x", len(r.data), trunc(r.data, 48))
}

// robs: observation relative to the original input x (RPatch = x with few bytes replaced)
func (r result) robs(x []byte) string {
	if r.err || r.panic != "" {
		return "RErr"
	}
	if len(r.data) == len(x) {
		var ps []string
		for i := range x {
			if r.data[i] != x[i] {
				ps = append(ps, common.Pair(common.N(uint64(i)), common.N(uint64(r.data[i]))))
				if len(ps) > 8 {
					break
				}
			}
		}
		if len(ps) <= 8 {
			return common.App("RPatch", common.List(ps))
		}
	}
	return common.App("ROk", common.ByteList(r.data))
}
func (r result) same(o result) bool {
	return (r.err || r.panic != "") == (o.err || o.panic != "") && (r.err || r.panic != "" || bytes.Equal(r.data, o.data))
}
func trunc(b []byte, n int) []byte {
	if len(b) > n {
		return b[:n]
	}
	return b
}

func guard(f func() ([]byte, error)) (r result) {
	defer func() {
		if p := recover(); p != nil {
			r = result{panic: fmt.Sprint(p)}
		}
	}()
	d, e := f()
	if e != nil {
		return result{err: true}
	}
	return result{data: d}
}

// the codecs called directly, as compressor.go calls them
func libEnc(t int, x []byte) result {
	return guard(func() ([]byte, error) {
		switch t {
		case 1:
			var b bytes.Buffer
			w := gzip.NewWriter(&b)
			if _, err := w.Write(x); err != nil {
				return nil, err
			}
			if err := w.Close(); err != nil {
				return nil, err
			}
			return b.Bytes(), nil
		case 2:
			var b bytes.Buffer
			w := lz4.NewWriter(&b)
			if _, err := w.Write(x); err != nil {
				return nil, err
			}
			if err := w.Close(); err != nil {
				return nil, err
			}
			return b.Bytes(), nil
		case 3:
			return snappy.Encode(nil, x), nil
		case 4:
			e, err := zstd.NewWriter(nil)
			if err != nil {
				return nil, err
			}
			defer e.Close()
			return e.EncodeAll(x, nil), nil
		}
		return nil, fmt.Errorf("unknown")
	})
}

func libDec(t int, y []byte) result {
	return guard(func() ([]byte, error) {
		switch t {
		case 1:
			r, err := gzip.NewReader(bytes.NewReader(y))
			if err != nil {
				return nil, err
			}
			return io.ReadAll(r)
		case 2:
			zr := lz4Pool.Get().(*lz4.Reader)
			defer lz4Pool.Put(zr)
			zr.Reset(bytes.NewReader(y))
			return io.ReadAll(zr)
		case 3:
			return snappy.Decode(nil, y)
		case 4:
			d, err := zstd.NewReader(nil)
			if err != nil {
				return nil, err
			}
			defer d.Close()
			return d.DecodeAll(y, nil)
		}
		return nil, fmt.Errorf("unknown")
	})
}

var lz4Pool = sync.Pool{New: func() interface{} { return lz4.NewReader(nil) }}

func wrapEnc(t int, x []byte) result {
	return guard(func() ([]byte, error) { return compressor.New(compressor.Type(t)).Compress(x) })
}
func wrapDec(t int, y []byte) result {
	return guard(func() ([]byte, error) { return compressor.New(compressor.Type(t)).Decompress(y) })
}

type dmg struct {
	kind  string // flip | trunc | append
	flips [][2]int
	n     int
	g     []byte
}

func (d dmg) apply(y []byte) []byte {
	switch d.kind {
	case "flip":
		o := append([]byte{}, y...)
		for _, f := range d.flips {
			o[f[0]] ^= byte(f[1])
		}
		return o
	case "trunc":
		return append([]byte{}, y[:d.n]...)
	default:
		return append(append([]byte{}, y...), d.g...)
	}
}
func (d dmg) coq() string {
	switch d.kind {
	case "flip":
		fs := make([]string, len(d.flips))
		for i, f := range d.flips {
			fs[i] = common.Pair(common.N(uint64(f[0])), common.N(uint64(f[1])))
		}
		return common.App("DFlip", common.List(fs))
	case "trunc":
		return common.App("DTrunc", common.N(uint64(d.n)))
	default:
		return common.App("DAppend", common.ByteList(d.g))
	}
}
func (d dmg) human() string {
	switch d.kind {
	case "flip":
		return fmt.Sprintf("flip(pos,xor)=%v", d.flips)
	case "trunc":
		return fmt.Sprintf("truncate to %d bytes", d.n)
	default:
		return fmt.Sprintf("append %x", d.g)
	}
}

func genInputs(rng *common.Rng, thorough bool) [][]byte {
	var in [][]byte
	in = append(in, []byte{}, []byte{0}, []byte{0x7f}, []byte("a"), []byte("ab"))
	in = append(in, bytes.Repeat([]byte{0xab}, 300), bytes.Repeat([]byte("abcd"), 40), bytes.Repeat([]byte{0}, 64))
	text := "The quick brown fox jumps over the lazy dog. Pack my box with five dozen liquor jugs. "
	in = append(in, []byte(text[:54]), []byte(text), []byte(strings.Repeat(text, 4)))
	in = append(in, []byte(`{"id":12345,"name":"swamp","tags":["a","b","a","b"],"name2":"swamp"}`))
	nr, maxLen := 14, 400
	if thorough {
		nr, maxLen = 70, 512
	}
	for i := 0; i < nr; i++ {
		n := rng.Intn(maxLen + 1)
		switch rng.Intn(4) {
		case 0: // random
			in = append(in, rng.Bytes(n))
		case 1: // small alphabet: many matches
			b := make([]byte, n)
			for j := range b {
				b[j] = byte('a' + rng.Intn(3))
			}
			in = append(in, b)
		case 2: // random then repeated chunk
			c := rng.Bytes(1 + rng.Intn(24))
			b := rng.Bytes(rng.Intn(40))
			for len(b) < n {
				b = append(b, c...)
			}
			in = append(in, b)
		default: // boundaries around the snappy literal-length encodings and block minimum
			in = append(in, rng.Bytes([]int{15, 16, 17, 59, 60, 61, 62, 255, 256, 257}[rng.Intn(10)]))
		}
	}
	return in
}

// subsample keeps at most cap elements, in order
func subsample(rng *common.Rng, ds []dmg, cap int) []dmg {
	if len(ds) <= cap {
		return ds
	}
	keep := make([]bool, len(ds))
	for k := 0; k < cap; {
		i := rng.Intn(len(ds))
		if !keep[i] {
			keep[i] = true
			k++
		}
	}
	var out []dmg
	for i, d := range ds {
		if keep[i] {
			out = append(out, d)
		}
	}
	return out
}

func genDamages(rng *common.Rng, y []byte, thorough bool) []dmg {
	var ds []dmg
	n := len(y)
	if n == 0 {
		return []dmg{{kind: "append", g: []byte{0}}, {kind: "append", g: rng.Bytes(5)}}
	}
	for p := 0; p < n; p++ {
		if n <= 48 || thorough && n <= 128 {
			for b := 0; b < 8; b++ {
				ds = append(ds, dmg{kind: "flip", flips: [][2]int{{p, 1 << b}}})
			}
		} else {
			ds = append(ds, dmg{kind: "flip", flips: [][2]int{{p, 1 << rng.Intn(8)}}})
		}
		ds = append(ds, dmg{kind: "flip", flips: [][2]int{{p, 1 + rng.Intn(255)}}})
	}
	nm := 16
	if thorough {
		nm = 64
	}
	for i := 0; i < nm && n >= 2; i++ {
		k := 2 + rng.Intn(3)
		seen := map[int]bool{}
		var fl [][2]int
		for len(fl) < k && len(fl) < n {
			p := rng.Intn(n)
			if seen[p] {
				continue
			}
			seen[p] = true
			fl = append(fl, [2]int{p, 1 + rng.Intn(255)})
		}
		ds = append(ds, dmg{kind: "flip", flips: fl})
	}
	if n <= 64 || thorough {
		for k := 0; k < n; k++ {
			ds = append(ds, dmg{kind: "trunc", n: k})
		}
	} else {
		ds = append(ds, dmg{kind: "trunc", n: 0}, dmg{kind: "trunc", n: n - 1})
		for i := 0; i < 30; i++ {
			ds = append(ds, dmg{kind: "trunc", n: rng.Intn(n)})
		}
	}
	ds = append(ds, dmg{kind: "append", g: []byte{0}}, dmg{kind: "append", g: []byte{1, 2, 3}},
		dmg{kind: "append", g: make([]byte, 16)}, dmg{kind: "append", g: rng.Bytes(8)})
	return ds
}

// a damaged snappy block announcing a huge decoded length makes the library allocate it
func hugeSnappy(t int, y []byte) bool {
	if t != 3 {
		return false
	}
	v, n := binary.Uvarint(y)
	return n > 0 && v > 1<<26 && v <= 0xffffffff
}

var tLast = time.Now()

func tick(what string) {
	if os.Getenv("C24_TIMING") != "" {
		fmt.Fprintln(os.Stderr, "phase", what, time.Since(tLast))
	}
	tLast = time.Now()
}

func main() {
	a := common.ParseArgs()
	run := common.NewRun(a, "C24", "HV.Compress.Wrapper")
	run.Shard = 25
	thorough := a.Tier == "thorough"
	run.Meta.Rule = "a case is one algorithm (gzip, lz4, snappy, zstd) with one input (0..512 bytes: empty, single bytes, runs, text, random, repetitive) and either its Compress/Decompress round trip through the real Compressor, or a group of up to 24 damaged forms of its compressed bytes (every position flipped, multi-byte flips, truncations, appended garbage) each decompressed by the real Compressor and by the codec directly; plus arbitrary garbage, unknown compressor types and large round trips (64 KiB-1 .. 4 MiB+1 on the codecs' block boundaries; zeros, byte runs, periodic, sparse and random content, i.e. ratios from 1:1 to beyond 1000:1; one reused Compressor object per algorithm); non-trivial = a damage group, or a round trip of a non-empty input"
	rng := common.NewRng(a.Seed, "C24")
	inputs := genInputs(rng, thorough)

	type dres struct {
		d       dmg
		lib, wr result
		skipped bool
	}
	type job struct {
		n, t           int
		x              []byte
		le, we, ld, wd result
		ds             []dres
	}
	var jobs []*job
	for t := 1; t <= 4; t++ {
		for n, x := range inputs {
			jobs = append(jobs, &job{n: n, t: t, x: x})
		}
	}
	// damage lists are drawn sequentially (deterministic), the codec calls run in parallel
	for _, j := range jobs {
		j.le = libEnc(j.t, j.x)
		j.we = wrapEnc(j.t, j.x)
		if !j.we.err && j.we.panic == "" {
			// the codecs cost 0.2 ms (zstd) to 10 ms (lz4: 4 MiB buffers) per call: cap the
			// number of damaged forms per input; the tiny inputs keep (nearly) all of theirs
			cap := map[int]int{1: 60, 2: 12, 3: 100, 4: 60}[j.t]
			if len(j.x) <= 2 && j.t == 2 {
				cap *= 2
			} else if len(j.x) <= 2 {
				cap *= 4
			}
			if thorough {
				cap *= 5
			} else if j.t == 2 && j.n >= 5 {
				cap = 0 // lz4 is the slowest codec by far: damage only the first inputs in the quick tier
			}
			for _, d := range subsample(rng, genDamages(rng, j.we.data, thorough), cap) {
				j.ds = append(j.ds, dres{d: d})
			}
		}
	}
	tick("encode+damage lists")
	work := func(i int) {
		j := jobs[i]
		t0 := time.Now()
		defer func() {
			if os.Getenv("C24_TIMING") != "" {
				fmt.Fprintf(os.Stderr, "job %d alg %d len %d dmg %d: %v\n", i, j.t, len(j.x), len(j.ds), time.Since(t0))
			}
		}()
		if j.we.err || j.we.panic != "" {
			return
		}
		y := j.we.data
		j.ld = libDec(j.t, y)
		j.wd = wrapDec(j.t, y)
		for k := range j.ds {
			y2 := j.ds[k].d.apply(y)
			if hugeSnappy(j.t, y2) {
				j.ds[k].skipped = true
				continue
			}
			j.ds[k].lib = libDec(j.t, y2)
			j.ds[k].wr = wrapDec(j.t, y2)
		}
	}
	tPar := time.Now()
	// lz4 allocates several 4 MiB buffers per call; many concurrent lz4 calls thrash the
	// collector, so the lz4 jobs get two workers of their own
	debug.SetGCPercent(400)
	var lz4Jobs, otherJobs []int
	for i, j := range jobs {
		if j.t == 2 {
			lz4Jobs = append(lz4Jobs, i)
		} else {
			otherJobs = append(otherJobs, i)
		}
	}
	var wg sync.WaitGroup
	wg.Add(2)
	go func() { defer wg.Done(); common.Parallel(len(lz4Jobs), 3, func(k int) { work(lz4Jobs[k]) }) }()
	go func() { defer wg.Done(); common.Parallel(len(otherJobs), 8, func(k int) { work(otherJobs[k]) }) }()
	wg.Wait()
	if os.Getenv("C24_TIMING") != "" {
		fmt.Fprintln(os.Stderr, "parallel phase", time.Since(tPar))
	}
	for _, j := range jobs {
		name := algName[j.t]
		weT, wdT := "None", "WSame"
		if !j.we.same(j.le) {
			weT = common.Some(j.we.coq())
		}
		if !j.wd.same(j.ld) {
			wdT = common.App("WIs", j.wd.robs(j.x))
		}
		idx := run.Add(common.App("CRound", common.Z(int64(j.t)), common.ByteList(j.x), j.le.coq(), weT, j.ld.robs(j.x), wdT),
			map[string]interface{}{"kind": "roundtrip", "alg": name, "input_hex": fmt.Sprintf("%x", j.x),
				"compress": j.we.human(), "decompress": j.wd.human()}, len(j.x) > 0)
		run.Hist("roundtrip_" + name)
		for _, r := range []result{j.le, j.we, j.ld, j.wd} {
			if r.panic != "" {
				run.Violate(idx, "no crash", "codec_panic", r.panic)
			}
		}
		if j.we.err || j.we.panic != "" {
			continue
		}
		var terms []string
		var hum []interface{}
		silent := 0
		for _, r := range j.ds {
			if r.skipped {
				run.Hist("skipped_huge_snappy_length")
				continue
			}
			if r.lib.panic != "" || r.wr.panic != "" {
				run.Violate(idx+1, "no crash", "decompress_panic", name+" "+r.d.human()+": "+r.wr.panic+r.lib.panic)
			}
			w := "WSame"
			if !r.wr.same(r.lib) {
				w = common.App("WIs", r.wr.robs(j.x))
			}
			terms = append(terms, fmt.Sprintf("{| dmg := %s; lib_dec := %s; wrap_dec := %s |}", r.d.coq(), r.lib.robs(j.x), w))
			outcome := "error"
			switch {
			case r.wr.err:
			case bytes.Equal(r.wr.data, j.x):
				outcome = "original"
			default:
				outcome = "SILENT-DIFFERENCE"
				silent++
			}
			if outcome != "error" || len(hum) < 40 {
				hum = append(hum, map[string]string{"damage": r.d.human(), "outcome": outcome, "decompress": r.wr.human(), "codec_directly": r.lib.human()})
			}
			run.Hist("damage_" + r.d.kind + "_" + name)
			if outcome == "SILENT-DIFFERENCE" {
				outcome = "silent_difference_" + name
			}
			run.Hist("outcome_" + outcome)
		}
		if len(terms) > 0 {
			run.Add(common.App("CDamage", common.Z(int64(j.t)), common.ByteList(j.x), common.ByteList(j.we.data), common.List(terms)),
				map[string]interface{}{"kind": "damage", "alg": name, "input_hex": fmt.Sprintf("%x", j.x),
					"compressed_hex": fmt.Sprintf("%x", j.we.data), "damaged_forms": len(terms), "silent_differences": silent,
					"damages_shown": hum}, true)
			run.HistN("damaged_forms_total", len(terms))
		}
	}

	tick("emit")
	// arbitrary garbage (never a compressed form): errors must propagate, snappy model must agree
	ng := 200
	if thorough {
		ng = 5000
	}
	for i := 0; i < ng; i++ {
		t := 1 + rng.Intn(4)
		if t == 2 && !thorough && rng.Intn(4) != 0 {
			t = 3 // lz4 calls are two orders of magnitude slower than the others
		}
		var y []byte
		switch rng.Intn(3) {
		case 0:
			y = rng.Bytes(rng.Intn(40))
		case 1: // plausible snappy: short varint + tag soup
			n := rng.Intn(30)
			y = append([]byte{byte(rng.Intn(64))}, rng.Bytes(n)...)
		default: // valid magic + junk
			magic := map[int][]byte{1: {0x1f, 0x8b, 8, 0, 0, 0, 0, 0, 0, 0xff}, 2: {4, 0x22, 0x4d, 0x18, 0x64, 0x70, 0xb9}, 3: {5, 16}, 4: {0x28, 0xb5, 0x2f, 0xfd, 4, 0}}[t]
			y = append(append([]byte{}, magic...), rng.Bytes(rng.Intn(24))...)
		}
		if hugeSnappy(t, y) {
			continue
		}
		ld, wd := libDec(t, y), wrapDec(t, y)
		idx := run.Add(common.App("CGarbage", common.Z(int64(t)), common.ByteList(y), ld.coq(), wd.coq()),
			map[string]interface{}{"kind": "garbage", "alg": algName[t], "bytes_hex": fmt.Sprintf("%x", y), "decompress": wd.human(), "codec_directly": ld.human()}, true)
		run.Hist("garbage_" + algName[t])
		if ld.panic != "" || wd.panic != "" {
			run.Violate(idx, "no crash", "decompress_panic", algName[t]+" garbage: "+wd.panic+ld.panic)
		}
	}
	tick("garbage")
	// unknown compressor types
	for _, t := range []int{0, 5, -1, 6, 255, 1 << 20} {
		// the bytes handed to Decompress are valid output of each real codec in turn, so that
		// a wrapper falling back to some codec for an unknown type is caught
		for valid := 1; valid <= 4; valid++ {
			x := rng.Bytes(1 + rng.Intn(20))
			y := libEnc(valid, x).data
			we, wd := wrapEnc(t, x), wrapDec(t, y)
			run.Add(common.App("CUnknown", common.Z(int64(t)), common.ByteList(y), we.coq(), wd.coq()),
				map[string]interface{}{"kind": "unknown-type", "type": t, "decompress_input": "valid " + algName[valid], "compress": we.human(), "decompress": wd.human()}, true)
			run.Hist("unknown_type")
		}
	}
	// large payloads: compared here, not in Coq.  Sizes sit on the codecs' internal boundaries
	// (64 KiB snappy block / lz4 window, 128 KiB zstd block, 4 MiB lz4 frame block) and go well
	// beyond 1 MiB; contents range from incompressible to the most compressible there is (lz4
	// reaches ~255:1, gzip ~1000:1, zstd far more), because size caps, ratio caps and buffer
	// reuse only show at such extremes.  One Compressor object per algorithm serves all of
	// them in sequence (second and later use of the same object), a fresh one cross-checks.
	type bigJob struct {
		t, n    int
		pattern string
		x       []byte
		same    bool
		detail  string
	}
	sizes := []int{65535, 65536, 65537, 131073, 1<<20 + 1, 3 << 20, 4<<20 + 1}
	if thorough {
		sizes = append(sizes, 8<<20, 16<<20+1)
	}
	patterns := []string{"zeros", "run", "periodic", "sparse", "random"}
	mkBig := func(pattern string, n int) []byte {
		x := make([]byte, n)
		switch pattern {
		case "run":
			for i := range x {
				x[i] = 0xab
			}
		case "periodic":
			copy(x, bytes.Repeat([]byte("hydraide swamp treasure "), n/24+1))
		case "sparse":
			for k := 0; k < n/4096+1; k++ {
				x[rng.Intn(n)] = byte(1 + rng.Intn(255))
			}
		case "random":
			x = rng.Bytes(n)
		}
		return x
	}
	var bigJobs []*bigJob
	for t := 1; t <= 4; t++ {
		for _, n := range sizes {
			for _, pattern := range patterns {
				if pattern == "random" && n > 1<<20+1 && !thorough {
					continue // incompressible data beyond 1 MiB adds time, not coverage
				}
				bigJobs = append(bigJobs, &bigJob{t: t, n: n, pattern: pattern, x: mkBig(pattern, n)})
			}
		}
	}
	common.Parallel(4, 4, func(w int) {
		t := w + 1
		shared := compressor.New(compressor.Type(t))
		for _, j := range bigJobs {
			if j.t != t {
				continue
			}
			we := guard(func() ([]byte, error) { return shared.Compress(j.x) })
			if we.err || we.panic != "" {
				j.detail = "compress failed " + we.panic
				continue
			}
			wd := guard(func() ([]byte, error) { return shared.Decompress(we.data) })
			fd := wrapDec(t, we.data) // a fresh object must agree
			switch {
			case wd.err || wd.panic != "":
				j.detail = "decompress failed " + wd.panic
			case !bytes.Equal(wd.data, j.x):
				j.detail = fmt.Sprintf("decompressed %d bytes of %d (compressed form: %d bytes)", len(wd.data), len(j.x), len(we.data))
			case !fd.same(wd):
				j.detail = "fresh and reused Compressor objects disagree"
			default:
				j.same = true
			}
		}
	})
	for _, j := range bigJobs {
		run.Add(common.App("CRoundBig", common.Z(int64(j.t)), common.N(uint64(j.n)), common.Bool(j.same)),
			map[string]interface{}{"kind": "roundtrip-large", "alg": algName[j.t], "len": j.n, "content": j.pattern, "same": j.same, "detail": j.detail}, true)
		run.Hist("roundtrip_large_" + algName[j.t])
		run.Hist("roundtrip_large_content_" + j.pattern)
		j.x = nil
	}
	tick("large")
	run.Shard = (run.Meta.Evaluations + 7) / 8 // each coqc start costs seconds: few shards
	run.Meta.Traces = run.Meta.Evaluations
	run.Finish("check_all")
}
