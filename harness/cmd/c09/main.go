// c09: correspondence check for "concurrent writes on a key are linearizable; no lost
// updates" (Conc/Lin.v).
//
// The real engine runs in-process (harness/rig). In every round 4..16 goroutines issue
// Set / IncrementInt64 / PatchTreasures(INC) / Delete / ShiftByKeys / Get requests through the
// gateway on 1..3 keys of one fresh swamp (write interval 0 = immediate write, 1 s, or
// in-memory). Invocation and response stamps come from one atomic counter. For every key the
// recorded history is handed to an untrusted WGL-style search which proposes a linear order;
// the order is emitted as a certificate and validated in Coq against the sequential meaning
// (Lin.check_case). If no order exists under the specification, the search tries the named
// deviation classes of Lin.relaxed_step (known-finding classification); a history with no
// explanation at all is reported here as a violation with the history as the replay.
package main

import (
	"context"
	"encoding/binary"
	"fmt"
	"os"
	"sort"
	"strings"
	"sync"
	"sync/atomic"
	"time"

	hydrapb "github.com/hydraide/hydraide/sdk/go/hydraidego/v3/hydraidepbgo"
	"verif/harness/common"
	"verif/harness/rig"
)

// ---- values, operations, responses (mirror of Conc/Lin.v) ------------------------------

type val struct {
	Kind byte  `json:"kind"` // 0 absent, 'I' int64, 'M' msgpack map {"n": z}, 'V' record with void content
	Z    int64 `json:"z"`
}

func (v val) coq() string {
	switch v.Kind {
	case 'I':
		return "(Some (VI " + common.Z(v.Z) + "))"
	case 'M':
		return "(Some (VM " + common.Z(v.Z) + "))"
	case 'V':
		return "(Some VV)"
	}
	return "None"
}
func (v val) coqVal() string {
	if v.Kind == 'I' {
		return "(VI " + common.Z(v.Z) + ")"
	}
	return "(VM " + common.Z(v.Z) + ")"
}
func (v val) String() string {
	if v.Kind == 0 {
		return "absent"
	}
	return fmt.Sprintf("%c%d", v.Kind, v.Z)
}

const (
	kSet = iota
	kInc
	kDel
	kShift
	kPatch
	kGet
)

var kindNames = []string{"Set", "Inc", "Del", "Shift", "Patch", "Get"}

type op struct {
	Kind   int   `json:"kind"`
	V      val   `json:"v"`      // Set
	D      int64 `json:"d"`      // Inc / Patch delta
	Create bool  `json:"create"` // Patch
}

func (o op) coq() string {
	switch o.Kind {
	case kSet:
		return "(OSet " + o.V.coqVal() + ")"
	case kInc:
		return "(OInc " + common.Z(o.D) + ")"
	case kDel:
		return "ODel"
	case kShift:
		return "OShift"
	case kPatch:
		return "(OPatch " + common.Bool(o.Create) + " " + common.Z(o.D) + ")"
	}
	return "OGet"
}
func (o op) String() string {
	switch o.Kind {
	case kSet:
		return "Set(" + o.V.String() + ")"
	case kInc:
		return fmt.Sprintf("Inc(%d)", o.D)
	case kPatch:
		return fmt.Sprintf("Patch(create=%v,%d)", o.Create, o.D)
	}
	return kindNames[o.Kind]
}

// response: kind-specific payload
type resp struct {
	Kind int   `json:"kind"` // same numbering as op kinds; kInc with Err=true is RErr
	B    bool  `json:"b"`    // Set: isnew; Del: found
	Z    int64 `json:"z"`    // Inc value; Patch code
	V    val   `json:"v"`    // Shift / Get value
	Err  bool  `json:"err"`
}

func (r resp) coq() string {
	switch r.Kind {
	case kSet:
		return "(RSet " + common.Bool(r.B) + ")"
	case kInc:
		if r.Err {
			return "RErr"
		}
		return "(RInc " + common.Z(r.Z) + ")"
	case kDel:
		return "(RDel " + common.Bool(r.B) + ")"
	case kShift:
		return "(RShift " + r.V.coq() + ")"
	case kPatch:
		return "(RPatch " + common.N(uint64(r.Z)) + ")"
	}
	return "(RGet " + r.V.coq() + ")"
}
func (r resp) String() string {
	switch r.Kind {
	case kSet:
		if r.B {
			return "NEW"
		}
		return "EXISTING"
	case kInc:
		if r.Err {
			return "ERR"
		}
		return fmt.Sprintf("=%d", r.Z)
	case kDel:
		if r.B {
			return "DELETED"
		}
		return "NOT_FOUND"
	case kPatch:
		return fmt.Sprintf("code%d", r.Z)
	}
	return r.V.String()
}
func respEq(a, b resp) bool { return a == b }

// seqStep mirrors Lin.seq_step (int64 arithmetic wraps natively in Go)
func seqStep(s val, o op) (val, resp) {
	switch o.Kind {
	case kSet:
		return o.V, resp{Kind: kSet, B: s.Kind == 0}
	case kInc:
		switch s.Kind {
		case 0, 'V':
			return val{'I', o.D}, resp{Kind: kInc, Z: o.D}
		case 'I':
			return val{'I', s.Z + o.D}, resp{Kind: kInc, Z: s.Z + o.D}
		}
		return s, resp{Kind: kInc, Err: true}
	case kDel:
		return val{}, resp{Kind: kDel, B: s.Kind != 0}
	case kShift:
		return val{}, resp{Kind: kShift, V: s}
	case kPatch:
		switch s.Kind {
		case 0, 'V':
			if o.Create {
				return val{'M', o.D}, resp{Kind: kPatch, Z: 1}
			}
			return s, resp{Kind: kPatch, Z: 2}
		case 'M':
			return val{'M', s.Z + o.D}, resp{Kind: kPatch, Z: 0}
		}
		return s, resp{Kind: kPatch, Z: 5}
	}
	return s, resp{Kind: kGet, V: s}
}

type rstate struct{ cur, ghost val }

// relaxedStep mirrors Lin.relaxed_step
func relaxedStep(relax int, flag bool, s rstate, o op) (rstate, resp, bool) {
	removed := s.ghost
	if s.cur.Kind != 0 {
		removed = s.cur
	}
	switch o.Kind {
	case kDel:
		if flag && relax >= 1 && s.cur.Kind == 0 {
			return rstate{val{}, s.ghost}, resp{Kind: kDel, B: true}, false
		}
		return rstate{val{}, removed}, resp{Kind: kDel, B: s.cur.Kind != 0}, false
	case kShift:
		return rstate{val{}, removed}, resp{Kind: kShift, V: s.cur}, flag && relax >= 3
	case kGet:
		return s, resp{Kind: kGet, V: s.cur}, false
	}
	if flag && relax >= 2 && s.ghost.Kind != 0 {
		g2, r := seqStep(s.ghost, o)
		if o.Kind == kSet {
			r = resp{Kind: kSet, B: s.cur.Kind == 0}
		}
		if s.cur.Kind == 0 {
			return rstate{g2, val{}}, r, false
		}
		return rstate{s.cur, g2}, r, false
	}
	s2, r := seqStep(s.cur, o)
	return rstate{s2, s.ghost}, r, false
}

// ---- one recorded request ----------------------------------------------------------------

type hop struct {
	Thread int    `json:"thread"`
	Key    int    `json:"key"`
	Op     op     `json:"-"`
	Resp   resp   `json:"-"`
	OpS    string `json:"op"`
	RespS  string `json:"resp"`
	Inv    int64  `json:"inv"`
	Ret    int64  `json:"ret"`
}

type orderEl struct {
	Idx  int
	Flag bool
}

// linearize: WGL-style search with memoisation on (set of linearized ops, state).
// Returns the order or nil. ops has at most 64 elements.
func linearize(ops []hop, init, final val, relax int) []orderEl {
	n := len(ops)
	if n > 64 {
		return nil
	}
	type memoKey struct {
		mask uint64
		s    rstate
	}
	dead := map[memoKey]bool{}
	order := make([]orderEl, 0, n)
	full := uint64(0)
	if n == 64 {
		full = ^uint64(0)
	} else {
		full = (uint64(1) << uint(n)) - 1
	}
	budget := 4000000
	var rec func(mask uint64, s rstate) bool
	rec = func(mask uint64, s rstate) bool {
		if mask == full {
			return s.cur == final
		}
		k := memoKey{mask, s}
		if dead[k] {
			return false
		}
		budget--
		if budget < 0 {
			return false
		}
		// minimal response stamp among the not yet linearized ops
		minRet := int64(1) << 62
		for i := 0; i < n; i++ {
			if mask&(1<<uint(i)) == 0 && ops[i].Ret < minRet {
				minRet = ops[i].Ret
			}
		}
		for i := 0; i < n; i++ {
			if mask&(1<<uint(i)) != 0 || ops[i].Inv > minRet {
				continue
			}
			flags := []bool{false}
			if relax > 0 {
				flags = []bool{false, true}
			}
			for _, fl := range flags {
				s2, r, anyr := relaxedStep(relax, fl, s, ops[i].Op)
				if fl {
					// a flag that changes nothing is not tried twice
					s0, r0, a0 := relaxedStep(relax, false, s, ops[i].Op)
					if s0 == s2 && r0 == r && a0 == anyr {
						continue
					}
				}
				ok := respEq(r, ops[i].Resp)
				if anyr {
					ok = r.Kind == ops[i].Resp.Kind && !ops[i].Resp.Err
				}
				if !ok {
					continue
				}
				order = append(order, orderEl{i, fl})
				if rec(mask|1<<uint(i), s2) {
					return true
				}
				order = order[:len(order)-1]
			}
		}
		dead[k] = true
		return false
	}
	if rec(0, rstate{init, val{}}) {
		return order
	}
	return nil
}

// ---- msgpack body {"n": int64} -------------------------------------------------------------

func mpInt64(v int64) []byte {
	b := make([]byte, 9)
	b[0] = 0xd3
	binary.BigEndian.PutUint64(b[1:], uint64(v))
	return b
}
func mpBody(v int64) []byte {
	return append([]byte{0xC7, 0x00, 0x81, 0xa1, 'n'}, mpInt64(v)...)
}
func parseBody(b []byte) (int64, bool) {
	if len(b) == 14 && b[0] == 0xC7 && b[1] == 0x00 && b[2] == 0x81 && b[3] == 0xa1 && b[4] == 'n' && b[5] == 0xd3 {
		return int64(binary.BigEndian.Uint64(b[6:])), true
	}
	return 0, false
}
func treasureVal(t *hydrapb.Treasure) (val, bool) {
	if t == nil || !t.IsExist {
		return val{}, true
	}
	if t.Int64Val != nil {
		return val{'I', *t.Int64Val}, true
	}
	if t.BytesVal != nil {
		if z, ok := parseBody(t.BytesVal); ok {
			return val{'M', z}, true
		}
		return val{}, false
	}
	if t.Int8Val == nil && t.Int16Val == nil && t.Int32Val == nil && t.Uint8Val == nil && t.Uint16Val == nil &&
		t.Uint32Val == nil && t.Uint64Val == nil && t.Float32Val == nil && t.Float64Val == nil && t.StringVal == nil &&
		t.BoolVal == nil && len(t.Uint32Slice) == 0 {
		return val{Kind: 'V'}, true // a record object with void content
	}
	return val{}, false
}

// ---- executing one request on the real gateway ---------------------------------------------

type engine struct{ s *rig.Server }

func (e *engine) do(swamp, key string, o op) (r resp, problem string) {
	ctx := context.Background()
	gw := e.s.GW
	switch o.Kind {
	case kSet:
		kv := &hydrapb.KeyValuePair{Key: key}
		if o.V.Kind == 'I' {
			z := o.V.Z
			kv.Int64Val = &z
		} else {
			kv.BytesVal = mpBody(o.V.Z)
		}
		out, err := gw.Set(ctx, &hydrapb.SetRequest{Swamps: []*hydrapb.SwampRequest{{IslandID: 1, SwampName: swamp,
			CreateIfNotExist: true, Overwrite: true, KeyValues: []*hydrapb.KeyValuePair{kv}}}})
		if err != nil || out == nil || len(out.Swamps) != 1 || len(out.Swamps[0].KeysAndStatuses) != 1 {
			return r, fmt.Sprintf("Set: unexpected reply %v err=%v", out, err)
		}
		st := out.Swamps[0].KeysAndStatuses[0].Status
		switch st {
		case hydrapb.Status_NEW:
			return resp{Kind: kSet, B: true}, ""
		case hydrapb.Status_UPDATED, hydrapb.Status_NOTHING_CHANGED:
			return resp{Kind: kSet, B: false}, ""
		}
		return r, fmt.Sprintf("Set: status %v", st)
	case kInc:
		out, err := gw.IncrementInt64(ctx, &hydrapb.IncrementInt64Request{IslandID: 1, SwampName: swamp, Key: key, IncrementBy: o.D})
		if err != nil {
			if strings.Contains(err.Error(), "not an integer") {
				return resp{Kind: kInc, Err: true}, ""
			}
			return r, "Inc: " + err.Error()
		}
		if out == nil {
			return r, "Inc: nil reply (request panicked)"
		}
		if !out.IsIncremented {
			return r, "Inc: not incremented without a condition"
		}
		return resp{Kind: kInc, Z: out.Value}, ""
	case kDel:
		out, err := gw.Delete(ctx, &hydrapb.DeleteRequest{Swamps: []*hydrapb.DeleteRequest_SwampKeys{{IslandID: 1, SwampName: swamp, Keys: []string{key}}}})
		if err != nil || out == nil || len(out.Responses) != 1 || len(out.Responses[0].KeyStatuses) != 1 {
			return r, fmt.Sprintf("Delete: unexpected reply %v err=%v", out, err)
		}
		return resp{Kind: kDel, B: out.Responses[0].KeyStatuses[0].Status == hydrapb.Status_DELETED}, ""
	case kShift:
		out, err := gw.ShiftByKeys(ctx, &hydrapb.ShiftByKeysRequest{IslandID: 1, SwampName: swamp, Keys: []string{key}})
		if err != nil || out == nil || len(out.Treasures) > 1 {
			return r, fmt.Sprintf("ShiftByKeys: unexpected reply %v err=%v", out, err)
		}
		if len(out.Treasures) == 0 {
			return resp{Kind: kShift}, ""
		}
		v, ok := treasureVal(out.Treasures[0])
		if !ok {
			return r, fmt.Sprintf("ShiftByKeys: content not understood: %v", out.Treasures[0])
		}
		return resp{Kind: kShift, V: v}, ""
	case kPatch:
		out, err := gw.PatchTreasures(ctx, &hydrapb.PatchTreasuresRequest{IslandID: 1, SwampName: swamp, CreateIfNotExist: o.Create,
			Patches: []*hydrapb.TreasurePatch{{Key: key, Ops: []*hydrapb.PatchOp{{Op: hydrapb.PatchOp_INC, Path: "n", Value: mpInt64(o.D)}}}}})
		if err != nil || out == nil || len(out.Results) != 1 {
			return r, fmt.Sprintf("Patch: unexpected reply %v err=%v", out, err)
		}
		return resp{Kind: kPatch, Z: int64(out.Results[0].Status)}, ""
	}
	out, err := gw.Get(ctx, &hydrapb.GetRequest{Swamps: []*hydrapb.GetSwamp{{IslandID: 1, SwampName: swamp, Keys: []string{key}}}})
	if err != nil || out == nil || len(out.Swamps) != 1 {
		return r, fmt.Sprintf("Get: unexpected reply %v err=%v", out, err)
	}
	if !out.Swamps[0].IsExist || len(out.Swamps[0].Treasures) != 1 {
		return r, fmt.Sprintf("Get: swamp missing or wrong treasure count: %v", out.Swamps[0])
	}
	v, ok := treasureVal(out.Swamps[0].Treasures[0])
	if !ok {
		return r, fmt.Sprintf("Get: content not understood: %v", out.Swamps[0].Treasures[0])
	}
	return resp{Kind: kGet, V: v}, ""
}

// ---- rounds ------------------------------------------------------------------------------

type profile struct {
	name    string
	weights [6]int // Set Inc Del Shift Patch Get
	setM    int    // percent of Sets that store a msgpack body
}

var profiles = []profile{
	{"counter", [6]int{0, 100, 0, 0, 0, 0}, 0},
	{"intmix", [6]int{15, 65, 0, 0, 0, 20}, 0},
	{"patch", [6]int{15, 0, 0, 0, 70, 15}, 100},
	{"typemix", [6]int{20, 35, 0, 0, 35, 10}, 50},
	{"del", [6]int{15, 45, 15, 15, 0, 10}, 0},
	{"all", [6]int{15, 25, 10, 10, 25, 15}, 40},
}

var modes = []string{"imm", "def", "mem"} // write interval 0 | 1 s | in-memory

type roundSpec struct {
	id       int
	mode     string
	prof     profile
	nthreads int
	nkeys    int
	progs    [][]struct {
		key int
		o   op
	}
}

type roundResult struct {
	spec     roundSpec
	hist     [][]hop // per key
	init     []val
	final    []val
	problems []string
}

func genRound(rng *common.Rng, id int, tier string) roundSpec {
	sp := roundSpec{id: id}
	sp.mode = modes[rng.Intn(3)]
	if rng.Chance(40) {
		sp.mode = "imm" // the mode the existing tests never exercise concurrently
	}
	sp.prof = profiles[rng.Intn(len(profiles))]
	sp.nthreads = 4 + rng.Intn(13)
	sp.nkeys = 1 + rng.Intn(3)
	perKeyCap := 44
	total := 0
	wsum := 0
	for _, w := range sp.prof.weights {
		wsum += w
	}
	counts := make([]int, sp.nkeys)
	for t := 0; t < sp.nthreads; t++ {
		nops := 2 + rng.Intn(5)
		var prog []struct {
			key int
			o   op
		}
		for i := 0; i < nops; i++ {
			k := rng.Intn(sp.nkeys)
			if counts[k] >= perKeyCap {
				continue
			}
			x := rng.Intn(wsum)
			kind := 0
			for kind = 0; kind < 6; kind++ {
				if x < sp.prof.weights[kind] {
					break
				}
				x -= sp.prof.weights[kind]
			}
			o := op{Kind: kind}
			switch kind {
			case kSet:
				o.V = val{'I', int64(rng.Intn(200)) - 50}
				if rng.Chance(sp.prof.setM) {
					o.V.Kind = 'M'
				}
			case kInc, kPatch:
				o.D = int64(rng.Intn(9)) - 3
				if o.D <= 0 {
					o.D -= 1 // never 0 (the gateway rejects IncrementBy 0)
				}
				if rng.Chance(3) {
					o.D = (int64(1) << 62) + int64(rng.Intn(1000)) // exercises the int64 wrap
				}
				o.Create = kind == kPatch && !rng.Chance(25)
			}
			counts[k]++
			total++
			prog = append(prog, struct {
				key int
				o   op
			}{k, o})
		}
		sp.progs = append(sp.progs, prog)
	}
	_ = total
	return sp
}

func runRound(e *engine, sp roundSpec, rng *common.Rng) roundResult {
	res := roundResult{spec: sp}
	swamp := fmt.Sprintf("c09/%s/r%d", sp.mode, sp.id)
	keyName := func(k int) string { return fmt.Sprintf("k%d", k) }
	var clock int64
	// the pin record keeps the swamp from ever becoming empty (auto-destroy is C16's subject)
	if _, p := e.do(swamp, "pin", op{Kind: kSet, V: val{'I', 1}}); p != "" {
		res.problems = append(res.problems, "pin: "+p)
		return res
	}
	res.init = make([]val, sp.nkeys)
	for k := 0; k < sp.nkeys; k++ {
		switch rng.Intn(3) {
		case 1:
			res.init[k] = val{'I', int64(rng.Intn(100))}
		case 2:
			if sp.prof.setM > 0 {
				res.init[k] = val{'M', int64(rng.Intn(100))}
			}
		}
		if res.init[k].Kind != 0 {
			if _, p := e.do(swamp, keyName(k), op{Kind: kSet, V: res.init[k]}); p != "" {
				res.problems = append(res.problems, "init: "+p)
			}
		}
	}
	perThread := make([][]hop, sp.nthreads)
	probs := make([][]string, sp.nthreads)
	var wg sync.WaitGroup
	start := make(chan struct{})
	for t := 0; t < sp.nthreads; t++ {
		wg.Add(1)
		go func(t int) {
			defer wg.Done()
			<-start
			for _, st := range sp.progs[t] {
				inv := atomic.AddInt64(&clock, 1)
				r, p := e.do(swamp, keyName(st.key), st.o)
				ret := atomic.AddInt64(&clock, 1)
				if p != "" {
					probs[t] = append(probs[t], fmt.Sprintf("thread %d %s on %s: %s", t, st.o, keyName(st.key), p))
					continue
				}
				perThread[t] = append(perThread[t], hop{Thread: t, Key: st.key, Op: st.o, Resp: r, OpS: st.o.String(), RespS: r.String(), Inv: inv, Ret: ret})
			}
		}(t)
	}
	done := make(chan struct{})
	go func() { wg.Wait(); close(done) }()
	close(start)
	select {
	case <-done:
	case <-time.After(60 * time.Second):
		res.problems = append(res.problems, "HANG: requests did not return within 60 s")
		return res
	}
	for t := range probs {
		res.problems = append(res.problems, probs[t]...)
	}
	res.hist = make([][]hop, sp.nkeys)
	for t := range perThread {
		for _, h := range perThread[t] {
			res.hist[h.Key] = append(res.hist[h.Key], h)
		}
	}
	for k := range res.hist {
		sort.Slice(res.hist[k], func(i, j int) bool { return res.hist[k][i].Inv < res.hist[k][j].Inv })
	}
	res.final = make([]val, sp.nkeys)
	for k := 0; k < sp.nkeys; k++ {
		r, p := e.do(swamp, keyName(k), op{Kind: kGet})
		if p != "" {
			res.problems = append(res.problems, "final get: "+p)
		}
		res.final[k] = r.V
	}
	return res
}

var relaxSig = map[int]string{
	1: "delete_acknowledged_on_absent_key",
	2: "write_on_stale_record_object_after_delete",
	3: "shift_clone_and_removal_not_atomic",
}

func main() {
	args := common.ParseArgs()
	rig.Quiet()
	run := common.NewRun(args, "C09", "HV.Conc.Lin")
	run.Meta.Rule = "a case is one per-key history of a concurrent round; non-trivial = at least two requests of different threads overlap in time and at least one of them is a write"
	rng := common.NewRng(args.Seed, "C09")

	root, _ := os.MkdirTemp("", "c09-")
	defer os.RemoveAll(root)
	srv := rig.Start(root, true)
	srv.Register("c09/imm/*", false, 3600, 0, 8192)
	srv.Register("c09/def/*", false, 3600, 1, 8192)
	srv.Register("c09/mem/*", true, 3600, 0, 8192)
	e := &engine{srv}

	nrounds := 180
	if args.Tier == "thorough" {
		nrounds = 2000
	}
	specs := make([]roundSpec, nrounds)
	rngs := make([]*common.Rng, nrounds)
	for i := range specs {
		specs[i] = genRound(rng, i, args.Tier)
		rngs[i] = rng.Fork(fmt.Sprintf("round%d", i))
	}
	results := make([]roundResult, nrounds)
	common.Parallel(nrounds, 6, func(i int) { results[i] = runRound(e, specs[i], rngs[i]) })

	// counter soak in immediate-write mode: many increments of one key, arithmetic check
	soakN, soakT := 2400, 16
	if args.Tier == "thorough" {
		soakN = 24000
	}
	soakProblems := soak(e, soakN, soakT)

	for _, res := range results {
		sp := res.spec
		for _, p := range res.problems {
			idx := run.Add(fmt.Sprintf("{| c_init := None; c_ops := []; c_order := []; c_final := None; c_relax := 0 |}"),
				map[string]interface{}{"round": sp.id, "mode": sp.mode, "profile": sp.prof.name, "problem": p}, false)
			sig := "request_failed_or_panicked"
			if strings.HasPrefix(p, "HANG") {
				sig = "request_hang"
			}
			run.Violate(idx, "every request is answered", sig, p)
		}
		for k := range res.hist {
			h := res.hist[k]
			if len(h) == 0 {
				continue
			}
			run.Hist("mode:" + sp.mode)
			run.Hist("profile:" + sp.prof.name)
			for _, x := range h {
				run.Hist("op:" + kindNames[x.Op.Kind])
			}
			overlap := false
			for i := range h {
				for j := range h {
					if i != j && h[i].Thread != h[j].Thread && h[i].Inv < h[j].Ret && h[j].Inv < h[i].Ret &&
						(h[i].Op.Kind != kGet || h[j].Op.Kind != kGet) {
						overlap = true
					}
				}
			}
			relax := 0
			var order []orderEl
			for relax = 0; relax <= 3; relax++ {
				order = linearize(h, res.init[k], res.final[k], relax)
				if order != nil {
					break
				}
			}
			descr := map[string]interface{}{"round": sp.id, "mode": sp.mode, "profile": sp.prof.name, "threads": sp.nthreads,
				"key": k, "init": res.init[k].String(), "final": res.final[k].String(), "history": h}
			ops := make([]string, len(h))
			for i, x := range h {
				ops[i] = fmt.Sprintf("{| h_op := %s; h_resp := %s; h_inv := %s; h_ret := %s |}", x.Op.coq(), x.Resp.coq(), common.N(uint64(x.Inv)), common.N(uint64(x.Ret)))
			}
			if order == nil {
				// no explanation by the three validated deviation classes. If a Delete/ShiftByKeys
				// overlaps another request on this key, the history belongs to the (open-ended)
				// known class "removal of the record object races with requests holding it";
				// otherwise it is a new violation. Either way the history is the replay.
				racing := false
				for i := range h {
					if h[i].Op.Kind != kDel && h[i].Op.Kind != kShift {
						continue
					}
					for j := range h {
						if i != j && h[i].Inv < h[j].Ret && h[j].Inv < h[i].Ret {
							racing = true
						}
					}
				}
				idx := run.Add(fmt.Sprintf("{| c_init := %s; c_ops := %s; c_order := []; c_final := %s; c_relax := 9 |}",
					res.init[k].coq(), common.List(ops), res.final[k].coq()), descr, overlap)
				sig := "no_linearization_found"
				if racing {
					sig = "delete_or_shift_racing_with_requests_on_the_same_key"
				}
				run.Hist("verdict:" + sig)
				run.Violate(idx, "linearizable", sig, fmt.Sprintf("round %d (%s,%s) key k%d: no serial order explains the %d responses and the final state %s", sp.id, sp.mode, sp.prof.name, k, len(h), res.final[k]))
				continue
			}
			ord := make([]string, len(order))
			for i, el := range order {
				ord[i] = common.Pair(common.Nat(el.Idx), common.Bool(el.Flag))
			}
			descr["order"] = ord
			descr["relax"] = relax
			term := fmt.Sprintf("{| c_init := %s; c_ops := %s; c_order := %s; c_final := %s; c_relax := %s |}",
				res.init[k].coq(), common.List(ops), common.List(ord), res.final[k].coq(), common.N(uint64(relax)))
			caseIdx := run.Add(term, descr, overlap)
			if relax == 0 {
				run.Hist("verdict:linearizable")
			} else {
				run.Hist("verdict:" + relaxSig[relax])
			}
			// arithmetic check for pure counters
			if sp.prof.name == "counter" && res.init[k].Kind != 'M' {
				sum := res.init[k].Z
				for _, x := range h {
					sum += x.Op.D
				}
				if res.final[k].Kind != 'I' || res.final[k].Z != sum {
					run.Violate(caseIdx, "no lost update", "counter_sum_wrong", fmt.Sprintf("round %d key k%d: %d increments, expected %d, found %s", sp.id, k, len(h), sum, res.final[k]))
				}
			}
		}
	}
	for _, p := range soakProblems {
		idx := run.Add("{| c_init := None; c_ops := []; c_order := []; c_final := None; c_relax := 0 |}", map[string]interface{}{"soak": p}, false)
		run.Violate(idx, "no lost update", "soak_counter_wrong", p)
	}
	run.Meta.Traces = nrounds
	run.Meta.Extra["soak_increments"] = soakN
	srv.Stop()
	run.Finish("check_all")
}

// soak: n increments by 1 from t goroutines on one key in immediate-write mode and one in
// deferred mode; the final counter must be n and every returned value distinct.
func soak(e *engine, n, t int) []string {
	var problems []string
	for _, mode := range []string{"imm", "def"} {
		swamp := "c09/" + mode + "/soak"
		e.do(swamp, "pin", op{Kind: kSet, V: val{'I', 1}})
		seen := make([]int32, n+1)
		var wg sync.WaitGroup
		var bad int64
		for g := 0; g < t; g++ {
			wg.Add(1)
			go func() {
				defer wg.Done()
				for i := 0; i < n/t; i++ {
					r, p := e.do(swamp, "ctr", op{Kind: kInc, D: 1})
					if p != "" || r.Err || r.Z < 1 || r.Z > int64(n) {
						atomic.AddInt64(&bad, 1)
						continue
					}
					if atomic.AddInt32(&seen[r.Z], 1) != 1 {
						atomic.AddInt64(&bad, 1)
					}
				}
			}()
		}
		wg.Wait()
		r, _ := e.do(swamp, "ctr", op{Kind: kGet})
		want := int64(n / t * t)
		if r.V.Kind != 'I' || r.V.Z != want || bad != 0 {
			problems = append(problems, fmt.Sprintf("soak %s: %d acknowledged increments, counter = %s, %d failed/duplicate responses", mode, want, r.V, bad))
		}
	}
	return problems
}
