// c09: correspondence check for "concurrent writes on a key are linearizable; no lost
// updates" (Conc/Lin.v).
//
// The real engine runs in-process (harness/rig). In every round 4..16 goroutines issue
// Set / IncrementInt64 / PatchTreasures(INC) / Delete / ShiftByKeys / Get requests through the
// gateway on 1..3 keys of one fresh swamp (write interval 0 = immediate write, 1 s, or
// in-memory). Invocation and response stamps come from one atomic counter. For every key the
// recorded history is handed to an untrusted WGL-style search which proposes a linear order;
// the order is emitted as a certificate and validated in Coq against the sequential meaning
// (Lin.check_case). If no order exists under the specification, the search tries the named
// deviation classes of Lin.relaxed_step (known-finding classification); a history with no
// explanation at all is reported here as a violation with the history as the replay.
package main

import (
	"context"
	"encoding/binary"
	"fmt"
	"os"
	"runtime"
	"sort"
	"strings"
	"sync"
	"sync/atomic"
	"time"

	"github.com/hydraide/hydraide/app/verifhook"
	hydrapb "github.com/hydraide/hydraide/sdk/go/hydraidego/v3/hydraidepbgo"
	"verif/harness/common"
	"verif/harness/rig"
)

// ---- values, operations, responses (mirror of Conc/Lin.v) ------------------------------

type val struct {
	Kind byte  `json:"kind"` // 0 absent, 'I' int64, 'M' msgpack map {"n": z}, 'V' record with void content
	Z    int64 `json:"z"`
}

func (v val) coq() string {
	switch v.Kind {
	case 'I':
		return "(Some (VI " + common.Z(v.Z) + "))"
	case 'M':
		return "(Some (VM " + common.Z(v.Z) + "))"
	case 'V':
		return "(Some VV)"
	}
	return "None"
}
func (v val) coqVal() string {
	if v.Kind == 'I' {
		return "(VI " + common.Z(v.Z) + ")"
	}
	return "(VM " + common.Z(v.Z) + ")"
}
func (v val) String() string {
	if v.Kind == 0 {
		return "absent"
	}
	return fmt.Sprintf("%c%d", v.Kind, v.Z)
}

const (
	kSet = iota
	kInc
	kDel
	kShift
	kPatch
	kGet
	kIncIf  // conditional IncrementInt64
	kShiftM // ShiftMatchingTreasures (filter: Int64 value > Thr), one request, one hop per key
)

var kindNames = []string{"Set", "Inc", "Del", "Shift", "Patch", "Get", "IncIf", "ShiftM"}

type op struct {
	Kind   int   `json:"kind"`
	V      val   `json:"v"`      // Set
	D      int64 `json:"d"`      // Inc / Patch delta
	Create bool  `json:"create"` // Patch
	C      int   `json:"c"`      // IncIf: relational operator (proto numbering 0 = 1 > 2 >= 3 < 4 <= 5 <>)
	CV     int64 `json:"cv"`     // IncIf: reference value
	Thr    int64 `json:"thr"`    // ShiftM: threshold
}

func (o op) coq() string {
	switch o.Kind {
	case kSet:
		return "(OSet " + o.V.coqVal() + ")"
	case kInc:
		return "(OInc " + common.Z(o.D) + ")"
	case kDel:
		return "ODel"
	case kShift:
		return "OShift"
	case kPatch:
		return "(OPatch " + common.Bool(o.Create) + " " + common.Z(o.D) + ")"
	case kIncIf:
		return "(OIncIf " + common.N(uint64(o.C)) + " " + common.Z(o.CV) + " " + common.Z(o.D) + ")"
	case kShiftM:
		return "(OShiftM " + common.Z(o.Thr) + ")"
	}
	return "OGet"
}
func (o op) String() string {
	switch o.Kind {
	case kSet:
		return "Set(" + o.V.String() + ")"
	case kInc:
		return fmt.Sprintf("Inc(%d)", o.D)
	case kPatch:
		return fmt.Sprintf("Patch(create=%v,%d)", o.Create, o.D)
	case kIncIf:
		return fmt.Sprintf("IncIf(cur %s %d, %d)", []string{"==", ">", ">=", "<", "<=", "!="}[o.C], o.CV, o.D)
	case kShiftM:
		return fmt.Sprintf("ShiftMatching(value>%d)", o.Thr)
	}
	return kindNames[o.Kind]
}

// response: kind-specific payload
type resp struct {
	Kind int   `json:"kind"` // same numbering as op kinds; kInc with Err=true is RErr
	B    bool  `json:"b"`    // Set: isnew; Del: found
	Z    int64 `json:"z"`    // Inc value; Patch code
	V    val   `json:"v"`    // Shift / Get value
	Err  bool  `json:"err"`
	No   bool  `json:"no"` // IncIf: condition not met (Z = current value)
}

func (r resp) coq() string {
	switch r.Kind {
	case kSet:
		return "(RSet " + common.Bool(r.B) + ")"
	case kInc:
		if r.Err {
			return "RErr"
		}
		if r.No {
			return "(RIncNo " + common.Z(r.Z) + ")"
		}
		return "(RInc " + common.Z(r.Z) + ")"
	case kDel:
		return "(RDel " + common.Bool(r.B) + ")"
	case kShift:
		return "(RShift " + r.V.coq() + ")"
	case kPatch:
		return "(RPatch " + common.N(uint64(r.Z)) + ")"
	case kShiftM:
		return "(RShiftM " + r.V.coq() + ")"
	}
	return "(RGet " + r.V.coq() + ")"
}
func (r resp) String() string {
	switch r.Kind {
	case kSet:
		if r.B {
			return "NEW"
		}
		return "EXISTING"
	case kInc:
		if r.Err {
			return "ERR"
		}
		if r.No {
			return fmt.Sprintf("REJECTED(cur=%d)", r.Z)
		}
		return fmt.Sprintf("=%d", r.Z)
	case kDel:
		if r.B {
			return "DELETED"
		}
		return "NOT_FOUND"
	case kPatch:
		return fmt.Sprintf("code%d", r.Z)
	}
	return r.V.String()
}
func respEq(a, b resp) bool { return a == b }

// seqStep mirrors Lin.seq_step (int64 arithmetic wraps natively in Go)
func seqStep(s val, o op) (val, resp) {
	switch o.Kind {
	case kSet:
		return o.V, resp{Kind: kSet, B: s.Kind == 0}
	case kInc:
		switch s.Kind {
		case 0, 'V':
			return val{'I', o.D}, resp{Kind: kInc, Z: o.D}
		case 'I':
			return val{'I', s.Z + o.D}, resp{Kind: kInc, Z: s.Z + o.D}
		}
		return s, resp{Kind: kInc, Err: true}
	case kIncIf:
		cur := int64(0)
		switch s.Kind {
		case 'I':
			cur = s.Z
		case 'M':
			return s, resp{Kind: kInc, Err: true}
		}
		if !condHolds(o.C, o.CV, cur) {
			return s, resp{Kind: kInc, No: true, Z: cur}
		}
		return val{'I', cur + o.D}, resp{Kind: kInc, Z: cur + o.D}
	case kShiftM:
		if shiftmMatch(o.Thr, s) {
			return val{}, resp{Kind: kShiftM, V: s}
		}
		return s, resp{Kind: kShiftM}
	case kDel:
		return val{}, resp{Kind: kDel, B: s.Kind != 0}
	case kShift:
		return val{}, resp{Kind: kShift, V: s}
	case kPatch:
		switch s.Kind {
		case 0, 'V':
			if o.Create {
				return val{'M', o.D}, resp{Kind: kPatch, Z: 1}
			}
			return s, resp{Kind: kPatch, Z: 2}
		case 'M':
			return val{'M', s.Z + o.D}, resp{Kind: kPatch, Z: 0}
		}
		return s, resp{Kind: kPatch, Z: 5}
	}
	return s, resp{Kind: kGet, V: s}
}

func condHolds(c int, cv, v int64) bool {
	switch c {
	case 0:
		return v == cv
	case 1:
		return v > cv
	case 2:
		return v >= cv
	case 3:
		return v < cv
	case 4:
		return v <= cv
	}
	return v != cv
}
func shiftmMatch(thr int64, s val) bool { return s.Kind == 'I' && s.Z > thr }

type rstate struct{ cur, ghost val }

// relaxedStep mirrors Lin.relaxed_step
func relaxedStep(relax int, flag bool, s rstate, o op) (rstate, resp, bool) {
	removed := s.ghost
	if s.cur.Kind != 0 {
		removed = s.cur
	}
	switch o.Kind {
	case kDel:
		if flag && relax >= 1 && s.cur.Kind == 0 {
			return rstate{val{}, s.ghost}, resp{Kind: kDel, B: true}, false
		}
		return rstate{val{}, removed}, resp{Kind: kDel, B: s.cur.Kind != 0}, false
	case kShift:
		return rstate{val{}, removed}, resp{Kind: kShift, V: s.cur}, flag && relax >= 3
	case kGet:
		return s, resp{Kind: kGet, V: s.cur}, false
	case kShiftM:
		if flag && relax >= 3 {
			return rstate{val{}, removed}, resp{Kind: kShiftM, V: s.cur}, true
		}
		if shiftmMatch(o.Thr, s.cur) {
			return rstate{val{}, s.cur}, resp{Kind: kShiftM, V: s.cur}, false
		}
		return s, resp{Kind: kShiftM}, false
	}
	if flag && relax >= 2 && s.ghost.Kind != 0 {
		g2, r := seqStep(s.ghost, o)
		if o.Kind == kSet {
			r = resp{Kind: kSet, B: s.cur.Kind == 0}
		}
		if s.cur.Kind == 0 {
			return rstate{g2, val{}}, r, false
		}
		return rstate{s.cur, g2}, r, false
	}
	s2, r := seqStep(s.cur, o)
	return rstate{s2, s.ghost}, r, false
}

// ---- one recorded request ----------------------------------------------------------------

type hop struct {
	Thread int    `json:"thread"`
	Key    int    `json:"key"`
	Op     op     `json:"-"`
	Resp   resp   `json:"-"`
	OpS    string `json:"op"`
	RespS  string `json:"resp"`
	Inv    int64  `json:"inv"`
	Ret    int64  `json:"ret"`
}

type orderEl struct {
	Idx  int
	Flag bool
}

// linearize: WGL-style search with memoisation on (set of linearized ops, state).
// Returns the order or nil. ops has at most 64 elements.
func linearize(ops []hop, init, final val, relax int) []orderEl {
	n := len(ops)
	if n > 64 {
		return nil
	}
	type memoKey struct {
		mask uint64
		s    rstate
	}
	dead := map[memoKey]bool{}
	order := make([]orderEl, 0, n)
	full := uint64(0)
	if n == 64 {
		full = ^uint64(0)
	} else {
		full = (uint64(1) << uint(n)) - 1
	}
	budget := 4000000
	var rec func(mask uint64, s rstate) bool
	rec = func(mask uint64, s rstate) bool {
		if mask == full {
			return s.cur == final
		}
		k := memoKey{mask, s}
		if dead[k] {
			return false
		}
		budget--
		if budget < 0 {
			return false
		}
		// minimal response stamp among the not yet linearized ops
		minRet := int64(1) << 62
		for i := 0; i < n; i++ {
			if mask&(1<<uint(i)) == 0 && ops[i].Ret < minRet {
				minRet = ops[i].Ret
			}
		}
		for i := 0; i < n; i++ {
			if mask&(1<<uint(i)) != 0 || ops[i].Inv > minRet {
				continue
			}
			flags := []bool{false}
			if relax > 0 {
				flags = []bool{false, true}
			}
			for _, fl := range flags {
				s2, r, anyr := relaxedStep(relax, fl, s, ops[i].Op)
				if fl {
					// a flag that changes nothing is not tried twice
					s0, r0, a0 := relaxedStep(relax, false, s, ops[i].Op)
					if s0 == s2 && r0 == r && a0 == anyr {
						continue
					}
				}
				ok := respEq(r, ops[i].Resp)
				if anyr {
					ok = r.Kind == ops[i].Resp.Kind && !ops[i].Resp.Err
				}
				if !ok {
					continue
				}
				order = append(order, orderEl{i, fl})
				if rec(mask|1<<uint(i), s2) {
					return true
				}
				order = order[:len(order)-1]
			}
		}
		dead[k] = true
		return false
	}
	if rec(0, rstate{init, val{}}) {
		return order
	}
	return nil
}

// ---- msgpack body {"n": int64} -------------------------------------------------------------

func mpInt64(v int64) []byte {
	b := make([]byte, 9)
	b[0] = 0xd3
	binary.BigEndian.PutUint64(b[1:], uint64(v))
	return b
}
func mpBody(v int64) []byte {
	return append([]byte{0xC7, 0x00, 0x81, 0xa1, 'n'}, mpInt64(v)...)
}
func parseBody(b []byte) (int64, bool) {
	if len(b) == 14 && b[0] == 0xC7 && b[1] == 0x00 && b[2] == 0x81 && b[3] == 0xa1 && b[4] == 'n' && b[5] == 0xd3 {
		return int64(binary.BigEndian.Uint64(b[6:])), true
	}
	return 0, false
}
func treasureVal(t *hydrapb.Treasure) (val, bool) {
	if t == nil || !t.IsExist {
		return val{}, true
	}
	if t.Int64Val != nil {
		return val{'I', *t.Int64Val}, true
	}
	if t.BytesVal != nil {
		if z, ok := parseBody(t.BytesVal); ok {
			return val{'M', z}, true
		}
		return val{}, false
	}
	if t.Int8Val == nil && t.Int16Val == nil && t.Int32Val == nil && t.Uint8Val == nil && t.Uint16Val == nil &&
		t.Uint32Val == nil && t.Uint64Val == nil && t.Float32Val == nil && t.Float64Val == nil && t.StringVal == nil &&
		t.BoolVal == nil && len(t.Uint32Slice) == 0 {
		return val{Kind: 'V'}, true // a record object with void content
	}
	return val{}, false
}

// ---- executing one request on the real gateway ---------------------------------------------

type engine struct{ s *rig.Server }

func (e *engine) do(swamp, key string, o op) (r resp, problem string) {
	ctx := context.Background()
	gw := e.s.GW
	switch o.Kind {
	case kSet:
		kv := &hydrapb.KeyValuePair{Key: key}
		if o.V.Kind == 'I' {
			z := o.V.Z
			kv.Int64Val = &z
		} else {
			kv.BytesVal = mpBody(o.V.Z)
		}
		out, err := gw.Set(ctx, &hydrapb.SetRequest{Swamps: []*hydrapb.SwampRequest{{IslandID: 1, SwampName: swamp,
			CreateIfNotExist: true, Overwrite: true, KeyValues: []*hydrapb.KeyValuePair{kv}}}})
		if err != nil || out == nil || len(out.Swamps) != 1 || len(out.Swamps[0].KeysAndStatuses) != 1 {
			return r, fmt.Sprintf("Set: unexpected reply %v err=%v", out, err)
		}
		st := out.Swamps[0].KeysAndStatuses[0].Status
		switch st {
		case hydrapb.Status_NEW:
			return resp{Kind: kSet, B: true}, ""
		case hydrapb.Status_UPDATED, hydrapb.Status_NOTHING_CHANGED:
			return resp{Kind: kSet, B: false}, ""
		}
		return r, fmt.Sprintf("Set: status %v", st)
	case kInc:
		out, err := gw.IncrementInt64(ctx, &hydrapb.IncrementInt64Request{IslandID: 1, SwampName: swamp, Key: key, IncrementBy: o.D})
		if err != nil {
			if strings.Contains(err.Error(), "not an integer") {
				return resp{Kind: kInc, Err: true}, ""
			}
			return r, "Inc: " + err.Error()
		}
		if out == nil {
			return r, "Inc: nil reply (request panicked)"
		}
		if !out.IsIncremented {
			return r, "Inc: not incremented without a condition"
		}
		return resp{Kind: kInc, Z: out.Value}, ""
	case kIncIf:
		out, err := gw.IncrementInt64(ctx, &hydrapb.IncrementInt64Request{IslandID: 1, SwampName: swamp, Key: key, IncrementBy: o.D,
			Condition: &hydrapb.IncrementInt64Condition{RelationalOperator: hydrapb.Relational_Operator(o.C), Value: o.CV}})
		if err != nil {
			if strings.Contains(err.Error(), "not an integer") {
				return resp{Kind: kInc, Err: true}, ""
			}
			return r, "IncIf: " + err.Error()
		}
		if out == nil {
			return r, "IncIf: nil reply (request panicked)"
		}
		return resp{Kind: kInc, Z: out.Value, No: !out.IsIncremented}, ""
	case kDel:
		out, err := gw.Delete(ctx, &hydrapb.DeleteRequest{Swamps: []*hydrapb.DeleteRequest_SwampKeys{{IslandID: 1, SwampName: swamp, Keys: []string{key}}}})
		if err != nil || out == nil || len(out.Responses) != 1 || len(out.Responses[0].KeyStatuses) != 1 {
			return r, fmt.Sprintf("Delete: unexpected reply %v err=%v", out, err)
		}
		return resp{Kind: kDel, B: out.Responses[0].KeyStatuses[0].Status == hydrapb.Status_DELETED}, ""
	case kShift:
		out, err := gw.ShiftByKeys(ctx, &hydrapb.ShiftByKeysRequest{IslandID: 1, SwampName: swamp, Keys: []string{key}})
		if err != nil || out == nil || len(out.Treasures) > 1 {
			return r, fmt.Sprintf("ShiftByKeys: unexpected reply %v err=%v", out, err)
		}
		if len(out.Treasures) == 0 {
			return resp{Kind: kShift}, ""
		}
		v, ok := treasureVal(out.Treasures[0])
		if !ok {
			return r, fmt.Sprintf("ShiftByKeys: content not understood: %v", out.Treasures[0])
		}
		return resp{Kind: kShift, V: v}, ""
	case kPatch:
		out, err := gw.PatchTreasures(ctx, &hydrapb.PatchTreasuresRequest{IslandID: 1, SwampName: swamp, CreateIfNotExist: o.Create,
			Patches: []*hydrapb.TreasurePatch{{Key: key, Ops: []*hydrapb.PatchOp{{Op: hydrapb.PatchOp_INC, Path: "n", Value: mpInt64(o.D)}}}}})
		if err != nil || out == nil || len(out.Results) != 1 {
			return r, fmt.Sprintf("Patch: unexpected reply %v err=%v", out, err)
		}
		return resp{Kind: kPatch, Z: int64(out.Results[0].Status)}, ""
	}
	out, err := gw.Get(ctx, &hydrapb.GetRequest{Swamps: []*hydrapb.GetSwamp{{IslandID: 1, SwampName: swamp, Keys: []string{key}}}})
	if err != nil || out == nil || len(out.Swamps) != 1 {
		return r, fmt.Sprintf("Get: unexpected reply %v err=%v", out, err)
	}
	if !out.Swamps[0].IsExist || len(out.Swamps[0].Treasures) != 1 {
		return r, fmt.Sprintf("Get: swamp missing or wrong treasure count: %v", out.Swamps[0])
	}
	v, ok := treasureVal(out.Swamps[0].Treasures[0])
	if !ok {
		return r, fmt.Sprintf("Get: content not understood: %v", out.Swamps[0].Treasures[0])
	}
	return resp{Kind: kGet, V: v}, ""
}

// doShiftM issues one ShiftMatchingTreasures (key index, ascending, all matches of
// "Int64 value > thr") and returns the records it handed out, by key.
func (e *engine) doShiftM(swamp string, thr int64) (map[string]val, string) {
	out, err := e.s.GW.ShiftMatchingTreasures(context.Background(), &hydrapb.ShiftMatchingTreasuresRequest{IslandID: 1, SwampName: swamp,
		IndexType: hydrapb.IndexType_KEY, OrderType: hydrapb.OrderType_ASC, HowMany: 0,
		Filters: &hydrapb.FilterGroup{Logic: hydrapb.FilterLogic_AND, Filters: []*hydrapb.TreasureFilter{{
			Operator: hydrapb.Relational_GREATER_THAN, CompareValue: &hydrapb.TreasureFilter_Int64Val{Int64Val: thr}}}}})
	if err != nil || out == nil {
		return nil, fmt.Sprintf("ShiftMatching: unexpected reply %v err=%v", out, err)
	}
	got := map[string]val{}
	for _, t := range out.Treasures {
		v, ok := treasureVal(t)
		if !ok {
			return nil, fmt.Sprintf("ShiftMatching: content not understood: %v", t)
		}
		if _, dup := got[t.Key]; dup {
			return nil, fmt.Sprintf("ShiftMatching: key %s handed out twice in one reply", t.Key)
		}
		got[t.Key] = v
	}
	return got, ""
}

// requestTimeout: a request that has not returned after this long is reported as never
// returning (its goroutine stays behind); generous, the machine may be heavily loaded
const requestTimeout = 20 * time.Second

var hungRequests int64

// guarded runs f with the watchdog; ok=false means f did not return in time
func guarded(f func()) bool {
	done := make(chan struct{})
	go func() { f(); close(done) }()
	select {
	case <-done:
		return true
	case <-time.After(requestTimeout):
		atomic.AddInt64(&hungRequests, 1)
		return false
	}
}

// lock-order inversion found by agent a14 (index beacon mutex vs record guard)
func isIndexGuardDeadlock(dump string) bool {
	a, b := false, false
	for _, g := range strings.Split(dump, "\n\n") {
		if strings.Contains(g, "guard.(*guard).StartTreasureGuard") && strings.Contains(g, "beacon.(*beacon).") {
			a = true
		}
		if (strings.Contains(g, "sync.(*RWMutex).Lock") || strings.Contains(g, "sync.(*RWMutex).RLock")) && strings.Contains(g, "beacon.(*beacon).") &&
			(strings.Contains(g, "(*swamp).deleteHandler") || strings.Contains(g, "(*swamp).SaveFunction")) {
			b = true
		}
	}
	return a && b
}

// schedule fuzzing: at the verif hook points of the engine (record create/save/delete paths,
// flush, summon, ...) a request is now and then held for a few dozen microseconds or yields, so
// that the windows between "object obtained", "guard taken", "published" and "guard released"
// are actually hit by other requests
var fuzzCtr, fuzzSeed uint64

func installFuzz(seed uint64) {
	fuzzSeed = seed
	verifhook.Install(func(site string, gid int64, a []int64) {
		x := atomic.AddUint64(&fuzzCtr, 1)*0x9E3779B97F4A7C15 ^ fuzzSeed
		x = (x ^ (x >> 30)) * 0xBF58476D1CE4E5B9
		x = (x ^ (x >> 27)) * 0x94D049BB133111EB
		x ^= x >> 31
		k := x % 8
		if (site == "swamp.save.enter" || site == "gateway.set.guarded" || site == "swamp.createTreasure.created") && k < 3 {
			k = 0 // hold more often where a record object is obtained but not yet published
		}
		if site == "swamp.createTreasure.building" && x%3 == 0 {
			// the creator is inside the check-and-create section: later creators of the key must
			// wait for it and then find its record object
			time.Sleep(time.Duration(50+(x>>8)%250) * time.Microsecond)
			return
		}
		if strings.HasSuffix(site, ".obtained") && x%2 == 0 {
			// a writer that holds a record object but has not queued on its guard yet
			time.Sleep(time.Duration(100+(x>>8)%500) * time.Microsecond)
			return
		}
		switch k {
		case 0:
			time.Sleep(time.Duration(20+(x>>8)%300) * time.Microsecond)
		case 1, 2:
			runtime.Gosched()
		}
	})
}

// ---- rounds ------------------------------------------------------------------------------

type profile struct {
	name    string
	weights [8]int // Set Inc Del Shift Patch Get IncIf ShiftM
	setM    int    // percent of Sets that store a msgpack body
}

// IncIf is only mixed with int-only alphabets: a rejected conditional increment of an absent
// key leaves its in-flight record (content int64 0) in the create tracker, which a later Patch
// answers with TYPE_MISMATCH - a sequential divergence that is not this property's subject.
// ShiftM is not mixed with Delete/ShiftByKeys/type-changing Sets: ShiftMatching holds the index
// beacon mutex while taking record guards, deleteHandler the other way round (known finding
// deadlock_index_lock_vs_record_guard).
var profiles = []profile{
	{"counter", [8]int{0, 100, 0, 0, 0, 0, 0, 0}, 0},
	{"intmix", [8]int{15, 50, 0, 0, 0, 20, 15, 0}, 0},
	{"patch", [8]int{15, 0, 0, 0, 70, 15, 0, 0}, 100},
	{"typemix", [8]int{20, 35, 0, 0, 35, 10, 0, 0}, 50},
	{"del", [8]int{15, 40, 15, 15, 0, 10, 5, 0}, 0},
	{"all", [8]int{15, 25, 10, 10, 25, 15, 0, 0}, 40},
	{"fresh", [8]int{30, 25, 0, 0, 0, 10, 35, 0}, 0}, // many fresh keys, every thread touches each key once, in step
	{"shiftm", [8]int{35, 20, 0, 0, 0, 5, 5, 35}, 0}, // matching shifts against writers of the same records
}

var modes = []string{"imm", "def", "mem"} // write interval 0 | 1 s | in-memory

type step struct {
	key   int
	o     op
	skip  bool // fresh profile: the thread only takes part in the barrier for this key
	lagUs int  // fresh profile: delay after the barrier, microseconds
}

type roundSpec struct {
	id       int
	mode     string
	prof     profile
	nthreads int
	nkeys    int
	barrier  bool // all threads start their i-th step together
	progs    [][]step
}

type roundResult struct {
	spec     roundSpec
	hist     [][]hop // per key
	init     []val
	final    []val
	problems []string
	hung     []string // requests that never returned
	skipped  bool
}

func genOp(rng *common.Rng, prof profile, fresh bool) op {
	wsum := 0
	for _, w := range prof.weights {
		wsum += w
	}
	x := rng.Intn(wsum)
	kind := 0
	for kind = 0; kind < len(prof.weights); kind++ {
		if x < prof.weights[kind] {
			break
		}
		x -= prof.weights[kind]
	}
	o := op{Kind: kind}
	switch kind {
	case kSet:
		o.V = val{'I', int64(rng.Intn(200)) - 50}
		if rng.Chance(prof.setM) {
			o.V.Kind = 'M'
		}
	case kInc, kPatch, kIncIf:
		o.D = int64(rng.Intn(9)) - 3
		if o.D <= 0 {
			o.D -= 1 // never 0 (the gateway rejects IncrementBy 0)
		}
		if rng.Chance(3) {
			o.D = (int64(1) << 62) + int64(rng.Intn(1000)) // exercises the int64 wrap
		}
		o.Create = kind == kPatch && !rng.Chance(25)
		if kind == kIncIf {
			o.C = rng.Intn(6)
			o.CV = int64(rng.Intn(120)) - 20
			if fresh && rng.Chance(60) {
				o.C, o.CV = 0, 777 // rejected on a key that does not exist yet
			}
		}
	case kShiftM:
		o.Thr = int64(10 + rng.Intn(60))
	}
	return o
}

func genRound(rng *common.Rng, id int, tier string) roundSpec {
	sp := roundSpec{id: id}
	sp.mode = modes[rng.Intn(3)]
	if rng.Chance(40) {
		sp.mode = "imm" // the mode the existing tests never exercise concurrently
	}
	sp.prof = profiles[rng.Intn(len(profiles))]
	if id%6 == 5 {
		sp.prof = profiles[6] // a guaranteed share of fresh-key rounds
	}
	if id%6 == 2 {
		sp.prof = profiles[7] // ... and of matching-shift rounds
	}
	if only := os.Getenv("C09_ONLY"); only != "" { // experiments: one profile only
		for _, p := range profiles {
			if p.name == only {
				sp.prof = p
			}
		}
	}
	sp.nthreads = 4 + rng.Intn(13)
	sp.nkeys = 1 + rng.Intn(3)
	if sp.prof.name == "fresh" {
		// every thread visits every (not yet existing) key once, all threads in step
		sp.nthreads = 4 + rng.Intn(9)
		sp.nkeys = 12 + rng.Intn(13)
		sp.barrier = true
		for t := 0; t < sp.nthreads; t++ {
			prog := make([]step, sp.nkeys)
			for k := range prog {
				// staggered arrival: some writers reach the key while the first ones are between
				// "record object obtained", "rejected / saved" and "published"
				lag := []int{0, 0, 0, 30, 80, 150, 300, 600}[rng.Intn(8)]
				prog[k] = step{key: k, o: genOp(rng, sp.prof, true), skip: rng.Chance(15), lagUs: lag}
			}
			sp.progs = append(sp.progs, prog)
		}
		return sp
	}
	if sp.prof.name == "shiftm" && sp.nkeys == 1 {
		sp.nkeys = 2
	}
	perKeyCap := 44
	counts := make([]int, sp.nkeys)
	for t := 0; t < sp.nthreads; t++ {
		nops := 2 + rng.Intn(5)
		var prog []step
		for i := 0; i < nops; i++ {
			k := rng.Intn(sp.nkeys)
			o := genOp(rng, sp.prof, false)
			if o.Kind == kShiftM {
				full := false
				for _, c := range counts {
					if c >= perKeyCap {
						full = true
					}
				}
				if full {
					continue
				}
				for j := range counts {
					counts[j]++
				}
			} else {
				if counts[k] >= perKeyCap {
					continue
				}
				counts[k]++
			}
			prog = append(prog, step{key: k, o: o})
		}
		sp.progs = append(sp.progs, prog)
	}
	return sp
}

type barrier struct {
	mu    sync.Mutex
	n, in int
	ch    chan struct{}
}

func (b *barrier) wait() {
	b.mu.Lock()
	b.in++
	ch := b.ch
	if b.in >= b.n {
		b.in = 0
		b.ch = make(chan struct{})
		close(ch)
		b.mu.Unlock()
		return
	}
	b.mu.Unlock()
	select {
	case <-ch:
	case <-time.After(2 * time.Second):
	}
}

func runRound(e *engine, sp roundSpec, rng *common.Rng) roundResult {
	res := roundResult{spec: sp}
	if atomic.LoadInt64(&hungRequests) >= 3 {
		res.skipped = true // the engine has stuck requests: finish the run in normal time
		return res
	}
	swamp := fmt.Sprintf("c09/%s/r%d", sp.mode, sp.id)
	keyName := func(k int) string { return fmt.Sprintf("k%d", k) }
	var clock int64
	// the pin record keeps the swamp from ever becoming empty (auto-destroy is C16's subject);
	// its value 1 is below every ShiftM threshold
	pinOK := guarded(func() {
		if _, p := e.do(swamp, "pin", op{Kind: kSet, V: val{'I', 1}}); p != "" {
			res.problems = append(res.problems, "pin: "+p)
		}
	})
	if !pinOK {
		res.hung = append(res.hung, "Set(pin) before the round")
		return res
	}
	if len(res.problems) > 0 {
		return res
	}
	res.init = make([]val, sp.nkeys)
	for k := 0; k < sp.nkeys && sp.prof.name != "fresh"; k++ {
		switch rng.Intn(3) {
		case 1:
			res.init[k] = val{'I', int64(rng.Intn(100))}
		case 2:
			if sp.prof.setM > 0 {
				res.init[k] = val{'M', int64(rng.Intn(100))}
			}
		}
		if sp.prof.name == "shiftm" {
			res.init[k] = val{'I', int64(rng.Intn(100))}
		}
		if res.init[k].Kind != 0 {
			k := k
			if !guarded(func() {
				if _, p := e.do(swamp, keyName(k), op{Kind: kSet, V: res.init[k]}); p != "" {
					res.problems = append(res.problems, "init: "+p)
				}
			}) {
				res.hung = append(res.hung, "Set(init) before the round")
				return res
			}
		}
	}
	perThread := make([][]hop, sp.nthreads)
	probs := make([][]string, sp.nthreads)
	hung := make([][]string, sp.nthreads)
	var wg sync.WaitGroup
	start := make(chan struct{})
	bar := &barrier{n: sp.nthreads, ch: make(chan struct{})}
	for t := 0; t < sp.nthreads; t++ {
		wg.Add(1)
		go func(t int) {
			defer wg.Done()
			<-start
			for _, st := range sp.progs[t] {
				if sp.barrier {
					bar.wait()
				}
				if st.skip {
					continue
				}
				if st.lagUs > 0 {
					time.Sleep(time.Duration(st.lagUs) * time.Microsecond)
				}
				inv := atomic.AddInt64(&clock, 1)
				var r resp
				var p string
				var got map[string]val
				ok := guarded(func() {
					if st.o.Kind == kShiftM {
						got, p = e.doShiftM(swamp, st.o.Thr)
					} else {
						r, p = e.do(swamp, keyName(st.key), st.o)
					}
				})
				ret := atomic.AddInt64(&clock, 1)
				if !ok {
					hung[t] = append(hung[t], fmt.Sprintf("thread %d %s on %s (invoked at %d) never returned", t, st.o, keyName(st.key), inv))
					return // the request's goroutine stays behind; this thread stops here
				}
				if p != "" {
					probs[t] = append(probs[t], fmt.Sprintf("thread %d %s on %s: %s", t, st.o, keyName(st.key), p))
					continue
				}
				if st.o.Kind == kShiftM {
					for k := 0; k < sp.nkeys; k++ {
						rk := resp{Kind: kShiftM, V: got[keyName(k)]}
						perThread[t] = append(perThread[t], hop{Thread: t, Key: k, Op: st.o, Resp: rk, OpS: st.o.String(), RespS: rk.String(), Inv: inv, Ret: ret})
					}
					continue
				}
				perThread[t] = append(perThread[t], hop{Thread: t, Key: st.key, Op: st.o, Resp: r, OpS: st.o.String(), RespS: r.String(), Inv: inv, Ret: ret})
			}
		}(t)
	}
	close(start)
	wg.Wait() // every request is bounded by the watchdog
	for t := range probs {
		res.problems = append(res.problems, probs[t]...)
		res.hung = append(res.hung, hung[t]...)
	}
	res.hist = make([][]hop, sp.nkeys)
	for t := range perThread {
		for _, h := range perThread[t] {
			res.hist[h.Key] = append(res.hist[h.Key], h)
		}
	}
	for k := range res.hist {
		sort.SliceStable(res.hist[k], func(i, j int) bool { return res.hist[k][i].Inv < res.hist[k][j].Inv })
	}
	if len(res.hung) > 0 {
		return res // no final reads on a swamp with a stuck request (they could block as well)
	}
	res.final = make([]val, sp.nkeys)
	for k := 0; k < sp.nkeys; k++ {
		k := k
		if !guarded(func() {
			r, p := e.do(swamp, keyName(k), op{Kind: kGet})
			if p != "" {
				res.problems = append(res.problems, "final get: "+p)
			}
			res.final[k] = r.V
		}) {
			res.hung = append(res.hung, fmt.Sprintf("final Get(%s) never returned", keyName(k)))
			return res
		}
	}
	return res
}

var relaxSig = map[int]string{
	1: "delete_acknowledged_on_absent_key",
	2: "write_on_stale_record_object_after_delete",
	3: "shift_clone_and_removal_not_atomic",
}

func main() {
	args := common.ParseArgs()
	rig.Quiet()
	run := common.NewRun(args, "C09", "HV.Conc.Lin")
	run.Meta.Rule = "a case is one per-key history of a concurrent round; non-trivial = at least two requests of different threads overlap in time and at least one of them is a write"
	rng := common.NewRng(args.Seed, "C09")

	root, _ := os.MkdirTemp("", "c09-")
	defer os.RemoveAll(root)
	srv := rig.Start(root, true)
	srv.Register("c09/imm/*", false, 3600, 0, 8192)
	srv.Register("c09/def/*", false, 3600, 1, 8192)
	srv.Register("c09/mem/*", true, 3600, 0, 8192)
	e := &engine{srv}
	installFuzz(args.Seed)

	nrounds := 180
	if args.Tier == "thorough" {
		nrounds = 2000
	}
	specs := make([]roundSpec, nrounds)
	rngs := make([]*common.Rng, nrounds)
	for i := range specs {
		specs[i] = genRound(rng, i, args.Tier)
		rngs[i] = rng.Fork(fmt.Sprintf("round%d", i))
	}
	results := make([]roundResult, nrounds)
	common.Parallel(nrounds, 6, func(i int) { results[i] = runRound(e, specs[i], rngs[i]) })

	// counter soak in immediate-write mode: many increments of one key, arithmetic check
	soakN, soakT := 2400, 16
	if args.Tier == "thorough" {
		soakN = 24000
	}
	soakProblems := soak(e, soakN, soakT)

	// requests that never returned: one goroutine dump classifies the cause
	hangSig, hangDump := "request_never_returned", ""
	if atomic.LoadInt64(&hungRequests) > 0 {
		buf := make([]byte, 8<<20)
		hangDump = string(buf[:runtime.Stack(buf, true)])
		if isIndexGuardDeadlock(hangDump) {
			hangSig = "deadlock_index_lock_vs_record_guard"
		}
		if len(hangDump) > 40000 {
			hangDump = hangDump[:40000]
		}
	}
	dumpAttached := false
	for _, res := range results {
		sp := res.spec
		if res.skipped {
			run.Hist("rounds_skipped_after_hangs")
			continue
		}
		if len(res.hung) > 0 {
			var hs []hop
			for k := range res.hist {
				hs = append(hs, res.hist[k]...)
			}
			sort.SliceStable(hs, func(i, j int) bool { return hs[i].Inv < hs[j].Inv })
			descr := map[string]interface{}{"round": sp.id, "mode": sp.mode, "profile": sp.prof.name, "threads": sp.nthreads,
				"never_returned": res.hung, "completed_requests": hs}
			if !dumpAttached {
				descr["goroutines"] = hangDump
				dumpAttached = true
			}
			idx := run.Add("{| c_init := None; c_ops := []; c_order := []; c_final := None; c_relax := 0 |}", descr, true)
			run.Hist("verdict:" + hangSig)
			run.Violate(idx, "every request is answered", hangSig, fmt.Sprintf("round %d (%s,%s): %s (watchdog %s); %d requests of the round had completed",
				sp.id, sp.mode, sp.prof.name, strings.Join(res.hung, "; "), requestTimeout, len(hs)))
			continue
		}
		for _, p := range res.problems {
			idx := run.Add(fmt.Sprintf("{| c_init := None; c_ops := []; c_order := []; c_final := None; c_relax := 0 |}"),
				map[string]interface{}{"round": sp.id, "mode": sp.mode, "profile": sp.prof.name, "problem": p}, false)
			sig := "request_failed_or_panicked"
			if strings.HasPrefix(p, "HANG") {
				sig = "request_hang"
			}
			run.Violate(idx, "every request is answered", sig, p)
		}
		for k := range res.hist {
			h := res.hist[k]
			if len(h) == 0 {
				continue
			}
			run.Hist("mode:" + sp.mode)
			run.Hist("profile:" + sp.prof.name)
			for _, x := range h {
				run.Hist("op:" + kindNames[x.Op.Kind])
			}
			overlap := false
			for i := range h {
				for j := range h {
					if i != j && h[i].Thread != h[j].Thread && h[i].Inv < h[j].Ret && h[j].Inv < h[i].Ret &&
						(h[i].Op.Kind != kGet || h[j].Op.Kind != kGet) {
						overlap = true
					}
				}
			}
			relax := 0
			var order []orderEl
			for relax = 0; relax <= 3; relax++ {
				order = linearize(h, res.init[k], res.final[k], relax)
				if order != nil {
					break
				}
			}
			descr := map[string]interface{}{"round": sp.id, "mode": sp.mode, "profile": sp.prof.name, "threads": sp.nthreads,
				"key": k, "init": res.init[k].String(), "final": res.final[k].String(), "history": h}
			ops := make([]string, len(h))
			for i, x := range h {
				ops[i] = fmt.Sprintf("{| h_op := %s; h_resp := %s; h_inv := %s; h_ret := %s |}", x.Op.coq(), x.Resp.coq(), common.N(uint64(x.Inv)), common.N(uint64(x.Ret)))
			}
			if order == nil {
				// no explanation by the three validated deviation classes. If a Delete/ShiftByKeys
				// overlaps another request on this key, the history belongs to the (open-ended)
				// known class "removal of the record object races with requests holding it";
				// otherwise it is a new violation. Either way the history is the replay.
				racing := false
				for i := range h {
					if h[i].Op.Kind != kDel && h[i].Op.Kind != kShift && h[i].Op.Kind != kShiftM {
						continue
					}
					for j := range h {
						if i != j && h[i].Inv < h[j].Ret && h[j].Inv < h[i].Ret {
							racing = true
						}
					}
				}
				idx := run.Add(fmt.Sprintf("{| c_init := %s; c_ops := %s; c_order := []; c_final := %s; c_relax := 9 |}",
					res.init[k].coq(), common.List(ops), res.final[k].coq()), descr, overlap)
				sig := "no_linearization_found"
				if racing {
					sig = "delete_or_shift_racing_with_requests_on_the_same_key"
				}
				run.Hist("verdict:" + sig)
				run.Violate(idx, "linearizable", sig, fmt.Sprintf("round %d (%s,%s) key k%d: no serial order explains the %d responses and the final state %s", sp.id, sp.mode, sp.prof.name, k, len(h), res.final[k]))
				continue
			}
			ord := make([]string, len(order))
			for i, el := range order {
				ord[i] = common.Pair(common.Nat(el.Idx), common.Bool(el.Flag))
			}
			descr["order"] = ord
			descr["relax"] = relax
			term := fmt.Sprintf("{| c_init := %s; c_ops := %s; c_order := %s; c_final := %s; c_relax := %s |}",
				res.init[k].coq(), common.List(ops), common.List(ord), res.final[k].coq(), common.N(uint64(relax)))
			caseIdx := run.Add(term, descr, overlap)
			if relax == 0 {
				run.Hist("verdict:linearizable")
			} else {
				run.Hist("verdict:" + relaxSig[relax])
			}
			// arithmetic check for pure counters
			if sp.prof.name == "counter" && res.init[k].Kind != 'M' {
				sum := res.init[k].Z
				for _, x := range h {
					sum += x.Op.D
				}
				if res.final[k].Kind != 'I' || res.final[k].Z != sum {
					run.Violate(caseIdx, "no lost update", "counter_sum_wrong", fmt.Sprintf("round %d key k%d: %d increments, expected %d, found %s", sp.id, k, len(h), sum, res.final[k]))
				}
			}
		}
	}
	for _, p := range soakProblems {
		idx := run.Add("{| c_init := None; c_ops := []; c_order := []; c_final := None; c_relax := 0 |}", map[string]interface{}{"soak": p}, false)
		run.Violate(idx, "no lost update", "soak_counter_wrong", p)
	}
	run.Meta.Traces = nrounds
	run.Meta.Extra["soak_increments"] = soakN
	run.Meta.Extra["requests_never_returned"] = atomic.LoadInt64(&hungRequests)
	if atomic.LoadInt64(&hungRequests) == 0 {
		// graceful stop waits for every request; with stuck requests it would never finish
		guarded(func() { srv.Stop() })
	}
	run.Finish("check_all")
}

// soak: n increments by 1 from t goroutines on one key in immediate-write mode and one in
// deferred mode; the final counter must be n and every returned value distinct.
func soak(e *engine, n, t int) []string {
	var problems []string
	for _, mode := range []string{"imm", "def"} {
		swamp := "c09/" + mode + "/soak"
		if !guarded(func() { e.do(swamp, "pin", op{Kind: kSet, V: val{'I', 1}}) }) {
			problems = append(problems, "soak "+mode+": Set(pin) never returned")
			continue
		}
		seen := make([]int32, n+1)
		var wg sync.WaitGroup
		var bad int64
		for g := 0; g < t; g++ {
			wg.Add(1)
			go func() {
				defer wg.Done()
				for i := 0; i < n/t; i++ {
					var r resp
					var p string
					if atomic.LoadInt64(&hungRequests) > 0 || !guarded(func() { r, p = e.do(swamp, "ctr", op{Kind: kInc, D: 1}) }) {
						atomic.AddInt64(&bad, 1)
						return
					}
					if p != "" || r.Err || r.Z < 1 || r.Z > int64(n) {
						atomic.AddInt64(&bad, 1)
						continue
					}
					if atomic.AddInt32(&seen[r.Z], 1) != 1 {
						atomic.AddInt64(&bad, 1)
					}
				}
			}()
		}
		wg.Wait()
		if atomic.LoadInt64(&hungRequests) > 0 {
			problems = append(problems, "soak "+mode+": a request never returned")
			continue
		}
		var r resp
		guarded(func() { r, _ = e.do(swamp, "ctr", op{Kind: kGet}) })
		want := int64(n / t * t)
		if r.V.Kind != 'I' || r.V.Z != want || bad != 0 {
			problems = append(problems, fmt.Sprintf("soak %s: %d acknowledged increments, counter = %s, %d failed/duplicate responses", mode, want, r.V, bad))
		}
	}
	return problems
}
