// c21: correspondence check for the swamp-pattern registry (app/core/settings/settings.go,
// app/name/name.go:ComparePattern) against Settings/Pattern.v.
//
// A case is a history of RegisterPattern / DeregisterPattern calls on a real settings object
// (own HYDRAIDE_ROOT_PATH), followed by repeated GetBySwampName calls for a set of names (Go
// randomises map iteration, so repetition exposes order dependence), a restart (a fresh
// settings.New on the same root) and the same queries again.  Observable: the set of distinct
// answers (type, idle, write interval, file size).  The Coq side evaluates the specification
// (most specific registered match) and replays the registry model.
package main

import (
	"fmt"
	"io"
	"log/slog"
	"os"
	"sort"
	"strings"

	"github.com/hydraide/hydraide/app/core/settings"
	"github.com/hydraide/hydraide/app/core/settings/setting"
	"github.com/hydraide/hydraide/app/name"
	"verif/harness/common"
)

var sanct = []string{"", "sa", "sb"}   // token 1, 2 (0 unused: the sanctuary has no wildcard)
var realm = []string{"*", "r1", "ré2"} // token 0 = wildcard
var swamp = []string{"*", "w1", "w-2"}

type pat struct{ S, R, W int }

func (p pat) name() name.Name {
	return name.New().Sanctuary(sanct[p.S]).Realm(realm[p.R]).Swamp(swamp[p.W])
}
func (p pat) str() string { return sanct[p.S] + "/" + realm[p.R] + "/" + swamp[p.W] }
func (p pat) coq() string {
	return fmt.Sprintf("(P_ %d %d %d)", p.S, p.R, p.W)
}
func (p pat) matches(n pat) bool { // does pattern p match name n
	return p.S == n.S && (p.R == 0 || p.R == n.R) && (p.W == 0 || p.W == n.W)
}

type event struct {
	Restart           bool
	Dereg             bool
	P                 pat
	InMem             bool
	Idle, Wint, MaxFs int64
}

func (e event) coq() string {
	if e.Restart {
		return "Restart"
	}
	if e.Dereg {
		return common.App("Dereg", e.P.coq())
	}
	return common.App("Reg", e.P.coq(), common.App("mk_sett", common.Bool(e.InMem), common.Z(e.Idle), common.Z(e.Wint), common.Z(e.MaxFs)))
}
func (e event) human() string {
	if e.Restart {
		return "restart (settings.New on the same root)"
	}
	if e.Dereg {
		return "deregister " + e.P.str()
	}
	if e.InMem {
		return fmt.Sprintf("register %s in-memory idle=%ds", e.P.str(), e.Idle)
	}
	return fmt.Sprintf("register %s persistent idle=%ds write=%ds maxfile=%d", e.P.str(), e.Idle, e.Wint, e.MaxFs)
}

type obs struct {
	InMem             bool
	Idle, Wint, MaxFs int64
}

func (o obs) coq() string {
	return fmt.Sprintf("(S_ %s %s %s %s)", common.Bool(o.InMem), common.Z(o.Idle), common.Z(o.Wint), common.Z(o.MaxFs))
}
func (o obs) human() string {
	t := "persistent"
	if o.InMem {
		t = "in-memory"
	}
	return fmt.Sprintf("%s idle=%dns write=%dns maxfile=%d", t, o.Idle, o.Wint, o.MaxFs)
}

// name objects are reused across lookups in half of the calls (a caller may keep them)
var namePool = map[pat]name.Name{}

func observe(s settings.Settings, n pat, reps int) []obs {
	seen := map[obs]bool{}
	nm := n.name()
	if reps%2 == 0 {
		if namePool[n] == nil {
			namePool[n] = n.name()
		}
		nm = namePool[n]
	}
	for i := 0; i < reps; i++ {
		st := s.GetBySwampName(nm)
		seen[obs{st.GetSwampType() == setting.InMemorySwamp, int64(st.GetCloseAfterIdle()), int64(st.GetWriteInterval()), st.GetMaxFileSizeByte()}] = true
	}
	var out []obs
	for o := range seen {
		out = append(out, o)
	}
	sort.Slice(out, func(i, j int) bool { return out[i].human() < out[j].human() })
	return out
}

func apply(s settings.Settings, e event) {
	if e.Dereg {
		s.DeregisterPattern(e.P.name())
		return
	}
	var fs *settings.FileSystemSettings
	if !e.InMem {
		fs = &settings.FileSystemSettings{WriteIntervalSec: e.Wint, MaxFileSizeByte: e.MaxFs}
	}
	s.RegisterPattern(e.P.name(), e.InMem, e.Idle, fs)
}

func obsList(os []obs) string {
	t := make([]string, len(os))
	for i, o := range os {
		t[i] = o.coq()
	}
	return common.List(t)
}

func main() {
	a := common.ParseArgs()
	run := common.NewRun(a, "C21", "HV.Settings.Pattern")
	run.Meta.Rule = "a case is a history of 1-9 RegisterPattern/DeregisterPattern calls and restarts (overlapping exact, realm-wildcard and swamp-wildcard patterns over 2 sanctuaries x 2 realms x 2 swamps, re-registrations with changed type/settings, deregistrations of live and of unknown patterns, settings.New on the same root in mid-history) on a real settings object, with GetBySwampName lookups (fresh and reused name objects) before, between and after the calls - each must answer from the registrations in force at that moment -, then 30 repeated lookups for each of 10 names, a restart and the lookups again; non-trivial = at least one queried name is matched by two or more registered patterns"
	slog.SetDefault(slog.New(slog.NewTextHandler(io.Discard, nil)))
	rng := common.NewRng(a.Seed, "C21")
	ncases, reps := 300, 30
	if a.Tier == "thorough" {
		ncases, reps = 6000, 60
	}
	base, err := os.MkdirTemp("", "c21-")
	if err != nil {
		panic(err)
	}
	defer os.RemoveAll(base)

	var names []pat
	for s := 1; s <= 2; s++ {
		for r := 1; r <= 2; r++ {
			for w := 1; w <= 2; w++ {
				names = append(names, pat{s, r, w})
			}
		}
	}
	names = append(names, pat{1, 0, 1}, pat{1, 2, 0}) // names whose parts are literally "*"

	idles := []int64{1, 5, 10, 3600}
	wints := []int64{0, 1, 10}
	sizes := []int64{0, 65536, 1 << 20}
	genEvent := func(used []pat) event {
		var p pat
		if len(used) > 0 && rng.Chance(35) {
			p = used[rng.Intn(len(used))] // re-register / deregister a known pattern
		} else {
			p = pat{1 + rng.Intn(2), rng.Intn(3), rng.Intn(3)}
			if rng.Chance(60) {
				p.S = 1 // concentrate on one sanctuary so that patterns overlap
			}
		}
		if rng.Chance(15) {
			return event{Dereg: true, P: p}
		}
		return event{P: p, InMem: rng.Chance(45), Idle: idles[rng.Intn(len(idles))], Wint: wints[rng.Intn(len(wints))], MaxFs: sizes[rng.Intn(len(sizes))]}
	}

	queryTerm := func(n pat, before, after []obs, live map[pat]bool) (string, interface{}, int) {
		k := 0
		for p := range live {
			if p.matches(n) {
				k++
			}
		}
		hb := []string{}
		for _, o := range before {
			hb = append(hb, o.human())
		}
		ha := []string{}
		for _, o := range after {
			ha = append(ha, o.human())
		}
		return fmt.Sprintf("Q_ %s %s %s", n.coq(), obsList(before), obsList(after)),
			map[string]interface{}{"lookup": n.str(), "matching_registered_patterns": k, "distinct_answers": hb, "after_restart": ha}, k
	}
	for c := 0; c < ncases; c++ {
		var evs []event
		switch c {
		case 0: // the Coq witness first_match_refuted: a/*/* in-memory, a/b/* persistent
			evs = []event{{P: pat{1, 0, 0}, InMem: true, Idle: 10}, {P: pat{1, 2, 0}, Idle: 10, Wint: 1, MaxFs: 65536}}
		case 1: // the Coq witness reregistration_refuted
			evs = []event{{P: pat{1, 0, 0}, InMem: true, Idle: 10}, {P: pat{1, 0, 0}, Idle: 10}}
		case 2: // catch-all + more specific pattern, the specific one is deregistered again
			evs = []event{{P: pat{1, 0, 0}, Idle: 60, Wint: 5, MaxFs: 65536}, {P: pat{1, 2, 0}, InMem: true, Idle: 2}, {Dereg: true, P: pat{1, 2, 0}}}
		default:
			n := 1 + rng.Intn(9)
			var used []pat
			for i := 0; i < n; i++ {
				if i > 0 && rng.Chance(8) {
					evs = append(evs, event{Restart: true})
					continue
				}
				e := genEvent(used)
				if !e.Dereg && len(used) > 0 && rng.Chance(12) {
					// deregister something that is (or was) registered: lookups made before must not stick
					e = event{Dereg: true, P: used[rng.Intn(len(used))]}
				}
				evs = append(evs, e)
				used = append(used, e.P)
			}
		}
		root := fmt.Sprintf("%s/%d", base, c)
		os.MkdirAll(root, 0o755)
		os.Setenv("HYDRAIDE_ROOT_PATH", root)
		s := settings.New(2, 100)
		live := map[pat]bool{}
		maxOverlap := 0
		midLookups := 0
		var st []string
		var sh []interface{}
		// lookups before, between and after the events: each sees the registrations in force then
		lookSome := func(prob int, reps int) {
			for _, n := range names {
				if !rng.Chance(prob) {
					continue
				}
				t, h, k := queryTerm(n, observe(s, n, reps), nil, live)
				st = append(st, t)
				sh = append(sh, h)
				if k > maxOverlap {
					maxOverlap = k
				}
				midLookups++
			}
		}
		if rng.Chance(30) {
			lookSome(30, 3) // nothing registered yet: the default
		}
		for _, e := range evs {
			if e.Restart {
				s = settings.New(2, 100)
			} else {
				apply(s, e)
				if e.Dereg {
					delete(live, e.P)
				} else {
					live[e.P] = true
				}
			}
			st = append(st, "HEv "+e.coq())
			sh = append(sh, e.human())
			switch {
			case c < 3:
				lookSome(100, 4)
			case e.Dereg:
				lookSome(60, 4)
			default:
				lookSome(25, 3)
			}
		}
		restart := c < 3 || rng.Chance(60)
		for _, n := range names {
			before := observe(s, n, reps)
			var after []obs
			if restart {
				after = observe(settings.New(2, 100), n, 5)
			}
			t, h, k := queryTerm(n, before, after, live)
			st = append(st, t)
			sh = append(sh, h)
			if k > maxOverlap {
				maxOverlap = k
			}
		}
		if restart {
			run.Hist("with_final_restart")
		}
		os.RemoveAll(root)
		nDereg, nRestart := 0, 0
		for _, e := range evs {
			if e.Dereg {
				nDereg++
			}
			if e.Restart {
				nRestart++
			}
		}
		run.Add(fmt.Sprintf("{| c_steps := %s |}", common.List(st)),
			map[string]interface{}{"history_with_lookups": sh, "calls_per_final_lookup": reps}, maxOverlap >= 2)
		run.Hist(fmt.Sprintf("max_overlap_%d", maxOverlap))
		run.Hist(fmt.Sprintf("events_%d", len(evs)))
		run.HistN("lookups_inside_history", midLookups)
		run.HistN("lookups_at_end", len(names))
		run.HistN("deregistrations", nDereg)
		run.HistN("mid_history_restarts", nRestart)
	}
	_ = strings.Join
	run.Shard = (run.Meta.Evaluations + 7) / 8
	run.Meta.Traces = run.Meta.Evaluations
	run.Finish("check_all")
}
