// c28: lock bookkeeping does not grow without bound (lock.go) against Conc/BLock.v.
//
// A case is a history of lock / unlock / TTL expiry / cancelled waiters over N distinct keys of
// one real lock.New(), run by 16 goroutines, after which H keys are deliberately left locked
// (one of them with a waiter). After quiescence the number of per-key queue objects the lock
// still keeps (accessor lock.QueueCount) is compared with the model's bound: entries <= keys
// currently locked or waited on (C28_map_size_bounded). Heap growth is reported only.
package main

import (
	"context"
	"fmt"
	"runtime"
	"strings"
	"sync"
	"sync/atomic"
	"time"

	"github.com/hydraide/hydraide/app/core/hydra/lock"
	"verif/harness/common"
)

var overBound atomic.Int64

var (
	stuckOps  atomic.Int64
	stuckMu   sync.Mutex
	stuckWhat string
)

type res struct {
	nkeys, held, qc int
	entries         int
	ops             map[string]int
	heapDelta       int64
	retained        []string
}

// keyOf: distinct keys of many shapes - short, exactly at and around the usual size limits
// (127/128/129, 255/256/257 bytes), very long, non-ASCII, with separators.
func keyOf(prefix string, i int) string {
	base := fmt.Sprintf("%s%d", prefix, i)
	pad := func(n int) string {
		if len(base) >= n {
			return base
		}
		return base + "/" + strings.Repeat("x", n-len(base)-1)
	}
	switch i % 11 {
	case 1:
		return pad(127)
	case 2:
		return pad(128)
	case 3:
		return pad(129)
	case 4:
		return pad(255)
	case 5:
		return pad(257)
	case 6:
		return pad(1000)
	case 7:
		return pad(70000)
	case 8:
		return base + "/ключ/鍵/🔑"
	case 9:
		return base + " with spaces\tand\x00control"
	}
	return base
}

func oneCase(r *common.Rng, nkeys int, measureHeap bool) res {
	var m0, m1 runtime.MemStats
	if measureHeap {
		runtime.GC()
		runtime.ReadMemStats(&m0)
	}
	l := lock.New()
	ops := map[string]int{}
	var omu sync.Mutex
	kinds := make([]int, nkeys)
	for i := range kinds {
		kinds[i] = r.Intn(14)
	}
	keyOp := func(i int) {
		key := keyOf("k", i)
		ctx := context.Background()
		name := ""
		switch kinds[i] {
		case 0: // lock, unlock
			id, _ := l.Lock(ctx, key, 5*time.Second)
			l.Unlock(key, id)
			name = "lock_unlock"
		case 1: // lock, let the TTL release it
			l.Lock(ctx, key, 3*time.Millisecond)
			name = "lock_ttl_expiry"
		case 2: // holder + a waiter whose context is cancelled, then unlock
			id, _ := l.Lock(ctx, key, 5*time.Second)
			c2, cancel := context.WithTimeout(ctx, 500*time.Microsecond)
			l.Lock(c2, key, 5*time.Second)
			cancel()
			l.Unlock(key, id)
			name = "lock_cancelled_waiter_unlock"
		case 3: // two lockers one after the other, second released by a stale+real unlock
			id, _ := l.Lock(ctx, key, 5*time.Second)
			done := make(chan string)
			go func() { id2, _ := l.Lock(ctx, key, 5*time.Second); done <- id2 }()
			time.Sleep(100 * time.Microsecond)
			l.Unlock(key, id)
			id2 := <-done
			l.Unlock(key, id)
			l.Unlock(key, id2)
			name = "handover_then_unlock"
		case 4: // lock, unlock, lock again, unlock (the key's entry is re-created)
			id, _ := l.Lock(ctx, key, 5*time.Second)
			l.Unlock(key, id)
			id, _ = l.Lock(ctx, key, 5*time.Second)
			l.Unlock(key, id)
			name = "relock"
		case 5: // Lock with an already-cancelled context on a free key (never locked before)
			dead, cancel := context.WithCancel(ctx)
			cancel()
			if id, err := l.Lock(dead, key, 5*time.Second); err == nil {
				l.Unlock(key, id) // the select may still have taken the ready branch
			}
			name = "lock_dead_ctx_free_key"
		case 6: // Lock with an expired deadline on a key that is held, then the holder unlocks
			id, _ := l.Lock(ctx, key, 5*time.Second)
			dead, cancel := context.WithDeadline(ctx, time.Now().Add(-time.Second))
			if id2, err := l.Lock(dead, key, 5*time.Second); err == nil {
				l.Unlock(key, id2)
			}
			cancel()
			l.Unlock(key, id)
			name = "lock_dead_ctx_held_key"
		case 7: // Unlock of a key that was never locked
			l.Unlock(key, "no-such-id-"+key)
			name = "unlock_never_locked_key"
		case 8: // duplicate unlock
			id, _ := l.Lock(ctx, key, 5*time.Second)
			l.Unlock(key, id)
			l.Unlock(key, id)
			name = "duplicate_unlock"
		case 9: // the TTL releases the lock, the client's Unlock arrives late
			id, _ := l.Lock(ctx, key, 2*time.Millisecond)
			for dl := time.Now().Add(2 * time.Second); time.Now().Before(dl); {
				if n, _ := lock.QueueLen(l, key); n == 0 {
					break
				}
				time.Sleep(500 * time.Microsecond)
			}
			l.Unlock(key, id)
			name = "late_unlock_after_ttl"
		case 10: // the right id on a wrong, never locked key; then the real unlock
			id, _ := l.Lock(ctx, key, 5*time.Second)
			l.Unlock(key+"-other", id)
			l.Unlock(key, id)
			name = "unlock_wrong_key"
		case 11: // TTL zero: released at once, then a stale unlock
			id, _ := l.Lock(ctx, key, 0)
			time.Sleep(200 * time.Microsecond)
			l.Unlock(key, id)
			name = "ttl_zero_then_unlock"
		case 12: // dead context first, then a normal lock/unlock of the same key (second use)
			dead, cancel := context.WithCancel(ctx)
			cancel()
			if id, err := l.Lock(dead, key, 5*time.Second); err == nil {
				l.Unlock(key, id)
			}
			id, _ := l.Lock(ctx, key, 5*time.Second)
			l.Unlock(key, id)
			l.Unlock(key, id)
			name = "dead_ctx_then_relock_then_duplicate_unlock"
		default: // waiter cancelled while queued, holder released by its TTL, late unlock by both
			id, _ := l.Lock(ctx, key, 3*time.Millisecond)
			c2, cancel := context.WithTimeout(ctx, time.Millisecond)
			id2, err := l.Lock(c2, key, 3*time.Millisecond)
			cancel()
			time.Sleep(4 * time.Millisecond)
			l.Unlock(key, id)
			if err == nil {
				l.Unlock(key, id2)
			}
			name = "ttl_and_cancel_then_late_unlocks"
		}
		omu.Lock()
		ops[name]++
		omu.Unlock()
	}
	common.Parallel(nkeys, 16, func(i int) {
		if stuckOps.Load() > 0 {
			return // a lock call never returned: stop the history, the case is reported as such
		}
		fin := make(chan struct{})
		go func() { defer close(fin); keyOp(i) }()
		select {
		case <-fin:
		case <-time.After(5 * time.Second):
			stuckOps.Add(1)
			stuckMu.Lock()
			stuckWhat = fmt.Sprintf("history kind %d on a key of %d bytes", kinds[i], len(keyOf("k", i)))
			stuckMu.Unlock()
		}
	})
	// keys left in use on purpose
	held := r.Intn(6)
	var ids []string
	for i := 0; i < held; i++ {
		id, _ := l.Lock(context.Background(), keyOf("held", i), 30*time.Second)
		ids = append(ids, id)
	}
	waiterCtx, cancelWaiter := context.WithCancel(context.Background())
	waiterDone := make(chan struct{})
	if held > 0 {
		go func() { l.Lock(waiterCtx, keyOf("held", 0), 30*time.Second); close(waiterDone) }()
	} else {
		close(waiterDone)
	}
	// quiescence: all short TTLs have fired
	wait := 3 * time.Second
	if overBound.Load() >= 2 {
		wait = 150 * time.Millisecond // residue already seen twice in this run: do not wait it out every time
	}
	deadline := time.Now().Add(wait)
	for (lock.QueueCount(l) > held || lock.StateEntries(l) > 3*held) && time.Now().Before(deadline) {
		time.Sleep(2 * time.Millisecond)
	}
	time.Sleep(5 * time.Millisecond)
	qc := lock.QueueCount(l)
	entries := lock.StateEntries(l)
	if qc > held || entries > 3*held {
		overBound.Add(1)
	}
	var retained []string
	opNames := []string{"lock_unlock", "lock_ttl_expiry", "lock_cancelled_waiter_unlock", "handover_then_unlock", "relock",
		"lock_dead_ctx_free_key", "lock_dead_ctx_held_key", "unlock_never_locked_key", "duplicate_unlock", "late_unlock_after_ttl",
		"unlock_wrong_key", "ttl_zero_then_unlock", "dead_ctx_then_relock_then_duplicate_unlock", "ttl_and_cancel_then_late_unlocks"}
	for i := 0; i < nkeys && len(retained) < 8 && qc > held; i++ {
		for _, k := range []string{keyOf("k", i), keyOf("k", i) + "-other"} {
			if n, has := lock.QueueLen(l, k); has {
				retained = append(retained, fmt.Sprintf("%.60s (len %d; history: %s; callers queued now: %d)", k, len(k), opNames[kinds[i]], n))
			}
		}
	}
	out := res{nkeys: nkeys, held: held, qc: qc, entries: entries, ops: ops, retained: retained}
	if measureHeap {
		runtime.GC()
		runtime.ReadMemStats(&m1)
		out.heapDelta = int64(m1.HeapAlloc) - int64(m0.HeapAlloc)
	}
	cancelWaiter()
	<-waiterDone
	for i, id := range ids {
		l.Unlock(keyOf("held", i), id)
	}
	runtime.KeepAlive(l)
	return out
}

func main() {
	a := common.ParseArgs()
	run := common.NewRun(a, "C28", "HV.Conc.BLock")
	run.Meta.Rule = "a history of lock/unlock/TTL-expiry/cancelled-waiter/hand-over/relock operations, Lock with a dead context on free and held keys, Unlock of never-locked keys, duplicate/late/wrong-key unlocks, TTL 0 over N distinct keys of one real lock, then H keys left locked (one with a waiter); observable = lock.QueueCount after quiescence, compared with the model bound (entries <= keys in use); non-trivial = N >= 2"
	rng := common.NewRng(a.Seed, "C28")
	ncases, maxKeys := 150, 1500
	if a.Tier == "thorough" {
		ncases, maxKeys = 600, 10000
	}
	for i := 0; i < ncases; i++ {
		nkeys := 1 + rng.Intn(maxKeys)
		if i < 20 {
			nkeys = 1 + i
		}
		if i == ncases-1 {
			nkeys = maxKeys
			if a.Tier != "thorough" {
				nkeys = 10000
			}
		}
		r := oneCase(rng.Fork(fmt.Sprintf("case%d", i)), nkeys, i == ncases-1)
		d := map[string]interface{}{"kind": "residue", "distinct_keys": r.nkeys, "keys_left_locked": r.held, "queue_objects_after_quiescence": r.qc, "entries_in_all_containers_of_the_lock_after_quiescence(reflection)": r.entries, "ops": r.ops, "keys_with_retained_queue_object(first 8)": r.retained}
		if i == ncases-1 {
			d["heap_delta_bytes(reported only)"] = r.heapDelta
			run.Meta.Extra["heap_delta_bytes_after_10000_keys"] = r.heapDelta
		}
		run.Add(common.App("KResidue", common.Nat(r.nkeys), common.Nat(r.held), common.Nat(r.qc), common.Nat(r.entries)), d, r.nkeys >= 2)
		if stuckOps.Load() > 0 {
			stuckMu.Lock()
			idx := run.Meta.Evaluations - 1
			run.Violate(idx, "released by unlock or TTL / no waiter left blocked", "lock_operation_did_not_return", "a Lock/Unlock history on one key did not return within 5 s: "+stuckWhat)
			stuckMu.Unlock()
			break
		}
		run.Hist(fmt.Sprintf("keys_1e%d", len(fmt.Sprint(r.nkeys))-1))
		for k, v := range r.ops {
			run.HistN("op_"+k, v)
		}
	}
	run.Meta.Traces = run.Meta.Evaluations
	run.Finish("check_all")
}
