// c28: lock bookkeeping does not grow without bound (lock.go) against Conc/BLock.v.
//
// A case is a history of lock / unlock / TTL expiry / cancelled waiters over N distinct keys of
// one real lock.New(), run by 16 goroutines, after which H keys are deliberately left locked
// (one of them with a waiter). After quiescence the number of per-key queue objects the lock
// still keeps (accessor lock.QueueCount) is compared with the model's bound: entries <= keys
// currently locked or waited on (C28_map_size_bounded). Heap growth is reported only.
package main

import (
	"context"
	"fmt"
	"runtime"
	"sync"
	"time"

	"github.com/hydraide/hydraide/app/core/hydra/lock"
	"verif/harness/common"
)

type res struct {
	nkeys, held, qc int
	ops             map[string]int
	heapDelta       int64
}

func oneCase(r *common.Rng, nkeys int, measureHeap bool) res {
	var m0, m1 runtime.MemStats
	if measureHeap {
		runtime.GC()
		runtime.ReadMemStats(&m0)
	}
	l := lock.New()
	ops := map[string]int{}
	var omu sync.Mutex
	kinds := make([]int, nkeys)
	for i := range kinds {
		kinds[i] = r.Intn(5)
	}
	common.Parallel(nkeys, 16, func(i int) {
		key := fmt.Sprintf("k%d", i)
		ctx := context.Background()
		name := ""
		switch kinds[i] {
		case 0: // lock, unlock
			id, _ := l.Lock(ctx, key, 5*time.Second)
			l.Unlock(key, id)
			name = "lock_unlock"
		case 1: // lock, let the TTL release it
			l.Lock(ctx, key, 3*time.Millisecond)
			name = "lock_ttl_expiry"
		case 2: // holder + a waiter whose context is cancelled, then unlock
			id, _ := l.Lock(ctx, key, 5*time.Second)
			c2, cancel := context.WithTimeout(ctx, 500*time.Microsecond)
			l.Lock(c2, key, 5*time.Second)
			cancel()
			l.Unlock(key, id)
			name = "lock_cancelled_waiter_unlock"
		case 3: // two lockers one after the other, second released by a stale+real unlock
			id, _ := l.Lock(ctx, key, 5*time.Second)
			done := make(chan string)
			go func() { id2, _ := l.Lock(ctx, key, 5*time.Second); done <- id2 }()
			time.Sleep(100 * time.Microsecond)
			l.Unlock(key, id)
			id2 := <-done
			l.Unlock(key, id)
			l.Unlock(key, id2)
			name = "handover_then_unlock"
		default: // lock, unlock, lock again, unlock (the key's entry is re-created)
			id, _ := l.Lock(ctx, key, 5*time.Second)
			l.Unlock(key, id)
			id, _ = l.Lock(ctx, key, 5*time.Second)
			l.Unlock(key, id)
			name = "relock"
		}
		omu.Lock()
		ops[name]++
		omu.Unlock()
	})
	// keys left in use on purpose
	held := r.Intn(6)
	var ids []string
	for i := 0; i < held; i++ {
		id, _ := l.Lock(context.Background(), fmt.Sprintf("held%d", i), 30*time.Second)
		ids = append(ids, id)
	}
	waiterCtx, cancelWaiter := context.WithCancel(context.Background())
	waiterDone := make(chan struct{})
	if held > 0 {
		go func() { l.Lock(waiterCtx, "held0", 30*time.Second); close(waiterDone) }()
	} else {
		close(waiterDone)
	}
	// quiescence: all short TTLs have fired
	deadline := time.Now().Add(3 * time.Second)
	for lock.QueueCount(l) > held && time.Now().Before(deadline) {
		time.Sleep(2 * time.Millisecond)
	}
	time.Sleep(5 * time.Millisecond)
	qc := lock.QueueCount(l)
	out := res{nkeys: nkeys, held: held, qc: qc, ops: ops}
	if measureHeap {
		runtime.GC()
		runtime.ReadMemStats(&m1)
		out.heapDelta = int64(m1.HeapAlloc) - int64(m0.HeapAlloc)
	}
	cancelWaiter()
	<-waiterDone
	for i, id := range ids {
		l.Unlock(fmt.Sprintf("held%d", i), id)
	}
	runtime.KeepAlive(l)
	return out
}

func main() {
	a := common.ParseArgs()
	run := common.NewRun(a, "C28", "HV.Conc.BLock")
	run.Meta.Rule = "a history of lock/unlock/TTL-expiry/cancelled-waiter/hand-over/relock operations over N distinct keys of one real lock, then H keys left locked (one with a waiter); observable = lock.QueueCount after quiescence, compared with the model bound (entries <= keys in use); non-trivial = N >= 2"
	rng := common.NewRng(a.Seed, "C28")
	ncases, maxKeys := 150, 1500
	if a.Tier == "thorough" {
		ncases, maxKeys = 600, 10000
	}
	for i := 0; i < ncases; i++ {
		nkeys := 1 + rng.Intn(maxKeys)
		if i < 20 {
			nkeys = 1 + i
		}
		if i == ncases-1 {
			nkeys = maxKeys
			if a.Tier != "thorough" {
				nkeys = 10000
			}
		}
		r := oneCase(rng.Fork(fmt.Sprintf("case%d", i)), nkeys, i == ncases-1)
		d := map[string]interface{}{"kind": "residue", "distinct_keys": r.nkeys, "keys_left_locked": r.held, "queue_objects_after_quiescence": r.qc, "ops": r.ops}
		if i == ncases-1 {
			d["heap_delta_bytes(reported only)"] = r.heapDelta
			run.Meta.Extra["heap_delta_bytes_after_10000_keys"] = r.heapDelta
		}
		run.Add(common.App("KResidue", common.Nat(r.nkeys), common.Nat(r.held), common.Nat(r.qc)), d, r.nkeys >= 2)
		run.Hist(fmt.Sprintf("keys_1e%d", len(fmt.Sprint(r.nkeys))-1))
		for k, v := range r.ops {
			run.HistN("op_"+k, v)
		}
	}
	run.Meta.Traces = run.Meta.Evaluations
	run.Finish("check_all")
}
