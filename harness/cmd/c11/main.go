// c11: correspondence check for the claim paths (ShiftExpiredTreasures, ShiftMatchingTreasures,
// PatchExpiredTreasures over the expiry index) against Swamp/Claims.v.
//
// Every case runs claimers and writers against a fresh swamp of the real in-process engine.
//
//	witness   the witnesses of the pinned commit's defects (empty candidate list; stale candidate
//	          set and delete-during-PatchExpired forced through the hook points; cross-index
//	          double claim, a recorded open finding)
//	seq       random sequential histories
//	forced    schedules forced through the hook points gateway.*.predicateBuilt,
//	          swamp.*.selected, swamp.patchExpired.beforeReindex: all interleavings of the macro
//	          steps of one claimer + one writer / two claimers from a menu, random ones of
//	          <= 3 claimers + <= 2 writers on <= 5 records
//	stress    8 free-running claimers + writers; only the property oracle applies
//
// For every case Swamp/Claims.v first evaluates the oracle on the implementation's observations
// alone (same key to two claimers; claimed record not satisfying the criteria at claim time,
// from the returned clones / the state read while every other thread was parked; deleted key
// returned, patched or present at the end; more than HowMany / not in index order), then
// replays the forced schedule in the model and compares per-RPC results and the final records.
package main

import (
	"fmt"
	"os"
	"runtime/pprof"
	"sort"
	"sync"
	"time"

	hydrapb "github.com/hydraide/hydraide/sdk/go/hydraidego/v3/hydraidepbgo"
	"verif/harness/common"
	lib "verif/harness/lib/c11"
)

var statusName = []string{"pending", "done", "claimed", "hold"}

func stNum(s string) int {
	for i, n := range statusName {
		if n == s {
			return i
		}
	}
	return 9
}

type rec struct {
	K   int   `json:"k"`
	St  int   `json:"st"`
	Grp int   `json:"grp"`
	E   int64 `json:"e"` // 0 none, <0 expired, >0 future (seconds)
}

// plan: kind "none" (no filter), "true" (bypass, matches all), "ne" (status != A, bypass),
// "ge" (grp >= B, bypass), "eq" (status == A indexed, residual true), "eqge" (status == A
// indexed, residual grp >= B)
type plan struct {
	Kind string `json:"kind"`
	A    int    `json:"a"`
	B    int    `json:"b"`
	Lo   *int64 `json:"lo,omitempty"` // FromTime of the request (ShiftMatching only): expiry >= Lo
}
type prog struct {
	Kind     string `json:"kind"` // SE (ShiftExpired) SM (ShiftMatching) PE W*
	Hm       int    `json:"hm,omitempty"`
	Od       bool   `json:"od,omitempty"`
	P        plan   `json:"p"`
	Nst      int    `json:"nst,omitempty"`
	Nexp     *int64 `json:"nexp,omitempty"`      // nil untouched
	Desc     bool   `json:"desc,omitempty"`      // ShiftMatching: OrderType DESC (newest expiry first)
	CondFail bool   `json:"cond_fail,omitempty"` // PatchExpired: a Condition no record meets (all rejected)
	K        int    `json:"k,omitempty"`
	St       int    `json:"st,omitempty"`
	Grp      int    `json:"grp,omitempty"`
	E        int64  `json:"e,omitempty"`
}
type mstep struct {
	Kind string `json:"kind"` // Built Selected Patched Finish
	T    int    `json:"t"`
}
type kc struct{ K, C int }
type oev struct {
	Kind    string `json:"kind"` // Claim Patched Put Del
	T       int    `json:"t,omitempty"`
	Inplace bool   `json:"inplace,omitempty"`
	Hm      int    `json:"hm,omitempty"`
	Od      bool   `json:"od,omitempty"`
	P       *plan  `json:"p,omitempty"`
	Snap    []rec  `json:"snap,omitempty"`
	Pre     []rec  `json:"pre,omitempty"`
	Res     []kc   `json:"res,omitempty"`
	K       int    `json:"k,omitempty"`
}
type obs struct {
	Recs   []rec    `json:"recs"`
	Progs  []prog   `json:"progs"`
	Replay bool     `json:"replay"`
	Sched  []mstep  `json:"sched"`
	Events []oev    `json:"events"`
	Res    [][]kc   `json:"res"`
	Final  []rec    `json:"final"`
	Kind   string   `json:"case_kind"`
	Notes  []string `json:"notes,omitempty"`
}

func key(k int) string { return fmt.Sprintf("k%03d", k) }
func keyNum(s string) int {
	var n int
	if _, err := fmt.Sscanf(s, "k%d", &n); err != nil {
		return 999
	}
	return n
}

var t0 = time.Now()
var pastBase = t0.Add(-2 * time.Hour)
var futBase = t0.Add(48 * time.Hour)
var nowCut = t0.Add(-1 * time.Hour) // every "expired" time is before, every future one after

func expOf(e int64) time.Time {
	switch {
	case e == 0:
		return time.Time{}
	case e < 0:
		return pastBase.Add(time.Duration(e) * time.Second)
	default:
		return futBase.Add(time.Duration(e) * time.Second)
	}
}
func eOf(unixNano int64) int64 {
	if unixNano == 0 {
		return 0
	}
	t := time.Unix(0, unixNano)
	if t.Before(nowCut) {
		return int64(t.Sub(pastBase) / time.Second)
	}
	return int64(t.Sub(futBase) / time.Second)
}

func filtersOf(p plan) *hydrapb.FilterGroup {
	switch p.Kind {
	case "ne":
		return lib.And(lib.FNe("status", statusName[p.A]))
	case "ge":
		return lib.And(lib.FIntGe("grp", int64(p.B)))
	case "eq":
		return lib.And(lib.FEq("status", statusName[p.A]))
	case "eqge":
		return lib.And(lib.FEq("status", statusName[p.A]), lib.FIntGe("grp", int64(p.B)))
	}
	return nil
}

func seed(e *lib.Env, sw string, rs []rec) {
	e.SeedAnchor(sw)
	for _, r := range rs {
		e.Seed(sw, key(r.K), statusName[r.St], int64(r.Grp), expOf(r.E))
	}
	// Build the "status" field bucket now, sequentially. Its lazy first build
	// (GetOrBuildBucket -> beaconKey.CloneUnorderedTreasures) takes treasure guards while holding
	// the key-beacon lock and deadlocks against a concurrent deleteHandler (guard, then beacon
	// lock) - a liveness defect outside C11 (reported to the coordinator); the claim paths under
	// test never build a bucket again once it exists.
	_, _, _ = e.PatchExpired(sw, lib.PEReq{HowMany: 1, NewStatus: "warm", Filters: lib.And(lib.FEq("status", "no-such-status"))})
}

type result struct {
	res    []kc
	clones []rec // Shift: returned records as they were at the selection step
	ok     bool  // writer: Delete answered DELETED
}

func runProg(e *lib.Env, sw string, p prog) result {
	switch p.Kind {
	case "SE":
		rs, err := e.ShiftExpired(sw, int32(p.Hm))
		return shiftResult(rs, err)
	case "SM":
		q := lib.ShiftReq{Index: hydrapb.IndexType_EXPIRATION_TIME, HowMany: int32(p.Hm), Filters: filtersOf(p.P), Desc: p.Desc}
		if p.Od {
			q.To = &nowCut
		}
		if p.P.Lo != nil {
			from := expOf(*p.P.Lo)
			q.From = &from
		}
		rs, _, err := e.ShiftMatching(sw, q)
		return shiftResult(rs, err)
	case "PE":
		q := lib.PEReq{HowMany: int32(p.Hm), NewStatus: statusName[p.Nst], Filters: filtersOf(p.P), CondFail: p.CondFail}
		if p.Nexp != nil {
			t := expOf(*p.Nexp)
			q.NewExp = &t
		}
		rs, _, err := e.PatchExpired(sw, q)
		if err != nil {
			return result{res: []kc{{-1, -1}}}
		}
		out := result{}
		for _, x := range rs {
			out.res = append(out.res, kc{keyNum(x.Key), int(x.Status)})
		}
		return out
	case "WDel":
		return result{ok: e.DeleteOK(sw, key(p.K))}
	case "WPut":
		e.Seed(sw, key(p.K), statusName[p.St], int64(p.Grp), expOf(p.E))
	case "WPatch":
		_, _ = e.PatchStatus(sw, []lib.PatchItem{{Key: key(p.K), Status: statusName[p.St]}}, nil, false, nil)
	case "WExp":
		e.SetExpiry(sw, key(p.K), expOf(p.E))
	}
	return result{}
}

func shiftResult(rs []lib.Rec, err error) result {
	if err != nil {
		return result{res: []kc{{-1, -1}}}
	}
	out := result{}
	for _, x := range rs {
		out.res = append(out.res, kc{keyNum(x.Key), 0})
		out.clones = append(out.clones, rec{K: keyNum(x.Key), St: stNum(x.Status), Grp: int(x.Grp), E: eOf(x.Exp)})
	}
	return out
}

// dump reads the swamp; a read that does not return within 3 s (the swamp is deadlocked) yields
// nil and marks the swamp as stuck, so that the case is reported as a hang instead of stalling
// the whole run.
var stuck sync.Map

func dump(e *lib.Env, sw string) []rec {
	if _, bad := stuck.Load(sw); bad {
		return nil
	}
	ch := make(chan []rec, 1)
	go func() { ch <- dumpRaw(e, sw) }()
	select {
	case r := <-ch:
		return r
	case <-time.After(3 * time.Second):
		stuck.Store(sw, true)
		return nil
	}
}

func dumpRaw(e *lib.Env, sw string) []rec {
	out := []rec{}
	for _, r := range e.Dump(sw) {
		out = append(out, rec{K: keyNum(r.Key), St: stNum(r.Status), Grp: int(r.Grp), E: eOf(r.Exp)})
	}
	sort.Slice(out, func(i, j int) bool { return out[i].K < out[j].K })
	return out
}
func find(rs []rec, k int) (rec, bool) {
	for _, r := range rs {
		if r.K == k {
			return r, true
		}
	}
	return rec{K: k, St: 9}, false
}

func isClaimer(p prog) bool { return p.Kind == "SE" || p.Kind == "SM" || p.Kind == "PE" }

// ---- Coq printing -------------------------------------------------------------------------
func cRec(r rec) string {
	return fmt.Sprintf("{| rk := %s; rst := %s; rgrp := %s; rexp := %s; rg := 0%%nat; ralive := true |}",
		common.N(uint64(r.K)), common.N(uint64(r.St)), common.N(uint64(r.Grp)), common.Z(r.E))
}
func cPlan(p plan) string {
	if p.Lo != nil {
		lo := "(exp_ge " + common.Z(*p.Lo) + ")"
		q := p
		q.Lo = nil
		switch p.Kind {
		case "true", "none":
			return "(PBypass " + lo + ")"
		case "ne":
			return "(PBypass (andp " + lo + " (st_ne " + common.N(uint64(p.A)) + ")))"
		case "ge":
			return "(PBypass (andp " + lo + " (grp_ge " + common.N(uint64(p.B)) + ")))"
		case "eq":
			return "(PIndexed (st_eq " + common.N(uint64(p.A)) + ") " + lo + ")"
		case "eqge":
			return "(PIndexed (st_eq " + common.N(uint64(p.A)) + ") (andp " + lo + " (grp_ge " + common.N(uint64(p.B)) + ")))"
		}
	}
	switch p.Kind {
	case "true":
		return "(PBypass ftrue)"
	case "ne":
		return "(PBypass (st_ne " + common.N(uint64(p.A)) + "))"
	case "ge":
		return "(PBypass (grp_ge " + common.N(uint64(p.B)) + "))"
	case "eq":
		return "(PIndexed (st_eq " + common.N(uint64(p.A)) + ") ftrue)"
	case "eqge":
		return "(PIndexed (st_eq " + common.N(uint64(p.A)) + ") (grp_ge " + common.N(uint64(p.B)) + "))"
	}
	panic("plan kind " + p.Kind)
}
func cOptPlan(p plan) string {
	if p.Kind == "none" && p.Lo == nil {
		return "None"
	}
	return common.Some(cPlan(p))
}
func planOfShift(p prog) plan {
	if p.Kind == "SE" {
		return plan{Kind: "true"}
	}
	if p.P.Kind == "none" {
		return plan{Kind: "true", Lo: p.P.Lo}
	}
	return p.P
}
func cProg(p prog) string {
	switch p.Kind {
	case "SE":
		return common.App("CShift", common.Nat(p.Hm), "true", "(PBypass ftrue)")
	case "SM":
		return common.App("CShift", common.Nat(p.Hm), common.Bool(p.Od), cPlan(planOfShift(p)))
	case "PE":
		ne := "None"
		if p.Nexp != nil {
			ne = common.Some(common.Z(*p.Nexp))
		}
		return common.App("CPatch", common.Nat(p.Hm), cOptPlan(p.P), common.N(uint64(p.Nst)), ne)
	case "WDel":
		return "(W (WDel " + common.N(uint64(p.K)) + "))"
	case "WPut":
		return "(W (WPut " + common.N(uint64(p.K)) + " " + common.N(uint64(p.St)) + " " + common.N(uint64(p.Grp)) + " " + common.Z(p.E) + "))"
	case "WPatch":
		return "(W (WPatch " + common.N(uint64(p.K)) + " " + common.N(uint64(p.St)) + "))"
	case "WExp":
		return "(W (WExp " + common.N(uint64(p.K)) + " " + common.Z(p.E) + "))"
	}
	panic("prog kind")
}
func cKcs(r []kc) string {
	x := []string{}
	for _, p := range r {
		x = append(x, common.Pair(common.N(uint64(p.K)), common.N(uint64(p.C))))
	}
	return common.List(x)
}
func cEv(o oev) string {
	switch o.Kind {
	case "Claim":
		sn := []string{}
		for _, r := range o.Snap {
			sn = append(sn, cRec(r))
		}
		pl := "None"
		if o.P != nil {
			pl = cOptPlan(*o.P)
		}
		pr := []string{}
		for _, r := range o.Pre {
			pr = append(pr, cRec(r))
		}
		return common.App("OClaim", common.Nat(o.T), common.Bool(o.Inplace), common.Nat(o.Hm), common.Bool(o.Od), pl, common.List(sn), common.List(pr))
	case "Patched":
		return common.App("OPatched", common.Nat(o.T), cKcs(o.Res))
	case "Reidx":
		ks := []string{}
		for _, x := range o.Res {
			ks = append(ks, common.N(uint64(x.K)))
		}
		return common.App("OReidx", common.Nat(o.T), common.List(ks))
	case "Put":
		return common.App("OPut", common.N(uint64(o.K)))
	case "Del":
		return common.App("ODel", common.N(uint64(o.K)))
	}
	panic("ev kind")
}
func cCase(o obs) string {
	rs, ps, ms, evs, res, fin := []string{}, []string{}, []string{}, []string{}, []string{}, []string{}
	for _, r := range o.Recs {
		rs = append(rs, cRec(r))
	}
	for _, p := range o.Progs {
		ps = append(ps, cProg(p))
	}
	for _, m := range o.Sched {
		ms = append(ms, common.App("M"+m.Kind, common.Nat(m.T)))
	}
	for _, e := range o.Events {
		evs = append(evs, cEv(e))
	}
	for _, r := range o.Res {
		res = append(res, cKcs(r))
	}
	for _, r := range o.Final {
		fin = append(fin, common.Pair(common.N(uint64(r.K)), common.N(uint64(r.St))))
	}
	return fmt.Sprintf("{| c_recs := %s; c_progs := %s; c_replay := %s; c_sched := %s; c_events := %s; c_res := %s; c_final := %s |}",
		common.List(rs), common.List(ps), common.Bool(o.Replay), common.List(ms), common.List(evs), common.List(res), common.List(fin))
}

// ---- forced execution ------------------------------------------------------------------------
func siteOf(p prog, kind string) string {
	switch kind {
	case "Built":
		if p.Kind == "PE" {
			return "gateway.patchExpired.predicateBuilt"
		}
		return "gateway.shiftMatching.predicateBuilt"
	case "Selected":
		switch p.Kind {
		case "PE":
			return "swamp.patchExpired.selected"
		case "SE":
			return "swamp.shiftExpired.selected"
		}
		return "swamp.shiftMatching.selected"
	case "Patched":
		return "swamp.patchExpired.beforeReindex"
	}
	return ""
}

const stepTimeout = 2 * time.Second

type stepRec struct {
	m   mstep
	pre []rec
}

func runForced(e *lib.Env, rs []rec, ps []prog, sched []mstep, kind string) obs {
	return runDriven(e, rs, ps, kind, func(d *driver) {
		for _, m := range sched {
			d.exec(m)
		}
	})
}

// driver: what a schedule driver can do on the running case
type driver struct {
	ctl    *lib.Ctl
	exec   func(m mstep)            // execute a macro step and record it
	record func(m mstep, pre []rec) // record a macro step executed by hand
	dump   func() []rec
	ps     []prog
	note   func(string)
}

func runDriven(e *lib.Env, rs []rec, ps []prog, kind string, drive func(d *driver)) obs {
	sw := e.FreshSwamp(false)
	seed(e, sw, rs)
	o := obs{Recs: rs, Progs: ps, Replay: true, Kind: kind, Res: make([][]kc, len(ps))}
	results := make([]result, len(ps))
	ctl := lib.NewCtl()
	defer ctl.Close()
	var mu sync.Mutex
	for t := range ps {
		t := t
		ctl.Add(t, func() {
			r := runProg(e, sw, ps[t])
			mu.Lock()
			results[t] = r
			mu.Unlock()
		})
	}
	finished := map[int]bool{}
	steps := []stepRec{}
	exec := func(m mstep) {
		if finished[m.T] || len(o.Notes) > 0 { // after a hang nothing more can be learnt from the case
			return
		}
		pre := dump(e, sw)
		var got string
		if m.Kind == "Finish" {
			got = ctl.Advance(m.T, stepTimeout)
		} else {
			got = ctl.Advance(m.T, stepTimeout, siteOf(ps[m.T], m.Kind))
		}
		switch got {
		case "blocked":
			o.Notes = append(o.Notes, fmt.Sprintf("thread %d did not reach %s", m.T, m.Kind))
		case "done":
			finished[m.T] = true
			steps = append(steps, stepRec{mstep{"Finish", m.T}, pre})
		default:
			steps = append(steps, stepRec{m, pre})
		}
	}
	drive(&driver{ctl: ctl, exec: exec, ps: ps, dump: func() []rec { return dump(e, sw) },
		record: func(m mstep, pre []rec) {
			if m.Kind == "Finish" {
				finished[m.T] = true
			}
			steps = append(steps, stepRec{m, pre})
		},
		note: func(n string) { o.Notes = append(o.Notes, n) }})
	for t := range ps {
		exec(mstep{"Finish", t})
	}
	drainT := 5 * time.Second
	if len(o.Notes) > 0 {
		drainT = 300 * time.Millisecond
	}
	if !ctl.Drain(len(ps), drainT) {
		o.Notes = append(o.Notes, "hang: a thread did not finish")
	}
	o.Final = dump(e, sw)
	if _, bad := stuck.Load(sw); bad {
		o.Notes = append(o.Notes, "hang: the swamp no longer answers reads (deadlock)")
		o.Replay = false
	}
	mu.Lock()
	defer mu.Unlock()
	selected := map[int]bool{}
	patched := map[int]bool{}
	for _, st := range steps {
		o.Sched = append(o.Sched, st.m)
		t := st.m.T
		p := ps[t]
		if isClaimer(p) {
			selects := !selected[t] && (st.m.Kind == "Selected" || st.m.Kind == "Patched" || st.m.Kind == "Finish")
			if selects {
				selected[t] = true
				ev := oev{Kind: "Claim", T: t, Inplace: p.Kind == "PE", Hm: p.Hm, Od: p.Od || p.Kind != "SM"}
				pl := p.P
				if p.Kind == "SE" {
					pl = plan{Kind: "none"}
				}
				ev.P = &pl
				if p.Kind == "PE" {
					for _, x := range results[t].res {
						r, _ := find(st.pre, x.K)
						ev.Snap = append(ev.Snap, r)
					}
				} else {
					ev.Snap = results[t].clones
					for _, x := range ev.Snap {
						r, _ := find(st.pre, x.K)
						ev.Pre = append(ev.Pre, r)
					}
				}
				if p.Desc {
					// a DESC walk must be in DESCENDING expiry order: hand the oracle the mirror image
					for i, j := 0, len(ev.Snap)-1; i < j; i, j = i+1, j-1 {
						ev.Snap[i], ev.Snap[j] = ev.Snap[j], ev.Snap[i]
						ev.Pre[i], ev.Pre[j] = ev.Pre[j], ev.Pre[i]
					}
				}
				o.Events = append(o.Events, ev)
			}
			wasPatched := patched[t]
			if p.Kind == "PE" && !patched[t] && (st.m.Kind == "Patched" || st.m.Kind == "Finish") {
				patched[t] = true
				o.Events = append(o.Events, oev{Kind: "Patched", T: t, Res: results[t].res})
			}
			if p.Kind == "PE" && wasPatched && st.m.Kind == "Finish" {
				// the final re-index ran in this step, separately from the patches
				o.Events = append(o.Events, oev{Kind: "Reidx", T: t, Res: results[t].res})
			}
		} else {
			switch p.Kind {
			case "WDel":
				if results[t].ok {
					o.Events = append(o.Events, oev{Kind: "Del", K: p.K})
				}
			case "WPut":
				o.Events = append(o.Events, oev{Kind: "Put", K: p.K})
			case "WExp":
				if _, ok := find(st.pre, p.K); ok {
					o.Events = append(o.Events, oev{Kind: "Put", K: p.K})
				}
			}
		}
	}
	for _, p := range ps {
		if p.Desc || p.CondFail {
			o.Replay = false // not modelled (the model walks one ascending index): oracle only
		}
	}
	for t := range ps {
		o.Res[t] = results[t].res
		if o.Res[t] == nil {
			o.Res[t] = []kc{}
		}
	}
	return o
}

// firstMatch: the first record of the index walk (ascending expiry) the claimer's criteria accept
func firstMatch(rs []rec, p prog) (int, bool) {
	best, found := rec{}, false
	for _, r := range rs {
		if r.E == 0 || (p.Od && r.E > 0) || (p.P.Lo != nil && r.E < *p.P.Lo) {
			continue
		}
		ok := true
		switch p.P.Kind {
		case "eq":
			ok = r.St == p.P.A
		case "eqge":
			ok = r.St == p.P.A && r.Grp >= p.P.B
		case "ne":
			ok = r.St != p.P.A
		case "ge":
			ok = r.Grp >= p.P.B
		}
		if ok && (!found || r.E < best.E) {
			best, found = r, true
		}
	}
	return best.K, found
}

// runMid parks a ShiftMatching claimer INSIDE its selection step (the predicate has just accepted
// the first record; the engine holds the index lock and that record's guard) and releases a
// writer on that very record: the write must wait until the selection is over, so the claimer's
// copy is the record as selected. Thread 0 = claimer, 1 = writer, the rest run afterwards.
func runMid(e *lib.Env, rs []rec, ps []prog, kind string) obs {
	return runDriven(e, rs, ps, kind, func(d *driver) {
		pre0 := d.dump()
		if got := d.ctl.Advance(0, stepTimeout, "gateway.shiftMatching.predicateTrue"); got != "gateway.shiftMatching.predicateTrue" {
			if got == "done" {
				d.record(mstep{"Finish", 0}, pre0)
			}
			return
		}
		w := d.ctl.Advance(1, 200*time.Millisecond)
		if w == "blocked" {
			w = d.ctl.Wait(1, 500*time.Millisecond) // confirm (loaded machine)
		}
		sel := d.ctl.Advance(0, stepTimeout, "swamp.shiftMatching.selected")
		selKind := "Selected"
		if sel == "done" {
			selKind = "Finish"
		}
		if w == "blocked" {
			// the writer ran after the selection
			d.record(mstep{selKind, 0}, pre0)
			pre1 := d.dump()
			if d.ctl.Wait(1, stepTimeout) != "done" {
				d.note("the writer released during a selection step never finished")
				return
			}
			d.record(mstep{"Finish", 1}, pre1)
		} else {
			// the writer got through while the selection was in progress
			d.record(mstep{"Finish", 1}, pre0)
			d.record(mstep{selKind, 0}, d.dump())
		}
	})
}

// runQueue: a writer is parked INSIDE the per-key guard of record X (hook swamp.patchFields.guarded)
// while a PatchExpired that has already selected X and a Delete of X both queue on that guard, in
// either order; the guard is FIFO. Thread 0 = PatchExpired, 1 = guard-holding writer, 2 = Delete.
func runQueue(e *lib.Env, rs []rec, ps []prog, deleteFirst bool, kind string) obs {
	return runDriven(e, rs, ps, kind, func(d *driver) {
		pre0 := d.dump()
		if got := d.ctl.Advance(0, stepTimeout, "swamp.patchExpired.selected"); got != "swamp.patchExpired.selected" {
			if got == "done" {
				d.record(mstep{"Finish", 0}, pre0)
			}
			return
		}
		d.record(mstep{"Selected", 0}, pre0)
		if got := d.ctl.Advance(1, stepTimeout, "swamp.patchFields.guarded"); got != "swamp.patchFields.guarded" {
			if got == "done" {
				d.record(mstep{"Finish", 1}, pre0)
			}
			return
		}
		first, second := 2, 0
		if !deleteFirst {
			first, second = 0, 2
		}
		a := d.ctl.Advance(first, 250*time.Millisecond)
		b := d.ctl.Advance(second, 250*time.Millisecond)
		// the writer leaves the guard; the queue drains in arrival order
		if d.ctl.Advance(1, stepTimeout) != "done" {
			d.note("the guard-holding writer never finished")
			return
		}
		d.record(mstep{"Finish", 1}, pre0)
		if a != "done" {
			a = d.ctl.Wait(first, stepTimeout)
		}
		if b != "done" {
			b = d.ctl.Wait(second, stepTimeout)
		}
		if a != "done" || b != "done" {
			d.note("a thread queued on the record guard never finished")
			return
		}
		d.record(mstep{"Finish", first}, pre0)
		d.record(mstep{"Finish", second}, pre0)
	})
}

func runSeq(e *lib.Env, rs []rec, ps []prog, kind string) obs {
	sched := []mstep{}
	for t := range ps {
		sched = append(sched, mstep{"Finish", t})
	}
	return runForced(e, rs, ps, sched, kind)
}

// ---- stress ------------------------------------------------------------------------------------
func runStress(e *lib.Env, r *common.Rng, nrec int) obs {
	sw := e.FreshSwamp(r.Chance(30))
	rs := []rec{}
	for k := 1; k <= nrec; k++ {
		ee := int64(-1000 + k)
		if r.Chance(25) {
			ee = int64(k)
		}
		rs = append(rs, rec{K: k, St: r.Intn(2), Grp: r.Intn(4), E: ee})
	}
	seed(e, sw, rs)
	o := obs{Recs: rs, Replay: false, Kind: "stress"}
	// Two flavours, because the engine itself can deadlock when a Delete (deleteHandler: treasure
	// guard, then index-beacon lock) runs beside a Shift (index-beacon lock, then treasure guards) -
	// a liveness defect outside C11, reported to the coordinator:
	//   A: 12 ShiftExpired / ShiftMatching claimers, no writers
	//   B: 8 PatchExpired claimers (their selection takes no guards) + deleting writers
	flavourB := r.Chance(40)
	ps := []prog{}
	for i := 0; i < 8; i++ {
		c := r.Intn(3) // flavour A: shift claimers only (a PatchExpired save re-adds the record to the
		// index under its guard and then sorts under the beacon lock: same deadlock against a Shift)
		if flavourB {
			c = 3
		}
		switch c {
		case 0:
			ps = append(ps, prog{Kind: "SE", Hm: 1 + r.Intn(4), Od: true, P: plan{Kind: "none"}})
		case 1:
			ps = append(ps, prog{Kind: "SM", Hm: 1 + r.Intn(4), Od: true, P: plan{Kind: "eqge", A: r.Intn(2), B: r.Intn(3)}})
		case 2:
			ps = append(ps, prog{Kind: "SM", Hm: 1 + r.Intn(4), Od: true, P: plan{Kind: "ne", A: r.Intn(2)}})
		default:
			f := int64(100 + i)
			ps = append(ps, prog{Kind: "PE", Hm: 1 + r.Intn(4), P: plan{Kind: []string{"none", "eq", "eqge"}[r.Intn(3)], A: r.Intn(2), B: r.Intn(3)}, Nst: 2, Nexp: &f})
		}
	}
	for i := 0; i < 4; i++ {
		switch {
		case !flavourB:
			// any save of a record with an expiry (even of a fresh one: Add, then Sort, under the
			// creator's guard) can deadlock against a Shift: flavour A has no writers; 4 more claimers
			ps = append(ps, prog{Kind: "SE", Hm: 1 + r.Intn(3), Od: true, P: plan{Kind: "none"}})
		default:
			// (no body patches here either: a patch re-inserts the record into the index, which
			// legitimately lets a second claimer take a record whose in-place claim is in flight, and
			// a free run cannot order that re-insertion against the claims)
			ps = append(ps, prog{Kind: "WDel", K: 1 + r.Intn(nrec)})
		}
	}
	o.Progs = ps
	results := make([]result, len(ps))
	var wg sync.WaitGroup
	start := make(chan struct{})
	for i := range ps {
		i := i
		wg.Add(1)
		go func() { defer wg.Done(); <-start; results[i] = runProg(e, sw, ps[i]) }()
	}
	close(start)
	fin := make(chan struct{})
	go func() { wg.Wait(); close(fin) }()
	select {
	case <-fin:
	case <-time.After(10 * time.Second):
		o.Notes = append(o.Notes, "hang: free-running claimers/writers did not finish within 10 s")
		if os.Getenv("C11_DUMP") != "" {
			pprof.Lookup("goroutine").WriteTo(os.Stderr, 1)
		}
		o.Res = [][]kc{}
		return o
	}
	o.Final = dump(e, sw)
	for t, p := range ps {
		if p.Kind == "SE" || p.Kind == "SM" {
			pl := p.P
			o.Events = append(o.Events, oev{Kind: "Claim", T: t, Hm: p.Hm, Od: true, P: &pl, Snap: results[t].clones})
		}
		if p.Kind == "PE" {
			// no view of the pre-state in a free run: only key-level clauses for in-place claims
			ev := oev{Kind: "Claim", T: t, Inplace: true, Hm: p.Hm, Od: false, P: &plan{Kind: "none"}}
			for i, x := range results[t].res {
				if x.C == 0 {
					ev.Snap = append(ev.Snap, rec{K: x.K, E: int64(i)})
				}
			}
			o.Events = append(o.Events, ev)
		}
	}
	for t, p := range ps {
		if p.Kind == "WDel" && results[t].ok {
			o.Events = append(o.Events, oev{Kind: "Del", K: p.K})
		}
	}
	o.Res = [][]kc{}
	return o
}

// ---- generators -----------------------------------------------------------------------------
func genPlan(r *common.Rng, allowNone bool) plan {
	kinds := []string{"eq", "eqge", "eq", "eqge", "ne", "ge", "true"}
	if allowNone {
		kinds = append(kinds, "none", "none")
	}
	return plan{Kind: kinds[r.Intn(len(kinds))], A: r.Intn(3), B: r.Intn(3)}
}

var fresh int64 = 1000

func freshE(r *common.Rng, due bool) int64 {
	fresh++
	if due {
		return -fresh
	}
	return fresh
}
func genClaimer(r *common.Rng) prog {
	switch r.Intn(5) {
	case 0:
		return prog{Kind: "SE", Hm: 1 + r.Intn(3), Od: true, P: plan{Kind: "none"}}
	case 1, 2:
		pl := genPlan(r, false)
		if r.Chance(35) {
			lo := int64(-100 + r.Intn(14))
			pl.Lo = &lo
		}
		return prog{Kind: "SM", Hm: 1 + r.Intn(3), Od: r.Chance(75), P: pl}
	default:
		p := prog{Kind: "PE", Hm: 1 + r.Intn(3), P: genPlan(r, true), Nst: 2}
		if p.P.Kind == "true" {
			p.P.Kind = "none"
		}
		switch r.Intn(3) {
		case 0:
			f := freshE(r, false)
			p.Nexp = &f
		case 1:
			z := int64(0)
			p.Nexp = &z
		}
		return p
	}
}
func genWriter(r *common.Rng, nkeys int) prog {
	k := 1 + r.Intn(nkeys)
	switch r.Intn(5) {
	case 0, 1:
		return prog{Kind: "WDel", K: k}
	case 2:
		return prog{Kind: "WPatch", K: k, St: r.Intn(3)}
	case 3:
		return prog{Kind: "WPut", K: 1 + r.Intn(nkeys+1), St: r.Intn(3), Grp: r.Intn(4), E: freshE(r, r.Chance(70))}
	default:
		if r.Chance(30) {
			return prog{Kind: "WExp", K: k, E: 0}
		}
		return prog{Kind: "WExp", K: k, E: freshE(r, r.Chance(60))}
	}
}
func genRecs(r *common.Rng, n int) []rec {
	rs := []rec{}
	for k := 1; k <= n; k++ {
		e := int64(-100 + k*3 - r.Intn(3))
		if r.Chance(20) {
			e = int64(k)
		} else if r.Chance(10) {
			e = 0
		}
		rs = append(rs, rec{K: k, St: r.Intn(3), Grp: r.Intn(4), E: e})
	}
	return rs
}
func plans(p prog, t int) [][]mstep {
	f := mstep{"Finish", t}
	switch p.Kind {
	case "SM":
		return [][]mstep{{{"Built", t}, {"Selected", t}, f}, {{"Built", t}, f}, {{"Selected", t}, f}}
	case "SE":
		return [][]mstep{{{"Selected", t}, f}, {f}}
	case "PE":
		return [][]mstep{{{"Built", t}, {"Selected", t}, {"Patched", t}, f}, {{"Selected", t}, f}, {{"Built", t}, {"Patched", t}, f}}
	}
	return [][]mstep{{f}}
}
func interleavings(seqs [][]mstep) [][]mstep {
	total := 0
	for _, s := range seqs {
		total += len(s)
	}
	if total == 0 {
		return [][]mstep{{}}
	}
	out := [][]mstep{}
	for i, s := range seqs {
		if len(s) == 0 {
			continue
		}
		rest := make([][]mstep, len(seqs))
		copy(rest, seqs)
		rest[i] = s[1:]
		for _, tail := range interleavings(rest) {
			out = append(out, append([]mstep{s[0]}, tail...))
		}
	}
	return out
}
func randomInterleaving(r *common.Rng, seqs [][]mstep) []mstep {
	sched := []mstep{}
	for {
		alive := []int{}
		for t, s := range seqs {
			if len(s) > 0 {
				alive = append(alive, t)
			}
		}
		if len(alive) == 0 {
			return sched
		}
		t := alive[r.Intn(len(alive))]
		sched = append(sched, seqs[t][0])
		seqs[t] = seqs[t][1:]
	}
}

func isNontrivial(o obs) bool {
	// rule: some claimer received at least one record, and the case has either a writer, a
	// second claimer, or a criteria that rejected at least one indexed record
	got, claimers, writers := 0, 0, 0
	for _, ev := range o.Events {
		if ev.Kind == "Claim" {
			got += len(ev.Snap)
		}
	}
	for _, p := range o.Progs {
		if isClaimer(p) {
			claimers++
		} else {
			writers++
		}
	}
	return got > 0 && (claimers > 1 || writers > 0 || got < len(o.Recs))
}

// crossIndexWitness: ShiftMatching on the creation-time index parked after its selection,
// ShiftExpired on the expiry index claims the same record. Go-side check (the model covers one
// index); reports the open finding when both callers receive the key.
func crossIndexWitness(e *lib.Env) (bool, string) {
	sw := e.FreshSwamp(false)
	e.SeedAnchor(sw)
	e.Seed(sw, "k001", "pending", 0, expOf(-5))
	ctl := lib.NewCtl()
	defer ctl.Close()
	var a, b []lib.Rec
	ctl.Add(0, func() {
		a, _, _ = e.ShiftMatching(sw, lib.ShiftReq{Index: hydrapb.IndexType_CREATION_TIME, HowMany: 1, Filters: lib.And(lib.FEq("status", "pending"))})
	})
	ctl.Add(1, func() { b, _ = e.ShiftExpired(sw, 1) })
	ctl.Advance(0, stepTimeout, "swamp.shiftMatching.selected")
	ctl.Advance(1, stepTimeout)
	ctl.Drain(2, 5*time.Second)
	both := len(a) == 1 && len(b) == 1 && a[0].Key == b[0].Key
	return both, fmt.Sprintf("ShiftMatching(CREATION_TIME) got %v, ShiftExpired got %v", lib.Keys(a), lib.Keys(b))
}

func main() {
	args := common.ParseArgs()
	run := common.NewRun(args, "C11", "HV.Swamp.Claims")
	run.Meta.Rule = "a case is non-trivial when a claimer received a record and there was a writer, a second claimer, or a record the criteria rejected"
	rng := common.NewRng(args.Seed, "C11")
	thorough := args.Tier == "thorough"
	// global watchdog: an engine deadlock (possible on a defective tree) must not stall the check
	limit := 5 * time.Minute
	if thorough {
		limit = 50 * time.Minute
	}
	time.AfterFunc(limit, func() {
		fmt.Fprintln(os.Stderr, "C11 harness: run exceeded", limit, "- the engine hangs (deadlock); goroutine dump follows")
		pprof.Lookup("goroutine").WriteTo(os.Stderr, 1)
		os.Exit(3)
	})
	e := lib.NewEnv("c11")
	defer e.Close()

	add := func(o obs) int {
		idx := run.Add(cCase(o), o, isNontrivial(o))
		run.Hist("kind:" + o.Kind)
		for _, n := range o.Notes {
			run.Violate(idx, "termination", "hang", n)
		}
		for _, r := range o.Res {
			for _, x := range r {
				if x.K == -1 {
					run.Violate(idx, "rpc", "rpc_error", "an RPC returned a gRPC error")
				}
				if x.C == 2 {
					run.Hist("result:KEY_NOT_FOUND")
				}
			}
		}
		for _, ev := range o.Events {
			if ev.Kind == "Claim" {
				run.HistN("claimed_records", len(ev.Snap))
			}
		}
		return idx
	}
	i64 := func(v int64) *int64 { return &v }

	// 1. witnesses
	five := []rec{{1, 0, 0, -5}, {2, 0, 0, -4}, {3, 0, 0, -3}, {4, 0, 0, -2}, {5, 0, 0, -1}}
	add(runSeq(e, five, []prog{{Kind: "SM", Hm: 10, P: plan{Kind: "eq", A: 1}}}, "witness-empty-candidates"))
	add(runForced(e, []rec{{1, 1, 0, -5}, {2, 0, 0, -4}},
		[]prog{{Kind: "SM", Hm: 10, P: plan{Kind: "eq", A: 1}}, {Kind: "WPatch", K: 1, St: 0}},
		[]mstep{{"Built", 0}, {"Finish", 1}, {"Finish", 0}}, "witness-stale-candidates"))
	add(runForced(e, []rec{{1, 1, 0, -5}, {2, 0, 0, -4}},
		[]prog{{Kind: "PE", Hm: 10, P: plan{Kind: "eq", A: 1}, Nst: 2, Nexp: i64(50)}, {Kind: "WPatch", K: 1, St: 0}},
		[]mstep{{"Built", 0}, {"Finish", 1}, {"Finish", 0}}, "witness-stale-candidates-pe"))
	add(runForced(e, []rec{{1, 0, 0, -5}, {2, 0, 0, 7}},
		[]prog{{Kind: "PE", Hm: 1, P: plan{Kind: "none"}, Nst: 2}, {Kind: "WDel", K: 1}, {Kind: "SE", Hm: 5, Od: true, P: plan{Kind: "none"}}},
		[]mstep{{"Selected", 0}, {"Finish", 1}, {"Finish", 0}, {"Finish", 2}}, "witness-delete-during-patch"))
	add(runForced(e, []rec{{1, 0, 0, -5}, {2, 0, 0, 7}},
		[]prog{{Kind: "PE", Hm: 1, P: plan{Kind: "none"}, Nst: 2}, {Kind: "WDel", K: 1}, {Kind: "SE", Hm: 5, Od: true, P: plan{Kind: "none"}}},
		[]mstep{{"Patched", 0}, {"Finish", 1}, {"Finish", 0}, {"Finish", 2}}, "witness-delete-before-reindex"))
	// open finding: the final re-index of a PatchExpired puts back a record another claimer took since
	add(runForced(e, []rec{{2, 2, 0, -9}, {3, 0, 0, 7}},
		[]prog{{Kind: "PE", Hm: 1, P: plan{Kind: "none"}, Nst: 2, Nexp: i64(50)}, {Kind: "SM", Hm: 1, P: plan{Kind: "eq", A: 2}}, {Kind: "SM", Hm: 1, P: plan{Kind: "eq", A: 2}}},
		[]mstep{{"Patched", 0}, {"Selected", 1}, {"Finish", 0}, {"Selected", 2}, {"Finish", 1}, {"Finish", 2}}, "witness-reindex-after-claim"))
	if both, detail := crossIndexWitness(e); both {
		idx := add(runSeq(e, five[:1], []prog{{Kind: "SE", Hm: 1, Od: true, P: plan{Kind: "none"}}}, "cross-index-anchor"))
		run.Violate(idx, "no record to two claimers", "same_key_to_claimers_on_different_indexes", detail)
	}
	run.Hist("kind:cross-index-witness")

	// 1b. writes released inside a selection step (all four writer kinds on the record the
	// predicate has just accepted), then a second claimer
	nmid := 40
	if thorough {
		nmid = 400
	}
	for i := 0; i < nmid; i++ {
		n := 3 + rng.Intn(3)
		rs := genRecs(rng, n)
		c := prog{Kind: "SM", Hm: 1 + rng.Intn(3), Od: rng.Chance(60), P: genPlan(rng, false)}
		if c.P.Kind == "true" {
			c.P = plan{Kind: "ge", B: 0}
		}
		k, ok := firstMatch(rs, c)
		if !ok {
			continue
		}
		var w prog
		switch rng.Intn(5) {
		case 0, 1:
			w = prog{Kind: "WPatch", K: k, St: (c.P.A + 1 + rng.Intn(2)) % 3}
		case 2:
			w = prog{Kind: "WPut", K: k, St: rng.Intn(3), Grp: rng.Intn(4), E: freshE(rng, rng.Chance(50))}
		case 3:
			w = prog{Kind: "WExp", K: k, E: []int64{0, freshE(rng, false)}[rng.Intn(2)]}
		default:
			w = prog{Kind: "WDel", K: k}
		}
		ps := []prog{c, w}
		if rng.Chance(50) {
			ps = append(ps, genClaimer(rng))
		}
		add(runMid(e, rs, ps, "forced-mid"))
	}

	// 1c. key reuse during an in-place claim: PatchExpired has selected k; k is deleted and stored
	// again (a new record under the same key) before the claim finishes; later claimers must see
	// only the new record
	nre := 36
	if thorough {
		nre = 300
	}
	for i := 0; i < nre; i++ {
		n := 2 + rng.Intn(3)
		rs := genRecs(rng, n)
		pe := prog{Kind: "PE", Hm: 1 + rng.Intn(2), P: plan{Kind: "none"}, Nst: 2}
		switch rng.Intn(3) {
		case 0:
			f := freshE(rng, false)
			pe.Nexp = &f
		case 1:
			z := int64(0)
			pe.Nexp = &z
		}
		k, ok := firstMatch(rs, prog{Od: true, P: plan{Kind: "none"}})
		if !ok {
			continue
		}
		ne := int64(0)
		if rng.Chance(60) {
			ne = freshE(rng, rng.Chance(50))
		}
		ps := []prog{pe, {Kind: "WDel", K: k}, {Kind: "WPut", K: k, St: rng.Intn(2), Grp: 5 + rng.Intn(3), E: ne}, genClaimer(rng), {Kind: "SE", Hm: 5, Od: true, P: plan{Kind: "none"}}}
		park := []string{"Selected", "Patched", "Built"}[rng.Intn(3)]
		sched := []mstep{{park, 0}, {"Finish", 1}, {"Finish", 2}}
		if rng.Chance(30) {
			sched = append(sched, mstep{"Patched", 0})
		}
		sched = append(sched, mstep{"Finish", 0}, mstep{"Finish", 3}, mstep{"Finish", 4})
		add(runForced(e, rs, ps, sched, "forced-recreate"))
	}
	// the same with a shift claimer parked between its selection and its deleteHandler calls
	for i := 0; i < nre/3; i++ {
		rs := genRecs(rng, 2+rng.Intn(3))
		c := prog{Kind: []string{"SE", "SM"}[rng.Intn(2)], Hm: 1 + rng.Intn(2), Od: true, P: plan{Kind: "none"}}
		k, ok := firstMatch(rs, prog{Od: true, P: plan{Kind: "none"}})
		if !ok {
			continue
		}
		ps := []prog{c, {Kind: "WDel", K: k}, {Kind: "WPut", K: k, St: rng.Intn(2), Grp: 6, E: freshE(rng, rng.Chance(50))}, genClaimer(rng)}
		add(runForced(e, rs, ps, []mstep{{"Selected", 0}, {"Finish", 1}, {"Finish", 2}, {"Finish", 0}, {"Finish", 3}}, "forced-recreate-shift"))
	}

	// 1d. the yield between predicate construction and the engine call: a writer moves the first
	// record the claimer would take out of the criteria in every possible way (indexed leg,
	// residual leg, time window upper / lower bound, expiry removed, overwritten, deleted)
	nyield := 60
	if thorough {
		nyield = 600
	}
	for i := 0; i < nyield; i++ {
		n := 3 + rng.Intn(3)
		rs := genRecs(rng, n)
		var c prog
		if rng.Chance(65) {
			c = prog{Kind: "SM", Hm: 1 + rng.Intn(3), Od: rng.Chance(70), P: plan{Kind: []string{"eq", "eqge", "eqge", "ne", "ge"}[rng.Intn(5)], A: rng.Intn(3), B: 1 + rng.Intn(2)}}
			if rng.Chance(50) {
				lo := int64(-100 + rng.Intn(10))
				c.P.Lo = &lo
			}
		} else {
			c = prog{Kind: "PE", Hm: 1 + rng.Intn(3), P: plan{Kind: []string{"eq", "eqge"}[rng.Intn(2)], A: rng.Intn(3), B: 1 + rng.Intn(2)}, Nst: 2}
			f := freshE(rng, false)
			c.Nexp = &f
		}
		crit := c
		if c.Kind == "PE" {
			crit.Od = true
		}
		k, ok := firstMatch(rs, crit)
		if !ok {
			continue
		}
		old, _ := find(rs, k)
		var w prog
		switch rng.Intn(7) {
		case 0:
			w = prog{Kind: "WPatch", K: k, St: (old.St + 1 + rng.Intn(2)) % 3} // leaves the indexed leg
		case 1:
			w = prog{Kind: "WPut", K: k, St: old.St, Grp: 0, E: old.E} // leaves the residual leg (grp)
		case 2:
			w = prog{Kind: "WExp", K: k, E: freshE(rng, false)} // lease extension: leaves the window above
		case 3:
			w = prog{Kind: "WExp", K: k, E: -5000 - int64(i)} // leaves the window below (FromTime)
		case 4:
			w = prog{Kind: "WExp", K: k, E: 0}
		case 5:
			w = prog{Kind: "WPut", K: k, St: (old.St + 1) % 3, Grp: rng.Intn(4), E: freshE(rng, rng.Chance(50))}
		default:
			w = prog{Kind: "WDel", K: k}
		}
		ps := []prog{c, w, genClaimer(rng)}
		sched := []mstep{{"Built", 0}, {"Finish", 1}}
		if rng.Chance(30) {
			sched = append(sched, mstep{"Selected", 0}, mstep{"Finish", 2})
		}
		add(runForced(e, rs, ps, sched, "forced-yield"))
	}

	// 1e. guard queue: a PatchExpired that has selected X and a Delete of X both wait for X's guard
	// (held by a third writer), in either arrival order
	nq := 24
	if thorough {
		nq = 200
	}
	for i := 0; i < nq; i++ {
		n := 2 + rng.Intn(3)
		rs := genRecs(rng, n)
		k, ok := firstMatch(rs, prog{Od: true, P: plan{Kind: "none"}})
		if !ok {
			continue
		}
		pe := prog{Kind: "PE", Hm: 1 + rng.Intn(2), P: plan{Kind: "none"}, Nst: 2}
		if rng.Bool() {
			f := freshE(rng, false)
			pe.Nexp = &f
		}
		var w prog
		switch rng.Intn(3) {
		case 0:
			w = prog{Kind: "WPatch", K: k, St: rng.Intn(2)}
		case 1:
			w = prog{Kind: "WExp", K: k, E: -6000 - int64(i)}
		default:
			w = prog{Kind: "WPut", K: k, St: rng.Intn(2), Grp: 7, E: -7000 - int64(i)}
		}
		ps := []prog{pe, w, {Kind: "WDel", K: k}, {Kind: "SE", Hm: 5, Od: true, P: plan{Kind: "none"}}}
		add(runQueue(e, rs, ps, i%2 == 0, "forced-queue"))
	}

	// 1f. the DESC side of the expiry index: claims in descending order after PatchExpired batches
	// (some with every selected record rejected by a Condition, so that nothing is re-saved),
	// writers and ascending claims have reshuffled the index
	ndesc := 40
	if thorough {
		ndesc = 400
	}
	for i := 0; i < ndesc; i++ {
		n := 4 + rng.Intn(3)
		rs := []rec{}
		for k := 1; k <= n; k++ {
			e := int64(-200 + 7*k + rng.Intn(5))
			if rng.Chance(15) {
				e = int64(k)
			}
			rs = append(rs, rec{K: k, St: rng.Intn(3), Grp: rng.Intn(4), E: e})
		}
		ps := []prog{}
		if rng.Chance(40) {
			ps = append(ps, genWriter(rng, n))
		}
		for j := 0; j < 1+rng.Intn(2); j++ {
			pe := prog{Kind: "PE", Hm: 2 + rng.Intn(n), P: plan{Kind: []string{"none", "none", "eq", "ne"}[rng.Intn(4)], A: rng.Intn(3)}, Nst: 2, CondFail: rng.Chance(60)}
			if !pe.CondFail && rng.Bool() {
				f := freshE(rng, false)
				pe.Nexp = &f
			}
			if pe.P.Kind == "ne" {
				pe.P.Kind = "none"
			}
			ps = append(ps, pe)
		}
		ps = append(ps, prog{Kind: "SM", Hm: 2 + rng.Intn(4), Od: rng.Chance(70), Desc: true, P: plan{Kind: []string{"none", "none", "ne", "ge"}[rng.Intn(4)], A: rng.Intn(3), B: rng.Intn(2)}})
		if rng.Bool() {
			ps = append(ps, prog{Kind: "SM", Hm: 5, Desc: rng.Bool(), P: plan{Kind: "none"}})
		}
		add(runSeq(e, rs, ps, "desc"))
	}

	// 2. sequential histories
	nseq := 170
	if thorough {
		nseq = 2500
	}
	for i := 0; i < nseq; i++ {
		n := 3 + rng.Intn(4)
		rs := genRecs(rng, n)
		ps := []prog{}
		for k := 0; k < 2+rng.Intn(4); k++ {
			if rng.Chance(60) {
				ps = append(ps, genClaimer(rng))
			} else {
				ps = append(ps, genWriter(rng, n))
			}
		}
		add(runSeq(e, rs, ps, "seq"))
	}

	// 3. forced schedules: menu pairs exhaustively, then random larger ones
	base := []rec{{1, 1, 2, -9}, {2, 1, 0, -8}, {3, 0, 1, -7}, {4, 1, 1, 6}}
	claimers := []prog{
		{Kind: "SM", Hm: 2, Od: true, P: plan{Kind: "eqge", A: 1, B: 1}},
		{Kind: "SM", Hm: 5, P: plan{Kind: "eq", A: 0}},
		{Kind: "SE", Hm: 2, Od: true, P: plan{Kind: "none"}},
		{Kind: "PE", Hm: 2, P: plan{Kind: "eq", A: 1}, Nst: 2, Nexp: i64(40)},
		{Kind: "PE", Hm: 3, P: plan{Kind: "none"}, Nst: 2},
	}
	writers := []prog{
		{Kind: "WPatch", K: 1, St: 0}, {Kind: "WDel", K: 1}, {Kind: "WDel", K: 2},
		{Kind: "WPut", K: 1, St: 1, Grp: 3, E: -20}, {Kind: "WExp", K: 2, E: 0}, {Kind: "WPut", K: 7, St: 1, Grp: 2, E: -30},
	}
	keep := 100
	if !thorough {
		keep = 55
	}
	for _, c := range claimers {
		for _, w := range writers {
			for _, pc := range plans(c, 0) {
				for _, sched := range interleavings([][]mstep{pc, {{"Finish", 1}}}) {
					if rng.Chance(keep) {
						add(runForced(e, base, []prog{c, w}, sched, "forced-cw"))
					}
				}
			}
		}
	}
	for i, c0 := range claimers {
		for j := i; j < len(claimers); j++ {
			c1 := claimers[j]
			for _, p0 := range plans(c0, 0) {
				for _, p1 := range plans(c1, 1) {
					for _, sched := range interleavings([][]mstep{p0, p1}) {
						if rng.Chance(keep / 8) {
							add(runForced(e, base, []prog{c0, c1}, sched, "forced-cc"))
						}
					}
				}
			}
		}
	}
	n3 := 85
	if thorough {
		n3 = 1500
	}
	for i := 0; i < n3; i++ {
		n := 3 + rng.Intn(3)
		rs := genRecs(rng, n)
		ps := []prog{}
		for k := 0; k < 1+rng.Intn(3); k++ {
			ps = append(ps, genClaimer(rng))
		}
		for k := 0; k < rng.Intn(3); k++ {
			ps = append(ps, genWriter(rng, n))
		}
		seqs := [][]mstep{}
		for t, p := range ps {
			pl := plans(p, t)
			seqs = append(seqs, pl[rng.Intn(len(pl))])
		}
		add(runForced(e, rs, ps, randomInterleaving(rng, seqs), "forced-rand"))
	}

	// 4. stress: 8 claimers + writers, free-running
	nstress := 40
	if thorough {
		nstress = 500
	}
	for i := 0; i < nstress; i++ {
		add(runStress(e, rng, 24+rng.Intn(16)))
	}
	run.Meta.Traces = run.Meta.Evaluations
	run.Finish("check_all")
	// no engine shutdown: after a reported hang the stuck RPCs would block StopHydra forever
	os.RemoveAll(e.Root)
	os.Exit(0)
}
