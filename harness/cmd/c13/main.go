// c13: correspondence check for the structural msgpack patch (msgpackpatch) against
// Patch/{Msgpack,Path,Ops,Cond,DocSpec}.v.
//
// Every case is (body, ops, optional condition) given to the real
// msgpackpatch.ApplyWithCondition; the observation is the error class (errors.Is against the
// package's sentinels) and, on success, the output bytes.  Patch/Check.v replays the faithful
// model on the same input (exact output bytes / error class, NaN payloads canonicalised) and
// evaluates the property oracles on the observation alone (well-formed output, NaN unordered,
// agreement with the documented semantics of Patch/DocSpec.v).
package main

import (
	"encoding/binary"
	"encoding/hex"
	"errors"
	"fmt"
	"math"
	"strconv"
	"strings"

	"github.com/hydraide/hydraide/app/core/hydra/swamp/treasure/msgpackpatch"
	"verif/harness/common"
)

// ---- document generator (hand-rolled encoder: every header width, every leaf code) ---------

type node struct {
	kind  int // 0 leaf, 1 map, 2 array
	raw   []byte
	keys  []string
	kids  []*node
	hdr   int // 0 minimal, 1 = 16-bit header, 2 = 32-bit header (non-minimal allowed)
	khdr  []int
	class int // leaf: 0 other, 1 int, 2 uint, 3 float, 4 str, 5 bin, 6 bool, 7 nil, 8 ext
}

func be(n uint64, w int) []byte {
	b := make([]byte, w)
	for i := w - 1; i >= 0; i-- {
		b[i] = byte(n)
		n >>= 8
	}
	return b
}

func encStr(s string, hdr int) []byte {
	n := len(s)
	switch {
	case hdr == 0 && n < 32:
		return append([]byte{0xa0 | byte(n)}, s...)
	case hdr <= 1 && n < 256:
		return append([]byte{0xd9, byte(n)}, s...)
	case hdr <= 2 && n < 65536:
		return append(append([]byte{0xda}, be(uint64(n), 2)...), s...)
	}
	return append(append([]byte{0xdb}, be(uint64(n), 4)...), s...)
}

func contHeader(isMap bool, n int, hdr int) []byte {
	fix, c16, c32 := byte(0x90), byte(0xdc), byte(0xdd)
	if isMap {
		fix, c16, c32 = 0x80, 0xde, 0xdf
	}
	switch {
	case hdr == 0 && n < 16:
		return []byte{fix | byte(n)}
	case hdr <= 1 && n < 65536:
		return append([]byte{c16}, be(uint64(n), 2)...)
	}
	return append([]byte{c32}, be(uint64(n), 4)...)
}

func (n *node) enc() []byte {
	switch n.kind {
	case 0:
		return n.raw
	case 1:
		out := contHeader(true, len(n.kids), n.hdr)
		for i, k := range n.kids {
			out = append(out, encStr(n.keys[i], n.khdr[i])...)
			out = append(out, k.enc()...)
		}
		return out
	}
	out := contHeader(false, len(n.kids), n.hdr)
	for _, k := range n.kids {
		out = append(out, k.enc()...)
	}
	return out
}

var keyPool = []string{"a", "b", "c", "n", "cnt", "tags", "m", "x1", "Name", "f", "t", "k_long_key_of_more_than_thirty_two_bytes_x"}
var strPool = []string{"", "a", "ab", "b", "alice", "worker-A", "zz", "a string that is longer than thirty-one bytes!"}

var specialF64 = []uint64{0x7ff8000000000000, 0xfff8000000000001, 0x7ff0000000000000, 0xfff0000000000000, 0, 0x8000000000000000,
	0x3ff0000000000000, 0xbff0000000000000, 0x0000000000000001, 0x7fefffffffffffff, 0x7ff0000000000001, 0x3fb999999999999a}
var specialF32 = []uint32{0x7fc00000, 0xffc00001, 0x7f800000, 0xff800000, 0, 0x80000000, 0x3f800000, 0xbf800000, 1, 0x7f7fffff, 0x7f800001, 0x3dcccccd}

// genLeaf returns a random well-formed scalar and its class.
func genLeaf(r *common.Rng) ([]byte, int) {
	switch r.Intn(24) {
	case 0:
		return []byte{0xc0}, 7
	case 1:
		return []byte{0xc2 + byte(r.Intn(2))}, 6
	case 2:
		return []byte{byte(r.Intn(128))}, 2
	case 3:
		return []byte{0xe0 + byte(r.Intn(32))}, 1
	case 4:
		return []byte{0xcc, edgeByte(r)}, 2
	case 5:
		return append([]byte{0xcd}, edgeBytes(r, 2)...), 2
	case 6:
		return append([]byte{0xce}, edgeBytes(r, 4)...), 2
	case 7:
		return append([]byte{0xcf}, edgeBytes(r, 8)...), 2
	case 8:
		return []byte{0xd0, edgeByte(r)}, 1
	case 9:
		return append([]byte{0xd1}, edgeBytes(r, 2)...), 1
	case 10:
		return append([]byte{0xd2}, edgeBytes(r, 4)...), 1
	case 11:
		return append([]byte{0xd3}, edgeBytes(r, 8)...), 1
	case 12:
		if r.Chance(50) {
			return append([]byte{0xca}, be(uint64(specialF32[r.Intn(len(specialF32))]), 4)...), 3
		}
		return append([]byte{0xca}, be(uint64(math.Float32bits(float32(r.Intn(2000)-1000)/8)), 4)...), 3
	case 13, 14:
		if r.Chance(50) {
			return append([]byte{0xcb}, be(specialF64[r.Intn(len(specialF64))], 8)...), 3
		}
		if r.Chance(20) {
			return append([]byte{0xcb}, be(r.U64(), 8)...), 3
		}
		return append([]byte{0xcb}, be(math.Float64bits(float64(r.Intn(2000)-1000)/8), 8)...), 3
	case 15, 16, 17:
		return encStr(strPool[r.Intn(len(strPool))], r.Intn(10)/7), 4
	case 18:
		return encStr(strPool[r.Intn(len(strPool))], 2+r.Intn(2)), 4
	case 19:
		p := r.Bytes(r.Intn(5))
		switch r.Intn(3) {
		case 0:
			return append([]byte{0xc4, byte(len(p))}, p...), 5
		case 1:
			return append(append([]byte{0xc5}, be(uint64(len(p)), 2)...), p...), 5
		}
		return append(append([]byte{0xc6}, be(uint64(len(p)), 4)...), p...), 5
	case 20:
		// time extension (-1) with 4, 8 or 12 payload bytes, fixext or ext8
		switch r.Intn(4) {
		case 0:
			return append([]byte{0xd6, 0xff}, r.Bytes(4)...), 8
		case 1:
			return append([]byte{0xd7, 0xff}, r.Bytes(8)...), 8
		case 2:
			return append([]byte{0xc7, 12, 0xff}, r.Bytes(12)...), 8
		}
		return append([]byte{0xc7, 4, 0xff}, r.Bytes(4)...), 8
	case 21:
		// other extensions: fixext1/2/4/8/16, ext8/16/32, any type id
		id := byte(r.Intn(256))
		switch r.Intn(8) {
		case 0:
			return append([]byte{0xd4, id}, r.Bytes(1)...), 8
		case 1:
			return append([]byte{0xd5, id}, r.Bytes(2)...), 8
		case 2:
			return append([]byte{0xd6, id}, r.Bytes(4)...), 8
		case 3:
			return append([]byte{0xd7, id}, r.Bytes(8)...), 8
		case 4:
			return append([]byte{0xd8, id}, r.Bytes(16)...), 8
		case 5:
			p := r.Bytes(r.Intn(6))
			return append([]byte{0xc7, byte(len(p)), id}, p...), 8
		case 6:
			p := r.Bytes(r.Intn(6))
			return append(append([]byte{0xc8}, append(be(uint64(len(p)), 2), id)...), p...), 8
		}
		p := r.Bytes(r.Intn(6))
		return append(append([]byte{0xc9}, append(be(uint64(len(p)), 4), id)...), p...), 8
	case 22:
		return []byte{byte(r.Intn(4))}, 2
	}
	return []byte{0xd2, 0, 0, 0, byte(r.Intn(5))}, 1
}

func edgeByte(r *common.Rng) byte {
	e := []byte{0, 1, 2, 0x7f, 0x80, 0xfe, 0xff}
	if r.Chance(60) {
		return e[r.Intn(len(e))]
	}
	return byte(r.Intn(256))
}

func edgeBytes(r *common.Rng, w int) []byte {
	switch r.Intn(6) {
	case 0:
		return be(uint64(r.Intn(4)), w)
	case 1:
		return be(^uint64(0)-uint64(r.Intn(3)), w)
	case 2:
		b := be(0, w)
		b[0] = 0x80
		if r.Bool() {
			b[w-1] = byte(r.Intn(2))
		}
		return b
	case 3:
		b := be(^uint64(0), w)
		b[0] = 0x7f
		if r.Bool() {
			b[w-1] = 0xfe
		}
		return b
	}
	return r.Bytes(w)
}

func hdrChoice(r *common.Rng) int {
	x := r.Intn(20)
	if x < 16 {
		return 0
	}
	if x < 19 {
		return 1
	}
	return 2
}

func genNode(r *common.Rng, depth int) *node {
	x := r.Intn(10)
	if depth <= 0 || x < 6 {
		raw, cl := genLeaf(r)
		return &node{kind: 0, raw: raw, class: cl}
	}
	if x < 8 {
		return genMap(r, depth-1, r.Intn(4))
	}
	return genArr(r, depth-1)
}

func genMap(r *common.Rng, depth int, nf int) *node {
	m := &node{kind: 1, hdr: hdrChoice(r)}
	for i := 0; i < nf; i++ {
		k := keyPool[r.Intn(len(keyPool)-1)]
		if r.Chance(3) {
			k = keyPool[len(keyPool)-1]
		}
		if i > 0 && r.Chance(12) {
			k = m.keys[r.Intn(len(m.keys))] // a key this map already has
		}
		m.keys = append(m.keys, k)
		m.khdr = append(m.khdr, r.Intn(12)/10*(1+r.Intn(3)))
		m.kids = append(m.kids, genNode(r, depth))
	}
	return m
}

func genArr(r *common.Rng, depth int) *node {
	a := &node{kind: 2, hdr: hdrChoice(r)}
	n := r.Intn(5)
	if r.Chance(25) {
		n = 13 + r.Intn(5) // around the fixarray/array16 boundary
		depth = 0
	}
	homog := r.Chance(50)
	var first *node
	for i := 0; i < n; i++ {
		k := genNode(r, depth)
		if n > 8 {
			k = &node{kind: 0, raw: []byte{byte(r.Intn(6))}, class: 2}
		} else if homog && first != nil && first.kind == 0 && r.Chance(40) {
			k = first
		}
		if first == nil {
			first = k
		}
		a.kids = append(a.kids, k)
	}
	return a
}

func genBody(r *common.Rng) *node {
	nf := 1 + r.Intn(5)
	if r.Chance(8) {
		nf = 14 + r.Intn(4) // around the fixmap/map16 boundary
		m := &node{kind: 1, hdr: hdrChoice(r)}
		for i := 0; i < nf; i++ {
			m.keys = append(m.keys, "k"+strconv.Itoa(i))
			m.khdr = append(m.khdr, 0)
			m.kids = append(m.kids, &node{kind: 0, raw: []byte{byte(i)}, class: 2})
		}
		return m
	}
	for {
		m := genMap(r, 3, nf)
		if len(m.enc()) <= 220 {
			return m
		}
		nf = 1 + r.Intn(3)
	}
}

// ---- paths ----------------------------------------------------------------------------------

type located struct {
	path string
	n    *node
}

func collect(n *node, prefix string, out *[]located) {
	switch n.kind {
	case 1:
		for i, k := range n.kids {
			p := n.keys[i]
			if strings.ContainsAny(p, ".[]#") {
				continue
			}
			if prefix != "" {
				p = prefix + "." + p
			}
			*out = append(*out, located{p, k})
			collect(k, p, out)
		}
	case 2:
		for i, k := range n.kids {
			if prefix == "" {
				continue
			}
			var p string
			if i%2 == 0 {
				p = fmt.Sprintf("%s[%d]", prefix, i)
			} else {
				p = fmt.Sprintf("%s[%d]", prefix, i-len(n.kids))
			}
			*out = append(*out, located{p, k})
			collect(k, p, out)
		}
	}
}

var badPaths = []string{"", ".", "a..b", "#len", "a.#len", "a[*]", "a[", "a]", "a[1]x", "[0]", "a[99999999999999999999]", "a[-]", "a[+]",
	"a[1", "a[[1]", "a[1]]", "a.", ".a", "a[ 1]", "a[1_0]", "a[0x1]", "a[]b"}

func genPath(r *common.Rng, locs []located, kind int) (string, *node) {
	x := r.Intn(100)
	pick := func() located {
		if len(locs) == 0 {
			return located{"a", nil}
		}
		return locs[r.Intn(len(locs))]
	}
	switch {
	case x < 4:
		return badPaths[r.Intn(len(badPaths))], nil
	case x < 50:
		l := pick()
		if (kind == 3 || kind == 4) && r.Chance(75) {
			return l.path + "[]", l.n
		}
		return l.path, l.n
	case x < 62:
		// a missing field below an existing node (or at top level)
		l := pick()
		nk := []string{"new", "zz", "q"}[r.Intn(3)]
		p := nk
		if r.Chance(60) {
			p = l.path + "." + nk
		}
		if r.Chance(35) {
			p += ".sub"
		}
		if r.Chance(15) {
			p += ".deep"
		}
		if (kind == 3 || kind == 4) && r.Chance(70) {
			p += "[]"
		}
		return p, nil
	case x < 72:
		l := pick()
		idx := []string{"[0]", "[-1]", "[1]", "[5]", "[-6]", "[+0]", "[-0]", "[007]", "[16]", "[-17]", "[]", "[0][0]", "[][0]", "[0][]"}[r.Intn(14)]
		return l.path + idx, nil
	case x < 80:
		return keyPool[r.Intn(len(keyPool)-1)], nil
	case x < 86:
		p := keyPool[r.Intn(len(keyPool)-1)] + "." + keyPool[r.Intn(len(keyPool)-1)]
		if r.Chance(30) {
			p += "[]"
		}
		return p, nil
	case x < 92:
		if kind == 3 || kind == 4 {
			return "tags[]", nil
		}
		return "tags[" + strconv.Itoa(r.Intn(5)-2) + "]", nil
	}
	l := pick()
	return l.path + ".x[0].y", nil
}

// ---- values ---------------------------------------------------------------------------------

func numLike(r *common.Rng, target *node) []byte {
	// a delta / threshold of the same numeric class as the target leaf, varied width
	if target == nil || target.kind != 0 {
		v, _ := genLeaf(r)
		return v
	}
	switch target.class {
	case 1:
		switch r.Intn(5) {
		case 0:
			return []byte{0xe0 + byte(r.Intn(32))}
		case 1:
			return []byte{0xd0, edgeByte(r)}
		case 2:
			return append([]byte{0xd1}, edgeBytes(r, 2)...)
		case 3:
			return append([]byte{0xd2}, edgeBytes(r, 4)...)
		}
		return append([]byte{0xd3}, edgeBytes(r, 8)...)
	case 2:
		switch r.Intn(5) {
		case 0:
			return []byte{byte(r.Intn(128))}
		case 1:
			return []byte{0xcc, edgeByte(r)}
		case 2:
			return append([]byte{0xcd}, edgeBytes(r, 2)...)
		case 3:
			return append([]byte{0xce}, edgeBytes(r, 4)...)
		}
		return append([]byte{0xcf}, edgeBytes(r, 8)...)
	case 3:
		if r.Chance(50) {
			if r.Chance(50) {
				return append([]byte{0xca}, be(uint64(specialF32[r.Intn(len(specialF32))]), 4)...)
			}
			return append([]byte{0xca}, be(uint64(math.Float32bits(float32(r.Intn(64)-32)/4)), 4)...)
		}
		if r.Chance(50) {
			return append([]byte{0xcb}, be(specialF64[r.Intn(len(specialF64))], 8)...)
		}
		if r.Chance(30) {
			return append([]byte{0xcb}, be(r.U64(), 8)...)
		}
		return append([]byte{0xcb}, be(math.Float64bits(float64(r.Intn(64)-32)/4), 8)...)
	case 4:
		return encStr(strPool[r.Intn(len(strPool))], r.Intn(3))
	}
	if r.Chance(60) {
		return append([]byte(nil), target.raw...)
	}
	v, _ := genLeaf(r)
	return v
}

func malformed(r *common.Rng) []byte {
	switch r.Intn(9) {
	case 0:
		return []byte{0xc1}
	case 1:
		return []byte{0xa5, 'a', 'b'} // truncated fixstr
	case 2:
		return []byte{0xd9, 10, 'x'} // truncated str8
	case 3:
		return []byte{0x01, 0x02} // trailing byte
	case 4:
		return []byte{0xcd, 0x01} // truncated uint16
	case 5:
		return []byte{0x92, 0x01} // array short of one element
	case 6:
		return []byte{0x81, 0xa1, 'k'} // map with missing value
	case 7:
		return []byte{0xcb, 0x7f, 0xf8, 0, 0} // truncated float64
	}
	v, _ := genLeaf(r)
	return append(v, 0xc0) // valid value followed by a second one
}

func genContainerValue(r *common.Rng) []byte {
	if r.Chance(50) {
		return genArr(r, 1).enc()
	}
	m := genMap(r, 1, r.Intn(4))
	if r.Chance(8) {
		// a map with an integer key: fine for the decoder's Skip, not for Parse
		return []byte{0x81, 0x01, 0x02}
	}
	return m.enc()
}

func genValue(r *common.Rng, kind int, target *node) []byte {
	x := r.Intn(100)
	switch {
	case x < 5:
		return malformed(r)
	case x < 7:
		return nil
	}
	switch kind {
	case 2: // INC
		if x < 80 {
			return numLike(r, target)
		}
		v, _ := genLeaf(r)
		return v
	case 7: // MERGE
		if x < 55 {
			return genMergeValue(r, target)
		}
		if x < 85 {
			m := genMap(r, 1, r.Intn(4))
			if r.Chance(10) {
				return append(m.enc(), 0xc0)
			}
			return m.enc()
		}
		if x < 90 {
			return []byte{0x81, 0x05, 0x01}
		}
		v, _ := genLeaf(r)
		return v
	case 6: // REMOVE_VAL
		if target != nil && target.kind == 2 && len(target.kids) > 0 && x < 75 {
			return append([]byte(nil), target.kids[r.Intn(len(target.kids))].enc()...)
		}
		v, _ := genLeaf(r)
		return v
	}
	if x < 22 {
		return genContainerValue(r)
	}
	v, _ := genLeaf(r)
	return v
}

// ---- running --------------------------------------------------------------------------------

func errClass(err error) uint64 {
	switch {
	case err == nil:
		return 0
	case errors.Is(err, msgpackpatch.ErrInvalidMsgpack):
		return 1
	case errors.Is(err, msgpackpatch.ErrNonStringKey):
		return 2
	case errors.Is(err, msgpackpatch.ErrPathInvalid):
		return 3
	case errors.Is(err, msgpackpatch.ErrTypeMismatch):
		return 4
	case errors.Is(err, msgpackpatch.ErrInvalidOp):
		return 5
	case errors.Is(err, msgpackpatch.ErrConditionNotMet):
		return 6
	}
	return 99
}

type pcase struct {
	body []byte
	ops  []msgpackpatch.Op
	cond *msgpackpatch.Condition
	tag  string
}

type result struct {
	code uint64
	out  []byte
	msg  string
	side [][2]string // Go-side observations that break the property: (signature, detail)
}

func runCase(c pcase) (res result) {
	defer func() {
		if p := recover(); p != nil {
			res = result{code: 98, msg: fmt.Sprint("panic: ", p)}
		}
	}()
	clone := func() ([]byte, []msgpackpatch.Op, *msgpackpatch.Condition) {
		body := append([]byte(nil), c.body...)
		ops := make([]msgpackpatch.Op, len(c.ops))
		for i, o := range c.ops {
			ops[i] = msgpackpatch.Op{Kind: o.Kind, Path: o.Path, Value: append([]byte(nil), o.Value...)}
			if o.Value == nil {
				ops[i].Value = nil
			}
		}
		var cond *msgpackpatch.Condition
		if c.cond != nil {
			cc := *c.cond
			cc.Threshold = append([]byte(nil), c.cond.Threshold...)
			cond = &cc
		}
		return body, ops, cond
	}
	body, ops, cond := clone()
	out, err := msgpackpatch.ApplyWithCondition(body, ops, cond)
	res = result{code: errClass(err), out: out}
	if err != nil {
		res.msg = err.Error()
		res.out = nil
	}
	// the inputs are read-only for the patch
	if string(body) != string(c.body) {
		res.side = append(res.side, [2]string{"input_body_mutated", fmt.Sprintf("body after the call: %x", body)})
	}
	for i := range ops {
		if string(ops[i].Value) != string(c.ops[i].Value) || ops[i].Path != c.ops[i].Path {
			res.side = append(res.side, [2]string{"input_op_mutated", fmt.Sprintf("op %d after the call: %q %x", i, ops[i].Path, ops[i].Value)})
		}
	}
	// a second evaluation of the same patch gives the same answer (no state between calls)
	b2, o2, c2 := clone()
	out2, err2 := msgpackpatch.ApplyWithCondition(b2, o2, c2)
	if errClass(err2) != res.code || string(out2) != string(res.out) && err == nil {
		res.side = append(res.side, [2]string{"second_evaluation_differs", fmt.Sprintf("second call: %s %x", errNames[errClass(err2)], out2)})
	}
	// Apply is ApplyWithCondition without a condition
	if c.cond == nil {
		b3, o3, _ := clone()
		out3, err3 := msgpackpatch.Apply(b3, o3)
		if errClass(err3) != res.code || string(out3) != string(res.out) && err == nil {
			res.side = append(res.side, [2]string{"apply_differs_from_apply_with_condition", fmt.Sprintf("Apply: %s %x", errNames[errClass(err3)], out3)})
		}
	}
	return res
}

// bl prints a byte string as B 0x1<hex> (Patch/Check.v B): one numeral per string.
func bl(b []byte) string { return "(B 0x1" + hex.EncodeToString(b) + ")" }

func coqCase(c pcase, r result) string {
	ops := make([]string, len(c.ops))
	for i, o := range c.ops {
		ops[i] = common.Pair(common.Pair(strconv.Itoa(int(o.Kind)), bl([]byte(o.Path))), bl(o.Value))
	}
	cond := "None"
	if c.cond != nil {
		cond = common.Some(common.Pair(common.Pair(bl([]byte(c.cond.Path)), strconv.Itoa(int(c.cond.Op))), bl(c.cond.Threshold)))
	}
	return common.Pair(common.Pair(common.Pair(bl(c.body), common.List(ops)), cond),
		common.Pair(strconv.FormatUint(r.code, 10), bl(r.out)))
}

var opNames = []string{"SET", "DELETE", "INC", "APPEND", "PREPEND", "REMOVE_AT", "REMOVE_VAL", "MERGE"}
var errNames = map[uint64]string{0: "ok", 1: "invalid_msgpack", 2: "non_string_key", 3: "path_invalid", 4: "type_mismatch", 5: "invalid_op", 6: "condition_not_met", 98: "panic", 99: "other_error"}

func descr(c pcase, r result) map[string]interface{} {
	ops := make([]map[string]string, len(c.ops))
	for i, o := range c.ops {
		nm := fmt.Sprintf("kind%d", o.Kind)
		if int(o.Kind) < len(opNames) {
			nm = opNames[o.Kind]
		}
		ops[i] = map[string]string{"op": nm, "path": o.Path, "value_hex": hex.EncodeToString(o.Value)}
	}
	d := map[string]interface{}{"kind": c.tag, "body_hex": hex.EncodeToString(c.body), "ops": ops,
		"impl_result": errNames[r.code], "impl_out_hex": hex.EncodeToString(r.out), "impl_error": r.msg}
	if c.cond != nil {
		d["condition"] = map[string]interface{}{"path": c.cond.Path, "op": int(c.cond.Op), "threshold_hex": hex.EncodeToString(c.cond.Threshold)}
	}
	return d
}


// ---- thresholds / deltas numerically adjacent to a leaf ------------------------------------------
//
// nearValue returns a value of the same class as the scalar raw whose VALUE is equal or adjacent
// to raw's, but usually in another encoding: the same integer or the integer +-1 in every width
// that holds it; for floats the exact float64 image of a float32, its float64 neighbours (one
// float64 ulp away, half a float32 ulp away, a relative 1e-9 away), the float32 rounding of a
// float64, the float32 neighbours, and magnitudes outside the float32 range; for strings and
// binaries the same payload under another header, a prefix, an extension by 0x00 and a last
// byte +1.  Comparisons and INC must be exact on these: any narrowing, truncation or
// compare-by-difference in the code shows up here and nowhere else.
func encInt(r *common.Rng, v int64) []byte {
	var opts [][]byte
	if v >= -32 && v < 0 {
		opts = append(opts, []byte{byte(v)})
	}
	if v >= math.MinInt8 && v <= math.MaxInt8 {
		opts = append(opts, []byte{0xd0, byte(v)})
	}
	if v >= math.MinInt16 && v <= math.MaxInt16 {
		opts = append(opts, append([]byte{0xd1}, be(uint64(v), 2)...))
	}
	if v >= math.MinInt32 && v <= math.MaxInt32 {
		opts = append(opts, append([]byte{0xd2}, be(uint64(v), 4)...))
	}
	opts = append(opts, append([]byte{0xd3}, be(uint64(v), 8)...))
	return opts[r.Intn(len(opts))]
}

func encUint(r *common.Rng, v uint64) []byte {
	var opts [][]byte
	if v < 128 {
		opts = append(opts, []byte{byte(v)})
	}
	if v <= math.MaxUint8 {
		opts = append(opts, []byte{0xcc, byte(v)})
	}
	if v <= math.MaxUint16 {
		opts = append(opts, append([]byte{0xcd}, be(v, 2)...))
	}
	if v <= math.MaxUint32 {
		opts = append(opts, append([]byte{0xce}, be(v, 4)...))
	}
	opts = append(opts, append([]byte{0xcf}, be(v, 8)...))
	return opts[r.Intn(len(opts))]
}

func f64b(v float64) []byte { return append([]byte{0xcb}, be(math.Float64bits(v), 8)...) }
func f32b(v float32) []byte { return append([]byte{0xca}, be(uint64(math.Float32bits(v)), 4)...) }

func beU(b []byte) uint64 {
	var v uint64
	for _, x := range b {
		v = v<<8 | uint64(x)
	}
	return v
}

func nearValue(r *common.Rng, raw []byte) []byte {
	if len(raw) == 0 {
		return nil
	}
	c := raw[0]
	delta := int64(r.Intn(3) - 1)
	if r.Chance(30) {
		// congruent modulo a narrower width: equal after a truncating conversion, different in value
		delta = []int64{1 << 8, -(1 << 8), 1 << 16, -(1 << 16), 1 << 32, -(1 << 32), 1<<8 + 1, 1<<16 - 1}[r.Intn(8)]
	}
	addI := func(v int64) int64 { // v + delta without int64 overflow
		if (delta > 0 && v > math.MaxInt64-delta) || (delta < 0 && v < math.MinInt64-delta) {
			return v
		}
		return v + delta
	}
	addU := func(v uint64) uint64 {
		if delta >= 0 {
			if v > math.MaxUint64-uint64(delta) {
				return v
			}
			return v + uint64(delta)
		}
		if v < uint64(-delta) {
			return v
		}
		return v - uint64(-delta)
	}
	switch {
	case c >= 0xe0: // negative fixint
		return encInt(r, addI(int64(int8(c))))
	case c == 0xd0 && len(raw) == 2:
		return encInt(r, addI(int64(int8(raw[1]))))
	case c == 0xd1 && len(raw) == 3:
		return encInt(r, addI(int64(int16(beU(raw[1:])))))
	case c == 0xd2 && len(raw) == 5:
		return encInt(r, addI(int64(int32(beU(raw[1:])))))
	case c == 0xd3 && len(raw) == 9:
		return encInt(r, addI(int64(beU(raw[1:]))))
	case c <= 0x7f, c == 0xcc && len(raw) == 2, c == 0xcd && len(raw) == 3, c == 0xce && len(raw) == 5, c == 0xcf && len(raw) == 9:
		v := uint64(c)
		if c > 0x7f {
			v = beU(raw[1:])
		}
		return encUint(r, addU(v))
	case c == 0xca && len(raw) == 5:
		f32 := math.Float32frombits(uint32(beU(raw[1:])))
		f := float64(f32)
		up32 := math.Nextafter32(f32, float32(math.Inf(1)))
		dn32 := math.Nextafter32(f32, float32(math.Inf(-1)))
		switch r.Intn(12) {
		case 0:
			return f64b(f)
		case 1:
			return f64b(math.Nextafter(f, math.Inf(1)))
		case 2:
			return f64b(math.Nextafter(f, math.Inf(-1)))
		case 3:
			return f64b((f + float64(up32)) / 2)
		case 4:
			return f64b((f + float64(dn32)) / 2)
		case 5:
			return f64b(f * (1 + 1e-9))
		case 6:
			return f64b(f + (float64(up32)-f)/3)
		case 7:
			return f32b(up32)
		case 8:
			return f32b(dn32)
		case 9:
			return f64b([]float64{1e300, -1e300, 2 * math.MaxFloat32, -2 * math.MaxFloat32, 5e-324, 1e-60}[r.Intn(6)])
		case 10:
			return f64b(float64(up32))
		}
		return f64b(-f)
	case c == 0xcb && len(raw) == 9:
		f := math.Float64frombits(beU(raw[1:]))
		switch r.Intn(8) {
		case 0:
			return f32b(float32(f)) // the float32 rounding of the field
		case 1:
			return f64b(math.Nextafter(f, math.Inf(1)))
		case 2:
			return f64b(math.Nextafter(f, math.Inf(-1)))
		case 3:
			return f64b(float64(float32(f)))
		case 4:
			return f32b(math.Nextafter32(float32(f), float32(math.Inf(1))))
		case 5:
			return f32b(math.Nextafter32(float32(f), float32(math.Inf(-1))))
		case 6:
			return f64b(f)
		}
		return f64b(f * (1 - 1e-12))
	}
	// strings / binaries: same payload, neighbours in byte-wise order, other header widths
	var payload []byte
	isStr := false
	switch {
	case c >= 0xa0 && c <= 0xbf:
		payload, isStr = raw[1:], true
	case c == 0xd9 && len(raw) >= 2:
		payload, isStr = raw[2:], true
	case c == 0xda && len(raw) >= 3:
		payload, isStr = raw[3:], true
	case c == 0xdb && len(raw) >= 5:
		payload, isStr = raw[5:], true
	case c == 0xc4 && len(raw) >= 2:
		payload = raw[2:]
	case c == 0xc5 && len(raw) >= 3:
		payload = raw[3:]
	case c == 0xc6 && len(raw) >= 5:
		payload = raw[5:]
	default:
		return append([]byte(nil), raw...)
	}
	p := append([]byte(nil), payload...)
	switch r.Intn(5) {
	case 0:
		p = append(p, 0)
	case 1:
		if len(p) > 0 {
			p = p[:len(p)-1]
		}
	case 2:
		if len(p) > 0 {
			p[len(p)-1]++
		}
	case 3:
		if len(p) > 0 {
			p[0]--
		}
	}
	if isStr {
		return encStr(string(p), r.Intn(4))
	}
	switch r.Intn(3) {
	case 0:
		return append([]byte{0xc4, byte(len(p))}, p...)
	case 1:
		return append(append([]byte{0xc5}, be(uint64(len(p)), 2)...), p...)
	}
	return append(append([]byte{0xc6}, be(uint64(len(p)), 4)...), p...)
}

// genNear: one leaf of every numeric / string / binary encoding at a known key, a condition whose
// threshold is adjacent to it (or an INC whose delta is), and a marker op.
func genNear(r *common.Rng) pcase {
	doc := genBody(r)
	var leaf []byte
	switch r.Intn(10) {
	case 0, 1, 2:
		if r.Bool() {
			leaf = f32b([]float32{0.1, 1, 16777216, 3.4028235e38, 1e-45, -0.1, 1.5, 0.3, 123456.79, 1e10}[r.Intn(10)])
		} else {
			leaf = f32b(math.Float32frombits(uint32(r.U64())))
		}
	case 3, 4:
		if r.Bool() {
			leaf = f64b([]float64{0.1, 1, 9007199254740992, 1e300, 5e-324, 16777217, 0.30000000000000004, -2.5}[r.Intn(8)])
		} else {
			leaf = f64b(math.Float64frombits(r.U64()))
		}
	case 5, 6:
		leaf = numOf(r, 1)
	case 7, 8:
		leaf = numOf(r, 2)
	default:
		leaf = encStr(strPool[r.Intn(len(strPool))], r.Intn(4))
		if r.Bool() {
			pl := r.Bytes(r.Intn(4))
			leaf = append([]byte{0xc4, byte(len(pl))}, pl...)
		}
	}
	key := []string{"v", "f", "n"}[r.Intn(3)]
	pos := r.Intn(len(doc.kids) + 1)
	doc.keys = append(doc.keys[:pos], append([]string{key}, doc.keys[pos:]...)...)
	doc.khdr = append(doc.khdr[:pos], append([]int{0}, doc.khdr[pos:]...)...)
	doc.kids = append(doc.kids[:pos], append([]*node{{kind: 0, raw: leaf}}, doc.kids[pos:]...)...)
	// the first field with that key is the addressed one
	for i, k := range doc.keys {
		if k == key {
			if doc.kids[i].kind == 0 {
				leaf = doc.kids[i].raw
			}
			break
		}
	}
	c := pcase{body: doc.enc(), tag: "near"}
	if r.Chance(75) {
		c.cond = &msgpackpatch.Condition{Path: key, Op: msgpackpatch.CondOp(r.Intn(6)), Threshold: nearValue(r, leaf)}
		c.ops = []msgpackpatch.Op{mkop(0, "marker", []byte{0xc3})}
		if r.Chance(30) {
			c.ops = append(c.ops, mkop(2, key, nearValue(r, leaf)))
		}
	} else {
		// INC by an adjacent value (x + (-x+-1), float32 + float64 not representable in float32), twice
		c.ops = []msgpackpatch.Op{mkop(2, key, nearValue(r, leaf)), mkop(2, key, nearValue(r, leaf))}
		if r.Bool() {
			c.cond = &msgpackpatch.Condition{Path: key, Op: msgpackpatch.CondOp(r.Intn(6)), Threshold: nearValue(r, leaf)}
		}
	}
	return c
}

func genCond(r *common.Rng, locs []located) *msgpackpatch.Condition {
	p, target := genPath(r, locs, -1)
	op := r.Intn(8)
	if r.Chance(2) {
		op = 8 + r.Intn(3)
	}
	var thr []byte
	x := r.Intn(100)
	switch {
	case x < 25 && target != nil && target.kind == 0:
		thr = nearValue(r, target.raw)
	case x < 60:
		thr = numLike(r, target)
	case x < 70 && target != nil && target.kind == 0:
		thr = append([]byte(nil), target.raw...)
	case x < 74:
		thr = malformed(r)
	case x < 77:
		thr = nil
	case x < 82:
		thr = genContainerValue(r)
	default:
		thr, _ = genLeaf(r)
	}
	return &msgpackpatch.Condition{Path: p, Op: msgpackpatch.CondOp(op), Threshold: thr}
}

func genCase(r *common.Rng) pcase {
	doc := genBody(r)
	var locs []located
	collect(doc, "", &locs)
	nops := 1 + r.Intn(3)
	if r.Chance(20) {
		nops = 4 + r.Intn(4)
	}
	if r.Chance(3) {
		nops = 0
	}
	c := pcase{body: doc.enc(), tag: "generated"}
	for i := 0; i < nops; i++ {
		kind := r.Intn(8)
		if r.Chance(1) {
			kind = 8 + r.Intn(200)
		}
		p, target := genPath(r, locs, kind)
		v := genValue(r, kind, target)
		if kind == 1 || kind == 5 {
			if r.Chance(80) {
				v = nil
			}
		}
		c.ops = append(c.ops, msgpackpatch.Op{Kind: msgpackpatch.OpKind(kind), Path: p, Value: v})
	}
	if r.Chance(40) {
		c.cond = genCond(r, locs)
	}
	return c
}


// ---- chained ops: several ops of one patch addressing the same slot ---------------------------
//
// The independent generator above almost never lets a later op read what an earlier op of the
// same patch wrote.  A chain picks one focus slot (an existing leaf / array / map, a duplicate
// key, an array element, or a missing nested field) and emits 2-6 ops that all address it or its
// immediate neighbourhood (slot, slot[], slot[i], slot.k, the parent), in patterns where every
// op depends on the state left by the previous ones: retype then INC, delete then re-create,
// create then overwrite the created parent, append across the 15/16 boundary then remove, merge
// then INC a merged key, ...

func numOf(r *common.Rng, class int) []byte { return numLike(r, &node{kind: 0, class: class}) }

func mkop(kind int, path string, v []byte) msgpackpatch.Op {
	return msgpackpatch.Op{Kind: msgpackpatch.OpKind(kind), Path: path, Value: v}
}

func scalarOrNum(r *common.Rng) []byte {
	if r.Chance(60) {
		return numOf(r, 1+r.Intn(3))
	}
	v, _ := genLeaf(r)
	return v
}

func smallMap(r *common.Rng, keys []string, class int) []byte {
	out := []byte{0x80 | byte(len(keys))}
	for _, k := range keys {
		out = append(out, encStr(k, 0)...)
		out = append(out, numOf(r, class)...)
	}
	return out
}


// genMergeValue builds a MERGE value as a hand-rolled client might send it: 0-6 (sometimes
// 14-18) fields whose keys are drawn from the keys the target map already has, from a small
// pool of keys that are new to it, and - deliberately often - from the keys already used
// earlier in the same value (a repeated key is legal msgpack; the documented MERGE processes
// the fields in order, so the last occurrence wins and a new key is appended once).  Key
// strings use every header width (the same key may appear as fixstr and as str8), the map
// header may be non-minimal, values are scalars of varied kinds and now and then containers.
func genMergeValue(r *common.Rng, target *node) []byte {
	var existing []string
	if target != nil && target.kind == 1 {
		existing = target.keys
	}
	fresh := []string{"k", "j", "new", "zz", "", "a", "k_long_key_of_more_than_thirty_two_bytes_x"}
	n := r.Intn(7)
	if r.Chance(8) {
		n = 14 + r.Intn(5)
	}
	var used []string
	var keys []string
	for i := 0; i < n; i++ {
		x := r.Intn(100)
		var k string
		switch {
		case x < 35 && len(used) > 0:
			k = used[r.Intn(len(used))] // repeat a key of this same value
		case x < 60 && len(existing) > 0:
			k = existing[r.Intn(len(existing))]
		case x < 90:
			k = fresh[r.Intn(len(fresh)-1)]
		default:
			k = fresh[len(fresh)-1]
		}
		if n > 8 && x >= 35 {
			k = "m" + strconv.Itoa(i%11)
		}
		used = append(used, k)
		keys = append(keys, k)
	}
	out := contHeader(true, len(keys), hdrChoice(r))
	for _, k := range keys {
		out = append(out, encStr(k, r.Intn(14)/10*(1+r.Intn(3)))...)
		switch {
		case r.Chance(8):
			out = append(out, genContainerValue(r)...)
		case r.Chance(50):
			out = append(out, numOf(r, 1+r.Intn(3))...)
		default:
			v, _ := genLeaf(r)
			out = append(out, v...)
		}
	}
	return out
}

func genChain(r *common.Rng) pcase {
	doc := genBody(r)
	var locs []located
	collect(doc, "", &locs)
	c := pcase{tag: "chain"}
	// focus slot
	focus := "n"
	var target *node
	x := r.Intn(100)
	switch {
	case x < 55 && len(locs) > 0:
		l := locs[r.Intn(len(locs))]
		focus, target = l.path, l.n
	case x < 65:
		focus = []string{"new", "zz.q", "new.sub.deep", "a.new"}[r.Intn(4)]
	case x < 80:
		// force a nested map whose own keys repeat (k, j, k ...) in front of the body: the slot
		// for MERGE / SET / DELETE / INC below it
		mcl := 1 + r.Intn(3)
		m := &node{kind: 1, hdr: hdrChoice(r)}
		for _, k := range [][]string{{"k", "j", "k"}, {"k", "k"}, {"j", "k", "a", "k", "j"}, {"a", "k"}}[r.Intn(4)] {
			m.keys = append(m.keys, k)
			m.khdr = append(m.khdr, r.Intn(13)/10*(1+r.Intn(3)))
			m.kids = append(m.kids, &node{kind: 0, raw: numOf(r, mcl), class: mcl})
		}
		focus = []string{"m", "cfg"}[r.Intn(2)]
		doc.keys = append([]string{focus}, doc.keys...)
		doc.khdr = append([]int{0}, doc.khdr...)
		doc.kids = append([]*node{m}, doc.kids...)
		target = m
	default:
		// force a top-level numeric leaf (and sometimes a duplicate of its key) into the body
		cl := 1 + r.Intn(3)
		leaf := &node{kind: 0, raw: numOf(r, cl), class: cl}
		focus = []string{"n", "cnt", "f"}[r.Intn(3)]
		pos := r.Intn(len(doc.kids) + 1)
		ins := func(at int, k string, v *node) {
			doc.keys = append(doc.keys[:at], append([]string{k}, doc.keys[at:]...)...)
			doc.khdr = append(doc.khdr[:at], append([]int{r.Intn(13) / 10 * (1 + r.Intn(3))}, doc.khdr[at:]...)...)
			doc.kids = append(doc.kids[:at], append([]*node{v}, doc.kids[at:]...)...)
		}
		ins(pos, focus, leaf)
		if r.Chance(25) {
			cl2 := 1 + r.Intn(3)
			ins(r.Intn(len(doc.kids)+1), focus, &node{kind: 0, raw: numOf(r, cl2), class: cl2})
		}
		target = nil
		for i, k := range doc.keys { // first match is the addressed one
			if k == focus {
				target = doc.kids[i]
				break
			}
		}
	}
	c.body = doc.enc()
	cls := 1 + r.Intn(3)
	if target != nil && target.kind == 0 && target.class >= 1 && target.class <= 3 && r.Chance(60) {
		cls = target.class
	}
	num := func() []byte { return numOf(r, cls) }
	add := func(kind int, path string, v []byte) { c.ops = append(c.ops, mkop(kind, path, v)) }
	pat := r.Intn(17)
	if (target == nil || target.kind == 1) && r.Chance(50) {
		pat = []int{6, 13, 13, 15}[r.Intn(4)]
	}
	switch pat {
	case 0: // retype, then increment what was just stored (same class, other width)
		add(0, focus, num())
		add(2, focus, num())
		if r.Bool() {
			add(2, focus, num())
		}
	case 1: // increment, overwrite, increment
		add(2, focus, num())
		add(0, focus, numOf(r, 1+r.Intn(3)))
		add(2, focus, num())
	case 2: // delete then re-create through INC / SET, then use it again
		add(1, focus, nil)
		if r.Bool() {
			add(2, focus, num())
		} else {
			add(0, focus, scalarOrNum(r))
		}
		add(2, focus, num())
	case 3: // scalar over whatever is there, then container-style ops on it
		add(0, focus, scalarOrNum(r))
		add([]int{3, 4, 7, 6, 5}[r.Intn(5)], focus+[]string{"[]", "", "[0]"}[r.Intn(3)], scalarOrNum(r))
	case 4: // grow an array across the fixarray boundary, then remove from it
		k := 1 + r.Intn(4)
		if target != nil && target.kind == 2 && len(target.kids) >= 12 {
			k = 16 - len(target.kids) + r.Intn(2)
		}
		var last []byte
		for i := 0; i < k && i < 5; i++ {
			last = scalarOrNum(r)
			add(3+r.Intn(2), focus+"[]", last)
		}
		switch r.Intn(4) {
		case 0:
			add(5, focus+"[-1]", nil)
		case 1:
			add(5, focus+"[0]", nil)
		case 2:
			add(6, focus, last)
		case 3:
			add(2, focus+"[-1]", num())
		}
	case 5: // set an element, then increment / remove the same element
		idx := []string{"[0]", "[-1]", "[1]"}[r.Intn(3)]
		add(0, focus+idx, num())
		add(2, focus+idx, num())
		if r.Bool() {
			add(5, focus+idx, nil)
			add(2, focus+idx, num())
		}
	case 6: // merge numeric fields, then increment / delete / re-merge one of them
		add(7, focus, smallMap(r, []string{"k", "j"}, cls))
		add(2, focus+".k", num())
		if r.Bool() {
			add(7, focus, smallMap(r, []string{"k"}, 1+r.Intn(3)))
			add(2, focus+".k", num())
		} else {
			add(1, focus+".j", nil)
			add(2, focus+".j", num())
		}
	case 7: // create a nested path, then replace a created parent, then go below it again
		add(0, focus+".p.q", scalarOrNum(r))
		add(2, focus+".p.r", num())
		add(0, focus+".p", scalarOrNum(r))
		add([]int{0, 2, 1}[r.Intn(3)], focus+".p.q", num())
	case 8: // the same INC repeated (counter semantics), mixed widths
		for i, k := 0, 2+r.Intn(4); i < k; i++ {
			add(2, focus, num())
		}
	case 9: // SET the same slot repeatedly with values of different kinds, last one wins
		for i, k := 0, 2+r.Intn(3); i < k; i++ {
			add(0, focus, scalarOrNum(r))
		}
		if r.Bool() {
			add(2, focus, num())
		}
	case 10: // delete twice, remove_val / remove_at on a deleted slot
		add(1, focus, nil)
		add([]int{1, 6, 5, 3}[r.Intn(4)], focus+[]string{"", "", "[0]", "[]"}[r.Intn(4)], scalarOrNum(r))
		add(0, focus, scalarOrNum(r))
	case 11: // prepend then address index 0 / last
		v := scalarOrNum(r)
		add(4, focus+"[]", v)
		add([]int{0, 2, 5}[r.Intn(3)], focus+"[0]", num())
		add(6, focus, v)
	case 12: // an op on the slot, a failing op afterwards (atomicity with earlier writes)
		add(0, focus, scalarOrNum(r))
		add(2, focus, num())
		add([]int{5, 2, 0}[r.Intn(3)], []string{focus + "[99]", focus + ".x.y[0]", "a..b"}[r.Intn(3)], num())
	case 13: // merge a value that repeats keys (new to the target or not), then use such a key
		mv := genMergeValue(r, target)
		add(7, focus, mv)
		k := []string{"k", "j", "new", "zz", "a"}[r.Intn(5)]
		switch r.Intn(5) {
		case 0:
			add(1, focus+"."+k, nil)
			add(2, focus+"."+k, num())
		case 1:
			add(2, focus+"."+k, num())
		case 2:
			add(7, focus, genMergeValue(r, target))
		case 3:
			add(0, focus+"."+k, scalarOrNum(r))
			add(7, focus, mv)
		case 4:
			add(1, focus+"."+k, nil)
			add(1, focus+"."+k, nil)
			add(0, focus+"."+k, scalarOrNum(r))
		}
	case 14: // the same value appended twice (and prepended), then removed by value once / twice
		v := scalarOrNum(r)
		add(3, focus+"[]", v)
		add(3+r.Intn(2), focus+"[]", v)
		add(6, focus, v)
		if r.Bool() {
			add(6, focus, v)
			add(6, focus, v)
		}
	case 15: // nested slots that share one key name: k.k.k created, overwritten and deleted level by level
		k := []string{"k", "a", "n"}[r.Intn(3)]
		add(0, focus+"."+k+"."+k, scalarOrNum(r))
		add(7, focus+"."+k, smallMap(r, []string{k, k, "j"}, cls))
		add([]int{1, 2, 0}[r.Intn(3)], focus+"."+k+"."+k, num())
		add(1, focus+"."+k, nil)
	default: // increment then a container value on the same slot (known: opaque afterwards)
		add(2, focus, num())
		add(0, focus, genContainerValue(r))
		add([]int{2, 0, 3}[r.Intn(3)], focus+[]string{"", ".b", "[]"}[r.Intn(3)], num())
	}
	if r.Chance(35) {
		// a condition on the focus slot (evaluated on the pre-patch state only)
		thr := num()
		if target != nil && target.kind == 0 && r.Chance(50) {
			thr = numLike(r, target)
			if r.Bool() {
				thr = nearValue(r, target.raw)
			}
		}
		c.cond = &msgpackpatch.Condition{Path: focus, Op: msgpackpatch.CondOp(r.Intn(8)), Threshold: thr}
	}
	return c
}

// malformed / unusual bodies: truncations, a bad byte, non-map roots, non-string keys, trailing bytes
func genBadBody(r *common.Rng) pcase {
	c := genCase(r)
	b := append([]byte(nil), c.body...)
	switch r.Intn(7) {
	case 0:
		if len(b) > 1 {
			b = b[:1+r.Intn(len(b)-1)]
		}
	case 1:
		// never inside a 32-bit element count: the code under test allocates by the declared count
		i := r.Intn(len(b))
		ok := true
		for j := i - 4; j < i; j++ {
			if j >= 0 && (b[j] == 0xdd || b[j] == 0xdf) {
				ok = false
			}
		}
		if ok {
			b[i] = 0xc1
		}
	case 2:
		b = append(b, 0xc0)
	case 3:
		b = []byte{0x81, 0x01, 0x02}
	case 4:
		b = nil
	case 5:
		v, _ := genLeaf(r)
		b = v
	case 6:
		b = genArr(r, 1).enc()
	}
	c.body = b
	c.tag = "unusual_body"
	return c
}

func f64(v float64) []byte { return append([]byte{0xcb}, be(math.Float64bits(v), 8)...) }

func witnesses() []pcase {
	nan := append([]byte{0xcb}, be(0x7ff8000000000000, 8)...)
	bodyNaN := append([]byte{0x81, 0xa1, 'f'}, nan...)
	body := []byte{0x82, 0xa1, 'x', 0x01, 0xa1, 'n', 0xd0, 0x7f}
	ws := []pcase{
		{body: body, ops: []msgpackpatch.Op{{Kind: msgpackpatch.OpSet, Path: "x", Value: []byte{0xc1}}}, tag: "witness_set_c1"},
		{body: body, ops: []msgpackpatch.Op{{Kind: msgpackpatch.OpSet, Path: "x", Value: []byte{0xa5, 'a', 'b'}}}, tag: "witness_set_truncated_string"},
		{body: body, ops: []msgpackpatch.Op{{Kind: msgpackpatch.OpAppend, Path: "new[]", Value: []byte{0x01, 0x02}}}, tag: "witness_append_trailing"},
		{body: body, ops: []msgpackpatch.Op{{Kind: msgpackpatch.OpInc, Path: "new", Value: []byte{0x01, 0xc1}}}, tag: "witness_inc_seed_trailing"},
		{body: body, ops: []msgpackpatch.Op{{Kind: msgpackpatch.OpInc, Path: "n", Value: []byte{0xd0, 0x01}}}, tag: "witness_inc_int8_wrap"},
		{body: body, ops: []msgpackpatch.Op{{Kind: msgpackpatch.OpInc, Path: "x", Value: []byte{0x01}}}, tag: "witness_inc_fixint_widened"},
		{body: body, ops: []msgpackpatch.Op{{Kind: msgpackpatch.OpSet, Path: "m", Value: []byte{0x81, 0xa1, 'b', 0x01}}, {Kind: msgpackpatch.OpSet, Path: "m.b", Value: []byte{0x02}}}, tag: "witness_set_map_then_navigate"},
		{body: body, ops: []msgpackpatch.Op{{Kind: msgpackpatch.OpAppend, Path: "t[]", Value: []byte{0x91, 0x01}}, {Kind: msgpackpatch.OpRemoveVal, Path: "t", Value: []byte{0x91, 0x01}}}, tag: "witness_append_container_then_remove_val"},
	}
	for op := 0; op < 8; op++ {
		ws = append(ws, pcase{body: bodyNaN, ops: []msgpackpatch.Op{{Kind: msgpackpatch.OpSet, Path: "y", Value: []byte{0x01}}},
			cond: &msgpackpatch.Condition{Path: "f", Op: msgpackpatch.CondOp(op), Threshold: nan}, tag: "witness_nan_condition"})
		ws = append(ws, pcase{body: append([]byte{0x81, 0xa1, 'f'}, f64(1.5)...), ops: []msgpackpatch.Op{{Kind: msgpackpatch.OpSet, Path: "y", Value: []byte{0x01}}},
			cond: &msgpackpatch.Condition{Path: "f", Op: msgpackpatch.CondOp(op), Threshold: nan}, tag: "witness_nan_threshold"})
	}
	return ws
}

func main() {
	a := common.ParseArgs()
	run := common.NewRun(a, "C13", "HV.Patch.Check")
	run.Meta.Rule = "a case is (msgpack body, 0-7 ops, optional condition) given to the real msgpackpatch.ApplyWithCondition; bodies are generated documents (depth <= 4, every leaf code, minimal and non-minimal headers, duplicate keys, 13-17 element containers) plus a stream of truncated/corrupted/non-map bodies; paths come from the document (existing, missing, negative/out-of-range indices, append marker) plus malformed path strings; values are well-formed scalars, containers, class-matched numeric deltas, and malformed byte strings; a third stream are chains: 2-6 ops of one patch on the same slot and its neighbourhood (retype then INC, delete then re-create, create then overwrite the parent, append across 15/16 then remove, merge then INC a merged key, repeated INC/SET, duplicate keys in the body and inside MERGE values - new to the target or not, same key under different string headers -, the same value appended twice then removed by value, nested slots sharing one key name), so that later ops read what earlier ops wrote; a fourth stream puts one leaf of every numeric/string/binary encoding at a known key and uses thresholds and INC deltas whose value is equal or adjacent to it in another encoding (integer +-1 in every width, float64 neighbours of a float32 - one float64 ulp, half a float32 ulp, relative 1e-9 -, float32 rounding of a float64, magnitudes outside float32, string prefix/extension); every patch is also evaluated a second time and, without a condition, through Apply (same result required), and the caller's body/op bytes must be unchanged; non-trivial = the patch succeeded and changed the body, or failed after a successful parse with an error raised by an op or the condition"
	rng := common.NewRng(a.Seed, "C13")

	n, nbad, nchain, nnear := 1800, 200, 1000, 600
	if a.Tier == "thorough" {
		n, nbad, nchain, nnear = 28000, 3000, 14000, 8000
	}
	var cases []pcase
	cases = append(cases, witnesses()...)
	for i := 0; i < n; i++ {
		cases = append(cases, genCase(rng))
	}
	for i := 0; i < nbad; i++ {
		cases = append(cases, genBadBody(rng))
	}
	crng := rng.Fork("chain")
	for i := 0; i < nchain; i++ {
		cases = append(cases, genChain(crng))
	}
	nrng := rng.Fork("near")
	for i := 0; i < nnear; i++ {
		cases = append(cases, genNear(nrng))
	}
	res := make([]result, len(cases))
	common.Parallel(len(cases), 16, func(i int) { res[i] = runCase(cases[i]) })
	for i, c := range cases {
		r := res[i]
		_, perr := msgpackpatch.Parse(c.body)
		nontrivial := perr == nil && ((r.code == 0 && string(r.out) != string(c.body)) || (r.code != 0 && len(c.ops) > 0))
		idx := run.Add(coqCase(c, r), descr(c, r), nontrivial)
		for _, sd := range r.side {
			clause := "a failing or succeeding patch leaves the caller's body and op values unchanged"
			if sd[0] == "second_evaluation_differs" || sd[0] == "apply_differs_from_apply_with_condition" {
				clause = "a patch produces exactly the document the documented semantics describe (same input, same result, through either entry point)"
			}
			run.Violate(idx, clause, sd[0], sd[1])
		}
		run.Hist("result_" + errNames[r.code])
		run.Hist(fmt.Sprintf("nops_%d", len(c.ops)))
		for _, o := range c.ops {
			if int(o.Kind) < len(opNames) {
				run.Hist("op_" + opNames[o.Kind])
			} else {
				run.Hist("op_unknown")
			}
		}
		if c.cond != nil {
			run.Hist(fmt.Sprintf("cond_op_%d", c.cond.Op))
		}
		if c.tag != "generated" {
			run.Hist("tag_" + c.tag)
		}
		run.HistN("body_bytes_total", len(c.body))
	}
	_ = binary.BigEndian
	run.Meta.Traces = run.Meta.Evaluations
	run.Finish("check_all")
}
