package main

import (
	"fmt"
	"strings"

	"github.com/hydraide/hydraide/sdk/go/hydraidego/v3"
)

// C22: the reserved tag names and the msgpack magic prefix, as compiled into the SDK.
func init() {
	register("C22Consts.v", func() string {
		named, reserved := hydraidego.VerifC22TagNames()
		m0, m1 := hydraidego.VerifC22MsgpackMagic()
		var sb strings.Builder
		sb.WriteString("From Coq Require Import List NArith.\nImport ListNotations.\nLocal Open Scope N_scope.\n\n")
		str := func(s string) string {
			p := make([]string, len(s))
			for i := 0; i < len(s); i++ {
				p[i] = fmt.Sprint(s[i])
			}
			return "[" + strings.Join(p, ";") + "]"
		}
		ids := []string{"tag_key", "tag_value", "tag_omitempty", "tag_expireAt", "tag_createdBy", "tag_createdAt", "tag_updatedBy", "tag_updatedAt"}
		for i, id := range ids {
			fmt.Fprintf(&sb, "(* %q *)\nDefinition %s : list N := %s.\n", named[i], id, str(named[i]))
		}
		rs := make([]string, len(reserved))
		for i, r := range reserved {
			rs[i] = str(r)
		}
		fmt.Fprintf(&sb, "(* sorted members of reservedHydraideTagNames: %s *)\nDefinition reserved_names_sorted : list (list N) := [%s].\n", strings.Join(reserved, " "), strings.Join(rs, "; "))
		fmt.Fprintf(&sb, "Definition msgpack_magic : list N := [%d;%d].\n", m0, m1)
		return sb.String()
	})
}
