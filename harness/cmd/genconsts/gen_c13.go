package main

import (
	"fmt"
	"strings"

	"github.com/hydraide/hydraide/app/core/hydra/swamp/treasure/msgpackpatch"
)

// C13: the 256-entry lead-byte table of msgpackpatch (classifiers of codes.go, numeric class,
// and what the msgpack decoder's Skip consumes on two probe inputs), plus the numbering of the
// op kinds and condition operators.
func init() {
	register("C13Consts.v", func() string {
		var sb strings.Builder
		sb.WriteString("From Coq Require Import NArith List.\nImport ListNotations.\nLocal Open Scope N_scope.\n\n")
		sb.WriteString("(* entry c = (flags, numeric class, skip0, skip1): flags bit0 isMapCode, bit1 isArrayCode,\n")
		sb.WriteString("   bit2 isStringCode, bit3 isIntegerCode, bit4 isFloatCode; skipK = 1 + bytes consumed by\n")
		sb.WriteString("   Decoder.Skip on c followed by c13_pad bytes of value K, 0 if Skip fails *)\n")
		sb.WriteString("Definition c13_pad : nat := 600.\n")
		sb.WriteString("Definition c13_lead_table : list (N * N * N * N) := [\n")
		const pad = 600
		for c := 0; c < 256; c++ {
			fl, cl := msgpackpatch.VerifLeadByte(byte(c))
			var sk [2]int
			for k := 0; k < 2; k++ {
				b := make([]byte, 1+pad)
				b[0] = byte(c)
				for i := 1; i < len(b); i++ {
					b[i] = byte(k)
				}
				sk[k] = msgpackpatch.VerifSkipLen(b) + 1
			}
			sep := ";"
			if c == 255 {
				sep = ""
			}
			fmt.Fprintf(&sb, "  (%d, %d, %d, %d)%s\n", fl, cl, sk[0], sk[1], sep)
		}
		sb.WriteString("].\n\n")
		ops := []msgpackpatch.OpKind{msgpackpatch.OpSet, msgpackpatch.OpDelete, msgpackpatch.OpInc, msgpackpatch.OpAppend,
			msgpackpatch.OpPrepend, msgpackpatch.OpRemoveAt, msgpackpatch.OpRemoveVal, msgpackpatch.OpMerge}
		sb.WriteString("(* OpSet OpDelete OpInc OpAppend OpPrepend OpRemoveAt OpRemoveVal OpMerge *)\nDefinition c13_op_kinds : list N := [")
		for i, o := range ops {
			if i > 0 {
				sb.WriteString("; ")
			}
			fmt.Fprintf(&sb, "%d", uint8(o))
		}
		sb.WriteString("].\n")
		cos := []msgpackpatch.CondOp{msgpackpatch.CondEqual, msgpackpatch.CondNotEqual, msgpackpatch.CondGreaterThan,
			msgpackpatch.CondGreaterThanOrEqual, msgpackpatch.CondLessThan, msgpackpatch.CondLessThanOrEqual,
			msgpackpatch.CondExists, msgpackpatch.CondNotExists}
		sb.WriteString("(* CondEqual NotEqual GreaterThan GreaterThanOrEqual LessThan LessThanOrEqual Exists NotExists *)\nDefinition c13_cond_ops : list N := [")
		for i, o := range cos {
			if i > 0 {
				sb.WriteString("; ")
			}
			fmt.Fprintf(&sb, "%d", uint8(o))
		}
		sb.WriteString("].\n")
		return sb.String()
	})
}
