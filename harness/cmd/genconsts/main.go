// genconsts prints constants and finite tables *as the compiled code has them* into
// coq/theories/Gen/<Name>.v (DESIGN.md 5.2). Each property adds a file gen_<id>.go in this
// package that registers a generator in init(); a generator returns the full text of its .v
// file. Files are rewritten only when their text changes (so make stays incremental).
package main

import (
	"flag"
	"fmt"
	"os"
	"path/filepath"
	"sort"
)

var generators = map[string]func() string{}

func register(file string, f func() string) { generators[file] = f }

func main() {
	out := flag.String("out", "", "directory for the generated .v files")
	flag.Parse()
	if *out == "" {
		fmt.Fprintln(os.Stderr, "need --out")
		os.Exit(2)
	}
	os.MkdirAll(*out, 0o755)
	names := make([]string, 0, len(generators))
	for n := range generators {
		names = append(names, n)
	}
	sort.Strings(names)
	for _, n := range names {
		txt := "(* generated from the compiled hydraide packages by harness/cmd/genconsts - do not edit *)\n" + generators[n]()
		p := filepath.Join(*out, n)
		if old, err := os.ReadFile(p); err == nil && string(old) == txt {
			continue
		}
		if err := os.WriteFile(p, []byte(txt), 0o644); err != nil {
			fmt.Fprintln(os.Stderr, err)
			os.Exit(1)
		}
	}
}
