// c30: correspondence check for "expiry semantics are consistent across every read and claim
// path" against Record/Expiry.v.
//
// Every case is a history of Set / IncrementInt64 (metadata) / PatchTreasures (meta) / Delete
// calls on its own persistent V2 swamp, with expiry values chosen around a clock sampled once
// per case (epoch, epoch-1ns, epoch-1h, epoch+1ns, now-1h, now-2h, now+1h, now+100y, year 2300,
// year 1600, Go's zero time, absent). The history is split at a random point by an engine
// restart (every swamp is closed and reloaded); a subset of the swamps additionally lives under
// a 1 s idle-close pattern. Afterwards every expiry-aware read is issued (Get, GetByIndex on
// the expiry index in both orders and with a window, ExpiredAt filters <, >, IS_EMPTY,
// IS_NOT_EMPTY), then one claim (ShiftExpired | ShiftMatching on the expiry index |
// PatchExpired with a meta), then all the reads again. The Coq side evaluates the property on
// the observations alone (oracle) and replays the history through the faithful model.
package main

import (
	"fmt"
	"math"
	"os"
	"sort"
	"sync"
	"time"

	"github.com/hydraide/hydraide/app/core/hydra/swamp/treasure"
	hydrapb "github.com/hydraide/hydraide/sdk/go/hydraidego/v3/hydraidepbgo"
	"google.golang.org/protobuf/types/known/timestamppb"
	"verif/harness/common"
	"verif/harness/lib/c30"
	"verif/harness/rig"
)

const (
	hour       = int64(3600e9)
	goZeroSec  = int64(-62135596800)
	year2300   = int64(10413792000)
	year1600   = int64(-11676096000)
	sentinel   = 9 // a record without expiry that is never deleted: keeps the swamp alive
	nValueCls  = 12
	universeSz = 4
)

var classNames = []string{"absent", "epoch", "epoch-1ns", "epoch-1h", "epoch+1ns", "now-1h", "now+1h", "now+100y", "year2300", "zerotime", "now-2h", "year1600"}

type tsv struct {
	Cls int   `json:"cls"`
	Has bool  `json:"has"`
	S   int64 `json:"s"`
	N   int32 `json:"n"`
}

func mkTS(cls int, t0 int64) tsv {
	split := func(e int64) (int64, int32) {
		ts := c30.TSNanos(e)
		return ts.Seconds, ts.Nanos
	}
	v := tsv{Cls: cls, Has: true}
	switch cls {
	case 0:
		v.Has = false
	case 1:
		v.S, v.N = 0, 0
	case 2:
		v.S, v.N = -1, 999999999
	case 3:
		v.S, v.N = -3600, 0
	case 4:
		v.S, v.N = 0, 1
	case 5:
		v.S, v.N = split(t0 - hour)
	case 6:
		v.S, v.N = split(t0 + hour)
	case 7:
		v.S, v.N = split(t0 + 100*365*24*hour)
	case 8:
		v.S, v.N = year2300, 0
	case 9:
		v.S, v.N = goZeroSec, 0
	case 10:
		v.S, v.N = split(t0 - 2*hour)
	case 11:
		v.S, v.N = year1600, 5
	}
	return v
}

func (v tsv) pb() *timestamppb.Timestamp {
	if !v.Has {
		return nil
	}
	return c30.TS(v.S, v.N)
}
func (v tsv) coq() string {
	if !v.Has {
		return "None"
	}
	return common.Some(common.Pair(common.Z(v.S), common.Z(int64(v.N))))
}

type opT struct {
	Kind   string `json:"op"` // set inc patch delete touch
	K      int    `json:"k"`
	Kd     int    `json:"kd"` // 0 bytes 1 int 2 void
	T      tsv    `json:"t"`
	T2     tsv    `json:"t2"`
	Create bool   `json:"create"`
	Clear  bool   `json:"clear"`
	tcls   int
	t2cls  int
}

var kindCoq = []string{"KBytes", "KInt", "KVoid"}

const noFlags = "no_flags"

func (o opT) coq() string {
	switch o.Kind {
	case "set":
		return common.App("OSet", common.N(uint64(o.K)), kindCoq[o.Kd], o.T.coq(), noFlags)
	case "inc":
		return common.App("OInc", common.N(uint64(o.K)), o.T.coq(), o.T2.coq(), noFlags)
	case "patch":
		return common.App("OPatch", common.N(uint64(o.K)), common.Bool(o.Create), common.Bool(o.Clear), o.T.coq(), noFlags)
	case "delete":
		return common.App("ODelete", common.N(uint64(o.K)))
	case "touch":
		return "OTouch"
	case "reload":
		return "OReload"
	}
	panic("op " + o.Kind)
}

type plan struct {
	idx     int
	swamp   string
	idle    bool
	ops     []opT
	split   int // ops[:split] before the restart
	claim   int // 0 none 1 ShiftExpired 2 ShiftMatching window 3 PatchExpired 4 ShiftMatching filter on key index
	cClear  bool
	cTcls   int
	winFrom int // class or -1
	winTo   int
	t0      int64
	ops2    []opT // materialised
	cT      tsv
	err     error
	r1, r2  *reads
	r3      *reads // after the second restart
	claimed []seenKV
	lastKey int
	lastOK  bool
	lastSet bool
	midGet  []seenKV
}

type seenKV struct {
	K     int
	Exist bool
	Has   bool
	E     int64
}

func (s seenKV) coq() string {
	v := "None"
	if s.Exist {
		if s.Has {
			v = common.Some(common.Some(common.Z(s.E)))
		} else {
			v = "(Some None)"
		}
	}
	return common.Pair(common.N(uint64(s.K)), v)
}

type reads struct {
	get, asc, desc        []seenKV
	win, wind             []int
	wf, wt                *int64
	lt, gt, empty, nempty []int
}

func keyName(k int) string { return fmt.Sprintf("k%d", k) }
func keyNum(s string) int {
	var k int
	fmt.Sscanf(s, "k%d", &k)
	return k
}

func toSeen(t *hydrapb.Treasure) seenKV {
	e, ok := c30.Nanos(t.ExpiredAt)
	return seenKV{K: keyNum(t.Key), Exist: t.IsExist, Has: ok, E: e}
}
func seenList(ts []*hydrapb.Treasure) []seenKV {
	out := make([]seenKV, 0, len(ts))
	for _, t := range ts {
		out = append(out, toSeen(t))
	}
	return out
}
func keyInts(ts []*hydrapb.Treasure) []int {
	out := make([]int, 0, len(ts))
	for _, t := range ts {
		out = append(out, keyNum(t.Key))
	}
	sort.Ints(out)
	return out
}

func coqSeenList(l []seenKV) string {
	s := make([]string, len(l))
	for i, x := range l {
		s[i] = x.coq()
	}
	return common.List(s)
}
func coqKeys(l []int) string {
	s := make([]string, len(l))
	for i, x := range l {
		s[i] = common.N(uint64(x))
	}
	return common.List(s)
}
func coqOptZ(p *int64) string {
	if p == nil {
		return "None"
	}
	return common.Some(common.Z(*p))
}
func (r *reads) coq() string {
	return fmt.Sprintf("{| g_get := %s; g_asc := %s; g_desc := %s; g_win := (%s, %s, %s); g_wind := (%s, %s, %s); g_lt := %s; g_gt := %s; g_empty := %s; g_nempty := %s |}",
		coqSeenList(r.get), coqSeenList(r.asc), coqSeenList(r.desc),
		coqOptZ(r.wf), coqOptZ(r.wt), coqKeys(r.win), coqOptZ(r.wf), coqOptZ(r.wt), coqKeys(r.wind),
		coqKeys(r.lt), coqKeys(r.gt), coqKeys(r.empty), coqKeys(r.nempty))
}

var allKeys = func() []string {
	var ks []string
	for k := 0; k < universeSz; k++ {
		ks = append(ks, keyName(k))
	}
	return append(ks, keyName(sentinel))
}()

func doReads(a *c30.API, p *plan) (*reads, error) {
	r := &reads{}
	now := c30.TSNanos(p.t0)
	ts, err := a.Get(p.swamp, allKeys)
	if err != nil {
		return nil, fmt.Errorf("get: %w", err)
	}
	r.get = seenList(ts)
	if ts, err = a.GetByIndex(p.swamp, hydrapb.IndexType_EXPIRATION_TIME, hydrapb.OrderType_ASC, nil, nil); err != nil {
		return nil, fmt.Errorf("idx asc: %w", err)
	}
	r.asc = seenList(ts)
	if ts, err = a.GetByIndex(p.swamp, hydrapb.IndexType_EXPIRATION_TIME, hydrapb.OrderType_DESC, nil, nil); err != nil {
		return nil, fmt.Errorf("idx desc: %w", err)
	}
	r.desc = seenList(ts)
	var from, to *timestamppb.Timestamp
	if p.winFrom >= 0 {
		v := mkTS(p.winFrom, p.t0)
		e := v.S*1e9 + int64(v.N)
		r.wf, from = &e, v.pb()
	}
	if p.winTo >= 0 {
		v := mkTS(p.winTo, p.t0)
		e := v.S*1e9 + int64(v.N)
		r.wt, to = &e, v.pb()
	}
	if ts, err = a.GetByIndex(p.swamp, hydrapb.IndexType_EXPIRATION_TIME, hydrapb.OrderType_ASC, from, to); err != nil {
		return nil, fmt.Errorf("idx win: %w", err)
	}
	r.win = keyInts(ts)
	if ts, err = a.GetByIndex(p.swamp, hydrapb.IndexType_EXPIRATION_TIME, hydrapb.OrderType_DESC, from, to); err != nil {
		return nil, fmt.Errorf("idx wind: %w", err)
	}
	r.wind = keyInts(ts)
	for _, f := range []struct {
		op  hydrapb.Relational_Operator
		dst *[]int
	}{{hydrapb.Relational_LESS_THAN, &r.lt}, {hydrapb.Relational_GREATER_THAN, &r.gt}, {hydrapb.Relational_IS_EMPTY, &r.empty}, {hydrapb.Relational_IS_NOT_EMPTY, &r.nempty}} {
		if ts, err = a.Stream(p.swamp, hydrapb.IndexType_KEY, hydrapb.OrderType_ASC, c30.ExpiredAtFilter(f.op, now)); err != nil {
			return nil, fmt.Errorf("filter %v: %w", f.op, err)
		}
		*f.dst = keyInts(ts)
	}
	return r, nil
}

func doOp(a *c30.API, p *plan, o opT, isLast bool) error {
	k := keyName(o.K)
	switch o.Kind {
	case "set":
		kv := &hydrapb.KeyValuePair{Key: k, ExpiredAt: o.T.pb()}
		switch o.Kd {
		case 0:
			kv.BytesVal = c30.MsgpackBody(byte(o.K + 1))
		case 1:
			v := int64(7)
			kv.Int64Val = &v
		case 2:
			tr := true
			kv.VoidVal = &tr
		}
		_, err := a.Set(p.swamp, kv)
		return err
	case "inc":
		var m1, m2 *hydrapb.IncrementRequestMetadata
		if o.T.Has {
			m1 = &hydrapb.IncrementRequestMetadata{ExpiredAt: o.T.pb()}
		}
		if o.T2.Has {
			m2 = &hydrapb.IncrementRequestMetadata{ExpiredAt: o.T2.pb()}
		}
		_, _ = a.IncInt64(p.swamp, k, 1, m1, m2) // "value is not an integer" on a bytes record is an expected outcome
		return nil
	case "patch":
		st, err := a.Patch(p.swamp, k, o.Create, &hydrapb.PatchMeta{ClearExpiredAt: o.Clear, SetExpiredAt: o.T.pb()}, nil)
		if err != nil {
			return err
		}
		if isLast {
			p.lastSet = true
			p.lastKey = o.K
			p.lastOK = st == hydrapb.PatchResult_PATCHED || st == hydrapb.PatchResult_CREATED
		}
		return nil
	case "delete":
		return a.Delete(p.swamp, []string{k})
	case "touch":
		_, err := a.GetByIndex(p.swamp, hydrapb.IndexType_EXPIRATION_TIME, hydrapb.OrderType_ASC, nil, nil)
		return err
	}
	return fmt.Errorf("unknown op %s", o.Kind)
}

func genPlan(rng *common.Rng, idx int, tier string) *plan {
	p := &plan{idx: idx, idle: idx%4 == 3}
	pat := "r"
	if p.idle {
		pat = "i"
	}
	p.swamp = fmt.Sprintf("c30/%s/s%d", pat, idx)
	n := 1 + rng.Intn(6)
	if tier == "thorough" {
		n = 1 + rng.Intn(9)
	}
	// expiry classes: weight the interesting ones
	cls := func() int {
		w := []int{0, 1, 2, 2, 3, 3, 4, 5, 5, 6, 6, 7, 8, 9, 10, 10, 11}
		return w[rng.Intn(len(w))]
	}
	for i := 0; i < n; i++ {
		x := rng.Intn(100)
		var o opT
		switch {
		case x < 34:
			k := rng.Intn(universeSz)
			kd := []int{0, 0, 1, 2}[k]
			o = opT{Kind: "set", K: k, Kd: kd, tcls: cls()}
		case x < 64:
			k := rng.Intn(2)
			if rng.Chance(10) {
				k = 2
			}
			o = opT{Kind: "patch", K: k, Create: rng.Chance(70), Clear: rng.Chance(30), tcls: cls()}
			if rng.Chance(50) {
				// the expiry index is already built when the patch (clear / slide / set) arrives
				p.ops = append(p.ops, opT{Kind: "touch"})
			}
		case x < 80:
			k := 2
			if rng.Chance(10) {
				k = rng.Intn(2)
			}
			o = opT{Kind: "inc", K: k, tcls: cls(), t2cls: cls()}
		case x < 88:
			o = opT{Kind: "delete", K: rng.Intn(universeSz)}
		default:
			o = opT{Kind: "touch"}
		}
		p.ops = append(p.ops, o)
	}
	p.split = rng.Intn(len(p.ops) + 1)
	p.claim = []int{0, 1, 2, 3, 3, 3, 4}[rng.Intn(7)]
	p.cClear = rng.Chance(45) // PatchExpired with ClearExpiredAt, followed by the expiry-ordered reads of r2
	p.cTcls = []int{0, 6, 6, 5, 1, 3, 7}[rng.Intn(7)]
	wc := []int{-1, 1, 3, 5, 6, 10, 7}
	p.winFrom = wc[rng.Intn(len(wc))]
	p.winTo = wc[rng.Intn(len(wc))]
	return p
}

func (p *plan) materialise() {
	p.t0 = time.Now().UnixNano()
	p.ops2 = make([]opT, len(p.ops))
	for i, o := range p.ops {
		o.T = mkTS(o.tcls, p.t0)
		o.T2 = mkTS(o.t2cls, p.t0)
		p.ops2[i] = o
	}
	p.cT = mkTS(p.cTcls, p.t0)
}

func phaseA(a *c30.API, p *plan) {
	p.materialise()
	// the sentinel keeps the swamp from auto-destroying when every other record is deleted/claimed
	if _, err := a.Set(p.swamp, &hydrapb.KeyValuePair{Key: keyName(sentinel), BytesVal: c30.MsgpackBody(0)}); err != nil {
		p.err = err
		return
	}
	for i, o := range p.ops2[:p.split] {
		if err := doOp(a, p, o, i == len(p.ops2)-1); err != nil {
			p.err = fmt.Errorf("op %d %s: %w", i, o.Kind, err)
			return
		}
	}
}

func phaseB(a *c30.API, p *plan) {
	if p.err != nil {
		return
	}
	for i, o := range p.ops2[p.split:] {
		if err := doOp(a, p, o, p.split+i == len(p.ops2)-1); err != nil {
			p.err = fmt.Errorf("op %d %s: %w", p.split+i, o.Kind, err)
			return
		}
	}
	var err error
	if p.r1, err = doReads(a, p); err != nil {
		p.err = fmt.Errorf("reads1: %w", err)
		return
	}
	now := c30.TSNanos(p.t0)
	switch p.claim {
	case 1:
		ts, err := a.ShiftExpired(p.swamp, 0)
		if err != nil {
			p.err = err
			return
		}
		p.claimed = seenList(ts)
	case 2:
		ot := hydrapb.OrderType_ASC
		if p.idx%2 == 1 {
			ot = hydrapb.OrderType_DESC
		}
		ts, err := a.ShiftMatching(p.swamp, hydrapb.IndexType_EXPIRATION_TIME, ot, nil, now, nil)
		if err != nil {
			p.err = err
			return
		}
		p.claimed = seenList(ts)
	case 4:
		ts, err := a.ShiftMatching(p.swamp, hydrapb.IndexType_KEY, hydrapb.OrderType_ASC, nil, nil, c30.ExpiredAtFilter(hydrapb.Relational_LESS_THAN, now))
		if err != nil {
			p.err = err
			return
		}
		p.claimed = seenList(ts)
	case 3:
		pe, err := a.PatchExpired(p.swamp, &hydrapb.PatchMeta{ClearExpiredAt: p.cClear, SetExpiredAt: p.cT.pb()}, nil)
		if err != nil {
			p.err = err
			return
		}
		for _, e := range pe {
			v, ok := c30.Nanos(e.ExpiredAt)
			p.claimed = append(p.claimed, seenKV{K: keyNum(e.Key), Exist: true, Has: ok, E: v})
		}
	}
	if p.r2, err = doReads(a, p); err != nil {
		p.err = fmt.Errorf("reads2: %w", err)
	}
}

// probeSaturation: does treasure.SetExpirationTime saturate (true) or wrap (false) for an
// instant beyond the int64 nanosecond range? Observed from the compiled code (M2: fed to the model).
func probeSaturation() bool {
	t := treasure.New(nil)
	g := t.StartTreasureGuard(true)
	defer t.ReleaseTreasureGuard(g)
	t.SetExpirationTime(g, time.Unix(year2300, 0).UTC())
	return t.GetExpirationTime() == math.MaxInt64
}

func main() {
	args := common.ParseArgs()
	run := common.NewRun(args, "C30", "HV.Record.Expiry")
	run.Shard = 120 // cases are ~1 KB each: smaller shards evaluate in parallel
	run.Meta.Rule = "non-trivial = the history stores at least one non-zero expiry and the case issues a claim or the final reads see at least one record with an expiry"
	rig.Quiet()
	root, _ := os.MkdirTemp("", "c30")
	defer os.RemoveAll(root)

	n := 480
	if args.Tier == "thorough" {
		n = 4000
	}
	rng := common.NewRng(args.Seed, "C30")
	plans := make([]*plan, n)
	for i := range plans {
		plans[i] = genPlan(rng, i, args.Tier)
	}
	sat := probeSaturation()
	run.Meta.Extra["set_expiration_time_saturates"] = sat

	register := func(s *rig.Server) {
		s.Register("c30/r/*", false, 3600, 1, 8192)
		s.Register("c30/i/*", false, 1, 1, 8192)
	}
	s := rig.Start(root, true)
	register(s)
	a := c30.New(s)
	common.Parallel(n, 16, func(i int) { phaseA(a, plans[i]) })
	time.Sleep(1500 * time.Millisecond) // let the 1 s idle-close pattern evict its swamps
	a.Close()
	s = s.Restart()
	register(s)
	a = c30.New(s)
	common.Parallel(n, 16, func(i int) { phaseB(a, plans[i]) })
	a.Close()
	// a second close + reload: whatever the history, the claim and the patches left must still be there
	s = s.Restart()
	register(s)
	a = c30.New(s)
	common.Parallel(n, 16, func(i int) {
		p := plans[i]
		if p.err != nil {
			return
		}
		var err error
		if p.r3, err = doReads(a, p); err != nil {
			p.err = fmt.Errorf("reads3: %w", err)
		}
	})
	a.Close()
	var stopOnce sync.Once
	stopOnce.Do(s.Stop)

	for _, p := range plans {
		if p.err != nil {
			fmt.Fprintf(os.Stderr, "c30: case %d: %v\n", p.idx, p.err)
			idx := run.Add("bad_case", map[string]interface{}{"swamp": p.swamp, "error": p.err.Error(), "ops": p.ops2}, false)
			run.Violate(idx, "harness", "rpc_error", p.err.Error())
			continue
		}
		ops := make([]string, 0, len(p.ops2)+2)
		ops = append(ops, common.App("OSet", common.N(sentinel), "KBytes", "None", noFlags))
		nonzero := false
		for i, o := range p.ops2 {
			if i == p.split {
				ops = append(ops, "OReload")
			}
			ops = append(ops, o.coq())
			run.Hist("op:" + o.Kind)
			if o.Kind == "set" || o.Kind == "patch" || o.Kind == "inc" {
				run.Hist("expiry:" + classNames[o.T.Cls])
			}
		}
		if p.split == len(p.ops2) {
			ops = append(ops, "OReload")
		}
		for _, g := range p.r1.get {
			if g.Exist && g.Has {
				nonzero = true
			}
		}
		claim := "None"
		nowZ := common.Z(p.t0)
		switch p.claim {
		case 1:
			claim = common.Some(common.App("OShiftExpired", nowZ))
		case 2, 4:
			claim = common.Some(common.App("OShiftWindow", nowZ))
		case 3:
			claim = common.Some(common.App("OPatchExpired", nowZ, common.Bool(p.cClear), p.cT.coq(), noFlags))
		}
		run.Hist(fmt.Sprintf("claim:%d", p.claim))
		if p.claim == 3 && len(p.claimed) > 0 {
			if p.cClear {
				run.Hist("patchexpired_clear_selected_then_index_reads")
			} else if p.cT.Has {
				run.Hist("patchexpired_set_" + classNames[p.cT.Cls] + "_selected_then_index_reads")
			}
		}
		run.Hist(fmt.Sprintf("claimed:%d", len(p.claimed)))
		if p.idle {
			run.Hist("idle_close_pattern")
		}
		last := "None"
		if p.lastSet {
			lo := p.ops2[len(p.ops2)-1]
			last = common.Some(fmt.Sprintf("(%s, %s, %s, %s)", common.N(uint64(p.lastKey)), common.Bool(lo.Clear), lo.T.coq(), common.Bool(p.lastOK)))
		}
		term := fmt.Sprintf("{| c_sat := %s; c_now := %s; c_ops := %s; c_r1 := %s; c_claim := %s; c_claimed := %s; c_r2 := %s; c_r3 := %s; c_last := %s |}",
			common.Bool(sat), nowZ, common.List(ops), p.r1.coq(), claim, coqSeenList(p.claimed), p.r2.coq(), p.r3.coq(), last)
		descr := map[string]interface{}{"swamp": p.swamp, "t0": p.t0, "ops": p.ops2, "reload_before_op": p.split, "claim": p.claim,
			"claim_clear": p.cClear, "claim_set": p.cT, "claimed": p.claimed, "get_before": p.r1.get, "get_after": p.r2.get,
			"idx_asc_before": p.r1.asc, "window": []int{p.winFrom, p.winTo}}
		run.Add(term, descr, nonzero && (p.claim != 0 || len(p.r1.asc) > 0))
	}
	run.Finish("check_all")
}
