// c10: parent of the C10 check. It runs the race-instrumented child $VERIF_BIN/c10r-race
// (harness/cmd/c10r: mixed readers against writers on one swamp of the real engine) several
// times, parses the race detector's reports, Go runtime fatal errors and the child's own
// event lines, maps every reported race (by the first HydrAIDE frame of each of the two
// stacks) to a pair of rows of the access table Conc/Lockset.v, and emits the cases that Coq
// judges: a race must be a pair the table predicts racy (else the table is wrong), every
// read must carry value and author of one version.
package main

import (
	"bytes"
	"fmt"
	"os"
	"os/exec"
	"path/filepath"
	"regexp"
	"strconv"
	"strings"
	"time"

	"verif/harness/common"
)

// mirror of Conc/Lockset.v: site pattern -> candidate row ids, row id -> (location, write?)
type site struct {
	re   *regexp.Regexp
	rows []int
}

var sites = []site{
	{regexp.MustCompile(`beacon\.\(\*beacon\)\.Add$`), []int{1, 8}},
	{regexp.MustCompile(`beacon\.\(\*beacon\)\.Delete$`), []int{2, 9}},
	{regexp.MustCompile(`beacon\.\(\*beacon\)\.PushManyFromMap$`), []int{3, 10}},
	{regexp.MustCompile(`beacon\.\(\*beacon\)\.(Get|IsExists|AreExists|Count)$`), []int{4}},
	{regexp.MustCompile(`beacon\.\(\*beacon\)\.GetAll$`), []int{5}},
	{regexp.MustCompile(`beacon\.\(\*beacon\)\.Iterate`), []int{6}},
	{regexp.MustCompile(`beacon\.\(\*beacon\)\.CloneUnorderedTreasures$`), []int{7}},
	{regexp.MustCompile(`beacon\.\(\*beacon\)\.SortBy`), []int{11}},
	{regexp.MustCompile(`beacon\.\(\*beacon\)\.CountMatching`), []int{14}},
	{regexp.MustCompile(`beacon\.\(\*beacon\)\.(Shift|SelectExpired)`), []int{15, 12}},
	{regexp.MustCompile(`beacon\.\(\*beacon\)\.(Reset|SetIsOrdered)$`), []int{16, 11}},
	{regexp.MustCompile(`beacon\.\(\*beacon\)\.ReindexExpiration`), []int{12}},
	{regexp.MustCompile(`beacon\.\(\*beacon\)\.GetManyFrom`), []int{13}},
	// reads made by the SubscribeToEvents callback in a run with removals (prefix "eventA:")
	{regexp.MustCompile(`^eventA:.*treasure\.\(\*treasure\)\.GetContent`), []int{70}},
	{regexp.MustCompile(`^eventA:.*treasure\.\(\*treasure\)\.GetCreatedAt$`), []int{71}},
	{regexp.MustCompile(`^eventA:.*treasure\.\(\*treasure\)\.GetCreatedBy$`), []int{72}},
	{regexp.MustCompile(`^eventA:.*treasure\.\(\*treasure\)\.GetModifiedAt$`), []int{73}},
	{regexp.MustCompile(`^eventA:.*treasure\.\(\*treasure\)\.GetModifiedBy$`), []int{74}},
	{regexp.MustCompile(`^eventA:.*treasure\.\(\*treasure\)\.GetExpirationTime$`), []int{75}},
	// reads made by the SubscribeToEvents callback (site names get the prefix "event:")
	{regexp.MustCompile(`^event:.*treasure\.\(\*treasure\)\.GetContent`), []int{60}},
	{regexp.MustCompile(`^event:.*treasure\.\(\*treasure\)\.GetCreatedAt$`), []int{61}},
	{regexp.MustCompile(`^event:.*treasure\.\(\*treasure\)\.GetCreatedBy$`), []int{62}},
	{regexp.MustCompile(`^event:.*treasure\.\(\*treasure\)\.GetModifiedAt$`), []int{63}},
	{regexp.MustCompile(`^event:.*treasure\.\(\*treasure\)\.GetModifiedBy$`), []int{64}},
	{regexp.MustCompile(`^event:.*treasure\.\(\*treasure\)\.GetExpirationTime$`), []int{65}},
	{regexp.MustCompile(`^filecb:.*treasure\.\(\*treasure\)\.BodySetFileName$`), []int{45}},
	{regexp.MustCompile(`treasure\.\(\*treasure\)\.BodySetFileName$`), []int{47}},
	{regexp.MustCompile(`treasure\.\(\*treasure\)\.GetFileName$`), []int{46}},
	{regexp.MustCompile(`swamp\.\(\*swamp\)\.(SaveFunction|deleteHandler)$`), []int{46}},
	{regexp.MustCompile(`treasure\.\(\*treasure\)\.SetContent`), []int{20, 43}},
	{regexp.MustCompile(`treasure\.\(\*treasure\)\.BodySetForDeletion$`), []int{21, 39, 41, 43}},
	{regexp.MustCompile(`treasure\.\(\*treasure\)\.GetContentType$`), []int{22}},
	{regexp.MustCompile(`treasure\.\(\*treasure\)\.GetContent`), []int{23}},
	{regexp.MustCompile(`treasure\.\(\*treasure\)\.(Clone|CloneContent|cloneContent)$`), []int{24}},
	{regexp.MustCompile(`treasure\.\(\*treasure\)\.SetCreatedAt$`), []int{30, 43}},
	{regexp.MustCompile(`treasure\.\(\*treasure\)\.GetCreatedAt$`), []int{31}},
	{regexp.MustCompile(`treasure\.\(\*treasure\)\.SetCreatedBy$`), []int{32, 43}},
	{regexp.MustCompile(`treasure\.\(\*treasure\)\.GetCreatedBy$`), []int{33}},
	{regexp.MustCompile(`treasure\.\(\*treasure\)\.SetModifiedAt$`), []int{34, 43}},
	{regexp.MustCompile(`treasure\.\(\*treasure\)\.GetModifiedAt$`), []int{35}},
	{regexp.MustCompile(`treasure\.\(\*treasure\)\.SetModifiedBy$`), []int{36, 43}},
	{regexp.MustCompile(`treasure\.\(\*treasure\)\.GetModifiedBy$`), []int{37}},
	{regexp.MustCompile(`treasure\.\(\*treasure\)\.SetExpirationTime$`), []int{38, 43}},
	{regexp.MustCompile(`treasure\.\(\*treasure\)\.GetExpirationTime$`), []int{40}},
	{regexp.MustCompile(`treasure\.\(\*treasure\)\.(GetDeletedAt|GetDeletedBy)$`), []int{42}},
	{regexp.MustCompile(`treasure\.\(\*treasure\)\.Is[A-Za-z]*Changed$`), []int{44}},
}

type rowInfo struct {
	loc string
	wr  bool
}

var rowsInfo = map[int]rowInfo{
	1: {"map", true}, 2: {"map", true}, 3: {"map", true}, 4: {"map", false}, 5: {"map", false}, 6: {"map", false}, 7: {"map", false},
	14: {"map", false}, 15: {"map", true}, 16: {"map", true},
	70: {"content", false}, 71: {"createdAt", false}, 72: {"createdBy", false}, 73: {"modifiedAt", false}, 74: {"modifiedBy", false}, 75: {"expiration", false},
	60: {"content", false}, 61: {"createdAt", false}, 62: {"createdBy", false}, 63: {"modifiedAt", false}, 64: {"modifiedBy", false}, 65: {"expiration", false},
	45: {"fileName", true}, 46: {"fileName", false}, 47: {"fileName", true},
	8: {"order", true}, 9: {"order", true}, 10: {"order", true}, 11: {"order", true}, 12: {"order", true}, 13: {"order", false},
	20: {"content", true}, 21: {"content", true}, 22: {"content", false}, 23: {"content", false}, 24: {"content", false},
	30: {"createdAt", true}, 31: {"createdAt", false}, 32: {"createdBy", true}, 33: {"createdBy", false},
	34: {"modifiedAt", true}, 35: {"modifiedAt", false}, 36: {"modifiedBy", true}, 37: {"modifiedBy", false},
	38: {"expiration", true}, 39: {"expiration", true}, 40: {"expiration", false},
	41: {"deleted", true}, 42: {"deleted", false}, 43: {"flags", true}, 44: {"flags", false},
}

// signatures become file names in the driver: keep them free of path separators and blanks
func clean(s string) string {
	s = strings.ReplaceAll(s, "/", ".")
	s = strings.ReplaceAll(s, " ", "_")
	if len(s) > 150 {
		s = s[:150]
	}
	return s
}

func candidates(fn string) []int {
	for _, s := range sites {
		if s.re.MatchString(fn) {
			return s.rows
		}
	}
	return nil
}

func mapPair(fa, fb string) (int, int, bool) {
	for _, a := range candidates(fa) {
		for _, b := range candidates(fb) {
			if rowsInfo[a].loc == rowsInfo[b].loc && (rowsInfo[a].wr || rowsInfo[b].wr) {
				return a, b, true
			}
		}
	}
	return 0, 0, false
}

type race struct {
	fa, fb string // first HydrAIDE frame of each stack
	text   string
}

var frameRe = regexp.MustCompile(`^  (\S.*)\(\)$`)

func parseRaces(stderr string, removals bool) []race {
	var out []race
	parts := strings.Split(stderr, "WARNING: DATA RACE")
	for _, p := range parts[1:] {
		if i := strings.Index(p, "=================="); i >= 0 {
			p = p[:i]
		}
		blocks := strings.Split(strings.TrimSpace(p), "\n\n")
		var tops []string
		for bi, b := range blocks {
			if bi >= 2 {
				break
			}
			top, first := "", ""
			inEvent := strings.Contains(b, "Gateway.SubscribeToEvents")
			for _, l := range strings.Split(b, "\n")[1:] {
				m := frameRe.FindStringSubmatch(l)
				if m == nil {
					continue
				}
				if first == "" {
					first = m[1]
				}
				if strings.Contains(m[1], "hydraide/hydraide/app/") {
					top = strings.Replace(m[1], "github.com/hydraide/hydraide/app/", "", 1)
					break
				}
			}
			if top == "" {
				top = first
			}
			if inEvent && strings.Contains(top, "treasure.(*treasure).Get") {
				top = "event:" + top
				if removals {
					top = "eventA:" + strings.TrimPrefix(top, "event:")
				}
			}
			if strings.Contains(b, "FilePointerCallbackFunction") && strings.HasSuffix(top, "BodySetFileName") {
				top = "filecb:" + top
			}
			tops = append(tops, top)
		}
		for len(tops) < 2 {
			tops = append(tops, "?")
		}
		if len(p) > 3000 {
			p = p[:3000]
		}
		out = append(out, race{tops[0], tops[1], p})
	}
	return out
}

var eventRe = regexp.MustCompile(`^(EVENT|ETORN|EDUP) key=(\S+) value=(-?\d+) updatedBy="(-?\d*)"`)

// lock-order inversion found by agent a14: a scan of an index beacon (ShiftMatching, ShiftExpired,
// CloneUnorderedTreasures, ...) holds the beacon mutex and waits for a record guard while a guard
// holder (deleteHandler / SaveFunction) waits for that beacon mutex
func isIndexGuardDeadlock(dump string) bool {
	a, b := false, false
	for _, g := range strings.Split(dump, "\n\n") {
		if strings.Contains(g, "guard.(*guard).StartTreasureGuard") && strings.Contains(g, "beacon.(*beacon).") {
			a = true
		}
		if (strings.Contains(g, "sync.(*RWMutex).Lock") || strings.Contains(g, "sync.(*RWMutex).RLock")) && strings.Contains(g, "beacon.(*beacon).") &&
			(strings.Contains(g, "(*swamp).deleteHandler") || strings.Contains(g, "(*swamp).SaveFunction")) {
			b = true
		}
	}
	return a && b
}

var readRe = regexp.MustCompile(`^(TORN|READ) (\S+) key=(\S+) value=(-?\d+) updatedBy="(-?\d*)"`)

func main() {
	args := common.ParseArgs()
	run := common.NewRun(args, "C10", "HV.Conc.Lockset")
	run.Meta.Rule = "a case is one data-race report (mapped to two table rows), or one read with its value/author pair; non-trivial = a race report, or a read taken while writers were running"
	bin := filepath.Join(os.Getenv("VERIF_BIN"), "c10r-race")
	if _, err := os.Stat(bin); err != nil {
		fmt.Fprintln(os.Stderr, "race child not found:", bin)
		os.Exit(2)
	}
	type cfg struct {
		mode  string
		phase string
		ms    int
	}
	runs := []cfg{{"mem", "A", 2500}, {"imm", "A", 2500}, {"mem", "B", 2500}, {"imm", "B", 2500}, {"def", "A", 1500}}
	if args.Tier == "thorough" {
		runs = nil
		for i := 0; i < 5; i++ {
			for _, m := range []string{"mem", "def", "imm"} {
				runs = append(runs, cfg{m, "A", 8000}, cfg{m, "B", 8000})
			}
		}
	}
	seenPairs := map[string]bool{}
	phaseOf := map[int]string{}
	for i, r := range runs {
		phaseOf[i] = r.phase
	}
	for ri, rc := range runs {
		cmd := exec.Command(bin, "--seed", strconv.FormatUint(args.Seed+uint64(ri), 10), "--ms", strconv.Itoa(rc.ms), "--mode", rc.mode, "--phase", rc.phase)
		panicLog := filepath.Join(args.Out, fmt.Sprintf("panics_%d.log", ri))
		os.Remove(panicLog)
		cmd.Env = append(os.Environ(), "GORACE=halt_on_error=0", "VERIF_PANIC_LOG="+panicLog)
		var so, se bytes.Buffer
		cmd.Stdout, cmd.Stderr = &so, &se
		done := make(chan error, 1)
		if err := cmd.Start(); err != nil {
			fmt.Fprintln(os.Stderr, "cannot start child:", err)
			os.Exit(2)
		}
		go func() { done <- cmd.Wait() }()
		var werr error
		hung := false
		select {
		case werr = <-done:
		case <-time.After(time.Duration(rc.ms)*time.Millisecond*20 + 120*time.Second):
			cmd.Process.Kill()
			hung = true
			<-done
		}
		stdout, stderr := so.String(), se.String()
		tag := fmt.Sprintf("run %d (%s, phase %s)", ri, rc.mode, rc.phase)
		run.Hist("phase:" + rc.phase + ":" + rc.mode)
		run.Hist("child_runs")
		finished := false
		for _, l := range strings.Split(stdout, "\n") {
			switch {
			case strings.HasPrefix(l, "DONE "):
				finished = true
				var rd, wr uint64
				fmt.Sscanf(l, "DONE reads=%d writes=%d", &rd, &wr)
				run.Add(common.App("CQuiet", common.N(rd), common.N(wr)), map[string]interface{}{"run": tag, "line": l}, rd > 0 && wr > 0)
				run.HistN("reads", int(rd))
				run.HistN("writes", int(wr))
			case strings.HasPrefix(l, "TORN ") || strings.HasPrefix(l, "READ "):
				m := readRe.FindStringSubmatch(l)
				if m == nil {
					idx := run.Add("(CQuiet 0 0)", map[string]interface{}{"run": tag, "line": l}, false)
					run.Violate(idx, "every read returns one committed version", "read_unparsable_author", l)
					continue
				}
				v, _ := strconv.ParseInt(m[4], 10, 64)
				by := int64(-1)
				if m[5] != "" {
					by, _ = strconv.ParseInt(m[5], 10, 64)
				}
				run.Add(common.App("CRead", common.Z(v), common.Z(by)), map[string]interface{}{"run": tag, "reader": m[2], "key": m[3], "value": v, "updatedBy": m[5]}, true)
				run.Hist("read:" + strings.ToLower(m[1]))
			case strings.HasPrefix(l, "EVENT ") || strings.HasPrefix(l, "ETORN ") || strings.HasPrefix(l, "EDUP "):
				m := eventRe.FindStringSubmatch(l)
				if m == nil {
					idx := run.Add("(CQuiet 0 0)", map[string]interface{}{"run": tag, "line": l}, false)
					run.Violate(idx, "every read returns one committed version", "event_unparsable_author", l)
					continue
				}
				v, _ := strconv.ParseInt(m[3], 10, 64)
				by := int64(-1)
				if m[4] != "" {
					by, _ = strconv.ParseInt(m[4], 10, 64)
				}
				ctor := "CEvent"
				if m[1] == "EDUP" {
					ctor = "CEventDup"
				}
				run.Add(common.App(ctor, common.Z(v), common.Z(by)), map[string]interface{}{"run": tag, "reader": "SubscribeToEvents", "kind": m[1], "key": m[2], "value": v, "updatedBy": m[4]}, true)
				run.Hist("event:" + strings.ToLower(m[1]))
			case strings.HasPrefix(l, "BREAD ") || strings.HasPrefix(l, "BTORN "):
				torn := strings.HasPrefix(l, "BTORN ")
				run.Add(common.App("CBytes", common.Bool(!torn)), map[string]interface{}{"run": tag, "line": l}, true)
				if torn {
					run.Hist("bytes:torn")
				} else {
					run.Hist("bytes:read")
				}
			case strings.HasPrefix(l, "NILREPLY ") && panicSites(panicLog) != "":
				// the recovered panic's own stack names the site: one signature per (panic value, first
				// hydraide frames), so that only that exact site can be a listed finding
				idx := run.Add("(CQuiet 0 0)", map[string]interface{}{"run": tag, "line": l, "panic": panicSites(panicLog)}, false)
				run.Violate(idx, "no request panics", clean("request_panicked_at:"+panicSites(panicLog)), tag+": "+l+" :: "+panicSites(panicLog))
			case strings.HasPrefix(l, "NILREPLY "):
				idx := run.Add("(CQuiet 0 0)", map[string]interface{}{"run": tag, "line": l}, false)
				run.Violate(idx, "no request panics", clean("request_panicked:"+strings.TrimPrefix(l, "NILREPLY ")), tag+": "+l)
			case strings.HasPrefix(l, "ERR "):
				idx := run.Add("(CQuiet 0 0)", map[string]interface{}{"run": tag, "line": l}, false)
				f := strings.Fields(l)
				run.Violate(idx, "no request fails", clean("request_error:"+f[1]), tag+": "+l)
			}
		}
		for _, rc := range parseRaces(stderr, phaseOf[ri] == "A") {
			a, b, ok := mapPair(rc.fa, rc.fb)
			key := rc.fa + "|" + rc.fb
			if !ok {
				if rc.fb < rc.fa {
					key = rc.fb + "|" + rc.fa
				}
				idx := run.Add("(CRace 0 0)", map[string]interface{}{"run": tag, "sites": key, "report": rc.text}, true)
				_ = idx
				run.Hist("race:unlisted")
				if !seenPairs["U"+key] {
					seenPairs["U"+key] = true
					run.Violate(idx, "no unsynchronised access to shared memory", clean("race_unlisted:"+key), tag+": data race between sites that are not rows of Conc/Lockset.v:\n"+rc.text)
				}
				continue
			}
			descr := map[string]interface{}{"run": tag, "sites": key, "rows": []int{a, b}}
			if !seenPairs[key] {
				seenPairs[key] = true
				descr["report"] = rc.text
			}
			run.Add(common.App("CRace", common.N(uint64(a)), common.N(uint64(b))), descr, true)
			run.Hist(fmt.Sprintf("race:%d-%d", a, b))
		}
		if i := strings.Index(stderr, "fatal error:"); i >= 0 {
			line := stderr[i:]
			if j := strings.Index(line, "\n"); j >= 0 {
				line = line[:j]
			}
			tail := stderr[i:]
			if len(tail) > 4000 {
				tail = tail[:4000]
			}
			idx := run.Add("(CQuiet 0 0)", map[string]interface{}{"run": tag, "fatal": tail}, false)
			sig := clean("fatal:" + strings.TrimSpace(strings.TrimPrefix(line, "fatal error:")))
			run.Violate(idx, "the server process never crashes", sig, tag+": "+tail)
		} else if strings.Contains(stdout, "\nHANG\n") || strings.HasPrefix(stdout, "HANG\n") || strings.Contains(stdout, "STOPHANG") {
			dump := stderr
			if i := strings.Index(dump, "goroutine dump:"); i >= 0 {
				dump = dump[i:]
			}
			sig := "requests_hang"
			if strings.Contains(stdout, "STOPHANG") {
				sig = "shutdown_hang"
			}
			if isIndexGuardDeadlock(dump) {
				sig = "deadlock_index_lock_vs_record_guard"
			}
			if len(dump) > 60000 {
				dump = dump[:60000]
			}
			idx := run.Add("(CQuiet 0 0)", map[string]interface{}{"run": tag, "stacks": dump}, false)
			run.Violate(idx, "requests terminate", sig, tag+": the load did not finish; goroutine stacks in the case description")
		} else if hung {
			idx := run.Add("(CQuiet 0 0)", map[string]interface{}{"run": tag}, false)
			run.Violate(idx, "requests terminate", "child_hang", tag+": the load did not finish")
		} else if !finished {
			tail := stderr
			if len(tail) > 4000 {
				tail = tail[len(tail)-4000:]
			}
			idx := run.Add("(CQuiet 0 0)", map[string]interface{}{"run": tag, "stderr": tail, "exit": fmt.Sprint(werr)}, false)
			run.Violate(idx, "the server process never crashes", "child_crashed", tag+": child ended without DONE: "+fmt.Sprint(werr)+"\n"+tail)
		}
	}
	run.Meta.Traces = len(runs)
	run.Finish("check_all")
}


// panicSites summarises the recovered gateway panics a child run logged (rig.Quiet writes them to
// VERIF_PANIC_LOG): for the first one, the panic class and the first two hydraide frames below
// the panic, e.g. "nil_pointer:treasure.GetContentInt64<gateway.treasureToKeyValuePair".
func panicSites(path string) string {
	b, err := os.ReadFile(path)
	if err != nil || len(b) == 0 {
		return ""
	}
	txt := string(b)
	class := "panic"
	if strings.Contains(txt, "nil pointer dereference") {
		class = "nil_pointer"
	} else if strings.Contains(txt, "index out of range") {
		class = "index_out_of_range"
	} else if strings.Contains(txt, "concurrent map") {
		class = "concurrent_map"
	}
	lines := strings.Split(txt, "\n")
	var frames []string
	after := false
	for _, l := range lines {
		if strings.HasPrefix(l, "panic(") {
			after = true
			continue
		}
		if !after || strings.HasPrefix(l, "\t") || !strings.Contains(l, "github.com/hydraide/hydraide/") {
			continue
		}
		f := l[strings.LastIndex(l, "/")+1:]
		if i := strings.Index(f, "("); i > 0 {
			// strip the receiver type and the argument list: treasure.(*treasure).GetContentInt64(0x..) -> treasure.GetContentInt64
			pkg := f[:strings.Index(f, ".")]
			name := f[:strings.LastIndex(f, "(")]
			name = name[strings.LastIndex(name, ".")+1:]
			f = pkg + "." + name
			if pkg == "treasure" && strings.HasPrefix(name, "GetContent") {
				f = "treasure.GetContent*" // one family: every typed getter has the same check-then-read shape
			}
		}
		frames = append(frames, f)
		if len(frames) == 2 {
			break
		}
	}
	return class + ":" + strings.Join(frames, "<")
}
