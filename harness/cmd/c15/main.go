// c15: correspondence check for the record guard (guard.go) against Conc/Guard.v.
//
// Every case is a sequence of client operations executed on a real guard.New(); blocked
// waiting starts run in goroutines. After each operation the harness waits for quiescence
// (every goroutine whose id is at the head has returned), records the queue snapshot and
// the returned ids, and emits the observed trace as a Coq term. Conc/Guard.v replays it
// (model = impl?) and evaluates the property oracle on the observations alone.
package main

import (
	"fmt"
	"time"

	"github.com/hydraide/hydraide/app/core/hydra/swamp/treasure/guard"
	"verif/harness/common"
)

type opKind int

const (
	opStartW opKind = iota
	opStartN
	opRelOwn   // release the id the client currently holds (skip if none)
	opRelStale // release again the id the client released most recently (skip if none)
	opRelPrev  // release the oldest id ever returned to the client
	opRelAlien // release an id this guard never handed out to this client: a larger id (as from a busier record's guard), 0, a negative id, or the current head's id + 1
	opRelBarge // release own id and, back to back on the same goroutine (before a woken waiter can run), a non-waiting start by client D
)

type op struct {
	K opKind `json:"k"`
	C int    `json:"c"`
	D int    `json:"d,omitempty"`
	A bool   `json:"a,omitempty"` // waiting start that passes guard.BodyAuthID
}

var kindName = map[opKind]string{opStartW: "StartW", opStartN: "StartN", opRelOwn: "RelOwn", opRelStale: "RelStale", opRelPrev: "RelPrev", opRelBarge: "RelOwn+StartN-by", opRelAlien: "RelAlien"}

type clientState struct {
	pending  bool
	ch       chan int64
	holding  []int64 // returned, not yet released by this client
	released []int64
	all      []int64
}

// runCase executes ops on a fresh guard and returns the observed trace as Coq obs terms.
func runCase(ops []op, nclients int) (terms []string, human []string, nontrivial bool, hang bool, lastSkipped bool) {
	panicked := false
	defer func() {
		if panicked {
			human = append(human, "PANIC")
		}
	}()
	g := guard.New()
	cs := make([]*clientState, nclients)
	for i := range cs {
		cs[i] = &clientState{}
	}
	maxQ := 0
	collect := func() {
		// wait until every pending goroutine whose id is at the head has returned
		deadline := time.Now().Add(2 * time.Second)
		for {
			q := guard.QueueSnapshot(g)
			if len(q) > maxQ {
				maxQ = len(q)
			}
			progressed := false
			for ci, c := range cs {
				if !c.pending {
					continue
				}
				select {
				case id := <-c.ch:
					c.pending = false
					if id == -999 {
						panicked = true
						human = append(human, fmt.Sprintf("start of c%d PANICKED inside the guard", ci))
						progressed = true
						continue
					}
					c.holding = append(c.holding, id)
					c.all = append(c.all, id)
					terms = append(terms, common.App("OReturn", common.Nat(ci), common.Z(id)))
					human = append(human, fmt.Sprintf("return c%d id=%d", ci, id))
					progressed = true
				default:
				}
			}
			if progressed {
				continue
			}
			// is some pending client's id at the head but not returned yet? we cannot know the
			// pending ids; approximate: the head is not held by anybody => someone must return
			headHeld := false
			if len(q) > 0 {
				for _, c := range cs {
					for _, h := range c.holding {
						if h == q[0] {
							headHeld = true
						}
					}
				}
			}
			anyPending := false
			for _, c := range cs {
				anyPending = anyPending || c.pending
			}
			if len(q) == 0 || headHeld || !anyPending {
				// give a stray (wrong) early return a moment to show up
				if anyPending {
					time.Sleep(100 * time.Microsecond)
				}
				stray := false
				for _, c := range cs {
					if c.pending && len(c.ch) > 0 {
						stray = true
					}
				}
				if stray {
					continue
				}
				return
			}
			if time.Now().After(deadline) {
				hang = true
				return
			}
			time.Sleep(50 * time.Microsecond)
		}
	}
	for _, o := range ops {
		c := cs[o.C]
		before := len(terms)
		lastSkipped = true
		_ = before
		switch o.K {
		case opStartW:
			if c.pending {
				continue
			}
			before := len(guard.QueueSnapshot(g))
			c.pending = true
			c.ch = make(chan int64, 1)
			go func(ch chan int64, auth bool) {
				defer func() {
					if r := recover(); r != nil {
						ch <- -999 // the waiting start panicked inside the guard
					}
				}()
				if auth {
					ch <- int64(g.StartTreasureGuard(true, guard.BodyAuthID))
				} else {
					ch <- int64(g.StartTreasureGuard(true))
				}
			}(c.ch, o.A)
			// wait for the enqueue to be visible
			dl := time.Now().Add(2 * time.Second)
			for len(guard.QueueSnapshot(g)) == before && time.Now().Before(dl) {
				time.Sleep(20 * time.Microsecond)
			}
			q := guard.QueueSnapshot(g)
			terms = append(terms, common.App("OStartW", common.Nat(o.C), common.ZList(q)))
			human = append(human, fmt.Sprintf("startW c%d q=%v", o.C, q))
		case opStartN:
			if c.pending {
				continue
			}
			id := int64(g.StartTreasureGuard(false))
			if id != 0 {
				c.holding = append(c.holding, id)
				c.all = append(c.all, id)
			}
			q := guard.QueueSnapshot(g)
			terms = append(terms, common.App("OStartN", common.Nat(o.C), common.Z(id), common.ZList(q)))
			human = append(human, fmt.Sprintf("startN c%d -> %d q=%v", o.C, id, q))
		case opRelAlien:
			if c.pending {
				continue
			}
			q0 := guard.QueueSnapshot(g)
			var id int64
			switch o.D % 4 {
			case 0:
				id = 1000 + int64(o.D) // far above anything issued here
			case 1:
				id = 0
			case 2:
				id = -3
			default:
				if len(q0) > 0 {
					id = q0[len(q0)-1] + 1 // the next id that will be issued, not issued yet
				} else {
					id = 7
				}
			}
			g.ReleaseTreasureGuard(guard.ID(id))
			q := guard.QueueSnapshot(g)
			terms = append(terms, common.App("ORelease", common.Nat(o.C), common.Z(id), common.ZList(q)))
			human = append(human, fmt.Sprintf("release c%d alien id=%d q=%v", o.C, id, q))
			nontrivial = true
		case opRelBarge:
			d := cs[o.D]
			if c.pending || d.pending || len(c.holding) == 0 || o.C == o.D {
				continue
			}
			id := c.holding[0]
			c.holding = c.holding[1:]
			c.released = append(c.released, id)
			// hand-over window: the release wakes the next waiter; the non-waiting start
			// runs before that waiter has been scheduled again
			g.ReleaseTreasureGuard(guard.ID(id))
			nid := int64(g.StartTreasureGuard(false))
			q2 := guard.QueueSnapshot(g)
			q1 := q2
			if nid != 0 {
				d.holding = append(d.holding, nid)
				d.all = append(d.all, nid)
				if len(q2) > 0 {
					q1 = q2[:len(q2)-1]
				}
			}
			terms = append(terms, common.App("ORelease", common.Nat(o.C), common.Z(id), common.ZList(q1)))
			terms = append(terms, common.App("OStartN", common.Nat(o.D), common.Z(nid), common.ZList(q2)))
			human = append(human, fmt.Sprintf("release c%d id=%d q=%v ; immediately startN c%d -> %d q=%v", o.C, id, q1, o.D, nid, q2))
			nontrivial = true
		case opRelOwn, opRelStale, opRelPrev:
			if c.pending {
				continue // a client blocked inside Start cannot call Release
			}
			var id int64
			switch o.K {
			case opRelOwn:
				if len(c.holding) == 0 {
					continue
				}
				id = c.holding[0]
				c.holding = c.holding[1:]
				c.released = append(c.released, id)
			case opRelStale:
				if len(c.released) == 0 {
					continue
				}
				id = c.released[len(c.released)-1]
				nontrivial = true
			case opRelPrev:
				if len(c.all) == 0 {
					continue
				}
				id = c.all[0]
				// if the client still holds it, this is an own release
				for i, h := range c.holding {
					if h == id {
						c.holding = append(c.holding[:i], c.holding[i+1:]...)
						c.released = append(c.released, id)
						break
					}
				}
			}
			g.ReleaseTreasureGuard(guard.ID(id))
			q := guard.QueueSnapshot(g)
			terms = append(terms, common.App("ORelease", common.Nat(o.C), common.Z(id), common.ZList(q)))
			human = append(human, fmt.Sprintf("release c%d id=%d q=%v", o.C, id, q))
		}
		lastSkipped = false
		collect()
		if hang {
			break
		}
	}
	mainHang := hang
	// drain: every client releases what it holds (only ids that were returned to it), blocked
	// starts are collected as they return; nothing is recorded any more
	nrec := len(terms)
	nhum := len(human)
	for round := 0; round < 4*len(ops)+8 && !hang; round++ {
		collect()
		any := false
		for _, c := range cs {
			for _, h := range c.holding {
				g.ReleaseTreasureGuard(guard.ID(h))
				any = true
			}
			c.holding = nil
		}
		pend := false
		for _, c := range cs {
			pend = pend || c.pending
		}
		if !any && !pend {
			break
		}
	}
	terms = terms[:nrec]
	human = human[:nhum]
	hang = mainHang
	if maxQ >= 2 {
		nontrivial = true
	}
	return
}

func main() {
	a := common.ParseArgs()
	run := common.NewRun(a, "C15", "HV.Conc.Guard")
	run.Meta.Rule = "a case is a sequence of start-waiting/start-nonwaiting/release-own/release-stale/release-oldest operations by up to 3 clients on one real guard; exhaustive over all sequences up to the stated length plus seeded random longer ones; non-trivial = at some instant two callers were queued, or a stale/duplicate release was issued; distinct = distinct observed traces"
	rng := common.NewRng(a.Seed, "C15")

	alphabet := func(ncl int) []op {
		var al []op
		for c := 0; c < ncl; c++ {
			for _, k := range []opKind{opStartW, opStartN, opRelOwn, opRelStale, opRelPrev} {
				al = append(al, op{K: k, C: c})
			}
		}
		return al
	}
	type job struct {
		ops []op
		ncl int
		tag string
	}
	type result struct {
		terms, human []string
		nt, hang     bool
	}
	var jobs []job
	emit := func(ops []op, ncl int, tag string) { jobs = append(jobs, job{ops, ncl, tag}) }
	flush := func() {
		res := make([]result, len(jobs))
		common.Parallel(len(jobs), 16, func(i int) {
			t, h, nt, hang, _ := runCase(jobs[i].ops, jobs[i].ncl)
			res[i] = result{t, h, nt, hang}
		})
		for i, j := range jobs {
			r := res[i]
			idx := run.Add(common.List(r.terms), map[string]interface{}{"kind": j.tag, "ops": opsHuman(j.ops), "observed": r.human}, r.nt)
			run.Hist(fmt.Sprintf("len_%02d", len(r.terms)))
			if r.hang {
				run.Violate(idx, "no-stuck-waiter", "head_waiter_not_woken", "a queued start at the head did not return within 2s")
			}
			if len(r.human) > 0 && r.human[len(r.human)-1] == "PANIC" {
				run.Violate(idx, "exclusive access without crashing", "waiting_start_panicked", "a waiting StartTreasureGuard panicked (its id was removed from the queue while it waited)")
			}
		}
		jobs = nil
	}
	// exhaustive: 2 clients, all sequences up to length L2; 3 clients up to L3
	L2, L3, nrand, rlen := 5, 4, 200, 14
	if a.Tier == "thorough" {
		L2, L3, nrand, rlen = 7, 5, 4000, 30
	}
	// depth-first over operation sequences; a prefix whose last operation is not applicable
	// (e.g. release-own by a client that holds nothing) is pruned with its whole subtree, so
	// every emitted sequence consists of applicable operations only
	var rec func(prefix []op, al []op, depth, ncl int, out *[]job)
	rec = func(prefix []op, al []op, depth, ncl int, out *[]job) {
		if len(prefix) > 0 {
			_, _, _, _, skipped := runCase(prefix, ncl)
			if skipped {
				return
			}
		}
		if depth == 0 {
			*out = append(*out, job{append([]op{}, prefix...), ncl, "exhaustive"})
			return
		}
		for _, o := range al {
			rec(append(append([]op{}, prefix...), o), al, depth-1, ncl, out)
		}
	}
	exhaustive := func(al []op, depth, ncl int) {
		// one worker per (first op, second op) subtree; results merged in enumeration order
		var roots [][]op
		for _, o1 := range al {
			for _, o2 := range al {
				roots = append(roots, []op{o1, o2})
			}
		}
		outs := make([][]job, len(roots))
		common.Parallel(len(roots), 16, func(i int) {
			if _, _, _, _, sk := runCase(roots[i][:1], ncl); sk {
				return
			}
			rec(roots[i], al, depth-2, ncl, &outs[i])
		})
		for _, o := range outs {
			jobs = append(jobs, o...)
		}
	}
	exhaustive(alphabet(2), L2, 2)
	exhaustive(alphabet(3), L3, 3)
	run.Meta.Extra["exhaustive"] = fmt.Sprintf("all sequences of length %d over 2 clients and length %d over 3 clients (alphabet of 5 ops per client)", L2, L3)
	for i := 0; i < nrand; i++ {
		ncl := 2 + rng.Intn(2)
		al := alphabet(ncl)
		n := 5 + rng.Intn(rlen)
		ops := make([]op, n)
		for j := range ops {
			ops[j] = al[rng.Intn(len(al))]
			if ops[j].K == opStartW && rng.Chance(25) {
				ops[j].A = true
			}
			if rng.Chance(8) {
				ops[j] = op{K: opRelAlien, C: ops[j].C, D: rng.Intn(8)}
			}
		}
		emit(ops, ncl, "random")
	}
	// arrival order with body-authorised starts: 4-6 clients queue up (some pass BodyAuthID),
	// then everybody releases; returns must follow the arrival order whatever the auth id
	na := 150
	if a.Tier == "thorough" {
		na = 2000
	}
	for i := 0; i < na; i++ {
		ncl := 4 + rng.Intn(3)
		var ops []op
		for c := 0; c < ncl; c++ {
			ops = append(ops, op{K: opStartW, C: c, A: rng.Chance(40)})
		}
		for j := 0; j < ncl+rng.Intn(4); j++ {
			c := rng.Intn(ncl)
			switch rng.Intn(5) {
			case 0:
				ops = append(ops, op{K: opRelStale, C: c})
			case 1:
				ops = append(ops, op{K: opStartW, C: c, A: rng.Chance(60)})
			default:
				ops = append(ops, op{K: opRelOwn, C: j % ncl})
			}
		}
		emit(ops, ncl, "auth")
	}
	// alien ids: with a holder and waiters queued, somebody releases an id this guard never gave him
	nal := 160
	if a.Tier == "thorough" {
		nal = 2000
	}
	for i := 0; i < nal; i++ {
		ncl := 3 + rng.Intn(3)
		var ops []op
		for c := 0; c < ncl-1; c++ {
			ops = append(ops, op{K: opStartW, C: c})
		}
		ops = append(ops, op{K: opRelAlien, C: rng.Intn(ncl), D: rng.Intn(8)})
		for j := rng.Intn(5); j > 0; j-- {
			switch rng.Intn(3) {
			case 0:
				ops = append(ops, op{K: opRelAlien, C: rng.Intn(ncl), D: rng.Intn(8)})
			case 1:
				ops = append(ops, op{K: opRelOwn, C: rng.Intn(ncl)})
			default:
				ops = append(ops, op{K: opStartW, C: ncl - 1})
			}
		}
		emit(ops, ncl, "alien")
	}
	// hand-over window: holder releases while waiters are parked and a non-waiting start arrives
	// before the woken waiter runs
	nh := 120
	if a.Tier == "thorough" {
		nh = 1500
	}
	for i := 0; i < nh; i++ {
		ops := []op{{K: opStartW, C: 0}, {K: opStartW, C: 1}}
		if rng.Bool() {
			ops = append(ops, op{K: opStartW, C: 2})
		}
		ops = append(ops, op{K: opRelBarge, C: 0, D: 2 + rng.Intn(2)})
		for j := rng.Intn(4); j > 0; j-- {
			al := alphabet(4)
			ops = append(ops, al[rng.Intn(len(al))])
		}
		emit(ops, 4, "handoff")
	}
	// the refutation witness of the old id policy, as client programs
	emit([]op{{K: opStartW, C: 0}, {K: opRelOwn, C: 0}, {K: opStartW, C: 1}, {K: opRelStale, C: 0}, {K: opStartW, C: 2}}, 3, "witness")
	flush()
	run.Meta.Traces = run.Meta.Evaluations
	run.Finish("check_all")
}

func opsHuman(ops []op) []string {
	out := make([]string, len(ops))
	for i, o := range ops {
		out[i] = fmt.Sprintf("%s c%d", kindName[o.K], o.C)
		if o.A {
			out[i] += " (BodyAuthID)"
		}
		if o.K == opRelBarge {
			out[i] += fmt.Sprintf(" c%d", o.D)
		}
	}
	return out
}
