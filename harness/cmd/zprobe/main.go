package main

import (
	"fmt"
	"time"

	"github.com/hydraide/hydraide/app/core/compressor"
)

func main() {
	x := []byte("The quick brown fox jumps over the lazy dog 0123456789")
	for t := compressor.Type(1); t <= 4; t++ {
		c := compressor.New(t)
		y, _ := c.Compress(x)
		t0 := time.Now()
		for i := 0; i < 1000; i++ {
			c.Decompress(y)
		}
		d1 := time.Since(t0)
		y[len(y)/2] ^= 4
		t0 = time.Now()
		for i := 0; i < 1000; i++ {
			c.Decompress(y)
		}
		fmt.Println(t, d1/1000, time.Since(t0)/1000)
	}
}
