// c17: correspondence check for the lifecycle waits (vigil.go and the waits built on it)
// against Conc/Vigil.v.
//
//  1. forced schedules: waiters and operations of one real vigil.New() run as goroutines that
//     park at the harness-level points (before Begin, before Cease, before Wait) and at the
//     source hooks vigil.wait.check (between the emptiness check and cond.Wait, mutex held) and
//     vigil.cease.gap (between the decrement and the Broadcast). A schedule is a list of thread
//     names; each token releases that thread (if it is parked) and the harness then waits for
//     quiescence, decided from the goroutine states of runtime.Stack (no thread running or
//     runnable - no timing assumption). All interleavings are enumerated for small thread
//     counts, sampled for larger ones. The recorded trace is replayed through the model, a
//     waiter that is still asleep after everything has ceased is a lost wake-up.
//  2. free-running stress rounds with a 2 s watchdog per wait.
//  3. the real swamp: Destroy's drain through the gateway's auto-destroy path (counter balance,
//     Destroy waits for a foreign vigil and returns once it is ceased).
//  4. safeops.WaitForUnlock against Lock/Unlock pairs.
package main

import (
	"bytes"
	"context"
	"encoding/json"
	"flag"
	"fmt"
	"os"
	"os/exec"
	"os/signal"
	"path/filepath"
	"runtime"
	"strconv"
	"strings"
	"sync"
	"sync/atomic"
	"syscall"
	"time"

	"github.com/hydraide/hydraide/app/core/hydra/swamp"
	"github.com/hydraide/hydraide/app/core/hydra/swamp/treasure"
	"github.com/hydraide/hydraide/app/core/hydra/swamp/vigil"
	"github.com/hydraide/hydraide/app/core/safeops"
	"github.com/hydraide/hydraide/app/verifhook"
	hydrapb "github.com/hydraide/hydraide/sdk/go/hydraidego/v3/hydraidepbgo"
	"verif/harness/common"
	"verif/harness/rig"
)

// ---- goroutine states ---------------------------------------------------------------------

var stackBuf = sync.Pool{New: func() any { b := make([]byte, 256<<10); return &b }}

// gstates returns goroutine id -> wait state ("running", "runnable", "chan receive",
// "sync.Mutex.Lock", "sync.Cond.Wait", ...) from one consistent (stop-the-world) snapshot.
func gstates() map[int64]string {
	bp := stackBuf.Get().(*[]byte)
	buf := *bp
	for {
		n := runtime.Stack(buf, true)
		if n < len(buf) {
			buf = buf[:n]
			break
		}
		buf = make([]byte, 2*len(buf))
	}
	out := map[int64]string{}
	rest := buf
	pfx := []byte("goroutine ")
	for len(rest) > 0 {
		nl := bytes.IndexByte(rest, '\n')
		line := rest
		if nl >= 0 {
			line = rest[:nl]
			rest = rest[nl+1:]
		} else {
			rest = nil
		}
		if !bytes.HasPrefix(line, pfx) {
			continue
		}
		l := line[len(pfx):]
		sp := bytes.IndexByte(l, ' ')
		if sp < 0 {
			continue
		}
		id, err := strconv.ParseInt(string(l[:sp]), 10, 64)
		if err != nil {
			continue
		}
		lb := bytes.IndexByte(l, '[')
		rb := bytes.IndexByte(l, ']')
		if lb < 0 || rb < lb {
			continue
		}
		stt := l[lb+1 : rb]
		if c := bytes.IndexByte(stt, ','); c >= 0 {
			stt = stt[:c]
		}
		out[id] = string(stt)
	}
	full := buf[:cap(buf)]
	*bp = full
	stackBuf.Put(bp)
	return out
}

// waitingState: the wait states in which a thread of a forced case can only be woken by
// another thread of the case or by the harness. Everything else ("running", "runnable",
// "semacquire" = waiting for the GC / stop-the-world semaphore inside an allocation,
// "GC assist wait", "preempted", ...) is transient and counts as busy.
func waitingState(s string, parked bool) bool {
	switch s {
	case "chan receive":
		return parked
	case "sync.Mutex.Lock", "sync.RWMutex.Lock", "sync.Cond.Wait":
		return true
	}
	return false
}

// ---- forced schedules ---------------------------------------------------------------------

type thr struct {
	cs     *frun
	waiter bool
	idx    int
	gid    int64
	resume chan struct{}
	parked atomic.Bool
	done   atomic.Bool
}

type frun struct {
	mu    sync.Mutex
	terms []string
	human []string
	thrs  []*thr // waiters first, then operations
}

func (f *frun) log(term, human string) {
	f.mu.Lock()
	f.terms = append(f.terms, term)
	f.human = append(f.human, human)
	f.mu.Unlock()
}

func (t *thr) park() {
	t.parked.Store(true)
	<-t.resume
}

var threads sync.Map // gid -> *thr

func controller(site string, gid int64, args []int64) {
	if sv, ok := sthreads.Load(gid); ok {
		st := sv.(*sthr)
		switch site {
		case "summon.body":
			// the thread owns the summoning section (slot lock released): park it there once
			if !st.bodySeen && !st.c.cleanup.Load() {
				st.bodySeen = true
				st.log("owns the summoning section (parked at summon.body)")
				st.park()
			}
		case "summon.wait":
			st.slotWait.Store(true)
			st.log("queued: about to sleep in cond.Wait behind the owner")
		case "summon.woke":
			st.slotWait.Store(false)
		case "summon.waitclose":
			st.closeWait.Store(true)
			if st.nclose++; st.nclose <= 2 {
				st.log("owner found the instance closing: waits in WaitForGracefulClose")
			}
		case "summon.closed":
			st.closeWait.Store(false)
			if st.nclose <= 2 {
				st.log("owner: WaitForGracefulClose returned")
			}
		case "summon.ctxleave":
			st.log("left the queue: context done")
		}
		return
	}
	v, ok := threads.Load(gid)
	if !ok {
		return
	}
	t := v.(*thr)
	switch site {
	case "vigil.wait.check":
		t.cs.log(common.App("OCheck", common.Nat(t.idx), common.Z(args[0])), fmt.Sprintf("w%d at check (mutex held), counter %d", t.idx, args[0]))
		t.park()
		t.cs.log(common.App("OWait", common.Nat(t.idx)), fmt.Sprintf("w%d resumes: cond.Wait", t.idx))
	case "vigil.cease.dec":
		t.cs.log(common.App("ODec", common.Nat(t.idx), common.Z(args[0])), fmt.Sprintf("op%d decremented under the mutex, counter %d", t.idx, args[0]))
	case "vigil.cease.gap":
		t.cs.log(common.App("OGap", common.Nat(t.idx)), fmt.Sprintf("op%d at gap (before broadcast)", t.idx))
		t.park()
		t.cs.log(common.App("OBcast", common.Nat(t.idx)), fmt.Sprintf("op%d resumes: broadcast", t.idx))
	}
}

// quiesce waits until no thread of the case is running or runnable.
func (f *frun) quiesce() {
	t0 := time.Now()
	for spins := 0; ; spins++ {
		if spins > 1000 && time.Since(t0) > 10*time.Second {
			return // safety net: never spin forever (the case then shows up as mismatch or hang)
		}
		// the done flags must be read BEFORE the snapshot: a thread that finishes between the
		// snapshot and the flag read may have woken others after the snapshot was taken
		wasDone := make([]bool, len(f.thrs))
		for i, t := range f.thrs {
			wasDone[i] = t.done.Load()
		}
		st := gstates()
		busy := false
		for i, t := range f.thrs {
			if wasDone[i] {
				continue
			}
			s, ok := st[t.gid]
			if !ok || !waitingState(s, t.parked.Load()) {
				busy = true
				break
			}
		}
		if !busy {
			if os.Getenv("C17_DEBUG") != "" {
				for _, t := range f.thrs {
					if !t.done.Load() && !t.parked.Load() {
						if s := st[t.gid]; s != "sync.Cond.Wait" && s != "sync.Mutex.Lock" && s != "sync.RWMutex.Lock" {
							fmt.Fprintf(os.Stderr, "DEBUG odd quiescent state %q waiter=%v idx=%d\n", s, t.waiter, t.idx)
						}
					}
				}
			}
			return
		}
		if spins < 50 {
			runtime.Gosched()
		} else {
			time.Sleep(20 * time.Microsecond)
		}
	}
}

// release lets a parked thread continue; returns false when the thread is not parked (finished,
// blocked on the mutex or asleep in cond.Wait), in which case the token is a no-op.
func (f *frun) release(t *thr) bool {
	if t.done.Load() || !t.parked.Load() {
		return false
	}
	t.parked.Store(false)
	t.resume <- struct{}{}
	f.quiesce()
	return true
}

type fresult struct {
	term      string
	human     []string
	hung      []int
	final     int64
	nontriv   bool
	noops     int
	confirmed bool
	skipped   bool
}

var hangsSeen atomic.Int64

func runForced(nw, nops int, sched []int) fresult {
	v := vigil.New()
	f := &frun{}
	started := make(chan struct{}, nw+nops)
	for i := 0; i < nw+nops; i++ {
		t := &thr{cs: f, waiter: i < nw, idx: i, resume: make(chan struct{})}
		if !t.waiter {
			t.idx = i - nw
		}
		f.thrs = append(f.thrs, t)
	}
	for _, t := range f.thrs {
		t := t
		go func() {
			t.gid = verifhook.GoID()
			threads.Store(t.gid, t)
			defer threads.Delete(t.gid)
			t.parked.Store(true)
			started <- struct{}{}
			<-t.resume
			if t.waiter {
				v.WaitForActiveVigilsClosed()
				f.log(common.App("OReturn", common.Nat(t.idx)), fmt.Sprintf("w%d returned", t.idx))
			} else {
				v.BeginVigil()
				f.log(common.App("OBegin", common.Nat(t.idx)), fmt.Sprintf("op%d began", t.idx))
				t.park()
				v.CeaseVigil()
				f.log(common.App("OCeased", common.Nat(t.idx)), fmt.Sprintf("op%d ceased", t.idx))
			}
			t.done.Store(true)
		}()
	}
	for range f.thrs {
		<-started
	}
	f.quiesce()
	res := fresult{}
	for _, tok := range sched {
		if !f.release(f.thrs[tok]) {
			res.noops++
		}
	}
	// final phase: release whatever is parked until nothing is parked any more
	for round := 0; round < 64; round++ {
		any := false
		for i := len(f.thrs) - 1; i >= 0; i-- {
			if f.release(f.thrs[i]) {
				any = true
			}
		}
		if !any {
			break
		}
	}
	f.quiesce()
	res.final = vigil.Count(v)
	f.mu.Lock()
	nlog := len(f.terms) // events after this point belong to the clean-up of hung waiters
	f.mu.Unlock()
	for _, t := range f.thrs {
		if t.waiter && !t.done.Load() {
			res.hung = append(res.hung, t.idx)
		}
	}
	if len(res.hung) > 0 {
		// every thread is in a waiting state and nobody is parked: nothing can wake the waiter.
		// Confirm against the wall clock as well (2 s for the first few, then briefly).
		d := 50 * time.Millisecond
		if hangsSeen.Add(1) <= 3 {
			d = 2 * time.Second
			res.confirmed = true
		}
		time.Sleep(d)
		res.hung = res.hung[:0]
		for _, t := range f.thrs {
			if t.waiter && !t.done.Load() {
				res.hung = append(res.hung, t.idx)
			}
		}
		// unstick them so that the goroutines do not leak: any later broadcast wakes them
		for tries := 0; tries < 200; tries++ {
			v.BeginVigil()
			v.CeaseVigil()
			time.Sleep(100 * time.Microsecond)
			all := true
			for _, t := range f.thrs {
				if !t.done.Load() {
					if t.parked.Load() {
						t.parked.Store(false)
						t.resume <- struct{}{}
					}
					all = false
				}
			}
			if all {
				break
			}
		}
	}
	f.mu.Lock()
	defer f.mu.Unlock()
	hung := make([]string, len(res.hung))
	for i, h := range res.hung {
		hung[i] = common.Nat(h)
	}
	f.terms, f.human = f.terms[:nlog], f.human[:nlog]
	for _, tm := range f.terms {
		if len(tm) > 7 && tm[:7] == "(OCheck" {
			res.nontriv = true
		}
	}
	res.term = fmt.Sprintf("KForced (Build_fcase %s %s %s %s %s)",
		common.Nat(nw), common.Nat(nops), common.List(f.terms), common.List(hung), common.Z(res.final))
	res.human = append([]string{}, f.human...)
	return res
}

// perms enumerates the distinct orderings of a multiset (counts[i] copies of token i) in which
// the first occurrences of the tokens inside each symmetric class appear in index order.
func perms(counts []int, classOf []int, visit func([]int)) {
	n := 0
	for _, c := range counts {
		n += c
	}
	cur := make([]int, 0, n)
	used := make([]int, len(counts))
	var rec func()
	rec = func() {
		if len(cur) == n {
			visit(append([]int{}, cur...))
			return
		}
		for t := range counts {
			if used[t] == counts[t] {
				continue
			}
			if used[t] == 0 && t > 0 && classOf[t] == classOf[t-1] && used[t-1] == 0 {
				continue // symmetric: token t-1 of the same class must start first
			}
			used[t]++
			cur = append(cur, t)
			rec()
			cur = cur[:len(cur)-1]
			used[t]--
		}
	}
	rec()
}

// ---- stress -------------------------------------------------------------------------------

func spin(n int) {
	x := 0
	for i := 0; i < n; i++ {
		x += i
	}
	_ = x
}

func stressRound(r *common.Rng, nops, nwaiters, pairs int) (hung bool, final int64) {
	v := vigil.New()
	for i := 0; i < nops; i++ {
		v.BeginVigil()
	}
	start := make(chan struct{})
	var cw, ww sync.WaitGroup
	for i := 0; i < nops; i++ {
		cw.Add(1)
		d := r.Intn(400)
		go func() {
			defer cw.Done()
			<-start
			for j := 0; j < pairs; j++ {
				spin(d)
				v.CeaseVigil()
				if j < pairs-1 {
					v.BeginVigil()
				}
			}
		}()
	}
	for i := 0; i < nwaiters; i++ {
		ww.Add(1)
		d := r.Intn(400)
		go func() {
			defer ww.Done()
			<-start
			spin(d)
			v.WaitForActiveVigilsClosed()
		}()
	}
	close(start)
	cw.Wait()
	done := make(chan struct{})
	go func() { ww.Wait(); close(done) }()
	select {
	case <-done:
	case <-time.After(2 * time.Second):
		hung = true
	}
	final = vigil.Count(v)
	if hung {
		for {
			v.BeginVigil()
			v.CeaseVigil()
			select {
			case <-done:
				return
			case <-time.After(time.Millisecond):
			}
		}
	}
	return
}

// ---- the real swamp -----------------------------------------------------------------------

func sp(s string) *string { return &s }

// destroyProbe: a swamp with one record; the operations of kinds run one after another:
// false = BeginVigil/CeaseVigil pair (what every handler does), true = gateway Delete of the last
// record (auto-destroy: CeaseVigil + Destroy inside, deferred CeaseVigil afterwards). With
// foreign=true another vigil is held while the destroying Delete runs and is ceased 20 ms later:
// Destroy's drain must wait for it and must return afterwards.
func destroyProbe(srv *rig.Server, i int, kinds []bool, foreign bool) (final int64, hung bool, waited bool) {
	nm := fmt.Sprintf("c17/d/s%d", i)
	ctx := context.Background()
	_, err := srv.GW.Set(ctx, &hydrapb.SetRequest{Swamps: []*hydrapb.SwampRequest{{
		IslandID: 1, SwampName: nm, CreateIfNotExist: true, Overwrite: true,
		KeyValues: []*hydrapb.KeyValuePair{{Key: "k", StringVal: sp("v")}},
	}}})
	if err != nil {
		panic(err)
	}
	obj, err := srv.Zeus.GetHydra().SummonSwamp(ctx, 1, rig.Name(nm))
	if err != nil {
		panic(err)
	}
	for _, k := range kinds {
		if !k {
			obj.BeginVigil()
			obj.CeaseVigil()
			continue
		}
		if foreign {
			obj.BeginVigil()
		}
		done := make(chan struct{})
		go func() {
			srv.GW.Delete(ctx, &hydrapb.DeleteRequest{Swamps: []*hydrapb.DeleteRequest_SwampKeys{{IslandID: 1, SwampName: nm, Keys: []string{"k"}}}})
			close(done)
		}()
		if foreign {
			select {
			case <-done:
			case <-time.After(20 * time.Millisecond):
				waited = true
			}
			obj.CeaseVigil()
		}
		select {
		case <-done:
		case <-time.After(2 * time.Second):
			hung = true
			return swamp.VigilCount(obj), hung, waited
		}
	}
	return swamp.VigilCount(obj), false, waited
}

// inflightProbe: a request R2 has summoned the swamp and holds a vigil; another request R1 runs
// an operation that empties the swamp (auto-destroy: CeaseVigil + Destroy inside the swamp) and
// so waits in Destroy's vigil drain for R2. While that drain waits, R2 performs the rest of its
// work - the calls a gateway handler makes under its vigil - and only then ceases its vigil.
// Every one of R2's calls must return (it is an operation in flight that has to be able to
// finish), then Destroy must return; a third request for the same name, which waits for the
// closing instance inside SummonSwamp, must return as well.
var destroyOps = []string{"gateway.Delete", "CloneAndDeleteTreasuresByKeys", "CloneAndDeleteMatchingTreasures", "DeleteTreasure"}
var inflightOps = []string{"set(CreateTreasure+Save)", "GetTreasure", "TreasureExists+CountTreasures", "DeleteTreasure(missing key)",
	"GetAll", "second Destroy", "CreateTreasure only", "GetTreasuresByKeys+CloneTreasures"}

func inflightProbe(srv *rig.Server, i int, dop, iop int, thirdRequest bool) (opHung, destroyHung, thirdHung bool, final int64) {
	nm := fmt.Sprintf("c17/f/s%d", i)
	ctx := context.Background()
	if _, err := srv.GW.Set(ctx, &hydrapb.SetRequest{Swamps: []*hydrapb.SwampRequest{{
		IslandID: 1, SwampName: nm, CreateIfNotExist: true, Overwrite: true,
		KeyValues: []*hydrapb.KeyValuePair{{Key: "k", StringVal: sp("v")}},
	}}}); err != nil {
		panic(err)
	}
	obj, err := srv.Zeus.GetHydra().SummonSwamp(ctx, 1, rig.Name(nm))
	if err != nil {
		panic(err)
	}
	obj.BeginVigil() // R2
	r1 := make(chan struct{})
	go func() { // R1: empties the swamp
		defer close(r1)
		switch dop {
		case 0:
			srv.GW.Delete(ctx, &hydrapb.DeleteRequest{Swamps: []*hydrapb.DeleteRequest_SwampKeys{{IslandID: 1, SwampName: nm, Keys: []string{"k"}}}})
		case 1:
			obj.BeginVigil()
			obj.CloneAndDeleteTreasuresByKeys([]string{"k"})
			obj.CeaseVigil()
		case 2:
			obj.BeginVigil()
			obj.CloneAndDeleteMatchingTreasures(swamp.BeaconTypeKey, swamp.IndexOrderAsc, 10, func(treasure.Treasure) bool { return true }, nil, 0)
			obj.CeaseVigil()
		default:
			obj.BeginVigil()
			obj.DeleteTreasure("k", false)
			obj.CeaseVigil()
		}
	}()
	// wait until R1 is inside Destroy (closing is set at its very beginning)
	for dl := time.Now().Add(2 * time.Second); !obj.IsClosing() && time.Now().Before(dl); {
		time.Sleep(50 * time.Microsecond)
	}
	time.Sleep(300 * time.Microsecond)
	r3 := make(chan struct{})
	if thirdRequest {
		go func() { // R3: a new request for the name: waits for the closing instance to go away
			defer close(r3)
			srv.GW.Get(ctx, &hydrapb.GetRequest{Swamps: []*hydrapb.GetSwamp{{IslandID: 1, SwampName: nm, Keys: []string{"k"}}}})
		}()
	} else {
		close(r3)
	}
	r2 := make(chan struct{})
	go func() { // the rest of R2's work under its vigil
		defer close(r2)
		switch iop {
		case 0:
			t := obj.CreateTreasure("k2")
			g := t.StartTreasureGuard(true)
			t.SetContentString(g, "x")
			t.Save(g)
			t.ReleaseTreasureGuard(g)
		case 1:
			obj.GetTreasure("k")
		case 2:
			obj.TreasureExists("k")
			obj.CountTreasures()
		case 3:
			obj.DeleteTreasure("missing", false)
		case 4:
			obj.GetAll()
		case 5:
			obj.Destroy() // returns at once: a Destroy is already running
		case 6:
			obj.CreateTreasure("k3")
		default:
			obj.GetTreasuresByKeys([]string{"k", "k2"})
			obj.CloneTreasures()
		}
	}()
	select {
	case <-r2:
	case <-time.After(2 * time.Second):
		opHung = true
	}
	obj.CeaseVigil()
	select {
	case <-r1:
	case <-time.After(2 * time.Second):
		destroyHung = true
	}
	select {
	case <-r3:
	case <-time.After(3 * time.Second):
		thirdHung = true
	}
	return opHung, destroyHung, thirdHung, swamp.VigilCount(obj)
}

// ---- hydra.SummonSwamp: the wait in the per-name summon slot queue ---------------------------

type sthr struct {
	c         *scase
	idx       int
	gid       int64
	resume    chan struct{}
	parked    atomic.Bool
	done      atomic.Bool
	bodySeen  bool
	nclose    int
	slotWait  atomic.Bool // between the hooks summon.wait and summon.woke: in the slot's cond.Wait
	closeWait atomic.Bool // between summon.waitclose and summon.closed: in WaitForGracefulClose
	ctx       context.Context
	cancel    context.CancelFunc
	started   bool
}

type scase struct {
	cleanup     atomic.Bool // no more parking
	destroyHeld atomic.Bool // a Destroy is in flight and held back by the harness: waiting for it is a resting state
	mu          sync.Mutex
	human       []string
	thrs        []*sthr
}

var sthreads sync.Map // gid -> *sthr

func (t *sthr) log(s string) {
	t.c.mu.Lock()
	t.c.human = append(t.c.human, fmt.Sprintf("s%d %s", t.idx, s))
	t.c.mu.Unlock()
}
func (c *scase) note(s string) { c.mu.Lock(); c.human = append(c.human, s); c.mu.Unlock() }

func (t *sthr) park() {
	t.parked.Store(true)
	<-t.resume
}

// squiesce: every summoner has returned, is parked at summon.body, sleeps in cond.Wait or blocks
// on a mutex. Bounded: file IO inside createNewSwamp is transient.
func (c *scase) squiesce() {
	t0 := time.Now()
	for spins := 0; time.Since(t0) < 10*time.Second; spins++ {
		wasDone := make([]bool, len(c.thrs))
		for i, t := range c.thrs {
			wasDone[i] = t.done.Load() // before the snapshot (see frun.quiesce)
		}
		st := gstates()
		busy := false
		for i, t := range c.thrs {
			if !t.started || wasDone[i] {
				continue
			}
			// only two resting places: parked by the harness at summon.body, or asleep in the slot
			// queue. A summoner blocked on a mutex is transient here (the slot lock is never held
			// across a park, and the engine's own locks are held by goroutines outside the case).
			s, ok := st[t.gid]
			if !ok || !((s == "chan receive" && t.parked.Load()) || (s == "sync.Cond.Wait" && t.slotWait.Load()) || (s == "select" && t.closeWait.Load() && c.destroyHeld.Load())) {
				busy = true
				break
			}
		}
		if !busy {
			return
		}
		if spins < 50 {
			runtime.Gosched()
		} else {
			time.Sleep(50 * time.Microsecond)
		}
	}
}

var summonHangs atomic.Int64

// summonCase: n requests summon the same swamp name. s0 is started first and parked inside the
// summoning section; the others queue up behind it one by one (so the notify-list order is the
// start order); contexts of queued (and sometimes of not yet started, or of owning) requests are
// cancelled; then whoever owns the section is released, again and again. Once nobody owns the
// section and nothing is parked, every request must have returned: a request still asleep in
// the slot queue is blocked although the summon it waited for has finished.
func summonCase(srv *rig.Server, idx int, r *common.Rng, second, destroying bool) (n, ncancel int, hung []int, laterHung bool, human []string) {
	nm := fmt.Sprintf("c17/q/s%d", idx)
	h := srv.Zeus.GetHydra()
	n = 3 + r.Intn(4)
	c := &scase{}
	for i := 0; i < n; i++ {
		ctx, cancel := context.WithCancel(context.Background())
		c.thrs = append(c.thrs, &sthr{c: c, idx: i, resume: make(chan struct{}), ctx: ctx, cancel: cancel})
	}
	cancelled := map[int]bool{}
	doCancel := func(t *sthr, why string) {
		if !cancelled[t.idx] {
			cancelled[t.idx] = true
			ncancel++
			c.note(fmt.Sprintf("s%d context cancelled (%s)", t.idx, why))
			t.cancel()
		}
	}
	start := func(t *sthr) {
		started := make(chan struct{})
		go func() {
			t.gid = verifhook.GoID()
			sthreads.Store(t.gid, t)
			defer sthreads.Delete(t.gid)
			close(started)
			_, err := h.SummonSwamp(t.ctx, 1, rig.Name(nm))
			t.log(fmt.Sprintf("SummonSwamp returned (err=%v)", err))
			t.done.Store(true)
		}()
		<-started
		t.started = true
		c.squiesce()
	}
	var closingObj swamp.Swamp
	if second || destroying {
		// the name has been summoned before: the owners find the instance instead of creating it
		obj, err := h.SummonSwamp(context.Background(), 1, rig.Name(nm))
		if err != nil {
			panic(err)
		}
		if destroying {
			// a Destroy of that instance is in flight and cannot finish before the harness ceases
			// the vigil it holds: the first owner will wait for it in WaitForGracefulClose, the
			// others queue up behind that owner
			obj.BeginVigil()
			closingObj = obj
			c.destroyHeld.Store(true)
			go obj.Destroy()
			for dl := time.Now().Add(2 * time.Second); !obj.IsClosing() && time.Now().Before(dl); {
				time.Sleep(50 * time.Microsecond)
			}
			c.note("Destroy of the current instance started (held back by a vigil of the harness)")
		}
	}
	start(c.thrs[0])
	for _, t := range c.thrs[1:] {
		if r.Chance(12) {
			doCancel(t, "before the call")
		}
		start(t)
	}
	// pattern of cancellations among the queued requests
	switch r.Intn(5) {
	case 0: // the one queued first
		doCancel(c.thrs[1], "while queued")
	case 1: // every second one
		for i := 1; i < n; i += 2 {
			doCancel(c.thrs[i], "while queued")
		}
	case 2: // all but the last
		for i := 1; i < n-1; i++ {
			doCancel(c.thrs[i], "while queued")
		}
	case 3: // random subset
		for i := 1; i < n; i++ {
			if r.Chance(40) {
				doCancel(c.thrs[i], "while queued")
			}
		}
	default: // none
	}
	for round := 0; round < 4*n; round++ {
		var owner *sthr
		for _, t := range c.thrs {
			if !t.done.Load() && t.parked.Load() {
				owner = t
			}
		}
		if owner == nil && closingObj != nil {
			// nobody is parked: the owner (if any) waits for the Destroy; let it finish
			c.note("harness ceases its vigil: the Destroy in flight can finish")
			c.destroyHeld.Store(false)
			closingObj.CeaseVigil()
			closingObj = nil
			c.squiesce()
			continue
		}
		if owner == nil {
			if os.Getenv("C17_DEBUG") != "" {
				st := gstates()
				for _, t := range c.thrs {
					fmt.Fprintf(os.Stderr, "DEBUG case %d round %d: s%d done=%v parked=%v state=%q\n", idx, round, t.idx, t.done.Load(), t.parked.Load(), st[t.gid])
				}
			}
			break
		}
		if r.Chance(15) {
			doCancel(owner, "while owning the section")
		}
		if r.Chance(25) {
			for _, t := range c.thrs {
				if !t.done.Load() && !t.parked.Load() && r.Chance(50) {
					doCancel(t, "while queued")
				}
			}
		}
		c.note(fmt.Sprintf("harness releases s%d", owner.idx))
		owner.parked.Store(false)
		owner.resume <- struct{}{}
		c.squiesce()
	}
	for _, t := range c.thrs {
		if !t.done.Load() {
			hung = append(hung, t.idx)
		}
	}
	if len(hung) > 0 {
		d := 100 * time.Millisecond
		if summonHangs.Add(1) <= 3 {
			d = 2 * time.Second
		}
		time.Sleep(d)
		hung = hung[:0]
		for _, t := range c.thrs {
			if !t.done.Load() {
				hung = append(hung, t.idx)
			}
		}
	}
	c.mu.Lock()
	human = append([]string{}, c.human...)
	c.mu.Unlock()
	// a later request for the same name must get through as well (a leaked slot - ready left
	// true, count not decremented - blocks every later summon of the name forever)
	c.cleanup.Store(true)
	if closingObj != nil {
		c.destroyHeld.Store(false)
		closingObj.CeaseVigil()
	}
	if len(hung) == 0 {
		later := make(chan struct{})
		go func() { h.SummonSwamp(context.Background(), 1, rig.Name(nm)); close(later) }()
		d := 300 * time.Millisecond
		if summonHangs.Load() < 3 {
			d = 2 * time.Second
		}
		select {
		case <-later:
		case <-time.After(d):
			laterHung = true
			summonHangs.Add(1)
			human = append(human, "a later SummonSwamp of the same name (everything before it has returned) did not return")
		}
	}
	// clean-up: later summons of the name broadcast on the slot; nothing parks any more. The
	// summons are issued from throw-away goroutines: with a wedged slot they never return.
	for tries := 0; tries < 60; tries++ {
		all := true
		for _, t := range c.thrs {
			if !t.done.Load() {
				all = false
				t.cancel()
				if t.parked.Load() {
					t.parked.Store(false)
					t.resume <- struct{}{}
				}
			}
		}
		if all {
			break
		}
		go h.SummonSwamp(context.Background(), 1, rig.Name(nm))
		time.Sleep(500 * time.Microsecond)
	}
	for _, t := range c.thrs {
		t.cancel()
	}
	return
}

// ---- Close with a failing storage flush (child process: RLIMIT_FSIZE is process-wide) ----------

var childMode = flag.String("child", "", "internal: run a fault scenario in a child process")

type closeFaultResult struct {
	Name           string `json:"name"`
	Faulted        bool   `json:"faulted"`
	Second         bool   `json:"second_close_call"`
	CloseHung      bool   `json:"close_hung"`
	SummonHung     bool   `json:"summon_hung"`
	SummonMs       int64  `json:"summon_ms"`
	StillClosing   bool   `json:"old_instance_still_closing"`
	FileSizeBefore int64  `json:"hyd_bytes_before"`
}

// closeFaultChild: swamps with unwritten records (write interval far away); Close() is called
// while the file size limit of the process is 0, so every growing write of the final flush fails
// with EFBIG (a real error from the kernel); then the limit is lifted and a new request summons
// the name. Close must return and the request must not be left waiting for the close.
func closeFaultChild(out string) {
	rig.Quiet()
	signal.Ignore(syscall.SIGXFSZ)
	root := filepath.Join(out, "cfroot")
	os.RemoveAll(root)
	srv := rig.Start(root, true)
	srv.Register("c17cf/*/*", false, 3600, 3600, 8192)
	h := srv.Zeus.GetHydra()
	ctx := context.Background()
	enc := json.NewEncoder(os.Stdout)
	big := strings.Repeat("v", 3000)
	nhung := 0
	for i := 0; i < 8; i++ {
		nm := fmt.Sprintf("c17cf/r/s%d", i)
		res := closeFaultResult{Name: nm, Faulted: i%4 != 3, Second: i%2 == 1}
		set := func(prefix string, n int, val string) error {
			kvs := []*hydrapb.KeyValuePair{}
			for k := 0; k < n; k++ {
				kvs = append(kvs, &hydrapb.KeyValuePair{Key: fmt.Sprintf("%s%d", prefix, k), StringVal: sp(val)})
			}
			_, err := srv.GW.Set(ctx, &hydrapb.SetRequest{Swamps: []*hydrapb.SwampRequest{{IslandID: 1, SwampName: nm, CreateIfNotExist: true, Overwrite: true, KeyValues: kvs}}})
			return err
		}
		if err := set("a", 1+i%3, "first"); err != nil {
			continue
		}
		obj, err := h.SummonSwamp(ctx, 1, rig.Name(nm))
		if err != nil {
			continue
		}
		// the file exists and its writer is open; then more records arrive and stay unwritten
		// (small ones stay in the block buffer, i >= 4: big ones that need block writes)
		obj.BeginVigil()
		obj.WriteTreasuresToFilesystem()
		obj.CeaseVigil()
		val := "second"
		if i >= 4 {
			val = big
		}
		if err := set("b", 1+i, val); err != nil {
			continue
		}
		var old syscall.Rlimit
		syscall.Getrlimit(syscall.RLIMIT_FSIZE, &old)
		if res.Faulted {
			syscall.Setrlimit(syscall.RLIMIT_FSIZE, &syscall.Rlimit{Cur: 0, Max: old.Max})
		}
		closed := make(chan struct{})
		go func() {
			obj.Close() // what the idle-close listener and GracefulStop call
			if res.Second {
				obj.Close() // the retry of a caller that saw the failure
			}
			close(closed)
		}()
		select {
		case <-closed:
		case <-time.After(5 * time.Second):
			res.CloseHung = true
		}
		syscall.Setrlimit(syscall.RLIMIT_FSIZE, &old)
		t0 := time.Now()
		got := make(chan struct{})
		go func() { h.SummonSwamp(ctx, 1, rig.Name(nm)); close(got) }()
		select {
		case <-got:
		case <-time.After(4 * time.Second):
			res.SummonHung = true
		}
		res.SummonMs = time.Since(t0).Milliseconds()
		res.StillClosing = obj.IsClosing() && h.CountActiveSwamps() > 0
		enc.Encode(res)
		if res.SummonHung || res.CloseHung {
			nhung++
			if nhung >= 2 {
				break // enough evidence; every further one costs seconds
			}
		}
	}
	os.Exit(0)
}

func runCloseFaultChild(out string) ([]closeFaultResult, error) {
	self, err := os.Executable()
	if err != nil {
		return nil, err
	}
	cmd := exec.Command(self, "--child", "closefault", "--out", filepath.Join(out, "child"))
	cmd.Stderr = nil
	ob, err := cmd.Output()
	var rs []closeFaultResult
	for _, line := range strings.Split(string(ob), "\n") {
		var r closeFaultResult
		if json.Unmarshal([]byte(line), &r) == nil && r.Name != "" {
			rs = append(rs, r)
		}
	}
	return rs, err
}

func pollProbe(n int) (hung bool) {
	so := safeops.New()
	for i := 0; i < n; i++ {
		so.LockSystem()
	}
	done := make(chan struct{})
	go func() { so.WaitForUnlock(); close(done) }()
	for i := 0; i < n; i++ {
		go func() { spin(1000); so.UnlockSystem() }()
	}
	select {
	case <-done:
		return false
	case <-time.After(2 * time.Second):
		for so.SystemLocked() {
			so.UnlockSystem()
		}
		return true
	}
}

func boolList(bs []bool) string {
	s := make([]string, len(bs))
	for i, b := range bs {
		s[i] = common.Bool(b)
	}
	return common.List(s)
}

func main() {
	a := common.ParseArgs()
	if *childMode == "closefault" {
		closeFaultChild(a.Out)
		return
	}
	run := common.NewRun(a, "C17", "HV.Conc.Vigil")
	run.Shard = 200
	run.Meta.Rule = "forced: a schedule of thread-release tokens over W waiters and N operations of one real vigil, executed through the hook points and replayed through Conc/Vigil.v; non-trivial = some waiter was parked between its emptiness check and cond.Wait (the lost-wake-up window) at least once; stress/destroy/poll cases are non-trivial when at least one operation was in flight when the wait started"
	rng := common.NewRng(a.Seed, "C17")
	rig.Quiet()
	verifhook.Install(controller)
	thorough := a.Tier == "thorough"

	onlySummon := os.Getenv("C17_ONLY") == "summon"
	// --- 1. forced schedules
	type job struct {
		nw, nops int
		sched    []int
		tag      string
	}
	var jobs []job
	enumerate := func(nw, nops, wk int, sample int, tag string) {
		counts := make([]int, nw+nops)
		class := make([]int, nw+nops)
		for i := range counts {
			if i < nw {
				counts[i] = wk
			} else {
				counts[i] = 3
				class[i] = 1
			}
		}
		var all [][]int
		perms(counts, class, func(p []int) { all = append(all, p) })
		if sample > 0 && len(all) > sample {
			r := rng.Fork(tag)
			for i := 0; i < sample; i++ {
				j := i + r.Intn(len(all)-i)
				all[i], all[j] = all[j], all[i]
			}
			all = all[:sample]
			tag += "-sampled"
		} else {
			tag += "-exhaustive"
		}
		for _, p := range all {
			jobs = append(jobs, job{nw, nops, p, tag})
		}
		run.Meta.Extra[tag] = fmt.Sprintf("%d schedules (waiter tokens x%d, op tokens x3)", len(all), wk)
	}
	// the model's refutation witness for the unlocked protocol, as a token schedule:
	// op begins; waiter runs to the check; op runs CeaseVigil completely; waiter goes on to Wait
	jobs = append(jobs, job{1, 1, []int{1, 0, 1, 1, 0}, "witness"})
	enumerate(1, 1, 3, 0, "w1o1")
	enumerate(1, 2, 3, 0, "w1o2")
	enumerate(2, 1, 2, 0, "w2o1")
	if thorough {
		enumerate(1, 3, 3, 20000, "w1o3")
		enumerate(2, 2, 2, 0, "w2o2")
		enumerate(2, 3, 2, 6000, "w2o3")
		enumerate(3, 2, 2, 6000, "w3o2")
	} else {
		enumerate(1, 3, 3, 700, "w1o3")
		enumerate(2, 2, 2, 600, "w2o2")
		enumerate(3, 2, 2, 200, "w3o2")
	}
	if onlySummon {
		jobs = nil
	}
	fres := make([]fresult, len(jobs))
	common.Parallel(len(jobs), 8, func(i int) {
		if hangsSeen.Load() > 40 {
			fres[i] = fresult{skipped: true} // enough evidence: do not spend the time budget on hangs
			return
		}
		fres[i] = runForced(jobs[i].nw, jobs[i].nops, jobs[i].sched)
	})
	seen := map[string]int{}
	for i, j := range jobs {
		r := fres[i]
		if r.skipped {
			run.Hist("forced_skipped_after_many_hangs")
			continue
		}
		run.Hist("forced_" + j.tag)
		run.HistN("forced_noop_tokens", r.noops)
		if len(r.hung) > 0 {
			run.Hist("forced_hung")
		}
		if _, dup := seen[r.term]; dup {
			seen[r.term]++
			run.Hist("forced_duplicate_trace_not_reevaluated")
			continue
		}
		seen[r.term] = 1
		run.Add(r.term, map[string]interface{}{"kind": "forced-" + j.tag, "waiters": j.nw, "ops": j.nops,
			"schedule_tokens(waiters first)": j.sched, "observed": r.human, "hung_waiters": r.hung, "final_counter": r.final,
			"hang_confirmed_2s": r.confirmed}, r.nontriv)
	}
	run.Meta.Extra["forced_schedules_executed"] = len(jobs)
	run.Meta.Extra["forced_distinct_traces"] = len(seen)

	// --- 2. stress
	nrounds := 1500
	if onlySummon {
		nrounds = 0
	}
	if thorough {
		nrounds = 20000
	}
	type sres struct {
		nops  int
		hung  bool
		final int64
	}
	srs := make([]sres, nrounds)
	rngs := make([]*common.Rng, nrounds)
	for i := range rngs {
		rngs[i] = rng.Fork("stress" + strconv.Itoa(i))
	}
	var stressHangs atomic.Int64
	common.Parallel(nrounds, 16, func(i int) {
		if stressHangs.Load() >= 3 {
			srs[i] = sres{nops: -1}
			return
		}
		r := rngs[i]
		nops := 1 + r.Intn(8)
		h, f := stressRound(r, nops, 1+r.Intn(2), 1+r.Intn(4))
		if h {
			stressHangs.Add(1)
		}
		srs[i] = sres{nops, h, f}
	})
	for _, s := range srs {
		if s.nops < 0 {
			run.Hist("stress_skipped_after_hangs")
			continue
		}
		run.Add(common.App("KStress", common.Nat(s.nops), common.Bool(s.hung), common.Z(s.final)),
			map[string]interface{}{"kind": "stress", "ops": s.nops, "hung": s.hung, "final_counter": s.final}, true)
		run.Hist("stress")
	}

	// --- 3. the real swamp (auto-destroy path)
	root := filepath.Join(a.Out, "root")
	os.RemoveAll(root)
	srv := rig.Start(root, true)
	srv.Register("c17/*/*", false, 3600, 1, 8192)
	nd := 40
	if thorough {
		nd = 300
	}
	for i := 0; i < nd; i++ {
		kinds := []bool{}
		for k := rng.Intn(4); k > 0; k-- {
			kinds = append(kinds, false)
		}
		kinds = append(kinds, true)
		foreign := i%2 == 1
		final, hung, waited := destroyProbe(srv, i, kinds, foreign)
		run.Add(common.App("KDestroy", boolList(kinds), common.Z(final), common.Bool(hung)),
			map[string]interface{}{"kind": "destroy", "ops(true=auto-destroying delete)": kinds, "foreign_vigil_held": foreign,
				"destroy_waited_for_foreign_vigil": waited, "final_counter": final, "hung": hung}, true)
		run.Hist("destroy")
		if foreign && waited {
			run.Hist("destroy_waited_for_foreign_vigil")
		}
	}
	// --- 3a. operations in flight (under a vigil) while an auto-destroy drains the vigils
	nf := 48
	if thorough {
		nf = 400
	}
	inflightHangs := 0
	for i := 0; i < nf; i++ {
		if inflightHangs >= 4 {
			run.Hist("inflight_skipped_after_hangs")
			continue
		}
		dop, iop := i%len(destroyOps), (i/len(destroyOps))%len(inflightOps)
		if i >= len(destroyOps)*len(inflightOps) {
			dop, iop = rng.Intn(len(destroyOps)), rng.Intn(len(inflightOps))
		}
		third := i%3 == 0
		oh, dh, th, final := inflightProbe(srv, i, dop, iop, third)
		if oh || dh || th {
			inflightHangs++
		}
		run.Add(common.App("KInflight", common.Nat(dop), common.Nat(iop), common.Bool(oh), common.Bool(dh), common.Bool(th), common.Z(final)),
			map[string]interface{}{"kind": "inflight-vs-destroy", "emptying_operation(R1)": destroyOps[dop], "operation_in_flight_under_vigil(R2)": inflightOps[iop],
				"R2_operation_blocked": oh, "destroy_blocked_after_all_vigils_ceased": dh, "third_request_for_the_name": third, "third_request_blocked": th,
				"final_counter": final}, true)
		run.Hist("inflight_vs_destroy")
	}

	// --- 3b. requests queued in SummonSwamp's per-name slot (cancelled contexts among them)
	ns := 70
	if thorough {
		ns = 700
	}
	for i := 0; i < ns; i++ {
		if summonHangs.Load() > 10 {
			run.Hist("summon_skipped_after_many_hangs")
			continue
		}
		n, nc, hung, laterHung, human := summonCase(srv, i, rng.Fork(fmt.Sprintf("summon%d", i)), i%4 == 2, i%4 == 1)
		run.Add(common.App("KSummon", common.Nat(n), common.Nat(nc), common.Bool(len(hung) > 0), common.Bool(laterHung)),
			map[string]interface{}{"kind": "summon-queue", "requests": n, "contexts_cancelled": nc, "observed": human,
				"requests_still_blocked_in_the_slot_queue": hung, "later_request_for_the_name_blocked": laterHung}, nc > 0)
		run.Hist("summon_queue")
		if i%4 == 1 {
			run.Hist("summon_queue_behind_destroy_in_flight")
		}
		if nc > 0 {
			run.Hist("summon_queue_with_cancelled_context")
		}
	}
	srv.Stop()
	os.RemoveAll(root)

	// --- 3c. Close while the final flush fails (child process)
	cfs, cferr := runCloseFaultChild(a.Out)
	if len(cfs) == 0 {
		run.Meta.Extra["closefault_child_error"] = fmt.Sprint(cferr)
	}
	for _, r := range cfs {
		run.Add(common.App("KCloseFault", common.Bool(r.Faulted), common.Bool(r.CloseHung), common.Bool(r.SummonHung)),
			map[string]interface{}{"kind": "close-with-failing-flush", "swamp": r.Name, "file_size_limit_0_during_close": r.Faulted, "close_called_twice": r.Second,
				"close_did_not_return_in_5s": r.CloseHung, "later_summon_did_not_return_in_4s": r.SummonHung, "later_summon_ms": r.SummonMs,
				"old_instance_still_in_the_map_as_closing": r.StillClosing}, r.Faulted)
		run.Hist("close_with_failing_flush")
	}

	// --- 4. polls
	np := 20
	for i := 0; i < np; i++ {
		n := 1 + rng.Intn(16)
		h := pollProbe(n)
		run.Add(common.App("KPoll", common.Nat(n), common.Bool(h)), map[string]interface{}{"kind": "poll", "locks": n, "hung": h}, true)
		run.Hist("poll")
	}
	verifhook.Install(nil)
	run.Meta.Traces = run.Meta.Evaluations
	run.Finish("check_all")
}
