// c08: numeric conversion probes (tie Query/Canon.v's float model to the compiled code) and the
// fixed witnesses of the divergence classes named in DESIGN.md (model -> impl replay).
package main

import (
	"fmt"
	"math"
	"sort"
	"time"

	hydrapb "github.com/hydraide/hydraide/sdk/go/hydraidego/v3/hydraidepbgo"
	"github.com/vmihailenco/msgpack/v5"
	"verif/harness/common"
)

//go:noinline
func f2i(f float64) int64 { return int64(f) }

//go:noinline
func f2u(f float64) uint64 { return uint64(f) }

//go:noinline
func i2f(i int64) float64 { return float64(i) }

//go:noinline
func u2f(u uint64) float64 { return float64(u) }

func convCases(run *common.Run) {
	rng := common.NewRng(run.Meta.Seed, "C08conv")
	fs := append([]float64{}, floatPool...)
	fs = append(fs, math.NaN(), math.Inf(1), math.Inf(-1), 0.999999, -0.5, 1.5, 2.5, -2.5, 4.5e15, 9007199254740993,
		-9223372036854775809, 9223372036854775807, 1.8446744073709552e19, 3e19, -3e19, math.SmallestNonzeroFloat64, math.MaxFloat64,
		float64(float32(5.7)), 1e18, 123456789.75)
	for i := 0; i < 60; i++ {
		fs = append(fs, math.Float64frombits(rng.U64()))
		fs = append(fs, float64(int64(rng.U64()>>uint(rng.Intn(64))))*[]float64{1, -1, 0.5, 1.25}[rng.Intn(4)])
	}
	for _, f := range fs {
		run.Add(common.App("CaseF2I", common.N(math.Float64bits(f)), common.Z(f2i(f)), common.N(f2u(f))),
			map[string]interface{}{"conv": "float64->int64/uint64", "float_bits": fmt.Sprintf("%016x", math.Float64bits(f))}, true)
		run.Hist("conv:f2i")
	}
	is := []int64{0, 1, -1, 5, 1 << 53, 1<<53 + 1, 1<<53 + 2, 1<<53 + 3, -(1<<53 + 1), math.MaxInt64, math.MinInt64, math.MaxInt64 - 511,
		math.MaxInt64 - 512, 1<<62 + 1, 123456789012345678}
	for i := 0; i < 60; i++ {
		is = append(is, int64(rng.U64())>>uint(rng.Intn(64)))
	}
	for _, i := range is {
		run.Add(common.App("CaseI2F", common.Z(i), common.N(math.Float64bits(i2f(i)))),
			map[string]interface{}{"conv": "int64->float64", "int": i}, true)
		run.Hist("conv:i2f")
	}
	us := []uint64{0, 1, 5, 1 << 53, 1<<53 + 1, 1 << 63, 1<<63 + 1, 1<<63 + 1024, 1<<63 + 1025, math.MaxUint64, math.MaxUint64 - 1023, math.MaxUint64 - 1024,
		1<<64 - 2048, 1<<64 - 2049}
	for i := 0; i < 60; i++ {
		us = append(us, rng.U64()>>uint(rng.Intn(64)))
	}
	for _, u := range us {
		run.Add(common.App("CaseU2F", common.N(u), common.N(math.Float64bits(u2f(u)))),
			map[string]interface{}{"conv": "uint64->float64", "uint": u}, true)
		run.Hist("conv:u2f")
	}
}

// ---- witnesses ------------------------------------------------------------------------------

type wrec struct {
	key     string
	doc     map[string]interface{}
	raw     bool
	created int64
}

func eqLeg(path string, label string, set func(f *hydrapb.TreasureFilter)) *hydrapb.TreasureFilter {
	f := &hydrapb.TreasureFilter{Operator: hydrapb.Relational_EQUAL, BytesFieldPath: &path}
	if label != "" {
		f.Label = &label
	}
	set(f)
	return f
}

func i64(v int64) func(f *hydrapb.TreasureFilter) {
	return func(f *hydrapb.TreasureFilter) { f.CompareValue = &hydrapb.TreasureFilter_Int64Val{Int64Val: v} }
}

func witnessCases(run *common.Run) {
	and := func(legs ...*hydrapb.TreasureFilter) *hydrapb.FilterGroup { return &hydrapb.FilterGroup{Filters: legs} }
	t0 := baseSec * 1e9
	type wit struct {
		name string
		recs []wrec
		q    reqSpec
	}
	ws := []wit{
		{"float_truncation_5.7_vs_int_5", []wrec{{"k00", map[string]interface{}{"a": 5.7}, false, t0}},
			reqSpec{F: and(eqLeg("a", "", i64(5)))}},
		{"wildcard_path", []wrec{{"k00", map[string]interface{}{"t": []interface{}{"x"}}, false, t0}},
			reqSpec{F: and(eqLeg("t[*]", "", func(f *hydrapb.TreasureFilter) {
				f.CompareValue = &hydrapb.TreasureFilter_StringVal{StringVal: "x"}
			}))}},
		{"len_path", []wrec{{"k00", map[string]interface{}{"t": []interface{}{int64(1), int64(2)}}, false, t0}},
			reqSpec{F: and(eqLeg("t.#len", "", i64(2)))}},
		{"uint64_above_2^63_vs_float", []wrec{{"k00", map[string]interface{}{"a": uint64(1<<63 + 1)}, false, t0}},
			reqSpec{F: and(eqLeg("a", "", func(f *hydrapb.TreasureFilter) {
				f.CompareValue = &hydrapb.TreasureFilter_Float64Val{Float64Val: 9223372036854775808}
			}))}},
		{"label_on_indexed_leg", []wrec{{"k00", map[string]interface{}{"a": int64(1)}, false, t0}},
			reqSpec{F: and(eqLeg("a", "L1", i64(1)))}},
		{"label_in_or_union", []wrec{{"k00", map[string]interface{}{"a": int64(1)}, false, t0}},
			reqSpec{F: &hydrapb.FilterGroup{Logic: hydrapb.FilterLogic_OR, Filters: []*hydrapb.TreasureFilter{eqLeg("a", "L1", i64(1)), eqLeg("a", "L2", i64(2))}}}},
		{"paging_before_vs_after_restriction", []wrec{{"k00", map[string]interface{}{"a": int64(0)}, false, t0},
			{"k01", map[string]interface{}{"a": int64(1)}, false, t0 + 1}, {"k02", map[string]interface{}{"a": int64(1)}, false, t0 + 2}},
			reqSpec{From: 1, F: and(eqLeg("a", "", i64(1)))}},
		{"record_without_sort_attribute", []wrec{{"k00", map[string]interface{}{"a": int64(1)}, false, 0},
			{"k01", map[string]interface{}{"a": int64(1)}, false, t0}},
			reqSpec{Idx: hydrapb.IndexType_CREATION_TIME, F: and(eqLeg("a", "", i64(1)))}},
		{"time_window_on_key_index", []wrec{{"k00", map[string]interface{}{"a": int64(1)}, false, t0}},
			reqSpec{FT: &t0, F: and(eqLeg("a", "", i64(1)))}},
		{"body_without_msgpack_prefix", []wrec{{"k00", map[string]interface{}{"a": int64(1)}, true, t0},
			{"k01", map[string]interface{}{"a": int64(1)}, false, t0}},
			reqSpec{F: and(eqLeg("a", "", i64(1)))}},
	}
	wres := map[string]bool{}
	for i, w := range ws {
		swamp := fmt.Sprintf("c08/wit%d/w", i)
		for _, rc := range w.recs {
			b, _ := msgpack.Marshal(rc.doc)
			if !rc.raw {
				b = append([]byte{0xC7, 0x00}, b...)
			}
			kv := &hydrapb.KeyValuePair{Key: rc.key, BytesVal: b}
			if rc.created != 0 {
				kv.CreatedAt = ts(rc.created)
			}
			setKV(swamp, kv)
		}
		c := runQueryCase(swamp, w.q, observeContents(swamp), "witness")
		c.descr["witness"] = w.name
		run.Add(c.term, c.descr, true)
		run.Hist("witness")
		agree := true
		for _, h := range c.hist {
			if h == "agree_exact:false" {
				agree = false
			}
		}
		wres[w.name] = agree
		run.Hist(fmt.Sprintf("witness:%s:routes_agree=%v", w.name, agree))
	}
	run.Meta.Extra["witness_routes_agree"] = wres
	run.Meta.Traces += len(ws)
}

// ---- equality matrix --------------------------------------------------------------------------
// One swamp whose records hold every exotic value of the pools in field "a"; one request per
// compare value (EQUAL) and a few IN lists. Covers the whole value x compare-value product of the
// canonical equality rule on both routes on every run.
func matrixCases(run *common.Run) {
	vals := []interface{}{int8(5), int64(5), int64(-1), int64(0), int64(1<<53 + 1), int64(1 << 53), int64(math.MaxInt64), int64(math.MinInt64),
		int64(math.MaxInt64 - 511), uint8(5), uint64(0), uint64(1 << 63), uint64(1<<63 + 1), uint64(math.MaxUint64), uint64(1<<53 + 1), uint64(1 << 53),
		uint64(math.MaxUint64 - 2047), float64(5), 5.7, float32(5.7), 0.0, math.Copysign(0, -1), -1.0, math.NaN(), math.Inf(1), math.Inf(-1),
		9007199254740992.0, 9223372036854775808.0, -9223372036854775808.0, 18446744073709551616.0, 18446744073709549568.0, 9223372036854774784.0,
		"5", "x", "", true, false, nil, time.Unix(5, 0).UTC(), []interface{}{int64(5)}, map[string]interface{}{"q": int64(5)}}
	swamp := "c08/mx/w"
	for i, v := range vals {
		b, err := msgpack.Marshal(map[string]interface{}{"a": v})
		if err != nil {
			panic(err)
		}
		setKV(swamp, &hydrapb.KeyValuePair{Key: fmt.Sprintf("m%02d", i), BytesVal: append([]byte{0xC7, 0x00}, b...)})
	}
	contents := observeContents(swamp)
	var legs []*hydrapb.TreasureFilter
	path := "a"
	add := func(set func(f *hydrapb.TreasureFilter)) {
		p := path
		f := &hydrapb.TreasureFilter{Operator: hydrapb.Relational_EQUAL, BytesFieldPath: &p}
		set(f)
		legs = append(legs, f)
	}
	for _, c := range []int64{5, -1, 0, 1<<53 + 1, 1 << 53, math.MaxInt64, math.MinInt64, math.MaxInt64 - 511} {
		c := c
		add(func(f *hydrapb.TreasureFilter) { f.CompareValue = &hydrapb.TreasureFilter_Int64Val{Int64Val: c} })
	}
	add(func(f *hydrapb.TreasureFilter) { f.CompareValue = &hydrapb.TreasureFilter_Int8Val{Int8Val: 5} })
	add(func(f *hydrapb.TreasureFilter) { f.CompareValue = &hydrapb.TreasureFilter_Uint8Val{Uint8Val: 5} })
	for _, c := range []uint64{5, 0, 1 << 63, 1<<63 + 1, math.MaxUint64, 1<<53 + 1, 1 << 53, math.MaxUint64 - 2047} {
		c := c
		add(func(f *hydrapb.TreasureFilter) { f.CompareValue = &hydrapb.TreasureFilter_Uint64Val{Uint64Val: c} })
	}
	for _, c := range []float64{5, 5.7, float64(float32(5.7)), 0, math.Copysign(0, -1), -1, math.NaN(), math.Inf(1), 9007199254740992, 9223372036854775808,
		-9223372036854775808, 18446744073709551616, 18446744073709549568, 9223372036854774784} {
		c := c
		add(func(f *hydrapb.TreasureFilter) { f.CompareValue = &hydrapb.TreasureFilter_Float64Val{Float64Val: c} })
	}
	add(func(f *hydrapb.TreasureFilter) { f.CompareValue = &hydrapb.TreasureFilter_Float32Val{Float32Val: 5.7} })
	for _, c := range []string{"5", "x", ""} {
		c := c
		add(func(f *hydrapb.TreasureFilter) { f.CompareValue = &hydrapb.TreasureFilter_StringVal{StringVal: c} })
	}
	add(func(f *hydrapb.TreasureFilter) {
		f.CompareValue = &hydrapb.TreasureFilter_BoolVal{BoolVal: hydrapb.Boolean_TRUE}
	})
	add(func(f *hydrapb.TreasureFilter) {
		f.CompareValue = &hydrapb.TreasureFilter_BoolVal{BoolVal: hydrapb.Boolean_FALSE}
	})
	p1, p2, p3 := "a", "a", "a"
	legs = append(legs,
		&hydrapb.TreasureFilter{Operator: hydrapb.Relational_INT64_IN, BytesFieldPath: &p1, Int64InVals: []int64{5, 0, math.MinInt64, 1 << 53, 1<<53 + 1, math.MaxInt64}},
		&hydrapb.TreasureFilter{Operator: hydrapb.Relational_INT32_IN, BytesFieldPath: &p2, Int32InVals: []int32{5, -1}},
		&hydrapb.TreasureFilter{Operator: hydrapb.Relational_STRING_IN, BytesFieldPath: &p3, StringInVals: []string{"5", ""}})
	for _, l := range legs {
		c := runQueryCase(swamp, reqSpec{F: &hydrapb.FilterGroup{Filters: []*hydrapb.TreasureFilter{l}}}, contents, "matrix")
		run.Add(c.term, c.descr, c.nontrivial)
		run.Hist("matrix")
		// the same compare value through an ordering operator (scan-side truncating conversions)
		for _, op := range []hydrapb.Relational_Operator{hydrapb.Relational_NOT_EQUAL, hydrapb.Relational_GREATER_THAN_OR_EQUAL, hydrapb.Relational_LESS_THAN} {
			if l.Operator != hydrapb.Relational_EQUAL {
				continue
			}
			p := "a"
			l2 := &hydrapb.TreasureFilter{Operator: op, BytesFieldPath: &p, CompareValue: l.CompareValue}
			c := runQueryCase(swamp, reqSpec{F: &hydrapb.FilterGroup{Filters: []*hydrapb.TreasureFilter{l2}}}, contents, "matrix")
			run.Add(c.term, c.descr, c.nontrivial)
			run.Hist("matrix_ordering")
		}
	}
}

// ---- request-shape grid -------------------------------------------------------------------------
// Two swamps (distinct timestamps / heavy ties) in which a third of the records lacks each of the
// three timestamps, queried with every combination of index x window shape x paging shape
// (direction, filter shape, RPC and MaxResults alternate). The window shapes include one-sided
// windows, windows that end below / start above every record, boundaries that coincide with a
// record's timestamp, the epoch itself and a pre-epoch bound, and the empty window.
func gridCases(run *common.Run) {
	t0 := baseSec * 1e9
	for sw := 0; sw < 2; sw++ {
		swamp := fmt.Sprintf("c08/grid%d/w", sw)
		var times []int64
		for i := 0; i < 12; i++ {
			tm := func(axis int) int64 {
				if (i+axis)%3 == 0 {
					return 0 // this record has no timestamp on that axis
				}
				if sw == 1 {
					return t0 + int64((i*7+axis*3)%3)*1e9 // ties
				}
				return t0 + int64((i*5+axis*11)%12)*1e9 + int64(axis)
			}
			a := int64(1)
			if i%4 == 3 {
				a = 2
			}
			b, _ := msgpack.Marshal(map[string]interface{}{"a": a, "b": int64(i % 5)})
			kv := &hydrapb.KeyValuePair{Key: fmt.Sprintf("g%02d", i), BytesVal: append([]byte{0xC7, 0x00}, b...)}
			if c := tm(0); c != 0 {
				kv.CreatedAt = ts(c)
				times = append(times, c)
			}
			if u := tm(1); u != 0 {
				kv.UpdatedAt = ts(u)
				times = append(times, u)
			}
			if e := tm(2); e != 0 {
				kv.ExpiredAt = ts(e)
				times = append(times, e)
			}
			setKV(swamp, kv)
		}
		sort.Slice(times, func(i, j int) bool { return times[i] < times[j] })
		tmin, tmid, tmax := times[0], times[len(times)/2], times[len(times)-1]
		p := func(v int64) *int64 { return &v }
		windows := [][2]*int64{{nil, nil}, {nil, p(tmid)}, {p(tmid), nil}, {p(tmin), p(tmax)}, {nil, p(tmin)}, {p(tmax), nil},
			{p(0), nil}, {p(-1e9), p(tmid)}, {p(tmid), p(tmid)}, {nil, p(tmax + 1)}, {p(tmax + 1), nil}}
		pagings := [][2]int32{{0, 0}, {1, 0}, {0, 3}, {2, 4}}
		contents := observeContents(swamp)
		idxs := []hydrapb.IndexType_Type{hydrapb.IndexType_KEY, hydrapb.IndexType_CREATION_TIME, hydrapb.IndexType_UPDATE_TIME, hydrapb.IndexType_EXPIRATION_TIME}
		n := 0
		for _, idx := range idxs {
			for wi, w := range windows {
				for pi, pg := range pagings {
					n++
					q := reqSpec{Idx: idx, Desc: (wi+pi+int(idx))%2 == 1, FT: w[0], TT: w[1], From: pg[0], Limit: pg[1],
						Many: n%2 == 0, Full: n%5 == 0}
					if n%3 == 0 {
						q.Max = 2
					}
					pb := "b"
					lt4 := &hydrapb.TreasureFilter{Operator: hydrapb.Relational_LESS_THAN, BytesFieldPath: &pb, CompareValue: &hydrapb.TreasureFilter_Int64Val{Int64Val: 4}}
					pa := "a"
					or := func(legs ...*hydrapb.TreasureFilter) *hydrapb.FilterGroup {
						return &hydrapb.FilterGroup{Logic: hydrapb.FilterLogic_OR, Filters: legs}
					}
					switch n % 7 {
					case 0: // AND: indexed leg + residual
						q.F = &hydrapb.FilterGroup{Filters: []*hydrapb.TreasureFilter{eqLeg("a", "", i64(1)), lt4}}
					case 1: // single indexed leg
						q.F = &hydrapb.FilterGroup{Filters: []*hydrapb.TreasureFilter{eqLeg("a", "", i64(1))}}
					case 2: // OR-union with a label, legs on distinct fields, disjoint matches
						q.F = or(eqLeg("a", "two", i64(2)), eqLeg("b", "", i64(0)))
					case 3: // OR-union on distinct fields whose match sets overlap (records matching both legs)
						q.F = or(eqLeg("a", "", i64(1)), eqLeg("b", "", i64(0)), eqLeg("b", "", i64(2)))
					case 4: // OR-union on distinct fields, overlapping, two legs only, with a label
						q.F = or(eqLeg("b", "b1", i64(1)), eqLeg("a", "", i64(2)))
					case 5: // OR-union on one field with overlapping legs and duplicate IN values
						q.F = or(eqLeg("a", "", i64(1)), &hydrapb.TreasureFilter{Operator: hydrapb.Relational_INT64_IN, BytesFieldPath: &pa, Int64InVals: []int64{1, 1, 2, 1}})
					default: // AND that consumes an OR sub-group (overlapping legs on distinct fields) + residual
						q.F = &hydrapb.FilterGroup{Filters: []*hydrapb.TreasureFilter{lt4},
							SubGroups: []*hydrapb.FilterGroup{or(eqLeg("a", "", i64(1)), eqLeg("b", "", i64(3)))}}
					}
					c := runQueryCase(swamp, q, contents, "grid")
					run.Add(c.term, c.descr, c.nontrivial)
					for _, h := range c.hist {
						run.Hist(h)
					}
					run.Hist("grid")
				}
			}
		}
	}
}
