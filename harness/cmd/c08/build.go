// c08: mutations interleaved with the build of the auto-bucket (the history shape of theorem
// C08_bucket_inv: notifications before the snapshot, between snapshot and BuildEquality, between
// BuildEquality and DrainPending, and after the drain). The goroutine that issues the first
// indexed query is parked at the verifhook points of swamp.GetOrBuildBucket; the harness mutates
// the swamp at each stop, releases it, and afterwards compares the two routes on the final
// contents like every other case.
package main

import (
	"fmt"
	"sort"
	"strings"
	"sync/atomic"
	"time"

	"github.com/hydraide/hydraide/app/verifhook"
	hydrapb "github.com/hydraide/hydraide/sdk/go/hydraidego/v3/hydraidepbgo"
	"github.com/vmihailenco/msgpack/v5"
	"verif/harness/common"
)

type parkCtl struct {
	gid    atomic.Int64
	at     chan string
	resume chan struct{}
}

func (p *parkCtl) hook(site string, gid int64, _ []int64) {
	if gid != p.gid.Load() || !strings.HasPrefix(site, "bucket.build.") {
		return
	}
	p.at <- site
	<-p.resume
}

func buildRaceCases(run *common.Run, n int) {
	rng := common.NewRng(run.Meta.Seed, "C08build")
	ctl := &parkCtl{at: make(chan string), resume: make(chan struct{})}
	ctl.gid.Store(-1)
	verifhook.Install(ctl.hook)
	defer verifhook.Install(nil)
	for sc := 0; sc < n; sc++ {
		r := rng.Fork(fmt.Sprintf("b%d", sc))
		swamp := fmt.Sprintf("c08/build%d/w", sc)
		live := map[string]bool{}
		var dead []string
		next := 0
		put := func(key string, fresh bool) {
			doc := map[string]interface{}{"a": int64(r.Intn(3)), "b": int64(r.Intn(3))}
			if r.Chance(10) {
				delete(doc, "a")
			}
			b, _ := msgpack.Marshal(doc)
			kv := &hydrapb.KeyValuePair{Key: key, BytesVal: append([]byte{0xC7, 0x00}, b...)}
			if fresh && r.Chance(80) {
				kv.CreatedAt = ts(genTime(r, false))
			}
			setKV(swamp, kv)
			live[key] = true
		}
		keys := func() []string {
			ks := make([]string, 0, len(live))
			for k := range live {
				ks = append(ks, k)
			}
			sort.Strings(ks)
			return ks
		}
		var ops []string
		mutate := func(phase string, k int) {
			for i := 0; i < k; i++ {
				ks := keys()
				switch c := r.Intn(10); {
				case c < 4 && len(ks) > 2: // deletes are the rarest notification elsewhere: weight them up
					key := ks[r.Intn(len(ks))]
					delKey(swamp, key)
					delete(live, key)
					dead = append(dead, key)
					ops = append(ops, phase+":del:"+key)
				case c < 7 && len(ks) > 0:
					key := ks[r.Intn(len(ks))]
					put(key, false)
					ops = append(ops, phase+":upd:"+key)
				case c < 8 && len(dead) > 0:
					key := dead[r.Intn(len(dead))]
					put(key, true)
					ops = append(ops, phase+":reins:"+key)
				default:
					key := fmt.Sprintf("k%02d", next)
					next++
					put(key, true)
					ops = append(ops, phase+":ins:"+key)
				}
			}
		}
		for i, m := 0, 4+r.Intn(6); i < m; i++ {
			put(fmt.Sprintf("k%02d", next), true)
			next++
		}
		// the request whose first execution builds the bucket(s)
		q := reqSpec{Many: r.Chance(30)}
		if r.Chance(40) {
			q.Idx = hydrapb.IndexType_CREATION_TIME
		}
		q.Desc = r.Bool()
		va, vb := int64(r.Intn(3)), int64(r.Intn(3))
		switch r.Intn(3) {
		case 0:
			q.F = &hydrapb.FilterGroup{Filters: []*hydrapb.TreasureFilter{eqLeg("a", "", i64(va))}}
		case 1:
			q.F = &hydrapb.FilterGroup{Logic: hydrapb.FilterLogic_OR, Filters: []*hydrapb.TreasureFilter{eqLeg("a", "", i64(va)), eqLeg("b", "", i64(vb))}}
		default:
			pa := "a"
			q.F = &hydrapb.FilterGroup{Filters: []*hydrapb.TreasureFilter{
				{Operator: hydrapb.Relational_INT64_IN, BytesFieldPath: &pa, Int64InVals: []int64{va, (va + 1) % 3}}, eqLeg("b", "L", i64(vb))}}
		}
		done := make(chan struct{})
		go func() {
			ctl.gid.Store(verifhook.GoID())
			_, _ = query(swamp, q, q.F, true)
			ctl.gid.Store(-1)
			close(done)
		}()
		stops := 0
		second := r.Chance(30)
	loop:
		for {
			select {
			case site := <-ctl.at:
				stops++
				phase := strings.TrimPrefix(site, "bucket.build.")
				if second && phase == "snapshot" {
					// a second first-caller on the same bucket while the first one is parked
					_, _ = query(swamp, q, q.F, true)
					ops = append(ops, phase+":second_caller")
				}
				mutate(phase, r.Intn(3))
				ctl.resume <- struct{}{}
			case <-done:
				break loop
			case <-time.After(20 * time.Second):
				panic("c08 build race: the parked query did not finish")
			}
		}
		mutate("after", r.Intn(3))
		c := runQueryCase(swamp, q, observeContents(swamp), "build_interleaving")
		c.descr["history"] = ops
		run.Add(c.term, c.descr, c.nontrivial)
		for _, h := range c.hist {
			run.Hist(h)
		}
		run.Hist("build_interleaving")
		run.HistN("build_interleaving:stops", stops)
		for _, o := range ops {
			p := strings.SplitN(o, ":", 3)
			run.Hist("build_op:" + p[0] + ":" + p[1])
		}
		// the same swamp, paged and through the other filter shape, now that the buckets exist
		q2 := q
		q2.From, q2.Limit = int32(r.Intn(2)), int32(r.Intn(4))
		c2 := runQueryCase(swamp, q2, observeContents(swamp), "build_interleaving")
		run.Add(c2.term, c2.descr, c2.nontrivial)
		run.Hist("build_interleaving")
	}
	run.Meta.Traces += n
}
