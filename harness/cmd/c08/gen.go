// c08 generators: bodies (msgpack documents), filter trees, requests.
package main

import (
	"math"
	"sort"
	"time"

	hydrapb "github.com/hydraide/hydraide/sdk/go/hydraidego/v3/hydraidepbgo"
	"github.com/vmihailenco/msgpack/v5"
	"google.golang.org/protobuf/types/known/timestamppb"
	"verif/harness/common"
)

const baseSec = int64(1_700_000_000)

// ---- scalar pools ---------------------------------------------------------------------------

func genInt(r *common.Rng) interface{} {
	small := int64(r.Intn(9)) - 2 // -2..6
	switch r.Intn(12) {
	case 0:
		return int8(small)
	case 1:
		return int16(small)
	case 2:
		return int32(small)
	case 3, 4, 5:
		return int64(small)
	case 6:
		return int64(1<<53 + 1)
	case 7:
		return int64(math.MaxInt64)
	case 8:
		return int64(math.MinInt64)
	case 9:
		return int64(1 << 53)
	case 10:
		return int32(math.MinInt32)
	default:
		return int64(5)
	}
}

func genUint(r *common.Rng) interface{} {
	small := uint64(r.Intn(7))
	switch r.Intn(10) {
	case 0:
		return uint8(small)
	case 1:
		return uint16(small)
	case 2:
		return uint32(small)
	case 3, 4:
		return small
	case 5:
		return uint64(1 << 63)
	case 6:
		return uint64(1<<63 + 1)
	case 7:
		return uint64(math.MaxUint64)
	case 8:
		return uint64(1<<53 + 1)
	default:
		return uint64(5)
	}
}

var floatPool = []float64{5, 5.7, 0, math.Copysign(0, -1), 1, -1, 0.5, -2, 4, 4.999, 6, 2,
	9007199254740992, 9223372036854775808, 18446744073709551616, 1e30, -1e30, -9223372036854775808,
	9223372036854774784, 18446744073709549568}

func genFloat(r *common.Rng) interface{} {
	switch r.Intn(12) {
	case 0:
		return math.NaN()
	case 1:
		return math.Inf(1)
	case 2:
		return math.Inf(-1)
	case 3:
		return float32(r.Intn(7))
	case 4:
		return float32(5.7)
	default:
		return floatPool[r.Intn(len(floatPool))]
	}
}

var strPool = []string{"x", "y", "5", "", "ab", "abc", "done", "pending"}

// genCore: a small value domain shared by bodies and compare values so that matches are common.
func genCore(r *common.Rng) interface{} {
	k := r.Intn(4)
	switch r.Intn(12) {
	case 0, 1, 2, 3:
		return int64(k)
	case 4:
		return int8(k)
	case 5:
		return uint8(k)
	case 6:
		return uint64(k)
	case 7:
		return float64(k)
	case 8:
		return float64(k) + 0.5
	case 9, 10:
		return []string{"x", "y"}[r.Intn(2)]
	default:
		return r.Bool()
	}
}

func genScalar(r *common.Rng) interface{} {
	if r.Chance(60) {
		return genCore(r)
	}
	switch r.Intn(20) {
	case 0, 1, 2, 3, 4:
		return genInt(r)
	case 5, 6, 7:
		return genUint(r)
	case 8, 9, 10, 11:
		return genFloat(r)
	case 12, 13, 14:
		return strPool[r.Intn(len(strPool))]
	case 15, 16:
		return r.Bool()
	case 17:
		return nil
	case 18:
		return time.Unix(int64(r.Intn(7)), int64(r.Intn(2))*500).UTC()
	default:
		return int64(r.Intn(7))
	}
}

// genDoc builds a body document. Fields a,b,c,d scalar; n nested map; t array of scalars;
// items array of maps. Any of them may be missing or of an unexpected shape.
func genDoc(r *common.Rng) map[string]interface{} {
	m := map[string]interface{}{}
	for _, f := range []string{"a", "b", "c", "d"} {
		if r.Chance(80) {
			m[f] = genScalar(r)
		}
	}
	if r.Chance(50) {
		n := map[string]interface{}{}
		if r.Chance(80) {
			n["x"] = genScalar(r)
		}
		if r.Chance(30) {
			n["y"] = genScalar(r)
		}
		m["n"] = n
	} else if r.Chance(10) {
		m["n"] = genScalar(r)
	}
	if r.Chance(50) {
		k := r.Intn(4)
		arr := make([]interface{}, 0, k)
		for i := 0; i < k; i++ {
			arr = append(arr, genScalar(r))
		}
		m["t"] = arr
	}
	if r.Chance(35) {
		k := r.Intn(3)
		arr := make([]interface{}, 0, k)
		for i := 0; i < k; i++ {
			if r.Chance(85) {
				e := map[string]interface{}{}
				if r.Chance(85) {
					e["v"] = genScalar(r)
				}
				arr = append(arr, e)
			} else {
				arr = append(arr, genScalar(r))
			}
		}
		m["items"] = arr
	}
	if r.Chance(8) {
		m["t[*]"] = genScalar(r) // a literal key that looks like a wildcard
	}
	if r.Chance(8) {
		m["#len"] = genScalar(r)
	}
	return m
}

type bodyKind int

const (
	bodyPrefixed bodyKind = iota
	bodyRaw               // valid msgpack map without the magic prefix
	bodyGarbage           // prefix + bytes that do not decode to a map
	bodyScalar            // the treasure holds an int64, not bytes
)

func encodeBody(r *common.Rng, kind bodyKind) *hydrapb.KeyValuePair {
	kv := &hydrapb.KeyValuePair{}
	switch kind {
	case bodyScalar:
		v := int64(r.Intn(7))
		kv.Int64Val = &v
		return kv
	case bodyGarbage:
		kv.BytesVal = []byte{0xC7, 0x00, 0x93, 0x01, 0x02, 0x03}
		return kv
	}
	b, err := msgpack.Marshal(genDoc(r))
	if err != nil {
		panic(err)
	}
	if kind == bodyPrefixed {
		b = append([]byte{0xC7, 0x00}, b...)
	}
	kv.BytesVal = b
	return kv
}

func ts(ns int64) *timestamppb.Timestamp {
	return timestamppb.New(time.Unix(0, ns))
}

// genTime: a timestamp (UnixNano) from a small grid so that ties and window hits are common.
func genTime(r *common.Rng, ties bool) int64 {
	if ties {
		return baseSec*1e9 + int64(r.Intn(6))*1e9
	}
	return baseSec*1e9 + int64(r.Intn(40))*1e9 + int64(r.Intn(1000))
}

// ---- filters --------------------------------------------------------------------------------

var pathPool = []string{"a", "a", "a", "b", "b", "c", "d", "n.x", "n.x", "n.y", "t[*]", "items[*].v", "t.#len", "n.#len",
	"#len", "zz", "a.q", "n", "t", "", "items.#len", "[*]", "n.x.#len", "a..b"}

func genCmp(r *common.Rng, f *hydrapb.TreasureFilter) {
	small := int64(r.Intn(8)) - 1
	if r.Chance(60) {
		k := r.Intn(4)
		switch r.Intn(10) {
		case 0, 1, 2:
			f.CompareValue = &hydrapb.TreasureFilter_Int64Val{Int64Val: int64(k)}
		case 3:
			f.CompareValue = &hydrapb.TreasureFilter_Int32Val{Int32Val: int32(k)}
		case 4:
			f.CompareValue = &hydrapb.TreasureFilter_Uint8Val{Uint8Val: uint32(k)}
		case 5:
			f.CompareValue = &hydrapb.TreasureFilter_Uint64Val{Uint64Val: uint64(k)}
		case 6:
			f.CompareValue = &hydrapb.TreasureFilter_Float64Val{Float64Val: float64(k)}
		case 7:
			f.CompareValue = &hydrapb.TreasureFilter_Float64Val{Float64Val: float64(k) + 0.5}
		case 8:
			f.CompareValue = &hydrapb.TreasureFilter_StringVal{StringVal: []string{"x", "y"}[r.Intn(2)]}
		default:
			b := hydrapb.Boolean_TRUE
			if r.Bool() {
				b = hydrapb.Boolean_FALSE
			}
			f.CompareValue = &hydrapb.TreasureFilter_BoolVal{BoolVal: b}
		}
		return
	}
	switch r.Intn(22) {
	case 0:
		f.CompareValue = &hydrapb.TreasureFilter_Int8Val{Int8Val: int32(small)}
	case 1:
		f.CompareValue = &hydrapb.TreasureFilter_Int16Val{Int16Val: int32(small)}
	case 2:
		f.CompareValue = &hydrapb.TreasureFilter_Int32Val{Int32Val: int32(small)}
	case 3, 4, 5:
		f.CompareValue = &hydrapb.TreasureFilter_Int64Val{Int64Val: small}
	case 6:
		vs := []int64{1<<53 + 1, 1 << 53, math.MaxInt64, math.MinInt64, 5}
		f.CompareValue = &hydrapb.TreasureFilter_Int64Val{Int64Val: vs[r.Intn(len(vs))]}
	case 7:
		f.CompareValue = &hydrapb.TreasureFilter_Uint8Val{Uint8Val: uint32(r.Intn(7))}
	case 8:
		f.CompareValue = &hydrapb.TreasureFilter_Uint16Val{Uint16Val: uint32(r.Intn(7))}
	case 9:
		f.CompareValue = &hydrapb.TreasureFilter_Uint32Val{Uint32Val: uint32(r.Intn(7))}
	case 10, 11:
		vs := []uint64{0, 1, 2, 5, 1 << 63, 1<<63 + 1, math.MaxUint64, 1<<53 + 1, 4}
		f.CompareValue = &hydrapb.TreasureFilter_Uint64Val{Uint64Val: vs[r.Intn(len(vs))]}
	case 12:
		vs := []float32{5, 5.7, 0, 1, 2, 4, float32(math.NaN())}
		f.CompareValue = &hydrapb.TreasureFilter_Float32Val{Float32Val: vs[r.Intn(len(vs))]}
	case 13, 14, 15:
		v := floatPool[r.Intn(len(floatPool))]
		if r.Chance(6) {
			v = math.NaN()
		}
		f.CompareValue = &hydrapb.TreasureFilter_Float64Val{Float64Val: v}
	case 16, 17, 18:
		f.CompareValue = &hydrapb.TreasureFilter_StringVal{StringVal: strPool[r.Intn(len(strPool))]}
	case 19, 20:
		b := hydrapb.Boolean_TRUE
		if r.Bool() {
			b = hydrapb.Boolean_FALSE
		}
		f.CompareValue = &hydrapb.TreasureFilter_BoolVal{BoolVal: b}
	default:
		if r.Bool() {
			f.CompareValue = &hydrapb.TreasureFilter_CreatedAtVal{CreatedAtVal: ts(baseSec * 1e9)}
		} // else: no compare value at all
	}
}

func genLeg(r *common.Rng, plainBias bool) *hydrapb.TreasureFilter {
	f := &hydrapb.TreasureFilter{}
	p := pathPool[r.Intn(len(pathPool))]
	if plainBias && r.Chance(70) {
		p = []string{"a", "a", "a", "b", "b", "n.x"}[r.Intn(6)]
	}
	f.BytesFieldPath = &p
	switch k := r.Intn(100); {
	case k < 55:
		f.Operator = hydrapb.Relational_EQUAL
		genCmp(r, f)
	case k < 62:
		f.Operator = hydrapb.Relational_STRING_IN
		n := r.Intn(4)
		for i := 0; i < n; i++ {
			f.StringInVals = append(f.StringInVals, []string{"x", "y", "x", "y", "5", "", "done"}[r.Intn(7)])
		}
	case k < 68:
		f.Operator = hydrapb.Relational_INT32_IN
		n := r.Intn(4)
		for i := 0; i < n; i++ {
			f.Int32InVals = append(f.Int32InVals, int32(r.Intn(5))-1)
		}
	case k < 74:
		f.Operator = hydrapb.Relational_INT64_IN
		n := r.Intn(4)
		for i := 0; i < n; i++ {
			vs := []int64{0, 1, 2, 3, 0, 1, 2, 5, math.MinInt64, 1 << 53, -1}
			f.Int64InVals = append(f.Int64InVals, vs[r.Intn(len(vs))])
		}
	case k < 94:
		f.Operator = []hydrapb.Relational_Operator{hydrapb.Relational_NOT_EQUAL, hydrapb.Relational_GREATER_THAN,
			hydrapb.Relational_GREATER_THAN_OR_EQUAL, hydrapb.Relational_LESS_THAN, hydrapb.Relational_LESS_THAN_OR_EQUAL}[r.Intn(5)]
		genCmp(r, f)
	case k < 97:
		f.Operator = hydrapb.Relational_IS_EMPTY
	default:
		f.Operator = hydrapb.Relational_IS_NOT_EMPTY
	}
	if r.Chance(30) {
		l := []string{"L1", "L2", "L3", "hot", ""}[r.Intn(5)]
		f.Label = &l
	}
	return f
}

func genGroup(r *common.Rng, depth int, forceAnd bool) *hydrapb.FilterGroup {
	g := &hydrapb.FilterGroup{}
	if !forceAnd && r.Chance(30) {
		g.Logic = hydrapb.FilterLogic_OR
	}
	nl := []int{1, 1, 1, 2, 2, 3, 0}[r.Intn(7)]
	if depth >= 3 && nl == 0 {
		nl = 1
	}
	for i := 0; i < nl; i++ {
		g.Filters = append(g.Filters, genLeg(r, true))
	}
	if depth < 3 {
		ns := 0
		switch k := r.Intn(10); {
		case k < 6:
			ns = 0
		case k < 9:
			ns = 1
		default:
			ns = 2
		}
		for i := 0; i < ns; i++ {
			g.SubGroups = append(g.SubGroups, genGroup(r, depth+1, false))
		}
	}
	return g
}

// ---- requests -------------------------------------------------------------------------------

type reqSpec struct {
	Idx   hydrapb.IndexType_Type
	Desc  bool
	From  int32
	Limit int32
	FT    *int64
	TT    *int64
	Max   int32
	Inc   []string
	Exc   []string
	F     *hydrapb.FilterGroup
	Many  bool // send through GetByIndexStreamFromMany (one query)
	Full  bool // KeysOnly = false
}

func genReq(r *common.Rng, keys []string, ties bool) reqSpec {
	q := reqSpec{}
	q.Idx = []hydrapb.IndexType_Type{hydrapb.IndexType_KEY, hydrapb.IndexType_KEY, hydrapb.IndexType_CREATION_TIME,
		hydrapb.IndexType_CREATION_TIME, hydrapb.IndexType_UPDATE_TIME, hydrapb.IndexType_EXPIRATION_TIME}[r.Intn(6)]
	q.Desc = r.Bool()
	if r.Chance(22) {
		q.From = []int32{1, 1, 2, 3, 5, 20}[r.Intn(6)]
	}
	if r.Chance(25) {
		q.Limit = []int32{1, 2, 3, 5, 8, 8}[r.Intn(6)]
	}
	if r.Chance(25) {
		a := genTime(r, ties)
		b := genTime(r, ties)
		switch r.Intn(8) {
		case 0, 1:
			q.FT = &a
		case 2, 3:
			q.TT = &a
		case 4:
			z := int64(0) // the epoch itself: a non-nil FromTime that admits timestamp 0
			if r.Bool() {
				z = -1e9
			}
			q.FT = &z
			if r.Bool() {
				q.TT = &b
			}
		default:
			if a > b {
				a, b = b, a
			}
			q.FT, q.TT = &a, &b
		}
	}
	if r.Chance(30) {
		q.Max = []int32{1, 2, 3, 5}[r.Intn(4)]
	}
	q.Many = r.Chance(30)
	q.Full = r.Chance(25)
	if r.Chance(8) && len(keys) > 0 {
		n := 1 + r.Intn(len(keys))
		for i := 0; i < n; i++ {
			q.Inc = append(q.Inc, keys[r.Intn(len(keys))])
		}
		if r.Chance(30) {
			q.Inc = append(q.Inc, "nokey")
		}
	}
	if r.Chance(12) && len(keys) > 0 {
		n := 1 + r.Intn(3)
		for i := 0; i < n; i++ {
			q.Exc = append(q.Exc, keys[r.Intn(len(keys))])
		}
	}
	if r.Chance(14) {
		// an OR whose legs are all indexable (EQUAL / IN on plain fields, mostly distinct fields):
		// answered as the union of several bucket lookups
		g := &hydrapb.FilterGroup{Logic: hydrapb.FilterLogic_OR}
		paths := []string{"a", "b", "c", "n.x", "a"}
		off := r.Intn(len(paths))
		for i, n := 0, 2+r.Intn(2); i < n; i++ {
			p := paths[(off+i)%len(paths)]
			f := &hydrapb.TreasureFilter{BytesFieldPath: &p}
			if r.Chance(25) {
				f.Operator = hydrapb.Relational_INT64_IN
				for j, m := 0, 1+r.Intn(3); j < m; j++ {
					f.Int64InVals = append(f.Int64InVals, int64(r.Intn(4)))
				}
			} else {
				f.Operator = hydrapb.Relational_EQUAL
				genCmp(r, f)
			}
			if r.Chance(20) {
				l := "u" + p
				f.Label = &l
			}
			g.Filters = append(g.Filters, f)
		}
		if r.Chance(40) { // consumed as a sub-group of an AND
			q.F = &hydrapb.FilterGroup{SubGroups: []*hydrapb.FilterGroup{g}}
			if r.Bool() {
				q.F.Filters = []*hydrapb.TreasureFilter{genLeg(r, true)}
				q.F.Filters[0].Operator = hydrapb.Relational_NOT_EQUAL
				genCmp(r, q.F.Filters[0])
			}
		} else {
			q.F = g
		}
	} else if r.Chance(35) {
		q.F = &hydrapb.FilterGroup{Filters: []*hydrapb.TreasureFilter{genLeg(r, true)}}
		if r.Chance(40) {
			q.F.Filters = append(q.F.Filters, genLeg(r, true))
		}
		if r.Chance(25) {
			q.F.Logic = hydrapb.FilterLogic_OR
		}
	} else {
		q.F = genGroup(r, 1, r.Chance(75))
	}
	return q
}

func sortedKeys(m map[string]interface{}) []string {
	ks := make([]string, 0, len(m))
	for k := range m {
		ks = append(ks, k)
	}
	sort.Strings(ks)
	return ks
}
