// c08: accelerated (bucket) route vs full-scan route of GetByIndexStream.
//
// Every case is (observed swamp contents, observed beacon order, request, output of the request
// as sent, output of the same request with its filter wrapped as OR{sub-group F}). planOr bypasses
// the planner whenever a sub-group is present, so the wrapped request is always answered by the
// full scan; the request as sent is answered through the auto-built bucket whenever PlanFilter
// finds an indexable leg. Query/Routes.v evaluates the property oracle (the two outputs agree up
// to ties, labels included) and replays both route models on the same input.
package main

import (
	"context"
	"encoding/json"
	"fmt"
	"math"
	"os"
	"sort"
	"strings"
	"time"

	hydrapb "github.com/hydraide/hydraide/sdk/go/hydraidego/v3/hydraidepbgo"
	"github.com/vmihailenco/msgpack/v5"
	"google.golang.org/grpc"
	"verif/harness/common"
	"verif/harness/rig"
)

type fakeStream struct {
	grpc.ServerStream
	ctx context.Context
	out []*hydrapb.GetByIndexStreamResponse
}

func (f *fakeStream) Context() context.Context { return f.ctx }
func (f *fakeStream) Send(r *hydrapb.GetByIndexStreamResponse) error {
	f.out = append(f.out, r)
	return nil
}

type outRow struct {
	Key    string   `json:"k"`
	Labels []string `json:"l,omitempty"`
}

var srv *rig.Server

func query(swamp string, q reqSpec, f *hydrapb.FilterGroup, keysOnly bool) ([]*hydrapb.GetByIndexStreamResponse, error) {
	if q.Many {
		return queryMany(swamp, q, f, keysOnly)
	}
	in := &hydrapb.GetByIndexStreamRequest{IslandID: 1, SwampName: swamp, IndexType: q.Idx,
		From: q.From, Limit: q.Limit, MaxResults: q.Max, ExcludeKeys: q.Exc, IncludedKeys: q.Inc, KeysOnly: keysOnly, Filters: f}
	if q.Desc {
		in.OrderType = hydrapb.OrderType_DESC
	}
	if q.FT != nil {
		in.FromTime = ts(*q.FT)
	}
	if q.TT != nil {
		in.ToTime = ts(*q.TT)
	}
	st := &fakeStream{ctx: context.Background()}
	err := srv.GW.GetByIndexStream(in, st)
	return st.out, err
}

type fakeManyStream struct {
	grpc.ServerStream
	ctx context.Context
	out []*hydrapb.GetByIndexStreamFromManyResponse
}

func (f *fakeManyStream) Context() context.Context { return f.ctx }
func (f *fakeManyStream) Send(r *hydrapb.GetByIndexStreamFromManyResponse) error {
	f.out = append(f.out, r)
	return nil
}

// queryMany sends the same request as the single query of GetByIndexStreamFromMany (the second
// site of the route selection); the per-query semantics are those of GetByIndexStream.
func queryMany(swamp string, q reqSpec, f *hydrapb.FilterGroup, keysOnly bool) ([]*hydrapb.GetByIndexStreamResponse, error) {
	sq := &hydrapb.SwampQuery{IslandID: 1, SwampName: swamp, IndexType: q.Idx,
		From: q.From, Limit: q.Limit, MaxResults: q.Max, ExcludeKeys: q.Exc, IncludedKeys: q.Inc, KeysOnly: keysOnly, Filters: f}
	if q.Desc {
		sq.OrderType = hydrapb.OrderType_DESC
	}
	if q.FT != nil {
		sq.FromTime = ts(*q.FT)
	}
	if q.TT != nil {
		sq.ToTime = ts(*q.TT)
	}
	st := &fakeManyStream{ctx: context.Background()}
	err := srv.GW.GetByIndexStreamFromMany(&hydrapb.GetByIndexStreamFromManyRequest{Queries: []*hydrapb.SwampQuery{sq}}, st)
	out := make([]*hydrapb.GetByIndexStreamResponse, 0, len(st.out))
	for _, r := range st.out {
		out = append(out, &hydrapb.GetByIndexStreamResponse{Treasure: r.Treasure, Meta: r.Meta})
	}
	return out, err
}

func rows(rs []*hydrapb.GetByIndexStreamResponse) []outRow {
	out := make([]outRow, 0, len(rs))
	for _, r := range rs {
		o := outRow{Key: r.GetTreasure().GetKey()}
		if r.Meta != nil {
			o.Labels = r.Meta.MatchedLabels
		}
		out = append(out, o)
	}
	return out
}

func setKV(swamp string, kv *hydrapb.KeyValuePair) {
	_, err := srv.GW.Set(context.Background(), &hydrapb.SetRequest{Swamps: []*hydrapb.SwampRequest{{
		IslandID: 1, SwampName: swamp, CreateIfNotExist: true, Overwrite: true, KeyValues: []*hydrapb.KeyValuePair{kv}}}})
	if err != nil {
		panic(fmt.Sprintf("set %s/%s: %v", swamp, kv.Key, err))
	}
}

func delKey(swamp, key string) {
	_, err := srv.GW.Delete(context.Background(), &hydrapb.DeleteRequest{Swamps: []*hydrapb.DeleteRequest_SwampKeys{{
		IslandID: 1, SwampName: swamp, Keys: []string{key}}}})
	if err != nil {
		panic(fmt.Sprintf("delete %s/%s: %v", swamp, key, err))
	}
}

// ---- Coq term emission ----------------------------------------------------------------------

func cstr(s string) string { return "\"" + strings.ReplaceAll(s, "\"", "\"\"") + "\"" }

func cstrs(xs []string) string {
	t := make([]string, len(xs))
	for i, x := range xs {
		t[i] = cstr(x)
	}
	return common.List(t)
}

func valTerm(v interface{}) string {
	switch n := v.(type) {
	case nil:
		return "VNil"
	case bool:
		return "(VBool " + common.Bool(n) + ")"
	case int8:
		return "(VInt " + common.Z(int64(n)) + ")"
	case int16:
		return "(VInt " + common.Z(int64(n)) + ")"
	case int32:
		return "(VInt " + common.Z(int64(n)) + ")"
	case int64:
		return "(VInt " + common.Z(n) + ")"
	case uint8:
		return "(VUint " + common.N(uint64(n)) + ")"
	case uint16:
		return "(VUint " + common.N(uint64(n)) + ")"
	case uint32:
		return "(VUint " + common.N(uint64(n)) + ")"
	case uint64:
		return "(VUint " + common.N(n) + ")"
	case float32:
		return "(VFloat " + common.N(math.Float64bits(float64(n))) + ")"
	case float64:
		return "(VFloat " + common.N(math.Float64bits(n)) + ")"
	case string:
		return "(VStr " + cstr(n) + ")"
	case time.Time:
		return "(VTime " + common.Z(n.UTC().Unix()) + ")"
	case []interface{}:
		t := make([]string, len(n))
		for i, x := range n {
			t[i] = valTerm(x)
		}
		return "(VArr " + common.List(t) + ")"
	case map[string]interface{}:
		return "(VMap " + docTerm(n) + ")"
	default:
		return "VOther"
	}
}

func docTerm(m map[string]interface{}) string {
	ks := sortedKeys(m)
	t := make([]string, len(ks))
	for i, k := range ks {
		t[i] = common.Pair(cstr(k), valTerm(m[k]))
	}
	return common.List(t)
}

type recObs struct {
	Key                       string
	Created, Updated, Expired int64
	Body                      string // Coq term
	Raw                       bool
}

func recTerm(r recObs) string {
	return common.App("mkRec", cstr(r.Key), common.Z(r.Created), common.Z(r.Updated), common.Z(r.Expired), r.Body)
}

func tsNano(t interface {
	GetSeconds() int64
	GetNanos() int32
}) int64 {
	return t.GetSeconds()*1e9 + int64(t.GetNanos())
}

// observeContents reads every record through the key index (no filter: bypass route).
func observeContents(swamp string) []recObs {
	rs, err := query(swamp, reqSpec{Idx: hydrapb.IndexType_KEY}, nil, false)
	if err != nil {
		panic(err)
	}
	out := make([]recObs, 0, len(rs))
	for _, r := range rs {
		t := r.GetTreasure()
		o := recObs{Key: t.GetKey(), Body: "BOpaque"}
		if t.CreatedAt != nil {
			o.Created = tsNano(t.CreatedAt)
		}
		if t.UpdatedAt != nil {
			o.Updated = tsNano(t.UpdatedAt)
		}
		if t.ExpiredAt != nil {
			o.Expired = tsNano(t.ExpiredAt)
		}
		if b := t.BytesVal; len(b) > 0 {
			pref := len(b) >= 2 && b[0] == 0xC7 && b[1] == 0x00
			raw := b
			if pref {
				raw = b[2:]
			}
			var m map[string]interface{}
			if err := msgpack.Unmarshal(raw, &m); err == nil {
				o.Body = common.App("BMap", common.Bool(pref), docTerm(m))
				o.Raw = !pref
			}
		}
		out = append(out, o)
	}
	return out
}

func cmpTerm(f *hydrapb.TreasureFilter) string {
	switch cv := f.GetCompareValue().(type) {
	case *hydrapb.TreasureFilter_Int8Val:
		return "(CInt 8 " + common.Z(int64(cv.Int8Val)) + ")"
	case *hydrapb.TreasureFilter_Int16Val:
		return "(CInt 16 " + common.Z(int64(cv.Int16Val)) + ")"
	case *hydrapb.TreasureFilter_Int32Val:
		return "(CInt 32 " + common.Z(int64(cv.Int32Val)) + ")"
	case *hydrapb.TreasureFilter_Int64Val:
		return "(CInt 64 " + common.Z(cv.Int64Val) + ")"
	case *hydrapb.TreasureFilter_Uint8Val:
		return "(CUint 8 " + common.N(uint64(cv.Uint8Val)) + ")"
	case *hydrapb.TreasureFilter_Uint16Val:
		return "(CUint 16 " + common.N(uint64(cv.Uint16Val)) + ")"
	case *hydrapb.TreasureFilter_Uint32Val:
		return "(CUint 32 " + common.N(uint64(cv.Uint32Val)) + ")"
	case *hydrapb.TreasureFilter_Uint64Val:
		return "(CUint 64 " + common.N(cv.Uint64Val) + ")"
	case *hydrapb.TreasureFilter_Float32Val:
		return "(CFloat 32 " + common.N(math.Float64bits(float64(cv.Float32Val))) + ")"
	case *hydrapb.TreasureFilter_Float64Val:
		return "(CFloat 64 " + common.N(math.Float64bits(cv.Float64Val)) + ")"
	case *hydrapb.TreasureFilter_StringVal:
		return "(CStr " + cstr(cv.StringVal) + ")"
	case *hydrapb.TreasureFilter_BoolVal:
		return "(CBool " + common.Bool(cv.BoolVal == hydrapb.Boolean_TRUE) + ")"
	}
	return "CNone"
}

var opNames = map[hydrapb.Relational_Operator]string{
	hydrapb.Relational_EQUAL: "OpEq", hydrapb.Relational_NOT_EQUAL: "OpNe", hydrapb.Relational_GREATER_THAN: "OpGt",
	hydrapb.Relational_GREATER_THAN_OR_EQUAL: "OpGe", hydrapb.Relational_LESS_THAN: "OpLt", hydrapb.Relational_LESS_THAN_OR_EQUAL: "OpLe",
	hydrapb.Relational_STRING_IN: "OpStrIn", hydrapb.Relational_INT32_IN: "OpI32In", hydrapb.Relational_INT64_IN: "OpI64In",
	hydrapb.Relational_IS_EMPTY: "OpIsEmpty", hydrapb.Relational_IS_NOT_EMPTY: "OpIsNotEmpty",
}

func legTerm(f *hydrapb.TreasureFilter) string {
	ints := []int64{}
	for _, v := range f.Int32InVals {
		ints = append(ints, int64(v))
	}
	if f.Operator == hydrapb.Relational_INT64_IN {
		ints = append([]int64{}, f.Int64InVals...)
	}
	return common.App("mkLeg", opNames[f.Operator], cmpTerm(f), cstr(f.GetBytesFieldPath()), cstr(f.GetLabel()),
		cstrs(f.StringInVals), common.ZList(ints))
}

func groupTerm(g *hydrapb.FilterGroup) string {
	legs := make([]string, len(g.Filters))
	for i, f := range g.Filters {
		legs[i] = legTerm(f)
	}
	subs := make([]string, len(g.SubGroups))
	for i, s := range g.SubGroups {
		subs[i] = groupTerm(s)
	}
	return common.App("Grp", common.Bool(g.Logic == hydrapb.FilterLogic_OR), common.List(legs), common.List(subs), "[]")
}

func optZ(p *int64) string {
	if p == nil {
		return "None"
	}
	return common.Some(common.Z(*p))
}

func reqTerm(q reqSpec) string {
	idx := map[hydrapb.IndexType_Type]uint64{hydrapb.IndexType_KEY: 0, hydrapb.IndexType_EXPIRATION_TIME: 1,
		hydrapb.IndexType_CREATION_TIME: 2, hydrapb.IndexType_UPDATE_TIME: 3}[q.Idx]
	return common.App("mkReq", common.N(idx), common.Bool(q.Desc), common.Z(int64(q.From)), common.Z(int64(q.Limit)),
		optZ(q.FT), optZ(q.TT), common.Z(int64(q.Max)), cstrs(q.Inc), cstrs(q.Exc), groupTerm(q.F))
}

func outTerm(o []outRow) string {
	t := make([]string, len(o))
	for i, r := range o {
		t[i] = common.Pair(cstr(r.Key), cstrs(r.Labels))
	}
	return common.List(t)
}

// ---- scenarios ------------------------------------------------------------------------------

type caseOut struct {
	term       string
	descr      map[string]interface{}
	nontrivial bool
	hist       []string
}

func groupJSON(g *hydrapb.FilterGroup) string {
	b, _ := json.Marshal(g)
	return string(b)
}

func sameRows(a, b []outRow) bool {
	if len(a) != len(b) {
		return false
	}
	for i := range a {
		if a[i].Key != b[i].Key || strings.Join(a[i].Labels, "\x00") != strings.Join(b[i].Labels, "\x00") {
			return false
		}
	}
	return true
}

var debug = os.Getenv("C08_DEBUG") != ""

func runQueryCase(swamp string, q reqSpec, contents []recObs, phase string) caseOut {
	// beacon order: the same index and direction, nothing else
	ordRs, err := query(swamp, reqSpec{Idx: q.Idx, Desc: q.Desc}, nil, true)
	if err != nil {
		panic(err)
	}
	ord := make([]string, len(ordRs))
	for i, r := range ordRs {
		ord[i] = r.GetTreasure().GetKey()
	}
	accRs, err1 := query(swamp, q, q.F, !q.Full)
	wrapped := &hydrapb.FilterGroup{Logic: hydrapb.FilterLogic_OR, SubGroups: []*hydrapb.FilterGroup{q.F}}
	scanRs, err2 := query(swamp, q, wrapped, !q.Full)
	if err1 != nil || err2 != nil {
		panic(fmt.Sprintf("query error: %v / %v", err1, err2))
	}
	acc, scan := rows(accRs), rows(scanRs)
	recs := make([]string, len(contents))
	for i, r := range contents {
		recs[i] = recTerm(r)
	}
	term := common.App("CaseQ", common.List(recs), cstrs(ord), reqTerm(q), outTerm(acc), outTerm(scan))
	same := sameRows(acc, scan)
	hist := []string{"phase:" + phase, fmt.Sprintf("idx:%s", q.Idx), fmt.Sprintf("agree_exact:%v", same)}
	if q.From != 0 || q.Limit != 0 {
		hist = append(hist, "paged")
	}
	if q.Many {
		hist = append(hist, "rpc:GetByIndexStreamFromMany")
	}
	if q.Full {
		hist = append(hist, "keys_only:false")
	}
	switch {
	case q.FT != nil && q.TT != nil:
		hist = append(hist, "window:both")
	case q.FT != nil:
		hist = append(hist, "window:from_only")
	case q.TT != nil:
		hist = append(hist, "window:to_only")
	}
	if len(acc) > 0 || len(scan) > 0 {
		hist = append(hist, "nonempty_output")
	}
	if debug && !same {
		fmt.Fprintf(os.Stderr, "DIFF swamp=%s idx=%v desc=%v from=%d limit=%d max=%d ft=%v tt=%v\n  F=%s\n  acc=%v\n  scan=%v\n",
			swamp, q.Idx, q.Desc, q.From, q.Limit, q.Max, q.FT != nil, q.TT != nil, groupJSON(q.F), acc, scan)
	}
	d := map[string]interface{}{"swamp": swamp, "phase": phase, "idx": q.Idx.String(), "desc": q.Desc, "from": q.From, "limit": q.Limit,
		"max": q.Max, "rpc_from_many": q.Many, "keys_only": !q.Full, "from_time": q.FT, "to_time": q.TT, "include": q.Inc, "exclude": q.Exc, "filter": groupJSON(q.F),
		"accelerated_out": acc, "fullscan_out": scan, "beacon_order": ord, "records": len(contents)}
	return caseOut{term: term, descr: d, nontrivial: len(acc) > 0 || len(scan) > 0, hist: hist}
}

func runScenario(id int, r *common.Rng, nq int, allowRaw bool) []caseOut {
	swamp := fmt.Sprintf("c08/s%d/w", id)
	ties := r.Chance(30)
	n := 4 + r.Intn(13)
	live := map[string]bool{}
	nextKey := 0
	newKV := func(key string, fresh bool) *hydrapb.KeyValuePair {
		kind := bodyPrefixed
		switch k := r.Intn(100); {
		case k < 4:
			kind = bodyGarbage
		case k < 8:
			kind = bodyScalar
		case k < 16 && allowRaw:
			kind = bodyRaw
		}
		kv := encodeBody(r, kind)
		kv.Key = key
		if fresh { // time attributes are only set at creation (moving them later is C07's subject)
			if r.Chance(80) {
				kv.CreatedAt = ts(genTime(r, ties))
			}
			if r.Chance(70) {
				kv.UpdatedAt = ts(genTime(r, ties))
			}
			if r.Chance(50) {
				kv.ExpiredAt = ts(genTime(r, ties))
			}
		}
		return kv
	}
	insert := func() {
		key := fmt.Sprintf("k%02d", nextKey)
		nextKey++
		setKV(swamp, newKV(key, true))
		live[key] = true
	}
	liveKeys := func() []string {
		ks := make([]string, 0, len(live))
		for k := range live {
			ks = append(ks, k)
		}
		sort.Strings(ks)
		return ks
	}
	var dead []string
	mutate := func(k int) {
		for i := 0; i < k; i++ {
			ks := liveKeys()
			switch c := r.Intn(10); {
			case c < 2:
				insert()
			case c < 3:
				if len(dead) > 0 { // a deleted key comes back (fresh Treasure, fresh timestamps)
					key := dead[r.Intn(len(dead))]
					setKV(swamp, newKV(key, true))
					live[key] = true
				} else {
					insert()
				}
			case c < 8 && len(ks) > 0:
				setKV(swamp, newKV(ks[r.Intn(len(ks))], false))
			case len(ks) > 1:
				key := ks[r.Intn(len(ks))]
				delKey(swamp, key)
				delete(live, key)
				dead = append(dead, key)
			}
		}
	}
	for i := 0; i < n; i++ {
		insert()
	}
	mutate(r.Intn(4))
	var out []caseOut
	var reqs []reqSpec
	contents := observeContents(swamp)
	for i := 0; i < nq; i++ {
		q := genReq(r, liveKeys(), ties)
		reqs = append(reqs, q)
		out = append(out, runQueryCase(swamp, q, contents, "first"))
	}
	mutate(1 + r.Intn(6))
	contents = observeContents(swamp)
	for i := 0; i < nq; i++ {
		var q reqSpec
		if i%2 == 0 {
			q = reqs[r.Intn(len(reqs))] // its buckets exist and were maintained incrementally
		} else {
			q = genReq(r, liveKeys(), ties)
		}
		out = append(out, runQueryCase(swamp, q, contents, "after_mutation"))
	}
	return out
}

func main() {
	args := common.ParseArgs()
	rig.Quiet()
	run := common.NewRun(args, "C08", "HV.Query.Routes")
	run.Shard = 100
	run.Meta.Rule = "a case is non-trivial when at least one of the two routes returned a record"
	root, _ := os.MkdirTemp("", "c08")
	defer os.RemoveAll(root)
	srv = rig.Start(root, true)
	srv.Register("c08/*/*", true, 3600, 1, 8192)
	rng := common.NewRng(args.Seed, "C08")

	nsc, nq := 100, 5
	if args.Tier == "thorough" {
		nsc, nq = 500, 6
	}
	forks := make([]*common.Rng, nsc)
	for i := range forks {
		forks[i] = rng.Fork(fmt.Sprintf("sc%d", i))
	}
	results := make([][]caseOut, nsc)
	common.Parallel(nsc, 16, func(i int) {
		results[i] = runScenario(i, forks[i], nq, i%6 == 5)
	})
	for _, cs := range results {
		for _, c := range cs {
			run.Add(c.term, c.descr, c.nontrivial)
			for _, h := range c.hist {
				run.Hist(h)
			}
		}
	}
	convCases(run)
	witnessCases(run)
	matrixCases(run)
	gridCases(run)
	nb := 60
	if args.Tier == "thorough" {
		nb = 400
	}
	buildRaceCases(run, nb)
	srv.Stop()
	run.Finish("check_all")
}
