// c20: correspondence check for swamp addressing (app/name/name.go, the SDK's name package
// and the SDK client's routing table) against Addr/Name.v and Addr/XXHash64.v.
//
// Every case runs the real functions on fresh name objects (server and SDK side) and records
// island numbers, the full hash path (or the recovered panic), Load results and routing
// decisions.  The Coq side recomputes everything - including XXH64, implemented in Gallina -
// and evaluates the property clauses (in range, SDK = server, no panic, distinct locations).
package main

import (
	"fmt"
	"io"
	"log/slog"
	"strings"

	"github.com/cespare/xxhash/v2"
	srvname "github.com/hydraide/hydraide/app/name"
	"github.com/hydraide/hydraide/sdk/go/hydraidego/v3/client"
	sdkname "github.com/hydraide/hydraide/sdk/go/hydraidego/v3/name"
	"verif/harness/common"
)

type triple struct{ S, R, W string }

func (t triple) coq() string {
	return fmt.Sprintf("{| sanct := %s; realm := %s; swamp := %s |}", common.ByteList([]byte(t.S)), common.ByteList([]byte(t.R)), common.ByteList([]byte(t.W)))
}
func (t triple) human() map[string]string {
	return map[string]string{"sanctuary": fmt.Sprintf("%q", t.S), "realm": fmt.Sprintf("%q", t.R), "swamp": fmt.Sprintf("%q", t.W)}
}
func (t triple) srv() srvname.Name { return srvname.New().Sanctuary(t.S).Realm(t.R).Swamp(t.W) }
func (t triple) sdk() sdkname.Name { return sdkname.New().Sanctuary(t.S).Realm(t.R).Swamp(t.W) }

func optStr(s *string) string {
	if s == nil {
		return "None"
	}
	return common.Some(common.ByteList([]byte(*s)))
}
func optN(v *uint64) string {
	if v == nil {
		return "None"
	}
	return common.Some(common.N(*v))
}

func fullPath(t triple, island uint64, depth, maxf int) (res *string, panicMsg string) {
	defer func() {
		if p := recover(); p != nil {
			res, panicMsg = nil, fmt.Sprint(p)
		}
	}()
	s := t.srv().GetFullHashPath("/r", island, depth, maxf)
	return &s, ""
}

var alphabet = []string{"a", "b", "z", "0", "-", "_", ".", "é", "ő", "漢", "😀", "*", " ", "\x00", "/"}

func genPart(rng *common.Rng, n int, exotic bool) string {
	var sb strings.Builder
	for sb.Len() < n {
		if exotic && rng.Chance(30) {
			sb.WriteString(alphabet[rng.Intn(len(alphabet))])
		} else {
			sb.WriteByte(byte('a' + rng.Intn(26)))
		}
	}
	s := sb.String()
	if len(s) > n && !exotic {
		s = s[:n]
	}
	return s
}

// a triple whose three parts have total length about total
func genTriple(rng *common.Rng, total int, exotic bool) triple {
	a := rng.Intn(total + 1)
	b := rng.Intn(total - a + 1)
	if rng.Chance(10) {
		a = 0 // empty sanctuary
	}
	return triple{genPart(rng, a, exotic), genPart(rng, b, exotic), genPart(rng, total-a-b, exotic)}
}

func main() {
	a := common.ParseArgs()
	run := common.NewRun(a, "C20", "HV.Addr.Name")
	thorough := a.Tier == "thorough"
	run.Meta.Rule = "address cases: a name triple (ASCII and multi-byte UTF-8, empty parts, parts containing '/', NUL, '*'; total length 0..300 crossing the 4/8/32-byte XXH64 regimes), an island count N in {1,2,10,999,1000,65535} or larger (SDK only), depth 0..10, folders per level in {1,2,16,255,256,1000,4096,65536}: island ids from fresh SDK and server name objects, the full hash path or its panic; plus reused-object (cache) cases, Load of arbitrary paths, separator-alias pairs, SDK routing-table lookups, client-over-time sequences (Connect-style refills of the routing table with lookups in between: same name again through kept / fresh / prefix-derived name objects, different names sharing one Path string, both lookup functions) and name-object programs (builder chains with shared prefix objects, island / path / Get queries on prefixes, siblings and the same object again, Load, out-of-order builder calls); non-trivial = key of 32+ bytes, non-ASCII/empty/separator parts, N >= 65536, depth*charsPerLevel beyond the hash string, or any cache/load/alias/route/route-sequence/program case"
	slog.SetDefault(slog.New(slog.NewTextHandler(io.Discard, nil)))
	rng := common.NewRng(a.Seed, "C20")

	ns := []uint64{1, 2, 10, 999, 1000, 65535}
	bigNs := []uint64{65536, 1000000, 1 << 40, ^uint64(0)}
	maxfs := []int{1, 2, 16, 255, 256, 1000, 4096, 65536}

	nAddr, nLong, nCache, nLoad, nAlias, nRoute, nProg, nRouteSeq := 650, 40, 120, 120, 80, 150, 250, 150
	if thorough {
		nAddr, nLong, nCache, nLoad, nAlias, nRoute, nProg, nRouteSeq = 12000, 600, 1500, 1500, 1000, 1500, 4000, 3000
	}

	addr := func(t triple, n uint64, depth, maxf int, island uint64, kind string) {
		key := t.S + t.R + t.W
		gh := xxhash.Sum64([]byte(key))
		var islandPanic string
		safe := func(f func() uint64) (v uint64) {
			defer func() {
				if p := recover(); p != nil {
					islandPanic = fmt.Sprint(p)
				}
			}()
			return f()
		}
		sdk1 := safe(func() uint64 { return t.sdk().GetIslandID(n) })
		sdk2 := safe(func() uint64 { return t.sdk().GetIslandID(n) })
		var srv *uint64
		if n < 65536 {
			v := safe(func() uint64 { return uint64(t.srv().GetFolderNumber(uint16(n))) })
			srv = &v
		}
		p1, pm := fullPath(t, island, depth, maxf)
		p2, _ := fullPath(t, island, depth, maxf)
		cpl := len(fmt.Sprintf("%x", maxf-1))
		if cpl < 2 {
			cpl = 2
		}
		hexlen := len(fmt.Sprintf("%x", xxhash.Sum64String(t.S+"/"+t.R+"/"+t.W)))
		beyond := depth > 0 && (depth-1)*cpl > hexlen
		nonASCII := false
		for _, c := range []byte(key) {
			if c >= 0x80 || c == '/' || c == 0 {
				nonASCII = true
			}
		}
		nt := len(key) >= 32 || nonASCII || t.S == "" || t.R == "" || t.W == "" || n >= 65536 || beyond || hexlen < 16
		term := common.App("CAddr", t.coq(), common.N(n), common.Nat(depth), common.N(uint64(maxf)), common.N(island), common.N(gh),
			common.N(sdk1), common.N(sdk2), optN(srv), optStr(p1), optStr(p2))
		d := map[string]interface{}{"kind": kind, "name": t.human(), "islands": n, "depth": depth, "max_folders_per_level": maxf,
			"island_id_arg": island, "sdk_island": sdk1, "path_panic": pm}
		if srv != nil {
			d["server_island"] = *srv
		}
		if p1 != nil {
			d["path"] = *p1
		}
		idx := run.Add(term, d, nt)
		if islandPanic != "" {
			run.Violate(idx, "island in 1..N", "island_computation_panics", islandPanic)
		}
		run.Hist("addr")
		if beyond {
			run.Hist("addr_depth_beyond_hash_string")
		}
		if hexlen < 16 {
			run.Hist("addr_hash_with_leading_zero_nibble")
		}
		switch {
		case len(key) < 4:
			run.Hist("keylen_0_3")
		case len(key) < 8:
			run.Hist("keylen_4_7")
		case len(key) < 32:
			run.Hist("keylen_8_31")
		default:
			run.Hist("keylen_32_plus")
		}
	}

	// the refutation witnesses of the pinned commit: depth 7 at 1000 folders per level, depth 10 at 100
	addr(triple{"a", "b", "c"}, 1000, 7, 1000, 3, "witness")
	addr(triple{"a", "b", "c"}, 1000, 10, 100, 3, "witness")
	for i := 0; i < nAddr; i++ {
		total := i % 72 // every key length 0..71 repeatedly: all XXH64 tail regimes
		t := genTriple(rng, total, rng.Chance(35))
		n := ns[rng.Intn(len(ns))]
		if rng.Chance(15) {
			n = bigNs[rng.Intn(len(bigNs))]
		} else if rng.Chance(20) {
			n = 1 + uint64(rng.Intn(65535))
		}
		addr(t, n, rng.Intn(11), maxfs[rng.Intn(len(maxfs))], 1+uint64(rng.Intn(1000)), "random")
	}
	for i := 0; i < nLong; i++ {
		t := genTriple(rng, 72+rng.Intn(229), rng.Chance(50))
		addr(t, ns[rng.Intn(len(ns))], rng.Intn(11), maxfs[rng.Intn(len(maxfs))], 1+uint64(rng.Intn(1000)), "long")
	}

	// reused name objects: the cached island ignores a changed N
	for i := 0; i < nCache; i++ {
		t := genTriple(rng, rng.Intn(24), false)
		n1 := ns[rng.Intn(len(ns))]
		n2 := ns[rng.Intn(len(ns))]
		if i == 0 {
			t, n1, n2 = triple{"a", "b", "c"}, 1000, 10
		}
		so := t.sdk()
		so.GetIslandID(n1)
		sdkSecond := so.GetIslandID(n2)
		ro := t.srv()
		ro.GetFolderNumber(uint16(n1))
		srvSecond := uint64(ro.GetFolderNumber(uint16(n2)))
		run.Add(common.App("CCache", t.coq(), common.N(n1), common.N(n2), common.N(sdkSecond), optN(&srvSecond)),
			map[string]interface{}{"kind": "reused-object", "name": t.human(), "first_N": n1, "second_N": n2, "sdk_second_result": sdkSecond, "server_second_result": srvSecond}, true)
		run.Hist("cache")
	}

	// Load of arbitrary path strings
	for i := 0; i < nLoad; i++ {
		nsep := rng.Intn(6)
		if rng.Chance(50) {
			nsep = 2
		}
		var parts []string
		for k := 0; k <= nsep; k++ {
			parts = append(parts, genPart(rng, rng.Intn(8), rng.Chance(20)))
		}
		p := strings.Join(parts, "/")
		type loaded struct {
			t   triple
			get string
		}
		ld := func(f func() (string, string, string, string)) (res *loaded) {
			defer func() {
				if recover() != nil {
					res = nil
				}
			}()
			s, r, w, g := f()
			return &loaded{triple{s, r, w}, g}
		}
		sv := ld(func() (string, string, string, string) {
			n := srvname.Load(p)
			return n.GetSanctuaryID(), n.GetRealmName(), n.GetSwampName(), n.Get()
		})
		// the SDK name has no part getters: its parts are observed through Get() only
		sd := ld(func() (string, string, string, string) {
			n := sdkname.Load(p)
			sp := strings.SplitN(p, "/", 4)
			return sp[0], sp[1], sp[2], n.Get()
		})
		ct := func(l *loaded) string {
			if l == nil {
				return "None"
			}
			return common.Some(common.Pair(l.t.coq(), common.ByteList([]byte(l.get))))
		}
		run.Add(common.App("CLoad", common.ByteList([]byte(p)), ct(sv), ct(sd)),
			map[string]interface{}{"kind": "load", "path": fmt.Sprintf("%q", p), "separators": strings.Count(p, "/"), "server_load_panicked": sv == nil, "sdk_load_panicked": sd == nil}, true)
		run.Hist(fmt.Sprintf("load_separators_%d", strings.Count(p, "/")))
	}

	// two different triples with the same canonical path (a separator inside a part)
	for i := 0; i < nAlias; i++ {
		x, y, z, w := genPart(rng, 1+rng.Intn(5), false), genPart(rng, 1+rng.Intn(5), false), genPart(rng, 1+rng.Intn(5), false), genPart(rng, 1+rng.Intn(5), false)
		t1 := triple{x + "/" + y, z, w}
		t2 := triple{x, y + "/" + z, w}
		if rng.Chance(30) {
			t2 = triple{x, y, z + "/" + w}
		}
		depth, maxf, island := rng.Intn(4), maxfs[rng.Intn(len(maxfs))], 1+uint64(rng.Intn(10))
		p1, _ := fullPath(t1, island, depth, maxf)
		p2, _ := fullPath(t2, island, depth, maxf)
		run.Add(common.App("CAlias", t1.coq(), t2.coq(), common.N(island), common.Nat(depth), common.N(uint64(maxf)), optStr(p1), optStr(p2)),
			map[string]interface{}{"kind": "separator-alias", "name1": t1.human(), "name2": t2.human(), "path1": p1, "path2": p2}, true)
		run.Hist("alias")
	}

	// SDK routing table
	for i := 0; i < nRoute; i++ {
		n := uint64(1 + rng.Intn(60))
		k := 1 + rng.Intn(4)
		var servers []*client.Server
		var tt []string
		var th []string
		for s := 0; s < k; s++ {
			lo := uint64(1 + rng.Intn(int(n)))
			hi := lo + uint64(rng.Intn(int(n)))
			if rng.Chance(10) {
				lo, hi = hi+1, lo // empty range
			}
			servers = append(servers, &client.Server{Host: fmt.Sprintf("%d", s), FromIsland: lo, ToIsland: hi})
			tt = append(tt, common.Pair(common.N(lo), common.N(hi)))
			th = append(th, fmt.Sprintf("server %d: islands %d..%d", s, lo, hi))
		}
		t := genTriple(rng, rng.Intn(20), false)
		c := client.NewWithRoutingTable(servers, n)
		sc := c.GetServiceClientAndHost(t.sdk())
		var host *uint64
		if sc != nil {
			var h uint64
			fmt.Sscanf(sc.Host, "%d", &h)
			host = &h
		}
		run.Add(common.App("CRoute", t.coq(), common.N(n), common.List(tt), optN(host)),
			map[string]interface{}{"kind": "route", "name": t.human(), "islands": n, "servers": th, "routed_to": host}, true)
		run.Hist("route")
	}
	// name-object programs: builders, shared prefixes, queries on prefixes / siblings / the same
	// object again, Load, in any interleaving.  Server and SDK objects are built in lockstep.
	for c := 0; c < nProg; c++ {
		type objPair struct {
			srv srvname.Name
			sdk sdkname.Name
		}
		var objs []objPair
		var terms []string
		var hum []string
		pathArgs := map[int][3]int{} // a path is always asked with the same arguments of one object
		firstN := map[int]uint64{}
		bl := func(s string) string { return common.ByteList([]byte(s)) }
		part := func() string { return genPart(rng, 1+rng.Intn(5), rng.Chance(15)) }
		newSanct := func() {
			s := part()
			objs = append(objs, objPair{srvname.New().Sanctuary(s), sdkname.New().Sanctuary(s)})
			terms = append(terms, common.App("NSanct", bl(s)))
			hum = append(hum, fmt.Sprintf("#%d = New().Sanctuary(%q)", len(objs)-1, s))
		}
		extend := func(i int, realm bool) {
			x := part()
			if realm {
				objs = append(objs, objPair{objs[i].srv.Realm(x), objs[i].sdk.Realm(x)})
				terms = append(terms, common.App("NRealm", common.Nat(i), bl(x)))
				hum = append(hum, fmt.Sprintf("#%d = #%d.Realm(%q)", len(objs)-1, i, x))
			} else {
				objs = append(objs, objPair{objs[i].srv.Swamp(x), objs[i].sdk.Swamp(x)})
				terms = append(terms, common.App("NSwamp", common.Nat(i), bl(x)))
				hum = append(hum, fmt.Sprintf("#%d = #%d.Swamp(%q)", len(objs)-1, i, x))
			}
		}
		island := func(i int) {
			n, seen := firstN[i]
			if !seen || rng.Chance(12) { // 12%: a changed N on a used object (the known stale-cache class)
				n = ns[rng.Intn(len(ns))]
				if rng.Chance(15) {
					n = bigNs[rng.Intn(len(bigNs))]
				}
			}
			if !seen {
				firstN[i] = n
			}
			sdk := objs[i].sdk.GetIslandID(n)
			var srv *uint64
			if n < 65536 {
				v := uint64(objs[i].srv.GetFolderNumber(uint16(n)))
				srv = &v
			}
			terms = append(terms, common.App("NIsland", common.Nat(i), common.N(n), common.N(sdk), optN(srv)))
			h := fmt.Sprintf("#%d.GetIslandID(%d) = %d", i, n, sdk)
			if srv != nil {
				h += fmt.Sprintf(", GetFolderNumber = %d", *srv)
			}
			hum = append(hum, h)
		}
		path := func(i int) {
			a, ok := pathArgs[i]
			if !ok {
				a = [3]int{1 + rng.Intn(50), rng.Intn(5), maxfs[rng.Intn(len(maxfs))]}
				pathArgs[i] = a
			}
			var res *string
			func() {
				defer func() {
					if recover() != nil {
						res = nil
					}
				}()
				v := objs[i].srv.GetFullHashPath("/r", uint64(a[0]), a[1], a[2])
				res = &v
			}()
			terms = append(terms, common.App("NPath", common.Nat(i), common.N(uint64(a[0])), common.Nat(a[1]), common.N(uint64(a[2])), optStr(res)))
			if res != nil {
				hum = append(hum, fmt.Sprintf("#%d.GetFullHashPath(/r,%d,%d,%d) = %s", i, a[0], a[1], a[2], *res))
			} else {
				hum = append(hum, fmt.Sprintf("#%d.GetFullHashPath(/r,%d,%d,%d) panicked", i, a[0], a[1], a[2]))
			}
		}
		get := func(i int) {
			terms = append(terms, common.App("NGet", common.Nat(i), bl(objs[i].sdk.Get()), bl(objs[i].srv.Get())))
			hum = append(hum, fmt.Sprintf("#%d.Get() = %q", i, objs[i].srv.Get()))
		}
		query := func(i int) {
			switch rng.Intn(5) {
			case 0, 1, 2:
				island(i)
			case 3:
				path(i)
			default:
				get(i)
			}
		}
		newSanct()
		steps := 8 + rng.Intn(14)
		if c == 0 { // sanctuary and realm prefixes queried, then extended into two swamps
			steps = 0
			island(0)
			extend(0, true)
			island(1)
			path(1)
			extend(1, false)
			island(2)
			path(2)
			extend(1, false)
			island(3)
			island(2)
		}
		for k := 0; k < steps; k++ {
			switch r := rng.Intn(100); {
			case r < 8:
				newSanct()
			case r < 14:
				var parts []string
				for q := 0; q < 3+rng.Intn(2); q++ {
					parts = append(parts, genPart(rng, 1+rng.Intn(4), false))
				}
				p := strings.Join(parts, "/")
				objs = append(objs, objPair{srvname.Load(p), sdkname.Load(p)})
				terms = append(terms, common.App("NLoad", bl(p)))
				hum = append(hum, fmt.Sprintf("#%d = Load(%q)", len(objs)-1, p))
			case r < 45:
				// extend an existing object (usually in builder order; sometimes a Realm/Swamp
				// call on an object that already has one)
				i := rng.Intn(len(objs))
				extend(i, rng.Chance(40))
			default:
				i := rng.Intn(len(objs))
				if rng.Chance(50) {
					i = len(objs) - 1 // the newest object, right after it was derived
				}
				query(i)
			}
		}
		// finally every object answers once more
		for i := range objs {
			island(i)
			if rng.Chance(50) {
				path(i)
			}
		}
		run.Add(common.App("CProg", common.List(terms)), map[string]interface{}{"kind": "name-object program", "steps": hum}, true)
		run.Hist("prog")
		run.HistN("prog_steps", len(terms))
	}
	// one client over time: Connect-style (re)fills of the routing table and lookups in between -
	// the same name again (fresh and reused name objects), different names with one canonical
	// Path string (a '/' inside a part), prefix objects, both lookup functions
	for c := 0; c < nRouteSeq; c++ {
		n := uint64(2 + rng.Intn(80))
		nhosts := 0
		var terms []string
		var hum []string
		genServers := func() []*client.Server {
			k := 1 + rng.Intn(3)
			var servers []*client.Server
			var tt []string
			var th []string
			split := uint64(1 + rng.Intn(int(n)))
			for s := 0; s < k; s++ {
				lo := uint64(1 + rng.Intn(int(n)))
				hi := lo + uint64(rng.Intn(int(n)))
				if k == 2 && rng.Chance(50) { // two servers splitting 1..n
					if s == 0 {
						lo, hi = 1, split
					} else {
						lo, hi = split+1, n
					}
				}
				servers = append(servers, &client.Server{Host: fmt.Sprintf("%d", nhosts), FromIsland: lo, ToIsland: hi})
				tt = append(tt, common.Pair(common.N(uint64(nhosts)), common.Pair(common.N(lo), common.N(hi))))
				th = append(th, fmt.Sprintf("host %d: islands %d..%d", nhosts, lo, hi))
				nhosts++
			}
			terms = append(terms, common.App("RFill", common.List(tt)))
			hum = append(hum, "fill routing table: "+strings.Join(th, "; "))
			return servers
		}
		cl := client.NewWithRoutingTableAndClients(genServers(), n)
		// a small population of names: alias groups share one Path string
		var pop []triple
		for len(pop) < 6 {
			if rng.Chance(50) {
				x, y, z, w := genPart(rng, 1+rng.Intn(4), false), genPart(rng, 1+rng.Intn(4), false), genPart(rng, 1+rng.Intn(4), false), genPart(rng, 1+rng.Intn(4), false)
				pop = append(pop, triple{x + "/" + y, z, w}, triple{x, y + "/" + z, w}, triple{x, y, z + "/" + w})
			} else {
				pop = append(pop, genTriple(rng, 3+rng.Intn(12), rng.Chance(20)))
			}
		}
		if rng.Chance(30) {
			pop = append(pop, triple{pop[0].S, pop[0].R, ""}, triple{pop[0].S, "", ""}) // prefix-shaped names
		}
		held := map[int]sdkname.Name{}
		lookup := func(i int) {
			t := pop[i]
			var nm sdkname.Name
			switch rng.Intn(3) {
			case 0:
				if held[i] == nil {
					held[i] = t.sdk()
				}
				nm = held[i] // a name object the caller keeps
			case 1:
				nm = sdkname.New().Sanctuary(t.S).Realm(t.R).Swamp(t.W)
			default:
				base := sdkname.New().Sanctuary(t.S).Realm(t.R) // shared prefix, itself routed first
				if rng.Chance(50) {
					cl.GetServiceClient(base)
				}
				nm = base.Swamp(t.W)
			}
			withHost := rng.Chance(50)
			var host *uint64
			if withHost {
				if sc := cl.GetServiceClientAndHost(nm); sc != nil {
					var h uint64
					fmt.Sscanf(sc.Host, "%d", &h)
					host = &h
				}
			} else {
				if sc := cl.GetServiceClient(nm); sc != nil {
					if hs, ok := client.HostOfServiceClient(sc); ok {
						var h uint64
						fmt.Sscanf(hs, "%d", &h)
						host = &h
					}
				}
			}
			terms = append(terms, common.App("RLookup", common.Nat(i), common.Bool(withHost), optN(host)))
			fn := "GetServiceClient"
			if withHost {
				fn = "GetServiceClientAndHost"
			}
			hd := "nil"
			if host != nil {
				hd = fmt.Sprintf("host %d", *host)
			}
			hum = append(hum, fmt.Sprintf("%s(%q,%q,%q) [Get()=%q, island %d] -> %s", fn, t.S, t.R, t.W, nm.Get(), t.sdk().GetIslandID(n), hd))
		}
		steps := 10 + rng.Intn(16)
		for k := 0; k < steps; k++ {
			if rng.Chance(12) {
				client.RefillRoutingTable(cl, genServers())
				// right after a refill: names already seen are asked again
				for i := range pop {
					if rng.Chance(50) {
						lookup(i)
					}
				}
				continue
			}
			i := rng.Intn(len(pop))
			lookup(i)
			if rng.Chance(40) && i+1 < len(pop) {
				lookup(i + 1) // its neighbour: in an alias group the same Path string
			}
		}
		var popT []string
		for _, t := range pop {
			popT = append(popT, t.coq())
		}
		run.Add(common.App("CRouteSeq", common.N(n), common.List(popT), common.List(terms)),
			map[string]interface{}{"kind": "client routing over time", "islands": n, "steps": hum}, true)
		run.Hist("route_seq")
		run.HistN("route_seq_steps", len(terms))
	}
	run.Shard = (run.Meta.Evaluations + 7) / 8
	run.Meta.Traces = run.Meta.Evaluations
	run.Finish("check_all")
}
