// c18: correspondence check for hydra.go:SummonSwamp (+ the close/destroy completions that
// remove the swamp-map entry) against Conc/Summon.v.
//
// Forced schedules (model -> impl): harness goroutines running SummonSwamp / Close / Destroy
// on one swamp name of a real in-process Hydra are parked at the verifhook sites that separate
// the steps of the model and released one step at a time in the order of a schedule (the two
// witnesses of Conc/Summon.v, a systematic family around the critical windows, seeded random
// schedules). The recorded hook events are emitted as a Coq trace; Conc/Summon.v must accept
// it (every event an enabled step with the same visible values, the same map entry after it)
// and the property oracle is evaluated on the events alone (at most one live instance; a
// returned instance is the map entry).
// Stress (impl -> oracle): goroutines summon a few names freely while others destroy/close;
// only the oracle is evaluated on the event order.
package main

import (
	"context"
	"fmt"
	"os"
	"sort"
	"strings"
	"sync"
	"sync/atomic"
	"time"

	"github.com/hydraide/hydraide/app/core/hydra"
	"github.com/hydraide/hydraide/app/core/hydra/swamp"
	"github.com/hydraide/hydraide/app/verifhook"
	"verif/harness/common"
	lib "verif/harness/lib/c18"
	"verif/harness/rig"
)

type progKind int

const (
	pSummon progKind = iota
	pClose
	pDestroy
	pCancel
)

type prog struct {
	K progKind `json:"k"`
	A int      `json:"a"` // instance index (close/destroy) or thread (cancel)
}

func (p prog) coq() string { return fmt.Sprintf("(P %d %d)", int(p.K), p.A) }
func (p prog) String() string {
	return [...]string{"summon", "close", "destroy", "cancel"}[p.K] + fmt.Sprintf("(%d)", p.A)
}

var parkSites = []string{"summon.loaded", "summon.body", "summon.found", "summon.create", "summon.store",
	"summon.exit", "swamp.close.begin", "swamp.callback", "swamp.destroy.marked", "swamp.destroy.begin"}

type obsEv struct {
	T       int
	K, A, C int    // wire format: label code, argument, count+1000
	L       string // Coq label term (human readable / classification)
	Sampled bool
	Map     int // model instance index in the map, -1 none
	human   string
}

var labelCode = map[string]int{"LLoaded": 0, "LRetry": 1, "LWait": 2, "LEntered": 3, "LCtxLeave": 4, "LFound": 5, "LNil": 6,
	"LCtxDone": 7, "LWaitClose": 8, "LReturn": 9, "LClosed": 10, "LTimeout": 11, "LNew": 12, "LStored": 13, "LLeave": 14,
	"LCloseBegin": 15, "LCloseSkip": 16, "LCancelled": 17, "LCallback": 18, "LDMarked": 19, "LDBegin": 20, "LDSkip": 21,
	"LCancel": 22, "LCbStart": 23}

// mk builds an event from a label name and its arguments (a = slot/instance/thread number, c = count).
func mk(t int, name string, a int, c int64, human string) obsEv {
	l := name
	switch name {
	case "LNil", "LCtxDone":
	case "LLeave":
		l = common.App(name, common.Nat(a), common.Z(c))
	default:
		l = common.App(name, common.Nat(a))
	}
	return obsEv{T: t, K: labelCode[name], A: a, C: int(c) + 1000, L: l, Map: -1, human: human}
}

func (o obsEv) coq() string {
	m := 0
	if o.Sampled {
		m = o.Map + 2
	}
	return fmt.Sprintf("(E %d %d %d %d %d)", o.T, o.K, o.A, o.C, m)
}

type result struct {
	trace, tail []obsEv
	maxLive     int
	events      int
	waits       int // number of summon.wait events (contention)
	hung        bool
	unknownEv   []string
	raw         []string
}

// numbering of slots/instances by first appearance
type numbering struct {
	m    map[int64]int
	next int
}

func (n *numbering) get(id int64) int {
	if v, ok := n.m[id]; ok {
		return v
	}
	n.m[id] = n.next
	n.next++
	return n.next - 1
}

type env struct {
	srv *rig.Server
	h   hydra.Hydra
}

var caseSeq int64

func (e *env) runForced(progs []prog, sched []int, debug bool) result {
	id := atomic.AddInt64(&caseSeq, 1)
	nm := rig.Name(fmt.Sprintf("c18f/r/n%d", id))
	ctl := lib.New()
	for _, s := range parkSites {
		ctl.Park[s] = true
	}
	ctl.Sleep["summon.wait"] = "slot"
	ctl.Wake["summon.broadcast"] = "slot"
	ctl.Wake["summon.ctxleave"] = "slot"
	ctl.Wake["summon.leave"] = "slot"
	ctl.Sleep["summon.waitclose"] = "inst"
	ctl.Wake["swamp.cancelling"] = "inst"
	ctl.Install()

	var mu sync.Mutex
	objByID := map[int64]swamp.Swamp{}
	remember := func(o swamp.Swamp) {
		if o == nil {
			return
		}
		mu.Lock()
		objByID[verifhook.ID(o)] = o
		mu.Unlock()
	}
	slotN := &numbering{m: map[int64]int{}}
	instN := &numbering{m: map[int64]int{}}
	var instIDs []int64 // model index -> real id, from swamp.new events
	ctxs := make([]context.Context, len(progs))
	cancels := make([]context.CancelFunc, len(progs))
	for i, p := range progs {
		if p.K == pSummon {
			ctxs[i], cancels[i] = context.WithCancel(context.Background())
		}
	}
	spawned := make([]bool, len(progs))
	var res result
	consumed := 0
	sampleMap := func() int {
		o := hydra.VerifMapEntry(e.h, nm.Get())
		if o == nil {
			return -1
		}
		remember(o)
		return instN.get(verifhook.ID(o))
	}
	// translate new log events into observations; sample the map for the last one
	absorb := func(forced bool) {
		log := ctl.Log()
		var batch []obsEv
		for _, ev := range log[consumed:] {
			a := func(k int) int64 {
				if k < len(ev.Args) {
					return ev.Args[k]
				}
				return 0
			}
			if debug {
				res.raw = append(res.raw, fmt.Sprintf("t%d %s %v", ev.Tid, ev.Site, ev.Args))
			}
			hum := fmt.Sprintf("t%d %s %v", ev.Tid, ev.Site, ev.Args)
			sl := func() int { return slotN.get(a(0)) }
			in := func() int { return instN.get(a(0)) }
			var o obsEv
			switch ev.Site {
			case "summon.loaded":
				o = mk(ev.Tid, "LLoaded", sl(), 0, hum)
			case "summon.retry":
				o = mk(ev.Tid, "LRetry", sl(), 0, hum)
			case "summon.wait":
				o = mk(ev.Tid, "LWait", sl(), 0, hum)
				res.waits++
			case "summon.entered":
				o = mk(ev.Tid, "LEntered", sl(), 0, hum)
			case "summon.ctxleave":
				// the leave bookkeeping of the same step was already logged as summon.leave: drop it
				if n := len(batch); n > 0 && batch[n-1].T == ev.Tid && strings.HasPrefix(batch[n-1].L, "(LLeave ") {
					batch = batch[:n-1]
				}
				o = mk(ev.Tid, "LCtxLeave", sl(), 0, hum)
			case "summon.found":
				o = mk(ev.Tid, "LFound", in(), 0, hum)
			case "summon.create":
				o = mk(ev.Tid, "LNil", 0, 0, hum)
			case "summon.ctxdone":
				o = mk(ev.Tid, "LCtxDone", 0, 0, hum)
			case "summon.waitclose":
				o = mk(ev.Tid, "LWaitClose", in(), 0, hum)
			case "summon.return":
				o = mk(ev.Tid, "LReturn", in(), 0, hum)
			case "summon.closed":
				o = mk(ev.Tid, "LClosed", in(), 0, hum)
			case "swamp.new":
				instIDs = append(instIDs, a(0))
				o = mk(ev.Tid, "LNew", in(), 0, hum)
			case "summon.stored":
				o = mk(ev.Tid, "LStored", in(), 0, hum)
			case "summon.leave":
				o = mk(ev.Tid, "LLeave", sl(), a(1), hum)
			case "swamp.close.begin":
				o = mk(ev.Tid, "LCloseBegin", in(), 0, hum)
			case "close.skip":
				o = mk(ev.Tid, "LCloseSkip", int(a(0)), 0, hum)
			case "swamp.cancelling":
				o = mk(ev.Tid, "LCancelled", in(), 0, hum)
			case "swamp.callback":
				o = mk(ev.Tid, "LCbStart", in(), 0, hum)
			case "swamp.callback.done":
				o = mk(ev.Tid, "LCallback", in(), 0, hum)
			case "swamp.destroy.marked":
				o = mk(ev.Tid, "LDMarked", in(), 0, hum)
			case "swamp.destroy.begin":
				o = mk(ev.Tid, "LDBegin", in(), 0, hum)
			case "destroy.skip":
				o = mk(ev.Tid, "LDSkip", int(a(0)), 0, hum)
			case "ctx.cancel":
				o = mk(ev.Tid, "LCancel", int(a(0)), 0, hum)
			case "summon.woke", "summon.load", "summon.body", "summon.store", "summon.exit", "summon.broadcast",
				"swamp.mapdelete", "swamp.destroy.drained", "summon.slotdelete",
				"swamp.idle.read", "swamp.idle.close", "swamp.autodestroy", "summon.predec", "summon.predelete",
				"swamp.close.gate", "swamp.destroy.gate",
				"swamp.destroy.cancelled", "swamp.flush.begin", "swamp.flush.wrote", "chronicler.write.begin", "gateway.set.summoned":
				continue
			default:
				// instrumentation points of other properties (claims, events, flush windows, ...) are
				// not part of the summon/close/destroy protocol; only an unrecognised summon.* point
				// means this harness is out of date with hydra.go
				if !strings.HasPrefix(ev.Site, "summon.") {
					continue
				}
				res.unknownEv = append(res.unknownEv, ev.Site)
				continue
			}
			batch = append(batch, o)
		}
		consumed = len(log)
		last := len(batch) - 1
		for last >= 0 && strings.HasPrefix(batch[last].L, "(LCbStart ") {
			last--
		}
		if last >= 0 && forced {
			batch[last].Sampled = true
			batch[last].Map = sampleMap()
		} else {
			sampleMap()
		}
		if forced {
			res.trace = append(res.trace, batch...)
		} else {
			res.tail = append(res.tail, batch...)
		}
	}
	start := func(t int) bool {
		p := progs[t]
		switch p.K {
		case pSummon:
			ctl.Spawn(t, func() {
				o, _ := e.h.SummonSwamp(ctxs[t], 1, nm)
				remember(o)
			})
		case pClose, pDestroy:
			if p.A >= len(instIDs) {
				return false
			}
			mu.Lock()
			o := objByID[instIDs[p.A]]
			mu.Unlock()
			if o == nil {
				return false
			}
			if p.K == pClose {
				ctl.Spawn(t, func() {
					n := ctl.LogLen()
					o.Close()
					began := false
					for _, ev := range ctl.Log()[n:] {
						if ev.Tid == t && ev.Site == "swamp.close.begin" {
							began = true
						}
					}
					if !began {
						ctl.Note(t, "close.skip", int64(p.A))
					}
				})
			} else {
				ctl.Spawn(t, func() {
					n := ctl.LogLen()
					o.Destroy()
					began := false
					for _, ev := range ctl.Log()[n:] {
						if ev.Tid == t && ev.Site == "swamp.destroy.begin" {
							began = true
						}
					}
					if !began {
						ctl.Note(t, "destroy.skip", int64(p.A))
					}
				})
			}
		case pCancel:
			if p.A < len(cancels) && cancels[p.A] != nil {
				ctl.Spawn(t, func() {
					cancels[p.A]()
					ctl.Note(t, "ctx.cancel", int64(p.A))
				})
			} else {
				return false
			}
		}
		return true
	}
	const settle = 200 * time.Millisecond
	for _, t := range sched {
		if t >= len(progs) {
			continue
		}
		if !spawned[t] {
			if start(t) {
				spawned[t] = true
				if !ctl.Settle(settle) {
					res.hung = true
				}
			}
		} else {
			if _, ok := ctl.Step(t, settle); !ok {
				res.hung = true
			}
		}
		absorb(true)
		if res.hung {
			break
		}
	}
	// drain: everything runs freely to completion
	ctl.FreeRun()
	deadline := time.Now().Add(3 * time.Second)
	allDone := func() bool {
		for t := range progs {
			if spawned[t] {
				if st, _, _ := ctl.State(t); st != lib.Finished {
					return false
				}
			}
		}
		return true
	}
	for !allDone() && time.Now().Before(deadline) {
		time.Sleep(200 * time.Microsecond)
	}
	if !allDone() {
		// summoners waiting for an instance that nobody closes: cancel them
		for _, c := range cancels {
			if c != nil {
				c()
			}
		}
		d2 := time.Now().Add(3 * time.Second)
		for !allDone() && time.Now().Before(d2) {
			time.Sleep(200 * time.Microsecond)
		}
		if !allDone() {
			res.hung = true
		}
	}
	absorb(false)
	ctl.Uninstall()
	for _, c := range cancels {
		if c != nil {
			c()
		}
	}
	// live count over the whole event order (Go side, for the histogram only)
	live := map[string]bool{}
	for _, o := range append(append([]obsEv{}, res.trace...), res.tail...) {
		if strings.HasPrefix(o.L, "(LNew ") {
			live[o.L[6:]] = true
		}
		if strings.HasPrefix(o.L, "(LCancelled ") {
			delete(live, o.L[12:])
		}
		if len(live) > res.maxLive {
			res.maxLive = len(live)
		}
	}
	res.events = len(res.trace) + len(res.tail)
	// clean up: destroy whatever is left under this name
	mu.Lock()
	objs := make([]swamp.Swamp, 0, len(objByID))
	for _, o := range objByID {
		objs = append(objs, o)
	}
	mu.Unlock()
	for _, o := range objs {
		o.Destroy()
	}
	if o := hydra.VerifMapEntry(e.h, nm.Get()); o != nil {
		o.Destroy()
	}
	return res
}

func coqCase(progs []prog, r result) string {
	ps := make([]string, len(progs))
	for i, p := range progs {
		ps[i] = p.coq()
	}
	tr := make([]string, len(r.trace))
	for i, o := range r.trace {
		tr[i] = o.coq()
	}
	tl := make([]string, len(r.tail))
	for i, o := range r.tail {
		tl[i] = o.coq()
	}
	return fmt.Sprintf("(C %s %s %s)", common.List(ps), common.List(tr), common.List(tl))
}

func humanTrace(r result) []string {
	var out []string
	for _, o := range r.trace {
		m := ""
		if o.Sampled {
			m = fmt.Sprintf(" map=%d", o.Map)
		}
		out = append(out, o.human+m)
	}
	if len(r.tail) > 0 {
		out = append(out, "-- free run --")
		for _, o := range r.tail {
			out = append(out, o.human)
		}
	}
	return out
}

// ---- stress ------------------------------------------------------------------------------------

// stress: free-running goroutines on a few names; the event order of swamp.new / swamp.cancelling
// per name gives the live sets. Returns per-name event lists as oracle-only cases.
func (e *env) stress(rng *common.Rng, round int, nsummon, nnames int, dur time.Duration) (cases []result, names []string) {
	verifhook.ResetIDs()
	type nameState struct {
		nm   string
		objs sync.Map
	}
	sts := make([]*nameState, nnames)
	nameOf := map[string]int{}
	for i := range sts {
		sts[i] = &nameState{nm: fmt.Sprintf("c18s/r%d/n%d", round, i)}
		nameOf[sts[i].nm] = i
	}
	// log: events with instance ids; the instance -> name association comes from summon returns
	var idName sync.Map // inst id -> name index
	verifhook.StartLog()
	stop := make(chan struct{})
	var wg sync.WaitGroup
	seeds := make([]*common.Rng, nsummon+nnames)
	for i := range seeds {
		seeds[i] = rng.Fork(fmt.Sprintf("s%d", i))
	}
	for g := 0; g < nsummon; g++ {
		wg.Add(1)
		go func(g int) {
			defer wg.Done()
			r := seeds[g]
			for {
				select {
				case <-stop:
					return
				default:
				}
				k := r.Intn(nnames)
				ctx, cancel := context.WithCancel(context.Background())
				if r.Chance(5) {
					cancel()
				}
				o, err := e.h.SummonSwamp(ctx, 1, rig.Name(sts[k].nm))
				cancel()
				if err == nil && o != nil {
					idName.Store(verifhook.ID(o), k)
					sts[k].objs.Store(verifhook.ID(o), o)
					switch {
					case r.Chance(30):
						o.Destroy()
					case r.Chance(10):
						o.Close()
					}
				}
			}
		}(g)
	}
	time.Sleep(dur)
	close(stop)
	wg.Wait()
	evs := verifhook.StopLog()
	// instance -> name: every swamp.new happens on a goroutine inside SummonSwamp of that name; use the
	// returned objects, and for never-returned instances the goroutine's enclosing summon (same gid:
	// the next summon.stored/summon.store with the same id)
	per := make([][]obsEv, nnames)
	nums := make([]*numbering, nnames)
	for i := range nums {
		nums[i] = &numbering{m: map[int64]int{}}
	}
	for _, ev := range evs {
		if len(ev.Args) == 0 {
			continue
		}
		lbl, ok := map[string]string{"swamp.new": "LNew", "swamp.cancelling": "LCancelled", "swamp.close.gate": "LCloseBegin",
			"swamp.destroy.gate": "LDBegin", "swamp.callback": "LCbStart", "swamp.callback.done": "LCallback"}[ev.Site]
		if !ok {
			continue
		}
		v, ok := idName.Load(ev.Args[0])
		if !ok {
			// constructed but never returned by a successful summon of a known thread: find its name
			// through the hydra map is impossible afterwards; attribute via the store event below
			continue
		}
		k := v.(int)
		per[k] = append(per[k], mk(0, lbl, nums[k].get(ev.Args[0]), 0, fmt.Sprintf("g%d %s %v", ev.Gid, ev.Site, ev.Args)))
	}
	for k := range per {
		// cut into chunks at points where no instance is live (keeps the Coq terms small)
		var chunk []obsEv
		live := map[string]bool{}
		maxLive := 0
		flush := func() {
			if len(chunk) == 0 {
				return
			}
			cases = append(cases, result{tail: chunk, maxLive: maxLive, events: len(chunk)})
			names = append(names, sts[k].nm)
			chunk, maxLive = nil, 0
		}
		for _, o := range per[k] {
			chunk = append(chunk, o)
			if strings.HasPrefix(o.L, "(LNew ") {
				live[o.L[6:]] = true
			} else if strings.HasPrefix(o.L, "(LCancelled ") {
				delete(live, o.L[12:])
			}
			if len(live) > maxLive {
				maxLive = len(live)
			}
			if len(live) == 0 && len(chunk) >= 100000 {
				flush()
			}
		}
		flush()
	}
	// cleanup
	for _, s := range sts {
		if o := hydra.VerifMapEntry(e.h, rig.Name(s.nm).Get()); o != nil {
			o.Destroy()
		}
	}
	return
}

// ---- schedules ---------------------------------------------------------------------------------

func rep(t, n int) []int {
	out := make([]int, n)
	for i := range out {
		out[i] = t
	}
	return out
}

func cat(xs ...[]int) []int {
	var out []int
	for _, x := range xs {
		out = append(out, x...)
	}
	return out
}

func roundRobin(n, rounds int) []int {
	var out []int
	for r := 0; r < rounds; r++ {
		for t := 0; t < n; t++ {
			out = append(out, t)
		}
	}
	return out
}

func main() {
	a := common.ParseArgs()
	run := common.NewRun(a, "C18", "HV.Conc.Summon")
	run.Shard = 120
	run.Meta.Rule = "a forced case = programs (summon / Close(i) / Destroy(i) / cancel) of 3-6 harness goroutines on one swamp name of a real Hydra, released step by step at the SummonSwamp/Close/Destroy hook points in the order of a schedule (witnesses of Conc/Summon.v, systematic two-preemption family, seeded random); the hook events are replayed by Conc/Summon.v and the oracle (max live instances, returned instance = map entry) is evaluated on them; a stress case = the swamp.new/cancel event order of one name under free-running goroutines (oracle only); non-trivial = some summoner had to wait on the slot, or two instances were constructed for the name, or a close/destroy ran between two summons"
	rng := common.NewRng(a.Seed, "C18")
	debug := os.Getenv("C18_DEBUG") != ""
	rig.Quiet()
	root, _ := os.MkdirTemp("", "c18")
	defer os.RemoveAll(root)
	srv := rig.Start(root, true)
	srv.Register("c18f/*/*", false, 3600, 0, 65536)
	srv.Register("c18s/*/*", false, 3600, 0, 65536)
	srv.Register("c18i/*/*", false, 1, 0, 65536) // idle close after 1 s, immediate write
	srv.Register("c18j/*/*", false, 1, 1, 65536) // idle close after 1 s, 1 s write interval
	e := &env{srv: srv, h: srv.Zeus.GetHydra()}

	type job struct {
		progs []prog
		sched []int
		tag   string
	}
	var jobs []job
	S := prog{pSummon, 0}
	// witnesses (the same lists as witness_old / witness_late in Conc/Summon.v; on the fixed code the
	// exit is one step, the extra entries of a finished thread are skipped)
	// in the harness a woken waiter re-checks by itself (no step of the schedule is needed for it):
	// A: load, enter, nil, create, store | B: load, wait | A: exit (B wakes, takes the slot)
	// | Destroy(0) x4 | B: nil | C: load, enter, nil | B: create | C: create
	jobs = append(jobs, job{[]prog{S, S, S, {pDestroy, 0}},
		[]int{0, 0, 0, 0, 0, 1, 1, 0, 3, 3, 3, 3, 1, 2, 2, 2, 1, 2}, "witness_old"})
	jobs = append(jobs, job{[]prog{S, {pClose, 0}, S, {pDestroy, 0}, S},
		[]int{0, 0, 0, 0, 0, 0, 1, 1, 1, 2, 2, 2, 2, 2, 2, 3, 3, 3, 3, 4, 4, 4, 4}, "witness_late"})
	// systematic: A runs p steps, B runs q steps, A finishes, destroy(0) completes, C, then all
	maxP, maxQ := 7, 5
	nrand := 500
	if a.Tier == "thorough" {
		nrand = 8000
	}
	for p := 0; p <= maxP; p++ {
		for q := 0; q <= maxQ; q++ {
			for v := 0; v < 4; v++ {
				progs := []prog{S, S, S, {pDestroy, 0}}
				if v == 1 {
					progs[3] = prog{pClose, 0}
				}
				if v == 2 {
					progs = append(progs, prog{pCancel, 1})
				}
				if v == 3 {
					progs = append(progs, prog{pCancel, 0})
				}
				var sched []int
				switch v {
				case 0, 1:
					sched = cat(rep(0, p), rep(1, q), rep(0, 8), rep(3, 4), rep(1, 2), rep(2, 3), roundRobin(3, 8))
				case 2:
					sched = cat(rep(0, p), rep(1, q), []int{4}, rep(0, 8), rep(3, 4), rep(1, 2), rep(2, 3), roundRobin(3, 8))
				case 3:
					sched = cat(rep(0, p), []int{4}, rep(1, q), rep(0, 8), rep(2, 3), rep(1, 3), rep(3, 4), roundRobin(3, 8))
				}
				jobs = append(jobs, job{progs, sched, "systematic"})
			}
		}
	}
	// random
	for i := 0; i < nrand; i++ {
		ns := 3 + rng.Intn(2)
		progs := make([]prog, 0, 8)
		for k := 0; k < ns; k++ {
			progs = append(progs, S)
		}
		nd := 1 + rng.Intn(2)
		for k := 0; k < nd; k++ {
			kind := pDestroy
			if rng.Chance(35) {
				kind = pClose
			}
			progs = append(progs, prog{kind, rng.Intn(2)})
		}
		if rng.Chance(30) {
			progs = append(progs, prog{pCancel, rng.Intn(ns)})
		}
		n := 20 + rng.Intn(40)
		sched := make([]int, 0, n+40)
		curT := rng.Intn(len(progs))
		for k := 0; k < n; k++ {
			if rng.Chance(35) {
				curT = rng.Intn(len(progs))
			}
			sched = append(sched, curT)
		}
		sched = append(sched, roundRobin(len(progs), 8)...)
		jobs = append(jobs, job{progs, sched, "random"})
	}
	late := 0
	for _, j := range jobs {
		r := e.runForced(j.progs, j.sched, debug)
		ps := make([]string, len(j.progs))
		for i, p := range j.progs {
			ps[i] = p.String()
		}
		nt := r.waits > 0 || r.maxLive >= 2
		ninst := 0
		closes := 0
		for _, o := range r.trace {
			if strings.HasPrefix(o.L, "(LNew ") {
				ninst++
			}
			if strings.HasPrefix(o.L, "(LCancelled ") {
				closes++
			}
		}
		if ninst >= 2 || (closes > 0 && ninst >= 1) {
			nt = true
		}
		d := map[string]interface{}{"kind": j.tag, "programs": ps, "schedule": j.sched, "observed": humanTrace(r), "max_live": r.maxLive}
		if debug {
			d["raw"] = r.raw
		}
		idx := run.Add(coqCase(j.progs, r), d, nt)
		run.Hist("forced_" + j.tag)
		run.Hist(fmt.Sprintf("forced_maxlive_%d", r.maxLive))
		run.Hist(fmt.Sprintf("forced_instances_%d", ninst))
		if r.waits > 0 {
			run.Hist("forced_with_slot_wait")
		}
		if r.hung {
			run.Violate(idx, "summon terminates", "forced_case_hung", "a thread did not settle / finish within the time limit")
		}
		if len(r.unknownEv) > 0 {
			sort.Strings(r.unknownEv)
			run.Violate(idx, "harness", "unknown_hook_site", strings.Join(r.unknownEv, ","))
		}
		if r.maxLive >= 2 {
			late++
		}
		if debug && (j.tag != "random" && j.tag != "systematic") {
			fmt.Fprintln(os.Stderr, j.tag, "maxLive", r.maxLive)
			for _, l := range r.raw {
				fmt.Fprintln(os.Stderr, "   ", l)
			}
		}
	}
	run.Meta.Extra["forced_cases_with_two_live"] = late
	// idle close vs. a request that holds a vigil on the instance it was given
	for _, ir := range e.idleScenarios() {
		d := map[string]interface{}{"kind": ir.kind, "observed": ir.script, "evicted": ir.evicted}
		idx := run.Add(coqCase(nil, result{}), d, !ir.inconcl)
		run.Hist(ir.kind)
		if ir.inconcl {
			run.Hist("idle_vigil_inconclusive")
		}
		if ir.evicted {
			run.Violate(idx, "served by the current instance", "instance_evicted_while_request_holds_vigil",
				"the idle listener closed / removed the instance from the map while a request that had summoned it held a vigil on it")
		}
	}
	// stress
	rounds, dur := 6, 1500*time.Millisecond
	if a.Tier == "thorough" {
		rounds, dur = 40, 3*time.Second
	}
	for r := 0; r < rounds; r++ {
		cs, names := e.stress(rng, r, 32, 4, dur)
		for k, c := range cs {
			d := map[string]interface{}{"kind": "stress", "name": names[k], "events": len(c.tail), "max_live": c.maxLive}
			if c.maxLive >= 2 || len(c.tail) <= 60 {
				d["observed"] = humanTrace(c)
			}
			run.Add(coqCase(nil, c), d, c.events >= 4)
			run.Hist("stress_names")
			run.HistN("stress_instances", c.events/2)
			run.Hist(fmt.Sprintf("stress_maxlive_%d", c.maxLive))
		}
	}
	srv.Stop()
	run.Meta.Traces = run.Meta.Evaluations
	run.Finish("check_all")
}
