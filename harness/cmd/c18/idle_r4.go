// Round-4 scenarios of the C18 harness: "every request is served by the current instance" under
// idle closes. A request that has summoned an instance and holds a vigil on it must keep being
// served by the instance in the map: the idle listener must not close / evict it meanwhile.
package main

import (
	"context"
	"fmt"
	"time"

	"github.com/hydraide/hydraide/app/core/hydra"
	"github.com/hydraide/hydraide/app/verifhook"
	lib "verif/harness/lib/c18"
	"verif/harness/rig"
)

type idleResult struct {
	kind     string
	script   []string
	evicted  bool
	inconcl  bool
}

// idleVigil: snapshot = true: the idle listener of the instance is parked right after its per-tick
// reads at a tick at which the swamp is idle; the request summons the swamp and begins its vigil in
// that gap; the listener continues. snapshot = false: the request holds its vigil for 3.4 s (idle
// threshold 1 s + 1 s) while the listener ticks freely.
func (e *env) idleVigil(ctl *lib.Ctl, name string, tid int, snapshot bool) idleResult {
	r := idleResult{kind: "idle_vigil"}
	if snapshot {
		r.kind = "idle_vigil_snapshot"
	}
	nm := rig.Name(name)
	ctx := context.Background()
	o0, err := e.h.SummonSwamp(ctx, 1, nm)
	if err != nil || o0 == nil {
		r.inconcl = true
		return r
	}
	id := verifhook.ID(o0)
	inMap := func() bool {
		cur := hydra.VerifMapEntry(e.h, nm.Get())
		return cur != nil && verifhook.ID(cur) == id
	}
	if snapshot {
		time.Sleep(500 * time.Millisecond)
		o0.IsClosing() // refreshes lastInteractionTime: the ticks are 1.5 s / 2.5 s after it
		last := time.Now()
		ctl.Adopt("swamp.idle.read", func(a []int64) bool { return len(a) > 0 && a[0] == id }, tid)
		ok := false
		deadline := time.Now().Add(8 * time.Second)
		for time.Now().Before(deadline) {
			if st, _, _ := ctl.State(tid); st == lib.Parked {
				if time.Since(last) > 2150*time.Millisecond {
					ok = true
					break
				}
				ctl.StepThread(tid, 5*time.Millisecond)
			}
			time.Sleep(2 * time.Millisecond)
		}
		r.script = append(r.script, fmt.Sprintf("listener parked after its per-tick reads at an idle tick=%v", ok))
		if !ok {
			r.inconcl = true
		}
		o, err := e.h.SummonSwamp(ctx, 1, nm)
		if err != nil || o == nil || verifhook.ID(o) != id {
			r.inconcl = true
			ctl.StepThread(tid, time.Millisecond)
			return r
		}
		o.BeginVigil()
		r.script = append(r.script, "request summoned the instance and began its vigil")
		// the listener continues through the check of this tick (and, if it wrongly closes, through Close)
		first := true
		dl := time.Now().Add(500 * time.Millisecond)
		for time.Now().Before(dl) {
			if st, site, _ := ctl.State(tid); st == lib.Parked {
				if site == "swamp.idle.read" && !first {
					break
				}
				first = false
				ctl.StepThread(tid, 5*time.Millisecond)
			}
			time.Sleep(2 * time.Millisecond)
		}
		r.evicted = !inMap() || o.IsClosing()
		r.script = append(r.script, fmt.Sprintf("after the listener's check: same instance in the map=%v", inMap()))
		o.CeaseVigil()
	} else {
		o0.BeginVigil()
		time.Sleep(3400 * time.Millisecond)
		r.evicted = !inMap() || o0.IsClosing()
		r.script = append(r.script, fmt.Sprintf("vigil held for 3.4 s: same instance in the map=%v", inMap()))
		o0.CeaseVigil()
	}
	// release the adopted listener for good and clean up
	go func() {
		for i := 0; i < 50; i++ {
			ctl.StepThread(tid, time.Millisecond)
			time.Sleep(5 * time.Millisecond)
		}
	}()
	if cur := hydra.VerifMapEntry(e.h, nm.Get()); cur != nil {
		cur.Destroy()
	}
	return r
}

// idleScenarios runs the scenarios (in parallel, one shared controller) on persistent swamps with
// immediate write and with a write interval, idle close after 1 s.
func (e *env) idleScenarios() []idleResult {
	ctl := lib.New()
	ctl.Park["swamp.idle.read"] = true
	ctl.Park["swamp.callback"] = true
	ctl.Install()
	defer ctl.Uninstall()
	type sc struct {
		name string
		snap bool
	}
	var scs []sc
	for i, pat := range []string{"c18i", "c18j"} {
		scs = append(scs, sc{fmt.Sprintf("%s/v/a%d", pat, i), true}, sc{fmt.Sprintf("%s/v/b%d", pat, i), false})
	}
	out := make([]idleResult, len(scs))
	done := make(chan int)
	for i := range scs {
		go func(i int) {
			out[i] = e.idleVigil(ctl, scs[i].name, 100+i, scs[i].snap)
			done <- i
		}(i)
	}
	for range scs {
		<-done
	}
	return out
}
