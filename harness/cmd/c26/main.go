// c26: correspondence check for "malformed requests fail cleanly" against Swamp/Validate.v.
//
// parent: runs itself as a child process (so that a fatal error of the engine is an observable,
// not the end of the check), reads the child's records and emits them as Coq cases.
// child: boots the real engine in-process and calls every RPC of HydraideService with requests
// produced structurally by protobuf reflection: a valid base request per method and, for every
// field (two levels deep), zero / boundary / malformed values. After every call it records
// (response nil?, gRPC code), the number of recovered panics logged, the safeops counter and the
// vigil counters of all open swamps. At the end it stops the engine (GracefulStop must complete),
// boots it again on the same data and checks that every persistent swamp it touched reloads with
// the record count it had.
package main

import (
	"bufio"
	"context"
	"encoding/json"
	"fmt"
	"io"
	"log/slog"
	"os"
	"os/exec"
	"reflect"
	"sort"
	"strings"
	"sync/atomic"
	"time"
	"unicode/utf8"

	"github.com/hydraide/hydraide/app/core/hydra"
	"github.com/hydraide/hydraide/app/core/safeops"
	"github.com/hydraide/hydraide/app/name"
	hydrapb "github.com/hydraide/hydraide/sdk/go/hydraidego/v3/hydraidepbgo"
	"google.golang.org/grpc/metadata"
	"google.golang.org/grpc/status"
	"google.golang.org/protobuf/proto"
	"google.golang.org/protobuf/reflect/protoreflect"
	"google.golang.org/protobuf/reflect/protoregistry"
	"verif/harness/common"
	"verif/harness/rig"
)

// ---------------------------------------------------------------- records (child -> parent)

type record struct {
	Idx      int    `json:"idx"`
	Method   string `json:"method"`
	Variant  string `json:"variant"`
	Req      string `json:"req"`
	Phase    string `json:"phase"` // "start" is written before the call, "done" after it
	Handler  string `json:"handler,omitempty"`
	Shape    string `json:"shape,omitempty"`
	Nil      bool   `json:"nil"`
	Code     int    `json:"code"`
	Panics   int    `json:"panics"`
	Hang     bool   `json:"hang"`
	Safeops  int    `json:"safeops"`
	VigilBad int    `json:"vigil_bad"`
	Escaped  bool   `json:"escaped"` // a panic left the handler (nothing above a gRPC handler recovers it)
	Changed  bool   `json:"changed"` // the swamps named by the request differ after the call
	Note     string `json:"note,omitempty"`
}

// ---------------------------------------------------------------- panic-counting slog handler

type countHandler struct{ n *int64 }

func (h countHandler) Enabled(context.Context, slog.Level) bool { return true }
func (h countHandler) Handle(_ context.Context, r slog.Record) error {
	if strings.Contains(r.Message, "panic") {
		atomic.AddInt64(h.n, 1)
	}
	return nil
}
func (h countHandler) WithAttrs([]slog.Attr) slog.Handler { return h }
func (h countHandler) WithGroup(string) slog.Handler      { return h }

// ---------------------------------------------------------------- fake streams

type fakeSS[T any] struct {
	ctx context.Context
	n   int
}

func (f *fakeSS[T]) Send(*T) error                { f.n++; return nil }
func (f *fakeSS[T]) SetHeader(metadata.MD) error  { return nil }
func (f *fakeSS[T]) SendHeader(metadata.MD) error { return nil }
func (f *fakeSS[T]) SetTrailer(metadata.MD)       {}
func (f *fakeSS[T]) Context() context.Context     { return f.ctx }
func (f *fakeSS[T]) SendMsg(any) error            { f.n++; return nil }
func (f *fakeSS[T]) RecvMsg(any) error            { return io.EOF }

type fakeBidi[Q any, R any] struct {
	fakeSS[R]
	in []*Q
}

func (f *fakeBidi[Q, R]) Recv() (*Q, error) {
	if len(f.in) == 0 {
		return nil, io.EOF
	}
	q := f.in[0]
	f.in = f.in[1:]
	return q, nil
}

// ---------------------------------------------------------------- structural generator

const uniqPlaceholder = "w-UNIQ" // replaced by a per-call value just before the call
const existM = "c26m/r/exists"
const existP = "c26p/r/exists"

func fillValid(m protoreflect.Message, depth int, swamp string, uniq int) {
	fds := m.Descriptor().Fields()
	for i := 0; i < fds.Len(); i++ {
		fd := fds.Get(i)
		name := string(fd.Name())
		if fd.IsMap() {
			continue
		}
		if fd.IsList() {
			l := m.Mutable(fd).List()
			switch fd.Kind() {
			case protoreflect.MessageKind:
				if depth > 0 {
					e := l.NewElement()
					fillValid(e.Message(), depth-1, swamp, uniq)
					l.Append(e)
				}
			case protoreflect.StringKind:
				if strings.Contains(name, "Swamp") {
					l.Append(protoreflect.ValueOfString(swamp))
				} else {
					l.Append(protoreflect.ValueOfString("k1"))
				}
			case protoreflect.Uint32Kind:
				l.Append(protoreflect.ValueOfUint32(7)) // not in the seeded slice: an executed push is visible
			}
			continue
		}
		switch fd.Kind() {
		case protoreflect.MessageKind:
			if fd.Message().FullName() == "google.protobuf.Timestamp" {
				ts := m.Mutable(fd).Message()
				ts.Set(ts.Descriptor().Fields().ByName("seconds"), protoreflect.ValueOfInt64(1700000000))
				continue
			}
			if depth > 0 && !fd.HasOptionalKeyword() && fd.ContainingOneof() == nil {
				fillValid(m.Mutable(fd).Message(), depth-1, swamp, uniq)
			}
		case protoreflect.StringKind:
			if name == "StringVal" && string(m.Descriptor().Name()) == "KeyValuePair" {
				// a value that differs from call to call (see uniqPlaceholder): a Set that is executed is
				// then visible in the contents of its swamp
				m.Set(fd, protoreflect.ValueOfString(uniqPlaceholder))
				continue
			}
			if fd.HasOptionalKeyword() || fd.ContainingOneof() != nil {
				continue
			}
			switch {
			case name == "SwampName":
				m.Set(fd, protoreflect.ValueOfString(swamp))
			case name == "SwampPattern":
				m.Set(fd, protoreflect.ValueOfString("c26m/pat/*"))
			case name == "Key" && strings.Contains(string(m.Descriptor().Name()), "Lock"):
				m.Set(fd, protoreflect.ValueOfString(fmt.Sprintf("lk%d", uniq)))
			case name == "Key" && string(m.Descriptor().Name()) == "KeySlicePair":
				m.Set(fd, protoreflect.ValueOfString("k2")) // the seeded slice treasure
			case name == "Key":
				m.Set(fd, protoreflect.ValueOfString("k1"))
			default:
				m.Set(fd, protoreflect.ValueOfString("v"))
			}
			_ = uniqPlaceholder
		case protoreflect.BoolKind:
			if name == "CreateIfNotExist" || name == "Overwrite" {
				m.Set(fd, protoreflect.ValueOfBool(true))
			}
		case protoreflect.EnumKind:
		case protoreflect.BytesKind:
		default: // numeric
			if fd.HasOptionalKeyword() || fd.ContainingOneof() != nil {
				continue
			}
			setNumeric(m, fd, 1)
		}
	}
}

func setNumeric(m protoreflect.Message, fd protoreflect.FieldDescriptor, v int64) {
	switch fd.Kind() {
	case protoreflect.Int32Kind, protoreflect.Sint32Kind, protoreflect.Sfixed32Kind:
		m.Set(fd, protoreflect.ValueOfInt32(int32(v)))
	case protoreflect.Int64Kind, protoreflect.Sint64Kind, protoreflect.Sfixed64Kind:
		m.Set(fd, protoreflect.ValueOfInt64(v))
	case protoreflect.Uint32Kind, protoreflect.Fixed32Kind:
		m.Set(fd, protoreflect.ValueOfUint32(uint32(v)))
	case protoreflect.Uint64Kind, protoreflect.Fixed64Kind:
		m.Set(fd, protoreflect.ValueOfUint64(uint64(v)))
	case protoreflect.FloatKind:
		m.Set(fd, protoreflect.ValueOfFloat32(float32(v)))
	case protoreflect.DoubleKind:
		m.Set(fd, protoreflect.ValueOfFloat64(float64(v)))
	}
}

type mutation struct {
	name  string
	apply func(m protoreflect.Message) // on the message that owns the field
}

// mutations of one field
func fieldMutations(fd protoreflect.FieldDescriptor, tier string) []mutation {
	var out []mutation
	add := func(n string, f func(m protoreflect.Message)) {
		out = append(out, mutation{string(fd.Name()) + "=" + n, f})
	}
	add("unset", func(m protoreflect.Message) { m.Clear(fd) })
	name := string(fd.Name())
	if fd.IsMap() {
		return out
	}
	if fd.IsList() {
		add("emptylist", func(m protoreflect.Message) { m.Clear(fd); _ = m.Mutable(fd).List() })
		switch fd.Kind() {
		case protoreflect.MessageKind:
			add("zero-element", func(m protoreflect.Message) {
				l := m.Mutable(fd).List()
				l.Truncate(0)
				l.Append(l.NewElement())
			})
			add("nil-element", func(m protoreflect.Message) { setPtrSlice(m, fd, false, true) })
			add("valid+nil-element", func(m protoreflect.Message) { setPtrSlice(m, fd, true, true) })
			add("valid+zero-element", func(m protoreflect.Message) {
				l := m.Mutable(fd).List()
				if l.Len() > 0 {
					l.Append(l.NewElement())
				}
			})
			add("two-elements", func(m protoreflect.Message) {
				l := m.Mutable(fd).List()
				if l.Len() > 0 {
					e := l.NewElement()
					proto.Merge(e.Message().Interface(), l.Get(0).Message().Interface())
					l.Append(e)
				}
			})
		case protoreflect.StringKind:
			for _, s := range keyVariants() {
				s := s
				add(fmt.Sprintf("[%.8q..%db/%dr]", s, len(s), utf8.RuneCountInString(s)), func(m protoreflect.Message) {
					l := m.Mutable(fd).List()
					l.Truncate(0)
					l.Append(protoreflect.ValueOfString(s))
				})
			}
			add("[k1,\"\"]", func(m protoreflect.Message) {
				l := m.Mutable(fd).List()
				l.Truncate(0)
				l.Append(protoreflect.ValueOfString("k1"))
				l.Append(protoreflect.ValueOfString(""))
			})
		}
		return out
	}
	switch fd.Kind() {
	case protoreflect.StringKind:
		vals := []string{"", "x"}
		if name == "SwampName" || name == "SwampPattern" {
			vals = []string{"", "ab", "a/b", "a//", "//", "*", "*/*/*", "c26p/r/missing", "c26m/r/missing", "a/b/c/d", strings.Repeat("n", 300) + "/r/s"}
		} else if name == "Key" {
			vals = keyVariants()
		}
		for _, s := range vals {
			s := s
			add(fmt.Sprintf("%.12q..%db/%dr", s, len(s), utf8.RuneCountInString(s)), func(m protoreflect.Message) { m.Set(fd, protoreflect.ValueOfString(s)) })
		}
	case protoreflect.BoolKind:
		add("true", func(m protoreflect.Message) { m.Set(fd, protoreflect.ValueOfBool(true)) })
	case protoreflect.EnumKind:
		add("99", func(m protoreflect.Message) { m.Set(fd, protoreflect.ValueOfEnum(99)) })
		add("last", func(m protoreflect.Message) {
			vs := fd.Enum().Values()
			m.Set(fd, protoreflect.ValueOfEnum(vs.Get(vs.Len()-1).Number()))
		})
	case protoreflect.BytesKind:
		add("garbage", func(m protoreflect.Message) { m.Set(fd, protoreflect.ValueOfBytes([]byte{0xc1, 0xff, 0x00})) })
		add("empty", func(m protoreflect.Message) { m.Set(fd, protoreflect.ValueOfBytes([]byte{})) })
	case protoreflect.MessageKind:
		add("zero-message", func(m protoreflect.Message) { m.Clear(fd); _ = m.Mutable(fd) })
	default:
		for _, v := range []int64{0, -1, 2147483647, -2147483648} {
			v := v
			add(fmt.Sprint(v), func(m protoreflect.Message) { setNumeric(m, fd, v) })
		}
		if tier == "thorough" {
			add("maxint64", func(m protoreflect.Message) { setNumeric(m, fd, 9223372036854775807) })
		}
	}
	return out
}

// setPtrSlice rewrites a repeated message field of the generated Go struct to [first?, nil]: a nil
// element cannot be built through protoreflect (and cannot arrive over the wire), but an in-process
// caller can pass one, and the handlers must survive it.
func setPtrSlice(m protoreflect.Message, fd protoreflect.FieldDescriptor, keepFirst, addNil bool) {
	defer func() { _ = recover() }()
	v := reflect.ValueOf(m.Interface())
	if v.Kind() != reflect.Ptr || v.IsNil() {
		return
	}
	f := v.Elem().FieldByName(string(fd.Name()))
	if !f.IsValid() || f.Kind() != reflect.Slice || f.Type().Elem().Kind() != reflect.Ptr {
		return
	}
	out := reflect.MakeSlice(f.Type(), 0, 2)
	if keepFirst && f.Len() > 0 {
		out = reflect.Append(out, f.Index(0))
	}
	if addNil {
		out = reflect.Append(out, reflect.Zero(f.Type().Elem()))
	}
	f.Set(out)
}

func safeText(m proto.Message) (txt string) {
	defer func() {
		if r := recover(); r != nil {
			txt = fmt.Sprintf("<request not printable: %v>", r)
		}
	}()
	return fmt.Sprint(m)
}

// keyVariants: treasure keys around the limit of the storage format, which is 65535 BYTES (16-bit key
// length of the V2 file): ASCII keys, and keys of 2-, 3- and 4-byte UTF-8 characters whose byte
// length and character count fall on different sides of the limit.
func keyVariants() []string {
	return []string{"", "nokey",
		strings.Repeat("K", 65535), strings.Repeat("K", 65536), strings.Repeat("K", 70000),
		strings.Repeat("é", 32767) + "a", // 65535 bytes, 32768 characters: the longest valid key
		strings.Repeat("é", 32768),       // 65536 bytes, 32768 characters
		strings.Repeat("é", 40000),       // 80000 bytes, 40000 characters
		strings.Repeat("€", 21846),       // 65538 bytes, 21846 characters
		strings.Repeat("😀", 16384),       // 65536 bytes, 16384 characters
		"ключ/鍵/🔑",                       // short multi-byte key
	}
}

type variant struct {
	name string
	req  proto.Message
}

func variantsOf(mt protoreflect.MessageType, swamp string, uniq int, tier string) []variant {
	base := func() proto.Message {
		m := mt.New()
		fillValid(m, 3, swamp, uniq)
		return m.Interface()
	}
	out := []variant{{"valid", base()}, {"zero", mt.New().Interface()}, {"valid+cancelled-ctx", base()}}
	fds := mt.Descriptor().Fields()
	for i := 0; i < fds.Len(); i++ {
		fd := fds.Get(i)
		for _, mu := range fieldMutations(fd, tier) {
			r := base()
			mu.apply(r.ProtoReflect())
			out = append(out, variant{mu.name, r})
		}
		// one level down: fields of the first element / of the sub-message
		if fd.Kind() == protoreflect.MessageKind && !fd.IsMap() && fd.Message().FullName() != "google.protobuf.Timestamp" {
			sub := fd.Message().Fields()
			for j := 0; j < sub.Len(); j++ {
				sfd := sub.Get(j)
				for _, mu := range fieldMutations(sfd, tier) {
					r := base()
					rm := r.ProtoReflect()
					var target protoreflect.Message
					if fd.IsList() {
						l := rm.Mutable(fd).List()
						if l.Len() == 0 {
							continue
						}
						target = l.Get(0).Message()
					} else {
						target = rm.Mutable(fd).Message()
					}
					mu.apply(target)
					out = append(out, variant{string(fd.Name()) + "." + mu.name, r})
					// the same malformed value in a LATER entry, after a valid one: a rejected request must
					// not have executed its earlier entries
					if fd.IsList() && (tier == "thorough" || strings.Contains(mu.name, "Swamp") || strings.Contains(mu.name, "Key") || strings.HasSuffix(mu.name, "=unset") || strings.Contains(mu.name, "element")) {
						r2 := base()
						l := r2.ProtoReflect().Mutable(fd).List()
						if l.Len() > 0 {
							e := l.NewElement()
							proto.Merge(e.Message().Interface(), l.Get(0).Message().Interface())
							mu.apply(e.Message())
							l.Append(e)
							out = append(out, variant{string(fd.Name()) + "[1]." + mu.name, r2})
						}
					}
				}
			}
		}
	}
	return out
}

// replaceStr rewrites every string field (also inside lists and sub-messages) equal to old.
func replaceStr(m protoreflect.Message, old, new string) {
	m.Range(func(fd protoreflect.FieldDescriptor, v protoreflect.Value) bool {
		switch {
		case fd.IsMap():
		case fd.IsList():
			l := v.List()
			for i := 0; i < l.Len(); i++ {
				if fd.Kind() == protoreflect.StringKind && l.Get(i).String() == old {
					l.Set(i, protoreflect.ValueOfString(new))
				} else if fd.Kind() == protoreflect.MessageKind {
					replaceStr(l.Get(i).Message(), old, new)
				}
			}
		case fd.Kind() == protoreflect.StringKind:
			if v.String() == old {
				m.Set(fd, protoreflect.ValueOfString(new))
			}
		case fd.Kind() == protoreflect.MessageKind:
			replaceStr(v.Message(), old, new)
		}
		return true
	})
}

// ---------------------------------------------------------------- shapes of the modelled handlers

func nshape(s string) string {
	switch {
	case s == "":
		return "NEmpty"
	case strings.Count(s, "/") < 2:
		return "NShort"
	}
	return "NOk"
}

var incMethods = map[string]bool{"IncrementInt8": true, "IncrementInt16": true, "IncrementInt32": true, "IncrementInt64": true,
	"IncrementUint8": true, "IncrementUint16": true, "IncrementUint32": true, "IncrementUint64": true, "IncrementFloat32": true, "IncrementFloat64": true}

var simpleHandlers = map[string]string{"GetAll": "HGetAll", "GetByIndex": "HGetByIndex", "GetByKeys": "HGetByKeys", "IsSwampExist": "HIsSwampExist",
	"IsKeyExist": "HIsKeyExist", "AreKeysExist": "HAreKeysExist", "ShiftByKeys": "HShiftByKeys", "Uint32SlicePush": "HPush",
	"Uint32SliceDelete": "HSlDel", "Uint32SliceSize": "HSize", "Uint32SliceIsValueExist": "HIsVal", "Destroy": "HDestroy"}

// shapeOf returns the handler constructor and the (name, keys, kvnil, by0, keyEmpty, idEmpty) part of
// the shape for the requests the model covers; ok=false otherwise. The swamp name is returned so
// that the caller can ask whether it exists.
func shapeOf(method string, req proto.Message) (h, swampName, keys string, kvnil, by0, keyEmpty, idEmpty, ok bool) {
	h, swampName, keys, kvnil, by0, keyEmpty, idEmpty, ok = shapeOf0(method, req)
	return
}

// maxKey is the longest treasure key the storage format holds (16-bit key length of the V2 file).
const maxKey = 65535

// wkeyEmpty / wkeyLong: a treasure key that the request would write is "" / longer than maxKey.
func wkeyEmpty(method string, req proto.Message) bool {
	return wkeyIs(method, req, func(k string) bool { return k == "" })
}
func wkeyLong(method string, req proto.Message) bool {
	return wkeyIs(method, req, func(k string) bool { return len(k) > maxKey })
}
func wkeyIs(method string, req proto.Message, bad func(string) bool) bool {
	switch r := req.(type) {
	case *hydrapb.SetRequest:
		if len(r.Swamps) == 1 && r.Swamps[0] != nil {
			for _, kv := range r.Swamps[0].KeyValues {
				if bad(kv.GetKey()) {
					return true
				}
			}
		}
	case *hydrapb.AddToUint32SlicePushRequest:
		for _, p := range r.KeySlicePairs {
			if bad(p.GetKey()) {
				return true
			}
		}
	default:
		if incMethods[method] {
			rm := req.ProtoReflect()
			return bad(rm.Get(rm.Descriptor().Fields().ByName("Key")).String())
		}
	}
	return false
}

func shapeOf0(method string, req proto.Message) (h, swampName, keys string, kvnil, by0, keyEmpty, idEmpty, ok bool) {
	keys = "KOk"
	rm := req.ProtoReflect()
	str := func(m protoreflect.Message, f string) string {
		fd := m.Descriptor().Fields().ByName(protoreflect.Name(f))
		if fd == nil {
			return ""
		}
		return m.Get(fd).String()
	}
	switch {
	case simpleHandlers[method] != "":
		return simpleHandlers[method], str(rm, "SwampName"), keys, false, false, false, false, true
	case incMethods[method]:
		fd := rm.Descriptor().Fields().ByName("IncrementBy")
		v := rm.Get(fd)
		zero := false
		switch fd.Kind() {
		case protoreflect.FloatKind, protoreflect.DoubleKind:
			zero = v.Float() == 0
		case protoreflect.Uint32Kind, protoreflect.Uint64Kind:
			zero = v.Uint() == 0
		default:
			zero = v.Int() == 0
		}
		return "HInc", str(rm, "SwampName"), keys, false, zero, false, false, true
	case method == "RegisterSwamp":
		return "HRegister", str(rm, "SwampPattern"), keys, false, false, false, false, true
	case method == "DeRegisterSwamp":
		return "HDeRegister", str(rm, "SwampPattern"), keys, false, false, false, false, true
	case method == "Lock":
		return "HLock", "x/y/z", keys, false, false, str(rm, "Key") == "", false, true
	case method == "Unlock":
		return "HUnlock", "x/y/z", keys, false, false, str(rm, "Key") == "", str(rm, "LockID") == "", true
	case method == "Set":
		r := req.(*hydrapb.SetRequest)
		if len(r.Swamps) != 1 || r.Swamps[0] == nil {
			return
		}
		return "HSet", r.Swamps[0].SwampName, keys, r.Swamps[0].KeyValues == nil, false, false, false, true
	case method == "Get":
		r := req.(*hydrapb.GetRequest)
		if len(r.Swamps) != 1 || r.Swamps[0] == nil {
			return
		}
		ks := r.Swamps[0].Keys
		switch {
		case ks == nil:
			keys = "KNil"
		case len(ks) == 0:
			keys = "KEmptyList"
		case ks[0] == "":
			keys = "KFirstEmpty"
		}
		return "HGet", r.Swamps[0].SwampName, keys, false, false, false, false, true
	case method == "Delete":
		r := req.(*hydrapb.DeleteRequest)
		if len(r.Swamps) != 1 || r.Swamps[0] == nil {
			return
		}
		return "HDelete", r.Swamps[0].SwampName, keys, false, false, false, false, true
	case method == "Count":
		r := req.(*hydrapb.CountRequest)
		if len(r.Swamps) != 1 || r.Swamps[0] == nil {
			return
		}
		return "HCount", r.Swamps[0].SwampName, keys, false, false, false, false, true
	}
	return
}

// ---------------------------------------------------------------- child

func seed(s *rig.Server, names ...string) {
	i5 := int64(5)
	for _, sw := range names {
		_, _ = s.GW.Set(context.Background(), &hydrapb.SetRequest{Swamps: []*hydrapb.SwampRequest{{IslandID: 1, SwampName: sw, CreateIfNotExist: true, Overwrite: true,
			KeyValues: []*hydrapb.KeyValuePair{{Key: "k1", Int64Val: &i5}, {Key: "k2", Uint32Slice: []uint32{1, 2}}, {Key: "k3", BytesVal: []byte{0x81, 0xa1, 0x78, 0x01}}}}}})
	}
}

func callMethod(s *rig.Server, method string, req proto.Message, streaming, cancelled bool) (respNil bool, err error) {
	gw := s.GW
	ctx, cancel := context.WithTimeout(context.Background(), 250*time.Millisecond)
	defer cancel()
	uctx := context.Background()
	if cancelled { // the client went away before the handler ran
		c, cf := context.WithCancel(context.Background())
		cf()
		uctx, ctx = c, c
	}
	if !streaming {
		meth := reflect.ValueOf(gw).MethodByName(method)
		out := meth.Call([]reflect.Value{reflect.ValueOf(uctx), reflect.ValueOf(req)})
		if !out[1].IsNil() {
			err = out[1].Interface().(error)
		}
		return out[0].IsNil(), err
	}
	switch method {
	case "GetByIndexStream":
		err = gw.GetByIndexStream(req.(*hydrapb.GetByIndexStreamRequest), &fakeSS[hydrapb.GetByIndexStreamResponse]{ctx: ctx})
	case "GetByIndexStreamFromMany":
		err = gw.GetByIndexStreamFromMany(req.(*hydrapb.GetByIndexStreamFromManyRequest), &fakeSS[hydrapb.GetByIndexStreamFromManyResponse]{ctx: ctx})
	case "GetStream":
		err = gw.GetStream(req.(*hydrapb.GetStreamRequest), &fakeSS[hydrapb.GetStreamResponse]{ctx: ctx})
	case "SubscribeToEvents":
		err = gw.SubscribeToEvents(req.(*hydrapb.SubscribeToEventsRequest), &fakeSS[hydrapb.SubscribeToEventsResponse]{ctx: ctx})
	case "SubscribeToInfo":
		err = gw.SubscribeToInfo(req.(*hydrapb.SubscribeToInfoRequest), &fakeSS[hydrapb.SubscribeToInfoResponse]{ctx: ctx})
	case "SubscribeToTelemetry":
		err = gw.SubscribeToTelemetry(req.(*hydrapb.TelemetrySubscribeRequest), &fakeSS[hydrapb.TelemetryEvent]{ctx: ctx})
	case "DestroyBulk":
		f := &fakeBidi[hydrapb.DestroyBulkRequest, hydrapb.DestroyBulkResponse]{in: []*hydrapb.DestroyBulkRequest{req.(*hydrapb.DestroyBulkRequest)}}
		f.ctx = context.Background()
		err = gw.DestroyBulk(f)
	default:
		return false, fmt.Errorf("unknown streaming method %s", method)
	}
	return false, err // a streaming handler has no response value: only the error is observable
}

// swampNames lists the loadable swamp names a request mentions (any string field whose name contains
// "Swamp", at any depth).
func swampNames(m protoreflect.Message, acc map[string]bool) {
	defer func() { _ = recover() }()
	m.Range(func(fd protoreflect.FieldDescriptor, v protoreflect.Value) bool {
		isName := strings.Contains(string(fd.Name()), "Swamp") && fd.Kind() == protoreflect.StringKind
		add := func(x string) {
			if isName && strings.Count(x, "/") >= 2 && len(x) < 200 && !strings.Contains(x, "*") {
				acc[x] = true
			}
		}
		switch {
		case fd.IsMap():
		case fd.IsList():
			l := v.List()
			for i := 0; i < l.Len(); i++ {
				if fd.Kind() == protoreflect.StringKind {
					add(l.Get(i).String())
				} else if fd.Kind() == protoreflect.MessageKind && l.Get(i).Message().IsValid() {
					swampNames(l.Get(i).Message(), acc)
				}
			}
		case fd.Kind() == protoreflect.StringKind:
			add(v.String())
		case fd.Kind() == protoreflect.MessageKind:
			swampNames(v.Message(), acc)
		}
		return true
	})
}

// digest describes the stored state of the swamps a request names: existence and full contents
// (timestamps written by the server clock excluded). A request that is answered with a rejection
// must leave it unchanged.
func digest(s *rig.Server, names []string) string {
	var sb strings.Builder
	for _, n := range names {
		nm := name.Load(n)
		ex, err := s.Zeus.GetHydra().IsExistSwamp(1, nm)
		if err != nil || !ex {
			sb.WriteString(n + ":absent;")
			continue
		}
		all, err := s.GW.GetAll(context.Background(), &hydrapb.GetAllRequest{IslandID: 1, SwampName: n})
		if err != nil || all == nil {
			sb.WriteString(n + ":unreadable;")
			continue
		}
		var items []string
		for _, t := range all.Treasures {
			c := proto.Clone(t).(*hydrapb.Treasure)
			c.CreatedAt, c.UpdatedAt, c.ExpiredAt = nil, nil, nil
			items = append(items, fmt.Sprint(c))
		}
		sort.Strings(items)
		sb.WriteString(n + ":" + strings.Join(items, "|") + ";")
	}
	return sb.String()
}

// guarded runs an auxiliary engine call (seed, digest, count ...) under a watchdog: a recovered panic
// can leave a lock of the swamp held, and the next call on that swamp then blocks for ever.
func guarded(f func()) (returned bool) {
	done := make(chan struct{})
	go func() {
		defer func() { _ = recover(); close(done) }()
		f()
	}()
	select {
	case <-done:
		return true
	case <-time.After(6 * time.Second):
		return false
	}
}

// probeSwamp touches a swamp the way the next request would: reads its index and takes and releases
// the guard of every record. It goes through hydra, not through the gateway.
func probeSwamp(s *rig.Server, swampName string) {
	h := s.Zeus.GetHydra()
	nm := name.Load(swampName)
	if ex, err := h.IsExistSwamp(1, nm); err != nil || !ex {
		return
	}
	sw, err := h.SummonSwamp(context.Background(), 1, nm)
	if err != nil || sw == nil {
		return
	}
	_ = sw.CountTreasures()
	for _, t := range sw.GetAll() {
		id := t.StartTreasureGuard(true)
		t.ReleaseTreasureGuard(id)
	}
	_ = sw.TreasureExists("k1")
}

func vigilBad(s *rig.Server) int {
	bad := 0
	for _, v := range hydra.VigilCountsC26(s.Zeus.GetHydra()) {
		if v != 0 {
			bad++
		}
	}
	return bad
}

func child(resultPath, root, tier string, only int) {
	f, _ := os.Create(resultPath)
	w := bufio.NewWriter(f)
	emit := func(r record) {
		b, _ := json.Marshal(r)
		w.Write(b)
		w.WriteString("\n")
		w.Flush()
		f.Sync()
	}
	var panics int64
	slog.SetDefault(slog.New(countHandler{&panics}))
	s := rig.Start(root, true)
	s.Register("c26m/*/*", true, 3600, 0, 0)
	s.Register("c26p/*/*", false, 3600, 1, 8192)
	seed(s, existM, existP)

	svc := hydrapb.File_hydraide_proto.Services().ByName("HydraideService")
	idx := 0
	touched := map[string]string{existP: "seed"}
	hungStop := false
	watchSeen := false
	memSwamp, memGen, lastPanic := existM, 0, ""
	poisoned := false
	for mi := 0; mi < svc.Methods().Len() && !hungStop; mi++ {
		md := svc.Methods().Get(mi)
		method := string(md.Name())
		streaming := md.IsStreamingServer() || md.IsStreamingClient()
		mt, err := protoregistry.GlobalTypes.FindMessageByName(md.Input().FullName())
		if err != nil {
			emit(record{Idx: idx, Method: method, Phase: "done", Note: "no message type"})
			idx++
			continue
		}
		for pass, swamp := range []string{existP, existM} {
			vs := variantsOf(mt, swamp, idx, tier)
			if pass == 1 && tier != "thorough" {
				// in-memory pass of the quick tier: only the name / key / list mutations
				var keep []variant
				for _, v := range vs {
					if strings.Contains(v.name, "Swamp") || strings.Contains(v.name, "Key") || v.name == "valid" || v.name == "zero" {
						keep = append(keep, v)
					}
				}
				vs = keep
			}
			if streaming && (strings.HasPrefix(method, "Subscribe")) && len(vs) > 12 {
				vs = vs[:12] // these block until their context ends
			}
			for _, v := range vs {
				if only >= 0 && idx != only {
					idx++
					continue
				}
				if lo, hi := 0, 0; os.Getenv("C26_RANGE") != "" { // debugging aid: run only the variants lo..hi
					fmt.Sscanf(os.Getenv("C26_RANGE"), "%d-%d", &lo, &hi)
					if idx < lo || idx > hi {
						idx++
						continue
					}
				}
				// every variant of the persistent pass works on its own swamp, so that the reload check at
				// the end names the request that damaged a swamp
				mine := memSwamp
				if pass == 0 {
					mine = fmt.Sprintf("c26p/r/v%d", idx)
					replaceStr(v.req.ProtoReflect(), existP, mine)
					touched[mine] = method + " " + v.name
				} else if memSwamp != existM {
					replaceStr(v.req.ProtoReflect(), existM, memSwamp)
				}
				// blocked reports an auxiliary call that did not return, names the last request that
				// panicked (the likely holder of the lock) and moves the shared in-memory swamp on
				blocked := func(what string) {
					emit(record{Idx: -5, Method: "Blocked", Variant: what + " before/after " + method + " " + v.name, Req: lastPanic, Phase: "done", Hang: true})
					memGen++
					memSwamp = fmt.Sprintf("%s%d", existM, memGen)
				}
				if !guarded(func() { seed(s, mine) }) {
					blocked("seeding " + mine)
					idx++
					continue
				}
				if lr, ok := v.req.(*hydrapb.LockRequest); ok && strings.HasPrefix(lr.Key, "lk") {
					lr.Key = fmt.Sprintf("lk%d", idx) // a business lock held by an earlier variant would (rightly) block this one
				}
				func() {
					defer func() { _ = recover() }()
					replaceStr(v.req.ProtoReflect(), uniqPlaceholder, fmt.Sprintf("w%d", idx))
				}()
				rec := record{Idx: idx, Method: method, Variant: v.name, Phase: "start"}
				txt := safeText(v.req)
				if len(txt) > 300 {
					txt = txt[:300] + "..."
				}
				rec.Req = txt
				if h, swName, keys, kvnil, by0, ke, ie, ok := shapeOf(method, v.req); ok {
					exists := false
					if nshape(swName) == "NOk" {
						ex, err := s.Zeus.GetHydra().IsExistSwamp(1, name.Load(swName)) // the server's own parse (first three parts)
						exists = err == nil && ex
						if strings.HasPrefix(swName, "c26p/") && len(swName) < 100 && touched[swName] == "" {
							touched[swName] = method + " " + v.name
						}
					}
					rec.Handler = h
					rec.Shape = fmt.Sprintf("(SH %s %s %s %s %s %s %s %s %s)", nshape(swName), common.Bool(exists), keys, common.Bool(kvnil), common.Bool(by0), common.Bool(ke), common.Bool(ie), common.Bool(wkeyEmpty(method, v.req)), common.Bool(wkeyLong(method, v.req)))
				}
				emit(rec)
				nameSet := map[string]bool{}
				swampNames(v.req.ProtoReflect(), nameSet)
				var named []string
				for n := range nameSet {
					named = append(named, n)
				}
				sort.Strings(named)
				stateBefore := ""
				if !guarded(func() { stateBefore = digest(s, named) }) {
					blocked("reading " + strings.Join(named, ","))
					idx++
					continue
				}
				before := atomic.LoadInt64(&panics)
				type res struct {
					n       bool
					err     error
					escaped bool
				}
				ch := make(chan res, 1)
				go func() {
					defer func() {
						// nothing above a gRPC handler recovers a panic: one that gets here would have
						// terminated the server process
						if r := recover(); r != nil {
							ch <- res{true, nil, true}
						}
					}()
					n, err := callMethod(s, method, v.req, streaming, strings.HasSuffix(v.name, "cancelled-ctx"))
					ch <- res{n, err, false}
				}()
				rec.Phase = "done"
				select {
				case r := <-ch:
					rec.Nil = r.n
					rec.Escaped = r.escaped
					if streaming {
						rec.Nil = r.err != nil
					}
					if r.err != nil {
						st, _ := status.FromError(r.err)
						rec.Code = int(st.Code())
						rec.Note = st.Message()
						if len(rec.Note) > 120 {
							rec.Note = rec.Note[:120]
						}
					}
				case <-time.After(8 * time.Second):
					rec.Hang = true
					hungStop = true
				}
				rec.Panics = int(atomic.LoadInt64(&panics) - before)
				if !rec.Hang {
					rec.Safeops = int(safeops.LockCountC26(s.Zeus.GetSafeops()))
					rec.VigilBad = vigilBad(s)
					if rec.Panics > 0 || rec.Escaped {
						lastPanic = method + " " + v.name
						// second use of the objects the panicking handler worked on: a lock or a record guard
						// it left held blocks the next user for ever. Probed below the gateway, so that a
						// stuck probe holds no system lock (GracefulStop waits for those).
						for _, n := range named {
							n := n
							if !guarded(func() { probeSwamp(s, n) }) {
								emit(rec)
								blocked("second use of " + n)
								poisoned = true
								break
							}
						}
						if poisoned {
							poisoned = false
							idx++
							continue
						}
					}
					after := ""
					if guarded(func() { after = digest(s, named) }) {
						rec.Changed = after != stateBefore
					} else {
						emit(rec)
						blocked("reading " + strings.Join(named, ","))
						idx++
						continue
					}
				}
				emit(rec)
				if w := os.Getenv("C26_WATCH"); w != "" { // debugging aid: when does the file of a swamp appear / vanish
					pth := name.Load(w).GetFullHashPath(s.Settings.GetHydraAbsDataFolderPath(), 1, s.Settings.GetHashFolderDepth(), s.Settings.GetMaxFoldersPerLevel()) + ".hyd"
					_, statErr := os.Stat(pth)
					if (statErr == nil) != watchSeen {
						watchSeen = statErr == nil
						fmt.Printf("WATCH %s file present=%v after idx %d %s %s\n", w, watchSeen, idx, method, v.name)
					}
				}
				idx++
				if hungStop {
					break
				}
			}
			if hungStop {
				break
			}
		}
	}
	// key-limit probes on persistent swamps, through Set (its keys sit three levels deep, below the
	// reach of the field mutations) and through IncrementInt64: a key longer than 65535 bytes must be
	// rejected; an acknowledged key - whatever it is made of - must be there after the restart
	type probeT struct {
		swamp string
		keys  []string
	}
	var probes []probeT
	if !hungStop && only < 0 {
		one := int64(1)
		for pi, k := range keyVariants() {
			if k == "" || k == "nokey" {
				continue
			}
			if !guarded(func() {
				label := fmt.Sprintf("%.6q..%db/%dr", k, len(k), utf8.RuneCountInString(k))
				swSet := fmt.Sprintf("c26p/r/probe%dset", pi)
				_, err := s.GW.Set(context.Background(), &hydrapb.SetRequest{Swamps: []*hydrapb.SwampRequest{{IslandID: 1, SwampName: swSet, CreateIfNotExist: true, Overwrite: true,
					KeyValues: []*hydrapb.KeyValuePair{{Key: "small", Int64Val: &one}, {Key: k, Int64Val: &one}}}}})
				rec := record{Idx: -3, Method: "KeyProbe", Variant: "Set " + label, Req: swSet, Phase: "done", Safeops: len(k)}
				if err == nil {
					touched[swSet] = "Set with the key " + label
					probes = append(probes, probeT{swSet, []string{"small", k}})
				} else {
					rec.Code = int(status.Code(err))
				}
				emit(rec)
				swInc := fmt.Sprintf("c26p/r/probe%dinc", pi)
				_, _ = s.GW.Set(context.Background(), &hydrapb.SetRequest{Swamps: []*hydrapb.SwampRequest{{IslandID: 1, SwampName: swInc, CreateIfNotExist: true, Overwrite: true,
					KeyValues: []*hydrapb.KeyValuePair{{Key: "small", Int64Val: &one}}}}})
				_, err = s.GW.IncrementInt64(context.Background(), &hydrapb.IncrementInt64Request{IslandID: 1, SwampName: swInc, Key: k, IncrementBy: 1})
				rec = record{Idx: -3, Method: "KeyProbe", Variant: "IncrementInt64 " + label, Req: swInc, Phase: "done", Safeops: len(k)}
				if err == nil {
					touched[swInc] = "IncrementInt64 with the key " + label
					probes = append(probes, probeT{swInc, []string{"small", k}})
				} else {
					rec.Code = int(status.Code(err))
				}
				emit(rec)
			}) {
				emit(record{Idx: -5, Method: "Blocked", Variant: fmt.Sprintf("key-limit probe %d", pi), Req: lastPanic, Phase: "done", Hang: true})
			}
		}
	}
	// counts before shutdown
	counts := map[string]int32{}
	names := []string{}
	for n := range touched {
		names = append(names, n)
	}
	sort.Strings(names)
	if !hungStop {
		for _, n := range names {
			if !guarded(func() {
				c, err := s.GW.Count(context.Background(), &hydrapb.CountRequest{Swamps: []*hydrapb.CountRequest_SwampIdentifier{{IslandID: 1, SwampName: n}}})
				if err == nil && c != nil && len(c.Swamps) == 1 && c.Swamps[0].IsExist && c.Swamps[0].Count > 0 {
					counts[n] = c.Swamps[0].Count
				}
			}) {
				emit(record{Idx: -5, Method: "Blocked", Variant: "counting " + n + " before shutdown", Req: touched[n], Phase: "done", Hang: true})
			}
		}
		stopped := make(chan struct{})
		go func() { s.Stop(); close(stopped) }()
		select {
		case <-stopped:
			emit(record{Idx: -1, Method: "GracefulStop", Phase: "done"})
		case <-time.After(60 * time.Second):
			emit(record{Idx: -1, Method: "GracefulStop", Phase: "done", Hang: true, Req: lastPanic})
			emit(record{Idx: -9, Method: "END", Phase: "done"})
			w.Flush()
			os.Exit(0)
		}
		s2 := rig.Start(root, true)
		s2.Register("c26m/*/*", true, 3600, 0, 0)
		s2.Register("c26p/*/*", false, 3600, 1, 8192)
		for _, n := range names {
			want, had := counts[n]
			if !had {
				continue
			}
			rec := record{Idx: -2, Method: "Reload", Variant: n, Req: touched[n], Phase: "done"}
			before := atomic.LoadInt64(&panics)
			ch := make(chan string, 1)
			go func() {
				c, err := s2.GW.Count(context.Background(), &hydrapb.CountRequest{Swamps: []*hydrapb.CountRequest_SwampIdentifier{{IslandID: 1, SwampName: n}}})
				switch {
				case err != nil:
					ch <- "count error: " + err.Error()
				case c == nil || len(c.Swamps) != 1:
					ch <- "count: no answer"
				case c.Swamps[0].Count != want:
					ch <- fmt.Sprintf("records before shutdown %d, after reload %d", want, c.Swamps[0].Count)
				default:
					ch <- ""
				}
			}()
			select {
			case msg := <-ch:
				rec.Note = msg
			case <-time.After(10 * time.Second):
				rec.Hang = true
			}
			rec.Panics = int(atomic.LoadInt64(&panics) - before)
			emit(rec)
		}
		for _, p := range probes {
			for _, k := range p.keys {
				rec := record{Idx: -4, Method: "KeyPresent", Variant: p.swamp, Req: fmt.Sprintf("%.6q..%db/%dr", k, len(k), utf8.RuneCountInString(k)), Phase: "done"}
				ch := make(chan string, 1)
				go func() {
					r, err := s2.GW.IsKeyExist(context.Background(), &hydrapb.IsKeyExistRequest{IslandID: 1, SwampName: p.swamp, Key: k})
					switch {
					case err != nil:
						ch <- "error: " + err.Error()
					case r == nil || !r.IsExist:
						ch <- "the acknowledged key is not in the swamp after the restart"
					default:
						ch <- ""
					}
				}()
				select {
				case msg := <-ch:
					rec.Note = msg
				case <-time.After(10 * time.Second):
					rec.Hang = true
				}
				emit(rec)
			}
		}
		stopped2 := make(chan struct{})
		go func() { s2.Stop(); close(stopped2) }()
		select {
		case <-stopped2:
		case <-time.After(60 * time.Second):
			emit(record{Idx: -1, Method: "GracefulStop2", Phase: "done", Hang: true})
		}
	}
	emit(record{Idx: -9, Method: "END", Phase: "done"})
	w.Flush()
	f.Close()
	os.Exit(0)
}

// ---------------------------------------------------------------- parent

func main() {
	if os.Getenv("C26_CHILD") == "1" {
		only := -1
		fmt.Sscan(os.Getenv("C26_ONLY"), &only)
		child(os.Getenv("C26_RESULT"), os.Getenv("C26_ROOT"), os.Getenv("C26_TIER"), only)
		return
	}
	args := common.ParseArgs()
	run := common.NewRun(args, "C26", "HV.Swamp.Validate")
	run.Meta.Rule = "a case is non-trivial when the request is not the valid base request of its method (some field is zero / boundary / malformed)"
	root, _ := os.MkdirTemp("", "c26")
	defer os.RemoveAll(root)
	result := args.Out + "/child_records.jsonl"
	exe, _ := os.Executable()
	cmd := exec.Command(exe)
	cmd.Env = append(os.Environ(), "C26_CHILD=1", "C26_RESULT="+result, "C26_ROOT="+root, "C26_TIER="+args.Tier, fmt.Sprintf("C26_ONLY=%d", args.Only))
	outf, _ := os.Create(args.Out + "/child_output.txt")
	cmd.Stdout, cmd.Stderr = outf, outf
	err := cmd.Start()
	if err != nil {
		fmt.Fprintln(os.Stderr, "cannot start child:", err)
		os.Exit(2)
	}
	done := make(chan error, 1)
	go func() { done <- cmd.Wait() }()
	limit := 10 * time.Minute
	if args.Tier == "thorough" {
		limit = 40 * time.Minute
	}
	var childErr error
	select {
	case childErr = <-done:
	case <-time.After(limit):
		_ = cmd.Process.Kill()
		childErr = fmt.Errorf("child killed after %s", limit)
	}
	outf.Close()

	// read records
	rf, _ := os.Open(result)
	var recs []record
	if rf != nil {
		sc := bufio.NewScanner(rf)
		sc.Buffer(make([]byte, 1<<20), 1<<24)
		for sc.Scan() {
			var r record
			if json.Unmarshal(sc.Bytes(), &r) == nil {
				recs = append(recs, r)
			}
		}
		rf.Close()
	}
	ended := false
	var lastStart *record
	byIdx := map[int]record{}
	order := []int{}
	for i := range recs {
		r := recs[i]
		switch {
		case r.Method == "END":
			ended = true
		case r.Idx >= 0 && r.Phase == "start":
			lastStart = &recs[i]
		case r.Idx >= 0 && r.Phase == "done":
			if _, ok := byIdx[r.Idx]; !ok {
				order = append(order, r.Idx)
			}
			byIdx[r.Idx] = r
			lastStart = nil
		}
	}
	for _, i := range order {
		r := byIdx[i]
		h := "None"
		sh := "(SH NOk false KOk false false false false false false)"
		if r.Handler != "" {
			h = "(Some " + r.Handler + ")"
			sh = r.Shape
		}
		term := fmt.Sprintf("(VC %s %s %s %s %s %s %s %s %s %s %s)", h, sh, common.Bool(r.Nil), common.Z(int64(r.Code)), common.Z(int64(r.Panics)),
			common.Bool(r.Hang), common.Z(int64(r.Safeops)), common.Z(int64(r.VigilBad)), common.Bool(r.Escaped), common.Bool(r.Changed),
			common.Bool(strings.Contains(r.Variant, "nil-element")))
		run.Add(term, map[string]interface{}{"method": r.Method, "variant": r.Variant, "request": r.Req, "nil_response": r.Nil, "code": r.Code,
			"message": r.Note, "recovered_panics": r.Panics, "hang": r.Hang, "safeops_after": r.Safeops, "swamps_with_nonzero_vigil": r.VigilBad, "panic_escaped_handler": r.Escaped, "named_swamps_changed": r.Changed,
			"replay": fmt.Sprintf("--only %d", r.Idx)}, r.Variant != "valid")
		run.Hist("method:" + r.Method)
		if r.Handler != "" {
			run.Hist("modelled-handler")
		} else {
			run.Hist("oracle-only-handler")
		}
		switch {
		case r.Code == 0 && !r.Nil:
			run.Hist("answer:response")
		case r.Code != 0:
			run.Hist(fmt.Sprintf("answer:code-%d", r.Code))
		default:
			run.Hist("answer:nil-nil")
		}
	}
	// Go-side oracles: process liveness, shutdown, reload
	if !ended && args.Only < 0 {
		what := "child process ended without finishing"
		sig := "process_crashed"
		if lastStart != nil {
			what = fmt.Sprintf("the engine process died during %s (%s): %s", lastStart.Method, lastStart.Variant, lastStart.Req)
			sig = "process_crashed:" + lastStart.Method
		}
		if childErr != nil {
			what += " [" + childErr.Error() + "]"
		}
		tail, _ := os.ReadFile(args.Out + "/child_output.txt")
		if len(tail) > 1500 {
			tail = tail[:1500]
		}
		idx := run.Add("(VC None (SH NOk false KOk false false false false false false) false 0%Z 0%Z false 0%Z 0%Z false false false)", map[string]interface{}{"crash": what, "child_output": string(tail)}, true)
		run.Violate(idx, "never crashes the process", sig, what)
	}
	for _, r := range recs {
		if r.Method == "GracefulStop" || r.Method == "GracefulStop2" {
			run.Hist("graceful-stop")
			if r.Hang {
				idx := run.Add("(VC None (SH NOk false KOk false false false false false false) false 0%Z 0%Z false 0%Z 0%Z false false false)", map[string]interface{}{"stop": "did not complete in 60 s"}, true)
				run.Violate(idx, "never leaves the server unable to shut down", "graceful_stop_does_not_complete", "GracefulStop did not complete within 60 s after the generated requests")
			}
		}
		if r.Method == "Blocked" {
			run.Hist("engine-call-blocked")
			sig := "engine_call_blocked"
			if strings.Contains(r.Req, "ShiftMatchingTreasures") && strings.Contains(r.Req, "nil-element") {
				sig = "request_blocked_after_recovered_panic_in_shiftmatching_nil_element"
			} else if r.Req != "" {
				sig = "request_blocked_after_recovered_panic"
			}
			idx := run.Add("(VC None (SH NOk false KOk false false false false false false) false 0%Z 0%Z false 0%Z 0%Z false false false)", map[string]interface{}{"blocked": r.Variant, "last_panicking_request": r.Req}, true)
			run.Violate(idx, "never leaves the swamp unable to close", sig, fmt.Sprintf("%s did not return within 6 s; last request that panicked: %q", r.Variant, r.Req))
		}
		if r.Method == "KeyProbe" {
			run.Hist("key-limit-probe")
			keyBytes := r.Safeops // the byte length of the probed key travels in this field
			if keyBytes > maxKey && r.Code != 3 {
				idx := run.Add("(VC None (SH NOk false KOk false false false false false false) false 0%Z 0%Z false 0%Z 0%Z false false false)", map[string]interface{}{"probe": r.Variant, "swamp": r.Req, "code": r.Code}, true)
				run.Violate(idx, "oversized keys are rejected", "oversized_key_acknowledged", fmt.Sprintf("%s on %s: code %d (expected InvalidArgument: the key is longer than %d bytes)", r.Variant, r.Req, r.Code, maxKey))
			}
		}
		if r.Method == "KeyPresent" {
			run.Hist("acknowledged-key-checked")
			if r.Note != "" || r.Hang {
				idx := run.Add("(VC None (SH NOk false KOk false false false false false false) false 0%Z 0%Z false 0%Z 0%Z false false false)", map[string]interface{}{"swamp": r.Variant, "key": r.Req, "result": r.Note, "hang": r.Hang}, true)
				run.Violate(idx, "never corrupts stored data", "acknowledged_key_missing_after_reload", fmt.Sprintf("swamp %s key %s: %s (hang=%v)", r.Variant, r.Req, r.Note, r.Hang))
			}
		}
		if r.Method == "Reload" {
			run.Hist("reload-checked")
			if r.Note != "" || r.Hang || r.Panics > 0 {
				sig := "touched_swamp_does_not_reload"
				if strings.Contains(r.Variant, "/probe") {
					sig = "swamp_with_probed_key_does_not_reload"
				} else if strings.Contains(r.Req, "nil-element") {
					sig = "swamp_contents_lost_after_recovered_panic_on_nil_element"
				} else if strings.Contains(r.Note, "Swamp does not exist") {
					sig = "swamp_file_never_written_records_lost_at_shutdown"
				}
				idx := run.Add("(VC None (SH NOk false KOk false false false false false false) false 0%Z 0%Z false 0%Z 0%Z false false false)", map[string]interface{}{"swamp": r.Variant, "last_request_on_it": r.Req, "reload": r.Note, "hang": r.Hang, "panics": r.Panics}, true)
				run.Violate(idx, "never corrupts stored data", sig, fmt.Sprintf("swamp %s (touched by: %s) after restart: %s (hang=%v panics=%d)", r.Variant, r.Req, r.Note, r.Hang, r.Panics))
			}
		}
	}
	run.Meta.Traces = len(order)
	run.Finish("check_all")
}
