// c19: correspondence check for change events (swamp.go emission, hydra.go subscription window,
// gateway.go SubscribeToEvents) against Swamp/Events.v.
//
// A case works on one swamp of the in-process engine.  Subscribers are fake server streams
// handed to the real Gateway.SubscribeToEvents; they record every SendMsg (message, wall clock,
// global sequence numbers at entry and exit, so that overlapping sends on one stream are seen).
// A case is a list of phases; between phases subscribers come and go (quiescent points, so the
// window of every subscriber is exact); within a phase 1..8 writers run concurrently, each on
// keys it owns in that phase (Set incl. no-op saves, Delete, ShiftByKeys, IncrementInt64).  The
// commit log is reconstructed from the responses (per key exact: one owner per key and phase).
package main

import (
	"context"
	"fmt"
	"os"
	"runtime"
	"sort"
	"strconv"
	"sync"
	"sync/atomic"
	"time"

	"github.com/hydraide/hydraide/app/core/hydra"
	"github.com/hydraide/hydraide/app/verifhook"
	hydrapb "github.com/hydraide/hydraide/sdk/go/hydraidego/v3/hydraidepbgo"
	"google.golang.org/grpc/metadata"
	"google.golang.org/protobuf/types/known/timestamppb"
	"verif/harness/common"
	"verif/harness/rig"
)

// ---- fake subscriber stream -----------------------------------------------------------------

type omsg struct {
	Key    int    `json:"key"`
	Status string `json:"status"`
	Val    int64  `json:"val"`
	Secs   int64  `json:"secs"`
	Nanos  int64  `json:"nanos"`
	Wall   int64  `json:"wall"`
	Start  uint64 `json:"start"`
	End    uint64 `json:"end"`
}

type fakeStream struct {
	ctx      context.Context
	cancel   context.CancelFunc
	done     chan struct{}
	seq      uint64
	inflight int32
	overlaps int32
	mu       sync.Mutex
	msgs     []omsg
}

func (f *fakeStream) Context() context.Context     { return f.ctx }
func (f *fakeStream) SetHeader(metadata.MD) error  { return nil }
func (f *fakeStream) SendHeader(metadata.MD) error { return nil }
func (f *fakeStream) SetTrailer(metadata.MD)       {}
func (f *fakeStream) RecvMsg(any) error            { return nil }
func (f *fakeStream) Send(m *hydrapb.SubscribeToEventsResponse) error {
	return f.SendMsg(m)
}

const noVal = int64(-999999)

func keyID(s string) int {
	if len(s) > 1 && s[0] == 'k' {
		if n, err := strconv.Atoi(s[1:]); err == nil {
			return n
		}
	}
	return 9999
}

func tval(t *hydrapb.Treasure) int64 {
	if t == nil || t.Int64Val == nil {
		return noVal
	}
	return *t.Int64Val
}

func (f *fakeStream) SendMsg(m any) error {
	if atomic.AddInt32(&f.inflight, 1) > 1 {
		atomic.AddInt32(&f.overlaps, 1)
	}
	start := atomic.AddUint64(&f.seq, 1)
	wall := time.Now().UnixNano()
	// a real stream write takes a little while; give another writer the chance to arrive
	runtime.Gosched()
	time.Sleep(30 * time.Microsecond)
	r, ok := m.(*hydrapb.SubscribeToEventsResponse)
	o := omsg{Wall: wall, Start: start, Key: 9999, Status: "?", Val: noVal}
	if ok {
		o.Status = r.GetStatus().String()
		switch r.GetStatus() {
		case hydrapb.Status_DELETED:
			o.Key, o.Val = keyID(r.GetDeletedTreasure().GetKey()), tval(r.GetDeletedTreasure())
		default:
			o.Key, o.Val = keyID(r.GetTreasure().GetKey()), tval(r.GetTreasure())
		}
		o.Secs, o.Nanos = r.GetEventTime().GetSeconds(), int64(r.GetEventTime().GetNanos())
	}
	o.End = atomic.AddUint64(&f.seq, 1)
	f.mu.Lock()
	f.msgs = append(f.msgs, o)
	f.mu.Unlock()
	atomic.AddInt32(&f.inflight, -1)
	return nil
}

// ---- case description ------------------------------------------------------------------------

type wop struct {
	Kind   string `json:"kind"` // set | delete | shift | incr
	Key    int    `json:"key"`
	Req    int64  `json:"req"`
	Noop   bool   `json:"noop,omitempty"` // set: write the value the key already has
	Status string `json:"status"`         // reported by the engine
	Val    int64  `json:"val"`            // value after the op / removed value
	Batch  int    `json:"batch,omitempty"` // consecutive sets with the same non-zero id go into ONE Set request
	Meta   int    `json:"meta,omitempty"`  // client-supplied metadata sent with the write (bits: 1 CreatedAt, 2 UpdatedAt past, 4 UpdatedAt future, 8 ExpiredAt, 16 CreatedBy, 32 UpdatedBy; incr: server-side SetIfExist/SetIfNotExist)
}

type phase struct {
	Pre     string  `json:"pre,omitempty"`   // "destroy": gateway Destroy first; "idle": wait for the idle close first
	Sub     []int   `json:"sub,omitempty"`   // subscribers that subscribe before the phase
	Unsub   []int   `json:"unsub,omitempty"` // ... unsubscribe before the phase
	Churn   bool    `json:"concurrent_churn,omitempty"` // the subscribes/unsubscribes run concurrently with each other
	Shared  []int   `json:"shared_keys,omitempty"`      // all writers set unique values on these keys (same-key concurrency)
	Writers [][]wop `json:"writers"`
}

type ccase struct {
	Kind    string  `json:"kind"`
	NSubs   int     `json:"nsubs"`
	NKeys   int     `json:"nkeys"`
	Pattern string  `json:"pattern"` // c19p: write interval 1 s; c19w: write-through (0); c19m: in-memory; c19i: idle close 1 s
	Noops   bool    `json:"noop_saves"`
	Meta    bool    `json:"client_metadata"` // writes carry CreatedAt/UpdatedAt/ExpiredAt/CreatedBy/UpdatedBy that are not "now"
	SummonRace string `json:"summon_race,omitempty"` // hook-driven schedule: a summon of the swamp (not in memory) is held at this site while a client subscribes
	StopRace bool   `json:"stop_race,omitempty"` // hook-driven schedule: an unsubscribe is held at StopSendingEvents while another client subscribes
	Phases  []phase `json:"phases"`
	history []string
	anchor  bool
	lost    string // a subscription that was accepted but is not registered (case abandoned)
	recv    [][]omsg
	overlap int
	errs    []string
}

func genCase(r *common.Rng, corpusKind int) *ccase {
	c := &ccase{Kind: "random", NSubs: 1 + r.Intn(3), NKeys: 2 + r.Intn(7), Noops: r.Chance(25)}
	switch x := r.Intn(100); {
	case x < 35:
		c.Pattern = "c19w"
	case x < 60:
		c.Pattern = "c19p"
	case x < 95:
		c.Pattern = "c19m"
	default:
		c.Pattern = "c19i"
	}
	c.Meta = r.Chance(40)
	meta := func() int {
		if !c.Meta || !r.Chance(50) {
			return 0
		}
		return 1 + r.Intn(63)
	}
	np := 2 + r.Intn(5)
	subscribed := make([]bool, c.NSubs)
	uniq := int64(100000)
	batch := 0
	idles := 0
	for p := 0; p < np; p++ {
		var ph phase
		if p > 0 && r.Chance(8) {
			ph.Pre = "destroy"
		} else if p > 0 && c.Pattern == "c19i" && idles < 1 && r.Chance(50) {
			ph.Pre = "idle"
			idles++
		}
		for s := 0; s < c.NSubs; s++ {
			if !subscribed[s] && (p == 0 && r.Chance(70) || p > 0 && r.Chance(50)) {
				ph.Sub = append(ph.Sub, s)
				subscribed[s] = true
			} else if subscribed[s] && r.Chance(25) {
				ph.Unsub = append(ph.Unsub, s)
				subscribed[s] = false
			}
		}
		ph.Churn = r.Chance(50)
		nw := 1
		if r.Chance(70) {
			nw = 1 + r.Intn(8)
		}
		if r.Chance(30) {
			// same-key concurrency: every writer sets fresh values on the shared keys
			if nw < 2 {
				nw = 2 + r.Intn(4)
			}
			ph.Shared = []int{r.Intn(c.NKeys)}
			if c.NKeys > 1 && r.Chance(30) {
				ph.Shared = append(ph.Shared, (ph.Shared[0]+1)%c.NKeys)
			}
			ph.Writers = make([][]wop, nw)
			for w := 0; w < nw; w++ {
				n := 1 + r.Intn(5)
				for j := 0; j < n; j++ {
					uniq += 1000 // far apart: increments of a winning value never collide with a later unique value
					ph.Writers[w] = append(ph.Writers[w], wop{Kind: "set", Key: ph.Shared[r.Intn(len(ph.Shared))], Req: uniq, Meta: meta()})
				}
			}
			c.Phases = append(c.Phases, ph)
			continue
		}
		if nw > c.NKeys {
			nw = c.NKeys
		}
		ph.Writers = make([][]wop, nw)
		for w := 0; w < nw; w++ {
			// keys owned by writer w in this phase: k mod nw == w
			var own []int
			for k := 0; k < c.NKeys; k++ {
				if k%nw == w {
					own = append(own, k)
				}
			}
			n := 1 + r.Intn(6)
			for j := 0; j < n; j++ {
				o := wop{Key: own[r.Intn(len(own))]}
				x := r.Intn(100)
				switch {
				case x < 45:
					o.Kind, o.Req = "set", int64(r.Intn(1000))
					o.Noop = c.Noops && r.Chance(35)
					o.Meta = meta()
				case x < 55:
					// one Set request with several key/value pairs (a key may occur twice)
					batch++
					m := 2 + r.Intn(3)
					for i := 0; i < m; i++ {
						ph.Writers[w] = append(ph.Writers[w], wop{Kind: "set", Key: own[r.Intn(len(own))], Req: int64(r.Intn(1000)), Batch: batch, Meta: meta()})
					}
					continue
				case x < 70:
					o.Kind = "delete"
				case x < 82:
					o.Kind = "shift"
				default:
					o.Kind, o.Req = "incr", int64(1+r.Intn(9))
					o.Meta = meta()
				}
				ph.Writers[w] = append(ph.Writers[w], o)
			}
		}
		c.Phases = append(c.Phases, ph)
	}
	return c
}

func corpus() []*ccase {
	set := func(k int, v int64) wop { return wop{Kind: "set", Key: k, Req: v} }
	noop := func(k int) wop { return wop{Kind: "set", Key: k, Noop: true} }
	seq := func(k int, from, n int64) []wop {
		var l []wop
		for i := int64(0); i < n; i++ {
			l = append(l, set(k, from+i))
		}
		return l
	}
	cs := []*ccase{
		// the witness of one_event_per_change_refuted_sticky: subscribe; set k 1; set k 1
		{Kind: "corpus-noop", Pattern: "c19p", NSubs: 1, NKeys: 1, Noops: true, Phases: []phase{
			{Sub: []int{0}, Writers: [][]wop{{set(0, 1), noop(0)}}}}},
		// the witness of sends_not_concurrent_refuted_without_mutex: two writers, two keys, many events
		{Kind: "corpus-two-writers", Pattern: "c19p", NSubs: 1, NKeys: 2, Phases: []phase{
			{Sub: []int{0}, Writers: [][]wop{seq(0, 1, 8), seq(1, 1, 8)}}}},
		// window: events only while subscribed; swamp emptied and re-created in between
		{Kind: "corpus-window", Pattern: "c19p", NSubs: 1, NKeys: 2, Phases: []phase{
			{Writers: [][]wop{{set(0, 1)}}},
			{Sub: []int{0}, Writers: [][]wop{{set(0, 2), {Kind: "delete", Key: 0}, set(1, 5), {Kind: "shift", Key: 1}, set(0, 9)}}},
			{Unsub: []int{0}, Writers: [][]wop{{set(0, 3)}}},
			{Sub: []int{0}, Writers: [][]wop{{{Kind: "incr", Key: 0, Req: 4}, {Kind: "incr", Key: 1, Req: 2}}}}}},
	}
	// same-key concurrency on every kind of swamp (write-through releases the guard early)
	for _, pat := range []string{"c19w", "c19w", "c19p", "c19m"} {
		cs = append(cs, &ccase{Kind: "corpus-same-key", Pattern: pat, NSubs: 1, NKeys: 1, Phases: []phase{
			{Sub: []int{0}, Shared: []int{0}, Writers: [][]wop{seq(0, 1000, 6), seq(0, 2000, 6), seq(0, 3000, 6)}},
			{Writers: [][]wop{{{Kind: "delete", Key: 0}}}},
			{Shared: []int{0}, Writers: [][]wop{seq(0, 4000, 5), seq(0, 5000, 5)}}}})
	}
	// hook-driven schedules around StopSendingEvents (run one at a time)
	for i := 0; i < 4; i++ {
		cs = append(cs, &ccase{Kind: "corpus-stop-race", Pattern: []string{"c19p", "c19m", "c19w", "c19p"}[i], NSubs: 3, NKeys: 2, StopRace: true})
	}
	// hook-driven schedules: a client subscribes while another request is summoning the swamp
	for _, site := range []string{"summon.create", "summon.store", "summon.stored", "summon.create"} {
		cs = append(cs, &ccase{Kind: "corpus-summon-race", Pattern: "c19i", NSubs: 1, NKeys: 2, SummonRace: site})
	}
	return cs
}

// ---- execution ----------------------------------------------------------------------------------

const island = 1

func kname(k int) string { return "k" + strconv.Itoa(k) }

type runner struct {
	srv     *rig.Server
	c       *ccase
	swamp   string
	streams []*fakeStream
	all     [][]omsg
	cur     map[int]int64
	has     map[int]bool
	mu      sync.Mutex // protects cur/has
	nsubbed int
	everSub bool
}

func (r *runner) errf(f string, a ...any) { r.c.errs = append(r.c.errs, fmt.Sprintf(f, a...)) }

// wait until n callbacks are registered and, if the swamp is in memory, it is sending events
// (SubscribeToSwampEvents activates a loaded swamp in a deferred call after registering)
func (r *runner) settleWithin(n int, d time.Duration) bool {
	hy, sname := r.srv.Zeus.GetHydra(), rig.Name(r.swamp)
	dl := time.Now().Add(d)
	for hydra.VerifEventSubscriberCount(hy, sname) != n {
		if time.Now().After(dl) {
			return false
		}
		time.Sleep(50 * time.Microsecond)
	}
	return true
}

func (r *runner) settle(n int) {
	if !r.settleWithin(n, 30*time.Second) {
		r.errf("subscriber count did not reach %d", n)
	}
}

func (r *runner) settleActive() { r.settleActiveWithin(30 * time.Second) }

func (r *runner) settleActiveWithin(d time.Duration) {
	hy, sname := r.srv.Zeus.GetHydra(), rig.Name(r.swamp)
	dl := time.Now().Add(d)
	for {
		loaded, active := hydra.VerifEventSendingState(hy, sname)
		if !loaded || active {
			return
		}
		if time.Now().After(dl) {
			return // reported by the oracle as missing events, with the history as the replay
		}
		time.Sleep(50 * time.Microsecond)
	}
}

func (r *runner) startSub(s int) {
	fctx, cancel := context.WithCancel(context.Background())
	f := &fakeStream{ctx: fctx, cancel: cancel, done: make(chan struct{})}
	if len(r.all[s]) > 0 { // sequence numbers of successive streams of one subscriber keep increasing
		f.seq = r.all[s][len(r.all[s])-1].End + 1
	}
	r.streams[s] = f
	go func() {
		_ = r.srv.GW.SubscribeToEvents(&hydrapb.SubscribeToEventsRequest{IslandID: island, SwampName: r.swamp}, f)
		close(f.done)
	}()
}

func (r *runner) stopSub(s int) {
	f := r.streams[s]
	f.cancel()
	<-f.done
	r.all[s] = append(r.all[s], f.msgs...)
	r.c.overlap += int(atomic.LoadInt32(&f.overlaps))
	r.streams[s] = nil
}

func (r *runner) churn(ph phase) {
	if ph.Churn && len(ph.Sub)+len(ph.Unsub) > 1 {
		var wg sync.WaitGroup
		for _, s := range ph.Unsub {
			wg.Add(1)
			go func(s int) { defer wg.Done(); r.stopSub(s) }(s)
		}
		for _, s := range ph.Sub {
			r.startSub(s)
		}
		wg.Wait()
		r.nsubbed += len(ph.Sub) - len(ph.Unsub)
		if !r.everSub && len(ph.Sub) > 1 {
			// several clients subscribe at the same time to a swamp nobody subscribed to before:
			// every accepted SubscribeToEvents must end up registered
			if !r.settleWithin(r.nsubbed, 3*time.Second) {
				r.c.lost = fmt.Sprintf("%d clients subscribed concurrently as the first subscribers of the swamp; only %d callbacks are registered",
					len(ph.Sub), hydra.VerifEventSubscriberCount(r.srv.Zeus.GetHydra(), rig.Name(r.swamp)))
			}
		} else {
			r.settle(r.nsubbed)
		}
	} else {
		for _, s := range ph.Unsub {
			r.stopSub(s)
			r.nsubbed--
			r.settle(r.nsubbed)
		}
		for _, s := range ph.Sub {
			r.startSub(s)
			r.nsubbed++
			r.settle(r.nsubbed)
		}
	}
	if len(ph.Sub) > 0 {
		r.everSub = true
	}
	if r.nsubbed > 0 && len(ph.Sub) > 0 {
		r.settleActive()
	}
	for _, s := range ph.Unsub {
		r.c.history = append(r.c.history, fmt.Sprintf("CUnsub %d", s))
	}
	for _, s := range ph.Sub {
		r.c.history = append(r.c.history, fmt.Sprintf("CSub %d", s))
	}
}

// key/value pair of a set, with the client-supplied metadata of the operation: instants that are
// NOT the time of the write (imports with historical times, skewed client clocks)
func kvp(o *wop) *hydrapb.KeyValuePair {
	v := o.Req
	kv := &hydrapb.KeyValuePair{Key: kname(o.Key), Int64Val: &v}
	day := int64(86400)
	if o.Meta&1 != 0 {
		kv.CreatedAt = timestamppb.New(time.Unix(1546300800+day*(o.Req%300), 7)) // 2019
	}
	if o.Meta&2 != 0 {
		kv.UpdatedAt = timestamppb.New(time.Unix(1577836800+day*(o.Req%300), 11)) // 2020
	}
	if o.Meta&4 != 0 {
		kv.UpdatedAt = timestamppb.New(time.Unix(1924992000+day*(o.Req%300), 13)) // 2031
	}
	if o.Meta&8 != 0 {
		kv.ExpiredAt = timestamppb.New(time.Unix(1956528000+day*(o.Req%300), 0)) // 2032
	}
	if o.Meta&16 != 0 {
		by := fmt.Sprintf("creator%d", o.Req%3)
		kv.CreatedBy = &by
	}
	if o.Meta&32 != 0 {
		by := fmt.Sprintf("updater%d", o.Req%3)
		kv.UpdatedBy = &by
	}
	return kv
}

func (r *runner) setReq(kvs []*hydrapb.KeyValuePair) ([]string, bool) {
	resp, err := r.srv.GW.Set(context.Background(), &hydrapb.SetRequest{Swamps: []*hydrapb.SwampRequest{{
		IslandID: island, SwampName: r.swamp, CreateIfNotExist: true, Overwrite: true, KeyValues: kvs}}})
	if err != nil || len(resp.GetSwamps()) != 1 || len(resp.GetSwamps()[0].GetKeysAndStatuses()) != len(kvs) {
		return nil, false
	}
	out := make([]string, len(kvs))
	for i, ks := range resp.GetSwamps()[0].GetKeysAndStatuses() {
		out[i] = ks.GetStatus().String()
	}
	return out, true
}

func (r *runner) get(k int) (bool, int64) {
	r.mu.Lock()
	defer r.mu.Unlock()
	return r.has[k], r.cur[k]
}
func (r *runner) put(k int, ex bool, v int64) {
	r.mu.Lock()
	r.has[k], r.cur[k] = ex, v
	r.mu.Unlock()
}

// one writer: its operations in program order
func (r *runner) write(ops []wop, shared bool) {
	ctx := context.Background()
	for j := 0; j < len(ops); j++ {
		o := &ops[j]
		ex, cv := r.get(o.Key)
		switch o.Kind {
		case "set":
			if o.Batch != 0 {
				// the whole batch in one request; values differ from what the key holds then
				end := j
				for end < len(ops) && ops[end].Batch == o.Batch {
					end++
				}
				sim := map[int]int64{}
				simHas := map[int]bool{}
				var kvs []*hydrapb.KeyValuePair
				for i := j; i < end; i++ {
					b := &ops[i]
					e, v := r.get(b.Key)
					if sh, ok := simHas[b.Key]; ok {
						e, v = sh, sim[b.Key]
					}
					if e && b.Req == v {
						b.Req = v + 1
					}
					sim[b.Key], simHas[b.Key] = b.Req, true
					kvs = append(kvs, kvp(b))
				}
				st, ok := r.setReq(kvs)
				for i := j; i < end; i++ {
					if !ok {
						ops[i].Status = "ERROR"
						continue
					}
					ops[i].Status, ops[i].Val = st[i-j], ops[i].Req
					r.put(ops[i].Key, true, ops[i].Req)
				}
				j = end - 1
				continue
			}
			if !shared {
				if o.Noop && ex {
					o.Req = cv
				} else {
					o.Noop = false
					if ex && o.Req == cv {
						o.Req = cv + 1
					}
				}
			}
			if o.Noop {
				o.Meta = 0 // a save that changes nothing sends the value only
			}
			v := o.Req
			st, ok := r.setReq([]*hydrapb.KeyValuePair{kvp(o)})
			if !ok {
				o.Status = "ERROR"
				continue
			}
			o.Status, o.Val = st[0], v
			if !shared {
				r.put(o.Key, true, v)
			}
		case "delete":
			resp, err := r.srv.GW.Delete(ctx, &hydrapb.DeleteRequest{Swamps: []*hydrapb.DeleteRequest_SwampKeys{{
				IslandID: island, SwampName: r.swamp, Keys: []string{kname(o.Key)}}}})
			if err != nil || len(resp.GetResponses()) != 1 {
				o.Status = "ERROR"
				continue
			}
			r0 := resp.GetResponses()[0]
			if r0.ErrorCode != nil || len(r0.GetKeyStatuses()) != 1 {
				o.Status = "NOT_FOUND" // swamp does not exist
			} else {
				o.Status = r0.GetKeyStatuses()[0].GetStatus().String()
			}
			if o.Status == "DELETED" {
				o.Val = cv
				r.put(o.Key, false, 0)
			}
		case "shift":
			resp, err := r.srv.GW.ShiftByKeys(ctx, &hydrapb.ShiftByKeysRequest{IslandID: island, SwampName: r.swamp, Keys: []string{kname(o.Key)}})
			if err != nil { // the swamp does not exist
				o.Status = "NOT_FOUND"
				continue
			}
			if len(resp.GetTreasures()) == 1 {
				o.Status, o.Val = "DELETED", tval(resp.GetTreasures()[0])
				r.put(o.Key, false, 0)
			} else {
				o.Status = "NOT_FOUND"
			}
		case "incr":
			req := &hydrapb.IncrementInt64Request{IslandID: island, SwampName: r.swamp, Key: kname(o.Key), IncrementBy: o.Req}
			if o.Meta != 0 {
				yes, by := true, "incr"
				req.SetIfNotExist = &hydrapb.IncrementRequestMetadata{CreatedAt: &yes, CreatedBy: &by}
				req.SetIfExist = &hydrapb.IncrementRequestMetadata{UpdatedAt: &yes, UpdatedBy: &by}
				if o.Meta&8 != 0 {
					req.SetIfExist.ExpiredAt = timestamppb.New(time.Unix(1956528000, 0))
				}
			}
			resp, err := r.srv.GW.IncrementInt64(ctx, req)
			if err != nil || !resp.GetIsIncremented() {
				o.Status = "ERROR"
				continue
			}
			if ex {
				o.Status = "UPDATED"
			} else {
				o.Status = "NEW"
			}
			o.Val = resp.GetValue()
			r.put(o.Key, true, o.Val)
		}
	}
}

func (r *runner) runWriters(ph *phase) {
	var wg sync.WaitGroup
	for w := range ph.Writers {
		wg.Add(1)
		go func(ops []wop) { defer wg.Done(); r.write(ops, len(ph.Shared) > 0) }(ph.Writers[w])
	}
	wg.Wait()
	var ws []string
	for _, ops := range ph.Writers {
		var l []string
		for _, o := range ops {
			if o.Status == "ERROR" {
				r.errf("%s k%d failed", o.Kind, o.Key)
				continue
			}
			l = append(l, wopTerm(o))
		}
		ws = append(ws, common.List(l))
	}
	r.c.history = append(r.c.history, "CPar "+common.List(ws))
	// after same-key concurrency only the engine knows which value won: read it
	for _, k := range ph.Shared {
		resp, err := r.srv.GW.Get(context.Background(), &hydrapb.GetRequest{Swamps: []*hydrapb.GetSwamp{{
			IslandID: island, SwampName: r.swamp, Keys: []string{kname(k)}}}})
		if err != nil || len(resp.GetSwamps()) != 1 || len(resp.GetSwamps()[0].GetTreasures()) != 1 {
			r.errf("read of shared key k%d failed", k)
			continue
		}
		if !resp.GetSwamps()[0].GetTreasures()[0].GetIsExist() {
			continue // nobody wrote it in this phase; what the harness knew before still holds
		}
		v := tval(resp.GetSwamps()[0].GetTreasures()[0])
		r.put(k, true, v)
		r.c.history = append(r.c.history, fmt.Sprintf("CSync %d %s", k, common.Z(v)))
	}
	live := 0
	for _, e := range r.has {
		if e {
			live++
		}
	}
	if live == 0 { // an emptied swamp is destroyed; the next write summons a new object
		r.c.history = append(r.c.history, "CUnload")
	}
}

func newRunner(srv *rig.Server, ci int, c *ccase) *runner {
	return &runner{srv: srv, c: c, swamp: fmt.Sprintf("%s/case%d/s", c.Pattern, ci),
		streams: make([]*fakeStream, c.NSubs), all: make([][]omsg, c.NSubs), cur: map[int]int64{}, has: map[int]bool{}}
}

func (r *runner) finish() {
	for s := range r.streams {
		if r.streams[s] != nil {
			r.stopSub(s)
			r.c.history = append(r.c.history, fmt.Sprintf("CUnsub %d", s))
		}
	}
	for s := range r.all {
		sort.Slice(r.all[s], func(i, j int) bool { return r.all[s][i].Start < r.all[s][j].Start })
	}
	r.c.recv = r.all
	_, _ = r.srv.GW.Destroy(context.Background(), &hydrapb.DestroyRequest{IslandID: island, SwampName: r.swamp})
}

func runCase(srv *rig.Server, ci int, c *ccase) {
	r := newRunner(srv, ci, c)
	ctx := context.Background()
	// with concurrent writers keep one untouched record in the swamp, so that it is never
	// auto-destroyed while other writers are inside it (that race belongs to C16)
	anchor := func() {
		o := wop{Kind: "set", Key: c.NKeys, Req: 0}
		v := int64(0)
		st, ok := r.setReq([]*hydrapb.KeyValuePair{{Key: kname(o.Key), Int64Val: &v}})
		if !ok {
			r.errf("anchor set failed")
			return
		}
		o.Status = st[0]
		r.has[o.Key] = true
		c.anchor = true
		c.history = append(c.history, "CPar "+common.List([]string{common.List([]string{wopTerm(o)})}))
	}
	needAnchor := false
	for _, ph := range c.Phases {
		if len(ph.Writers) > 1 {
			needAnchor = true
		}
	}
	if needAnchor {
		anchor()
	}
	for i := range c.Phases {
		ph := &c.Phases[i]
		switch ph.Pre {
		case "destroy":
			_, _ = srv.GW.Destroy(ctx, &hydrapb.DestroyRequest{IslandID: island, SwampName: r.swamp})
			r.cur, r.has = map[int]int64{}, map[int]bool{}
			c.history = append(c.history, "CDestroy")
			if needAnchor {
				anchor()
			}
		case "idle":
			time.Sleep(3300 * time.Millisecond) // CloseAfterIdle 1 s + 1 s gap, checked every second
			c.history = append(c.history, "CUnload")
		}
		if ph.Pre == "idle" && len(ph.Sub) > 0 {
			// the swamp is (most likely) out of memory: let a read summon it while the clients subscribe
			summoned := make(chan struct{})
			go func() {
				_, _ = srv.GW.Get(ctx, &hydrapb.GetRequest{Swamps: []*hydrapb.GetSwamp{{
					IslandID: island, SwampName: r.swamp, Keys: []string{kname(0)}}}})
				close(summoned)
			}()
			r.churn(*ph)
			<-summoned
			r.settleActiveWithin(2 * time.Second)
		} else {
			r.churn(*ph)
		}
		if c.lost != "" {
			c.Phases = c.Phases[:i+1]
			for w := range ph.Writers {
				ph.Writers[w] = nil
			}
			break
		}
		r.runWriters(ph)
	}
	r.finish()
	if c.lost != "" { // nothing further can be judged: the Go-side oracle reports the lost subscription
		c.history = nil
		for s := range c.recv {
			c.recv[s] = nil
		}
	}
}

// hook-driven schedules: the swamp exists on disk but is not in memory (idle close).  A read
// summons it and is held at a point inside SummonSwamp while client 0 subscribes completely; then
// the summon continues.  Every later change must reach the client, whichever side saw the other.
func runSummonRaces(srv *rig.Server, cases []*ccase) {
	var rs []*runner
	var cs []*ccase
	set := func(k int, v int64) wop { return wop{Kind: "set", Key: k, Req: v} }
	for i, c := range cases {
		if c.SummonRace == "" {
			continue
		}
		r := newRunner(srv, i, c)
		ph := phase{Writers: [][]wop{{set(0, 1), set(1, 2)}}}
		r.runWriters(&ph)
		c.Phases = append(c.Phases, ph)
		rs, cs = append(rs, r), append(cs, c)
	}
	if len(rs) == 0 {
		return
	}
	hy := srv.Zeus.GetHydra()
	dl := time.Now().Add(12 * time.Second) // idle close: 1 s + 1 s gap, checked every second
	for _, r := range rs {
		for {
			loaded, _ := hydra.VerifEventSendingState(hy, rig.Name(r.swamp))
			if !loaded || time.Now().After(dl) {
				break
			}
			time.Sleep(20 * time.Millisecond)
		}
	}
	for x, r := range rs {
		c := cs[x]
		if loaded, _ := hydra.VerifEventSendingState(hy, rig.Name(r.swamp)); loaded {
			c.Kind += "-not-evicted" // the schedule degenerates to the sequential one
		}
		c.history = append(c.history, "CUnload")
		reached := make(chan struct{}, 1)
		release := make(chan struct{})
		var once sync.Once
		site := c.SummonRace
		verifhook.Install(func(at string, _ int64, _ []int64) {
			if at == site {
				hold := false
				once.Do(func() { hold = true })
				if hold {
					reached <- struct{}{}
					<-release
				}
			}
		})
		done := make(chan struct{})
		go func() {
			_, _ = srv.GW.Get(context.Background(), &hydrapb.GetRequest{Swamps: []*hydrapb.GetSwamp{{
				IslandID: island, SwampName: r.swamp, Keys: []string{kname(0)}}}})
			close(done)
		}()
		select {
		case <-reached:
			c.Kind += "-held"
		case <-done:
		case <-time.After(5 * time.Second):
			r.errf("summon neither finished nor reached %s", site)
		}
		r.startSub(0)
		r.nsubbed++
		r.settle(r.nsubbed)
		r.settleActiveWithin(time.Second)
		c.history = append(c.history, "CSub 0")
		close(release)
		<-done
		verifhook.Install(nil)
		r.settleActiveWithin(2 * time.Second)
		ph := phase{Writers: [][]wop{{set(0, 3), set(1, 4), {Kind: "delete", Key: 0}, set(0, 8)}}}
		r.runWriters(&ph)
		c.Phases = append(c.Phases, ph)
		r.finish()
	}
}

// hook-driven schedule: client 0 unsubscribes; if its unsubscribe reaches StopSendingEvents it is
// held there while client 1 subscribes completely, then released; then writes.  (On a tree that
// never stops sending events the hook is not reached and the schedule is the sequential one.)
func runStopRace(srv *rig.Server, ci int, c *ccase) {
	r := newRunner(srv, ci, c)
	w := func(ops ...wop) { ph := phase{Writers: [][]wop{ops}}; r.runWriters(&ph); c.Phases = append(c.Phases, ph) }
	set := func(k int, v int64) wop { return wop{Kind: "set", Key: k, Req: v} }
	w(set(0, 1))
	other := ci%2 == 0 // a third client that stays subscribed all the time: nobody may stop then
	if other {
		r.churn(phase{Sub: []int{2}})
	}
	r.churn(phase{Sub: []int{0}})
	w(set(0, 2))
	reached := make(chan struct{}, 1)
	release := make(chan struct{})
	var once sync.Once
	verifhook.Install(func(site string, _ int64, _ []int64) {
		if site == "swamp.stopSendingEvents" {
			hold := false
			once.Do(func() { hold = true })
			if hold {
				reached <- struct{}{}
				<-release
			}
		}
	})
	done := make(chan struct{})
	go func() { r.stopSub(0); close(done) }()
	held := false
	select {
	case <-reached:
		held = true
	case <-done:
	case <-time.After(5 * time.Second):
		r.errf("unsubscribe neither finished nor reached StopSendingEvents")
	}
	r.nsubbed--
	c.history = append(c.history, "CUnsub 0")
	r.startSub(1)
	r.nsubbed++
	r.settle(r.nsubbed)
	r.settleActive()
	c.history = append(c.history, "CSub 1")
	close(release)
	<-done
	verifhook.Install(nil)
	if held {
		c.Kind += "-held"
	}
	w(set(0, 3), set(1, 5), wop{Kind: "delete", Key: 0}, set(0, 7))
	r.finish()
}

func stTerm(s string) string {
	switch s {
	case "NEW":
		return "StNew"
	case "UPDATED":
		return "StModified"
	case "NOTHING_CHANGED":
		return "StSame"
	case "DELETED":
		return "StDeleted"
	}
	return "StNotFound"
}

func pbTerm(s string) string {
	switch s {
	case "NEW":
		return "PbNew"
	case "UPDATED":
		return "PbUpdated"
	case "NOTHING_CHANGED":
		return "PbNothingChanged"
	case "DELETED":
		return "PbDeleted"
	}
	return "PbNotFound"
}

func wopTerm(o wop) string {
	kind := map[string]string{"set": "WSet", "delete": "WDelete", "shift": "WShift", "incr": "WIncr"}[o.Kind]
	return fmt.Sprintf("{| w_kind := %s; w_key := %d; w_req := %s; w_status := %s; w_val := %s |}",
		kind, o.Key, common.Z(o.Req), stTerm(o.Status), common.Z(o.Val))
}

func caseTerm(c *ccase) string {
	subs := make([]string, c.NSubs)
	recv := make([]string, c.NSubs)
	for s := 0; s < c.NSubs; s++ {
		subs[s] = strconv.Itoa(s)
		ms := make([]string, len(c.recv[s]))
		for i, m := range c.recv[s] {
			ms[i] = fmt.Sprintf("{| o_key := %d; o_status := %s; o_val := %s; o_secs := %s; o_nanos := %s; o_wall := %s; o_start := %d; o_end := %d |}",
				m.Key, pbTerm(m.Status), common.Z(m.Val), common.Z(m.Secs), common.Z(m.Nanos), common.Z(m.Wall), m.Start, m.End)
		}
		recv[s] = fmt.Sprintf("(%d, %s)", s, common.List(ms))
	}
	nk := c.NKeys
	if c.anchor {
		nk++
	}
	keys := make([]string, nk)
	for k := range keys {
		keys[k] = strconv.Itoa(k)
	}
	return fmt.Sprintf("{| c_hist := %s;\n     c_subs := %s; c_keys := %s;\n     c_recv := %s |}",
		common.List(c.history), common.List(subs), common.List(keys), common.List(recv))
}

func main() {
	args := common.ParseArgs()
	rig.Quiet()
	run := common.NewRun(args, "C19", "HV.Swamp.Events")
	run.Shard = 50
	run.Meta.Rule = "non-trivial: at least one subscriber received an event, and the history contains a write outside a subscription window, a no-op save, a delete/shift, or two writers running concurrently"
	root, err := os.MkdirTemp("", "c19-")
	if err != nil {
		panic(err)
	}
	defer os.RemoveAll(root)
	srv := rig.Start(root, true)
	srv.Register("c19p/*/*", false, 3600, 1, 65536)
	srv.Register("c19w/*/*", false, 3600, 0, 65536) // write-through: SaveFunction releases the guard before writing
	srv.Register("c19i/*/*", false, 1, 1, 65536)    // idle close after 1 s
	srv.Register("c19m/*/*", true, 3600, 0, 0)

	rng := common.NewRng(args.Seed, "C19")
	n := 400
	if args.Tier == "thorough" {
		n = 4000
	}
	cases := corpus()
	for len(cases) < n {
		cases = append(cases, genCase(rng.Fork("case"), 0))
	}
	common.Parallel(len(cases), 8, func(i int) {
		if !cases[i].StopRace && cases[i].SummonRace == "" {
			runCase(srv, i, cases[i])
		}
	})
	runSummonRaces(srv, cases)
	for i, c := range cases { // the hook controller is process-wide: one at a time
		if c.StopRace {
			runStopRace(srv, i, c)
		}
	}
	for _, c := range cases {
		events, conc, dels, noops := 0, false, 0, 0
		for _, r := range c.recv {
			events += len(r)
		}
		for _, ph := range c.Phases {
			if len(ph.Writers) > 1 {
				conc = true
			}
			for _, ops := range ph.Writers {
				for _, o := range ops {
					run.Hist("op_" + o.Kind + "_" + o.Status)
					if o.Kind == "delete" || o.Kind == "shift" {
						dels++
					}
					if o.Noop {
						noops++
						run.Hist("noop_save_reported_" + o.Status)
					}
				}
			}
			run.Hist(fmt.Sprintf("writers_%d", len(ph.Writers)))
			if len(ph.Shared) > 0 {
				run.Hist("phase_same_key_concurrency")
			}
			if ph.Pre != "" {
				run.Hist("phase_pre_" + ph.Pre)
			}
			if ph.Churn && len(ph.Sub)+len(ph.Unsub) > 1 {
				run.Hist("phase_concurrent_churn")
			}
		}
		run.Hist("pattern_" + c.Pattern)
		run.HistN("events_received", events)
		run.HistN("overlapping_sendmsg_seen_by_stream", c.overlap)
		run.Hist("kind_" + c.Kind)
		nt := events > 0 && (conc || dels > 0 || noops > 0 || len(c.Phases) > 1)
		idx := run.Add(caseTerm(c), map[string]any{"case": c, "received": c.recv}, nt)
		for _, e := range c.errs {
			run.Violate(idx, "harness", "operation_failed", e)
		}
		if c.lost != "" {
			run.Hist("concurrent_first_subscribers_one_lost")
			run.Violate(idx, "a subscribed client receives the events of its window", "concurrent_first_subscribers_one_lost", c.lost)
		}
	}
	run.Meta.Traces = len(cases)
	srv.Stop()
	run.Finish("check_all")
}
