// c19: correspondence check for change events (swamp.go emission, hydra.go subscription window,
// gateway.go SubscribeToEvents) against Swamp/Events.v.
//
// A case works on one swamp of the in-process engine.  Subscribers are fake server streams
// handed to the real Gateway.SubscribeToEvents; they record every SendMsg (message, wall clock,
// global sequence numbers at entry and exit, so that overlapping sends on one stream are seen).
// A case is a list of phases; between phases subscribers come and go (quiescent points, so the
// window of every subscriber is exact); within a phase 1..8 writers run concurrently, each on
// keys it owns in that phase (Set incl. no-op saves, Delete, ShiftByKeys, IncrementInt64).  The
// commit log is reconstructed from the responses (per key exact: one owner per key and phase).
package main

import (
	"context"
	"fmt"
	"os"
	"runtime"
	"sort"
	"strconv"
	"sync"
	"sync/atomic"
	"time"

	"github.com/hydraide/hydraide/app/core/hydra"
	hydrapb "github.com/hydraide/hydraide/sdk/go/hydraidego/v3/hydraidepbgo"
	"google.golang.org/grpc/metadata"
	"verif/harness/common"
	"verif/harness/rig"
)

// ---- fake subscriber stream -----------------------------------------------------------------

type omsg struct {
	Key    int    `json:"key"`
	Status string `json:"status"`
	Val    int64  `json:"val"`
	Secs   int64  `json:"secs"`
	Nanos  int64  `json:"nanos"`
	Wall   int64  `json:"wall"`
	Start  uint64 `json:"start"`
	End    uint64 `json:"end"`
}

type fakeStream struct {
	ctx      context.Context
	cancel   context.CancelFunc
	done     chan struct{}
	seq      uint64
	inflight int32
	overlaps int32
	mu       sync.Mutex
	msgs     []omsg
}

func (f *fakeStream) Context() context.Context     { return f.ctx }
func (f *fakeStream) SetHeader(metadata.MD) error  { return nil }
func (f *fakeStream) SendHeader(metadata.MD) error { return nil }
func (f *fakeStream) SetTrailer(metadata.MD)       {}
func (f *fakeStream) RecvMsg(any) error            { return nil }
func (f *fakeStream) Send(m *hydrapb.SubscribeToEventsResponse) error {
	return f.SendMsg(m)
}

const noVal = int64(-999999)

func keyID(s string) int {
	if len(s) > 1 && s[0] == 'k' {
		if n, err := strconv.Atoi(s[1:]); err == nil {
			return n
		}
	}
	return 9999
}

func tval(t *hydrapb.Treasure) int64 {
	if t == nil || t.Int64Val == nil {
		return noVal
	}
	return *t.Int64Val
}

func (f *fakeStream) SendMsg(m any) error {
	if atomic.AddInt32(&f.inflight, 1) > 1 {
		atomic.AddInt32(&f.overlaps, 1)
	}
	start := atomic.AddUint64(&f.seq, 1)
	wall := time.Now().UnixNano()
	// a real stream write takes a little while; give another writer the chance to arrive
	runtime.Gosched()
	time.Sleep(30 * time.Microsecond)
	r, ok := m.(*hydrapb.SubscribeToEventsResponse)
	o := omsg{Wall: wall, Start: start, Key: 9999, Status: "?", Val: noVal}
	if ok {
		o.Status = r.GetStatus().String()
		switch r.GetStatus() {
		case hydrapb.Status_DELETED:
			o.Key, o.Val = keyID(r.GetDeletedTreasure().GetKey()), tval(r.GetDeletedTreasure())
		default:
			o.Key, o.Val = keyID(r.GetTreasure().GetKey()), tval(r.GetTreasure())
		}
		o.Secs, o.Nanos = r.GetEventTime().GetSeconds(), int64(r.GetEventTime().GetNanos())
	}
	o.End = atomic.AddUint64(&f.seq, 1)
	f.mu.Lock()
	f.msgs = append(f.msgs, o)
	f.mu.Unlock()
	atomic.AddInt32(&f.inflight, -1)
	return nil
}

// ---- case description ------------------------------------------------------------------------

type wop struct {
	Kind   string `json:"kind"` // set | delete | shift | incr
	Key    int    `json:"key"`
	Req    int64  `json:"req"`
	Noop   bool   `json:"noop,omitempty"` // set: write the value the key already has
	Status string `json:"status"`         // reported by the engine
	Val    int64  `json:"val"`            // value after the op / removed value
}

type phase struct {
	Sub     []int   `json:"sub,omitempty"`   // subscribers that subscribe before the phase
	Unsub   []int   `json:"unsub,omitempty"` // ... unsubscribe before the phase
	Writers [][]wop `json:"writers"`
}

type ccase struct {
	Kind    string  `json:"kind"`
	NSubs   int     `json:"nsubs"`
	NKeys   int     `json:"nkeys"`
	InMem   bool    `json:"in_memory"`
	Noops   bool    `json:"noop_saves"`
	Phases  []phase `json:"phases"`
	history []string
	recv    [][]omsg
	overlap int
	errs    []string
}

func genCase(r *common.Rng, corpusKind int) *ccase {
	c := &ccase{Kind: "random", NSubs: 1 + r.Intn(2), NKeys: 2 + r.Intn(7), InMem: r.Chance(30), Noops: r.Chance(25)}
	np := 2 + r.Intn(5)
	subscribed := make([]bool, c.NSubs)
	for p := 0; p < np; p++ {
		var ph phase
		for s := 0; s < c.NSubs; s++ {
			if !subscribed[s] && (p == 0 && r.Chance(70) || p > 0 && r.Chance(50)) {
				ph.Sub = append(ph.Sub, s)
				subscribed[s] = true
			} else if subscribed[s] && r.Chance(25) {
				ph.Unsub = append(ph.Unsub, s)
				subscribed[s] = false
			}
		}
		nw := 1
		if r.Chance(70) {
			nw = 1 + r.Intn(8)
		}
		if nw > c.NKeys {
			nw = c.NKeys
		}
		ph.Writers = make([][]wop, nw)
		for w := 0; w < nw; w++ {
			n := 1 + r.Intn(6)
			for j := 0; j < n; j++ {
				// keys owned by writer w in this phase: k mod nw == w
				var own []int
				for k := 0; k < c.NKeys; k++ {
					if k%nw == w {
						own = append(own, k)
					}
				}
				o := wop{Key: own[r.Intn(len(own))]}
				x := r.Intn(100)
				switch {
				case x < 55:
					o.Kind, o.Req = "set", int64(r.Intn(1000))
					o.Noop = c.Noops && r.Chance(35)
				case x < 70:
					o.Kind = "delete"
				case x < 82:
					o.Kind = "shift"
				default:
					o.Kind, o.Req = "incr", int64(1+r.Intn(9))
				}
				ph.Writers[w] = append(ph.Writers[w], o)
			}
		}
		c.Phases = append(c.Phases, ph)
	}
	return c
}

func corpus() []*ccase {
	set := func(k int, v int64) wop { return wop{Kind: "set", Key: k, Req: v} }
	noop := func(k int) wop { return wop{Kind: "set", Key: k, Noop: true} }
	return []*ccase{
		// the witness of one_event_per_change_refuted_sticky: subscribe; set k 1; set k 1
		{Kind: "corpus-noop", NSubs: 1, NKeys: 1, Noops: true, Phases: []phase{
			{Sub: []int{0}, Writers: [][]wop{{set(0, 1), noop(0)}}}}},
		// the witness of sends_not_concurrent_refuted_without_mutex: two writers, two keys, many events
		{Kind: "corpus-two-writers", NSubs: 1, NKeys: 2, Phases: []phase{
			{Sub: []int{0}, Writers: [][]wop{
				{set(0, 1), set(0, 2), set(0, 3), set(0, 4), set(0, 5), set(0, 6), set(0, 7), set(0, 8)},
				{set(1, 1), set(1, 2), set(1, 3), set(1, 4), set(1, 5), set(1, 6), set(1, 7), set(1, 8)}}}}},
		// window: events only while subscribed; swamp emptied and re-created in between
		{Kind: "corpus-window", NSubs: 1, NKeys: 2, Phases: []phase{
			{Writers: [][]wop{{set(0, 1)}}},
			{Sub: []int{0}, Writers: [][]wop{{set(0, 2), {Kind: "delete", Key: 0}, set(1, 5), {Kind: "shift", Key: 1}, set(0, 9)}}},
			{Unsub: []int{0}, Writers: [][]wop{{set(0, 3)}}},
			{Sub: []int{0}, Writers: [][]wop{{{Kind: "incr", Key: 0, Req: 4}, {Kind: "incr", Key: 1, Req: 2}}}}}},
	}
}

// ---- execution ----------------------------------------------------------------------------------

const island = 1

func kname(k int) string { return "k" + strconv.Itoa(k) }

func runCase(srv *rig.Server, ci int, c *ccase) {
	pat := "c19p"
	if c.InMem {
		pat = "c19m"
	}
	swamp := fmt.Sprintf("%s/case%d/s", pat, ci)
	sname := rig.Name(swamp)
	hy := srv.Zeus.GetHydra()
	ctx := context.Background()
	streams := make([]*fakeStream, c.NSubs)
	all := make([][]omsg, c.NSubs)
	cur := map[int]int64{}
	has := map[int]bool{}
	nsubbed := 0
	waitCount := func(n int) {
		dl := time.Now().Add(10 * time.Second)
		for hydra.VerifEventSubscriberCount(hy, sname) != n {
			if time.Now().After(dl) {
				c.errs = append(c.errs, fmt.Sprintf("subscriber count did not reach %d", n))
				return
			}
			time.Sleep(50 * time.Microsecond)
		}
		// SubscribeToSwampEvents activates a loaded swamp in a deferred call, after the callback
		// is registered: wait for it, a write in between would race with the subscription
		for n > 0 {
			loaded, active := hydra.VerifEventSendingState(hy, sname)
			if !loaded || active {
				break
			}
			if time.Now().After(dl) {
				c.errs = append(c.errs, "loaded swamp did not start sending events after subscribe")
				return
			}
			time.Sleep(50 * time.Microsecond)
		}
	}
	unsubscribe := func(s int) {
		f := streams[s]
		f.cancel()
		<-f.done
		all[s] = append(all[s], f.msgs...)
		atomic.AddInt32(&f.overlaps, 0)
		c.overlap += int(f.overlaps)
		streams[s] = nil
		nsubbed--
		waitCount(nsubbed)
		c.history = append(c.history, fmt.Sprintf("CUnsub %d", s))
	}
	// with concurrent writers keep one untouched record in the swamp, so that it is never
	// auto-destroyed while other writers are inside it (that race belongs to C16)
	for _, ph := range c.Phases {
		if len(ph.Writers) > 1 {
			v := int64(0)
			_, _ = srv.GW.Set(ctx, &hydrapb.SetRequest{Swamps: []*hydrapb.SwampRequest{{
				IslandID: island, SwampName: swamp, CreateIfNotExist: true, Overwrite: true,
				KeyValues: []*hydrapb.KeyValuePair{{Key: "anchor", Int64Val: &v}}}}})
			has[-1] = true
			break
		}
	}
	for _, ph := range c.Phases {
		for _, s := range ph.Unsub {
			unsubscribe(s)
		}
		for _, s := range ph.Sub {
			fctx, cancel := context.WithCancel(ctx)
			f := &fakeStream{ctx: fctx, cancel: cancel, done: make(chan struct{})}
			// sequence numbers of successive streams of one subscriber keep increasing
			if len(all[s]) > 0 {
				f.seq = all[s][len(all[s])-1].End + 1
			}
			streams[s] = f
			go func() {
				_ = srv.GW.SubscribeToEvents(&hydrapb.SubscribeToEventsRequest{IslandID: island, SwampName: swamp}, f)
				close(f.done)
			}()
			nsubbed++
			waitCount(nsubbed)
			c.history = append(c.history, fmt.Sprintf("CSub %d", s))
		}
		// decide no-op values now (the owner knows the current value of its keys), run writers
		var wg sync.WaitGroup
		var mu sync.Mutex // protects cur/has (different keys per writer, but one map)
		for w := range ph.Writers {
			wg.Add(1)
			go func(ops []wop) {
				defer wg.Done()
				for j := range ops {
					o := &ops[j]
					mu.Lock()
					cv, ex := cur[o.Key], has[o.Key]
					mu.Unlock()
					switch o.Kind {
					case "set":
						if o.Noop && ex {
							o.Req = cv
						} else {
							o.Noop = false
							if ex && o.Req == cv {
								o.Req = cv + 1
							}
						}
						v := o.Req
						resp, err := srv.GW.Set(ctx, &hydrapb.SetRequest{Swamps: []*hydrapb.SwampRequest{{
							IslandID: island, SwampName: swamp, CreateIfNotExist: true, Overwrite: true,
							KeyValues: []*hydrapb.KeyValuePair{{Key: kname(o.Key), Int64Val: &v}}}}})
						if err != nil || len(resp.GetSwamps()) != 1 || len(resp.GetSwamps()[0].GetKeysAndStatuses()) != 1 {
							o.Status = "ERROR"
							break
						}
						o.Status = resp.GetSwamps()[0].GetKeysAndStatuses()[0].GetStatus().String()
						o.Val = v
						ex, cv = true, v
					case "delete":
						resp, err := srv.GW.Delete(ctx, &hydrapb.DeleteRequest{Swamps: []*hydrapb.DeleteRequest_SwampKeys{{
							IslandID: island, SwampName: swamp, Keys: []string{kname(o.Key)}}}})
						if err != nil || len(resp.GetResponses()) != 1 {
							o.Status = "ERROR"
							break
						}
						r0 := resp.GetResponses()[0]
						if r0.ErrorCode != nil || len(r0.GetKeyStatuses()) != 1 {
							o.Status = "NOT_FOUND" // swamp does not exist
						} else {
							o.Status = r0.GetKeyStatuses()[0].GetStatus().String()
						}
						if o.Status == "DELETED" {
							o.Val = cv
							ex = false
						}
					case "shift":
						resp, err := srv.GW.ShiftByKeys(ctx, &hydrapb.ShiftByKeysRequest{IslandID: island, SwampName: swamp, Keys: []string{kname(o.Key)}})
						if err != nil { // the swamp does not exist
							o.Status = "NOT_FOUND"
							break
						}
						if len(resp.GetTreasures()) == 1 {
							o.Status, o.Val = "DELETED", tval(resp.GetTreasures()[0])
							ex = false
						} else {
							o.Status = "NOT_FOUND"
						}
					case "incr":
						resp, err := srv.GW.IncrementInt64(ctx, &hydrapb.IncrementInt64Request{IslandID: island, SwampName: swamp, Key: kname(o.Key), IncrementBy: o.Req})
						if err != nil || !resp.GetIsIncremented() {
							o.Status = "ERROR"
							break
						}
						if ex {
							o.Status = "UPDATED"
						} else {
							o.Status = "NEW"
						}
						o.Val = resp.GetValue()
						ex, cv = true, o.Val
					}
					mu.Lock()
					cur[o.Key], has[o.Key] = cv, ex
					mu.Unlock()
				}
			}(ph.Writers[w])
		}
		wg.Wait()
		for _, ops := range ph.Writers {
			for _, o := range ops {
				if o.Status == "ERROR" {
					c.errs = append(c.errs, fmt.Sprintf("%s k%d failed", o.Kind, o.Key))
					continue
				}
				c.history = append(c.history, "CWrite "+wopTerm(o))
			}
		}
		// an emptied swamp is destroyed; the next write summons a new object
		live := 0
		for _, e := range has {
			if e {
				live++
			}
		}
		if live == 0 {
			c.history = append(c.history, "CUnload")
		}
	}
	for s := range streams {
		if streams[s] != nil {
			unsubscribe(s)
		}
	}
	for s := range all {
		sort.Slice(all[s], func(i, j int) bool { return all[s][i].Start < all[s][j].Start })
	}
	c.recv = all
	// leave nothing behind
	_, _ = srv.GW.Destroy(ctx, &hydrapb.DestroyRequest{IslandID: island, SwampName: swamp})
}

func stTerm(s string) string {
	switch s {
	case "NEW":
		return "StNew"
	case "UPDATED":
		return "StModified"
	case "NOTHING_CHANGED":
		return "StSame"
	case "DELETED":
		return "StDeleted"
	}
	return "StNotFound"
}

func pbTerm(s string) string {
	switch s {
	case "NEW":
		return "PbNew"
	case "UPDATED":
		return "PbUpdated"
	case "NOTHING_CHANGED":
		return "PbNothingChanged"
	case "DELETED":
		return "PbDeleted"
	}
	return "PbNotFound"
}

func wopTerm(o wop) string {
	kind := map[string]string{"set": "WSet", "delete": "WDelete", "shift": "WShift", "incr": "WIncr"}[o.Kind]
	return fmt.Sprintf("{| w_kind := %s; w_key := %d; w_req := %s; w_status := %s; w_val := %s |}",
		kind, o.Key, common.Z(o.Req), stTerm(o.Status), common.Z(o.Val))
}

func caseTerm(c *ccase) string {
	subs := make([]string, c.NSubs)
	recv := make([]string, c.NSubs)
	for s := 0; s < c.NSubs; s++ {
		subs[s] = strconv.Itoa(s)
		ms := make([]string, len(c.recv[s]))
		for i, m := range c.recv[s] {
			ms[i] = fmt.Sprintf("{| o_key := %d; o_status := %s; o_val := %s; o_secs := %s; o_nanos := %s; o_wall := %s; o_start := %d; o_end := %d |}",
				m.Key, pbTerm(m.Status), common.Z(m.Val), common.Z(m.Secs), common.Z(m.Nanos), common.Z(m.Wall), m.Start, m.End)
		}
		recv[s] = fmt.Sprintf("(%d, %s)", s, common.List(ms))
	}
	keys := make([]string, c.NKeys)
	for k := range keys {
		keys[k] = strconv.Itoa(k)
	}
	return fmt.Sprintf("{| c_hist := %s;\n     c_subs := %s; c_keys := %s;\n     c_recv := %s |}",
		common.List(c.history), common.List(subs), common.List(keys), common.List(recv))
}

func main() {
	args := common.ParseArgs()
	rig.Quiet()
	run := common.NewRun(args, "C19", "HV.Swamp.Events")
	run.Shard = 100
	run.Meta.Rule = "non-trivial: at least one subscriber received an event, and the history contains a write outside a subscription window, a no-op save, a delete/shift, or two writers running concurrently"
	root, err := os.MkdirTemp("", "c19-")
	if err != nil {
		panic(err)
	}
	defer os.RemoveAll(root)
	srv := rig.Start(root, true)
	srv.Register("c19p/*/*", false, 3600, 1, 65536)
	srv.Register("c19m/*/*", true, 3600, 0, 0)

	rng := common.NewRng(args.Seed, "C19")
	n := 400
	if args.Tier == "thorough" {
		n = 4000
	}
	cases := corpus()
	for len(cases) < n {
		cases = append(cases, genCase(rng.Fork("case"), 0))
	}
	common.Parallel(len(cases), 6, func(i int) { runCase(srv, i, cases[i]) })
	for _, c := range cases {
		events, conc, dels, noops := 0, false, 0, 0
		for _, r := range c.recv {
			events += len(r)
		}
		for _, ph := range c.Phases {
			if len(ph.Writers) > 1 {
				conc = true
			}
			for _, ops := range ph.Writers {
				for _, o := range ops {
					run.Hist("op_" + o.Kind + "_" + o.Status)
					if o.Kind == "delete" || o.Kind == "shift" {
						dels++
					}
					if o.Noop {
						noops++
						run.Hist("noop_save_reported_" + o.Status)
					}
				}
			}
			run.Hist(fmt.Sprintf("writers_%d", len(ph.Writers)))
		}
		run.HistN("events_received", events)
		run.HistN("overlapping_sendmsg_seen_by_stream", c.overlap)
		run.Hist("kind_" + c.Kind)
		nt := events > 0 && (conc || dels > 0 || noops > 0 || len(c.Phases) > 1)
		idx := run.Add(caseTerm(c), map[string]any{"case": c, "received": c.recv}, nt)
		for _, e := range c.errs {
			run.Violate(idx, "harness", "operation_failed", e)
		}
	}
	run.Meta.Traces = len(cases)
	srv.Stop()
	run.Finish("check_all")
}
