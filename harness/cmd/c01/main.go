// c01: correspondence check for "storage log replays to the last-writer-wins state".
//
// Every case is an operation history executed on the real engine:
//   CaseW – directly on v2.FileWriter (NewFileWriterWithName / WriteEntry / Flush / Sync / Close,
//           any number of sessions, several block sizes) and read back with v2.FileReader;
//   CaseC – through the chronicler (Write / Sync / Close / new chronicler object / Load) with
//           real treasures.
// Recorded: the ok/error result of every call, the flush decisions the writer took (M2: fed to
// the model), the final file's LoadIndex result, stored name, entries per block and header
// counters.  Keys, payloads and names go to Coq as (id, length) tokens (M4).
// Storage/C01Check.v evaluates the last-writer-wins oracle on the observations and replays the
// writer model.  A few checks that would be too big as Coq terms (65536+ entries in one block,
// reload through chronicler.Load into a real beacon) are done here and reported with Violate.
package main

import (
	"fmt"
	"io"
	"log/slog"
	"os"
	"path/filepath"
	"runtime/debug"
	"sort"
	"strings"
	"sync"
	"unicode/utf8"

	"github.com/hydraide/hydraide/app/core/hydra/swamp/beacon"
	"github.com/hydraide/hydraide/app/core/hydra/swamp/chronicler"
	v2 "github.com/hydraide/hydraide/app/core/hydra/swamp/chronicler/v2"
	"github.com/hydraide/hydraide/app/core/hydra/swamp/treasure"
	"github.com/hydraide/hydraide/app/core/hydra/swamp/treasure/guard"
	"verif/harness/common"
)

// ---- tokens ----------------------------------------------------------------------------------

type table struct {
	ids  map[string]uint64
	next uint64
}

func newTable(first uint64) *table { return &table{ids: map[string]uint64{}, next: first} }
func (t *table) id(s string) uint64 {
	if v, ok := t.ids[s]; ok {
		return v
	}
	v := t.next
	t.next++
	t.ids[s] = v
	return v
}
func (t *table) lookup(s string, unknown uint64) uint64 {
	if v, ok := t.ids[s]; ok {
		return v
	}
	return unknown
}

func tok(id uint64, n int) string { return common.Pair(common.N(id), common.N(uint64(n))) }

// ---- direct writer histories ------------------------------------------------------------------

type wop struct {
	Kind     string `json:"kind"` // open write flush sync close
	Name     string `json:"-"`
	NameLen  int    `json:"name_len,omitempty"`
	MaxBlock int    `json:"max_block,omitempty"`
	Op       uint8  `json:"op,omitempty"`
	Key      string `json:"-"`
	KeyLen   int    `json:"key_len,omitempty"`
	KeyID    uint64 `json:"key_id,omitempty"`
	Data     []byte `json:"-"`
	DataLen  int    `json:"data_len,omitempty"`
	Batch    []wop  `json:"batch,omitempty"` // kind "writes": one WriteEntries call
	KeyClass string `json:"key_class,omitempty"`
	// observations
	Ok      bool `json:"ok"`
	Flushed bool `json:"flushed,omitempty"`
}

// blockCounts reads the entries-per-block list of the file as it is now (the writer may be
// open) from the 16-byte block headers only.
func blockCounts(path string) []int {
	f, err := os.Open(path)
	if err != nil {
		return nil
	}
	defer f.Close()
	var h [64]byte
	if _, err := f.ReadAt(h[:], 0); err != nil {
		return nil
	}
	off := int64(64)
	if h[4] == 3 {
		off += int64(h[44]) | int64(h[45])<<8
	}
	var out []int
	var bh [16]byte
	for {
		if _, err := f.ReadAt(bh[:], off); err != nil {
			return out
		}
		cs := int64(bh[0]) | int64(bh[1])<<8 | int64(bh[2])<<16 | int64(bh[3])<<24
		out = append(out, int(bh[8])|int(bh[9])<<8)
		off += 16 + cs
	}
}

type observed struct {
	exists  bool
	loadErr string
	loaded  map[string][]byte
	name    string
	blocks  []uint64
	hdrEC   uint64
	hdrBC   uint64
}

// suspicious reports whether some block header of the file claims more payload than the file
// holds.  The engine's reader allocates the claimed size before reading (up to 4 GiB per block,
// another property's concern); such files are observed one at a time so that a broken writer
// cannot make 16 workers allocate 4 GiB each.
func suspicious(path string) bool {
	raw, err := os.ReadFile(path)
	if err != nil || len(raw) < 64 {
		return false
	}
	off := 64
	if raw[4] == 3 {
		off += int(raw[44]) | int(raw[45])<<8
	}
	for off+16 <= len(raw) {
		cs := int(raw[off]) | int(raw[off+1])<<8 | int(raw[off+2])<<16 | int(raw[off+3])<<24
		off += 16
		if cs > len(raw)-off {
			return true
		}
		off += cs
	}
	return false
}

var bigAlloc sync.Mutex

func observeFile(path string) observed {
	var o observed
	if _, err := os.Stat(path); err != nil {
		return o
	}
	o.exists = true
	if suspicious(path) {
		bigAlloc.Lock()
		defer bigAlloc.Unlock()
		defer debug.FreeOSMemory()
	}
	fr, err := v2.NewFileReader(path)
	if err != nil {
		o.loadErr = err.Error()
		return o
	}
	defer fr.Close()
	h := fr.GetHeader()
	o.hdrEC, o.hdrBC = h.EntryCount, h.BlockCount
	idx, name, err := fr.LoadIndex()
	if err != nil {
		o.loadErr = err.Error()
		return o
	}
	o.loaded, o.name = idx, name
	if blocks, err := fr.ReadAllBlocks(); err == nil {
		for _, b := range blocks {
			o.blocks = append(o.blocks, uint64(len(b.Entries)))
		}
	}
	return o
}

func obsTerm(o observed, keys, pays, names *table) string {
	loaded := "None"
	if o.exists && o.loadErr == "" {
		ks := make([]string, 0, len(o.loaded))
		for k := range o.loaded {
			ks = append(ks, k)
		}
		sort.Strings(ks)
		var pairs []string
		for i, k := range ks {
			d := o.loaded[k]
			kid := keys.lookup(k, 900000+uint64(i))
			pid := uint64(0)
			if len(d) > 0 {
				pid = pays.lookup(string(d), 800000+uint64(i))
			}
			pairs = append(pairs, common.Pair(tok(kid, len(k)), tok(pid, len(d))))
		}
		nid := uint64(0)
		if o.name != "" {
			nid = names.lookup(o.name, 999999)
		}
		loaded = common.Some(common.Pair(common.List(pairs), common.N(nid)))
	}
	return common.App("mkObs", common.Bool(o.exists), loaded, common.NList(o.blocks),
		common.Pair(common.N(o.hdrEC), common.N(o.hdrBC)))
}

func resTerm(ok bool) string {
	if ok {
		return "ROk"
	}
	return "RErr"
}

// runW executes a writer history on the real FileWriter.
func runW(dir string, ops []wop) observed {
	path := filepath.Join(dir, "s.hyd")
	var fw *v2.FileWriter   // the open writer
	var last *v2.FileWriter // the most recently closed writer object: calls on it must fail cleanly
	for i := range ops {
		o := &ops[i]
		w := fw
		if w == nil {
			w = last
		}
		switch o.Kind {
		case "open":
			if fw != nil {
				o.Ok = false
				continue
			}
			nw, err := v2.NewFileWriterWithName(path, o.MaxBlock, o.Name)
			o.Ok = err == nil
			if err == nil {
				fw = nw
			}
		case "write":
			if w == nil {
				o.Ok = false
				continue
			}
			err := w.WriteEntry(v2.Entry{Operation: o.Op, Key: o.Key, Data: o.Data})
			o.Ok = err == nil
			o.Flushed = err == nil && w.BufferCount() == 0
		case "writes":
			if w == nil {
				o.Ok = false
				continue
			}
			es := make([]v2.Entry, len(o.Batch))
			for j, b := range o.Batch {
				es[j] = v2.Entry{Operation: b.Op, Key: b.Key, Data: b.Data}
			}
			c0 := w.BufferCount()
			before := blockCounts(path)
			err := w.WriteEntries(es)
			o.Ok = err == nil
			if err == nil {
				// recover the flush decisions of the batch from the blocks it produced (M2)
				after := blockCounts(path)
				idx := -c0 - 1
				for _, nb := range after[min(len(before), len(after)):] {
					idx += nb
					if idx >= 0 && idx < len(o.Batch) {
						o.Batch[idx].Flushed = true
					}
				}
				for j := range o.Batch {
					o.Batch[j].Ok = true
				}
			}
		case "flush":
			if w == nil {
				o.Ok = false
				continue
			}
			o.Ok = w.Flush() == nil
		case "sync":
			if w == nil {
				o.Ok = false
				continue
			}
			o.Ok = w.Sync() == nil
		case "close":
			if w == nil {
				o.Ok = true
				continue
			}
			o.Ok = w.Close() == nil
			if fw != nil {
				last, fw = fw, nil
			}
		}
	}
	if fw != nil {
		fw.Close()
	}
	return observeFile(path)
}

func wTerm(ops []wop, o observed, keys, pays, names *table) string {
	var ots, rts []string
	for _, op := range ops {
		switch op.Kind {
		case "open":
			nid := uint64(0)
			if op.Name != "" {
				nid = names.id(op.Name)
			}
			ots = append(ots, common.App("OOpen", tok(nid, len(op.Name))))
		case "write":
			pid := uint64(0)
			if len(op.Data) > 0 {
				pid = pays.id(string(op.Data))
			}
			e := common.App("mkL", common.N(uint64(op.Op)), tok(keys.id(op.Key), len(op.Key)), tok(pid, len(op.Data)))
			ots = append(ots, common.App("OWrite", e, common.Bool(op.Flushed)))
		case "writes":
			// an accepted WriteEntries call is the sequence of its WriteEntry calls; a rejected
			// one must have no effect at all and contributes nothing (its entries are not
			// acknowledged, so the oracle requires that none of them shows up)
			if op.Ok {
				for _, b := range op.Batch {
					pid := uint64(0)
					if len(b.Data) > 0 {
						pid = pays.id(string(b.Data))
					}
					e := common.App("mkL", common.N(uint64(b.Op)), tok(keys.id(b.Key), len(b.Key)), tok(pid, len(b.Data)))
					ots = append(ots, common.App("OWrite", e, common.Bool(b.Flushed)))
					rts = append(rts, "ROk")
				}
			}
			continue
		case "flush":
			ots = append(ots, "OFlush")
		case "sync":
			ots = append(ots, "OSync")
		case "close":
			ots = append(ots, "OClose")
		}
		rts = append(rts, resTerm(op.Ok))
	}
	return common.App("CaseW", common.List(ots), common.List(rts), obsTerm(o, keys, pays, names))
}

var keyLens = []int{1, 1, 2, 2, 3, 8, 8, 31, 31, 255, 256, 4095, 65535, 65536, 70000, 0}
var maxBlocks = []int{1, 64, 1024, 16384, 16384, 1 << 20}

func genName(rng *common.Rng) string {
	switch rng.Intn(40) {
	case 0:
		return ""
	case 1:
		return "s/r/" + strings.Repeat("n", 65535-4)
	case 2:
		return "s/r/" + strings.Repeat("n", 65536-4)
	case 3:
		return "s/r/" + strings.Repeat("n", 70000-4)
	case 4:
		// more than 65535 bytes but fewer characters
		return "s/r/" + bigString(rng, keyClasses[1+rng.Intn(3)], []int{65536, 65539, 80000}[rng.Intn(3)])
	case 5:
		return "s/r/" + bigString(rng, keyClasses[rng.Intn(len(keyClasses)-1)], []int{4028, 4029, 4092, 65530, 65531}[rng.Intn(5)])
	}
	n := 1 + rng.Intn(40)
	if rng.Chance(10) {
		n = 100 + rng.Intn(200)
	}
	b := make([]byte, n)
	for i := range b {
		b[i] = "abcdefghijklmnopqrstuvwxyz0123456789-_"[rng.Intn(38)]
	}
	return fmt.Sprintf("san%d/realm%d/", rng.Intn(5), rng.Intn(5)) + string(b)
}

// byte lengths around every limit a length check could be written against: the 16-bit field in
// bytes, and 65535 *characters* / UTF-16 units of 2-, 3- and 4-byte characters
var bigLens = []int{4095, 4096, 65533, 65534, 65535, 65535, 65536, 65536, 65537, 65538, 70000, 80000, 131070, 131072, 196605, 262140}
var keyClasses = []string{"ascii", "utf8-2", "utf8-3", "utf8-4", "ascii+1rune", "invalid-utf8", "binary"}

// bigString builds a string of exactly n bytes of the given content class with a unique prefix.
func bigString(rng *common.Rng, class string, n int) string {
	b := make([]byte, 0, n)
	b = append(b, fmt.Sprintf("%08d", rng.Intn(100000000))...)
	if len(b) > n {
		b = b[:n]
	}
	unit := "k"
	switch class {
	case "utf8-2":
		unit = "é"
	case "utf8-3":
		unit = "水"
	case "utf8-4":
		unit = "😀"
	case "invalid-utf8":
		unit = "\xff"
	}
	switch class {
	case "binary":
		b = append(b, rng.Bytes(n-len(b))...)
	case "ascii+1rune":
		for len(b)+3 < n {
			b = append(b, 'k')
		}
		if len(b)+3 == n {
			b = append(b, "水"...)
		}
	default:
		for len(b)+len(unit) <= n {
			b = append(b, unit...)
		}
	}
	for len(b) < n {
		b = append(b, 'a')
	}
	return string(b)
}

// keys the engine itself gives a meaning to elsewhere (metadata entry key of legacy files, the
// metadata struct's key, magic bytes, file suffixes, V1 meta file name) and look-alikes, plus keys
// with separators and control bytes: as ordinary INSERT/UPDATE/DELETE keys they are keys like any other
var reservedKeys = []string{v2.MetadataEntryKey, v2.MetadataKey, "__swamp_meta_", "__swamp_meta___", "_" + v2.MetadataEntryKey,
	v2.MagicBytes, "meta", ".hyd", ".compact", "s/r/w", "/", "\x00", "a\x00b", " ", "\n", "k\xff"}

func genKeys(rng *common.Rng, n int, small bool) []string {
	seen := map[string]bool{}
	var ks []string
	if rng.Chance(25) {
		for j := 0; j < 1+rng.Intn(2); j++ {
			k := reservedKeys[rng.Intn(len(reservedKeys))]
			if j == 0 && rng.Chance(50) {
				k = reservedKeys[rng.Intn(2)]
			}
			if !seen[k] {
				seen[k] = true
				ks = append(ks, k)
			}
		}
	}
	for len(ks) < n {
		l := keyLens[rng.Intn(len(keyLens))]
		if small || rng.Chance(70) {
			l = 1 + rng.Intn(12)
		}
		var k string
		switch {
		case l >= 4095:
			k = bigString(rng, keyClasses[rng.Intn(len(keyClasses))], bigLens[rng.Intn(len(bigLens))])
		case rng.Chance(25): // short text keys with multi-byte characters
			k = string([]rune("é水😀kß")[rng.Intn(5)]) + fmt.Sprintf("%d", rng.Intn(1000))
		default:
			k = string(rng.Bytes(l))
		}
		if seen[k] {
			continue
		}
		seen[k] = true
		ks = append(ks, k)
	}
	return ks
}

func genPayload(rng *common.Rng, seq int, thorough bool) []byte {
	var l int
	switch r := rng.Intn(100); {
	case r < 8:
		l = 0
	case r < 20:
		l = 1 + rng.Intn(3)
	case r < 85:
		l = 4 + rng.Intn(200)
	case r < 97:
		l = 1000 + rng.Intn(20000)
	default:
		l = 65536 + rng.Intn(70000)
		if thorough && rng.Chance(5) {
			l = (1 + rng.Intn(4)) << 20
		}
	}
	b := make([]byte, l)
	if l > 300 {
		// compressible filler, unique tag
		for i := range b {
			b[i] = byte('a' + i%7)
		}
	} else {
		copy(b, rng.Bytes(l))
	}
	if l >= 8 {
		copy(b, fmt.Sprintf("%08x", seq))
	}
	return b
}

func genW(rng *common.Rng, nops int, thorough bool) []wop {
	nkeys := 1 + rng.Intn(12)
	keys := genKeys(rng, nkeys, rng.Chance(50))
	var ops []wop
	open := func() {
		nm := genName(rng)
		ops = append(ops, wop{Kind: "open", Name: nm, NameLen: len(nm), MaxBlock: maxBlocks[rng.Intn(len(maxBlocks))]})
	}
	open()
	seq := rng.Intn(1 << 20)
	for len(ops) < nops {
		switch r := rng.Intn(100); {
		case r < 6:
			ops = append(ops, wop{Kind: "flush"})
		case r < 10:
			ops = append(ops, wop{Kind: "sync"})
		case r < 18:
			ops = append(ops, wop{Kind: "close"})
			open()
		case r < 26:
			// one WriteEntries call with 1..6 entries (possibly the same key more than once)
			nb := 1 + rng.Intn(6)
			var batch []wop
			for j := 0; j < nb; j++ {
				k := keys[rng.Intn(len(keys))]
				b := wop{Kind: "write", Op: uint8(1 + rng.Intn(3)), Key: k, KeyLen: len(k)}
				if b.Op != v2.OpDelete {
					seq++
					b.Data = genPayload(rng, seq, thorough)
					b.DataLen = len(b.Data)
				}
				batch = append(batch, b)
			}
			ops = append(ops, wop{Kind: "writes", Batch: batch})
		default:
			k := keys[rng.Intn(len(keys))]
			var op uint8
			var data []byte
			switch q := rng.Intn(100); {
			case q < 35:
				op = v2.OpInsert
			case q < 65:
				op = v2.OpUpdate
			case q < 92:
				op = v2.OpDelete
			case q < 96:
				op = v2.OpMetadata
			default:
				op = []uint8{9, 0, 255, 5}[rng.Intn(4)]
			}
			if op != v2.OpDelete || rng.Chance(10) {
				seq++
				data = genPayload(rng, seq, thorough)
			}
			if data == nil && rng.Chance(20) {
				data = []byte{} // empty but not nil
			}
			ops = append(ops, wop{Kind: "write", Op: op, Key: k, KeyLen: len(k), Data: data, DataLen: len(data)})
			if rng.Chance(3) {
				// second use of a closed writer object: everything but Close must fail cleanly
				ops = append(ops, wop{Kind: "close"}, wop{Kind: []string{"write", "flush", "sync", "close"}[rng.Intn(4)], Op: 1, Key: k, KeyLen: len(k), Data: []byte("late")})
				open()
			}
		}
	}
	ops = append(ops, wop{Kind: "close"})
	// An OpMetadata entry under the metadata key is, by design, where a file without a name
	// in its header gets its name from (legacy fallback): keep that combination to histories
	// in which every file has a header name, where it must change nothing.
	nameless := false
	for _, o := range ops {
		nameless = nameless || (o.Kind == "open" && (o.Name == "" || len(o.Name) > 65535))
	}
	if nameless {
		for i := range ops {
			if ops[i].Kind == "write" && ops[i].Op == v2.OpMetadata && ops[i].Key == v2.MetadataEntryKey {
				ops[i].Op = 9
			}
		}
	}
	return ops
}

func nontrivialW(ops []wop) bool {
	sets := map[string]int{}
	over, del := false, false
	sessions := 0
	var flat []wop
	for _, o := range ops {
		if o.Kind == "writes" {
			flat = append(flat, o.Batch...)
		} else {
			flat = append(flat, o)
		}
	}
	for _, o := range flat {
		switch {
		case o.Kind == "open" && o.Ok:
			sessions++
		case o.Kind == "write" && o.Ok && (o.Op == 1 || o.Op == 2):
			sets[o.Key]++
			if sets[o.Key] > 1 {
				over = true
			}
		case o.Kind == "write" && o.Ok && o.Op == 3:
			del = true
		}
	}
	return over && del && sessions >= 2
}

// ---- chronicler histories ----------------------------------------------------------------------

type ctreasure struct {
	Key     string `json:"-"`
	KeyLen  int    `json:"key_len"`
	Deleted bool   `json:"deleted,omitempty"`
	HasFile bool   `json:"has_file,omitempty"`
	Content string `json:"content,omitempty"`
	Ack     bool   `json:"ack"`
}
type cop struct {
	Kind string      `json:"kind"` // write sync close restart
	Ts   []ctreasure `json:"ts,omitempty"`
}

func mkTreasure(t ctreasure) treasure.Treasure {
	tr := treasure.New(nil)
	g := tr.StartTreasureGuard(false, guard.BodyAuthID)
	tr.BodySetKey(g, t.Key)
	if t.Deleted {
		tr.BodySetForDeletion(g, "u", rngShadow(t))
	} else {
		tr.SetContentString(g, t.Content)
	}
	if t.HasFile {
		tr.BodySetFileName(g, "f")
	}
	tr.ReleaseTreasureGuard(g)
	return tr
}
func rngShadow(t ctreasure) bool { return len(t.Key)%2 == 0 }

func contentOf(data []byte, path string) (string, bool) {
	tr := treasure.New(nil)
	g := tr.StartTreasureGuard(true, guard.BodyAuthID)
	defer tr.ReleaseTreasureGuard(g)
	if err := tr.LoadFromByte(g, data, path); err != nil {
		return "", false
	}
	c := tr.CloneContent(g)
	if c.String == nil {
		return "", false
	}
	return *c.String, true
}

type cresult struct {
	obs       observed
	beaconBad string // Go-side: chronicler.Load into a beacon disagrees with the file
}

func runC(dir string, name string, withName bool, maxBlock int, cops []cop) cresult {
	base := filepath.Join(dir, "sw")
	path := base + ".hyd"
	var acked []string
	mk := func() chronicler.Chronicler {
		var c chronicler.Chronicler
		if withName {
			c = chronicler.NewV2WithName(base, 3, name)
		} else {
			c = chronicler.NewV2WithConfig(base, 3, maxBlock, 1.0)
		}
		c.CreateDirectoryIfNotExists()
		c.RegisterFilePointerFunction(func(ev []*chronicler.FileNameEvent) error {
			for _, e := range ev {
				acked = append(acked, e.TreasureKey)
			}
			return nil
		})
		return c
	}
	c := mk()
	for i := range cops {
		o := &cops[i]
		switch o.Kind {
		case "write":
			ts := make([]treasure.Treasure, len(o.Ts))
			for j, t := range o.Ts {
				ts[j] = mkTreasure(t)
			}
			acked = acked[:0]
			c.Write(ts)
			p := 0
			for j := range o.Ts {
				if p < len(acked) && acked[p] == o.Ts[j].Key {
					o.Ts[j].Ack = true
					p++
				}
			}
		case "sync":
			c.Sync()
		case "close":
			c.Close()
		case "restart":
			c.Close()
			c = mk()
		}
	}
	c.Close()
	var r cresult
	r.obs = observeFile(path)
	// reload through the chronicler into a real beacon: must agree with the file's index
	if r.obs.exists && r.obs.loadErr == "" {
		c2 := mk()
		b := beacon.New()
		c2.Load(b)
		all := b.GetAll()
		if len(all) != len(r.obs.loaded) {
			r.beaconBad = fmt.Sprintf("beacon has %d treasures, file index has %d keys", len(all), len(r.obs.loaded))
		}
		for k, data := range r.obs.loaded {
			want, ok := contentOf(data, path)
			tr := all[k]
			if tr == nil {
				if ok {
					r.beaconBad = fmt.Sprintf("key of %d bytes missing in beacon", len(k))
				}
				continue
			}
			g := tr.StartTreasureGuard(true, guard.BodyAuthID)
			cc := tr.CloneContent(g)
			tr.ReleaseTreasureGuard(g)
			if ok && (cc.String == nil || *cc.String != want) {
				r.beaconBad = fmt.Sprintf("content of key of %d bytes differs between beacon and file", len(k))
			}
		}
		c2.Close()
	}
	return r
}

func cTerm(name string, cops []cop, r cresult, keys, pays, names *table) string {
	var cts, ats []string
	for _, o := range cops {
		switch o.Kind {
		case "write":
			var ts, as []string
			for _, t := range o.Ts {
				enc := "None"
				if !t.Deleted {
					enc = common.Some(tok(pays.id(t.Content), 1))
				} else {
					enc = common.Some(tok(0, 0))
				}
				ts = append(ts, common.Pair(common.App("mkT", tok(keys.id(t.Key), len(t.Key)), common.Bool(t.Deleted), enc, common.Bool(t.HasFile)), "false"))
				as = append(as, common.Bool(t.Ack))
			}
			cts = append(cts, common.App("CWrite", common.List(ts)))
			ats = append(ats, common.List(as))
		case "sync":
			cts = append(cts, "CSync")
			ats = append(ats, "[]")
		case "close":
			cts = append(cts, "CClose")
			ats = append(ats, "[]")
		case "restart":
			cts = append(cts, "CClose")
			ats = append(ats, "[]")
		}
	}
	cts = append(cts, "CClose") // runC always closes at the end
	ats = append(ats, "[]")
	// the loaded payloads are gob bytes: translate them to the content ids first
	o := r.obs
	if o.loaded != nil {
		m := map[string][]byte{}
		for k, d := range o.loaded {
			if s, ok := contentOf(d, ""); ok {
				m[k] = []byte("c:" + s)
			} else {
				m[k] = []byte("undecodable")
			}
		}
		o.loaded = m
	}
	cpays := newTable(1)
	for s, id := range pays.ids {
		cpays.ids["c:"+s] = id
	}
	nid := uint64(0)
	if name != "" {
		nid = names.id(name)
	}
	ot := obsTermLen1(o, keys, cpays, names)
	return common.App("CaseC", tok(nid, len(name)), common.List(cts), common.List(ats), ot)
}

// like obsTerm but payload tokens carry length 1 (the chronicler path identifies payloads by
// the content string, not by the gob bytes)
func obsTermLen1(o observed, keys, pays, names *table) string {
	loaded := "None"
	if o.exists && o.loadErr == "" {
		ks := make([]string, 0, len(o.loaded))
		for k := range o.loaded {
			ks = append(ks, k)
		}
		sort.Strings(ks)
		var pairs []string
		for i, k := range ks {
			pairs = append(pairs, common.Pair(tok(keys.lookup(k, 900000+uint64(i)), len(k)),
				tok(pays.lookup(string(o.loaded[k]), 800000+uint64(i)), 1)))
		}
		nid := uint64(0)
		if o.name != "" {
			nid = names.lookup(o.name, 999999)
		}
		loaded = common.Some(common.Pair(common.List(pairs), common.N(nid)))
	}
	return common.App("mkObs", common.Bool(o.exists), loaded, common.NList(o.blocks),
		common.Pair(common.N(o.hdrEC), common.N(o.hdrBC)))
}

func genC(rng *common.Rng, ncalls int) []cop {
	nkeys := 1 + rng.Intn(10)
	keys := genKeys(rng, nkeys, rng.Chance(60))
	var cops []cop
	seq := rng.Intn(1 << 20)
	for len(cops) < ncalls {
		switch r := rng.Intn(100); {
		case r < 8:
			cops = append(cops, cop{Kind: "sync"})
		case r < 18:
			cops = append(cops, cop{Kind: "close"})
		case r < 26:
			cops = append(cops, cop{Kind: "restart"})
		default:
			n := 1 + rng.Intn(6)
			if rng.Chance(5) {
				n = 0
			}
			var ts []ctreasure
			for j := 0; j < n; j++ {
				k := keys[rng.Intn(len(keys))]
				t := ctreasure{Key: k, KeyLen: len(k), HasFile: rng.Bool()}
				if rng.Chance(28) {
					t.Deleted = true
				} else {
					seq++
					t.Content = fmt.Sprintf("p%d-%s", seq, strings.Repeat("x", rng.Intn(60)))
				}
				ts = append(ts, t)
			}
			cops = append(cops, cop{Kind: "write", Ts: ts})
		}
	}
	return cops
}

func nontrivialC(cops []cop) bool {
	sets := map[string]int{}
	over, del, boundary := false, false, false
	for _, o := range cops {
		if o.Kind == "close" || o.Kind == "restart" {
			boundary = true
		}
		for _, t := range o.Ts {
			if !t.Ack {
				continue
			}
			if t.Deleted {
				del = true
			} else {
				sets[t.Key]++
				if sets[t.Key] > 1 {
					over = true
				}
			}
		}
	}
	return over && del && boundary
}

// ---- signatures for Go-side findings -------------------------------------------------------------

func main() {
	slog.SetDefault(slog.New(slog.NewTextHandler(io.Discard, nil)))
	a := common.ParseArgs()
	run := common.NewRun(a, "C01", "HV.Storage.C01Check")
	run.Meta.Rule = "a case is a history of open/write(insert,update,delete,metadata,unknown op)/flush/sync/close(+reopen) calls on the real v2.FileWriter (CaseW) or of Write/Sync/Close/restart calls on the real V2 chronicler with real treasures (CaseC), followed by reading the file back with v2.FileReader.LoadIndex (and chronicler.Load into a beacon); non-trivial = at least one acknowledged overwrite and one acknowledged delete and a session boundary (close+reopen / restart) in the history; distinct = distinct case terms"
	rng := common.NewRng(a.Seed, "C01")
	thorough := a.Tier == "thorough"
	nW, nC, nBase := 450, 250, 5
	if thorough {
		nW, nC, nBase = 6000, 4000, 45
	}
	// the engine fsyncs on every Sync/Close; C01 is not about durability, so the files live on
	// tmpfs when there is one (10 ms per fsync on the cache disk would dominate the run)
	tmpRoot := a.Out
	if st, e := os.Stat("/dev/shm"); e == nil && st.IsDir() {
		tmpRoot = "/dev/shm"
	}
	tmp, err := os.MkdirTemp(tmpRoot, "c01-files")
	if err != nil {
		fmt.Fprintln(os.Stderr, err)
		os.Exit(2)
	}
	defer os.RemoveAll(tmp)

	type job struct {
		kind     string // W or C
		tag      string
		wops     []wop
		cops     []cop
		name     string
		withName bool
		maxBlock int
		obs      observed
		cres     cresult
	}
	var jobs []*job

	// 1. random writer histories
	for i := 0; i < nW; i++ {
		n := 3 + rng.Intn(40)
		if rng.Chance(8) {
			n = 100 + rng.Intn(300)
		}
		jobs = append(jobs, &job{kind: "W", tag: "random", wops: genW(rng.Fork("w"), n, thorough)})
	}
	// 2. every placement of {nothing, flush, sync, close+reopen} between the writes of short histories
	seps := []string{"", "flush", "sync", "reopen"}
	for b := 0; b < nBase; b++ {
		r := rng.Fork("base")
		nwr := 4
		if thorough && b%3 == 0 {
			nwr = 5
		}
		keys := []string{"a", "bb"}
		var ws []wop
		for j := 0; j < nwr; j++ {
			k := keys[r.Intn(2)]
			if r.Chance(35) {
				ws = append(ws, wop{Kind: "write", Op: v2.OpDelete, Key: k, KeyLen: len(k)})
			} else {
				d := []byte(fmt.Sprintf("v%d-%d", b, j))
				ws = append(ws, wop{Kind: "write", Op: uint8(1 + r.Intn(2)), Key: k, KeyLen: len(k), Data: d, DataLen: len(d)})
			}
		}
		mb := maxBlocks[r.Intn(len(maxBlocks))]
		total := 1
		for j := 0; j < nwr; j++ {
			total *= len(seps)
		}
		for code := 0; code < total; code++ {
			ops := []wop{{Kind: "open", Name: "s/r/w", NameLen: 5, MaxBlock: mb}}
			c := code
			for j := 0; j < nwr; j++ {
				ops = append(ops, ws[j])
				switch seps[c%len(seps)] {
				case "flush":
					ops = append(ops, wop{Kind: "flush"})
				case "sync":
					ops = append(ops, wop{Kind: "sync"})
				case "reopen":
					ops = append(ops, wop{Kind: "close"}, wop{Kind: "open", Name: "other/na/me", NameLen: 11, MaxBlock: mb})
				}
				c /= len(seps)
			}
			ops = append(ops, wop{Kind: "close"})
			jobs = append(jobs, &job{kind: "W", tag: "placement", wops: ops})
		}
	}
	// 3. witnesses of the repaired defects, as histories
	long := strings.Repeat("K", 65536)
	jobs = append(jobs,
		&job{kind: "W", tag: "witness-long-key", wops: []wop{{Kind: "open", Name: "s/r/w", MaxBlock: 16384},
			{Kind: "write", Op: 1, Key: "a", Data: []byte("1")}, {Kind: "write", Op: 1, Key: long, KeyLen: 65536, Data: []byte("2")}, {Kind: "close"}}},
		&job{kind: "W", tag: "witness-empty-key", wops: []wop{{Kind: "open", Name: "s/r/w", MaxBlock: 16384},
			{Kind: "write", Op: 1, Key: "a", Data: []byte("1")}, {Kind: "write", Op: 1, Key: "", Data: []byte("2")}, {Kind: "close"}}},
		&job{kind: "W", tag: "witness-long-name", wops: []wop{{Kind: "open", Name: "s/r/" + strings.Repeat("n", 65532), MaxBlock: 16384},
			{Kind: "write", Op: 1, Key: "a", Data: []byte("1")}, {Kind: "close"}}},
	)
	// 4. chronicler histories
	for i := 0; i < nC; i++ {
		r := rng.Fork("c")
		j := &job{kind: "C", tag: "chronicler", cops: genC(r, 2+r.Intn(14)), withName: r.Chance(60), maxBlock: maxBlocks[r.Intn(len(maxBlocks))]}
		if j.withName {
			j.name = genName(r)
		}
		jobs = append(jobs, j)
	}

	common.Parallel(len(jobs), 16, func(i int) {
		j := jobs[i]
		dir := filepath.Join(tmp, fmt.Sprintf("j%d", i))
		os.MkdirAll(dir, 0o755)
		if j.kind == "W" {
			j.obs = runW(dir, j.wops)
		} else {
			j.cres = runC(dir, j.name, j.withName, j.maxBlock, j.cops)
		}
		os.RemoveAll(dir)
	})

	for _, j := range jobs {
		keys, pays, names := newTable(1), newTable(1), newTable(1)
		if j.kind == "W" {
			term := wTerm(j.wops, j.obs, keys, pays, names)
			for i := range j.wops {
				j.wops[i].NameLen = len(j.wops[i].Name)
				j.wops[i].KeyLen = len(j.wops[i].Key)
				j.wops[i].DataLen = len(j.wops[i].Data)
				if j.wops[i].Kind == "write" {
					j.wops[i].KeyID = keys.id(j.wops[i].Key)
				}
			}
			descr := map[string]interface{}{"kind": "writer/" + j.tag, "ops": j.wops,
				"file_exists": j.obs.exists, "load_error": j.obs.loadErr, "loaded_keys": len(j.obs.loaded),
				"blocks": j.obs.blocks, "header": []uint64{j.obs.hdrEC, j.obs.hdrBC}, "name_len": len(j.obs.name)}
			run.Add(term, descr, nontrivialW(j.wops))
			run.Hist("writer_" + j.tag)
			for _, o := range j.wops {
				if o.Kind == "writes" {
					if o.Ok {
						run.Hist("batch_ok")
					} else {
						run.Hist("batch_rejected")
					}
				}
				if o.Kind == "write" {
					switch {
					case !o.Ok && len(o.Key) > 65535 && utf8.RuneCountInString(o.Key) <= 65535:
						run.Hist("write_rejected_bytes>65535_runes<=65535")
					case !o.Ok:
						run.Hist("write_rejected")
					case o.KeyLen >= 4095:
						run.Hist("write_ok_bigkey")
					default:
						run.Hist("write_ok")
					}
				}
			}
		} else {
			term := cTerm(j.name, j.cops, j.cres, keys, pays, names)
			descr := map[string]interface{}{"kind": "chronicler", "with_name": j.withName, "name_len": len(j.name),
				"max_block": j.maxBlock, "calls": j.cops, "file_exists": j.cres.obs.exists, "load_error": j.cres.obs.loadErr,
				"loaded_keys": len(j.cres.obs.loaded), "header": []uint64{j.cres.obs.hdrEC, j.cres.obs.hdrBC}}
			idx := run.Add(term, descr, nontrivialC(j.cops))
			run.Hist("chronicler")
			if j.cres.beaconBad != "" {
				run.Violate(idx, "swamp reload through chronicler Load", "beacon_differs_from_file_index", j.cres.beaconBad)
			}
		}
	}

	// 5. Go-side: more than 65535 entries before any size-triggered flush (too big for a Coq term)
	{
		dir := filepath.Join(tmp, "big")
		os.MkdirAll(dir, 0o755)
		path := filepath.Join(dir, "big.hyd")
		fw, err := v2.NewFileWriterWithName(path, 1<<30, "s/r/big")
		n := 65536 + 10
		okAll := err == nil
		if err == nil {
			for i := 0; i < n; i++ {
				if e := fw.WriteEntry(v2.Entry{Operation: v2.OpInsert, Key: fmt.Sprintf("k%05d", i%70000), Data: []byte{byte(i)}}); e != nil {
					okAll = false
				}
			}
			okAll = fw.Close() == nil && okAll
		}
		o := observeFile(path)
		bad := ""
		switch {
		case !okAll:
			bad = "a call failed"
		case o.loadErr != "":
			bad = "file unloadable: " + o.loadErr
		case len(o.loaded) != n:
			bad = fmt.Sprintf("%d acknowledged distinct keys, %d after reload", n, len(o.loaded))
		}
		for _, b := range o.blocks {
			if b > 65535 {
				bad = "a block holds more than 65535 entries"
			}
		}
		descr := map[string]interface{}{"kind": "go-side/many-entries-one-block", "entries": n, "blocks": o.blocks, "loaded_keys": len(o.loaded)}
		idx := run.Add(common.App("CaseW", "[]", "[]", "(mkObs false None [] (0, 0))"), descr, false)
		run.Hist("goside_many_entries")
		if bad != "" {
			sig := "block_entries>=65536"
			if !okAll || o.loadErr != "" {
				sig = "file_unloadable_after_acknowledged_writes"
			}
			run.Violate(idx, "last-writer-wins after reload", sig, bad)
		}
		os.RemoveAll(dir)
	}

	run.Meta.Traces = run.Meta.Evaluations
	run.Finish("check_all")
}
