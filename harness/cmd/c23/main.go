// c23: correspondence check for the V1 -> V2 migrator against Storage/C23Migrate.v.
//
// V1 folders are produced by the REAL V1 chronicler from random write/modify/delete histories
// (file pointers fed back the way the swamp does) with several max file sizes and restarts.
// Each folder is loaded with the real V1 chronicler, copied, migrated with the real migrator
// under every flag combination (and fault cases: a .hyd already at the target path, an unreadable
// / garbled chunk file, an undecodable segment, RLIMIT_FSIZE during the V2 write in a child
// process), then loaded with the real V2 chronicler. Values are compared as canonical gob bytes
// of treasure.Model (file pointer cleared).
package main

import (
	"bytes"
	"encoding/gob"
	"fmt"
	"io"
	"log/slog"
	"os"
	"os/exec"
	"os/signal"
	"path/filepath"
	"sort"
	"strings"
	"syscall"
	"time"

	"github.com/hydraide/hydraide/app/core/compressor"
	"github.com/hydraide/hydraide/app/core/filesystem"
	"github.com/hydraide/hydraide/app/core/hydra/swamp/beacon"
	"github.com/hydraide/hydraide/app/core/hydra/swamp/chronicler"
	v2 "github.com/hydraide/hydraide/app/core/hydra/swamp/chronicler/v2"
	"github.com/hydraide/hydraide/app/core/hydra/swamp/chronicler/v2/migrator"
	"github.com/hydraide/hydraide/app/core/hydra/swamp/metadata"
	"github.com/hydraide/hydraide/app/core/hydra/swamp/treasure"
	"github.com/hydraide/hydraide/app/core/hydra/swamp/treasure/guard"
	"github.com/hydraide/hydraide/app/name"
	"verif/harness/common"
)

// ---- interning / canonical values ---------------------------------------------------------------

type intern struct {
	keys map[string]uint64
	pays map[string]uint64
}

func newIntern() *intern {
	return &intern{keys: map[string]uint64{v2.MetadataEntryKey: 0}, pays: map[string]uint64{"": 0}}
}
func (in *intern) key(k string) uint64 {
	if id, ok := in.keys[k]; ok {
		return id
	}
	id := uint64(len(in.keys))
	in.keys[k] = id
	return id
}
func (in *intern) pay(p string) uint64 {
	if id, ok := in.pays[p]; ok {
		return id
	}
	id := uint64(len(in.pays))
	in.pays[p] = id
	return id
}

// canon decodes a gob-encoded treasure and re-encodes it with the file pointer cleared: the value a
// chronicler Load hands to the swamp, independent of where it was stored. ok=false: does not decode.
func canon(seg []byte) (key string, val string, ok bool) {
	var m treasure.Model
	if err := gob.NewDecoder(bytes.NewReader(seg)).Decode(&m); err != nil {
		return "", "", false
	}
	m.FileName = nil
	var buf bytes.Buffer
	if err := gob.NewEncoder(&buf).Encode(m); err != nil {
		return "", "", false
	}
	return m.Key, buf.String(), true
}

// beaconIndex projects what a Load pushed into a beacon: key -> canonical value id
func beaconIndex(in *intern, b beacon.Beacon) map[uint64]uint64 {
	out := map[uint64]uint64{}
	for k, t := range b.GetAll() {
		gid := t.StartTreasureGuard(true, guard.BodyAuthID)
		raw, err := t.ConvertToByte(gid)
		t.ReleaseTreasureGuard(gid)
		if err != nil {
			out[in.key(k)] = in.pay("!unencodable")
			continue
		}
		_, v, ok := canon(raw)
		if !ok {
			v = "!undecodable"
		}
		out[in.key(k)] = in.pay(v)
	}
	return out
}

func indexTerm(ix map[uint64]uint64) string {
	ks := make([]uint64, 0, len(ix))
	for k := range ix {
		ks = append(ks, k)
	}
	sort.Slice(ks, func(i, j int) bool { return ks[i] < ks[j] })
	ps := make([]string, len(ks))
	for i, k := range ks {
		ps[i] = fmt.Sprintf("(%d, %d)", k, ix[k])
	}
	return "[" + strings.Join(ps, "; ") + "]"
}

// ---- building a V1 folder with the real V1 chronicler ------------------------------------------------

// profile widens what a generated folder looks like beyond the ordinary small swamp
type profile struct {
	metaPad   int  // bytes of custom key/value metadata put into the meta file (metadata.SetKey)
	longName  int  // length of the swamp part of the name (0: short name)
	bigValues bool // treasures of tens / hundreds of KiB
	oddKeys   bool // long, unicode and punctuation keys
	manyKeys  bool // hundreds of keys
}

var profiles = []profile{
	{}, {metaPad: 6000}, {bigValues: true}, {}, {metaPad: 90000}, {oddKeys: true}, {},
	{longName: 5000}, {metaPad: 4000, oddKeys: true}, {manyKeys: true}, {}, {metaPad: 300000, bigValues: true}, {longName: 300, metaPad: 3900}, {},
}

type v1builder struct {
	prof      profile
	swampPath string
	maxFile   int64
	chron     chronicler.Chronicler
	meta      metadata.Metadata
	fileOf    map[string]string // key -> chunk file name, as the swamp learns it from the callback / Load
	seq       int
}

func (b *v1builder) open(first bool, swampName string) {
	b.meta = metadata.New(b.swampPath)
	b.chron = chronicler.New(b.swampPath, b.maxFile, 3, filesystem.New(), b.meta)
	b.chron.CreateDirectoryIfNotExists()
	b.meta.LoadFromFile()
	if swampName != "" {
		parts := strings.Split(swampName, "/")
		b.meta.SetSwampName(name.New().Sanctuary(parts[0]).Realm(parts[1]).Swamp(parts[2]))
	}
	b.chron.RegisterFilePointerFunction(func(ev []*chronicler.FileNameEvent) error {
		for _, e := range ev {
			b.fileOf[e.TreasureKey] = e.FileName
		}
		return nil
	})
	if !first {
		// a restart: the swamp learns the file pointers from Load
		bc := beacon.New()
		b.chron.Load(bc)
		b.fileOf = map[string]string{}
		for k, t := range bc.GetAll() {
			if fn := t.GetFileName(); fn != nil {
				b.fileOf[k] = *fn
			}
		}
	}
}

func (b *v1builder) treasure(key string, kind int) treasure.Treasure {
	b.seq++
	tr := treasure.New(nil)
	gid := tr.StartTreasureGuard(false, guard.BodyAuthID)
	tr.BodySetKey(gid, key)
	switch b.seq % 9 {
	case 4:
		tr.SetContentFloat64(gid, float64(b.seq)*1.5)
	case 5:
		tr.SetContentBool(gid, b.seq%2 == 0)
	case 6:
		tr.SetContentVoid(gid)
	case 7:
		n := 1 + b.seq%50
		if b.prof.bigValues {
			n = []int{20000, 70000, 300000, 17000}[b.seq%4]
		}
		tr.SetContentByteArray(gid, bytes.Repeat([]byte{byte(b.seq), 0, 0xff}, n))
		tr.SetExpirationTime(gid, time.Unix(int64(1900000000+b.seq), 0))
	case 8:
		tr.SetContentUint32(gid, uint32(b.seq))
		tr.SetCreatedBy(gid, "creator")
	case 0:
		tr.SetContentInt64(gid, int64(b.seq)*1000003)
	case 1:
		tr.SetContentString(gid, fmt.Sprintf("v%d-%s", b.seq, strings.Repeat("x", b.seq%97)))
	case 2:
		tr.SetContentByteArray(gid, bytes.Repeat([]byte{byte(b.seq)}, 1+b.seq%300))
	default:
		tr.SetContentString(gid, "")
	}
	tr.SetCreatedAt(gid, time.Unix(int64(1700000000+b.seq), 0))
	if fn, ok := b.fileOf[key]; ok {
		tr.BodySetFileName(gid, fn)
	}
	switch kind {
	case 1: // real delete
		tr.BodySetForDeletion(gid, "u", false)
	case 2: // shadow delete: stays in the file, flagged
		tr.BodySetForDeletion(gid, "u", true)
	}
	tr.ReleaseTreasureGuard(gid)
	return tr
}

// buildFolder runs a random history and returns nothing: the folder is on disk.
func buildFolder(rng *common.Rng, swampPath string, maxFile int64, swampName string, nops int, prof profile) {
	b := &v1builder{prof: prof, swampPath: swampPath, maxFile: maxFile, fileOf: map[string]string{}}
	if prof.longName > 0 {
		swampName = swampName + "-" + strings.Repeat("n", prof.longName)
	}
	b.open(true, swampName)
	// custom metadata, the way the swamp stores it (metadata.SetKey)
	for i, left := 0, prof.metaPad; left > 0; i++ {
		n := 200 + rng.Intn(800)
		if n > left {
			n = left
		}
		b.meta.SetKey(fmt.Sprintf("custom-%d", i), strings.Repeat(string(rune('a'+i%26)), n))
		left -= n
	}
	nkeys := 2 + rng.Intn(30)
	if prof.manyKeys {
		nkeys = 100 + rng.Intn(80)
		nops = 3 * nkeys
	}
	keyName := func(i int) string {
		if !prof.oddKeys {
			return fmt.Sprintf("key-%d", i)
		}
		switch i % 5 {
		case 0:
			return fmt.Sprintf("key-%d-%s", i, strings.Repeat("L", 200+i*37%2000))
		case 1:
			return fmt.Sprintf("kulcs-%d-\u00e1rv\u00edzt\u0171r\u0151-\u65e5\u672c", i)
		case 2:
			return fmt.Sprintf("k %d/with\\odd:chars\t\x00x", i)
		case 3:
			return fmt.Sprintf("%d", i)
		}
		return fmt.Sprintf("key-%d", i)
	}
	for done := 0; done < nops; {
		nb := 1 + rng.Intn(12)
		if prof.manyKeys {
			nb = 20 + rng.Intn(60)
		}
		seen := map[string]bool{}
		var batch []treasure.Treasure
		for i := 0; i < nb; i++ {
			k := keyName(rng.Intn(nkeys))
			if seen[k] {
				continue // the swamp hands each changed treasure once per write tick
			}
			seen[k] = true
			kind := 0
			if _, exists := b.fileOf[k]; exists {
				switch {
				case rng.Chance(20):
					kind = 1
				case rng.Chance(8):
					kind = 2
				}
			}
			batch = append(batch, b.treasure(k, kind))
			done++
		}
		b.chron.Write(batch)
		for _, t := range batch {
			if t.GetDeletedAt() != 0 && !t.GetShadowDelete() {
				delete(b.fileOf, t.GetKey())
			}
			// a shadow-deleted treasure stays in its chunk; when the key is created again the swamp
			// makes a new object without file pointer, so the new version is appended to the current
			// chunk - often the very chunk that still holds the deletion-marked one
			if t.GetDeletedAt() != 0 && t.GetShadowDelete() && rng.Chance(70) {
				delete(b.fileOf, t.GetKey())
			}
		}
		if rng.Chance(10) {
			b.meta.SaveToFile()
			b.open(false, swampName)
		}
	}
	b.meta.SaveToFile()
}

// ---- reading a V1 folder the way the model sees it ------------------------------------------------------

func isHexName(n string) bool {
	if n == "" || filepath.Ext(n) != "" {
		return false
	}
	for _, c := range n {
		if !((c >= '0' && c <= '9') || (c >= 'a' && c <= 'f') || (c >= 'A' && c <= 'F') || c == '-') {
			return false
		}
	}
	return true
}

// folderTerm reads every non-meta file with the real V1 filesystem layer (GetFile = read, snappy
// decompress, length-prefixed framing) in directory order.
func folderTerm(in *intern, swampPath string, metaName string) (term string, nfiles int, nsegs int) {
	des, _ := os.ReadDir(swampPath)
	fsys := filesystem.New()
	var files []string
	for _, de := range des {
		if de.IsDir() || de.Name() == metadata.MetaFile {
			continue
		}
		nfiles++
		segs, err := fsys.GetFile(filepath.Join(swampPath, de.Name()))
		content := "VUnreadable"
		if err == nil {
			ss := make([]string, 0, len(segs))
			for _, s := range segs {
				k, v, ok := canon(s)
				if !ok || k == "" || len(s) == 0 {
					ss = append(ss, "SBad")
				} else {
					ss = append(ss, fmt.Sprintf("(SOk %d %d)", in.key(k), in.pay(v)))
				}
				nsegs++
			}
			content = "(VSegs [" + strings.Join(ss, "; ") + "])"
		}
		files = append(files, fmt.Sprintf("(VF %s %s)", common.Bool(isHexName(de.Name())), content))
	}
	return fmt.Sprintf("(V1 [%s] %d)", strings.Join(files, "; "), in.pay(metaName)), nfiles, nsegs
}

// readMetaName: the swamp name as the LEGACY ENGINE reads it (metadata.LoadFromFile), not a decoder
// of our own; the exported struct mirrors metadata.Meta only to get the raw string out.
func readMetaName(swampPath string) (nm string) {
	if _, err := os.Stat(filepath.Join(swampPath, metadata.MetaFile)); err != nil {
		return ""
	}
	defer func() {
		if recover() != nil { // name.Load panics on names with fewer than three parts
			nm = ""
		}
	}()
	m := metadata.New(swampPath)
	m.LoadFromFile()
	return m.GetSwampName().Get()
}

// snapshot of a directory tree: path -> content
func snapshot(root string) map[string]string {
	out := map[string]string{}
	filepath.Walk(root, func(p string, fi os.FileInfo, err error) error {
		if err == nil && !fi.IsDir() {
			b, _ := os.ReadFile(p)
			rel, _ := filepath.Rel(root, p)
			out[rel] = string(b)
		}
		return nil
	})
	return out
}
func sameSnap(a, b map[string]string) bool {
	if len(a) != len(b) {
		return false
	}
	for k, v := range a {
		if w, ok := b[k]; !ok || w != v {
			return false
		}
	}
	return true
}

func copyTree(src, dst string) {
	filepath.Walk(src, func(p string, fi os.FileInfo, err error) error {
		if err != nil {
			return nil
		}
		rel, _ := filepath.Rel(src, p)
		if fi.IsDir() {
			os.MkdirAll(filepath.Join(dst, rel), 0o755)
		} else {
			b, _ := os.ReadFile(p)
			os.WriteFile(filepath.Join(dst, rel), b, 0o644)
		}
		return nil
	})
}

// ---- reading the resulting .hyd --------------------------------------------------------------------------

// hydTerm classifies the target path the way the model's prehyd does: nothing; shorter than the
// header (+ name) = what the writer's open creates again; otherwise what the real reader returns.
func hydTerm(in *intern, path string) string {
	fi, err := os.Stat(path)
	if err != nil {
		return "PreNone"
	}
	raw, _ := os.ReadFile(path)
	if fi.Size() < int64(v2.FileHeaderSize) {
		return "PreShort"
	}
	var h v2.FileHeader
	if err := h.Deserialize(raw[:v2.FileHeaderSize]); err != nil {
		return "(PreFile FBad)"
	}
	if fi.Size() < h.DataStartOffset() {
		return "PreShort"
	}
	fr, err := v2.NewFileReader(path)
	if err != nil {
		return "(PreFile FBad)"
	}
	defer fr.Close()
	var es []string
	_, err = fr.ReadAllEntries(func(e v2.Entry) bool {
		op := "OOther"
		switch e.Operation {
		case v2.OpInsert, v2.OpUpdate:
			op = "OSet"
		case v2.OpDelete:
			op = "ODel"
		case v2.OpMetadata:
			op = "OMeta"
		}
		val := string(e.Data)
		if op == "OSet" {
			if _, v, ok := canon(e.Data); ok {
				val = v
			}
		}
		es = append(es, fmt.Sprintf("(E %s %d %d)", op, in.key(e.Key), in.pay(val)))
		return true
	})
	if err != nil {
		return "(PreFile (FTorn 0 []))"
	}
	return fmt.Sprintf("(PreFile (FGood %d [%s]))", in.pay(fr.GetSwampName()), strings.Join(es, "; "))
}

// ---- one migration case ----------------------------------------------------------------------------------

const (
	fNone = iota
	fPreGood
	fPreTorn
	fPreGarbage
	fPreCorrupt
	fGarbledChunk
	fTruncChunk
	fBadSegment
	fForeignFile
	fNoMeta
	fCrossDup
	fSameChunkDup
	fRlimit
	fKinds
)

var faultName = []string{"none", "preexisting_hyd_valid", "preexisting_hyd_torn", "preexisting_hyd_garbage", "preexisting_hyd_corrupt_block", "garbled_chunk", "truncated_chunk", "undecodable_segment", "non_v1_file_in_folder", "meta_missing", "key_in_two_chunks", "key_twice_in_one_chunk", "rlimit_fsize_during_v2_write"}

type caseOut struct {
	term       string
	descr      map[string]interface{}
	nontrivial bool
	hist       []string
}

func bits(n int) int {
	b := 0
	for n > 0 {
		b++
		n >>= 1
	}
	return b
}

func runMigrator(dataPath string, dry, verify, del bool) string {
	m, err := migrator.New(migrator.Config{DataPath: dataPath, DryRun: dry, Verify: verify, DeleteOld: del, Parallel: 1, ProgressReport: time.Hour})
	if err != nil {
		return "error:" + err.Error()
	}
	res, err := m.Run()
	if err != nil {
		return "error:" + err.Error()
	}
	if len(res.FailedSwamps) > 0 {
		return "fail:" + res.FailedSwamps[0].Phase
	}
	if res.TotalSwamps == 0 {
		return "notfound"
	}
	if res.EmptySwampsSkipped > 0 {
		return "skipped"
	}
	if dry {
		return "dry"
	}
	return "ok"
}

func runCase(rng *common.Rng, self, template, work string, dry, verify, del bool, fault int) caseOut {
	in := newIntern()
	out := caseOut{}
	os.RemoveAll(work)
	dataPath := filepath.Join(work, "data")
	swampPath := filepath.Join(dataPath, "aa", "sw")
	os.MkdirAll(filepath.Dir(swampPath), 0o755)
	copyTree(template, swampPath)
	hydPath := swampPath + ".hyd"
	fsys := filesystem.New()
	comp := compressor.New(compressor.Snappy)
	chunks := func() []string {
		var l []string
		des, _ := os.ReadDir(swampPath)
		for _, de := range des {
			if !de.IsDir() && de.Name() != metadata.MetaFile {
				l = append(l, filepath.Join(swampPath, de.Name()))
			}
		}
		return l
	}
	pre := "PreNone"
	if fault == fNoMeta && len(chunks()) == 0 {
		fault = fNone // a folder with neither meta nor chunk files is not a V1 swamp folder at all
	}
	switch fault {
	case fPreGood, fPreTorn, fPreCorrupt:
		w, _ := v2.NewFileWriterWithName(hydPath, 256, "old/target/file")
		for i := 0; i < 3; i++ {
			tr := treasure.New(nil)
			gid := tr.StartTreasureGuard(false, guard.BodyAuthID)
			k := fmt.Sprintf("ghost-%d", i)
			if i == 2 {
				k = "key-0"
			}
			tr.BodySetKey(gid, k)
			tr.SetContentString(gid, "from the file that was already there")
			b, _ := tr.ConvertToByte(gid)
			tr.ReleaseTreasureGuard(gid)
			w.WriteEntry(v2.Entry{Operation: v2.OpInsert, Key: k, Data: b})
		}
		w.Close()
		if fault == fPreTorn {
			b, _ := os.ReadFile(hydPath)
			os.WriteFile(hydPath, b[:len(b)-1-rng.Intn(20)], 0o644)
		}
		if fault == fPreCorrupt {
			// flip a byte inside the payload of the first block: complete block, wrong checksum
			b, _ := os.ReadFile(hydPath)
			off := v2.FileHeaderSize + len("old/target/file") + v2.BlockHeaderSize + 3
			if off < len(b) {
				b[off] ^= 0x5a
			}
			os.WriteFile(hydPath, b, 0o644)
		}
		pre = hydTerm(in, hydPath)
	case fPreGarbage:
		os.WriteFile(hydPath, rng.Bytes(rng.Intn(140)), 0o644) // shorter than a header: re-created; longer: invalid magic
		pre = hydTerm(in, hydPath)
	case fGarbledChunk:
		if c := chunks(); len(c) > 0 {
			os.WriteFile(c[rng.Intn(len(c))], rng.Bytes(20+rng.Intn(200)), 0o644)
		}
	case fTruncChunk:
		if c := chunks(); len(c) > 0 {
			p := c[rng.Intn(len(c))]
			b, _ := os.ReadFile(p)
			if len(b) > 2 {
				os.WriteFile(p, b[:1+rng.Intn(len(b)-1)], 0o644)
			}
		}
	case fBadSegment:
		if c := chunks(); len(c) > 0 {
			fsys.SaveFile(c[rng.Intn(len(c))], [][]byte{[]byte("this is not a gob encoded treasure")}, true)
		}
	case fForeignFile:
		os.WriteFile(filepath.Join(swampPath, "notes.txt"), []byte("not a chunk"), 0o644)
	case fNoMeta:
		os.Remove(filepath.Join(swampPath, metadata.MetaFile))
	case fSameChunkDup:
		// newer versions of keys appended to the chunk that already holds them (what re-creating a
		// shadow-deleted key produces), written with the real V1 filesystem layer
		if c := chunks(); len(c) > 0 {
			p := c[rng.Intn(len(c))]
			if segs, err := fsys.GetFile(p); err == nil && len(segs) > 0 {
				var add [][]byte
				for r := 0; r < 1+rng.Intn(3); r++ {
					k, _, ok := canon(segs[rng.Intn(len(segs))])
					if !ok {
						continue
					}
					tr := treasure.New(nil)
					gid := tr.StartTreasureGuard(false, guard.BodyAuthID)
					tr.BodySetKey(gid, k)
					tr.SetContentString(gid, fmt.Sprintf("newer version %d", r))
					b, _ := tr.ConvertToByte(gid)
					tr.ReleaseTreasureGuard(gid)
					add = append(add, b)
				}
				fsys.SaveFile(p, add, true)
			}
		}
	case fCrossDup:
		// a second chunk file holding a key that already lives elsewhere (what a lost file pointer produces)
		tr := treasure.New(nil)
		gid := tr.StartTreasureGuard(false, guard.BodyAuthID)
		tr.BodySetKey(gid, "key-0")
		tr.SetContentString(gid, "second copy")
		b, _ := tr.ConvertToByte(gid)
		tr.ReleaseTreasureGuard(gid)
		raw, _ := comp.Compress(append([]byte{byte(len(b)), byte(len(b) >> 8), 0, 0}, b...))
		os.WriteFile(filepath.Join(swampPath, "ffffffff-0000-4000-8000-000000000000"), raw, 0o644)
	}
	metaName := readMetaName(swampPath)
	metaSize := 0
	if fi, err := os.Stat(filepath.Join(swampPath, metadata.MetaFile)); err == nil {
		metaSize = int(fi.Size())
	}
	folder, nfiles, nsegs := folderTerm(in, swampPath, metaName)
	before := snapshot(swampPath)

	// the legacy engine's view
	v1b := beacon.New()
	v1c := chronicler.New(swampPath, 1<<20, 3, filesystem.New(), metadata.New(swampPath))
	v1c.Load(v1b)
	v1idx := beaconIndex(in, v1b)

	// migrate
	var outcome string
	if fault == fRlimit {
		limit := 100 + rng.Intn(400)
		cmd := exec.Command(self, "child-migrate", dataPath, fmt.Sprint(limit), common.Bool(dry), common.Bool(verify), common.Bool(del))
		b, err := cmd.Output()
		outcome = strings.TrimSpace(string(b))
		if i := strings.LastIndex(outcome, "OUTCOME="); i >= 0 {
			outcome = outcome[i+8:]
		} else {
			outcome = fmt.Sprintf("error:child %v", err)
		}
	} else {
		outcome = runMigrator(dataPath, dry, verify, del)
	}
	phase := map[string]string{"ok": "PSuccess", "skipped": "PSkippedEmpty", "dry": "PDryRun", "fail:load": "PFailLoad", "fail:write": "PFailWrite", "fail:verify": "PFailVerify"}[outcome]
	harnessErr := ""
	if phase == "" {
		harnessErr = "unexpected migrator outcome " + outcome
		phase = "PFailLoad"
	}
	after := snapshot(swampPath)
	_, statErr := os.Stat(swampPath)
	v1deleted := statErr != nil
	intact := sameSnap(before, after)
	hyd := hydTerm(in, hydPath)

	// the new engine's view
	v2loaded := "None"
	if _, err := os.Stat(hydPath); err == nil {
		c := chronicler.NewV2(swampPath, 3)
		chronicler.VerifSetCompactionParams(c, 1<<30, -1, -1, -1) // no self-heal: the file is observed as migrated
		b := beacon.New()
		c.Load(b)
		_, _, storedName := chronicler.VerifState(c)
		c.Close()
		fr, err := v2.NewFileReader(hydPath)
		if err == nil {
			_, _, lerr := fr.LoadIndex()
			fr.Close()
			if lerr == nil {
				v2loaded = fmt.Sprintf("(Some (%s, %d))", indexTerm(beaconIndex(in, b)), in.pay(storedName))
			}
		}
	}
	wf := fault == fRlimit
	out.term = fmt.Sprintf("(MC %s %s (CFG %s %s %s) %s %s %s %s %s %s %s)", folder, indexTerm(v1idx),
		common.Bool(dry), common.Bool(verify), common.Bool(del), pre, common.Bool(wf), phase,
		common.Bool(intact), common.Bool(v1deleted), hyd, v2loaded)
	out.descr = map[string]interface{}{"fault": faultName[fault], "dry_run": dry, "verify": verify, "delete_old": del,
		"meta_file_bytes": metaSize, "chunk_files": nfiles, "segments": nsegs, "v1_loaded_keys": len(v1idx), "outcome": outcome, "v1_intact": intact, "v1_deleted": v1deleted, "harness_error": harnessErr}
	out.nontrivial = nfiles >= 2 || fault != fNone
	out.hist = []string{fmt.Sprintf("meta_file_bytes_2^%d", bits(metaSize)), "fault_" + faultName[fault], "outcome_" + outcome, fmt.Sprintf("flags_dry%v_verify%v_del%v", dry, verify, del)}
	if nfiles >= 2 {
		out.hist = append(out.hist, "multi_chunk_folder")
	}
	if harnessErr != "" {
		out.hist = append(out.hist, "HARNESS_ERROR")
	}
	os.RemoveAll(work)
	return out
}

func childMigrate(args []string) {
	signal.Ignore(syscall.SIGXFSZ)
	var limit uint64
	fmt.Sscan(args[1], &limit)
	slog.SetDefault(slog.New(slog.NewTextHandler(io.Discard, nil)))
	lim := syscall.Rlimit{Cur: limit, Max: limit}
	if err := syscall.Setrlimit(syscall.RLIMIT_FSIZE, &lim); err != nil {
		fmt.Println("OUTCOME=error:setrlimit " + err.Error())
		return
	}
	o := runMigrator(args[0], args[2] == "true", args[3] == "true", args[4] == "true")
	fmt.Println("OUTCOME=" + o)
}

func main() {
	if len(os.Args) >= 7 && os.Args[1] == "child-migrate" {
		childMigrate(os.Args[2:])
		return
	}
	slog.SetDefault(slog.New(slog.NewTextHandler(io.Discard, nil)))
	a := common.ParseArgs()
	// the V1 chronicler prints debug lines to stdout
	if devnull, err := os.OpenFile(os.DevNull, os.O_WRONLY, 0); err == nil {
		os.Stdout = devnull
	}
	run := common.NewRun(a, "C23", "HV.Storage.C23Migrate")
	run.Shard = 100
	run.Meta.Rule = "case = one V1 folder written by the real V1 chronicler (random write/modify/real-delete/shadow-delete history, max file size 256 B / 4 KiB / 64 KiB, restarts; profiles: custom metadata making the meta file 4 KiB .. 300 KiB, swamp names of 300 / 5000 bytes, values up to 900 KiB, long / unicode / binary keys, hundreds of keys, all scalar content types, expiry, created-by) migrated by the real migrator with one flag combination and one fault kind, V1 Load before vs V2 chronicler Load after compared on keys, canonical gob values and stored name; non-trivial = the folder has >= 2 chunk files or a fault (pre-existing .hyd: valid, torn tail, corrupt block, garbage shorter or longer than a header; garbled/truncated chunk, undecodable segment, foreign file, missing meta, duplicate key across chunks, several versions of a key inside one chunk, RLIMIT_FSIZE during the V2 write) was injected"
	rng := common.NewRng(a.Seed, "C23")
	work, err := os.MkdirTemp("", "c23-")
	if err != nil {
		fmt.Fprintln(os.Stderr, err)
		os.Exit(2)
	}
	defer os.RemoveAll(work)
	self, _ := os.Executable()

	nfolders := 14
	if a.Tier == "thorough" {
		nfolders = 150
	}
	type job struct {
		rng              *common.Rng
		tmpl             string
		dry, verify, del bool
		fault            int
	}
	var jobs []job
	// templates are built sequentially per folder but in parallel across folders
	tmpls := make([]string, nfolders)
	common.Parallel(nfolders, 8, func(i int) {
		frng := rng.Fork(fmt.Sprintf("folder-%d", i))
		tmpls[i] = filepath.Join(work, fmt.Sprintf("tmpl%d", i))
		maxFile := []int64{256, 4096, 65536}[i%3]
		nops := 5 + frng.Intn(120)
		if i%7 == 6 {
			nops = 0 // an empty swamp folder: only the meta file
		}
		os.MkdirAll(tmpls[i], 0o755)
		buildFolder(frng, tmpls[i], maxFile, "verif/c23/swamp"+fmt.Sprint(i), nops, profiles[i%len(profiles)])
	})
	for i := 0; i < nfolders; i++ {
		jrng := rng.Fork(fmt.Sprintf("jobs-%d", i))
		for flags := 0; flags < 8; flags++ {
			jobs = append(jobs, job{jrng.Fork(fmt.Sprint("f", flags)), tmpls[i], flags&1 != 0, flags&2 != 0, flags&4 != 0, fNone})
		}
		for f := 1; f < fKinds; f++ {
			// each fault with two flag combinations: the dangerous one (delete-old) and a random one
			jobs = append(jobs, job{jrng.Fork(fmt.Sprint("x", f)), tmpls[i], false, jrng.Bool(), true, f})
			fl := jrng.Intn(8)
			jobs = append(jobs, job{jrng.Fork(fmt.Sprint("y", f)), tmpls[i], fl&1 != 0, fl&2 != 0, fl&4 != 0, f})
		}
	}
	outs := make([]caseOut, len(jobs))
	common.Parallel(len(jobs), 12, func(i int) {
		j := jobs[i]
		outs[i] = runCase(j.rng, self, j.tmpl, filepath.Join(work, fmt.Sprintf("w%d", i)), j.dry, j.verify, j.del, j.fault)
	})
	for _, o := range outs {
		idx := run.Add(o.term, o.descr, o.nontrivial)
		for _, h := range o.hist {
			run.Hist(h)
		}
		if e, _ := o.descr["harness_error"].(string); e != "" {
			run.Violate(idx, "harness self-check", "c23_harness_selfcheck", e)
		}
	}
	run.Meta.Traces = len(outs)
	run.Finish("check_all")
}
