// rigtest: smoke test of the in-process rig (not a property check).
package main

import (
	"context"
	"fmt"
	"os"

	hydrapb "github.com/hydraide/hydraide/sdk/go/hydraidego/v3/hydraidepbgo"
	"verif/harness/rig"
)

func main() {
	rig.Quiet()
	root, _ := os.MkdirTemp("", "rigtest")
	defer os.RemoveAll(root)
	s := rig.Start(root, true)
	s.Register("t/r/*", false, 3600, 1, 8192)
	v := int64(5)
	resp, err := s.GW.Set(context.Background(), &hydrapb.SetRequest{Swamps: []*hydrapb.SwampRequest{{
		IslandID: 1, SwampName: "t/r/a", CreateIfNotExist: true, Overwrite: true,
		KeyValues: []*hydrapb.KeyValuePair{{Key: "k", Int64Val: &v}}}}})
	fmt.Println("set:", resp, err)
	s = s.Restart()
	s.Register("t/r/*", false, 3600, 1, 8192)
	g, err := s.GW.Get(context.Background(), &hydrapb.GetRequest{Swamps: []*hydrapb.GetSwamp{{IslandID: 1, SwampName: "t/r/a", Keys: []string{"k"}}}})
	fmt.Println("get after restart:", g, err)
	_, sc, done := s.SDK()
	c, err := sc.Count(context.Background(), &hydrapb.CountRequest{Swamps: []*hydrapb.CountRequest_SwampIdentifier{{IslandID: 1, SwampName: "t/r/a"}}})
	fmt.Println("count over bufconn:", c, err)
	done()
	s.Stop()
}
