// c07: correspondence check for ordered index reads (beacons) against Swamp/Index.v.
//
// Every case is one history executed on the real engine (in-process gateway, one swamp per
// case): typed Sets with explicit created/updated/expiry times (ties included), updates that
// move a record's sort attribute, deletes, interleaved with GetByIndex / GetByIndexStream
// reads over all 15 index types, both orders, from/limit in {0,1,2,n,n+1} and time windows
// (none, one-sided, half-open, empty, exact-boundary). The history and every returned page go
// to Coq, where (a) the oracle valid_page judges the page against the swamp contents known
// from the history, and (b) the faithful model replays the history and must return the same
// page whenever the state has no ties.
package main

import (
	"context"
	"fmt"
	"math"
	"os"
	"strings"
	"time"

	hydrapb "github.com/hydraide/hydraide/sdk/go/hydraidego/v3/hydraidepbgo"
	"google.golang.org/grpc/metadata"
	"google.golang.org/protobuf/types/known/timestamppb"
	"verif/harness/common"
	"verif/harness/rig"
)

// ---- values ---------------------------------------------------------------------------------

// value types are numbered like the protobuf IndexType (4..14); 0 = not covered by a value index
const (
	vtNone    = 0
	vtInt8    = 4
	vtInt16   = 5
	vtInt32   = 6
	vtInt64   = 7
	vtUint8   = 8
	vtUint16  = 9
	vtUint32  = 10
	vtUint64  = 11
	vtFloat32 = 12
	vtFloat64 = 13
	vtString  = 14
)

var vtName = map[int]string{0: "bool", 4: "int8", 5: "int16", 6: "int32", 7: "int64", 8: "uint8", 9: "uint16",
	10: "uint32", 11: "uint64", 12: "float32", 13: "float64", 14: "string"}

// a value: integer types carry I (or U for uint64), floats carry the numerator Q of Q/4,
// strings carry S; vtNone carries a bool in I
type value struct {
	Vt int    `json:"vt"`
	I  int64  `json:"i,omitempty"`
	U  uint64 `json:"u,omitempty"`
	S  string `json:"s,omitempty"`
}

var pools = map[int][]int64{
	vtInt8:    {-128, -3, -1, 0, 1, 2, 7, 127},
	vtInt16:   {-32768, -3, 0, 1, 2, 9, 300, 32767},
	vtInt32:   {math.MinInt32, -7, 0, 1, 2, 3, 70000, math.MaxInt32},
	vtInt64:   {math.MinInt64, -5, -1, 0, 3, 4, 1 << 40, math.MaxInt64},
	vtUint8:   {0, 1, 2, 3, 9, 100, 200, 255},
	vtUint16:  {0, 1, 2, 5, 256, 1000, 65535},
	vtUint32:  {0, 1, 2, 5, 65536, 1 << 31, math.MaxUint32},
	vtFloat32: {-4000000, -10, -3, -1, 0, 1, 2, 6, 10, 4000000}, // quarters
	vtFloat64: {-4000000, -10, -2, -1, 0, 2, 6, 10, 14, 1 << 50},  // quarters
}
var u64pool = []uint64{0, 1, 2, 7, 1 << 63, math.MaxUint64 - 1, math.MaxUint64}
var strpool = []string{"", "a", "ab", "abc", "b", "B", "aa", "z", "\xc3\xa9", "a b"}

func genValue(r *common.Rng, vt int) value {
	switch vt {
	case vtNone:
		return value{Vt: vt, I: int64(r.Intn(2))}
	case vtUint64:
		return value{Vt: vt, U: u64pool[r.Intn(len(u64pool))]}
	case vtString:
		return value{Vt: vt, S: strpool[r.Intn(len(strpool))]}
	}
	p := pools[vt]
	return value{Vt: vt, I: p[r.Intn(len(p))]}
}

func (v value) apply(kv *hydrapb.KeyValuePair) {
	switch v.Vt {
	case vtNone:
		b := hydrapb.Boolean_FALSE
		if v.I == 1 {
			b = hydrapb.Boolean_TRUE
		}
		kv.BoolVal = &b
	case vtInt8:
		x := int32(v.I)
		kv.Int8Val = &x
	case vtInt16:
		x := int32(v.I)
		kv.Int16Val = &x
	case vtInt32:
		x := int32(v.I)
		kv.Int32Val = &x
	case vtInt64:
		x := v.I
		kv.Int64Val = &x
	case vtUint8:
		x := uint32(v.I)
		kv.Uint8Val = &x
	case vtUint16:
		x := uint32(v.I)
		kv.Uint16Val = &x
	case vtUint32:
		x := uint32(v.I)
		kv.Uint32Val = &x
	case vtUint64:
		x := v.U
		kv.Uint64Val = &x
	case vtFloat32:
		x := float32(v.I) / 4
		kv.Float32Val = &x
	case vtFloat64:
		x := float64(v.I) / 4
		kv.Float64Val = &x
	case vtString:
		x := v.S
		kv.StringVal = &x
	}
}

func zs(v int64) string { // inside a [...]%Z list
	return fmt.Sprintf("%d", v)
}
func skeyBytes(s string) string {
	p := make([]string, len(s))
	for i := 0; i < len(s); i++ {
		p[i] = fmt.Sprintf("%d", s[i])
	}
	return "[" + strings.Join(p, ";") + "]%Z"
}
func (v value) skey() string {
	switch v.Vt {
	case vtUint64:
		return fmt.Sprintf("[%d]%%Z", v.U)
	case vtString:
		return skeyBytes(v.S)
	}
	return "[" + zs(v.I) + "]%Z"
}

// the content of a returned treasure as (value type, skey)
func pbValue(t *hydrapb.Treasure) (int, string, bool) {
	one := func(x int64) string { return "[" + zs(x) + "]%Z" }
	switch {
	case t.Int8Val != nil:
		return vtInt8, one(int64(*t.Int8Val)), true
	case t.Int16Val != nil:
		return vtInt16, one(int64(*t.Int16Val)), true
	case t.Int32Val != nil:
		return vtInt32, one(int64(*t.Int32Val)), true
	case t.Int64Val != nil:
		return vtInt64, one(*t.Int64Val), true
	case t.Uint8Val != nil:
		return vtUint8, one(int64(*t.Uint8Val)), true
	case t.Uint16Val != nil:
		return vtUint16, one(int64(*t.Uint16Val)), true
	case t.Uint32Val != nil:
		return vtUint32, one(int64(*t.Uint32Val)), true
	case t.Uint64Val != nil:
		return vtUint64, fmt.Sprintf("[%d]%%Z", *t.Uint64Val), true
	case t.Float32Val != nil:
		q := float64(*t.Float32Val) * 4
		return vtFloat32, one(int64(q)), q == math.Trunc(q)
	case t.Float64Val != nil:
		q := *t.Float64Val * 4
		return vtFloat64, one(int64(q)), q == math.Trunc(q)
	case t.StringVal != nil:
		return vtString, skeyBytes(*t.StringVal), true
	case t.BoolVal != nil:
		if *t.BoolVal == hydrapb.Boolean_TRUE {
			return vtNone, one(1), true
		}
		return vtNone, one(0), true
	}
	return vtNone, "[]%Z", true
}

// ---- operations -----------------------------------------------------------------------------

const baseSec = int64(1_700_000_000)

// instants are offsets in nanoseconds from baseSec; 0 = absent
type opT struct {
	Kind    string `json:"kind"` // set | del | read
	Key     string `json:"key,omitempty"`
	Val     *value `json:"val,omitempty"`
	Created int64  `json:"created,omitempty"`
	Updated int64  `json:"updated,omitempty"`
	Expiry  int64  `json:"expiry,omitempty"`
	Index   int    `json:"index,omitempty"` // protobuf IndexType
	Desc    bool   `json:"desc,omitempty"`
	From    int32  `json:"from,omitempty"`
	Limit   int32  `json:"limit,omitempty"`
	FromT   int64  `json:"fromT,omitempty"`
	ToT     int64  `json:"toT,omitempty"`
	Stream  bool   `json:"stream,omitempty"`
	// patch: PatchTreasures with PatchMeta (ExpAct: "", "clear", "set"); shiftexp: HowMany; incr: Delta;
	// setbatch: Batch (several key/values, duplicates allowed, in ONE SetRequest); setnoop: NoCreate/NoOverwrite
	ExpAct       string `json:"expAct,omitempty"`
	SetUpdatedAt bool   `json:"setUpdatedAt,omitempty"`
	SetCreatedAt bool   `json:"setCreatedAt,omitempty"`
	HowMany      int32  `json:"howMany,omitempty"`
	Delta        int64  `json:"delta,omitempty"`
	Batch        []opT  `json:"batch,omitempty"`
	Skipped      string `json:"skipped,omitempty"`
	// window bounds given as absolute UnixNano (may be 0 = the epoch, or negative); override FromT/ToT
	FromAbs *int64 `json:"fromAbs,omitempty"`
	ToAbs   *int64 `json:"toAbs,omitempty"`
	// patchexp: PatchExpiredTreasures(HowMany, one op, meta per ExpAct/SetUpdatedAt; OpsOnly = no meta at all)
	OpsOnly bool     `json:"opsOnly,omitempty"`
	Patched []string `json:"patched,omitempty"`
	Shifted      []string `json:"shifted,omitempty"`
	Page    []string `json:"page,omitempty"` // observed (keys), filled by the run
	Failed  string `json:"failed,omitempty"`
}

func nanos(off int64) int64 { return baseSec*1_000_000_000 + off }
func ts(off int64) *timestamppb.Timestamp {
	if off == 0 {
		return nil
	}
	return timestamppb.New(time.Unix(0, nanos(off)))
}
func optZ(off int64) string {
	if off == 0 {
		return "None"
	}
	return fmt.Sprintf("(Some %d%%Z)", nanos(off))
}

func idxTerm(index int) string {
	switch hydrapb.IndexType_Type(index) {
	case hydrapb.IndexType_KEY:
		return "IKey"
	case hydrapb.IndexType_CREATION_TIME:
		return "ICreated"
	case hydrapb.IndexType_UPDATE_TIME:
		return "IUpdated"
	case hydrapb.IndexType_EXPIRATION_TIME:
		return "IExpiry"
	}
	return fmt.Sprintf("(IValue %d%%N)", index)
}

// fake server stream for GetByIndexStream
type fakeStream struct {
	ctx context.Context
	out []*hydrapb.Treasure
}

func (f *fakeStream) Send(r *hydrapb.GetByIndexStreamResponse) error {
	f.out = append(f.out, r.GetTreasure())
	return nil
}
func (f *fakeStream) SetHeader(metadata.MD) error  { return nil }
func (f *fakeStream) SendHeader(metadata.MD) error { return nil }
func (f *fakeStream) SetTrailer(metadata.MD)       {}
func (f *fakeStream) Context() context.Context     { return f.ctx }
func (f *fakeStream) SendMsg(m any) error          { return nil }
func (f *fakeStream) RecvMsg(m any) error          { return nil }

type caseT struct {
	Tag   string `json:"tag"`
	Swamp string `json:"swamp"`
	Ops   []opT  `json:"ops"`
}

// runCase executes the history on the engine and returns the Coq term of the case.
func runCase(srv *rig.Server, c *caseT) (term string, nontrivial bool, reads int) {
	ctx := context.Background()
	var terms []string
	built := map[string]bool{}
	dirty := map[string]bool{}
	famOf := func(index int) string {
		if index >= 4 {
			return "value"
		}
		return fmt.Sprint(index)
	}
	// what the swamp holds according to the history (needed to keep operations applicable:
	// patches need a msgpack body, increments an int64, and the swamp must never be emptied)
	type liveRec struct {
		vt      int
		msgpack bool
		hasExp  bool
	}
	live := map[string]*liveRec{}
	touch := func() {
		for k := range built {
			dirty[k] = true
		}
	}
	setTerm := func(o *opT) string {
		return fmt.Sprintf("(OSet %s %d%%N %s %s %s %s, None)", skeyBytes(o.Key), o.Val.Vt, o.Val.skey(),
			optZ(o.Created), optZ(o.Updated), optZ(o.Expiry))
	}
	noteSet := func(o *opT) {
		r := live[o.Key]
		if r == nil {
			r = &liveRec{}
			live[o.Key] = r
		}
		r.vt, r.msgpack = o.Val.Vt, false
		if o.Expiry != 0 {
			r.hasExp = true
		}
	}
	readBack := func(key string) *hydrapb.Treasure {
		g, err := srv.GW.Get(ctx, &hydrapb.GetRequest{Swamps: []*hydrapb.GetSwamp{{IslandID: 1, SwampName: c.Swamp, Keys: []string{key}}}})
		if err != nil || g == nil || len(g.GetSwamps()) == 0 || len(g.GetSwamps()[0].GetTreasures()) == 0 {
			return nil
		}
		return g.GetSwamps()[0].GetTreasures()[0]
	}
	obsZ := func(t *timestamppb.Timestamp) string {
		if t == nil {
			return "None"
		}
		return fmt.Sprintf("(Some %d%%Z)", t.AsTime().UnixNano())
	}
	for oi := range c.Ops {
		o := &c.Ops[oi]
		switch o.Kind {
		case "set":
			kv := &hydrapb.KeyValuePair{Key: o.Key, CreatedAt: ts(o.Created), UpdatedAt: ts(o.Updated), ExpiredAt: ts(o.Expiry)}
			o.Val.apply(kv)
			resp, err := srv.GW.Set(ctx, &hydrapb.SetRequest{Swamps: []*hydrapb.SwampRequest{{
				IslandID: 1, SwampName: c.Swamp, CreateIfNotExist: true, Overwrite: true, KeyValues: []*hydrapb.KeyValuePair{kv}}}})
			if err != nil || resp == nil {
				o.Failed = fmt.Sprint("set failed: ", err)
			}
			terms = append(terms, setTerm(o))
			noteSet(o)
			touch()
		case "setbatch":
			// several key/values (duplicate keys allowed) in ONE swamp request: applied in order
			var kvs []*hydrapb.KeyValuePair
			for bi := range o.Batch {
				b := &o.Batch[bi]
				kv := &hydrapb.KeyValuePair{Key: b.Key, CreatedAt: ts(b.Created), UpdatedAt: ts(b.Updated), ExpiredAt: ts(b.Expiry)}
				b.Val.apply(kv)
				kvs = append(kvs, kv)
			}
			resp, err := srv.GW.Set(ctx, &hydrapb.SetRequest{Swamps: []*hydrapb.SwampRequest{{
				IslandID: 1, SwampName: c.Swamp, CreateIfNotExist: true, Overwrite: true, KeyValues: kvs}}})
			if err != nil || resp == nil {
				o.Failed = fmt.Sprint("set failed: ", err)
			}
			for bi := range o.Batch {
				terms = append(terms, setTerm(&o.Batch[bi]))
				noteSet(&o.Batch[bi])
			}
			touch()
		case "setnoop":
			// a Set that must not change anything: Overwrite=false on an existing key, or
			// CreateIfNotExist=false on a missing key (no model step)
			_, exists := live[o.Key]
			kv := &hydrapb.KeyValuePair{Key: o.Key, CreatedAt: ts(o.Created), UpdatedAt: ts(o.Updated), ExpiredAt: ts(o.Expiry)}
			o.Val.apply(kv)
			_, err := srv.GW.Set(ctx, &hydrapb.SetRequest{Swamps: []*hydrapb.SwampRequest{{
				IslandID: 1, SwampName: c.Swamp, CreateIfNotExist: exists, Overwrite: !exists, KeyValues: []*hydrapb.KeyValuePair{kv}}}})
			if err != nil {
				o.Failed = fmt.Sprint("set failed: ", err)
			}
		case "patch":
			r := live[o.Key]
			if r != nil && !r.msgpack {
				o.Skipped = "key does not hold a msgpack body"
				continue
			}
			meta := &hydrapb.PatchMeta{SetUpdatedAt: o.SetUpdatedAt, SetCreatedAt: o.SetCreatedAt}
			switch o.ExpAct {
			case "clear":
				meta.ClearExpiredAt = true
			case "set":
				meta.SetExpiredAt = ts(o.Expiry)
			}
			resp, err := srv.GW.PatchTreasures(ctx, &hydrapb.PatchTreasuresRequest{IslandID: 1, SwampName: c.Swamp, CreateIfNotExist: true,
				Meta: meta, Patches: []*hydrapb.TreasurePatch{{Key: o.Key, Ops: []*hydrapb.PatchOp{{Op: hydrapb.PatchOp_SET, Path: "n", Value: []byte{byte(oi % 100)}}}}}})
			if err != nil || resp == nil || len(resp.GetResults()) != 1 ||
				(resp.GetResults()[0].GetStatus() != hydrapb.PatchResult_PATCHED && resp.GetResults()[0].GetStatus() != hydrapb.PatchResult_CREATED) {
				o.Failed = fmt.Sprint("patch not applied: ", err, resp)
				continue
			}
			created := resp.GetResults()[0].GetStatus() == hydrapb.PatchResult_CREATED
			// the server stamps its own clock: observe the stamped values (M2)
			cT, uT, eT := "None", "None", "None"
			if (created && o.SetCreatedAt) || o.SetUpdatedAt {
				if t := readBack(o.Key); t != nil {
					if created && o.SetCreatedAt {
						cT = obsZ(t.CreatedAt)
					}
					if o.SetUpdatedAt {
						uT = obsZ(t.UpdatedAt)
					}
				} else {
					o.Failed = "patched record cannot be read back"
				}
			}
			if r == nil {
				r = &liveRec{}
				live[o.Key] = r
			}
			r.vt, r.msgpack = vtNone, true
			switch o.ExpAct {
			case "clear":
				eT = "(Some 0%Z)"
				r.hasExp = false
			case "set":
				eT = optZ(o.Expiry)
				r.hasExp = true
			}
			terms = append(terms, fmt.Sprintf("(OPatch %s %s %s %s, None)", skeyBytes(o.Key), cT, uT, eT))
			touch()
		case "incr":
			r := live[o.Key]
			if r != nil && r.vt != vtInt64 {
				o.Skipped = "key does not hold an int64"
				continue
			}
			resp, err := srv.GW.IncrementInt64(ctx, &hydrapb.IncrementInt64Request{IslandID: 1, SwampName: c.Swamp, Key: o.Key, IncrementBy: o.Delta})
			if err != nil || resp == nil || !resp.GetIsIncremented() {
				o.Failed = fmt.Sprint("increment failed: ", err)
				continue
			}
			if r == nil {
				r = &liveRec{}
				live[o.Key] = r
			}
			r.vt, r.msgpack = vtInt64, false
			terms = append(terms, fmt.Sprintf("(OSet %s %d%%N [%d]%%Z None None None, None)", skeyBytes(o.Key), vtInt64, resp.GetValue()))
			touch()
		case "patchexp":
			// PatchExpiredTreasures: up to HowMany expired records (oldest expiry first) get one op and
			// the meta; which ones were selected is C11/C30's business, here every record reported
			// PATCHED is an in-place patch (M2); the others are unchanged but still pass through the
			// remove-from-DESC / ReindexExpiration / re-add choreography
			req := &hydrapb.PatchExpiredTreasuresRequest{IslandID: 1, SwampName: c.Swamp, HowMany: o.HowMany,
				Ops: []*hydrapb.PatchOp{{Op: hydrapb.PatchOp_SET, Path: "p", Value: []byte{byte(oi % 100)}}}}
			if !o.OpsOnly {
				req.Meta = &hydrapb.PatchMeta{SetUpdatedAt: o.SetUpdatedAt}
				switch o.ExpAct {
				case "clear":
					req.Meta.ClearExpiredAt = true
				case "set":
					req.Meta.SetExpiredAt = ts(o.Expiry)
				}
			}
			resp, err := srv.GW.PatchExpiredTreasures(ctx, req)
			if err != nil || resp == nil {
				o.Failed = fmt.Sprint("patch expired failed: ", err)
				continue
			}
			o.Patched = []string{}
			for _, pr := range resp.GetPatched() {
				if pr.GetStatus() != hydrapb.PatchResult_PATCHED {
					continue
				}
				o.Patched = append(o.Patched, pr.Key)
				uT, eT := "None", "None"
				if !o.OpsOnly && o.SetUpdatedAt {
					if t := readBack(pr.Key); t != nil {
						uT = obsZ(t.UpdatedAt)
					} else {
						o.Failed = "patched record cannot be read back"
					}
				}
				if r := live[pr.Key]; r != nil && !o.OpsOnly {
					switch o.ExpAct {
					case "clear":
						eT = "(Some 0%Z)"
						r.hasExp = false
					case "set":
						eT = optZ(o.Expiry)
					}
				}
				terms = append(terms, fmt.Sprintf("(OPatch %s None %s %s, None)", skeyBytes(pr.Key), uT, eT))
			}
			touch()
		case "shiftexp":
			nexp := 0
			for _, r := range live {
				if r.hasExp {
					nexp++
				}
			}
			take := int(o.HowMany)
			if take > nexp {
				take = nexp
			}
			if len(live)-take < 1 {
				o.Skipped = "would empty the swamp"
				continue
			}
			resp, err := srv.GW.ShiftExpiredTreasures(ctx, &hydrapb.ShiftExpiredTreasuresRequest{IslandID: 1, SwampName: c.Swamp, HowMany: o.HowMany})
			if err != nil || resp == nil {
				o.Failed = fmt.Sprint("shift expired failed: ", err)
				continue
			}
			// which records were claimed is C11/C30's business; here they are deletes (M2)
			o.Shifted = []string{}
			for _, t := range resp.GetTreasures() {
				o.Shifted = append(o.Shifted, t.Key)
				delete(live, t.Key)
				terms = append(terms, fmt.Sprintf("(ODel %s, None)", skeyBytes(t.Key)))
			}
			touch()
		case "del":
			if _, ok := live[o.Key]; ok && len(live) == 1 {
				o.Skipped = "would empty the swamp"
				continue
			}
			delete(live, o.Key)
			resp, err := srv.GW.Delete(ctx, &hydrapb.DeleteRequest{Swamps: []*hydrapb.DeleteRequest_SwampKeys{{
				IslandID: 1, SwampName: c.Swamp, Keys: []string{o.Key}}}})
			if err != nil || resp == nil {
				o.Failed = fmt.Sprint("delete failed: ", err)
			}
			terms = append(terms, fmt.Sprintf("(ODel %s, None)", skeyBytes(o.Key)))
			touch()
		case "read":
			reads++
			var out []*hydrapb.Treasure
			var err error
			ord := hydrapb.OrderType_ASC
			if o.Desc {
				ord = hydrapb.OrderType_DESC
			}
			fromTS, toTS, fromZ, toZ := ts(o.FromT), ts(o.ToT), optZ(o.FromT), optZ(o.ToT)
			if o.FromAbs != nil {
				fromTS, fromZ = timestamppb.New(time.Unix(0, *o.FromAbs)), fmt.Sprintf("(Some (%d)%%Z)", *o.FromAbs)
			}
			if o.ToAbs != nil {
				toTS, toZ = timestamppb.New(time.Unix(0, *o.ToAbs)), fmt.Sprintf("(Some (%d)%%Z)", *o.ToAbs)
			}
			if o.Stream {
				fs := &fakeStream{ctx: ctx}
				err = srv.GW.GetByIndexStream(&hydrapb.GetByIndexStreamRequest{IslandID: 1, SwampName: c.Swamp,
					IndexType: hydrapb.IndexType_Type(o.Index), OrderType: ord, From: o.From, Limit: o.Limit,
					FromTime: fromTS, ToTime: toTS}, fs)
				out = fs.out
			} else {
				var resp *hydrapb.GetByIndexResponse
				resp, err = srv.GW.GetByIndex(ctx, &hydrapb.GetByIndexRequest{IslandID: 1, SwampName: c.Swamp,
					IndexType: hydrapb.IndexType_Type(o.Index), OrderType: ord, From: o.From, Limit: o.Limit,
					FromTime: fromTS, ToTime: toTS})
				if err == nil && resp == nil {
					err = fmt.Errorf("nil response (panic recovered in the gateway)")
				}
				out = resp.GetTreasures()
			}
			obs := "None"
			if err != nil {
				o.Failed = err.Error()
			} else {
				var ps []string
				o.Page = []string{}
				for _, t := range out {
					var attr string
					switch hydrapb.IndexType_Type(o.Index) {
					case hydrapb.IndexType_KEY:
						attr = skeyBytes(t.Key)
					case hydrapb.IndexType_CREATION_TIME:
						attr = tsAttr(t.CreatedAt)
					case hydrapb.IndexType_UPDATE_TIME:
						attr = tsAttr(t.UpdatedAt)
					case hydrapb.IndexType_EXPIRATION_TIME:
						attr = tsAttr(t.ExpiredAt)
					default:
						_, a, exact := pbValue(t)
						if !exact {
							a = "[]%Z"
						}
						attr = a
					}
					ps = append(ps, "("+skeyBytes(t.Key)+", "+attr+")")
					o.Page = append(o.Page, t.Key)
				}
				obs = "(Some [" + strings.Join(ps, "; ") + "])"
				fam := famOf(o.Index)
				if built[fam] && dirty[fam] && len(out) > 0 {
					nontrivial = true
				}
				built[fam] = true
				dirty[fam] = false
			}
			terms = append(terms, fmt.Sprintf("(ORead %s %s %d%%N %d%%N %s %s, %s)", idxTerm(o.Index), common.Bool(!o.Desc),
				o.From, o.Limit, fromZ, toZ, obs))
		}
	}
	return "[" + strings.Join(terms, ";\n   ") + "]", nontrivial, reads
}

func tsAttr(t *timestamppb.Timestamp) string {
	if t == nil {
		return "[0]%Z"
	}
	return fmt.Sprintf("[%d]%%Z", t.AsTime().UnixNano())
}

// ---- generation -----------------------------------------------------------------------------

var keyPool = []string{"a", "ab", "abc", "b", "B", "k1", "k10", "k2", "z", "\xc3\xa9", "k", "Z9"}

// instants (ns offsets): a few whole seconds and neighbours one nanosecond apart
var instants = []int64{1_000_000_000, 2_000_000_000, 2_000_000_001, 3_000_000_000, 5_000_000_000, 5_000_000_001, 8_000_000_000, 13_000_000_000}

// an expiry that has not passed when the run executes (offset from baseSec: about 30 years)
const farFuture = int64(1_000_000_000) * 1_000_000_000

var allIndexes = []int{0, 1, 2, 3, 4, 5, 6, 7, 8, 9, 10, 11, 12, 13, 14}
var valueTypes = []int{4, 5, 6, 7, 8, 9, 10, 11, 12, 13, 14}

func genCase(r *common.Rng, maxOps int) caseT {
	nkeys := 3 + r.Intn(10)
	keys := append([]string{}, keyPool...)
	for i := len(keys) - 1; i > 0; i-- { // shuffle
		j := r.Intn(i + 1)
		keys[i], keys[j] = keys[j], keys[i]
	}
	keys = keys[:nkeys]
	primary := valueTypes[r.Intn(len(valueTypes))]
	mixed := r.Chance(20)
	tag := "uniform_" + vtName[primary]
	if mixed {
		tag = "mixed"
	}
	pickVt := func() int {
		if mixed && r.Chance(45) {
			if r.Chance(20) {
				return vtNone
			}
			return valueTypes[r.Intn(len(valueTypes))]
		}
		return primary
	}
	inst := func(p int) int64 {
		if !r.Chance(p) {
			return 0
		}
		return instants[r.Intn(len(instants))]
	}
	live := map[string]bool{}
	nlive := 0
	var ops []opT
	// the last npatch keys are (mostly) written through PatchTreasures: msgpack bodies
	npatch := 1 + r.Intn(3)
	if npatch >= nkeys {
		npatch = 1
	}
	patchKeys := keys[nkeys-npatch:]
	setKey := func() string {
		if r.Chance(12) {
			return keys[r.Intn(nkeys)]
		}
		return keys[r.Intn(nkeys-npatch)]
	}
	mark := func(k string) {
		if !live[k] {
			live[k] = true
			nlive++
		}
	}
	genSet := func(k string, kind string) opT {
		v := genValue(r, pickVt())
		o := opT{Kind: kind, Key: k, Val: &v}
		if live[k] { // update: move some attributes
			o.Created, o.Updated, o.Expiry = inst(30), inst(60), inst(30)
		} else {
			o.Created, o.Updated, o.Expiry = inst(80), inst(70), inst(55)
		}
		return o
	}
	mkSet := func(k string) {
		ops = append(ops, genSet(k, "set"))
		mark(k)
	}
	mkPatch := func(k string, forceExp bool) {
		o := opT{Kind: "patch", Key: k, SetUpdatedAt: r.Bool(), SetCreatedAt: r.Bool()}
		switch y := r.Intn(100); {
		case forceExp || y < 35:
			o.ExpAct, o.Expiry = "set", instants[r.Intn(len(instants))]
			if r.Chance(15) {
				o.Expiry = farFuture // not yet expired: never claimed by shiftexp
			}
		case y < 70:
			o.ExpAct = "clear"
		}
		ops = append(ops, o)
		mark(k)
	}
	// start with a few records so that the first reads build non-empty indexes
	for i := 0; i < 2+r.Intn(3) && i < nkeys-npatch; i++ {
		mkSet(keys[i])
	}
	for _, k := range patchKeys {
		if r.Chance(70) {
			mkPatch(k, true)
		}
	}
	n := 12 + r.Intn(maxOps-11)
	for len(ops) < n {
		x := r.Intn(100)
		switch {
		case x < 28:
			mkSet(setKey())
		case x < 31: // several key/values, possibly the same key twice, in one request
			o := opT{Kind: "setbatch"}
			m := 2 + r.Intn(2)
			first := setKey()
			for j := 0; j < m; j++ {
				k := setKey()
				if j > 0 && r.Chance(40) {
					k = first
				}
				o.Batch = append(o.Batch, genSet(k, "set"))
				mark(k)
			}
			ops = append(ops, o)
		case x < 33:
			ops = append(ops, genSet(keys[r.Intn(nkeys)], "setnoop"))
		case x < 42:
			mkPatch(patchKeys[r.Intn(len(patchKeys))], false)
		case x < 45:
			ops = append(ops, opT{Kind: "incr", Key: setKey(), Delta: int64(r.Intn(9)) - 3})
		case x < 47:
			ops = append(ops, opT{Kind: "shiftexp", HowMany: int32(1 + r.Intn(2))})
		case x < 51:
			o := opT{Kind: "patchexp", HowMany: int32(1 + r.Intn(4)), OpsOnly: r.Chance(40), SetUpdatedAt: r.Bool()}
			switch y := r.Intn(100); {
			case y < 30:
				o.ExpAct, o.Expiry = "set", instants[r.Intn(len(instants))]
				if r.Chance(40) {
					o.Expiry = farFuture
				}
			case y < 45:
				o.ExpAct = "clear"
			}
			ops = append(ops, o)
			if r.Chance(70) { // look at the expiry index right away, mostly descending
				ops = append(ops, opT{Kind: "read", Index: 1, Desc: r.Chance(65), Stream: r.Chance(30)})
			}
		case x < 56:
			k := keys[r.Intn(nkeys)]
			if live[k] && nlive > 1 {
				ops = append(ops, opT{Kind: "del", Key: k})
				live[k] = false
				nlive--
			}
		default:
			o := opT{Kind: "read", Desc: r.Bool(), Stream: r.Chance(30)}
			switch y := r.Intn(100); {
			case y < 45:
				o.Index = 1 + r.Intn(3) // a time index
			case y < 55:
				o.Index = 0
			case y < 90 || !mixed:
				o.Index = primary
				if r.Chance(8) {
					o.Index = valueTypes[r.Intn(len(valueTypes))]
				}
			default:
				o.Index = valueTypes[r.Intn(len(valueTypes))]
			}
			fl := []int32{0, 1, 2, int32(nlive), int32(nlive + 1)}
			o.From = fl[r.Intn(5)]
			o.Limit = fl[r.Intn(5)]
			if r.Chance(35) {
				o.From = 0
			}
			if o.Index >= 1 && o.Index <= 3 {
				a, b := instants[r.Intn(len(instants))], instants[r.Intn(len(instants))]
				abs := func() *int64 { // bounds at and around the Unix epoch
					v := []int64{0, 0, -1, 1, -1_000_000_000, -86_400_000_000_000, 999_999_999, 1_000_000_000}[r.Intn(8)]
					return &v
				}
				switch r.Intn(9) {
				case 7: // upper bound at/before the epoch (alone or with a lower bound)
					o.ToAbs = abs()
					if r.Bool() {
						o.FromAbs = abs()
					}
				case 8: // lower bound at/before the epoch, upper bound none or an instant
					o.FromAbs = abs()
					if r.Bool() {
						o.ToT = a
					}
				case 0: // none
				case 1:
					o.FromT = a
				case 2:
					o.ToT = a
				case 3: // half-open
					if a > b {
						a, b = b, a
					}
					o.FromT, o.ToT = a, b
				case 4: // empty: from = to, or from > to
					if a < b {
						a, b = b, a
					}
					o.FromT, o.ToT = a, b
				case 5: // boundary one nanosecond above an instant
					o.FromT, o.ToT = a+1, b+1
				case 6:
					o.FromT, o.ToT = a, a+1
				}
			}
			ops = append(ops, o)
		}
	}
	return caseT{Tag: tag, Ops: ops}
}

func i64(v int64) *int64 { return &v }

func fv(vt int, i int64) *value { return &value{Vt: vt, I: i} }

// the histories behind the _refuted_legacy theorems and DESIGN.md section 2, run first
func witnesses() []caseT {
	rd := func(index int, desc bool, fromT, toT int64) opT {
		return opT{Kind: "read", Index: index, Desc: desc, FromT: fromT, ToT: toT}
	}
	s := instants
	return []caseT{
		{Tag: "witness_float64_insert_after_build", Ops: []opT{
			{Kind: "set", Key: "a", Val: fv(vtFloat64, 6)}, {Kind: "set", Key: "b", Val: fv(vtFloat64, 10)}, {Kind: "set", Key: "c", Val: fv(vtFloat64, 14)},
			rd(13, false, 0, 0), {Kind: "set", Key: "d", Val: fv(vtFloat64, 2)}, rd(13, false, 0, 0), rd(13, true, 0, 0)}},
		{Tag: "witness_string_insert_after_build", Ops: []opT{
			{Kind: "set", Key: "a", Val: &value{Vt: vtString, S: "b"}}, {Kind: "set", Key: "b", Val: &value{Vt: vtString, S: "z"}},
			rd(14, false, 0, 0), {Kind: "set", Key: "c", Val: &value{Vt: vtString, S: "a"}}, rd(14, false, 0, 0)}},
		{Tag: "witness_update_moves_updated_at", Ops: []opT{
			{Kind: "set", Key: "a", Val: fv(vtInt64, 1), Updated: s[0]}, {Kind: "set", Key: "b", Val: fv(vtInt64, 2), Updated: s[1]},
			{Kind: "set", Key: "c", Val: fv(vtInt64, 3), Updated: s[3]}, rd(3, false, 0, 0),
			{Kind: "set", Key: "a", Val: fv(vtInt64, 1), Updated: s[6]}, rd(3, false, 0, 0), rd(3, false, s[1], s[7])}},
		{Tag: "witness_update_moves_int64_value", Ops: []opT{
			{Kind: "set", Key: "a", Val: fv(vtInt64, 1)}, {Kind: "set", Key: "b", Val: fv(vtInt64, 2)}, {Kind: "set", Key: "c", Val: fv(vtInt64, 3)},
			rd(7, false, 0, 0), {Kind: "set", Key: "a", Val: fv(vtInt64, 9)}, rd(7, false, 0, 0)}},
		{Tag: "witness_created_at_added_later", Ops: []opT{
			{Kind: "set", Key: "a", Val: fv(vtInt64, 1), Created: s[0]}, {Kind: "set", Key: "b", Val: fv(vtInt64, 2)},
			rd(2, false, 0, 0), {Kind: "set", Key: "b", Val: fv(vtInt64, 2), Created: s[1]}, rd(2, false, 0, 0)}},
		{Tag: "witness_patch_clears_expiry_after_build", Ops: []opT{
			{Kind: "patch", Key: "a", ExpAct: "set", Expiry: s[0]}, {Kind: "patch", Key: "b", ExpAct: "set", Expiry: s[1]},
			{Kind: "patch", Key: "c", ExpAct: "set", Expiry: s[3]}, rd(1, false, 0, 0),
			{Kind: "patch", Key: "b", ExpAct: "clear"}, rd(1, false, 0, 0), rd(1, true, 0, 0)}},
		{Tag: "witness_patch_moves_expiry_and_stamps_updated_at", Ops: []opT{
			{Kind: "patch", Key: "a", ExpAct: "set", Expiry: s[0], SetUpdatedAt: true, SetCreatedAt: true},
			{Kind: "patch", Key: "b", ExpAct: "set", Expiry: s[1], SetUpdatedAt: true, SetCreatedAt: true},
			{Kind: "patch", Key: "c", ExpAct: "set", Expiry: s[3], SetUpdatedAt: true}, rd(1, false, 0, 0), rd(3, false, 0, 0), rd(2, true, 0, 0),
			{Kind: "patch", Key: "a", ExpAct: "set", Expiry: s[6], SetUpdatedAt: true}, rd(1, false, 0, 0), rd(3, false, 0, 0), rd(1, true, s[1], s[7])}},
		{Tag: "witness_shift_expired_leaves_all_indexes", Ops: []opT{
			{Kind: "set", Key: "a", Val: fv(vtInt64, 1), Created: s[0], Expiry: s[3]}, {Kind: "set", Key: "b", Val: fv(vtInt64, 2), Created: s[1], Expiry: s[0]},
			{Kind: "set", Key: "c", Val: fv(vtInt64, 3), Created: s[3]}, rd(0, false, 0, 0), rd(1, false, 0, 0), rd(2, false, 0, 0), rd(7, true, 0, 0),
			{Kind: "shiftexp", HowMany: 1}, rd(0, false, 0, 0), rd(1, false, 0, 0), rd(2, false, 0, 0), rd(7, true, 0, 0)}},
		{Tag: "witness_increment_moves_int64_value", Ops: []opT{
			{Kind: "set", Key: "a", Val: fv(vtInt64, 1)}, {Kind: "set", Key: "b", Val: fv(vtInt64, 2)}, {Kind: "set", Key: "c", Val: fv(vtInt64, 3)},
			rd(7, false, 0, 0), {Kind: "incr", Key: "a", Delta: 5}, {Kind: "incr", Key: "d", Delta: -2}, rd(7, false, 0, 0), rd(7, true, 0, 0)}},
		{Tag: "witness_duplicate_key_in_one_set_request", Ops: []opT{
			{Kind: "set", Key: "a", Val: fv(vtInt64, 5), Updated: s[1]}, {Kind: "set", Key: "b", Val: fv(vtInt64, 2), Updated: s[3]}, rd(7, false, 0, 0), rd(3, false, 0, 0),
			{Kind: "setbatch", Batch: []opT{{Kind: "set", Key: "a", Val: fv(vtInt64, 1), Updated: s[6]}, {Kind: "set", Key: "c", Val: fv(vtInt64, 9), Updated: s[0]}, {Kind: "set", Key: "a", Val: fv(vtInt64, 7), Updated: s[2]}}},
			rd(7, false, 0, 0), rd(3, false, 0, 0)}},
		{Tag: "witness_patch_expired_ops_only_keeps_both_expiry_indexes", Ops: []opT{
			{Kind: "patch", Key: "a", ExpAct: "set", Expiry: s[0]}, {Kind: "patch", Key: "b", ExpAct: "set", Expiry: s[1]},
			{Kind: "patch", Key: "c", ExpAct: "set", Expiry: s[3]}, {Kind: "set", Key: "d", Val: fv(vtInt64, 4), Expiry: s[2]},
			rd(1, false, 0, 0), rd(1, true, 0, 0),
			{Kind: "patchexp", HowMany: 3, OpsOnly: true}, rd(1, true, 0, 0), rd(1, false, 0, 0), rd(1, true, s[0], s[3]),
			{Kind: "patchexp", HowMany: 2, SetUpdatedAt: true}, rd(1, true, 0, 0), rd(3, true, 0, 0),
			{Kind: "patchexp", HowMany: 2, ExpAct: "set", Expiry: s[6]}, rd(1, true, 0, 0), rd(1, false, 0, 0),
			{Kind: "patchexp", HowMany: 1, ExpAct: "clear"}, rd(1, true, 0, 0), rd(1, false, 0, 0)}},
		{Tag: "witness_window_bounds_at_and_before_the_epoch", Ops: []opT{
			{Kind: "set", Key: "a", Val: fv(vtInt64, 1), Created: s[0], Updated: s[1], Expiry: s[3]},
			{Kind: "set", Key: "b", Val: fv(vtInt64, 2), Created: s[1], Updated: s[0], Expiry: s[0]},
			{Kind: "read", Index: 2, ToAbs: i64(0)}, {Kind: "read", Index: 2, Desc: true, ToAbs: i64(-1_000_000_000)},
			{Kind: "read", Index: 3, FromAbs: i64(0)}, {Kind: "read", Index: 1, FromAbs: i64(-1), ToAbs: i64(0), Stream: true},
			{Kind: "read", Index: 1, Desc: true, FromAbs: i64(0), ToT: s[3]}, {Kind: "read", Index: 3, ToAbs: i64(1), Stream: true}}},
		{Tag: "witness_mixed_value_types", Ops: []opT{
			{Kind: "set", Key: "a", Val: fv(vtInt64, 5)}, {Kind: "set", Key: "b", Val: &value{Vt: vtString, S: "x"}}, {Kind: "set", Key: "c", Val: fv(vtInt64, 1)},
			rd(7, false, 0, 0), rd(14, false, 0, 0), rd(7, true, 0, 0)}},
	}
}

func main() {
	a := common.ParseArgs()
	run := common.NewRun(a, "C07", "HV.Swamp.Index")
	run.Meta.Rule = "a case is one history (typed Sets with explicit created/updated/expiry instants incl. ties, updates moving the sort attribute, multi-key Sets with duplicate keys, no-effect Sets, PatchTreasures with meta that sets/moves/CLEARS the expiry and stamps created/updated, IncrementInt64, ShiftExpiredTreasures, PatchExpiredTreasures (ops-only / meta / moved / cleared expiry) followed by expiry reads, deletes, 3-12 keys; windows incl. bounds at and before the Unix epoch) on one swamp of the real engine, interleaved with GetByIndex/GetByIndexStream reads; every read page is judged by valid_page and, on tie-free states, compared with the model; non-trivial = some read returned a non-empty page from an index that had been built by an earlier read and was maintained (insert/update/delete) since"
	rng := common.NewRng(a.Seed, "C07")
	rig.Quiet()
	root, err := os.MkdirTemp("", "c07")
	if err != nil {
		panic(err)
	}
	defer os.RemoveAll(root)
	srv := rig.Start(root, true)
	srv.Register("c7m/*/*", true, 3600, 1, 8192)
	srv.Register("c7p/*/*", false, 3600, 1, 8192)

	ncases, maxOps := 500, 36
	if a.Tier == "thorough" {
		ncases, maxOps = 6000, 60
	}
	cases := witnesses()
	for i := 0; i < ncases; i++ {
		cases = append(cases, genCase(rng.Fork(fmt.Sprint("case", i)), maxOps))
	}
	for i := range cases {
		sanct := "c7m"
		if i%2 == 1 {
			sanct = "c7p"
		}
		cases[i].Swamp = fmt.Sprintf("%s/s%d/h%d", sanct, a.Seed, i)
	}
	type res struct {
		term  string
		nt    bool
		reads int
	}
	out := make([]res, len(cases))
	common.Parallel(len(cases), 16, func(i int) {
		if a.Only >= 0 && i != a.Only {
			return
		}
		t, nt, rd := runCase(srv, &cases[i])
		out[i] = res{t, nt, rd}
	})
	totalReads := 0
	for i := range cases {
		if a.Only >= 0 && i != a.Only {
			continue
		}
		run.Add(out[i].term, cases[i], out[i].nt)
		run.Hist("kind_" + cases[i].Tag)
		totalReads += out[i].reads
		for _, o := range cases[i].Ops {
			if o.Kind == "read" {
				k := "read_index_" + hydrapb.IndexType_Type(o.Index).String()
				run.Hist(k)
				if o.FromT != 0 || o.ToT != 0 {
					run.Hist("read_windowed")
				}
				if o.Stream {
					run.Hist("read_stream")
				}
				if o.FromAbs != nil || o.ToAbs != nil {
					run.Hist("read_window_epoch_bound")
				}
				if len(o.Page) > 0 {
					run.Hist("read_nonempty")
				}
			} else if o.Skipped != "" {
				run.Hist("op_" + o.Kind + "_skipped")
			} else {
				run.Hist("op_" + o.Kind)
				if o.Kind == "patchexp" {
					run.HistN("patchexp_records_patched", len(o.Patched))
					if o.OpsOnly {
						run.Hist("op_patchexp_ops_only")
					}
				}
				if o.Kind == "patch" && o.ExpAct != "" {
					run.Hist("op_patch_expiry_" + o.ExpAct)
				}
				if o.Failed != "" {
					run.Hist("op_" + o.Kind + "_failed")
				}
			}
		}
	}
	run.Meta.Extra["reads_checked"] = totalReads
	run.Meta.Traces = run.Meta.Evaluations
	srv.Stop()
	run.Finish("check_all")
}
