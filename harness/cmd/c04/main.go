// c04: correspondence check for "corrupt storage files are detected, never misread or crash
// the server" (chronicler/v2 reader.go, block.go, types.go) against Storage/C04Reader.v.
//
// Every case is one byte string presented as a .hyd file: valid files built with the real
// writer / real block encoder, and truncated, bit-flipped, field-forged, re-checksummed,
// spliced and garbage variants of them. Each file is loaded by the REAL code
// (NewFileReader+LoadIndex, ScanBlockHeaders, ReadSwampName) inside a child process with a
// watchdog, an address-space limit and runtime allocation accounting. The case records what
// the implementation did; Coq re-reads the same bytes with the byte-exact model (including
// its own CRC-32 and Snappy decoder) and evaluates the property oracle.
package main

import (
	"bufio"
	"bytes"
	"encoding/binary"
	"encoding/hex"
	"encoding/json"
	"errors"
	"fmt"
	"hash/crc32"
	"io"
	"os"
	"os/exec"
	"path/filepath"
	"runtime"
	"sort"
	"strings"
	"syscall"
	"time"

	"github.com/golang/snappy"
	v2 "github.com/hydraide/hydraide/app/core/hydra/swamp/chronicler/v2"
	"verif/harness/common"
)

// ---------------------------------------------------------------- observations

type kv struct {
	K []byte `json:"k"`
	V []byte `json:"v"`
}

type obs struct {
	LoadKind string `json:"lk"` // ok | err | panic | timeout
	LoadErr  string `json:"le,omitempty"`
	LoadMsg  string `json:"lm,omitempty"`
	Idx      []kv   `json:"idx,omitempty"`
	Name     []byte `json:"name,omitempty"`
	ScanKind string `json:"sk"`
	ScanErr  string `json:"se,omitempty"`
	BC       uint64 `json:"bc"`
	EC       uint64 `json:"ec"`
	US       uint64 `json:"us"`
	NameKind string `json:"nk"`
	NameErr  string `json:"ne,omitempty"`
	RName    []byte `json:"rname,omitempty"`
	FragKind string `json:"fk"` // CalculateFragmentation
	FragErr  string `json:"fe,omitempty"`
	Live     uint64 `json:"live"`
	Total    uint64 `json:"total"`
	BlkKind  string `json:"bk"` // ReadAllBlocks
	BlkErr   string `json:"be,omitempty"`
	NBlk     uint64 `json:"nblk"`
	NEnt     uint64 `json:"nent"`
	AllocAll uint64 `json:"aa"` // largest TotalAlloc delta of a single entry point
	AllocLd  uint64 `json:"al"` // TotalAlloc delta of NewFileReader+LoadIndex
	Detail   string `json:"detail,omitempty"`
}

func classify(err error) string {
	switch {
	case errors.Is(err, io.EOF), errors.Is(err, io.ErrUnexpectedEOF):
		return "EShort"
	case errors.Is(err, v2.ErrInvalidMagic):
		return "EMagic"
	case errors.Is(err, v2.ErrUnsupportedVer):
		return "EVersion"
	case errors.Is(err, v2.ErrCorruptedBlock), errors.Is(err, snappy.ErrCorrupt),
		errors.Is(err, snappy.ErrTooLarge), errors.Is(err, snappy.ErrUnsupported),
		strings.HasPrefix(err.Error(), "snappy:"):
		return "ECorrupt"
	case errors.Is(err, v2.ErrCorruptedEntry), errors.Is(err, v2.ErrEmptyKey):
		return "EEntry"
	}
	return "EOther"
}

// loadFile runs the three observed entry points of the real reader on the file at path.
func loadFile(path string) (o obs) {
	var m0, m1, m1b, m2, m3, m4 runtime.MemStats
	runtime.ReadMemStats(&m0)
	func() {
		defer func() {
			if r := recover(); r != nil {
				o.LoadKind, o.Detail = "panic", fmt.Sprint(r)
			}
		}()
		fr, err := v2.NewFileReader(path)
		if err != nil {
			o.LoadKind, o.LoadErr, o.LoadMsg = "err", classify(err), err.Error()
			return
		}
		defer fr.Close()
		idx, name, err := fr.LoadIndex()
		if err != nil {
			o.LoadKind, o.LoadErr, o.LoadMsg = "err", classify(err), err.Error()
			return
		}
		o.LoadKind = "ok"
		o.Name = []byte(name)
		for k, v := range idx {
			o.Idx = append(o.Idx, kv{[]byte(k), v})
		}
	}()
	runtime.ReadMemStats(&m1)
	func() {
		defer func() {
			if r := recover(); r != nil {
				o.ScanKind, o.Detail = "panic", fmt.Sprint(r)
			}
		}()
		fr, err := v2.NewFileReader(path)
		if err != nil {
			o.ScanKind, o.ScanErr = "err", classify(err)
			return
		}
		defer fr.Close()
		r, err := fr.ScanBlockHeaders()
		if err != nil {
			o.ScanKind, o.ScanErr = "err", classify(err)
			return
		}
		o.ScanKind, o.BC, o.EC, o.US = "ok", r.BlockCount, r.TotalEntryCount, r.TotalUncompressedSize
	}()
	runtime.ReadMemStats(&m1b)
	func() {
		defer func() {
			if r := recover(); r != nil {
				o.NameKind, o.Detail = "panic", fmt.Sprint(r)
			}
		}()
		n, err := v2.ReadSwampName(path)
		if err != nil {
			o.NameKind, o.NameErr = "err", classify(err)
			return
		}
		o.NameKind, o.RName = "ok", []byte(n)
	}()
	runtime.ReadMemStats(&m2)
	func() {
		defer func() {
			if r := recover(); r != nil {
				o.FragKind, o.Detail = "panic", fmt.Sprint(r)
			}
		}()
		fr, err := v2.NewFileReader(path)
		if err != nil {
			o.FragKind, o.FragErr = "err", classify(err)
			return
		}
		defer fr.Close()
		_, live, total, err := fr.CalculateFragmentation()
		if err != nil {
			o.FragKind, o.FragErr = "err", classify(err)
			return
		}
		o.FragKind, o.Live, o.Total = "ok", uint64(live), uint64(total)
	}()
	runtime.ReadMemStats(&m3)
	func() {
		defer func() {
			if r := recover(); r != nil {
				o.BlkKind, o.Detail = "panic", fmt.Sprint(r)
			}
		}()
		fr, err := v2.NewFileReader(path)
		if err != nil {
			o.BlkKind, o.BlkErr = "err", classify(err)
			return
		}
		defer fr.Close()
		bl, err := fr.ReadAllBlocks()
		if err != nil {
			o.BlkKind, o.BlkErr = "err", classify(err)
			return
		}
		o.BlkKind, o.NBlk = "ok", uint64(len(bl))
		for _, b := range bl {
			o.NEnt += uint64(len(b.Entries))
		}
	}()
	runtime.ReadMemStats(&m4)
	o.AllocLd = m1.TotalAlloc - m0.TotalAlloc
	for _, d := range []uint64{o.AllocLd, m1b.TotalAlloc - m1.TotalAlloc, m2.TotalAlloc - m1b.TotalAlloc,
		m3.TotalAlloc - m2.TotalAlloc, m4.TotalAlloc - m3.TotalAlloc} {
		if d > o.AllocAll {
			o.AllocAll = d
		}
	}
	sort.Slice(o.Idx, func(i, j int) bool { return bytes.Compare(o.Idx[i].K, o.Idx[j].K) < 0 })
	return o
}

// ---------------------------------------------------------------- child process (worker)

const asLimit = 3 << 30 // address-space limit of a worker: a 4 GiB request dies at once

func workerMain(tmp string) {
	lim := syscall.Rlimit{Cur: asLimit, Max: asLimit}
	_ = syscall.Setrlimit(syscall.RLIMIT_AS, &lim)
	in := bufio.NewReader(os.Stdin)
	out := bufio.NewWriter(os.Stdout)
	// warm-up: one valid file, so that one-time initialisations (crc32 tables, os/file
	// machinery) are not charged to the first case
	warm := assemble(fileHeader(v2.Version2, nil), []block{realBlock([]ent{{Op: v2.OpInsert, Key: []byte("k"), Data: []byte("vvvvvvvvvvvvvvvvvvvvvvvv")}})}).File
	if os.WriteFile(tmp, warm, 0o644) == nil {
		loadFile(tmp)
		loadFile(tmp)
	}
	for {
		var n uint32
		if err := binary.Read(in, binary.LittleEndian, &n); err != nil {
			return
		}
		buf := make([]byte, n)
		if _, err := io.ReadFull(in, buf); err != nil {
			return
		}
		if err := os.WriteFile(tmp, buf, 0o644); err != nil {
			fmt.Fprintln(os.Stderr, "worker: write:", err)
			os.Exit(3)
		}
		o := loadFile(tmp)
		b, _ := json.Marshal(o)
		out.Write(b)
		out.WriteByte('\n')
		out.Flush()
	}
}

type worker struct {
	cmd    *exec.Cmd
	in     io.WriteCloser
	out    *bufio.Reader
	stderr *bytes.Buffer
	tmp    string
}

func startWorker(tmp string) *worker {
	w := &worker{tmp: tmp, stderr: &bytes.Buffer{}}
	w.cmd = exec.Command(os.Args[0], "--out", filepath.Dir(tmp), "--worker", tmp)
	w.cmd.Stderr = w.stderr
	w.cmd.Env = append(os.Environ(), "GOMAXPROCS=2")
	w.in, _ = w.cmd.StdinPipe()
	so, _ := w.cmd.StdoutPipe()
	w.out = bufio.NewReaderSize(so, 1<<20)
	if err := w.cmd.Start(); err != nil {
		fmt.Fprintln(os.Stderr, "cannot start worker:", err)
		os.Exit(2)
	}
	return w
}

func (w *worker) kill() {
	w.cmd.Process.Kill()
	w.cmd.Wait()
}

// run loads one file in the child; a dead child is a crash, a silent one a hang.
func (w *worker) run(file []byte, timeout time.Duration) (o obs, alive bool) {
	hdr := make([]byte, 4)
	binary.LittleEndian.PutUint32(hdr, uint32(len(file)))
	w.in.Write(hdr)
	w.in.Write(file)
	type rd struct {
		line []byte
		err  error
	}
	ch := make(chan rd, 1)
	go func() {
		l, err := w.out.ReadBytes('\n')
		ch <- rd{l, err}
	}()
	select {
	case r := <-ch:
		if r.err != nil {
			w.cmd.Wait()
			msg := w.stderr.String()
			if len(msg) > 400 {
				msg = msg[:400]
			}
			o = obs{LoadKind: "panic", ScanKind: "panic", NameKind: "panic", FragKind: "panic", BlkKind: "panic", Detail: "worker died: " + msg}
			if strings.Contains(msg, "out of memory") || strings.Contains(msg, "cannot allocate memory") {
				// the address-space limit stopped an allocation of gigabytes: that is the
				// "allocation out of proportion" clause, not a panic of the reader
				o = obs{LoadKind: "err", LoadErr: "EOther", ScanKind: "err", ScanErr: "EOther", NameKind: "err", NameErr: "EOther", FragKind: "err", FragErr: "EOther", BlkKind: "err", BlkErr: "EOther",
					AllocAll: asLimit, AllocLd: asLimit, Detail: "worker hit the address-space limit: " + msg}
			}
			return o, false
		}
		if err := json.Unmarshal(r.line, &o); err != nil {
			o = obs{LoadKind: "panic", ScanKind: "panic", NameKind: "panic", FragKind: "panic", BlkKind: "panic", Detail: "bad worker output"}
			w.kill()
			return o, false
		}
		return o, true
	case <-time.After(timeout):
		w.kill()
		return obs{LoadKind: "timeout", ScanKind: "timeout", NameKind: "timeout", FragKind: "timeout", BlkKind: "timeout", Detail: "no answer within " + timeout.String()}, false
	}
}

// ---------------------------------------------------------------- building files

type ent struct {
	Op   byte
	Key  []byte
	Data []byte
}

type block struct {
	Hdr  v2.BlockHeader
	Comp []byte
}

func serEntries(es []ent) []byte {
	var b []byte
	for _, e := range es {
		x := v2.Entry{Operation: e.Op, Key: string(e.Key), Data: e.Data}
		b = append(b, x.Serialize()...)
	}
	return b
}

// mkBlock: header fields as the writer computes them, for an arbitrary compressed payload
func mkBlock(comp []byte, usize int, count int) block {
	return block{Hdr: v2.BlockHeader{CompressedSize: uint32(len(comp)), UncompressedSize: uint32(usize),
		EntryCount: uint16(count), Checksum: crc32.ChecksumIEEE(comp)}, Comp: comp}
}

func realBlock(es []ent) block {
	raw := serEntries(es)
	return mkBlock(snappy.Encode(nil, raw), len(raw), len(es))
}

func fileHeader(version uint16, name []byte) []byte {
	h := v2.NewFileHeader()
	h.Version = version
	h.CreatedAt, h.ModifiedAt = 1700000000000000000, 1700000000000000001
	if version == v2.Version3 {
		h.NameLength = uint16(len(name))
	}
	b := h.Serialize()
	if version == v2.Version3 {
		b = append(b, name...)
	}
	return b
}

type layout struct {
	File   []byte
	Blocks [][2]int // [start, end) of each block (header + payload)
	Data0  int      // where the block area starts
}

func assemble(head []byte, bl []block) layout {
	l := layout{File: append([]byte{}, head...), Data0: len(head)}
	for _, b := range bl {
		s := len(l.File)
		h := b.Hdr
		l.File = append(l.File, h.Serialize()...)
		l.File = append(l.File, b.Comp...)
		l.Blocks = append(l.Blocks, [2]int{s, len(l.File)})
	}
	return l
}

// ---- a Snappy encoder that uses every element kind (the library encoder never emits
// 4-byte-offset copies and only one literal form per length)

func putLiteral(r *common.Rng, dst, lit []byte) []byte {
	for len(lit) > 0 {
		n := len(lit)
		if n > 70 {
			n = 1 + r.Intn(70)
		}
		x := n - 1
		form := 0
		if x >= 60 || r.Chance(30) {
			form = 1 + r.Intn(4) // 60..63: 1..4 explicit length bytes (all legal for small lengths)
		}
		switch form {
		case 0:
			dst = append(dst, byte(x<<2))
		case 1:
			dst = append(dst, 60<<2, byte(x))
		case 2:
			dst = append(dst, 61<<2, byte(x), byte(x>>8))
		case 3:
			dst = append(dst, 62<<2, byte(x), byte(x>>8), byte(x>>16))
		case 4:
			dst = append(dst, 63<<2, byte(x), byte(x>>8), byte(x>>16), byte(x>>24))
		}
		dst = append(dst, lit[:n]...)
		lit = lit[n:]
	}
	return dst
}

func putCopy(r *common.Rng, dst []byte, off, n int) []byte {
	kinds := []int{2, 3}
	if n >= 4 && n <= 11 && off < 2048 {
		kinds = append(kinds, 1, 1)
	}
	switch kinds[r.Intn(len(kinds))] {
	case 1:
		dst = append(dst, byte(1|(n-4)<<2|(off>>8)<<5), byte(off))
	case 2:
		dst = append(dst, byte(2|(n-1)<<2), byte(off), byte(off>>8))
	case 3:
		dst = append(dst, byte(3|(n-1)<<2), byte(off), byte(off>>8), byte(off>>16), byte(off>>24))
	}
	return dst
}

func myEncode(r *common.Rng, data []byte) []byte {
	dst := binary.AppendUvarint(nil, uint64(len(data)))
	i, lit := 0, 0
	for i < len(data) {
		best, bestOff := 0, 0
		if i > 0 && !r.Chance(15) {
			for off := 1; off <= i && off <= 300; off++ {
				n := 0
				for i+n < len(data) && n < 64 && data[i+n] == data[i-off+n] { // overlapping allowed
					n++
				}
				if n > best {
					best, bestOff = n, off
				}
			}
		}
		if best >= 3 {
			dst = putLiteral(r, dst, data[lit:i])
			dst = putCopy(r, dst, bestOff, best)
			i += best
			lit = i
		} else {
			i++
		}
	}
	return putLiteral(r, dst, data[lit:])
}

// ---- random content

var keyPool = []string{"user:0001", "user:0002", "user:0003", "k", "kk", "order/2024/0001", "order/2024/0002",
	"a", "ab", "abc", "zzzzzzzzzzzz", "__swamp_meta__", "user:0001:profile", "\x00", "\xff\xfe", "héllo"}

func rndData(r *common.Rng) []byte {
	switch r.Intn(6) {
	case 0:
		return nil
	case 1:
		return bytes.Repeat([]byte{byte('a' + r.Intn(3))}, 1+r.Intn(30))
	case 2:
		return []byte(strings.Repeat("abcd", 1+r.Intn(8)))
	case 3:
		return r.Bytes(1 + r.Intn(12))
	case 4:
		return []byte("value-of-" + keyPool[r.Intn(len(keyPool))])
	}
	return append([]byte("v"), r.Bytes(r.Intn(4))...)
}

func rndEntries(r *common.Rng, n int) []ent {
	es := make([]ent, 0, n)
	for i := 0; i < n; i++ {
		e := ent{Key: []byte(keyPool[r.Intn(len(keyPool))])}
		switch x := r.Intn(20); {
		case x < 9:
			e.Op, e.Data = v2.OpInsert, rndData(r)
		case x < 14:
			e.Op, e.Data = v2.OpUpdate, rndData(r)
		case x < 17:
			e.Op = v2.OpDelete
		case x < 18:
			e.Op, e.Key, e.Data = v2.OpMetadata, []byte(v2.MetadataEntryKey), []byte("meta/name/"+string(rune('a'+r.Intn(3))))
		case x < 19:
			e.Op, e.Data = v2.OpMetadata, rndData(r) // metadata op under an ordinary key
		default:
			e.Op, e.Data = byte([]int{0, 5, 9, 255}[r.Intn(4)]), rndData(r) // unknown operation codes
		}
		es = append(es, e)
	}
	return es
}

type base struct {
	L       layout
	Version uint16
	Written map[string]bool // key \x00 data of every insert/update entry in the file
	Descr   string
}

func written(ess ...[]ent) map[string]bool {
	m := map[string]bool{}
	for _, es := range ess {
		for _, e := range es {
			if e.Op == v2.OpInsert || e.Op == v2.OpUpdate {
				m[string(e.Key)+"\x00"+string(e.Data)] = true
			}
		}
	}
	return m
}

// a valid file: real header/entry/block encoders; payloads compressed by the library or by myEncode
func rndBase(r *common.Rng, tmpdir string, i int) base {
	version := uint16(v2.Version3)
	if r.Chance(35) {
		version = v2.Version2
	}
	name := []byte([]string{"", "a/b/c", "sanctuary/realm/swamp-name"}[r.Intn(3)])
	nb := r.Intn(4)
	if r.Chance(25) { // through the real FileWriter
		p := filepath.Join(tmpdir, fmt.Sprintf("w%d.hyd", i))
		os.Remove(p)
		fw, err := v2.NewFileWriterWithName(p, 40+r.Intn(80), string(name))
		if err == nil {
			var all []ent
			for k := 0; k < 1+r.Intn(10); k++ {
				e := rndEntries(r, 1)[0]
				if e.Op == 0 || e.Op > 4 {
					e.Op = v2.OpInsert
				}
				all = append(all, e)
				fw.WriteEntry(v2.Entry{Operation: e.Op, Key: string(e.Key), Data: e.Data})
			}
			fw.Close()
			if b, err := os.ReadFile(p); err == nil && len(b) >= 64 {
				os.Remove(p)
				l := layout{File: b, Data0: 64 + int(binary.LittleEndian.Uint16(b[44:46]))}
				for pos := l.Data0; pos+16 <= len(b); {
					end := pos + 16 + int(binary.LittleEndian.Uint32(b[pos:pos+4]))
					if end > len(b) {
						break
					}
					l.Blocks = append(l.Blocks, [2]int{pos, end})
					pos = end
				}
				return base{L: l, Version: binary.LittleEndian.Uint16(b[4:6]), Written: written(all), Descr: "real-writer"}
			}
		}
	}
	var bl []block
	var all [][]ent
	if version == v2.Version2 && r.Chance(70) {
		es := []ent{{Op: v2.OpMetadata, Key: []byte(v2.MetadataEntryKey), Data: []byte("v2/swamp/name")}}
		bl, all = append(bl, realBlock(es)), append(all, es)
	}
	for k := 0; k < nb; k++ {
		es := rndEntries(r, 1+r.Intn(5))
		raw := serEntries(es)
		if r.Chance(50) {
			bl = append(bl, mkBlock(myEncode(r, raw), len(raw), len(es)))
		} else {
			bl = append(bl, realBlock(es))
		}
		all = append(all, es)
	}
	return base{L: assemble(fileHeader(version, name), bl), Version: version, Written: written(all...), Descr: "built"}
}

// ---------------------------------------------------------------- cases

type fcase struct {
	Kind    string          `json:"kind"`
	Descr   string          `json:"descr"`
	File    []byte          `json:"-"`
	Hex     string          `json:"file_hex"`
	SnIn    []byte          `json:"-"`
	SnHex   string          `json:"snappy_in_hex"`
	Written map[string]bool `json:"-"` // non-nil: every returned record must be one of these
	Obs     *obs            `json:"impl,omitempty"`
	snTerm  string
	snOk    bool
}

// sizes a damaged 32-bit field may claim: boundaries, "plausible block" sizes just above the
// default 16 KiB block (a guard that trusts plausible sizes must still look at the file),
// mid-range sizes the allocation accounting can measure exactly, and the extremes
var forgedSizes = []uint32{0, 1, 15, 16, 17, 255, 4096, 16384, 17000, 19000, 20000, 65535, 65536, 70000, 1 << 17, 1 << 20,
	1 << 22, 1 << 23, 1 << 24, 1 << 26, 1 << 28, 0x7FFFFFFF, 0x80000000, 0xFFFFFFF0, 0xFFFFFFFF}

// fields of the 64-byte file header the reader has no reason to trust (everything except
// magic, version and NameLength, which have their own forgeries)
var fileHdrFields = []struct {
	Off, Len int
	Name     string
}{{6, 2, "Flags"}, {8, 8, "CreatedAt"}, {16, 8, "ModifiedAt"}, {24, 4, "BlockSize"}, {28, 8, "EntryCount"},
	{36, 8, "BlockCount"}, {46, 14, "Reserved"}, {60, 4, "Tail"}}

var fieldExtremes = []uint64{0, 1, 16, 255, 1 << 20, 1 << 28, 1 << 31, 0x7FFFFFFF, 0xFFFFFFFF, 0x7FFFFFFFFFFFFFFF, 0xFFFFFFFFFFFFFFFF}

// forgeFileHdrFields overwrites 1..3 of those fields in place (the layout of f is unchanged)
func forgeFileHdrFields(r *common.Rng, f []byte) string {
	if len(f) < 64 {
		return ""
	}
	var d []string
	for k := 1 + r.Intn(3); k > 0; k-- {
		fd := fileHdrFields[r.Intn(len(fileHdrFields))]
		if r.Chance(40) {
			fd = fileHdrFields[3+r.Intn(3)] // BlockSize / EntryCount / BlockCount: the ones a reader is tempted to use
		}
		v := fieldExtremes[r.Intn(len(fieldExtremes))]
		if r.Chance(15) {
			v = r.U64()
		}
		for i := 0; i < fd.Len; i++ {
			if i < 8 {
				f[fd.Off+i] = byte(v >> (8 * i))
			} else {
				f[fd.Off+i] = byte(v >> 56)
			}
		}
		d = append(d, fmt.Sprintf("%s:=%#x", fd.Name, v))
	}
	return "file header " + strings.Join(d, ",")
}

func clone(b []byte) []byte { return append([]byte{}, b...) }

func putBlockHdr(f []byte, pos int, h v2.BlockHeader) { copy(f[pos:pos+16], h.Serialize()) }
func getBlockHdr(f []byte, pos int) (h v2.BlockHeader) {
	h.Deserialize(f[pos : pos+16])
	return
}

// mutate returns a damaged variant of a valid file; strict = no checksum was recomputed, so
// every record the reader returns must be one that was written to the base file
//
// Damage is compounded: independent of the main mutation, untrusted file-header fields are
// forged in about a third of the files and a second, layout-agnostic mutation follows in a
// fifth of them - a guard that is only skipped when TWO fields cooperate must still be reached.
func mutate(r *common.Rng, b base) (kind, descr string, f []byte, strict bool) {
	kind, descr, f, strict = mutate1(r, b)
	f = clone(f)
	if r.Chance(35) {
		if d := forgeFileHdrFields(r, f); d != "" {
			descr += " + " + d
		}
	}
	if r.Chance(20) && len(f) > 0 {
		switch r.Intn(4) {
		case 0:
			p := r.Intn(len(f))
			f[p] ^= 1 << r.Intn(8)
			descr += fmt.Sprintf(" + bit flip in byte %d", p)
		case 1:
			claim := forgedSizes[r.Intn(len(forgedSizes))]
			have := r.Intn(12)
			h := v2.BlockHeader{CompressedSize: claim, UncompressedSize: claim, EntryCount: uint16(r.Intn(3)), Checksum: uint32(r.U64())}
			f = append(append(f, h.Serialize()...), r.Bytes(have)...)
			descr += fmt.Sprintf(" + orphan header claiming %d bytes, %d present", claim, have)
		case 2:
			n := 1 + r.Intn(20)
			f = append(f, r.Bytes(n)...)
			descr += fmt.Sprintf(" + %d garbage bytes appended", n)
		default:
			n := r.Intn(20)
			if n > len(f) {
				n = len(f)
			}
			f = f[:len(f)-n]
			descr += fmt.Sprintf(" + last %d bytes cut", n)
		}
	}
	return
}

func mutate1(r *common.Rng, b base) (kind, descr string, f []byte, strict bool) {
	f = clone(b.L.File)
	nb := len(b.L.Blocks)
	pick := r.Intn(100)
	switch {
	case pick < 14:
		n := r.Intn(len(f) + 1)
		return "truncate", fmt.Sprintf("truncate to %d of %d", n, len(f)), f[:n], true
	case pick < 28:
		p := r.Intn(len(f))
		bit := r.Intn(8)
		f[p] ^= 1 << bit
		return "bitflip1", fmt.Sprintf("flip bit %d of byte %d", bit, p), f, true
	case pick < 34:
		k := 2 + r.Intn(7)
		for i := 0; i < k; i++ {
			f[r.Intn(len(f))] ^= 1 << r.Intn(8)
		}
		return "bitflipN", fmt.Sprintf("%d bit flips", k), f, true
	case pick < 40:
		p := r.Intn(len(f))
		n := 1 + r.Intn(8)
		for i := p; i < p+n && i < len(f); i++ {
			f[i] = byte(r.U64())
		}
		return "overwrite", fmt.Sprintf("%d random bytes at %d", n, p), f, true
	case pick < 54 && nb > 0: // forge one block header field, nothing recomputed
		bi := r.Intn(nb)
		pos := b.L.Blocks[bi][0]
		h := getBlockHdr(f, pos)
		field := r.Intn(5)
		v := forgedSizes[r.Intn(len(forgedSizes))]
		if r.Chance(35) {
			v = uint32(int32([]int{-2, -1, 1, 2}[r.Intn(4)]))
			switch field {
			case 0:
				v += h.CompressedSize
			case 1:
				v += h.UncompressedSize
			case 2:
				v += uint32(h.EntryCount)
			case 3:
				v += h.Checksum
			}
		}
		name := [...]string{"CompressedSize", "UncompressedSize", "EntryCount", "Checksum", "Flags"}[field]
		switch field {
		case 0:
			h.CompressedSize = v
		case 1:
			h.UncompressedSize = v
		case 2:
			h.EntryCount = uint16(v)
		case 3:
			h.Checksum = v
		case 4:
			h.Flags = uint16(v)
		}
		putBlockHdr(f, pos, h)
		d := fmt.Sprintf("block %d %s := %d", bi, name, v)
		if r.Chance(30) { // a second forged field, in this or another block header
			bj := r.Intn(nb)
			pos2 := b.L.Blocks[bj][0]
			h2 := getBlockHdr(f, pos2)
			v2f := forgedSizes[r.Intn(len(forgedSizes))]
			switch r.Intn(3) {
			case 0:
				h2.CompressedSize = v2f
				d += fmt.Sprintf(", block %d CompressedSize := %d", bj, v2f)
			case 1:
				h2.UncompressedSize = v2f
				d += fmt.Sprintf(", block %d UncompressedSize := %d", bj, v2f)
			default:
				h2.EntryCount = uint16(v2f)
				d += fmt.Sprintf(", block %d EntryCount := %d", bj, uint16(v2f))
			}
			putBlockHdr(f, pos2, h2)
			return "forge-blockhdr2", d, f, true
		}
		return "forge-blockhdr", d, f, true
	case pick < 62: // forge a file header field
		switch r.Intn(4) {
		case 0:
			v := []uint16{0, 1, 2, 3, 4, 0xFFFF}[r.Intn(6)]
			binary.LittleEndian.PutUint16(f[4:6], v)
			// V2<->V3 reinterpretation moves the block area; records still come from written blocks
			return "forge-version", fmt.Sprintf("version := %d", v), f, true
		case 1:
			f[r.Intn(4)] ^= byte(1 + r.Intn(255))
			return "forge-magic", "magic changed", f, true
		case 2:
			old := binary.LittleEndian.Uint16(f[44:46])
			v := []uint16{0, 1, old + 1, old - 1, old + 16, 65535, uint16(r.U64())}[r.Intn(7)]
			binary.LittleEndian.PutUint16(f[44:46], v)
			return "forge-namelen", fmt.Sprintf("NameLength %d -> %d", old, v), f, true
		default:
			p := 6 + r.Intn(58)
			f[p] = byte(r.U64())
			return "forge-filehdr-byte", fmt.Sprintf("header byte %d", p), f, true
		}
	case pick < 80 && nb > 0: // damage below the checksum: payload changed, CRC (and sizes) made consistent
		bi := r.Intn(nb)
		s, e := b.L.Blocks[bi][0], b.L.Blocks[bi][1]
		h := getBlockHdr(f, s)
		comp := clone(f[s+16 : e])
		raw, _ := snappy.Decode(nil, comp)
		what := ""
		fixUsize := true
		switch r.Intn(9) {
		case 0: // the Snappy preamble claims a huge decoded length
			v := []uint64{0xFFFFFFFF, 0x80000000, 1 << 26, 1 << 20, 0x100000000, uint64(len(raw)) * 23, uint64(len(raw)) + 1}[r.Intn(7)]
			_, n := binary.Uvarint(comp)
			comp = append(binary.AppendUvarint(nil, v), comp[n:]...)
			h.UncompressedSize = uint32(v)
			fixUsize = false
			what = fmt.Sprintf("snappy preamble := %d (header size follows)", v)
		case 1: // same, header UncompressedSize untouched
			v := []uint64{0xFFFFFFFF, 1 << 26, 0x100000000}[r.Intn(3)]
			_, n := binary.Uvarint(comp)
			comp = append(binary.AppendUvarint(nil, v), comp[n:]...)
			fixUsize = false
			what = fmt.Sprintf("snappy preamble := %d", v)
		case 2:
			if len(comp) > 0 {
				comp[r.Intn(len(comp))] ^= 1 << r.Intn(8)
			}
			fixUsize = false
			what = "payload bit flip"
		case 3: // entry key length forged inside the uncompressed bytes
			if len(raw) >= 3 {
				binary.LittleEndian.PutUint16(raw[1:3], []uint16{0, 1, 200, 65535}[r.Intn(4)])
			}
			comp = myEncode(r, raw)
			what = "first entry keyLen forged"
		case 4: // data length forged
			if len(raw) >= 7 {
				kl := int(binary.LittleEndian.Uint16(raw[1:3]))
				if 3+kl+4 <= len(raw) {
					binary.LittleEndian.PutUint32(raw[3+kl:], forgedSizes[r.Intn(len(forgedSizes))])
				}
			}
			comp = myEncode(r, raw)
			what = "first entry dataLen forged"
		case 5: // fewer / more bytes than the entries need
			if len(raw) > 0 && r.Bool() {
				raw = raw[:r.Intn(len(raw))]
			} else {
				raw = append(raw, r.Bytes(1+r.Intn(9))...)
			}
			comp = myEncode(r, raw)
			what = "uncompressed bytes cut or extended"
		case 6:
			raw = r.Bytes(r.Intn(40))
			comp = snappy.Encode(nil, raw)
			what = "random uncompressed bytes"
		case 7:
			comp = r.Bytes(r.Intn(30))
			fixUsize = false
			what = "random compressed bytes"
		default:
			h.EntryCount = []uint16{0, h.EntryCount + 1, h.EntryCount - 1, 65535}[r.Intn(4)]
			what = fmt.Sprintf("EntryCount := %d", h.EntryCount)
		}
		if fixUsize {
			h.UncompressedSize = uint32(len(raw))
		}
		if r.Chance(30) { // the reserved per-block Flags must not switch any check off
			h.Flags = []uint16{1, 2, 0x8000, 0xFFFF, uint16(r.U64())}[r.Intn(5)]
			what += fmt.Sprintf(", Flags := %#x", h.Flags)
		}
		h.CompressedSize = uint32(len(comp))
		h.Checksum = crc32.ChecksumIEEE(comp)
		out := clone(f[:s])
		out = append(out, h.Serialize()...)
		out = append(out, comp...)
		out = append(out, f[e:]...)
		return "rechecksummed", fmt.Sprintf("block %d: %s", bi, what), out, false
	default: // splicing
		switch r.Intn(7) {
		case 0:
			n := 1 + r.Intn(40)
			return "garbage-tail", fmt.Sprintf("%d garbage bytes appended", n), append(f, r.Bytes(n)...), true
		case 1: // an orphan block header (payload missing entirely or partly)
			claim := 1 + r.Intn(60)
			have := r.Intn(claim)
			if r.Bool() {
				have = 0
			}
			if r.Chance(40) {
				claim = int(forgedSizes[r.Intn(len(forgedSizes))] & 0x7FFFFFFF)
				have = r.Intn(16)
				if have > claim {
					have = claim
				}
			}
			h := v2.BlockHeader{CompressedSize: uint32(claim), UncompressedSize: uint32(claim), EntryCount: 1, Checksum: uint32(r.U64())}
			f = append(f, h.Serialize()...)
			return "orphan-header", fmt.Sprintf("block header claiming %d bytes, %d present", claim, have), append(f, r.Bytes(have)...), true
		case 2:
			if nb > 0 {
				bi := r.Intn(nb)
				s, e := b.L.Blocks[bi][0], b.L.Blocks[bi][1]
				return "dup-block", fmt.Sprintf("block %d duplicated at the end", bi), append(f, f[s:e]...), true
			}
		case 3:
			if nb > 0 {
				bi := r.Intn(nb)
				s, e := b.L.Blocks[bi][0], b.L.Blocks[bi][1]
				return "drop-block", fmt.Sprintf("block %d removed", bi), append(clone(f[:s]), f[e:]...), true
			}
		case 4:
			if nb > 1 {
				s0, e0 := b.L.Blocks[0][0], b.L.Blocks[0][1]
				s1, e1 := b.L.Blocks[nb-1][0], b.L.Blocks[nb-1][1]
				out := clone(f[:s0])
				out = append(out, f[s1:e1]...)
				out = append(out, f[e0:s1]...)
				out = append(out, f[s0:e0]...)
				out = append(out, f[e1:]...)
				return "swap-blocks", "first and last block swapped", out, true
			}
		case 5:
			if nb > 0 {
				bi := r.Intn(nb)
				s := b.L.Blocks[bi][0]
				n := 1 + r.Intn(20)
				out := append(clone(f[:s]), r.Bytes(n)...)
				return "insert-garbage", fmt.Sprintf("%d bytes inserted before block %d", n, bi), append(out, f[s:]...), true
			}
		}
		p := r.Intn(len(f))
		return "delete-byte", fmt.Sprintf("byte %d removed", p), append(clone(f[:p]), f[p+1:]...), true
	}
}

// an independent input for the Snappy decoder comparison
func rndSnappyInput(r *common.Rng) []byte {
	data := rndData(r)
	for k := r.Intn(4); k > 0; k-- {
		data = append(data, rndData(r)...)
	}
	switch r.Intn(10) {
	case 0, 1, 2:
		return myEncode(r, data)
	case 3:
		return snappy.Encode(nil, data)
	case 4, 5, 6: // a valid stream, then damaged
		s := myEncode(r, data)
		switch r.Intn(4) {
		case 0:
			s = s[:r.Intn(len(s)+1)]
		case 1:
			s[r.Intn(len(s))] ^= 1 << r.Intn(8)
		case 2:
			s = append(s, r.Bytes(1+r.Intn(4))...)
		default:
			s[r.Intn(len(s))] = byte(r.U64())
		}
		return s
	case 7: // long varints
		n := 1 + r.Intn(11)
		s := bytes.Repeat([]byte{byte(0x80 | r.Intn(128))}, n)
		return append(s, r.Bytes(r.Intn(4))...)
	}
	return r.Bytes(r.Intn(24))
}

func snappyObs(in []byte) (string, bool) {
	var out []byte
	var err error
	func() {
		defer func() {
			if r := recover(); r != nil {
				err = fmt.Errorf("panic: %v", r)
			}
		}()
		// snappy.Decode allocates the declared length before decoding (up to 4 GiB, the very
		// defect ParseBlock now guards against). Inputs here are < 4 KiB and an element expands
		// at most 64/3, so a declared length above 1 MiB is certain to end in ErrCorrupt.
		if dl, e := snappy.DecodedLen(in); e == nil && dl > 1<<20 {
			err = snappy.ErrCorrupt
			return
		}
		out, err = snappy.Decode(nil, in)
	}()
	if err != nil {
		return "GErr", false
	}
	return common.App("GOk", hx(out)), true
}

// ---------------------------------------------------------------- main

func errTerm(e string) string {
	switch e {
	case "EShort", "EMagic", "EVersion", "ECorrupt", "EEntry":
		return e
	}
	return "EOther"
}

// hx prints a byte string as (hx "<hex>") - decoded by Storage/C04Cases.v:hx
func hx(b []byte) string { return "(hx \"" + hex.EncodeToString(b) + "\")" }

func caseTerm(eofs [3]bool, c *fcase) string {
	o := c.Obs
	var load, scan, name string
	switch o.LoadKind {
	case "ok":
		items := make([]string, len(o.Idx))
		for i, p := range o.Idx {
			items[i] = common.Pair(hx(p.K), hx(p.V))
		}
		load = common.App("LOk", common.List(items), hx(o.Name))
	case "err":
		load = common.App("LErr", errTerm(o.LoadErr))
	case "panic":
		load = "LPanic"
	default:
		load = "LTimeout"
	}
	switch o.ScanKind {
	case "ok":
		scan = common.App("SOk", common.N(o.BC), common.N(o.EC), common.N(o.US))
	case "err":
		scan = common.App("SErr", errTerm(o.ScanErr))
	case "panic":
		scan = "SPanic"
	default:
		scan = "STimeout"
	}
	switch o.NameKind {
	case "ok":
		name = common.App("NOk", hx(o.RName))
	case "err":
		name = common.App("NErr", errTerm(o.NameErr))
	case "panic":
		name = "NPanic"
	default:
		name = "NTimeout"
	}
	cnt := func(kind, e string, a, b uint64) string {
		switch kind {
		case "ok":
			return common.App("COk", common.N(a), common.N(b))
		case "err":
			return common.App("CErr", errTerm(e))
		case "panic":
			return "CPanic"
		}
		return "CTimeout"
	}
	frag := cnt(o.FragKind, o.FragErr, o.Live, o.Total)
	blks := cnt(o.BlkKind, o.BlkErr, o.NBlk, o.NEnt)
	sn := c.snTerm
	return common.App("MkCase",
		"("+common.Bool(eofs[0])+", "+common.Bool(eofs[1])+", "+common.Bool(eofs[2])+")",
		hx(c.File), common.N(uint64(crc32.ChecksumIEEE(c.File))),
		hx(c.SnIn), sn, load, scan, name, frag, blks, common.N(o.AllocAll), common.N(o.AllocLd))
}

// probeTail observes how the implementation classifies an incomplete tail (policy input, M2)
func probeTail(dir string) (eofs [3]bool, ok bool) {
	good := assemble(fileHeader(v2.Version3, []byte("p")), []block{realBlock([]ent{{Op: v2.OpInsert, Key: []byte("k"), Data: []byte("v")}})}).File
	oh := v2.BlockHeader{CompressedSize: 10, UncompressedSize: 10, EntryCount: 1}
	h := oh.Serialize()
	tails := [3][]byte{h[:5], h, append(clone(h), 1, 2, 3)}
	ok = true
	for i, t := range tails {
		p := filepath.Join(dir, "probe.hyd")
		os.WriteFile(p, append(clone(good), t...), 0o644)
		o := loadFile(p)
		switch {
		case o.LoadKind == "ok" && len(o.Idx) == 1:
			eofs[i] = true
		case o.LoadKind == "err":
			eofs[i] = false
		default:
			ok = false
		}
	}
	return
}

func main() {
	for i, a := range os.Args {
		if a == "--worker" && i+1 < len(os.Args) {
			workerMain(os.Args[i+1])
			return
		}
	}
	tStart := time.Now()
	args := common.ParseArgs()
	run := common.NewRun(args, "C04", "HV.Storage.C04Cases")
	run.Meta.Rule = "non-trivial = the bytes pass the file-header stage (magic, version, name), i.e. the block loop of the real reader ran on them"
	rng := common.NewRng(args.Seed, "C04")

	tmpdir, err := os.MkdirTemp("", "c04-")
	if err != nil {
		fmt.Fprintln(os.Stderr, err)
		os.Exit(2)
	}
	defer os.RemoveAll(tmpdir)

	nBases, perBase, nGarbage, truncAll := 40, 24, 200, 2
	run.Shard = 125 // parsing the case terms dominates the Coq side; 12 shards evaluate in parallel
	timeout := 10 * time.Second
	if args.Tier == "thorough" {
		nBases, perBase, nGarbage, truncAll = 500, 60, 4000, 25
		run.Shard = 400
	}

	var cases []*fcase
	add := func(kind, descr string, file []byte, wr map[string]bool) {
		cases = append(cases, &fcase{Kind: kind, Descr: descr, File: file, Written: wr, SnIn: rndSnappyInput(rng)})
	}

	// fixed witnesses first: the two allocation defects repaired by the fix: commits, and the
	// header-without-payload tail
	{
		hd := fileHeader(v2.Version3, nil)
		bh := v2.BlockHeader{CompressedSize: 0xFFFFFFF0, UncompressedSize: 10, EntryCount: 1}
		add("witness", "80-byte file whose block header claims 0xFFFFFFF0 payload bytes", append(clone(hd), bh.Serialize()...), map[string]bool{})
		comp := []byte{0xff, 0xff, 0xff, 0xff, 0x0f, 0x00, 0x41}
		b := mkBlock(comp, 0xFFFFFFFF, 1)
		add("witness", "CRC-consistent 7-byte block whose snappy preamble claims 4 GiB", assemble(hd, []block{b}).File, nil)
		bh2 := v2.BlockHeader{CompressedSize: 1 << 26, UncompressedSize: 10, EntryCount: 1}
		add("witness", "block header claims 64 MiB, 5 bytes present", append(append(clone(hd), bh2.Serialize()...), 1, 2, 3, 4, 5), map[string]bool{})
		comp3 := append(binary.AppendUvarint(nil, 1<<26), 0x00, 0x41)
		add("witness", "CRC-consistent block whose snappy preamble claims 64 MiB", assemble(hd, []block{mkBlock(comp3, 1<<26, 1)}).File, nil)
		es := make([]ent, 3)
		for i := range es {
			es[i] = ent{Op: v2.OpInsert, Key: []byte{byte('a' + i)}, Data: []byte("x")}
		}
		b4 := realBlock(es)
		b4.Hdr.EntryCount = 65535
		add("witness", "valid block, EntryCount forged to 65535", assemble(hd, []block{b4}).File, written(es))
	}

	// cooperating damage: every untrusted file-header field at an extreme, together with a block
	// header (after one intact block) that claims far more payload than the file holds
	{
		es := []ent{{Op: v2.OpInsert, Key: []byte("intact"), Data: []byte("record")}}
		good := assemble(fileHeader(v2.Version3, []byte("w/x/y")), []block{realBlock(es)}).File
		claims := []uint32{19000, 1 << 20, 1 << 24, 1 << 26, 1 << 28}
		k := 0
		for _, fd := range fileHdrFields {
			for _, v := range []uint64{0, 0xFFFFFFFFFFFFFFFF, 1 << 28} {
				f := clone(good)
				for i := 0; i < fd.Len; i++ {
					f[fd.Off+i] = byte(v >> (8 * (i % 8)))
				}
				claim := claims[k%len(claims)]
				k++
				h := v2.BlockHeader{CompressedSize: claim, UncompressedSize: claim, EntryCount: 1, Checksum: 0x12345678}
				f = append(append(f, h.Serialize()...), 1, 2, 3, 4, 5, 6, 7)
				add("witness2", fmt.Sprintf("file header %s:=%#x and a block header claiming %d bytes, 7 present", fd.Name, v, claim), f, written(es))
			}
		}
	}

	for i := 0; i < nBases; i++ {
		b := rndBase(rng, tmpdir, i)
		add("valid", b.Descr, b.L.File, b.Written)
		{ // the same file with untrusted header fields forged: must load to the same records
			f := clone(b.L.File)
			d := forgeFileHdrFields(rng, f)
			add("valid-hdrfields", d, f, b.Written)
		}
		run.Hist("base:" + b.Descr)
		if i < truncAll { // every truncation point of the first few files
			for n := 0; n < len(b.L.File); n++ {
				add("truncate", fmt.Sprintf("truncate to %d of %d", n, len(b.L.File)), b.L.File[:n], b.Written)
			}
		}
		if i == truncAll && args.Tier == "thorough" { // every single-bit flip of one file
			for p := 0; p < len(b.L.File); p++ {
				for bit := 0; bit < 8; bit++ {
					f := clone(b.L.File)
					f[p] ^= 1 << bit
					add("bitflip1", fmt.Sprintf("flip bit %d of byte %d", bit, p), f, b.Written)
				}
			}
		}
		for k := 0; k < perBase; k++ {
			kind, descr, f, strict := mutate(rng, b)
			var wr map[string]bool
			if strict {
				wr = b.Written
			}
			if len(f) > 4096 {
				f = f[:4096]
			}
			add(kind, descr, f, wr)
		}
	}
	for i := 0; i < nGarbage; i++ {
		n := rng.Intn(200)
		switch rng.Intn(4) {
		case 0:
			add("garbage", "random bytes", rng.Bytes(n), map[string]bool{})
		case 1:
			add("garbage-v3hdr", "valid V3 header, random rest", append(fileHeader(v2.Version3, []byte("g/h")), rng.Bytes(n)...), map[string]bool{})
		case 2:
			add("garbage-v2hdr", "valid V2 header, random rest", append(fileHeader(v2.Version2, nil), rng.Bytes(n)...), map[string]bool{})
		default: // random block headers with small sizes so that payloads are "present"
			f := fileHeader(v2.Version3, nil)
			for k := rng.Intn(4); k >= 0; k-- {
				comp := rng.Bytes(rng.Intn(20))
				h := v2.BlockHeader{CompressedSize: uint32(len(comp)), UncompressedSize: uint32(rng.Intn(40)), EntryCount: uint16(rng.Intn(4)), Checksum: crc32.ChecksumIEEE(comp)}
				if rng.Chance(30) {
					h.Checksum ^= 1
				}
				f = append(append(f, h.Serialize()...), comp...)
			}
			add("garbage-blocks", "random blocks with consistent checksums", f, map[string]bool{})
		}
	}

	tGen := time.Now()
	eofs, pok := probeTail(tmpdir)
	run.Meta.Extra["tail_policy_observed"] = map[string]bool{"partial_header_is_eof": eofs[0], "header_without_payload_is_eof": eofs[1], "short_payload_is_eof": eofs[2]}
	if !pok {
		run.Violate(0, "never panics", "probe_failed", "the tail-classification probe files did not load as ok/err")
	}

	// run the real reader on every file, in child processes
	const nWorkers = 8
	common.Parallel(nWorkers, nWorkers, func(w int) {
		tmp := filepath.Join(tmpdir, fmt.Sprintf("case-%d.hyd", w))
		var wk *worker
		for i := w; i < len(cases); i += nWorkers {
			if wk == nil {
				wk = startWorker(tmp)
			}
			o, alive := wk.run(cases[i].File, timeout)
			cases[i].Obs = &o
			if !alive {
				wk = nil
			}
		}
		if wk != nil {
			wk.in.Close()
			wk.cmd.Wait()
		}
	})

	tRun := time.Now()
	for _, c := range cases {
		c.Hex = hex.EncodeToString(c.File)
		c.SnHex = hex.EncodeToString(c.SnIn)
		o := c.Obs
		nontrivial := !(o.LoadKind == "err" && (o.LoadErr == "EMagic" || o.LoadErr == "EVersion")) && len(c.File) >= 64 &&
			!(o.LoadKind == "err" && o.LoadErr == "EShort" && o.ScanKind == "err")
		c.snTerm, c.snOk = snappyObs(c.SnIn)
		idx := run.Add(caseTerm(eofs, c), c, nontrivial)
		run.Hist("kind:" + c.Kind)
		run.Hist("load:" + o.LoadKind + ":" + o.LoadErr)
		if c.snOk {
			run.Hist("snappy:ok")
		} else {
			run.Hist("snappy:err")
		}
		// independent Go-side oracle: a damaged file must not yield a record that was never written
		if c.Written != nil && o.LoadKind == "ok" {
			for _, p := range o.Idx {
				if !c.Written[string(p.K)+"\x00"+string(p.V)] {
					run.Violate(idx, "never misread", "record_never_written",
						fmt.Sprintf("%s (%s): returned record %q=%x was never written to the file", c.Kind, c.Descr, p.K, p.V))
					break
				}
			}
		}
		if o.LoadKind == "ok" {
			run.HistN("records_returned", len(o.Idx))
		}
	}
	run.Meta.Traces = len(cases)
	run.Meta.Extra["seconds_generate_run_emit"] = []float64{tGen.Sub(tStart).Seconds(), tRun.Sub(tGen).Seconds(), time.Since(tRun).Seconds()}
	run.Finish("check_all")
}
