// c06: correspondence check for the single-client API (gateway.go handlers on top of swamp.go /
// treasure.go) against Swamp/Api.v (tie) and Swamp/Spec.v (property oracle).
//
// Every case is one sequential history of requests over 2 swamps x 4 keys, executed in-process on
// the real gateway (one engine, every history in its own realm, in-memory or persistent with a
// write interval of 1 s), every request under a watchdog. The canonicalised responses and the
// final GetAll of both swamps are emitted as Coq terms; Swamp/ApiCheck.v replays the requests
// through api_step (exact tie) and spec_step (oracle).
package main

import (
	"context"
	"fmt"
	"os"
	"reflect"
	"sort"
	"strconv"
	"strings"
	"sync"
	"time"

	hydrapb "github.com/hydraide/hydraide/sdk/go/hydraidego/v3/hydraidepbgo"
	"google.golang.org/grpc/codes"
	"google.golang.org/grpc/status"
	"google.golang.org/protobuf/proto"
	"google.golang.org/protobuf/reflect/protoreflect"
	"google.golang.org/protobuf/types/known/timestamppb"
	"verif/harness/common"
	"verif/harness/rig"
)

// ---------------------------------------------------------------- request representation

type meta struct{ Cat, Cby, Mat, Mby, Exp int64 }

func (m meta) coq() string {
	if m == (meta{}) {
		return "M0"
	}
	return fmt.Sprintf("(M %s %s %s %s %s)", common.Z(m.Cat), common.Z(m.Cby), common.Z(m.Mat), common.Z(m.Mby), common.Z(m.Exp))
}

type imeta struct {
	Cat bool
	Cby int64
	Mat bool
	Mby int64
	Exp int64
}

func (m *imeta) coq() string {
	if m == nil {
		return "None"
	}
	return fmt.Sprintf("(Some (IM %s %s %s %s %s))",
		common.Bool(m.Cat), common.Z(m.Cby), common.Bool(m.Mat), common.Z(m.Mby), common.Z(m.Exp))
}

var tyNames = []string{"", "TU8", "TU16", "TU32", "TU64", "TI8", "TI16", "TI32", "TI64", "TF32", "TF64", "TStr", "TBool", "TBytes"}

const (
	tU8 = 1 + iota
	tU16
	tU32
	tU64
	tI8
	tI16
	tI32
	tI64
	tF32
	tF64
	tStr
	tBool
	tBytes
)

type setval struct {
	Kind int // 0 void, 1 scalar, 2 slice
	Ty   int
	Z    int64
	U64  uint64 // payload of TU64 (Z holds it when it fits)
	Sl   []uint32
}

func zOfU64(u uint64) string { return strconv.FormatUint(u, 10) + "%Z" }

func (v setval) coq() string {
	switch v.Kind {
	case 0:
		return "SVVoid"
	case 1:
		if v.Ty == tU64 {
			return "(SVSc TU64 " + zOfU64(v.U64) + ")"
		}
		return "(SVSc " + tyNames[v.Ty] + " " + common.Z(v.Z) + ")"
	default:
		return "(SVSl " + u32list(v.Sl) + ")"
	}
}
func u32list(l []uint32) string {
	s := make([]string, len(l))
	for i, x := range l {
		s[i] = common.Z(int64(x))
	}
	return common.List(s)
}
func zlist(l []int64) string { return common.ZList(l) }

type kv struct {
	Key  int64
	Val  setval
	Meta meta
}
type pair struct {
	Key  int64
	Vals []uint32
}
type getsw struct {
	Sw   int64
	Keys []int64
	Nil  bool
}

type request struct {
	Op     string
	Sw     int64
	Create bool
	Over   bool
	KVs    []kv
	KVNil  bool
	Gets   []getsw
	Keys   []int64
	Sws    []int64
	K      int64
	Ty     int
	By     int64
	ByU64  uint64
	Cond   bool
	CondOp int64
	CondV  int64
	CondU  uint64
	NE, E  *imeta
	Pairs  []pair
	V      int64
}

func (q request) coq() string {
	switch q.Op {
	case "Set":
		kvs := "None"
		if !q.KVNil {
			s := make([]string, len(q.KVs))
			for i, k := range q.KVs {
				s[i] = fmt.Sprintf("(KV %s %s %s)", common.Z(k.Key), k.Val.coq(), k.Meta.coq())
			}
			kvs = "(Some " + common.List(s) + ")"
		}
		return fmt.Sprintf("(QSet %s %s %s %s)", common.Z(q.Sw), common.Bool(q.Create), common.Bool(q.Over), kvs)
	case "Get":
		s := make([]string, len(q.Gets))
		for i, g := range q.Gets {
			ks := "None"
			if !g.Nil {
				ks = "(Some " + zlist(g.Keys) + ")"
			}
			s[i] = "(" + common.Z(g.Sw) + ", " + ks + ")"
		}
		return "(QGet " + common.List(s) + ")"
	case "GetAll":
		return "(QGetAll " + common.Z(q.Sw) + ")"
	case "GetByKeys":
		return "(QGetByKeys " + common.Z(q.Sw) + " " + zlist(q.Keys) + ")"
	case "Delete":
		return "(QDelete " + common.Z(q.Sw) + " " + zlist(q.Keys) + ")"
	case "Count":
		return "(QCount " + zlist(q.Sws) + ")"
	case "IsSwampExist":
		return "(QIsSwampExist " + common.Z(q.Sw) + ")"
	case "IsKeyExist":
		return "(QIsKeyExist " + common.Z(q.Sw) + " " + common.Z(q.K) + ")"
	case "AreKeysExist":
		return "(QAreKeysExist " + common.Z(q.Sw) + " " + zlist(q.Keys) + ")"
	case "ShiftByKeys":
		return "(QShiftByKeys " + common.Z(q.Sw) + " " + zlist(q.Keys) + ")"
	case "Inc":
		by := common.Z(q.By)
		if q.Ty == tU64 {
			by = zOfU64(q.ByU64)
		}
		cond := "None"
		if q.Cond {
			cv := common.Z(q.CondV)
			if q.Ty == tU64 {
				cv = zOfU64(q.CondU)
			}
			cond = "(Some (" + common.Z(q.CondOp) + ", " + cv + "))"
		}
		return fmt.Sprintf("(QInc %s %s %s %s %s %s %s)", tyNames[q.Ty], common.Z(q.Sw), common.Z(q.K), by, cond, q.NE.coq(), q.E.coq())
	case "Push", "SlDel":
		s := make([]string, len(q.Pairs))
		for i, p := range q.Pairs {
			s[i] = "(" + common.Z(p.Key) + ", " + u32list(p.Vals) + ")"
		}
		c := "QPush"
		if q.Op == "SlDel" {
			c = "QSlDel"
		}
		return "(" + c + " " + common.Z(q.Sw) + " " + common.List(s) + ")"
	case "Size":
		return "(QSize " + common.Z(q.Sw) + " " + common.Z(q.K) + ")"
	case "IsVal":
		return "(QIsVal " + common.Z(q.Sw) + " " + common.Z(q.K) + " " + common.Z(q.V) + ")"
	case "Destroy":
		return "(QDestroy " + common.Z(q.Sw) + ")"
	}
	panic("op " + q.Op)
}

// ---------------------------------------------------------------- tokens <-> wire values

type namer struct{ prefix string } // swamp names of one history

func (n namer) swamp(id int64) string {
	if id == 0 {
		return ""
	}
	return fmt.Sprintf("%s/s%d", n.prefix, id)
}
func (n namer) swampID(name string) int64 {
	if name == "" {
		return 0
	}
	i := strings.LastIndex(name, "/s")
	if i < 0 || name[:i] != n.prefix {
		return -1
	}
	v, err := strconv.ParseInt(name[i+2:], 10, 64)
	if err != nil {
		return -1
	}
	return v
}
func keyName(k int64) string {
	if k == 0 {
		return ""
	}
	return "k" + strconv.FormatInt(k, 10)
}
func tokOf(s string, pfx string) int64 {
	if s == "" {
		return 0
	}
	if !strings.HasPrefix(s, pfx) {
		return -1
	}
	v, err := strconv.ParseInt(s[len(pfx):], 10, 64)
	if err != nil {
		return -1
	}
	return v
}
func tsOf(tok int64) *timestamppb.Timestamp {
	if tok == 0 {
		return nil
	}
	return &timestamppb.Timestamp{Seconds: tok}
}
func tokOfTs(ts *timestamppb.Timestamp) int64 {
	if ts == nil {
		return 0
	}
	if ts.Nanos == 0 && ts.Seconds >= 1 && ts.Seconds <= 1000 {
		return ts.Seconds
	}
	return 1000000 // now_tok
}
func strp(s string) *string { return &s }

func kvToPb(k kv) *hydrapb.KeyValuePair {
	p := &hydrapb.KeyValuePair{Key: keyName(k.Key)}
	switch k.Val.Kind {
	case 0:
		t := true
		p.VoidVal = &t
	case 1:
		z := k.Val.Z
		switch k.Val.Ty {
		case tU8:
			v := uint32(z)
			p.Uint8Val = &v
		case tU16:
			v := uint32(z)
			p.Uint16Val = &v
		case tU32:
			v := uint32(z)
			p.Uint32Val = &v
		case tU64:
			v := k.Val.U64
			p.Uint64Val = &v
		case tI8:
			v := int32(z)
			p.Int8Val = &v
		case tI16:
			v := int32(z)
			p.Int16Val = &v
		case tI32:
			v := int32(z)
			p.Int32Val = &v
		case tI64:
			p.Int64Val = &z
		case tF32:
			v := float32(z)
			p.Float32Val = &v
		case tF64:
			v := float64(z)
			p.Float64Val = &v
		case tStr:
			p.StringVal = strp("s" + strconv.FormatInt(z, 10))
		case tBool:
			b := hydrapb.Boolean_FALSE
			if z == 1 {
				b = hydrapb.Boolean_TRUE
			}
			p.BoolVal = &b
		case tBytes:
			p.BytesVal = []byte{byte(z), 0xAA}
		}
	case 2:
		p.Uint32Slice = k.Val.Sl
	}
	p.CreatedAt = tsOf(k.Meta.Cat)
	if k.Meta.Cby != 0 {
		p.CreatedBy = strp("u" + strconv.FormatInt(k.Meta.Cby, 10))
	}
	p.UpdatedAt = tsOf(k.Meta.Mat)
	if k.Meta.Mby != 0 {
		p.UpdatedBy = strp("u" + strconv.FormatInt(k.Meta.Mby, 10))
	}
	p.ExpiredAt = tsOf(k.Meta.Exp)
	return p
}

func metaCoqOfTreasure(t *hydrapb.Treasure) string {
	m := meta{Cat: tokOfTs(t.CreatedAt), Mat: tokOfTs(t.UpdatedAt), Exp: tokOfTs(t.ExpiredAt)}
	if t.CreatedBy != nil {
		m.Cby = tokOf(*t.CreatedBy, "u")
	}
	if t.UpdatedBy != nil {
		m.Mby = tokOf(*t.UpdatedBy, "u")
	}
	return m.coq()
}

// viewCoq canonicalises one Treasure message.
func viewCoq(t *hydrapb.Treasure) string {
	sc := "None"
	n := 0
	set := func(ty int, z string) { sc = "(Some (" + tyNames[ty] + ", " + z + "))"; n++ }
	if t.Uint8Val != nil {
		set(tU8, common.Z(int64(*t.Uint8Val)))
	}
	if t.Uint16Val != nil {
		set(tU16, common.Z(int64(*t.Uint16Val)))
	}
	if t.Uint32Val != nil {
		set(tU32, common.Z(int64(*t.Uint32Val)))
	}
	if t.Uint64Val != nil {
		set(tU64, zOfU64(*t.Uint64Val))
	}
	if t.Int8Val != nil {
		set(tI8, common.Z(int64(*t.Int8Val)))
	}
	if t.Int16Val != nil {
		set(tI16, common.Z(int64(*t.Int16Val)))
	}
	if t.Int32Val != nil {
		set(tI32, common.Z(int64(*t.Int32Val)))
	}
	if t.Int64Val != nil {
		set(tI64, common.Z(*t.Int64Val))
	}
	if t.Float32Val != nil {
		set(tF32, floatTok(float64(*t.Float32Val)))
	}
	if t.Float64Val != nil {
		set(tF64, floatTok(*t.Float64Val))
	}
	if t.StringVal != nil {
		set(tStr, common.Z(tokOf(*t.StringVal, "s")))
	}
	if t.BoolVal != nil {
		z := int64(0)
		if *t.BoolVal == hydrapb.Boolean_TRUE {
			z = 1
		}
		set(tBool, common.Z(z))
	}
	if t.BytesVal != nil {
		z := int64(-1)
		if len(t.BytesVal) == 2 && t.BytesVal[1] == 0xAA {
			z = int64(t.BytesVal[0])
		}
		set(tBytes, common.Z(z))
	}
	if n > 1 {
		sc = "(Some (TStr, (-99)%Z))" // more than one typed field: never a model output
	}
	return fmt.Sprintf("(V %s %s %s %s %s)",
		common.Z(tokOf(t.Key, "k")), common.Bool(t.IsExist), sc, u32list(t.Uint32Slice), metaCoqOfTreasure(t))
}
func floatTok(f float64) string {
	if f != float64(int64(f)) {
		return "(-98)%Z" // not an integer-valued float: outside the abstraction
	}
	return common.Z(int64(f))
}

func errCoq(err error) string {
	st, _ := status.FromError(err)
	switch st.Code() {
	case codes.InvalidArgument:
		return "EInvalid"
	case codes.FailedPrecondition:
		return "EFailedPre"
	default:
		return "EInternal"
	}
}

var statusNames = map[hydrapb.Status_Code]string{hydrapb.Status_NOT_FOUND: "StNotFound", hydrapb.Status_NEW: "StNew",
	hydrapb.Status_UPDATED: "StUpdated", hydrapb.Status_NOTHING_CHANGED: "StNothing", hydrapb.Status_DELETED: "StDeleted"}

func ksCoq(l []*hydrapb.KeyStatusPair) string {
	s := make([]string, len(l))
	for i, p := range l {
		s[i] = "(" + common.Z(tokOf(p.Key, "k")) + ", " + statusNames[p.Status] + ")"
	}
	return common.List(s)
}
func viewsCoq(l []*hydrapb.Treasure, sorted bool) string {
	if sorted {
		l = append([]*hydrapb.Treasure(nil), l...)
		sort.SliceStable(l, func(i, j int) bool { return tokOf(l[i].Key, "k") < tokOf(l[j].Key, "k") })
	}
	s := make([]string, len(l))
	for i, t := range l {
		s[i] = viewCoq(t)
	}
	return common.List(s)
}

// ---------------------------------------------------------------- execution

var ctx = context.Background()

func isNilMsg(m interface{}) bool {
	if m == nil {
		return true
	}
	v := reflect.ValueOf(m)
	return v.Kind() == reflect.Ptr && v.IsNil()
}

// generic prologue of the canonical form: (nil,err) / (resp,err) / (nil,nil)
func outcome(resp interface{}, err error) (string, bool) {
	switch {
	case err != nil && isNilMsg(resp):
		return "(RErr " + errCoq(err) + ")", true
	case err != nil:
		return "(RRespErr " + errCoq(err) + ")", true
	case isNilMsg(resp):
		return "RPanic", true
	}
	return "", false
}

func execReq(s *rig.Server, n namer, q request) string {
	gw := s.GW
	switch q.Op {
	case "Set":
		sr := &hydrapb.SwampRequest{IslandID: 1, SwampName: n.swamp(q.Sw), CreateIfNotExist: q.Create, Overwrite: q.Over}
		if !q.KVNil {
			sr.KeyValues = []*hydrapb.KeyValuePair{}
			for _, k := range q.KVs {
				sr.KeyValues = append(sr.KeyValues, kvToPb(k))
			}
		}
		resp, err := gw.Set(ctx, &hydrapb.SetRequest{Swamps: []*hydrapb.SwampRequest{sr}})
		if o, done := outcome(resp, err); done {
			return o
		}
		var l []string
		for _, r := range resp.Swamps {
			ec := "None"
			if r.ErrorCode != nil {
				ec = "(Some " + common.Z(int64(*r.ErrorCode)+1) + ")"
			}
			l = append(l, "("+ec+", "+ksCoq(r.KeysAndStatuses)+")")
		}
		return "(RSet " + common.List(l) + ")"
	case "Get":
		req := &hydrapb.GetRequest{}
		for _, g := range q.Gets {
			gs := &hydrapb.GetSwamp{IslandID: 1, SwampName: n.swamp(g.Sw)}
			if !g.Nil {
				gs.Keys = []string{}
				for _, k := range g.Keys {
					gs.Keys = append(gs.Keys, keyName(k))
				}
			}
			req.Swamps = append(req.Swamps, gs)
		}
		resp, err := gw.Get(ctx, req)
		if o, done := outcome(resp, err); done {
			return o
		}
		var l []string
		for _, r := range resp.Swamps {
			l = append(l, "("+common.Bool(r.IsExist)+", "+viewsCoq(r.Treasures, false)+")")
		}
		return "(RGet " + common.List(l) + ")"
	case "GetAll":
		resp, err := gw.GetAll(ctx, &hydrapb.GetAllRequest{IslandID: 1, SwampName: n.swamp(q.Sw)})
		if o, done := outcome(resp, err); done {
			return o
		}
		return "(RViews " + viewsCoq(resp.Treasures, true) + ")"
	case "GetByKeys":
		resp, err := gw.GetByKeys(ctx, &hydrapb.GetByKeysRequest{IslandID: 1, SwampName: n.swamp(q.Sw), Keys: keyNames(q.Keys)})
		if o, done := outcome(resp, err); done {
			return o
		}
		return "(RViews " + viewsCoq(resp.Treasures, false) + ")"
	case "ShiftByKeys":
		resp, err := gw.ShiftByKeys(ctx, &hydrapb.ShiftByKeysRequest{IslandID: 1, SwampName: n.swamp(q.Sw), Keys: keyNames(q.Keys)})
		if o, done := outcome(resp, err); done {
			return o
		}
		return "(RViews " + viewsCoq(resp.Treasures, false) + ")"
	case "Delete":
		resp, err := gw.Delete(ctx, &hydrapb.DeleteRequest{Swamps: []*hydrapb.DeleteRequest_SwampKeys{{IslandID: 1, SwampName: n.swamp(q.Sw), Keys: keyNames(q.Keys)}}})
		if o, done := outcome(resp, err); done {
			return o
		}
		var l []string
		for _, r := range resp.Responses {
			ec := "None"
			if r.ErrorCode != nil {
				ec = "(Some " + common.Z(int64(*r.ErrorCode)+2) + ")"
			}
			l = append(l, "("+ec+", "+ksCoq(r.KeyStatuses)+")")
		}
		return "(RDelete " + common.List(l) + ")"
	case "Count":
		req := &hydrapb.CountRequest{}
		for _, sw := range q.Sws {
			req.Swamps = append(req.Swamps, &hydrapb.CountRequest_SwampIdentifier{IslandID: 1, SwampName: n.swamp(sw)})
		}
		resp, err := gw.Count(ctx, req)
		if o, done := outcome(resp, err); done {
			return o
		}
		var l []string
		for _, c := range resp.Swamps {
			l = append(l, fmt.Sprintf("(%s, %s, %s)", common.Z(n.swampID(c.SwampName)), common.Z(int64(c.Count)), common.Bool(c.IsExist)))
		}
		return "(RCount " + common.List(l) + ")"
	case "IsSwampExist":
		resp, err := gw.IsSwampExist(ctx, &hydrapb.IsSwampExistRequest{IslandID: 1, SwampName: n.swamp(q.Sw)})
		if o, done := outcome(resp, err); done {
			return o
		}
		return "(RBool " + common.Bool(resp.IsExist) + ")"
	case "IsKeyExist":
		resp, err := gw.IsKeyExist(ctx, &hydrapb.IsKeyExistRequest{IslandID: 1, SwampName: n.swamp(q.Sw), Key: keyName(q.K)})
		if o, done := outcome(resp, err); done {
			return o
		}
		return "(RBool " + common.Bool(resp.IsExist) + ")"
	case "AreKeysExist":
		resp, err := gw.AreKeysExist(ctx, &hydrapb.AreKeysExistRequest{IslandID: 1, SwampName: n.swamp(q.Sw), Keys: keyNames(q.Keys)})
		if o, done := outcome(resp, err); done {
			return o
		}
		// the answer is a map: list it in request order; any key that was not asked for is appended
		var l []string
		seen := map[string]bool{}
		for _, k := range q.Keys {
			kn := keyName(k)
			seen[kn] = true
			v, ok := resp.Results[kn]
			if !ok {
				l = append(l, "("+common.Z(k)+", false)", "((-1)%Z, false)")
				continue
			}
			l = append(l, "("+common.Z(k)+", "+common.Bool(v)+")")
		}
		var extra []string
		for k := range resp.Results {
			if !seen[k] {
				extra = append(extra, k)
			}
		}
		sort.Strings(extra)
		for range extra {
			l = append(l, "((-2)%Z, true)")
		}
		return "(RKeys " + common.List(l) + ")"
	case "Push":
		resp, err := gw.Uint32SlicePush(ctx, &hydrapb.AddToUint32SlicePushRequest{IslandID: 1, SwampName: n.swamp(q.Sw), KeySlicePairs: pairsPb(q.Pairs)})
		if o, done := outcome(resp, err); done {
			return o
		}
		return "ROk"
	case "SlDel":
		resp, err := gw.Uint32SliceDelete(ctx, &hydrapb.Uint32SliceDeleteRequest{IslandID: 1, SwampName: n.swamp(q.Sw), KeySlicePairs: pairsPb(q.Pairs)})
		if o, done := outcome(resp, err); done {
			return o
		}
		return "ROk"
	case "Size":
		resp, err := gw.Uint32SliceSize(ctx, &hydrapb.Uint32SliceSizeRequest{IslandID: 1, SwampName: n.swamp(q.Sw), Key: keyName(q.K)})
		if o, done := outcome(resp, err); done {
			return o
		}
		return "(RSize " + common.Z(resp.Size) + ")"
	case "IsVal":
		resp, err := gw.Uint32SliceIsValueExist(ctx, &hydrapb.Uint32SliceIsValueExistRequest{IslandID: 1, SwampName: n.swamp(q.Sw), Key: keyName(q.K), Value: uint32(q.V)})
		if o, done := outcome(resp, err); done {
			return o
		}
		return "(RBool " + common.Bool(resp.IsExist) + ")"
	case "Destroy":
		resp, err := gw.Destroy(ctx, &hydrapb.DestroyRequest{IslandID: 1, SwampName: n.swamp(q.Sw)})
		if o, done := outcome(resp, err); done {
			return o
		}
		return "ROk"
	case "Inc":
		return execInc(s, n, q)
	}
	panic("op " + q.Op)
}

func keyNames(ks []int64) []string {
	out := []string{}
	for _, k := range ks {
		out = append(out, keyName(k))
	}
	return out
}
func pairsPb(ps []pair) []*hydrapb.KeySlicePair {
	var out []*hydrapb.KeySlicePair
	for _, p := range ps {
		out = append(out, &hydrapb.KeySlicePair{Key: keyName(p.Key), Values: p.Vals})
	}
	return out
}

var incNames = map[int]string{tU8: "Uint8", tU16: "Uint16", tU32: "Uint32", tU64: "Uint64", tI8: "Int8", tI16: "Int16", tI32: "Int32", tI64: "Int64", tF32: "Float32", tF64: "Float64"}

func imetaPb(m *imeta) *hydrapb.IncrementRequestMetadata {
	if m == nil {
		return nil
	}
	p := &hydrapb.IncrementRequestMetadata{}
	if m.Cat {
		t := true
		p.CreatedAt = &t
	}
	if m.Cby != 0 {
		p.CreatedBy = strp("u" + strconv.FormatInt(m.Cby, 10))
	}
	if m.Mat {
		t := true
		p.UpdatedAt = &t
	}
	if m.Mby != 0 {
		p.UpdatedBy = strp("u" + strconv.FormatInt(m.Mby, 10))
	}
	p.ExpiredAt = tsOf(m.Exp)
	return p
}

// setNum stores a numeric token into a protobuf scalar field of whatever numeric kind it has.
func setNum(m protoreflect.Message, name string, z int64, u uint64, isU64 bool) {
	fd := m.Descriptor().Fields().ByName(protoreflect.Name(name))
	switch fd.Kind() {
	case protoreflect.Int32Kind, protoreflect.Sint32Kind, protoreflect.Sfixed32Kind:
		m.Set(fd, protoreflect.ValueOfInt32(int32(z)))
	case protoreflect.Int64Kind, protoreflect.Sint64Kind, protoreflect.Sfixed64Kind:
		m.Set(fd, protoreflect.ValueOfInt64(z))
	case protoreflect.Uint32Kind, protoreflect.Fixed32Kind:
		m.Set(fd, protoreflect.ValueOfUint32(uint32(z)))
	case protoreflect.Uint64Kind, protoreflect.Fixed64Kind:
		if isU64 {
			m.Set(fd, protoreflect.ValueOfUint64(u))
		} else {
			m.Set(fd, protoreflect.ValueOfUint64(uint64(z)))
		}
	case protoreflect.FloatKind:
		m.Set(fd, protoreflect.ValueOfFloat32(float32(z)))
	case protoreflect.DoubleKind:
		m.Set(fd, protoreflect.ValueOfFloat64(float64(z)))
	default:
		panic("kind " + fd.Kind().String())
	}
}
func getNum(m protoreflect.Message, name string) string {
	fd := m.Descriptor().Fields().ByName(protoreflect.Name(name))
	v := m.Get(fd)
	switch fd.Kind() {
	case protoreflect.Uint32Kind, protoreflect.Uint64Kind, protoreflect.Fixed32Kind, protoreflect.Fixed64Kind:
		return zOfU64(v.Uint())
	case protoreflect.FloatKind, protoreflect.DoubleKind:
		return floatTok(v.Float())
	default:
		return common.Z(v.Int())
	}
}

func execInc(s *rig.Server, n namer, q request) string {
	name := "Increment" + incNames[q.Ty]
	meth := reflect.ValueOf(s.GW).MethodByName(name)
	reqT := meth.Type().In(1).Elem()
	reqV := reflect.New(reqT)
	req := reqV.Interface().(proto.Message)
	rm := req.ProtoReflect()
	rm.Set(rm.Descriptor().Fields().ByName("IslandID"), protoreflect.ValueOfUint64(1))
	rm.Set(rm.Descriptor().Fields().ByName("SwampName"), protoreflect.ValueOfString(n.swamp(q.Sw)))
	rm.Set(rm.Descriptor().Fields().ByName("Key"), protoreflect.ValueOfString(keyName(q.K)))
	setNum(rm, "IncrementBy", q.By, q.ByU64, q.Ty == tU64)
	if q.Cond {
		fd := rm.Descriptor().Fields().ByName("Condition")
		cm := rm.Mutable(fd).Message()
		cm.Set(cm.Descriptor().Fields().ByName("RelationalOperator"), protoreflect.ValueOfEnum(protoreflect.EnumNumber(q.CondOp)))
		setNum(cm, "Value", q.CondV, q.CondU, q.Ty == tU64)
	}
	if q.NE != nil {
		rm.Set(rm.Descriptor().Fields().ByName("SetIfNotExist"), protoreflect.ValueOfMessage(imetaPb(q.NE).ProtoReflect()))
	}
	if q.E != nil {
		rm.Set(rm.Descriptor().Fields().ByName("SetIfExist"), protoreflect.ValueOfMessage(imetaPb(q.E).ProtoReflect()))
	}
	out := meth.Call([]reflect.Value{reflect.ValueOf(ctx), reqV})
	var err error
	if !out[1].IsNil() {
		err = out[1].Interface().(error)
	}
	if o, done := outcome(out[0].Interface(), err); done {
		return o
	}
	pm := out[0].Interface().(proto.Message).ProtoReflect()
	val := getNum(pm, "Value")
	inc := pm.Get(pm.Descriptor().Fields().ByName("IsIncremented")).Bool()
	md := "None"
	mfd := pm.Descriptor().Fields().ByName("Metadata")
	if pm.Has(mfd) {
		mm := pm.Get(mfd).Message().Interface().(*hydrapb.IncrementResponseMetadata)
		m := meta{Cat: tokOfTs(mm.CreatedAt), Mat: tokOfTs(mm.UpdatedAt), Exp: tokOfTs(mm.ExpiredAt)}
		if mm.CreatedBy != nil {
			m.Cby = tokOf(*mm.CreatedBy, "u")
		}
		if mm.UpdatedBy != nil {
			m.Mby = tokOf(*mm.UpdatedBy, "u")
		}
		md = "(Some " + m.coq() + ")"
	}
	return fmt.Sprintf("(RInc %s %s %s)", val, common.Bool(inc), md)
}

// ---------------------------------------------------------------- generator

var intEdges = map[int][]int64{
	tU8: {0, 1, 2, 3, 254, 255, 256, 257}, tU16: {0, 1, 2, 65535, 65536}, tU32: {0, 1, 2, 4294967295},
	tU64: {0, 1, 2, 5}, tI8: {0, 1, -1, 2, 127, 128, -128, -129, 255, 256}, tI16: {0, 1, -1, 32767, 32768, -32768, -32769},
	tI32: {0, 1, -1, 2147483647, -2147483648}, tI64: {0, 1, -1, 5, 9223372036854775807, -9223372036854775808},
	tF32: {1, 2, -1, 3, 100}, tF64: {1, 2, -1, 3, 1000}, tStr: {1, 2, 3}, tBool: {0, 1}, tBytes: {1, 2, 3},
}

type gen struct {
	r      *common.Rng
	wild   bool
	keyTy  [5]int // disciplined mode: the kind of each key: a type number, or 100 = slice
	uniq   int64
	palette []int
}

func newGen(r *common.Rng, wild bool) *gen {
	g := &gen{r: r, wild: wild, uniq: 10}
	all := []int{tU8, tU16, tU32, tU64, tI8, tI16, tI32, tI64, tF32, tF64, tStr, tBool, tBytes}
	for i := 0; i < 3; i++ {
		g.palette = append(g.palette, all[r.Intn(len(all))])
	}
	g.palette = append(g.palette, []int{tU8, tI8, tI64}[r.Intn(3)])
	g.keyTy[0] = tI64 // the empty key (rejected by the writing handlers)
	for k := 1; k <= 4; k++ {
		if r.Chance(30) {
			g.keyTy[k] = 100
		} else {
			g.keyTy[k] = g.palette[r.Intn(len(g.palette))]
		}
	}
	return g
}
func (g *gen) sw() int64 {
	if g.r.Chance(1) {
		return 0
	}
	return int64(1 + g.r.Intn(2))
}
func (g *gen) key() int64 {
	if g.r.Intn(150) == 0 {
		return 0 // the empty key
	}
	return int64(1 + g.r.Intn(4))
}
func (g *gen) keys(max int) []int64 {
	n := 1 + g.r.Intn(max)
	if g.r.Chance(4) {
		n = 0
	}
	out := []int64{}
	for i := 0; i < n; i++ {
		out = append(out, g.key())
	}
	return out
}
func (g *gen) scalar(ty int) setval {
	e := intEdges[ty]
	z := e[g.r.Intn(len(e))]
	v := setval{Kind: 1, Ty: ty, Z: z}
	if ty == tU64 {
		v.U64 = uint64(z)
		if g.r.Chance(15) {
			v.U64 = 18446744073709551615
		}
	}
	return v
}
func (g *gen) u32s() []uint32 {
	n := g.r.Intn(4)
	out := []uint32{}
	for i := 0; i < n; i++ {
		out = append(out, uint32(1+g.r.Intn(4)))
	}
	if g.r.Chance(5) {
		out = append(out, 4294967295)
	}
	return out
}
func (g *gen) meta() meta {
	var m meta
	if !g.r.Chance(25) {
		return m
	}
	tok := func() int64 {
		if g.wild {
			return int64(1 + g.r.Intn(2))
		}
		g.uniq++
		return g.uniq
	}
	if g.r.Bool() {
		m.Cby = tok()
	}
	if g.r.Chance(30) {
		m.Cat = tok()
	}
	if g.r.Chance(30) {
		m.Mby = tok()
	}
	if g.r.Chance(30) {
		m.Mat = tok()
	}
	if g.r.Chance(20) {
		m.Exp = tok()
	}
	return m
}
func (g *gen) imeta() *imeta {
	if !g.r.Chance(25) {
		return nil
	}
	m := &imeta{Cat: g.r.Chance(40), Mat: g.r.Chance(40)}
	if g.r.Bool() {
		m.Cby = int64(1 + g.r.Intn(3))
	}
	if g.r.Chance(30) {
		m.Mby = int64(1 + g.r.Intn(3))
	}
	if g.r.Chance(20) {
		m.Exp = int64(1 + g.r.Intn(3))
	}
	return m
}

func (g *gen) request() request {
	r := g.r
	x := r.Intn(100)
	switch {
	case x < 24: // Set
		q := request{Op: "Set", Sw: g.sw(), Create: true, Over: true}
		if r.Chance(30) {
			q.Create, q.Over = r.Bool(), r.Bool()
		}
		if r.Chance(2) {
			q.KVNil = true
			return q
		}
		n := 1 + r.Intn(3)
		if r.Chance(3) {
			n = 0
		}
		for i := 0; i < n; i++ {
			k := g.key()
			var v setval
			if g.wild {
				switch y := r.Intn(10); {
				case y < 1:
					v = setval{Kind: 0}
				case y < 3:
					v = setval{Kind: 2, Sl: append(g.u32s(), 1)}
				default:
					v = g.scalar(g.palette[r.Intn(len(g.palette))])
				}
			} else if g.keyTy[k] == 100 {
				continue // slice keys are only written through push in disciplined histories
			} else {
				v = g.scalar(g.keyTy[k])
			}
			q.KVs = append(q.KVs, kv{Key: k, Val: v, Meta: g.meta()})
		}
		return q
	case x < 32:
		q := request{Op: "Get"}
		ns := 1
		if r.Chance(20) {
			ns = 2
		}
		for i := 0; i < ns; i++ {
			gs := getsw{Sw: g.sw(), Keys: g.keys(3)}
			if r.Chance(2) {
				gs.Nil = true
			}
			if r.Chance(2) && len(gs.Keys) > 0 {
				gs.Keys[0] = 0
			}
			q.Gets = append(q.Gets, gs)
		}
		return q
	case x < 36:
		return request{Op: "GetAll", Sw: g.sw()}
	case x < 40:
		return request{Op: "GetByKeys", Sw: g.sw(), Keys: g.keys(3)}
	case x < 48:
		if r.Chance(12) {
			return request{Op: "Delete", Sw: g.sw(), Keys: []int64{1, 2, 3, 4}} // empties the swamp
		}
		return request{Op: "Delete", Sw: g.sw(), Keys: g.keys(3)}
	case x < 52:
		q := request{Op: "Count", Sws: []int64{g.sw()}}
		if r.Chance(30) {
			q.Sws = append(q.Sws, g.sw())
		}
		return q
	case x < 56:
		return request{Op: "IsSwampExist", Sw: g.sw()}
	case x < 59:
		return request{Op: "IsKeyExist", Sw: g.sw(), K: g.key()}
	case x < 62:
		return request{Op: "AreKeysExist", Sw: g.sw(), Keys: g.keys(4)}
	case x < 66:
		if r.Chance(15) {
			return request{Op: "ShiftByKeys", Sw: g.sw(), Keys: []int64{4, 3, 2, 1}} // empties the swamp
		}
		return request{Op: "ShiftByKeys", Sw: g.sw(), Keys: g.keys(3)}
	case x < 80: // Inc
		k := g.key()
		ty := g.keyTy[k]
		if g.wild || ty == 100 || ty > tF64 {
			ty = []int{tU8, tU16, tU32, tU64, tI8, tI16, tI32, tI64, tF32, tF64}[r.Intn(10)]
			if !g.wild {
				for kk := 1; kk <= 4; kk++ { // prefer a key of a numeric kind
					if g.keyTy[kk] <= tF64 {
						k, ty = int64(kk), g.keyTy[kk]
					}
				}
			}
		}
		q := request{Op: "Inc", Sw: g.sw(), K: k, Ty: ty}
		bys := map[int][]int64{tU8: {1, 2, 255, 256, 100}, tU16: {1, 65535, 65536, 7}, tU32: {1, 4294967295, 3}, tU64: {1, 2, 7},
			tI8: {1, -1, 127, -128, 256, 100}, tI16: {1, -1, 32767, 65536}, tI32: {1, -1, 2147483647}, tI64: {1, -1, 9223372036854775807, 5},
			tF32: {1, -1, 2}, tF64: {1, -1, 10}}[ty]
		q.By = bys[r.Intn(len(bys))]
		q.ByU64 = uint64(q.By)
		if ty == tU64 && r.Chance(15) {
			q.ByU64 = 18446744073709551615
		}
		if r.Chance(3) {
			q.By, q.ByU64 = 0, 0
		}
		if r.Chance(40) {
			q.Cond = true
			q.CondOp = int64(r.Intn(7))
			e := intEdges[ty]
			q.CondV = e[r.Intn(len(e))]
			if ty == tF32 || ty == tF64 || r.Bool() {
				q.CondV = int64(r.Intn(4)) // small values: the boundary "current value == reference" is hit often
			}
			q.CondU = uint64(q.CondV)
		}
		q.NE = g.imeta()
		if g.wild || !q.Cond {
			q.E = g.imeta()
		}
		return q
	case x < 87:
		q := request{Op: "Push", Sw: g.sw()}
		n := 1 + r.Intn(2)
		for i := 0; i < n; i++ {
			k := g.key()
			if !g.wild && g.keyTy[k] != 100 {
				for kk := 1; kk <= 4; kk++ {
					if g.keyTy[kk] == 100 {
						k = int64(kk)
					}
				}
				if g.keyTy[k] != 100 {
					continue
				}
			}
			q.Pairs = append(q.Pairs, pair{Key: k, Vals: g.u32s()})
		}
		return q
	case x < 93:
		q := request{Op: "SlDel", Sw: g.sw()}
		n := 1 + r.Intn(2)
		for i := 0; i < n; i++ {
			k := g.key()
			if !g.wild && g.keyTy[k] != 100 {
				continue
			}
			q.Pairs = append(q.Pairs, pair{Key: k, Vals: g.u32s()})
		}
		return q
	case x < 95:
		return request{Op: "Size", Sw: g.sw(), K: g.key()}
	case x < 97:
		return request{Op: "IsVal", Sw: g.sw(), K: g.key(), V: int64(1 + r.Intn(4))}
	case x < 98:
		return request{Op: "Destroy", Sw: g.sw()}
	default:
		return request{Op: "GetAll", Sw: g.sw()}
	}
}

// flushSwamp forces the write-interval flush of a persistent swamp (what the 1 s write ticker does),
// so that later requests of the history meet records that are already on disk: the delete path, the
// waiting-for-writer list and the auto-destroy decision differ for such records. Not a request of
// the API: it has no counterpart in the model (a flush must be unobservable through the API).
func flushSwamp(s *rig.Server, name string) {
	if name == "" {
		return
	}
	h := s.Zeus.GetHydra()
	if ex, err := h.IsExistSwamp(1, rig.Name(name)); err != nil || !ex {
		return
	}
	sw, err := h.SummonSwamp(ctx, 1, rig.Name(name))
	if err != nil || sw == nil {
		return
	}
	sw.BeginVigil()
	sw.WriteTreasuresToFilesystem()
	sw.CeaseVigil()
}

// ---------------------------------------------------------------- running a history

type outcomeT struct {
	term       string
	descr      map[string]interface{}
	hang       bool
	nontrivial bool
	ops        map[string]int
}

var hungMu sync.Mutex
var hung int

func runHistory(s *rig.Server, idx int, persistent bool, flushPct int, reqs []request, watchdog time.Duration) outcomeT {
	frng := common.NewRng(uint64(idx), "C06-flush")
	pfx := "c06m"
	if persistent {
		pfx = "c06p"
	}
	n := namer{prefix: fmt.Sprintf("%s/h%d", pfx, idx)}
	var hist []string
	var human []string
	out := outcomeT{ops: map[string]int{}}
	writes := 0
	// every history ends with the existence and the contents of both swamps, asked through the API like
	// any other request, so that the last state change of the history is also judged by the oracle
	// (only for the swamps the history mentions)
	{
		used := map[int64]bool{}
		for _, q := range reqs {
			used[q.Sw] = true
			for _, g := range q.Gets {
				used[g.Sw] = true
			}
			for _, sw := range q.Sws {
				used[sw] = true
			}
		}
		reqs = append([]request(nil), reqs...)
		for sw := int64(1); sw <= 2; sw++ {
			if used[sw] {
				reqs = append(reqs, request{Op: "IsSwampExist", Sw: sw}, request{Op: "GetAll", Sw: sw})
			}
		}
	}
	for _, q := range reqs {
		ch := make(chan string, 1)
		go func(q request) {
			defer func() {
				if r := recover(); r != nil {
					ch <- "RPanic"
				}
			}()
			ch <- execReq(s, n, q)
		}(q)
		var resp string
		select {
		case resp = <-ch:
		case <-time.After(watchdog):
			resp = "RHang"
			out.hang = true
		}
		out.ops[q.Op]++
		if strings.Contains(resp, "StNew") || strings.Contains(resp, "StUpdated") || strings.Contains(resp, "StDeleted") || strings.HasPrefix(resp, "(RInc") {
			writes++
		}
		hist = append(hist, "("+q.coq()+", "+resp+")")
		human = append(human, q.coq()+" => "+resp)
		if persistent && !out.hang && flushPct > 0 && frng.Intn(100) < flushPct {
			done := make(chan struct{})
			go func() { defer close(done); flushSwamp(s, n.swamp(1)); flushSwamp(s, n.swamp(2)) }()
			select {
			case <-done:
				human = append(human, "  (flush)")
				out.ops["(flush)"]++
			case <-time.After(watchdog):
				human = append(human, "  (flush did not return)")
			}
		}
		if out.hang {
			hungMu.Lock()
			hung++
			hungMu.Unlock()
			break
		}
	}
	var fin []string
	if !out.hang {
		for sw := int64(1); sw <= 2; sw++ {
			ch := make(chan string, 1)
			go func(sw int64) {
				ex, err := s.GW.IsSwampExist(ctx, &hydrapb.IsSwampExistRequest{IslandID: 1, SwampName: n.swamp(sw)})
				if err != nil || ex == nil || !ex.IsExist {
					ch <- "(" + common.Z(sw) + ", false, [])"
					return
				}
				all, err := s.GW.GetAll(ctx, &hydrapb.GetAllRequest{IslandID: 1, SwampName: n.swamp(sw)})
				if err != nil || all == nil {
					ch <- "(" + common.Z(sw) + ", true, [V (-5)%Z false None [] M0])"
					return
				}
				ch <- "(" + common.Z(sw) + ", true, " + viewsCoq(all.Treasures, true) + ")"
			}(sw)
			select {
			case f := <-ch:
				fin = append(fin, f)
			case <-time.After(watchdog):
				fin = append(fin, "("+common.Z(sw)+", true, [V (-6)%Z false None [] M0])")
			}
		}
		// leave nothing behind (also exercises Destroy on whatever state the history reached)
		for sw := int64(1); sw <= 2; sw++ {
			done := make(chan struct{})
			go func(sw int64) {
				defer close(done)
				_, _ = s.GW.Destroy(ctx, &hydrapb.DestroyRequest{IslandID: 1, SwampName: n.swamp(sw)})
			}(sw)
			select {
			case <-done:
			case <-time.After(watchdog):
			}
		}
	}
	// the final contents are already part of the history (closing probes above); [fin] stays in the
	// replay description only
	out.term = "(CC " + common.List(hist) + " [])"
	out.descr = map[string]interface{}{"history": human, "persistent": persistent, "final": fin}
	out.nontrivial = writes >= 2
	return out
}

// the alphabet of the exhaustive short histories: one swamp, one key
func smallAlphabet() []request {
	one := func(v setval) []kv { return []kv{{Key: 1, Val: v}} }
	return []request{
		{Op: "Set", Sw: 1, Create: true, Over: true, KVs: one(setval{Kind: 1, Ty: tI64, Z: 1})},
		{Op: "Set", Sw: 1, Create: true, Over: true, KVs: one(setval{Kind: 1, Ty: tI64, Z: 2})},
		{Op: "Set", Sw: 1, Create: true, Over: false, KVs: one(setval{Kind: 1, Ty: tI64, Z: 2})},
		{Op: "Set", Sw: 1, Create: false, Over: true, KVs: one(setval{Kind: 1, Ty: tI64, Z: 1})},
		{Op: "Get", Gets: []getsw{{Sw: 1, Keys: []int64{1}}}},
		{Op: "Delete", Sw: 1, Keys: []int64{1}},
		{Op: "Inc", Sw: 1, K: 1, Ty: tI64, By: 1, ByU64: 1},
		{Op: "Inc", Sw: 1, K: 1, Ty: tI64, By: 1, ByU64: 1, Cond: true, CondOp: 3, CondV: 2, CondU: 2},
		{Op: "Inc", Sw: 1, K: 1, Ty: tI64, By: 1, ByU64: 1, Cond: true, CondOp: 1, CondV: 1, CondU: 1}, // if > 1
		{Op: "Inc", Sw: 1, K: 1, Ty: tI64, By: -1, ByU64: 1, Cond: true, CondOp: 4, CondV: 2, CondU: 2}, // if <= 2
		{Op: "Push", Sw: 1, Pairs: []pair{{Key: 1, Vals: []uint32{1}}}},
		{Op: "SlDel", Sw: 1, Pairs: []pair{{Key: 1, Vals: []uint32{1}}}},
		{Op: "ShiftByKeys", Sw: 1, Keys: []int64{1}},
		{Op: "Count", Sws: []int64{1}},
		{Op: "IsSwampExist", Sw: 1},
		{Op: "Size", Sw: 1, K: 1},
	}
}

// a second alphabet, over two keys of one swamp, aimed at the ways a swamp becomes empty (and at what
// an earlier refused or detached write leaves behind when it does)
func twoKeyAlphabet() []request {
	i64 := func(k, z int64) kv { return kv{Key: k, Val: setval{Kind: 1, Ty: tI64, Z: z}} }
	return []request{
		{Op: "Set", Sw: 1, Create: true, Over: true, KVs: []kv{i64(1, 1)}},
		{Op: "Set", Sw: 1, Create: true, Over: true, KVs: []kv{i64(2, 1), i64(2, 2)}}, // the same key twice in one request
		{Op: "Delete", Sw: 1, Keys: []int64{1}},
		{Op: "Delete", Sw: 1, Keys: []int64{2, 1, 2}},
		{Op: "Inc", Sw: 1, K: 2, Ty: tI64, By: 1, ByU64: 1, Cond: true, CondOp: 0, CondV: 5, CondU: 5}, // refused on an absent key
		{Op: "Inc", Sw: 1, K: 2, Ty: tI32, By: 1, ByU64: 1},
		{Op: "ShiftByKeys", Sw: 1, Keys: []int64{1, 2}},
		{Op: "SlDel", Sw: 1, Pairs: []pair{{Key: 1, Vals: []uint32{1}}, {Key: 2, Vals: []uint32{1}}}},
	}
}

func main() {
	args := common.ParseArgs()
	run := common.NewRun(args, "C06", "HV.Swamp.ApiCheck")
	run.Shard = 1000 // the cases are small; the fixed cost of a shard (loading the libraries) dominates
	run.Meta.Rule = "a history is non-trivial when at least two of its requests changed stored data (NEW/UPDATED/DELETED status or an increment answer)"
	rig.Quiet()
	root, _ := os.MkdirTemp("", "c06")
	s := rig.Start(root, true)
	s.Register("c06m/*/*", true, 3600, 0, 0)
	s.Register("c06p/*/*", false, 3600, 1, 8192)

	nRandom, maxLen, exhLen := 260, 300, 3
	if args.Tier == "thorough" {
		nRandom, exhLen = 2000, 4
	}
	watchdog := 5 * time.Second

	type job struct {
		reqs       []request
		persistent bool
		kind       string
	}
	var jobs []job
	// 1. exhaustive short histories over one key (model -> impl direction: every sequence)
	alpha := smallAlphabet()
	var seqs [][]request
	var rec func(cur []request, n int)
	rec = func(cur []request, n int) {
		if len(cur) > 0 {
			seqs = append(seqs, append([]request(nil), cur...))
		}
		if n == 0 {
			return
		}
		for _, a := range alpha {
			rec(append(cur, a), n-1)
		}
	}
	rec(nil, exhLen)
	alpha2 := twoKeyAlphabet()
	alpha, alpha2 = alpha2, alpha
	rec(nil, exhLen+1) // the two-key alphabet is small: one request longer
	alpha, alpha2 = alpha2, alpha
	for i, sq := range seqs {
		jobs = append(jobs, job{reqs: sq, persistent: i%2 == 1, kind: "exhaustive"})
	}
	// 1b. the witnesses of C06_refines_spec_refuted / C06_refuted_at_pinned_commit (model -> impl)
	{
		i64 := func(z int64) setval { return setval{Kind: 1, Ty: tI64, Z: z} }
		set := func(kvs ...kv) request { return request{Op: "Set", Sw: 1, Create: true, Over: true, KVs: kvs} }
		get1 := request{Op: "Get", Gets: []getsw{{Sw: 1, Keys: []int64{1}}}}
		withMeta := kv{Key: 1, Val: i64(1), Meta: meta{Cby: 7}}
		ws := [][]request{
			{set(kv{Key: 1, Val: i64(1)}), set(kv{Key: 1, Val: setval{Kind: 0}}), get1},
			{{Op: "Push", Sw: 1, Pairs: []pair{{Key: 1, Vals: []uint32{1}}}}, set(kv{Key: 1, Val: setval{Kind: 2, Sl: []uint32{2}}}), get1},
			{set(kv{Key: 1, Val: i64(1)}, kv{Key: 2, Val: i64(1)}), {Op: "SlDel", Sw: 1, Pairs: []pair{{Key: 1, Vals: []uint32{1}}}}, {Op: "IsKeyExist", Sw: 1, K: 1}},
			{set(kv{Key: 2, Val: i64(1)}), {Op: "Inc", Sw: 1, K: 1, Ty: tI64, By: 1, ByU64: 1, Cond: true, CondOp: 1, CondV: 2, CondU: 2}, {Op: "Inc", Sw: 1, K: 1, Ty: tI8, By: 1, ByU64: 1}},
			{set(withMeta), set(withMeta)},
			{set(kv{Key: 1, Val: i64(1)}), set(kv{Key: 1, Val: i64(1)})},
			{{Op: "Push", Sw: 1, Pairs: []pair{{Key: 1, Vals: []uint32{1}}}}, {Op: "SlDel", Sw: 1, Pairs: []pair{{Key: 1, Vals: []uint32{1}}}}},
			{set(kv{Key: 1, Val: i64(1)}), {Op: "Get", Gets: []getsw{{Sw: 1, Keys: []int64{}}}}},
		}
		for i, w := range ws {
			jobs = append(jobs, job{reqs: w, persistent: i%2 == 0, kind: "witness"})
			jobs = append(jobs, job{reqs: w, persistent: i%2 == 1, kind: "witness"})
		}
	}
	// 2. random histories of 5..300 requests
	rng := common.NewRng(args.Seed, "C06")
	for i := 0; i < nRandom; i++ {
		r := rng.Fork(fmt.Sprintf("h%d", i))
		wild := i%5 >= 3
		g := newGen(r, wild)
		n := 5 + r.Intn(60)
		if i%10 == 0 {
			n = 100 + r.Intn(maxLen-100+1)
		}
		var reqs []request
		for j := 0; j < n; j++ {
			reqs = append(reqs, g.request())
		}
		kind := "random-disciplined"
		if wild {
			kind = "random-wild"
		}
		jobs = append(jobs, job{reqs: reqs, persistent: i%2 == 0, kind: kind})
	}
	// spread the (long) random histories evenly over the case shards
	{
		var ex, rnd []job
		for _, j := range jobs {
			if j.kind == "exhaustive" {
				ex = append(ex, j)
			} else {
				rnd = append(rnd, j)
			}
		}
		stride := 1
		if len(rnd) > 0 {
			stride = len(ex)/len(rnd) + 1
		}
		jobs = jobs[:0]
		ri := 0
		for i, j := range ex {
			jobs = append(jobs, j)
			if (i+1)%stride == 0 && ri < len(rnd) {
				jobs = append(jobs, rnd[ri])
				ri++
			}
		}
		jobs = append(jobs, rnd[ri:]...)
	}
	if args.Only >= 0 && args.Only < len(jobs) {
		jobs = []job{jobs[args.Only]}
	}
	res := make([]outcomeT, len(jobs))
	common.Parallel(len(jobs), 16, func(i int) {
		// persistent histories: every other one with forced flushes between the requests (after every
		// request, or after about a third of them)
		flushPct := 0
		if jobs[i].persistent {
			switch i % 6 {
			case 1:
				flushPct = 100
			case 3:
				flushPct = 35
			}
			if jobs[i].kind != "exhaustive" && flushPct == 0 && i%4 == 0 {
				flushPct = 15
			}
		}
		res[i] = runHistory(s, i, jobs[i].persistent, flushPct, jobs[i].reqs, watchdog)
	})
	for i, o := range res {
		o.descr["kind"] = jobs[i].kind
		run.Add(o.term, o.descr, o.nontrivial)
		run.Hist("history:" + jobs[i].kind)
		if jobs[i].persistent {
			run.Hist("swamp:persistent")
		} else {
			run.Hist("swamp:in-memory")
		}
		for op, c := range o.ops {
			run.HistN("op:"+op, c)
		}
		if o.hang {
			run.Hist("history-hung")
		}
	}
	run.Meta.Traces = len(jobs)
	run.Meta.Extra["exhaustive_len"] = exhLen
	run.Meta.Extra["alphabet"] = len(alpha)
	run.Finish("check_all")
	if hung == 0 {
		done := make(chan struct{})
		go func() { s.Stop(); close(done) }()
		select {
		case <-done:
		case <-time.After(30 * time.Second):
			fmt.Fprintln(os.Stderr, "engine did not stop within 30 s")
		}
	}
	os.RemoveAll(root)
	os.Exit(0)
}
