// c25: correspondence check for "a disk write fault loses nothing that was stored and later
// writes are stored once the fault clears" (V2 chronicler writer) against
// Storage/C02Writer.v + C25Fault.v.
//
// Every case is a workload (single-treasure Write calls, Syncs, Closes) run by a child
// process under strace, in which RLIMIT_FSIZE is lowered around chosen calls so that the
// block write of that call stops after exactly j bytes and fails with EFBIG (a real short
// write followed by a real error from the kernel). The file operations and the outcome of
// every call are observed; the fault outcomes are lifted from what strace shows (the size of
// the block that was attempted is read from the block header the writer passed to write(2)).
// Right after a faulted call (and after the next one) the .hyd file is copied and loaded by
// a fresh chronicler; the final file is loaded after a fault-free Close.
package main

import (
	"fmt"
	"os"
	"path/filepath"

	"verif/harness/common"
	lib "verif/harness/lib/c02"
)

func itoa(n int) string { return fmt.Sprint(n) }

// rng0: deterministic choice in 0..n-1 that does not consume the run's PRNG (it is called from
// parallel workers): which of the blocks a batch flushes gets the header-rewrite fault.
func rng0(i, k, n int) int {
	if n <= 1 {
		return 0
	}
	return int((uint64(i)*2654435761 + uint64(k)*40503 + 12345) % uint64(n))
}

type flushInfo struct {
	step  int
	total int64 // 16 + payload size in the fault-free run
}

// sysInfo: ordinals (1-based, counted over the child's whole fault-free run) of the positioned
// header rewrites and fsyncs each step makes: the targets of strace's EIO injection.
type sysInfo struct {
	flushHdr int // ordinal of the pwrite64 that follows the step's block write (0 = none)
	syncHdr  int // ordinal of the Sync/Close's own header pwrite64 (0 = none)
	fsync    int // ordinal of the Sync/Close's fsync (0 = none)
}

type job struct {
	s      lib.Script
	tag    string
	res    []lib.StepResult
	tr     *lib.Trace
	err    error
	hist   []lib.Api
	oks    []bool
	done   []int
	midsT  []string
	midsH  []interface{}
	final  lib.State
	script int
}

func main() {
	if len(os.Args) >= 3 && os.Args[1] == "--child" {
		lib.ChildMain(os.Args[2])
		return
	}
	a := common.ParseArgs()
	lib.SilenceLogs()
	run := common.NewRun(a, "C25", "HV.Storage.C25Fault")
	run.Meta.Rule = "a case is one workload (chronicler.Write calls with one treasure or a batch of 2-10 treasures spanning block boundaries, Syncs, Closes) on one .hyd file with RLIMIT_FSIZE lowered around one or two calls so that the block write of the call stops after j bytes (j in {0, 1, 15, 16, 17, middle of the payload, one byte before the end}) and fails; observed: file operations, result of every call, Load of a copy of the file right after the faulted call and after the next call, Load of the final file; also: strace makes a chosen in-place header rewrite (pwrite64) or fsync fail with EIO, alone or before/after a short block write, or the truncation back after a short write (and its retries); non-trivial = at least one block write really stopped after j > 0 bytes (a partial block reached the file) or a header rewrite / fsync really failed; distinct = distinct (history with observed fault outcomes, observations)"
	rng := common.NewRng(a.Seed, "C25")
	self, err := os.Executable()
	if err != nil {
		fmt.Fprintln(os.Stderr, err)
		os.Exit(2)
	}
	root, err := lib.TempRoot("verif-c25-")
	if err != nil {
		fmt.Fprintln(os.Stderr, err)
		os.Exit(2)
	}
	defer os.RemoveAll(root)

	nScripts, minW, maxW, nSingle, nDouble, nEio, nTrunc := 22, 4, 24, 3, 2, 2, 2
	if a.Tier == "thorough" {
		nScripts, minW, maxW, nSingle, nDouble, nEio, nTrunc = 220, 4, 50, 6, 2, 4, 3
	}
	scripts := make([]lib.Script, nScripts)
	for i := range scripts {
		scripts[i] = lib.GenScriptB(rng, i, minW, maxW, 60, 30, 10)
	}
	// fault-free run of every script in this process: which calls flush a block, how long it is
	flushes := make([][]flushInfo, nScripts)
	sysc := make([][]sysInfo, nScripts)
	common.Parallel(nScripts, 16, func(i int) {
		dir, err := os.MkdirTemp(root, "l")
		if err != nil {
			return
		}
		defer os.RemoveAll(dir)
		s := scripts[i]
		s.Steps = append([]lib.Step{}, s.Steps...)
		sizes, blocks, res := lib.RunInProcBlocks(dir, &s)
		prev := int64(lib.FH + s.NLen())
		prevBlocks := 0
		sysc[i] = make([]sysInfo, len(s.Steps))
		npw, nfs := 0, 0
		for k := range s.Steps {
			if !res[k].Executed || sizes[k] < 0 {
				continue
			}
			if g := sizes[k] - prev; g > lib.BH {
				flushes[i] = append(flushes[i], flushInfo{k, g})
				nb := blocks[k] - prevBlocks // a batch can flush several blocks in one call
				if nb < 1 {
					nb = 1
				}
				sysc[i][k].flushHdr = npw + 1 + rng0(i, k, nb)
				npw += nb
			}
			prevBlocks = blocks[k]
			if s.Steps[k].K == lib.KSync || s.Steps[k].K == lib.KClose {
				npw++
				nfs++
				sysc[i][k].syncHdr, sysc[i][k].fsync = npw, nfs
			}
			prev = sizes[k]
		}
	})

	pickJ := func(total int64) int {
		menu := []int64{0, 1, 15, 16, 17, lib.BH + (total-lib.BH)/2, total - 1}
		return int(menu[rng.Intn(len(menu))])
	}
	var jobs []*job
	for i, s := range scripts {
		last := len(s.Steps) - 1
		var fl []flushInfo // the final Close stays fault-free
		for _, f := range flushes[i] {
			if f.step < last {
				fl = append(fl, f)
			}
		}
		var inject map[string]string // EIO injection of the next mk call
		var injectSteps []int     // steps to snapshot after because of it
		mk := func(tag string, faults map[int]int) {
			c := lib.Script{Name: s.Name, MBS: s.MBS, Steps: append([]lib.Step{}, s.Steps...), Inject: inject}
			for _, st := range injectSteps {
				c.Steps[st].Snap = true
				if st+1 < len(c.Steps) {
					c.Steps[st+1].Snap = true
				}
			}
			inject, injectSteps = nil, nil
			for st, j := range faults {
				c.Steps[st].FaultJ = j
				c.Steps[st].Snap = true
				if st+1 < len(c.Steps) {
					c.Steps[st+1].Snap = true
				}
			}
			jobs = append(jobs, &job{s: c, tag: tag, script: i})
		}
		mk("control", nil)
		if len(fl) == 0 {
			continue
		}
		// single faults: every j class at least once per script in rotation
		menuSel := rng.Intn(7)
		for n := 0; n < nSingle; n++ {
			f := fl[rng.Intn(len(fl))]
			menu := []int64{0, 1, 15, 16, 17, lib.BH + (f.total-lib.BH)/2, f.total - 1}
			j := int(menu[(menuSel+n*2)%7])
			mk("single", map[int]int{f.step: j})
		}
		// EIO faults (strace injection): the in-place header rewrite after a block write, the
		// header rewrite of a Sync/Close, the fsync of a Sync/Close - alone, and followed by a
		// short block write at a later flush (a second fault that needs the writer's bookkeeping
		// to be right after the first)
		var barriers []int // Sync / non-final Close steps that run with an open writer
		for k := 0; k < last; k++ {
			if sysc[i][k].fsync > 0 {
				barriers = append(barriers, k)
			}
		}
		laterShort := func(after int) map[int]int {
			var later []flushInfo
			for _, g := range fl {
				if g.step > after {
					later = append(later, g)
				}
			}
			if len(later) == 0 {
				return nil
			}
			g := later[rng.Intn(len(later))]
			return map[int]int{g.step: pickJ(g.total)}
		}
		for n := 0; n < nEio; n++ {
			f := fl[rng.Intn(len(fl))]
			inject, injectSteps = map[string]string{"pwrite64": itoa(sysc[i][f.step].flushHdr)}, []int{f.step}
			if n%2 == 0 {
				mk("eio_flush_hdr", nil)
			} else if ls := laterShort(f.step); ls != nil {
				mk("eio_flush_hdr_then_short", ls)
			} else {
				mk("eio_flush_hdr", nil)
			}
		}
		if len(barriers) > 0 {
			b := barriers[rng.Intn(len(barriers))]
			inject, injectSteps = map[string]string{"pwrite64": itoa(sysc[i][b].syncHdr)}, []int{b}
			mk("eio_sync_hdr", laterShort(b))
			b = barriers[rng.Intn(len(barriers))]
			inject, injectSteps = map[string]string{"fsync": itoa(sysc[i][b].fsync)}, []int{b}
			mk("eio_fsync", laterShort(b))
			// both kinds in one run, at independent places
			b = barriers[rng.Intn(len(barriers))]
			f := fl[rng.Intn(len(fl))]
			inject, injectSteps = map[string]string{"fsync": itoa(sysc[i][b].fsync), "pwrite64": itoa(sysc[i][f.step].flushHdr)}, []int{b, f.step}
			mk("eio_fsync_and_hdr", laterShort(f.step))
		}
		// a short block write FIRST, then an EIO at some later header rewrite / fsync (the ordinal
		// is only roughly aimed: the outcome is lifted from what strace shows)
		{
			f := fl[rng.Intn(len(fl))]
			inject = map[string]string{"pwrite64": itoa(sysc[i][f.step].flushHdr + 1 + rng.Intn(3))}
			if rng.Bool() {
				inject = map[string]string{"fsync": itoa(1 + rng.Intn(3))}
			}
			for k := f.step + 1; k < last; k++ {
				injectSteps = append(injectSteps, k)
			}
			mk("short_then_eio", map[int]int{f.step: pickJ(f.total)})
		}
		// a short block write whose truncation back fails too (first / first two / all but the
		// last truncations fail), optionally with a second short write later: the writer must
		// remember the dirty tail and remove it before anything else is appended
		for n := 0; n < nTrunc; n++ {
			f := fl[rng.Intn(len(fl))]
			when := []string{"1", "1..2", "1..3", "2", "2..3"}[rng.Intn(5)]
			inject = map[string]string{"ftruncate": when}
			for k := f.step + 1; k < last && k < f.step+6; k++ {
				injectSteps = append(injectSteps, k)
			}
			faults := map[int]int{f.step: pickJ(f.total)}
			if n%2 == 1 {
				if ls := laterShort(f.step); ls != nil {
					for k, v := range ls {
						faults[k] = v
					}
				}
			}
			mk("short_then_truncate_fails", faults)
		}
		// a Close whose block write stops short and whose truncation back fails leaves the torn
		// tail in the closed file: the next writer must cut it off when it opens - and that
		// truncation (or the fsync after it) fails as well; the open after that succeeds
		{
			var closes []flushInfo
			for _, g := range fl {
				if s.Steps[g.step].K == lib.KClose {
					closes = append(closes, g)
				}
			}
			if len(closes) > 0 {
				g := closes[rng.Intn(len(closes))]
				j := pickJ(g.total)
				if j == 0 {
					j = 1 // something must reach the file
				}
				inject = map[string]string{"ftruncate": "1..2"}
				for k := g.step + 1; k < last && k < g.step+5; k++ {
					injectSteps = append(injectSteps, k)
				}
				mk("short_at_close_then_open_truncate_fails", map[int]int{g.step: j})
				inject = map[string]string{"ftruncate": "1", "fsync": itoa(sysc[i][g.step].fsync)}
				for k := g.step + 1; k < last && k < g.step+5; k++ {
					injectSteps = append(injectSteps, k)
				}
				mk("short_at_close_then_open_fsync_fails", map[int]int{g.step: j})
			}
		}
		for n := 0; n < nDouble; n++ {
			f := fl[rng.Intn(len(fl))]
			j := pickJ(f.total)
			if n%2 == 0 && f.step+1 < last {
				// the same limit stays for the next call as well
				mk("double_consecutive", map[int]int{f.step: j, f.step + 1: j})
			} else {
				var later []flushInfo
				for _, g := range fl {
					if g.step > f.step {
						later = append(later, g)
					}
				}
				if len(later) == 0 {
					mk("single", map[int]int{f.step: j})
					continue
				}
				g := later[rng.Intn(len(later))]
				mk("double_later", map[int]int{f.step: j, g.step: pickJ(g.total)})
			}
		}
	}

	common.Parallel(len(jobs), 16, func(i int) {
		j := jobs[i]
		dir, err := os.MkdirTemp(root, "c")
		if err != nil {
			j.err = err
			return
		}
		defer os.RemoveAll(dir)
		j.res, j.tr, j.err = lib.RunChild(self, dir, &j.s)
		if j.err != nil {
			return
		}
		j.hist, j.oks, j.done = lib.Lift(&j.s, j.res, j.tr)
		for k, st := range j.s.Steps {
			if !st.Snap || !j.res[k].Executed {
				continue
			}
			b, err := os.ReadFile(filepath.Join(dir, fmt.Sprintf("snap_%d", k)))
			if err != nil {
				continue // no file yet
			}
			d, state := lib.LoadImage(root, b, true, j.s.MBS, j.s.Name)
			os.RemoveAll(d)
			j.midsT = append(j.midsT, fmt.Sprintf("(%d%%nat, %s)", j.done[k], lib.StateCoq(state)))
			j.midsH = append(j.midsH, map[string]interface{}{"after_step": k, "model_calls_done": j.done[k], "file_len": len(b), "loaded": state})
		}
		j.final = lib.LoadState(dir, j.s.MBS, j.s.Name)
	})

	for i, j := range jobs {
		if j.err != nil {
			fmt.Fprintf(os.Stderr, "c25: case %d: %v\n", i, j.err)
			os.Exit(2)
		}
		run.Meta.Traces++
		nshort, nt := 0, false
		for _, c := range j.hist {
			if c.Kind == "openfail" {
				run.Hist("open_failed_cutting_torn_tail")
				nt = true
			}
			if c.Pre {
				run.Hist("truncate_retry_failed")
				nt = true
			}
			if c.TruncFail {
				run.Hist("truncate_back_failed")
				nt = true
			}
			if c.HdrFail {
				run.Hist("eio_header_rewrite_after_block")
				nt = true
			}
			if (c.Kind == "sync" || c.Kind == "close") && !c.SyncOK {
				run.Hist("eio_in_" + c.Kind + "_barrier")
				nt = true
			}
			if c.J < 0 {
				continue
			}
			nshort++
			switch {
			case c.J == 0:
				run.Hist("fault_j0")
			case c.J < lib.BH:
				run.Hist("fault_in_header")
				nt = true
			case c.J == lib.BH:
				run.Hist("fault_at_16")
				nt = true
			default:
				run.Hist("fault_in_payload")
				nt = true
			}
			run.Hist("fault_at_" + c.Kind)
		}
		switch {
		case nshort >= 2:
			run.Hist("double_fault")
		case nshort == 0 && !nt:
			run.Hist("no_fault")
		}
		term := fmt.Sprintf("mkc25 %d %s %s %s %s %s", j.s.NLen(), lib.HistCoq(j.hist), lib.OpsCoq(j.tr.Ops), lib.BoolsCoq(j.oks),
			common.List(j.midsT), lib.StateCoq(j.final))
		run.Add(term, map[string]interface{}{"kind": j.tag, "script": j.s, "results": j.res, "history": lib.HistHuman(j.hist),
			"observed_ops": lib.OpsHuman(j.tr.Ops), "oks": j.oks, "mids": j.midsH, "final": j.final, "parser_notes": j.tr.Bad}, nt)
	}
	run.Meta.Extra["scripts"] = nScripts
	run.Finish("check_all")
}
