// c10r: the child process of the C10 check. It is built with -race by the driver
// ($VERIF_BIN/c10r-race) and run by harness/cmd/c10. It boots the real engine in-process and
// runs mixed readers (GetAll / Get / GetByKeys / GetByIndex on several indexes / filtered
// stream / Count) against writers (versioned Set, PatchTreasures, Delete + re-Set, ShiftByKeys,
// inserts of new keys) on ONE swamp. The race detector writes its reports to stderr; a Go
// runtime fatal error ("concurrent map iteration and map write") kills the process - both are
// parsed by the parent. This program prints one line per event to stdout:
//
//	TORN <reader> key=<k> value=<v> updatedBy=<s>     versioned-read check failed
//	READ <reader> key=<k> value=<v> updatedBy=<s>     a sample of the consistent reads
//	NILREPLY <request>                                the gateway swallowed a panic (nil, nil)
//	ERR <request> <error>                             unexpected gRPC error
//	EVENT|ETORN key=<k> value=<v> updatedBy=<s>      a subscriber event (consistent | torn)
//	HANG / STOPHANG                                   the load or the shutdown did not finish (all
//	                                                  goroutine stacks follow on stderr)
//	DONE reads=<n> writes=<n>
//
// --phase A: Set/insert/Delete/ShiftByKeys/Patch writers.  --phase B: the Cap-bearing flows
// (PatchTreasures with Cap, ShiftMatchingTreasures with Cap -> beacon.CountMatching / ShiftMatching)
// and the rarely used readers (IsKeyExist, AreKeysExist, Increment) against inserts of new keys;
// B has no Delete/ShiftByKeys writers because ShiftMatching and deleteHandler take the index
// beacon lock and the record guard in opposite orders (known finding
// deadlock_index_lock_vs_record_guard; a hang is still classified from the stack dump).
// Both phases run an event subscriber (SubscribeToEvents over bufconn) with the versioned check.
package main

import (
	"context"
	"encoding/binary"
	"flag"
	"fmt"
	"io"
	"os"
	"runtime"
	"strconv"
	"sync"
	"sync/atomic"
	"time"

	hydrapb "github.com/hydraide/hydraide/sdk/go/hydraidego/v3/hydraidepbgo"
	"google.golang.org/protobuf/types/known/timestamppb"
	"verif/harness/common"
	"verif/harness/rig"
)

const swampName = "c10/r/s"

var out sync.Mutex

func say(format string, a ...interface{}) {
	out.Lock()
	fmt.Printf(format+"\n", a...)
	out.Unlock()
}

// only the keys written by the versioned Set (k..., n...) carry value = i, updatedBy = "i"
func versioned(key string) bool { return len(key) > 0 && (key[0] == 'k' || key[0] == 'n') }

// blob records: a fixed-size msgpack body {"n": i, "w": i, "p": <32 bytes, each byte(i)>} written
// with one Set (a fresh slice per request, never touched again) together with UpdatedBy = "i".
// A stored byte-array value is immutable, so whatever slice a reader is handed must keep showing
// ONE version: n, w and every pad byte agree.
func blobBody(i int64) []byte {
	b := []byte{0xC7, 0x00, 0x83, 0xa1, 'n'}
	b = append(b, mpInt64(i)...)
	b = append(b, 0xa1, 'w')
	b = append(b, mpInt64(i)...)
	b = append(b, 0xa1, 'p', 0xc4, 32)
	for k := 0; k < 32; k++ {
		b = append(b, byte(i))
	}
	return b
}

// blobCheck reads the bytes without race instrumentation (the harness' own reads are not the
// subject; the engine's are) and reports whether they show exactly one version.
//
//go:norace
func blobCheck(b []byte) (n int64, ok bool) {
	if len(b) != 61 || b[5] != 0xd3 || b[16] != 0xd3 {
		return 0, false
	}
	n = int64(binary.BigEndian.Uint64(b[6:14]))
	w := int64(binary.BigEndian.Uint64(b[17:25]))
	if n != w {
		return n, false
	}
	for k := 29; k < 61; k++ {
		if b[k] != byte(n) {
			return n, false
		}
	}
	return n, true
}

func mpInt64(v int64) []byte {
	b := make([]byte, 9)
	b[0] = 0xd3
	binary.BigEndian.PutUint64(b[1:], uint64(v))
	return b
}

func main() {
	seed := flag.Uint64("seed", 1, "")
	durMs := flag.Int("ms", 2500, "duration of the load in milliseconds")
	mode := flag.String("mode", "mem", "mem | def | imm")
	nkeys := flag.Int("keys", 40, "")
	phase := flag.String("phase", "A", "A | B")
	flag.Parse()
	rig.Quiet()
	root, _ := os.MkdirTemp("", "c10r-")
	defer os.RemoveAll(root)
	srv := rig.Start(root, true)
	switch *mode {
	case "mem":
		srv.Register("c10/r/*", true, 3600, 0, 8192)
	case "imm":
		srv.Register("c10/r/*", false, 3600, 0, 8192)
	default:
		srv.Register("c10/r/*", false, 3600, 1, 8192)
	}
	gw := srv.GW
	_, sc, closeSDK := srv.SDK()
	defer closeSDK()
	ctx := context.Background()

	// versioned write: value = i, UpdatedBy = "i" (and CreatedBy = "i" on creation)
	var version int64
	set := func(key string) {
		i := atomic.AddInt64(&version, 1)
		s := strconv.FormatInt(i, 10)
		now := timestamppb.Now()
		r, err := gw.Set(ctx, &hydrapb.SetRequest{Swamps: []*hydrapb.SwampRequest{{IslandID: 1, SwampName: swampName,
			CreateIfNotExist: true, Overwrite: true, KeyValues: []*hydrapb.KeyValuePair{{Key: key, Int64Val: &i, UpdatedBy: &s, CreatedBy: &s,
				UpdatedAt: now, CreatedAt: now, ExpiredAt: timestamppb.New(time.Now().Add(time.Hour))}}}}})
		if err != nil {
			say("ERR Set %v", err)
		} else if r == nil {
			say("NILREPLY Set")
		}
	}
	key := func(i int) string { return fmt.Sprintf("k%03d", i) }
	for i := 0; i < *nkeys; i++ {
		set(key(i))
	}
	// a msgpack record for the patch writer
	gw.PatchTreasures(ctx, &hydrapb.PatchTreasuresRequest{IslandID: 1, SwampName: swampName, CreateIfNotExist: true,
		Patches: []*hydrapb.TreasurePatch{{Key: "mp", Ops: []*hydrapb.PatchOp{{Op: hydrapb.PatchOp_INC, Path: "n", Value: mpInt64(1)}}}}})

	var reads, writes, sampled int64
	stop := make(chan struct{})

	// ---- event subscriber: every New/Modified event must carry value and author of one version
	var events, esampled int64
	subDone := make(chan struct{})
	subCtx, subCancel := context.WithCancel(ctx)
	defer subCancel()
	if st, err := sc.SubscribeToEvents(subCtx, &hydrapb.SubscribeToEventsRequest{IslandID: 1, SwampName: swampName}); err != nil {
		say("ERR SubscribeToEvents %v", err)
		close(subDone)
	} else {
		seenVersions := map[string]map[int64]bool{}
		go func() {
			defer close(subDone)
			for {
				ev, err := st.Recv()
				if err != nil {
					return
				}
				t := ev.GetTreasure()
				if t == nil || t.Int64Val == nil || !versioned(t.Key) {
					continue
				}
				atomic.AddInt64(&events, 1)
				ub := ""
				if t.UpdatedBy != nil {
					ub = *t.UpdatedBy
				}
				// every versioned Set stores a fresh version and emits one New/Modified event whose
				// record is converted inside that writer's guarded section: no two events of a key
				// carry the same version
				seenV := seenVersions[t.Key]
				if seenV == nil {
					seenV = map[int64]bool{}
					seenVersions[t.Key] = seenV
				}
				if seenV[*t.Int64Val] {
					say("EDUP key=%s value=%d updatedBy=%q", t.Key, *t.Int64Val, ub)
				}
				seenV[*t.Int64Val] = true
				if ub != strconv.FormatInt(*t.Int64Val, 10) {
					say("ETORN key=%s value=%d updatedBy=%q", t.Key, *t.Int64Val, ub)
				} else if atomic.AddInt64(&esampled, 1) <= 150 {
					say("EVENT key=%s value=%d updatedBy=%q", t.Key, *t.Int64Val, ub)
				}
			}
		}()
		time.Sleep(50 * time.Millisecond) // let the subscription reach the swamp
	}
	var wg sync.WaitGroup
	spawn := func(name string, salt int, f func(rng *common.Rng)) {
		wg.Add(1)
		go func() {
			defer wg.Done()
			rng := common.NewRng(*seed, fmt.Sprintf("%s%d", name, salt))
			for {
				select {
				case <-stop:
					return
				default:
				}
				f(rng)
			}
		}()
	}
	check := func(who string, t *hydrapb.Treasure) {
		if t == nil || !t.IsExist || t.Int64Val == nil || !versioned(t.Key) {
			return
		}
		atomic.AddInt64(&reads, 1)
		ub := ""
		if t.UpdatedBy != nil {
			ub = *t.UpdatedBy
		}
		if ub != strconv.FormatInt(*t.Int64Val, 10) {
			say("TORN %s key=%s value=%d updatedBy=%q", who, t.Key, *t.Int64Val, ub)
		} else if atomic.AddInt64(&sampled, 1) <= 150 {
			say("READ %s key=%s value=%d updatedBy=%q", who, t.Key, *t.Int64Val, ub)
		}
	}

	// ---- writers
	// hot keys: writers of the same record back to back (the second one takes the guard while
	// the first is still inside its Save - flush, event delivery, index maintenance)
	for w := 0; w < 3; w++ {
		spawn("hot", w, func(rng *common.Rng) { set(key(rng.Intn(2))); atomic.AddInt64(&writes, 1) })
	}
	// blob records (both phases): same-size bodies rewritten over and over, read in-process and
	// over the wire (the answer is serialized after the handler has returned)
	// they live in a swamp of their own: the Cap predicates and filters of the other flows decode
	// every body they walk, and bytes that reach a decoder through the unsynchronised Content
	// pointer (known setter/getter finding) would be paired with their initialisation here
	const blobSwamp = "c10/r/blobs"
	bkey := func(i int) string { return fmt.Sprintf("b%02d", i) }
	blobSet := func(k string) {
		i := atomic.AddInt64(&version, 1)
		by := strconv.FormatInt(i, 10)
		r, err := gw.Set(ctx, &hydrapb.SetRequest{Swamps: []*hydrapb.SwampRequest{{IslandID: 1, SwampName: blobSwamp,
			CreateIfNotExist: true, Overwrite: true, KeyValues: []*hydrapb.KeyValuePair{{Key: k, BytesVal: blobBody(i), UpdatedBy: &by}}}}})
		if err != nil {
			say("ERR BlobSet %v", err)
		} else if r == nil {
			say("NILREPLY BlobSet")
		}
	}
	for i := 0; i < 3; i++ {
		blobSet(bkey(i))
	}
	for w := 0; w < 2; w++ {
		spawn("blobset", w, func(rng *common.Rng) { blobSet(bkey(rng.Intn(3))); atomic.AddInt64(&writes, 1) })
	}
	var bsampled int64
	for w := 0; w < 2; w++ {
		w := w
		spawn("blobget", w, func(rng *common.Rng) {
			req := &hydrapb.GetRequest{Swamps: []*hydrapb.GetSwamp{{IslandID: 1, SwampName: blobSwamp, Keys: []string{bkey(rng.Intn(3))}}}}
			var r *hydrapb.GetResponse
			var err error
			if w == 0 {
				r, err = gw.Get(ctx, req)
			} else {
				r, err = sc.Get(ctx, req)
			}
			if err != nil {
				say("ERR BlobGet %v", err)
				return
			}
			if r == nil {
				say("NILREPLY BlobGet")
				return
			}
			for _, sw := range r.Swamps {
				for _, t := range sw.Treasures {
					if t == nil || !t.IsExist || t.BytesVal == nil {
						continue
					}
					if w == 0 {
						runtime.Gosched() // hold the slice for a moment, like an answer waiting to be serialized
					}
					n, ok := blobCheck(t.BytesVal)
					atomic.AddInt64(&reads, 1)
					if !ok {
						say("BTORN key=%s n=%d len=%d", t.Key, n, len(t.BytesVal))
					} else if atomic.AddInt64(&bsampled, 1) <= 100 {
						say("BREAD key=%s n=%d len=%d", t.Key, n, len(t.BytesVal))
					}
				}
			}
		})
	}
	// (no body-filter stream here: the filter code decodes bytes that reach it through the
	// unsynchronised Content pointer - known setter/getter finding - and the race detector then
	// also pairs the decode with the initialisation of those bytes by whoever built them)
	mkey := func(i int) string { return fmt.Sprintf("m%03d", i) }
	strVal := func(v string) []byte { return append([]byte{byte(0xa0 + len(v))}, v...) }
	capFilter := func(state string) *hydrapb.FilterGroup {
		p := "s"
		return &hydrapb.FilterGroup{Logic: hydrapb.FilterLogic_AND, Filters: []*hydrapb.TreasureFilter{{
			BytesFieldPath: &p, Operator: hydrapb.Relational_EQUAL, CompareValue: &hydrapb.TreasureFilter_StringVal{StringVal: state}}}}
	}
	// selection filter of the Cap-bearing shift: CONTAINS is not bucket-eligible, so the request does
	// not go through GetOrBuildBucket -> beaconKey.CloneUnorderedTreasures, which holds the key
	// beacon's write lock while taking every record guard and deadlocks against any SaveFunction
	// (second inversion of the known finding deadlock_index_lock_vs_record_guard)
	sPath := "s"
	doneFilter := &hydrapb.FilterGroup{Logic: hydrapb.FilterLogic_AND, Filters: []*hydrapb.TreasureFilter{{
		BytesFieldPath: &sPath, Operator: hydrapb.Relational_CONTAINS, CompareValue: &hydrapb.TreasureFilter_StringVal{StringVal: "don"}}}}
	if *phase == "B" {
		for w := 0; w < 2; w++ {
			spawn("set", w, func(rng *common.Rng) { set(key(rng.Intn(*nkeys))); atomic.AddInt64(&writes, 1) })
		}
		spawn("insert", 0, func(rng *common.Rng) { set(fmt.Sprintf("n%06d", rng.Intn(1000000))); atomic.AddInt64(&writes, 1) })
		// Cap-bearing patch: claim records while at most 5 are claimed; sometimes finish or reopen one
		spawn("cappatch", 0, func(rng *common.Rng) {
			state := []string{"claimed", "claimed", "done", "open"}[rng.Intn(4)]
			var patches []*hydrapb.TreasurePatch
			for i := 0; i < 1+rng.Intn(3); i++ {
				patches = append(patches, &hydrapb.TreasurePatch{Key: mkey(rng.Intn(20)), Ops: []*hydrapb.PatchOp{
					{Op: hydrapb.PatchOp_SET, Path: "s", Value: strVal(state)}, {Op: hydrapb.PatchOp_INC, Path: "n", Value: mpInt64(1)}}})
			}
			r, err := gw.PatchTreasures(ctx, &hydrapb.PatchTreasuresRequest{IslandID: 1, SwampName: swampName, CreateIfNotExist: true,
				Patches: patches, Cap: &hydrapb.Cap{Filter: capFilter("claimed"), MaxMatching: 5}})
			if err != nil {
				say("ERR CapPatch %v", err)
			} else if r == nil {
				say("NILREPLY CapPatch")
			}
			atomic.AddInt64(&writes, 1)
		})
		// Cap-bearing shift: take finished records off the key index
		spawn("capshift", 0, func(rng *common.Rng) {
			r, err := gw.ShiftMatchingTreasures(ctx, &hydrapb.ShiftMatchingTreasuresRequest{IslandID: 1, SwampName: swampName,
				IndexType: hydrapb.IndexType_KEY, OrderType: hydrapb.OrderType_ASC, HowMany: 2, Filters: doneFilter,
				Cap: &hydrapb.Cap{Filter: capFilter("claimed"), MaxMatching: 100}})
			if err != nil {
				say("ERR CapShift %v", err)
			} else if r == nil {
				say("NILREPLY CapShift")
			}
			atomic.AddInt64(&writes, 1)
			time.Sleep(200 * time.Microsecond)
		})
		spawn("increment", 0, func(rng *common.Rng) {
			r, err := gw.IncrementInt64(ctx, &hydrapb.IncrementInt64Request{IslandID: 1, SwampName: swampName, Key: "ctr", IncrementBy: 1})
			if err != nil {
				say("ERR Increment %v", err)
			} else if r == nil {
				say("NILREPLY Increment")
			}
			atomic.AddInt64(&writes, 1)
		})
		spawn("exists", 0, func(rng *common.Rng) {
			r, err := gw.IsKeyExist(ctx, &hydrapb.IsKeyExistRequest{IslandID: 1, SwampName: swampName, Key: key(rng.Intn(*nkeys))})
			if err != nil {
				say("ERR IsKeyExist %v", err)
			} else if r == nil {
				say("NILREPLY IsKeyExist")
			}
			r2, err := gw.AreKeysExist(ctx, &hydrapb.AreKeysExistRequest{IslandID: 1, SwampName: swampName, Keys: []string{mkey(rng.Intn(20)), fmt.Sprintf("n%06d", rng.Intn(1000000))}})
			if err != nil {
				say("ERR AreKeysExist %v", err)
			} else if r2 == nil {
				say("NILREPLY AreKeysExist")
			}
		})
	} else {
		for w := 0; w < 3; w++ {
			spawn("set", w, func(rng *common.Rng) { set(key(rng.Intn(*nkeys))); atomic.AddInt64(&writes, 1) })
		}
		spawn("insert", 0, func(rng *common.Rng) { set(fmt.Sprintf("n%06d", rng.Intn(1000000))); atomic.AddInt64(&writes, 1) })
		spawn("delete", 0, func(rng *common.Rng) {
			k := key(rng.Intn(*nkeys))
			r, err := gw.Delete(ctx, &hydrapb.DeleteRequest{Swamps: []*hydrapb.DeleteRequest_SwampKeys{{IslandID: 1, SwampName: swampName, Keys: []string{k}}}})
			if err != nil {
				say("ERR Delete %v", err)
			} else if r == nil {
				say("NILREPLY Delete")
			}
			set(k)
			atomic.AddInt64(&writes, 2)
		})
		spawn("shift", 0, func(rng *common.Rng) {
			k := fmt.Sprintf("n%06d", rng.Intn(1000000))
			set(k)
			r, err := gw.ShiftByKeys(ctx, &hydrapb.ShiftByKeysRequest{IslandID: 1, SwampName: swampName, Keys: []string{k, key(rng.Intn(*nkeys))}})
			if err != nil {
				say("ERR ShiftByKeys %v", err)
			} else if r == nil {
				say("NILREPLY ShiftByKeys")
			} else {
				for _, t := range r.Treasures {
					check("ShiftByKeys", t)
				}
			}
			atomic.AddInt64(&writes, 2)
		})
		spawn("patch", 0, func(rng *common.Rng) {
			r, err := gw.PatchTreasures(ctx, &hydrapb.PatchTreasuresRequest{IslandID: 1, SwampName: swampName, CreateIfNotExist: true,
				Patches: []*hydrapb.TreasurePatch{{Key: "mp", Ops: []*hydrapb.PatchOp{{Op: hydrapb.PatchOp_INC, Path: "n", Value: mpInt64(1)}}}}})
			if err != nil {
				say("ERR Patch %v", err)
			} else if r == nil {
				say("NILREPLY Patch")
			}
			atomic.AddInt64(&writes, 1)
		})

	}

	// ---- readers
	spawn("getall", 0, func(rng *common.Rng) {
		r, err := gw.GetAll(ctx, &hydrapb.GetAllRequest{IslandID: 1, SwampName: swampName})
		if err != nil {
			say("ERR GetAll %v", err)
		} else if r == nil {
			say("NILREPLY GetAll")
		} else {
			for _, t := range r.Treasures {
				check("GetAll", t)
			}
		}
	})
	for w := 0; w < 2; w++ {
		spawn("get", w, func(rng *common.Rng) {
			r, err := gw.Get(ctx, &hydrapb.GetRequest{Swamps: []*hydrapb.GetSwamp{{IslandID: 1, SwampName: swampName, Keys: []string{key(rng.Intn(*nkeys)), "mp"}}}})
			if err != nil {
				say("ERR Get %v", err)
			} else if r == nil {
				say("NILREPLY Get")
			} else {
				for _, s := range r.Swamps {
					for _, t := range s.Treasures {
						check("Get", t)
					}
				}
			}
		})
	}
	spawn("getbykeys", 0, func(rng *common.Rng) {
		r, err := gw.GetByKeys(ctx, &hydrapb.GetByKeysRequest{IslandID: 1, SwampName: swampName, Keys: []string{key(rng.Intn(*nkeys)), key(rng.Intn(*nkeys))}})
		if err != nil {
			say("ERR GetByKeys %v", err)
		} else if r == nil {
			say("NILREPLY GetByKeys")
		} else {
			for _, t := range r.Treasures {
				check("GetByKeys", t)
			}
		}
	})
	idx := []hydrapb.IndexType_Type{hydrapb.IndexType_KEY, hydrapb.IndexType_CREATION_TIME, hydrapb.IndexType_UPDATE_TIME, hydrapb.IndexType_EXPIRATION_TIME, hydrapb.IndexType_VALUE_INT64}
	if *phase == "B" {
		idx = []hydrapb.IndexType_Type{hydrapb.IndexType_KEY, hydrapb.IndexType_KEY, hydrapb.IndexType_KEY}
	}
	for w := 0; w < 2; w++ {
		spawn("getbyindex", w, func(rng *common.Rng) {
			it := idx[rng.Intn(len(idx))]
			ot := hydrapb.OrderType_Type(rng.Intn(2))
			r, err := gw.GetByIndex(ctx, &hydrapb.GetByIndexRequest{IslandID: 1, SwampName: swampName, IndexType: it, OrderType: ot, From: int32(rng.Intn(5)), Limit: int32(5 + rng.Intn(20))})
			if err != nil {
				say("ERR GetByIndex %v", err)
			} else if r == nil {
				say("NILREPLY GetByIndex")
			} else {
				for _, t := range r.Treasures {
					check("GetByIndex", t)
				}
			}
		})
	}
	spawn("stream", 0, func(rng *common.Rng) {
		v := int64(0)
		st, err := sc.GetByIndexStream(ctx, &hydrapb.GetByIndexStreamRequest{IslandID: 1, SwampName: swampName,
			IndexType: idx[rng.Intn(3)], OrderType: hydrapb.OrderType_ASC, Limit: 30,
			Filters: &hydrapb.FilterGroup{Logic: hydrapb.FilterLogic_AND, Filters: []*hydrapb.TreasureFilter{{
				Operator: hydrapb.Relational_GREATER_THAN, CompareValue: &hydrapb.TreasureFilter_Int64Val{Int64Val: v}}}}})
		if err != nil {
			say("ERR GetByIndexStream %v", err)
			return
		}
		for {
			m, err := st.Recv()
			if err == io.EOF {
				break
			}
			if err != nil {
				say("ERR GetByIndexStream.Recv %v", err)
				break
			}
			if m != nil && m.Treasure != nil {
				check("GetByIndexStream", m.Treasure)
			}
		}
	})
	spawn("count", 0, func(rng *common.Rng) {
		r, err := gw.Count(ctx, &hydrapb.CountRequest{Swamps: []*hydrapb.CountRequest_SwampIdentifier{{IslandID: 1, SwampName: swampName}}})
		if err != nil {
			say("ERR Count %v", err)
		} else if r == nil {
			say("NILREPLY Count")
		}
	})

	time.Sleep(time.Duration(*durMs) * time.Millisecond)
	close(stop)
	dumpAndExit := func(what string) {
		say("%s", what)
		buf := make([]byte, 8<<20)
		n := runtime.Stack(buf, true)
		os.Stderr.WriteString("\n" + what + " goroutine dump:\n")
		os.Stderr.Write(buf[:n])
		os.Exit(3)
	}
	finished := make(chan struct{})
	go func() { wg.Wait(); close(finished) }()
	select {
	case <-finished:
	case <-time.After(25 * time.Second):
		dumpAndExit("HANG")
	}
	// end the subscription before the shutdown (server shutdown with live subscribers is not
	// part of this property's request mix)
	subCancel()
	select {
	case <-subDone:
	case <-time.After(5 * time.Second):
	}
	time.Sleep(300 * time.Millisecond)
	say("DONE reads=%d writes=%d events=%d", atomic.LoadInt64(&reads), atomic.LoadInt64(&writes), atomic.LoadInt64(&events))
	// no engine shutdown here: server shutdown is not part of this property's request mix
	// (hydra.MarkShuttingDown replaces the subscriber sync.Maps with plain stores, which the race
	// detector pairs with every earlier subscriber access)
}
