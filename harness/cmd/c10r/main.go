// c10r: the child process of the C10 check. It is built with -race by the driver
// ($VERIF_BIN/c10r-race) and run by harness/cmd/c10. It boots the real engine in-process and
// runs mixed readers (GetAll / Get / GetByKeys / GetByIndex on several indexes / filtered
// stream / Count) against writers (versioned Set, PatchTreasures, Delete + re-Set, ShiftByKeys,
// inserts of new keys) on ONE swamp. The race detector writes its reports to stderr; a Go
// runtime fatal error ("concurrent map iteration and map write") kills the process - both are
// parsed by the parent. This program prints one line per event to stdout:
//   TORN <reader> key=<k> value=<v> updatedBy=<s>     versioned-read check failed
//   READ <reader> key=<k> value=<v> updatedBy=<s>     a sample of the consistent reads
//   NILREPLY <request>                                the gateway swallowed a panic (nil, nil)
//   ERR <request> <error>                             unexpected gRPC error
//   DONE reads=<n> writes=<n>
package main

import (
	"context"
	"encoding/binary"
	"flag"
	"fmt"
	"io"
	"os"
	"strconv"
	"sync"
	"sync/atomic"
	"time"

	hydrapb "github.com/hydraide/hydraide/sdk/go/hydraidego/v3/hydraidepbgo"
	"google.golang.org/protobuf/types/known/timestamppb"
	"verif/harness/common"
	"verif/harness/rig"
)

const swampName = "c10/r/s"

var out sync.Mutex

func say(format string, a ...interface{}) {
	out.Lock()
	fmt.Printf(format+"\n", a...)
	out.Unlock()
}

func mpInt64(v int64) []byte {
	b := make([]byte, 9)
	b[0] = 0xd3
	binary.BigEndian.PutUint64(b[1:], uint64(v))
	return b
}

func main() {
	seed := flag.Uint64("seed", 1, "")
	durMs := flag.Int("ms", 2500, "duration of the load in milliseconds")
	mode := flag.String("mode", "mem", "mem | def | imm")
	nkeys := flag.Int("keys", 40, "")
	flag.Parse()
	rig.Quiet()
	root, _ := os.MkdirTemp("", "c10r-")
	defer os.RemoveAll(root)
	srv := rig.Start(root, true)
	switch *mode {
	case "mem":
		srv.Register("c10/r/*", true, 3600, 0, 8192)
	case "imm":
		srv.Register("c10/r/*", false, 3600, 0, 8192)
	default:
		srv.Register("c10/r/*", false, 3600, 1, 8192)
	}
	gw := srv.GW
	_, sc, closeSDK := srv.SDK()
	defer closeSDK()
	ctx := context.Background()

	// versioned write: value = i, UpdatedBy = "i" (and CreatedBy = "i" on creation)
	var version int64
	set := func(key string) {
		i := atomic.AddInt64(&version, 1)
		s := strconv.FormatInt(i, 10)
		now := timestamppb.Now()
		r, err := gw.Set(ctx, &hydrapb.SetRequest{Swamps: []*hydrapb.SwampRequest{{IslandID: 1, SwampName: swampName,
			CreateIfNotExist: true, Overwrite: true, KeyValues: []*hydrapb.KeyValuePair{{Key: key, Int64Val: &i, UpdatedBy: &s, CreatedBy: &s,
				UpdatedAt: now, CreatedAt: now, ExpiredAt: timestamppb.New(time.Now().Add(time.Hour))}}}}})
		if err != nil {
			say("ERR Set %v", err)
		} else if r == nil {
			say("NILREPLY Set")
		}
	}
	key := func(i int) string { return fmt.Sprintf("k%03d", i) }
	for i := 0; i < *nkeys; i++ {
		set(key(i))
	}
	// a msgpack record for the patch writer
	gw.PatchTreasures(ctx, &hydrapb.PatchTreasuresRequest{IslandID: 1, SwampName: swampName, CreateIfNotExist: true,
		Patches: []*hydrapb.TreasurePatch{{Key: "mp", Ops: []*hydrapb.PatchOp{{Op: hydrapb.PatchOp_INC, Path: "n", Value: mpInt64(1)}}}}})

	var reads, writes, sampled int64
	stop := make(chan struct{})
	var wg sync.WaitGroup
	spawn := func(name string, salt int, f func(rng *common.Rng)) {
		wg.Add(1)
		go func() {
			defer wg.Done()
			rng := common.NewRng(*seed, fmt.Sprintf("%s%d", name, salt))
			for {
				select {
				case <-stop:
					return
				default:
				}
				f(rng)
			}
		}()
	}
	check := func(who string, t *hydrapb.Treasure) {
		if t == nil || !t.IsExist || t.Int64Val == nil {
			return
		}
		atomic.AddInt64(&reads, 1)
		ub := ""
		if t.UpdatedBy != nil {
			ub = *t.UpdatedBy
		}
		if ub != strconv.FormatInt(*t.Int64Val, 10) {
			say("TORN %s key=%s value=%d updatedBy=%q", who, t.Key, *t.Int64Val, ub)
		} else if atomic.AddInt64(&sampled, 1) <= 150 {
			say("READ %s key=%s value=%d updatedBy=%q", who, t.Key, *t.Int64Val, ub)
		}
	}

	// ---- writers
	for w := 0; w < 3; w++ {
		spawn("set", w, func(rng *common.Rng) { set(key(rng.Intn(*nkeys))); atomic.AddInt64(&writes, 1) })
	}
	spawn("insert", 0, func(rng *common.Rng) { set(fmt.Sprintf("n%06d", rng.Intn(1000000))); atomic.AddInt64(&writes, 1) })
	spawn("delete", 0, func(rng *common.Rng) {
		k := key(rng.Intn(*nkeys))
		r, err := gw.Delete(ctx, &hydrapb.DeleteRequest{Swamps: []*hydrapb.DeleteRequest_SwampKeys{{IslandID: 1, SwampName: swampName, Keys: []string{k}}}})
		if err != nil {
			say("ERR Delete %v", err)
		} else if r == nil {
			say("NILREPLY Delete")
		}
		set(k)
		atomic.AddInt64(&writes, 2)
	})
	spawn("shift", 0, func(rng *common.Rng) {
		k := fmt.Sprintf("n%06d", rng.Intn(1000000))
		set(k)
		r, err := gw.ShiftByKeys(ctx, &hydrapb.ShiftByKeysRequest{IslandID: 1, SwampName: swampName, Keys: []string{k, key(rng.Intn(*nkeys))}})
		if err != nil {
			say("ERR ShiftByKeys %v", err)
		} else if r == nil {
			say("NILREPLY ShiftByKeys")
		} else {
			for _, t := range r.Treasures {
				check("ShiftByKeys", t)
			}
		}
		atomic.AddInt64(&writes, 2)
	})
	spawn("patch", 0, func(rng *common.Rng) {
		r, err := gw.PatchTreasures(ctx, &hydrapb.PatchTreasuresRequest{IslandID: 1, SwampName: swampName, CreateIfNotExist: true,
			Patches: []*hydrapb.TreasurePatch{{Key: "mp", Ops: []*hydrapb.PatchOp{{Op: hydrapb.PatchOp_INC, Path: "n", Value: mpInt64(1)}}}}})
		if err != nil {
			say("ERR Patch %v", err)
		} else if r == nil {
			say("NILREPLY Patch")
		}
		atomic.AddInt64(&writes, 1)
	})

	// ---- readers
	spawn("getall", 0, func(rng *common.Rng) {
		r, err := gw.GetAll(ctx, &hydrapb.GetAllRequest{IslandID: 1, SwampName: swampName})
		if err != nil {
			say("ERR GetAll %v", err)
		} else if r == nil {
			say("NILREPLY GetAll")
		} else {
			for _, t := range r.Treasures {
				check("GetAll", t)
			}
		}
	})
	for w := 0; w < 2; w++ {
		spawn("get", w, func(rng *common.Rng) {
			r, err := gw.Get(ctx, &hydrapb.GetRequest{Swamps: []*hydrapb.GetSwamp{{IslandID: 1, SwampName: swampName, Keys: []string{key(rng.Intn(*nkeys)), "mp"}}}})
			if err != nil {
				say("ERR Get %v", err)
			} else if r == nil {
				say("NILREPLY Get")
			} else {
				for _, s := range r.Swamps {
					for _, t := range s.Treasures {
						check("Get", t)
					}
				}
			}
		})
	}
	spawn("getbykeys", 0, func(rng *common.Rng) {
		r, err := gw.GetByKeys(ctx, &hydrapb.GetByKeysRequest{IslandID: 1, SwampName: swampName, Keys: []string{key(rng.Intn(*nkeys)), key(rng.Intn(*nkeys))}})
		if err != nil {
			say("ERR GetByKeys %v", err)
		} else if r == nil {
			say("NILREPLY GetByKeys")
		} else {
			for _, t := range r.Treasures {
				check("GetByKeys", t)
			}
		}
	})
	idx := []hydrapb.IndexType_Type{hydrapb.IndexType_KEY, hydrapb.IndexType_CREATION_TIME, hydrapb.IndexType_UPDATE_TIME, hydrapb.IndexType_EXPIRATION_TIME, hydrapb.IndexType_VALUE_INT64}
	for w := 0; w < 2; w++ {
		spawn("getbyindex", w, func(rng *common.Rng) {
			it := idx[rng.Intn(len(idx))]
			ot := hydrapb.OrderType_Type(rng.Intn(2))
			r, err := gw.GetByIndex(ctx, &hydrapb.GetByIndexRequest{IslandID: 1, SwampName: swampName, IndexType: it, OrderType: ot, From: int32(rng.Intn(5)), Limit: int32(5 + rng.Intn(20))})
			if err != nil {
				say("ERR GetByIndex %v", err)
			} else if r == nil {
				say("NILREPLY GetByIndex")
			} else {
				for _, t := range r.Treasures {
					check("GetByIndex", t)
				}
			}
		})
	}
	spawn("stream", 0, func(rng *common.Rng) {
		v := int64(0)
		st, err := sc.GetByIndexStream(ctx, &hydrapb.GetByIndexStreamRequest{IslandID: 1, SwampName: swampName,
			IndexType: idx[rng.Intn(3)], OrderType: hydrapb.OrderType_ASC, Limit: 30,
			Filters: &hydrapb.FilterGroup{Logic: hydrapb.FilterLogic_AND, Filters: []*hydrapb.TreasureFilter{{
				Operator: hydrapb.Relational_GREATER_THAN, CompareValue: &hydrapb.TreasureFilter_Int64Val{Int64Val: v}}}}})
		if err != nil {
			say("ERR GetByIndexStream %v", err)
			return
		}
		for {
			m, err := st.Recv()
			if err == io.EOF {
				break
			}
			if err != nil {
				say("ERR GetByIndexStream.Recv %v", err)
				break
			}
			if m != nil && m.Treasure != nil {
				check("GetByIndexStream", m.Treasure)
			}
		}
	})
	spawn("count", 0, func(rng *common.Rng) {
		r, err := gw.Count(ctx, &hydrapb.CountRequest{Swamps: []*hydrapb.CountRequest_SwampIdentifier{{IslandID: 1, SwampName: swampName}}})
		if err != nil {
			say("ERR Count %v", err)
		} else if r == nil {
			say("NILREPLY Count")
		}
	})

	time.Sleep(time.Duration(*durMs) * time.Millisecond)
	close(stop)
	wg.Wait()
	say("DONE reads=%d writes=%d", atomic.LoadInt64(&reads), atomic.LoadInt64(&writes))
	srv.Stop()
}
