// c11probe: scratch reproduction of the C11/C12 witnesses (not a property check).
package main

import (
	"fmt"
	"time"

	hydrapb "github.com/hydraide/hydraide/sdk/go/hydraidego/v3/hydraidepbgo"
	lib "verif/harness/lib/c11"
)

func main() {
	e := lib.NewEnv("c11probe")
	defer e.Close()
	past := func(i int) time.Time { return time.Now().Add(-time.Hour + time.Duration(i)*time.Second) }

	// W1: empty candidate set
	{
		sw := e.FreshSwamp(false)
		e.SeedAnchor(sw)
		for i := 0; i < 5; i++ {
			e.Seed(sw, fmt.Sprintf("k%d", i), "pending", int64(i), past(i))
		}
		got, _, err := e.ShiftMatching(sw, lib.ShiftReq{Index: hydrapb.IndexType_CREATION_TIME, HowMany: 10, Filters: lib.And(lib.FEq("status", "done"))})
		fmt.Println("W1 shift status==done over 5 pending:", lib.Keys(got), err, "left", len(e.Dump(sw)))
	}
	// W4: cap undercount when claimed records have no expiry
	{
		sw := e.FreshSwamp(false)
		e.SeedAnchor(sw)
		for i := 0; i < 4; i++ {
			e.Seed(sw, fmt.Sprintf("k%d", i), "pending", int64(i), past(i))
		}
		zero := time.Time{}
		for r := 0; r < 3; r++ {
			p, cr, err := e.PatchExpired(sw, lib.PEReq{HowMany: 1, NewStatus: "claimed", NewExp: &zero, Cap: lib.CapOf("claimed", 1)})
			fmt.Println("W4 round", r, p, cr, err, "claimed now:", lib.CountStatus(e.Dump(sw), "claimed"))
		}
	}
	// W5: sequential sanity: PatchExpired with lease
	{
		sw := e.FreshSwamp(false)
		e.SeedAnchor(sw)
		for i := 0; i < 4; i++ {
			e.Seed(sw, fmt.Sprintf("k%d", i), "pending", int64(i), past(i))
		}
		fut := time.Now().Add(time.Hour)
		for r := 0; r < 3; r++ {
			p, cr, err := e.PatchExpired(sw, lib.PEReq{HowMany: 1, NewStatus: "claimed", NewExp: &fut, Cap: lib.CapOf("claimed", 2)})
			fmt.Println("W5 round", r, p, cr, err, "claimed now:", lib.CountStatus(e.Dump(sw), "claimed"))
		}
		fmt.Println(e.Dump(sw))
	}
	// W2: two PatchTreasures batches parked after count
	{
		sw := e.FreshSwamp(false)
		e.SeedAnchor(sw)
		e.Seed(sw, "a", "pending", 0, time.Time{})
		e.Seed(sw, "b", "pending", 0, time.Time{})
		c := lib.NewCtl("gateway.capPreCount.counted")
		d0 := c.Go(0, func() {
			r, err := e.PatchStatus(sw, []lib.PatchItem{{"a", "claimed"}}, lib.CapOf("claimed", 1), false, nil)
			fmt.Println("  t0:", r, err)
		})
		d1 := c.Go(1, func() {
			r, err := e.PatchStatus(sw, []lib.PatchItem{{"b", "claimed"}}, lib.CapOf("claimed", 1), false, nil)
			fmt.Println("  t1:", r, err)
		})
		s0, ok0 := c.WaitParked(0, d0, 500*time.Millisecond)
		s1, ok1 := c.WaitParked(1, d1, 500*time.Millisecond)
		fmt.Println("W2 parked:", s0, ok0, s1, ok1)
		c.Release(0)
		c.Release(1)
		<-d0
		<-d1
		c.Close()
		fmt.Println("W2 claimed:", lib.CountStatus(e.Dump(sw), "claimed"), "(max 1)")
	}
}
