// c02: correspondence check for "a crash at any point leaves a recoverable .hyd file"
// (V2 chronicler: chronicler_v2.go, v2/writer.go, v2/reader.go) against
// Storage/C02Fs.v + C02Writer.v + C02Crash.v.
//
// Every script (a workload of single-treasure Write calls, Syncs, Closes on one chronicler)
// runs in a child process under strace; the file operations the real writer issued on the
// .hyd file are the observed op log. The calls are lifted to the model's API history (which
// call flushed, payload sizes: observed), and
//   - one CLog case per script compares the model's op log and call results with the observed;
//   - crash images are materialised from the observed bytes: after n operations either the
//     durable image (state at the last fsync) or the first k bytes of the volatile image, with
//     old/new/torn variants of the in-place rewritten file header. Each image is loaded by the
//     real chronicler, a small after-workload is written with a new chronicler instance, and
//     the file is loaded again: one CImg case per image.
package main

import (
	"fmt"
	"os"
	"sort"

	"verif/harness/common"
	lib "verif/harness/lib/c02"
)

type scriptRun struct {
	s      lib.Script
	res    []lib.StepResult
	tr     *lib.Trace
	err    error
	hist   []lib.Api
	oks    []bool
	mops   []lib.MOp
	obsIdx []int
	paired bool
}

type imgJob struct {
	script  int
	nops    int
	k       int // -1: durable image
	img     []byte
	present bool
	after   []lib.Step
	kind    string
	variant string
	nt      bool
	out     lib.ImgResult
}

func main() {
	if len(os.Args) >= 3 && os.Args[1] == "--child" {
		lib.ChildMain(os.Args[2])
		return
	}
	a := common.ParseArgs()
	lib.SilenceLogs()
	run := common.NewRun(a, "C02", "HV.Storage.C02Crash")
	run.Meta.Rule = "a case is either the complete file-operation log of one workload of single- and multi-treasure chronicler.Write calls, Syncs and Closes (CLog) or one crash image of it (CImg): after n file operations, the durable image or the first k bytes of the volatile image (with current/durable/torn file header), loaded by the real chronicler, extended by a small workload with a new chronicler, and loaded again; non-trivial = the image ends strictly inside a block (block header or payload), or it is the durable image and holds at least one block; distinct = distinct (history, crash point, choice, observations)"
	rng := common.NewRng(a.Seed, "C02")
	self, err := os.Executable()
	if err != nil {
		fmt.Fprintln(os.Stderr, err)
		os.Exit(2)
	}
	root, err := lib.TempRoot("verif-c02-")
	if err != nil {
		fmt.Fprintln(os.Stderr, err)
		os.Exit(2)
	}
	defer os.RemoveAll(root)

	nScripts, minW, maxW, capPer, bigEvery, capBig := 40, 5, 40, 80, 0, 0
	if a.Tier == "thorough" {
		nScripts, minW, maxW, capPer, bigEvery, capBig = 400, 5, 80, 80, 40, 1200
	}
	runs := make([]scriptRun, nScripts)
	rngs := make([]*common.Rng, nScripts)
	for i := range runs {
		runs[i].s = lib.GenScript(rng, i, minW, maxW, 35)
		rngs[i] = rng.Fork(fmt.Sprintf("img%d", i))
	}
	common.Parallel(nScripts, 16, func(i int) {
		r := &runs[i]
		dir, err := os.MkdirTemp(root, "s")
		if err != nil {
			r.err = err
			return
		}
		r.res, r.tr, r.err = lib.RunChild(self, dir, &r.s)
		if r.err != nil {
			return
		}
		r.hist, r.oks, _ = lib.Lift(&r.s, r.res, r.tr)
		if mops, ok := lib.ModelOps(r.s.NLen(), r.hist); ok {
			r.mops = mops
			r.obsIdx, r.paired = lib.PairOps(mops, r.tr.Ops)
		}
	})

	var jobs []*imgJob
	logIdx := make([]int, nScripts)
	for i := range runs {
		r := &runs[i]
		if r.err != nil {
			fmt.Fprintf(os.Stderr, "c02: script %d: %v\n", i, r.err)
			os.Exit(2)
		}
		run.Meta.Traces++
		term := fmt.Sprintf("CLog %d %s %s %s", r.s.NLen(), lib.HistCoq(r.hist), lib.OpsCoq(r.tr.Ops), lib.BoolsCoq(r.oks))
		logIdx[i] = run.Add(term, map[string]interface{}{"kind": "oplog", "script": r.s, "history": lib.HistHuman(r.hist),
			"observed_ops": lib.OpsHuman(r.tr.Ops), "oks": r.oks, "parser_notes": r.tr.Bad}, false)
		run.Hist("oplog")
		if !r.paired || len(r.tr.Bad) > 0 {
			run.Hist("oplog_not_paired_no_images")
			if os.Getenv("C02_DEBUG") != "" {
				fmt.Fprintf(os.Stderr, "script %d: not paired: bad=%v\n model=%v\n obs=%v\n", i, r.tr.Bad, r.mops, lib.OpsHuman(r.tr.Ops))
			}
			continue
		}
		cap := capPer
		if bigEvery > 0 && i%bigEvery == 0 {
			cap = capBig
		}
		jobs = append(jobs, candidates(i, r, rngs[i], cap, cap == capBig && capBig > 0)...)
	}
	common.Parallel(len(jobs), 16, func(i int) {
		j := jobs[i]
		j.out = lib.EvalImage(root, &runs[j.script].s, j.img, j.present, j.after)
	})
	for _, j := range jobs {
		r := &runs[j.script]
		choice := "None"
		if j.k >= 0 {
			choice = fmt.Sprintf("(Some %d)", j.k)
		}
		term := fmt.Sprintf("CImg %d %s %d%%nat %s %s %s %s", r.s.NLen(), lib.HistCoq(r.hist), j.nops, choice,
			lib.StateCoq(j.out.Loaded), lib.HistCoq(j.out.After), lib.StateCoq(j.out.Reloaded))
		run.Add(term, map[string]interface{}{"kind": "image", "script": r.s.Compact(), "oplog_case": logIdx[j.script],
			"crash_after_model_ops": j.nops, "crash_after_observed_ops": r.obsIdx[j.nops], "choice": j.k, "image_kind": j.kind,
			"header_variant": j.variant, "image_len": len(j.img), "file_present": j.present,
			"loaded": j.out.Loaded, "after": lib.HistHuman(j.out.After), "reloaded": j.out.Reloaded}, j.nt)
		run.Hist(j.kind)
		if j.variant != "" {
			run.Hist("hdr_variant_" + j.variant)
		}
	}
	run.Meta.Extra["scripts"] = nScripts
	run.Meta.Extra["images"] = len(jobs)
	run.Finish("check_all")
}

type cand struct {
	n, k int
}

// candidates enumerates crash points/choices of one script and builds the image bytes.
func candidates(si int, r *scriptRun, rng *common.Rng, cap int, everyByte bool) []*imgJob {
	nlen := r.s.NLen()
	pre := lib.FH + nlen
	// file images after every observed op count
	states := make([]lib.FileImages, len(r.tr.Ops)+1)
	var cur lib.FileImages
	states[0] = cur
	for i, o := range r.tr.Ops {
		cur.Apply(o)
		states[i+1] = cur
	}
	at := func(n int) *lib.FileImages { return &states[r.obsIdx[n]] }
	loOf := func(f *lib.FileImages) int {
		if !f.DurOK {
			return 0
		}
		return lib.GoodEnd(f.Dur, nlen)
	}
	seen := map[cand]bool{}
	var cs []cand
	add := func(n, k int) {
		c := cand{n, k}
		if !seen[c] {
			seen[c] = true
			cs = append(cs, c)
		}
	}
	prevLen := 0
	for n := 0; n <= len(r.mops); n++ {
		f := at(n)
		add(n, -1)
		if !f.VolOK {
			prevLen = 0
			continue
		}
		lo, hi := loOf(f), len(f.Vol)
		from := lo
		grown := hi > prevLen
		if prevLen > from && prevLen <= hi {
			from = prevLen
		}
		if !grown {
			if !rng.Chance(20) {
				prevLen = hi
				continue
			}
			from = lo
		}
		if everyByte {
			for k := from; k <= hi; k++ {
				add(n, k)
			}
		}
		bounds := []int{from, hi}
		for _, e := range f.SegEnds {
			if e >= from && e <= hi {
				bounds = append(bounds, e)
			}
		}
		for _, b := range bounds {
			for k := b - 24; k <= b+24; k++ {
				if k >= lo && k <= hi {
					add(n, k)
				}
			}
		}
		for x := 0; x < 6 && hi > from; x++ {
			add(n, from+rng.Intn(hi-from+1))
		}
		prevLen = hi
	}
	if len(cs) > cap {
		for i := len(cs) - 1; i > 0; i-- {
			j := rng.Intn(i + 1)
			cs[i], cs[j] = cs[j], cs[i]
		}
		cs = cs[:cap]
	}
	sort.Slice(cs, func(i, j int) bool {
		if cs[i].n != cs[j].n {
			return cs[i].n < cs[j].n
		}
		return cs[i].k < cs[j].k
	})
	var jobs []*imgJob
	for _, c := range cs {
		f := at(c.n)
		j := &imgJob{script: si, nops: c.n, k: c.k, after: lib.GenAfter(rng)}
		var other []byte // the file header the image does not carry by itself
		if c.k < 0 {
			j.present = f.DurOK
			j.img = append([]byte{}, f.Dur...)
			if !f.DurOK {
				j.kind = "no_file"
			} else {
				j.kind = "durable_image"
				_, nb := lib.BlockBoundaries(f.Dur, nlen)
				j.nt = nb > 0
			}
			if f.VolOK && len(f.Vol) >= lib.FH {
				other = f.Vol[:lib.FH]
			}
			j.variant = "dur"
		} else {
			j.present = true
			j.img = append([]byte{}, f.Vol[:c.k]...)
			j.kind, j.nt = classify(f, nlen, pre, c.k)
			if f.DurOK && len(f.Dur) >= lib.FH {
				other = f.Dur[:lib.FH]
			}
			j.variant = "vol"
		}
		if !j.present || len(j.img) < lib.FH {
			j.variant = ""
		} else if other != nil {
			switch rng.Intn(4) {
			case 0:
				copy(j.img[:lib.FH], other)
				if j.variant == "vol" {
					j.variant = "dur"
				} else {
					j.variant = "vol"
				}
			case 1:
				t := 1 + rng.Intn(lib.FH-1)
				copy(j.img[t:lib.FH], other[t:])
				j.variant = "torn"
			}
		}
		jobs = append(jobs, j)
	}
	return jobs
}

// classify says where the first k bytes of the volatile image end.
func classify(f *lib.FileImages, nlen, pre, k int) (string, bool) {
	switch {
	case k < lib.FH:
		return "cut_in_file_header", false
	case k < pre:
		return "cut_in_name", false
	case k == pre:
		return "cut_at_boundary", false
	}
	npre := 1
	if nlen > 0 {
		npre = 2
	}
	start := 0
	for i, e := range f.SegEnds {
		if k <= e {
			isPayload := i >= npre && (i-npre)%2 == 1
			if k == e && isPayload {
				return "cut_at_boundary", false
			}
			if isPayload && k > start {
				return "cut_in_payload", true
			}
			return "cut_in_block_header", true // inside a block header, or a complete one without payload
		}
		start = e
	}
	return "cut_at_boundary", false
}
