// c12: correspondence check for the Cap quota (gateway_patch.go capPreCount + PatchFields four-cell
// rule, PatchExpired, ShiftMatching) against Swamp/Cap.v.
//
// Every case runs cap-bearing RPCs (one cap: status == "claimed", max m) and cap-less writers
// that cannot move a record into the filter against a fresh swamp of the real in-process
// engine, and records per-RPC results, the matching count at every quiescent point and the
// final records. Four kinds of cases:
//
//	table      the four-cell rule, exhaustively over (pre, post, budget in 0..2, existing/created)
//	seq        random sequential histories (every program runs to completion in turn)
//	forced     schedules forced through the hook points (capPreCount.counted,
//	           patchExpired.selected, patchExpired.beforeReindex): all interleavings of the
//	           macro steps of 2 threads from a menu + random ones of 3 threads; a release that
//	           does not reach its park point because the goroutine blocks on capMu is recorded
//	           and must be a disabled step of the model
//	stress     2-6 free-running cap-bearing RPCs of all three kinds + writers; only the
//	           property oracle (count <= max at each quiescent point) applies
//
// Swamp/Cap.v replays the forced schedule (model = impl?) after evaluating the oracle on the
// implementation's observations alone.
package main

import (
	"fmt"
	"os"
	"runtime/pprof"
	"sort"
	"strings"
	"sync"
	"time"

	hydrapb "github.com/hydraide/hydraide/sdk/go/hydraidego/v3/hydraidepbgo"
	"verif/harness/common"
	lib "verif/harness/lib/c11"
)

type rec struct {
	K int  `json:"k"`
	M bool `json:"m"`
	X bool `json:"x"`
	D bool `json:"d"`
}
type item struct {
	K     int  `json:"k"`
	Post  bool `json:"post"`
	Touch bool `json:"touch,omitempty"` // SET another field: status stays as stored / as seeded
	Meta  bool `json:"meta,omitempty"`  // per-key Meta
	Cond  int  `json:"cond,omitempty"`  // per-key Condition: 1 holds, 2 does not hold
}
type prog struct {
	Kind    string `json:"kind"` // PT PE SH WDel WPut WExp
	Create  bool   `json:"create,omitempty"`
	Seed    int    `json:"seed,omitempty"`     // InitialMsgpackOnCreate: 0 none, 1 {status: pending}, 2 {status: claimed}
	ReqMeta bool   `json:"req_meta,omitempty"` // request-level Meta
	Neg     bool   `json:"neg,omitempty"`      // the case uses the negative Cap.Filter (lock IS_EMPTY)
	Items   []item `json:"items,omitempty"`
	Hm      int    `json:"hm,omitempty"`
	Post    bool   `json:"post,omitempty"`
	Nx      bool   `json:"nx,omitempty"`
	Nd      bool   `json:"nd,omitempty"`
	K       int    `json:"k,omitempty"`
}
type mstep struct {
	Kind string `json:"kind"` // Count Select Patched Finish
	T    int    `json:"t"`
}
type kc struct{ K, C int }

type obs struct {
	Max     int      `json:"max"`
	Recs    []rec    `json:"recs"`
	Progs   []prog   `json:"progs"`
	Replay  bool     `json:"replay"`
	Sched   []mstep  `json:"sched"`
	Blocked *mstep   `json:"blocked"`
	Counts  []int    `json:"counts"`
	Res     [][]kc   `json:"res"`
	Final   []rec    `json:"final"`
	Kind    string   `json:"case_kind"`
	Notes   []string `json:"notes,omitempty"`
}

func key(k int) string { return fmt.Sprintf("k%03d", k) }
func keyNum(s string) int {
	var n int
	fmt.Sscanf(s, "k%d", &n)
	return n
}
func status(m bool) string {
	if m {
		return "claimed"
	}
	return "pending"
}

var pastBase = time.Now().Add(-2 * time.Hour)
var futBase = time.Now().Add(48 * time.Hour)

func expOf(k int, x, d bool) time.Time {
	if !x && !d {
		return time.Time{}
	}
	if d {
		return pastBase.Add(time.Duration(k) * time.Second)
	}
	return futBase.Add(time.Duration(k) * time.Second)
}

// Two encodings of "matches Cap.Filter": positive (status == "claimed") and negative (the body
// has no "lock" field, Cap.Filter = lock IS_EMPTY; a record is moved INTO the filter by a DELETE
// op and out of it by a SET). negSwamps holds the swamps of cases that use the negative one.
var negSwamps sync.Map

func isNeg(sw string) bool { _, ok := negSwamps.Load(sw); return ok }
func markNeg(sw string, ps []prog) {
	if len(ps) > 0 && ps[0].Neg {
		negSwamps.Store(sw, true)
	}
}
func negate(ps []prog) []prog {
	out := make([]prog, len(ps))
	for i, p := range ps {
		p.Neg = true
		out[i] = p
	}
	return out
}
func lockOps(m bool) []*hydrapb.PatchOp {
	if m {
		return lib.OpDelLock()
	}
	return lib.OpSetLock()
}
func putRec(e *lib.Env, sw string, k int, m bool, exp time.Time) {
	if !isNeg(sw) {
		e.Seed(sw, key(k), status(m), 0, exp)
		return
	}
	e.Seed(sw, key(k), "pending", 0, exp)
	if !m {
		_, _ = e.PatchStatusSeed(sw, []lib.PatchItem{{Key: key(k), RawOps: lib.OpSetLock()}}, nil, false, nil, nil)
	}
}

func seed(e *lib.Env, sw string, rs []rec) {
	e.SeedAnchor(sw)
	if isNeg(sw) {
		_, _ = e.PatchStatusSeed(sw, []lib.PatchItem{{Key: lib.Anchor, RawOps: lib.OpSetLock()}}, nil, false, nil, nil)
	}
	for _, r := range rs {
		putRec(e, sw, r.K, r.M, expOf(r.K, r.X, r.D))
	}
}

// runProg executes one program against the swamp and returns its (key, code) results.
func runProg(e *lib.Env, sw string, max int, p prog) []kc {
	cap := lib.CapOf("claimed", int32(max))
	neg := isNeg(sw)
	if neg {
		cap = lib.CapUnlocked(int32(max))
	}
	switch p.Kind {
	case "PT":
		items := make([]lib.PatchItem, len(p.Items))
		for i, it := range p.Items {
			items[i] = lib.PatchItem{Key: key(it.K), Status: status(it.Post), Touch: it.Touch, Meta: it.Meta, Cond: it.Cond}
			if neg {
				items[i].RawOps = lockOps(it.Post)
			}
		}
		var seedBody []byte
		if p.Seed > 0 {
			seedBody = lib.Enc(map[string]interface{}{"status": status(p.Seed == 2)})
			if neg && p.Seed == 1 {
				seedBody = lib.Enc(map[string]interface{}{"lock": "x"})
			}
		}
		var reqMeta *hydrapb.PatchMeta
		if p.ReqMeta {
			reqMeta = &hydrapb.PatchMeta{SetUpdatedAt: true}
		}
		r, err := e.PatchStatusSeed(sw, items, cap, p.Create, reqMeta, seedBody)
		if err != nil {
			return []kc{{-1, -1}}
		}
		out := []kc{}
		for _, x := range r.GetResults() {
			out = append(out, kc{keyNum(x.GetKey()), int(x.GetStatus())})
		}
		return out
	case "PE":
		ne := expOf(0, p.Nx, p.Nd)
		var nep *time.Time
		if p.Nx || p.Nd {
			// per-key expiry cannot be expressed in one RPC; "due again" uses a past time that keeps
			// due records behind every seeded one (model order: key order among due records is only
			// used for selection, and a re-due record keeps d = true)
			nep = &ne
		} else {
			z := time.Time{}
			nep = &z
		}
		pq := lib.PEReq{HowMany: int32(p.Hm), NewStatus: status(p.Post), NewExp: nep, Cap: cap}
		if neg {
			pq.RawOps = lockOps(p.Post)
		}
		r, _, err := e.PatchExpired(sw, pq)
		if err != nil {
			return []kc{{-1, -1}}
		}
		out := []kc{}
		for _, x := range r {
			out = append(out, kc{keyNum(x.Key), 0})
		}
		return out
	case "SH":
		now := time.Now()
		r, _, err := e.ShiftMatching(sw, lib.ShiftReq{Index: hydrapb.IndexType_EXPIRATION_TIME, HowMany: int32(p.Hm), To: &now, Cap: cap})
		if err != nil {
			return []kc{{-1, -1}}
		}
		out := []kc{}
		for _, x := range r {
			out = append(out, kc{keyNum(x.Key), 0})
		}
		return out
	case "WDel":
		_ = e.Delete(sw, key(p.K))
	case "WPut":
		putRec(e, sw, p.K, false, expOf(p.K, p.Nx, p.Nd))
	case "WExp":
		e.SetExpiry(sw, key(p.K), expOf(p.K, p.Nx, p.Nd))
	}
	return []kc{}
}

func dump(e *lib.Env, sw string) []rec {
	out := []rec{}
	for _, r := range e.Dump(sw) {
		m := r.Status == "claimed"
		if isNeg(sw) {
			m = !r.Lock
		}
		out = append(out, rec{K: keyNum(r.Key), M: m})
	}
	sort.Slice(out, func(i, j int) bool { return out[i].K < out[j].K })
	return out
}
func countM(rs []rec) int {
	n := 0
	for _, r := range rs {
		if r.M {
			n++
		}
	}
	return n
}

// ---- Coq printing -------------------------------------------------------------------------
func cRec(r rec) string {
	return fmt.Sprintf("{| rk := %s; rm := %s; rx := %s; rd := %s |}", common.N(uint64(r.K)), common.Bool(r.M), common.Bool(r.X || r.D), common.Bool(r.D))
}
func cProg(p prog) string {
	switch p.Kind {
	case "PT":
		its := []string{}
		for _, it := range p.Items {
			pf, pt, pc := it.Post, it.Post, it.Post
			if it.Touch {
				pf, pt, pc = false, true, p.Seed == 2
				if p.Neg {
					pc = p.Seed != 1 // the default seed (empty map) has no lock either
				}
			}
			its = append(its, fmt.Sprintf("{| ik := %s; ipf := %s; ipt := %s; ipc := %s; iskip := %s |}", common.N(uint64(it.K)), common.Bool(pf), common.Bool(pt), common.Bool(pc), common.Bool(it.Cond == 2)))
		}
		return common.App("PT", common.Bool(p.Create), common.List(its))
	case "PE":
		return common.App("PE", common.Nat(p.Hm), common.Bool(p.Post), common.Bool(p.Nx || p.Nd), common.Bool(p.Nd))
	case "SH":
		return common.App("SH", common.Nat(p.Hm))
	case "WDel":
		return "(WR (WDel " + common.N(uint64(p.K)) + "))"
	case "WPut":
		return "(WR (WPut " + common.N(uint64(p.K)) + " " + common.Bool(p.Nx || p.Nd) + " " + common.Bool(p.Nd) + "))"
	case "WExp":
		return "(WR (WExp " + common.N(uint64(p.K)) + " " + common.Bool(p.Nx || p.Nd) + " " + common.Bool(p.Nd) + "))"
	}
	panic("prog kind")
}
func cStep(m mstep) string { return common.App("M"+m.Kind, common.Nat(m.T)) }
func cCase(o obs) string {
	rs, ps, ms, cs, res, fin := []string{}, []string{}, []string{}, []string{}, []string{}, []string{}
	for _, r := range o.Recs {
		rs = append(rs, cRec(r))
	}
	for _, p := range o.Progs {
		ps = append(ps, cProg(p))
	}
	for _, m := range o.Sched {
		ms = append(ms, cStep(m))
	}
	for _, c := range o.Counts {
		cs = append(cs, common.Nat(c))
	}
	for _, r := range o.Res {
		x := []string{}
		for _, p := range r {
			x = append(x, common.Pair(common.N(uint64(p.K)), common.N(uint64(p.C))))
		}
		res = append(res, common.List(x))
	}
	for _, r := range o.Final {
		fin = append(fin, common.Pair(common.N(uint64(r.K)), common.Bool(r.M)))
	}
	bl := "None"
	if o.Blocked != nil {
		bl = common.Some(cStep(*o.Blocked))
	}
	return fmt.Sprintf("{| c_max := %s; c_recs := %s; c_progs := %s; c_replay := %s; c_sched := %s; c_blocked := %s; c_counts := %s; c_res := %s; c_final := %s |}",
		common.Nat(o.Max), common.List(rs), common.List(ps), common.Bool(o.Replay), common.List(ms), bl, common.List(cs), common.List(res), common.List(fin))
}

// ---- generators -----------------------------------------------------------------------------
func genRecs(r *common.Rng, n, max int) []rec {
	rs := []rec{}
	nm := 0
	for k := 1; k <= n; k++ {
		m := r.Chance(25) && nm < max
		if m {
			nm++
		}
		d := r.Chance(55)
		x := d || r.Chance(40)
		rs = append(rs, rec{K: k, M: m, X: x, D: d})
	}
	return rs
}
func genProg(r *common.Rng, nkeys int, capOnly bool) prog {
	c := r.Intn(100)
	switch {
	case c < 38:
		n := 1 + r.Intn(3)
		its := []item{}
		for i := 0; i < n; i++ {
			it := item{K: 1 + r.Intn(nkeys+3), Post: r.Chance(80), Touch: r.Chance(20), Meta: r.Chance(35)}
			if r.Chance(25) {
				it.Cond = 1 + r.Intn(2)
			}
			its = append(its, it)
		}
		p := prog{Kind: "PT", Create: r.Chance(50), Items: its, ReqMeta: r.Chance(30)}
		if p.Create && r.Chance(60) {
			p.Seed = 1 + r.Intn(2)
		}
		return p
	case c < 66:
		nx := r.Chance(70)
		// (never "expired again": one RPC would give all its records the same past expiry, and the
		// order of equal expiries in the index is not specified - the replay could not predict it)
		return prog{Kind: "PE", Hm: 1 + r.Intn(3), Post: r.Chance(85), Nx: nx}
	case c < 78 || capOnly:
		return prog{Kind: "SH", Hm: 1 + r.Intn(2)}
	case c < 86:
		return prog{Kind: "WDel", K: 1 + r.Intn(nkeys)}
	case c < 94:
		d := r.Chance(50)
		return prog{Kind: "WPut", K: 1 + r.Intn(nkeys+2), Nx: d || r.Bool(), Nd: d}
	default:
		d := r.Chance(50)
		return prog{Kind: "WExp", K: 1 + r.Intn(nkeys), Nx: d || r.Bool(), Nd: d}
	}
}

func plans(p prog, r *common.Rng, t int) [][]mstep {
	f := mstep{"Finish", t}
	switch p.Kind {
	case "PT":
		return [][]mstep{{{"Count", t}, f}, {f}, {{"Count", t}, {"One", t}, f}, {{"Count", t}, {"One", t}, {"One", t}, f}}
	case "PE":
		return [][]mstep{{{"Select", t}, {"Patched", t}, f}, {{"Select", t}, f}, {f},
			{{"Select", t}, {"One", t}, f}, {{"Select", t}, {"One", t}, {"Patched", t}, f}}
	}
	return [][]mstep{{f}}
}

// all interleavings of the given per-thread step sequences
func interleavings(seqs [][]mstep) [][]mstep {
	total := 0
	for _, s := range seqs {
		total += len(s)
	}
	if total == 0 {
		return [][]mstep{{}}
	}
	out := [][]mstep{}
	for i, s := range seqs {
		if len(s) == 0 {
			continue
		}
		rest := make([][]mstep, len(seqs))
		copy(rest, seqs)
		rest[i] = s[1:]
		for _, tail := range interleavings(rest) {
			out = append(out, append([]mstep{s[0]}, tail...))
		}
	}
	return out
}

// expectBlocked predicts (for the current code) whether a release of the schedule blocks on
// capMu: a thread parked at one of the three sites holds it. Returns the kind of that release.
func expectBlocked(ps []prog, sched []mstep) string {
	holder := -1
	for _, m := range sched {
		capBearing := ps[m.T].Kind == "PT" || ps[m.T].Kind == "PE" || ps[m.T].Kind == "SH"
		if capBearing && holder != -1 && holder != m.T {
			return m.Kind
		}
		if m.Kind == "Finish" {
			if holder == m.T {
				holder = -1
			}
		} else {
			holder = m.T
		}
	}
	return ""
}

var siteOf = map[string]string{"Count": "gateway.capPreCount.counted", "Select": "swamp.patchExpired.selected", "Patched": "swamp.patchExpired.beforeReindex"}

const stepTimeout = 150 * time.Millisecond

// runForced executes the macro schedule; returns the observation.
func runForced(e *lib.Env, max int, rs []rec, ps []prog, sched []mstep, kind string) obs {
	sw := e.FreshSwamp(false)
	markNeg(sw, ps)
	seed(e, sw, rs)
	o := obs{Max: max, Recs: rs, Progs: ps, Replay: true, Kind: kind, Res: make([][]kc, len(ps))}
	ctl := lib.NewCtl()
	defer ctl.Close()
	var mu sync.Mutex
	for t := range ps {
		t := t
		ctl.Add(t, func() {
			r := runProg(e, sw, max, ps[t])
			mu.Lock()
			o.Res[t] = r
			mu.Unlock()
		})
	}
	finished := map[int]bool{}
	at := map[int]string{}
	for _, m := range sched {
		if finished[m.T] {
			continue
		}
		if m.Kind == "One" && at[m.T] == "" {
			continue // a batch is stepped only after its Count / Select
		}
		var got string
		switch {
		case m.Kind == "Finish":
			got = ctl.Advance(m.T, stepTimeout)
		case m.Kind == "One" && ps[m.T].Kind == "PT":
			// one per-key patch: from the count point the first beforeKey is reached without any
			// patch, so it is absorbed
			if at[m.T] == "gateway.capPreCount.counted" {
				got = ctl.Advance(m.T, stepTimeout, "gateway.patchTreasures.beforeKey")
				if got == "blocked" {
					// confirm: on a loaded machine a slow (not blocked) thread must not be taken for blocked
					if again := ctl.Wait(m.T, 3*stepTimeout); again != "blocked" {
						got = again
					}
				}
				at[m.T] = got
			}
			if at[m.T] == "gateway.patchTreasures.beforeKey" {
				got = ctl.Advance(m.T, stepTimeout, "gateway.patchTreasures.beforeKey")
			}
		case m.Kind == "One":
			got = ctl.Advance(m.T, stepTimeout, "swamp.patchExpired.afterPatch")
		default:
			got = ctl.Advance(m.T, stepTimeout, siteOf[m.Kind])
		}
		at[m.T] = got
		switch {
		case got == "blocked":
			mm := m
			o.Blocked = &mm
		case got == "done":
			finished[m.T] = true
			o.Sched = append(o.Sched, mstep{"Finish", m.T})
		default:
			o.Sched = append(o.Sched, m)
		}
		if o.Blocked != nil {
			break
		}
		o.Counts = append(o.Counts, countM(dump(e, sw)))
	}
	// let the remaining threads finish ONE AT A TIME (parked ones first, then those waiting for capMu,
	// then the ones never started): released all at once, a Shift and a save can run into the
	// engine's own lock-order deadlock, which is not what this check is about
	settle := func() {
		for t := range ps {
			if at[t] == "blocked" && ctl.Wait(t, 300*time.Millisecond) == "done" {
				at[t] = "done"
			}
		}
	}
	for t := range ps {
		if at[t] != "" && at[t] != "blocked" && at[t] != "done" {
			at[t] = ctl.Advance(t, 3*time.Second)
			settle()
		}
	}
	for t := range ps {
		if at[t] == "blocked" {
			at[t] = ctl.Wait(t, 3*time.Second)
		}
	}
	for t := range ps {
		if at[t] == "" {
			at[t] = ctl.Advance(t, 3*time.Second)
			settle()
		}
	}
	if !ctl.Drain(len(ps), 5*time.Second) {
		o.Notes = append(o.Notes, "hang: a thread did not finish")
	}
	if o.Blocked == nil {
		// threads never scheduled ran in Drain in index order
		for t := range ps {
			if !finished[t] {
				already := false
				for _, m := range o.Sched {
					if m.T == t && m.Kind == "Finish" {
						already = true
					}
				}
				if !already {
					o.Sched = append(o.Sched, mstep{"Finish", t})
				}
			}
		}
	}
	o.Final = dump(e, sw)
	o.Counts = append(o.Counts, countM(o.Final))
	mu.Lock()
	defer mu.Unlock()
	return o
}

func runSeq(e *lib.Env, max int, rs []rec, ps []prog, kind string) obs {
	sw := e.FreshSwamp(false)
	markNeg(sw, ps)
	seed(e, sw, rs)
	o := obs{Max: max, Recs: rs, Progs: ps, Replay: true, Kind: kind, Res: make([][]kc, len(ps))}
	for t, p := range ps {
		o.Res[t] = runProg(e, sw, max, p)
		o.Sched = append(o.Sched, mstep{"Finish", t})
		o.Counts = append(o.Counts, countM(dump(e, sw)))
	}
	o.Final = dump(e, sw)
	return o
}

func runStress(e *lib.Env, r *common.Rng, max int, rs []rec, rounds, nthreads int, neg bool) obs {
	sw := e.FreshSwamp(false)
	if neg {
		negSwamps.Store(sw, true)
	}
	seed(e, sw, rs)
	o := obs{Max: max, Recs: rs, Replay: false, Kind: "stress"}
	for round := 0; round < rounds; round++ {
		ps := []prog{}
		for i := 0; i < nthreads; i++ {
			p := genProg(r, len(rs), false)
			// no ShiftMatching in a free run: the engine can deadlock when a Shift (index-beacon lock,
			// then treasure guards) runs beside any save (guard, then index-beacon lock) - a liveness
			// defect outside C12 (reported to the coordinator); Shift only lowers the count anyway and
			// is covered by the forced schedules
			for p.Kind == "SH" {
				p = genProg(r, len(rs), false)
			}
			ps = append(ps, p)
		}
		o.Progs = append(o.Progs, ps...)
		var wg sync.WaitGroup
		start := make(chan struct{})
		for _, p := range ps {
			p := p
			wg.Add(1)
			go func() { defer wg.Done(); <-start; runProg(e, sw, max, p) }()
		}
		close(start)
		fin := make(chan struct{})
		go func() { wg.Wait(); close(fin) }()
		select {
		case <-fin:
		case <-time.After(10 * time.Second):
			o.Notes = append(o.Notes, "hang: free-running RPCs did not finish within 10 s")
			o.Final = []rec{}
			return o
		}
		o.Counts = append(o.Counts, countM(dump(e, sw)))
		// refill due pending records so that later rounds have something to claim
		for k := 1; k <= len(rs); k++ {
			if r.Chance(30) {
				runProg(e, sw, max, prog{Kind: "WPut", K: k, Nx: true, Nd: true})
			}
		}
	}
	o.Final = dump(e, sw)
	return o
}

func isNontrivial(o obs) bool {
	// rule: at least one cap-bearing program ran and either the budget bound something (a
	// CAP_EXCEEDED result, or fewer selected than asked while due records existed), two threads
	// were interleaved, or the count reached the cap
	capProgs := 0
	for _, p := range o.Progs {
		if p.Kind == "PT" || p.Kind == "PE" || p.Kind == "SH" {
			capProgs++
		}
	}
	if capProgs == 0 {
		return false
	}
	for _, r := range o.Res {
		for _, x := range r {
			if x.C == 9 {
				return true
			}
		}
	}
	for _, c := range o.Counts {
		if c >= o.Max {
			return true
		}
	}
	seen := map[int]bool{}
	last := -1
	for _, m := range o.Sched {
		if m.T != last && seen[m.T] {
			return true
		}
		seen[m.T] = true
		last = m.T
	}
	return o.Blocked != nil
}

func main() {
	args := common.ParseArgs()
	run := common.NewRun(args, "C12", "HV.Swamp.Cap")
	run.Meta.Rule = "a case is non-trivial when a cap-bearing RPC ran and the cap bound something (CAP_EXCEEDED, count reached max), or threads were really interleaved / one blocked on capMu"
	rng := common.NewRng(args.Seed, "C12")
	thorough := args.Tier == "thorough"
	// global watchdog: an engine deadlock (possible on a defective tree) must not stall the check
	limit := 5 * time.Minute
	if thorough {
		limit = 50 * time.Minute
	}
	time.AfterFunc(limit, func() {
		fmt.Fprintln(os.Stderr, "C12 harness: run exceeded", limit, "- the engine hangs (deadlock); goroutine dump follows")
		pprof.Lookup("goroutine").WriteTo(os.Stderr, 1)
		os.Exit(3)
	})
	e := lib.NewEnv("c12")
	defer e.Close()

	add := func(o obs) {
		idx := run.Add(cCase(o), o, isNontrivial(o))
		run.Hist("kind:" + o.Kind)
		if o.Blocked != nil {
			run.Hist("blocked_on_capMu")
		}
		for _, n := range o.Notes {
			run.Violate(idx, "termination", "hang", n)
		}
		for _, r := range o.Res {
			for _, x := range r {
				if x.C == 9 {
					run.Hist("result:CAP_EXCEEDED")
				}
				if x.K == -1 {
					run.Violate(idx, "rpc", "rpc_error", "an RPC returned a gRPC error")
				}
			}
		}
	}

	// 1. the four-cell table, exhaustively: pre, post in {F,T}, budget in 0..2, existing / created
	for _, existing := range []bool{true, false} {
		for _, pre := range []bool{false, true} {
			if !existing && pre {
				continue
			}
			for _, post := range []bool{false, true} {
				for budget := 0; budget <= 2; budget++ {
					max := 2
					rs := []rec{}
					for f := 0; f < max-budget; f++ {
						rs = append(rs, rec{K: 50 + f, M: true})
					}
					if pre {
						// the target itself matches: one filler less keeps count = max - budget
						if len(rs) > 0 {
							rs = rs[1:]
						} else {
							continue // pre = T with budget = max impossible (count >= 1)
						}
					}
					if existing {
						rs = append([]rec{{K: 1, M: pre}}, rs...)
					}
					rs = append(rs, rec{K: 60}, rec{K: 61}, rec{K: 62})
					p := prog{Kind: "PT", Create: !existing, Items: []item{{K: 1, Post: post}, {K: 60, Post: true}, {K: 61, Post: true}, {K: 62, Post: true}}}
					o := runSeq(e, max, rs, []prog{p}, "table")
					add(o)
					add(runSeq(e, max, rs, negate([]prog{p}), "table-neg"))
					// the same cell with every rarely used per-key option switched on
					q := p
					q.ReqMeta = true
					q.Items = nil
					for i, it := range p.Items {
						it.Meta = true
						it.Cond = 1
						q.Items = append(q.Items, it)
						if i == 0 {
							q.Items = append(q.Items, item{K: it.K, Post: true, Cond: 2})
						}
					}
					add(runSeq(e, max, rs, []prog{q}, "table-options"))
					add(runSeq(e, max, rs, negate([]prog{q}), "table-options-neg"))
					run.Hist(fmt.Sprintf("cell:pre=%v,post=%v,budget=%d,existing=%v", pre, post, budget, existing))
				}
			}
		}
	}

	// 1b. the create cells: CreateIfNotExist with every seed (none, not matching, matching) x every
	// kind of op (sets a non-matching / matching status, or leaves the seeded status) x budget
	for seed := 0; seed <= 2; seed++ {
		for kind := 0; kind < 3; kind++ {
			for budget := 0; budget <= 2; budget++ {
				max := 2
				rs := []rec{}
				for f := 0; f < max-budget; f++ {
					rs = append(rs, rec{K: 50 + f, M: true})
				}
				rs = append(rs, rec{K: 60}, rec{K: 61}, rec{K: 62})
				first := item{K: 1, Post: kind == 1, Touch: kind == 2}
				p := prog{Kind: "PT", Create: true, Seed: seed, Items: []item{first, {K: 2, Touch: true}, {K: 60, Post: true}, {K: 61, Post: true}, {K: 62, Post: true}, {K: 1, Touch: true}}}
				add(runSeq(e, max, rs, []prog{p}, "table-create"))
				add(runSeq(e, max, rs, negate([]prog{p}), "table-create-neg"))
				run.Hist(fmt.Sprintf("cell-create:seed=%d,op=%d,budget=%d", seed, kind, budget))
			}
		}
	}

	// 2. sequential histories (parallel over cases; each on its own swamp)
	nseq := 260
	if thorough {
		nseq = 3000
	}
	type job struct {
		max int
		rs  []rec
		ps  []prog
	}
	jobs := make([]job, nseq)
	for i := range jobs {
		max := 1 + rng.Intn(3)
		n := 3 + rng.Intn(4)
		rs := genRecs(rng, n, max)
		ps := []prog{}
		for k := 0; k < 2+rng.Intn(4); k++ {
			ps = append(ps, genProg(rng, n, false))
		}
		if rng.Chance(35) {
			ps = negate(ps)
		}
		jobs[i] = job{max, rs, ps}
	}
	seqObs := make([]obs, nseq)
	common.Parallel(nseq, 8, func(i int) { seqObs[i] = runSeq(e, jobs[i].max, jobs[i].rs, jobs[i].ps, "seq") })
	for _, o := range seqObs {
		add(o)
	}

	// 3. forced schedules: the witness of the old code first, then all interleavings for menus of
	// two threads, then random three-thread schedules
	w := []rec{{K: 1}, {K: 2}}
	wp := []prog{{Kind: "PT", Items: []item{{K: 1, Post: true}}}, {Kind: "PT", Items: []item{{K: 2, Post: true}}}}
	add(runForced(e, 1, w, wp, []mstep{{"Count", 0}, {"Count", 1}, {"Finish", 0}, {"Finish", 1}}, "forced-witness"))
	base := []rec{{K: 1, X: true, D: true}, {K: 2, X: true, D: true}, {K: 3}, {K: 4, M: true}}
	menu := []prog{
		{Kind: "PT", Items: []item{{K: 1, Post: true}, {K: 3, Post: true}}},
		{Kind: "PT", Create: true, Items: []item{{K: 9, Post: true}}},
		{Kind: "PT", ReqMeta: true, Items: []item{{K: 3, Post: true, Meta: true}, {K: 1, Post: true, Cond: 2}, {K: 1, Post: true, Meta: true, Cond: 1}}},
		{Kind: "PT", Create: true, Seed: 2, Items: []item{{K: 10, Touch: true}, {K: 3, Touch: true}, {K: 10, Post: false}}},
		{Kind: "PE", Hm: 2, Post: true, Nx: true},
		{Kind: "PE", Hm: 1, Post: true},
		{Kind: "SH", Hm: 1},
		{Kind: "WDel", K: 4},
		{Kind: "WPut", K: 1, Nx: true, Nd: true},
	}
	nblocked := 0
	type cand struct {
		ps    []prog
		sched []mstep
	}
	var free, blockedCount, blockedOther []cand
	for i := 0; i < len(menu); i++ {
		for j := i; j < len(menu); j++ {
			ps := []prog{menu[i], menu[j]}
			if strings.HasPrefix(ps[0].Kind, "W") && strings.HasPrefix(ps[1].Kind, "W") {
				continue
			}
			for _, p0 := range plans(ps[0], rng, 0) {
				for _, p1 := range plans(ps[1], rng, 1) {
					for _, sched := range interleavings([][]mstep{p0, p1}) {
						// schedules in which a release is expected to block on capMu cost a timeout each;
						// those whose blocked release is a PatchTreasures count have the shape of the
						// count-before-lock witness
						switch expectBlocked(ps, sched) {
						case "":
							free = append(free, cand{ps, sched})
						case "Count":
							blockedCount = append(blockedCount, cand{ps, sched})
						default:
							blockedOther = append(blockedOther, cand{ps, sched})
						}
					}
				}
			}
		}
	}
	take := func(cs []cand, n int) {
		if thorough {
			n *= 8
		}
		for k := 0; k < n && len(cs) > 0; k++ {
			i := rng.Intn(len(cs))
			c := cs[i]
			cs[i] = cs[len(cs)-1]
			cs = cs[:len(cs)-1]
			o := runForced(e, 2, base, c.ps, c.sched, "forced2")
			if o.Blocked != nil {
				nblocked++
			}
			add(o)
		}
	}
	take(free, 170)
	take(blockedCount, 35)
	take(blockedOther, 25)
	// selections that are NOT bounded by the cap (budget left over, every candidate taken): the
	// caller must still hold capMu until its records are patched into the filter
	for _, nb := range []int{1, 2, 3} {
		for _, second := range []string{"PT", "PTcreate", "PE"} {
			for _, steps := range [][]mstep{{{"Select", 0}, {"Finish", 1}, {"Finish", 0}}, {{"Select", 0}, {"One", 0}, {"Finish", 1}, {"Finish", 0}},
				{{"Select", 0}, {"One", 0}, {"Finish", 2}, {"Finish", 1}, {"Finish", 0}}} {
				rs := []rec{{K: 1, X: true, D: true}, {K: 2, X: true, D: true}, {K: 5}, {K: 6}, {K: 7}}
				max := 2 + nb
				a := prog{Kind: "PE", Hm: 2 + rng.Intn(2), Post: true, Nx: true}
				var b prog
				switch second {
				case "PT":
					b = prog{Kind: "PT", Items: []item{{K: 5, Post: true}, {K: 6, Post: true}, {K: 7, Post: true}}}
				case "PTcreate":
					b = prog{Kind: "PT", Create: true, Seed: 2, Items: []item{{K: 20, Touch: true}, {K: 21, Touch: true}, {K: 22, Post: true}}}
				default:
					b = prog{Kind: "PE", Hm: 5, Post: true, Nx: true}
				}
				w := prog{Kind: "WPut", K: 9, Nx: true, Nd: true}
				if rng.Chance(35) {
					add(runForced(e, max, rs, negate([]prog{a, b, w}), steps, "forced-unbounded-neg"))
				} else {
					add(runForced(e, max, rs, []prog{a, b, w}, steps, "forced-unbounded"))
				}
			}
		}
	}
	n3 := 60
	if thorough {
		n3 = 700
	}
	for i := 0; i < n3; i++ {
		max := 1 + rng.Intn(5)
		n := 4 + rng.Intn(3)
		rs := genRecs(rng, n, max)
		ps := []prog{genProg(rng, n, true), genProg(rng, n, false), genProg(rng, n, false)}
		seqs := [][]mstep{}
		for t, p := range ps {
			pl := plans(p, rng, t)
			seqs = append(seqs, pl[rng.Intn(len(pl))])
		}
		// one random interleaving
		sched := []mstep{}
		for {
			alive := []int{}
			for t, s := range seqs {
				if len(s) > 0 {
					alive = append(alive, t)
				}
			}
			if len(alive) == 0 {
				break
			}
			t := alive[rng.Intn(len(alive))]
			sched = append(sched, seqs[t][0])
			seqs[t] = seqs[t][1:]
		}
		if rng.Chance(30) {
			ps = negate(ps)
		}
		add(runForced(e, max, rs, ps, sched, "forced3"))
	}

	// 4. free-running stress
	nstress := 40
	if thorough {
		nstress = 400
	}
	for i := 0; i < nstress; i++ {
		max := 1 + rng.Intn(3)
		n := 5 + rng.Intn(4)
		add(runStress(e, rng, max, genRecs(rng, n, max), 3, 2+rng.Intn(5), rng.Chance(35)))
	}
	run.Meta.Traces = run.Meta.Evaluations
	run.Meta.Extra["blocked_cases"] = nblocked
	run.Finish("check_all")
	os.RemoveAll(e.Root)
	os.Exit(0)
}
