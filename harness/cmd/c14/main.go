// c14: correspondence check for the business lock (app/core/hydra/lock/lock.go and the gateway
// Lock/Unlock handlers) against Conc/BLock.v.
//
// Trace acceptance: 8-64 goroutines use one real lock.New() on 1-4 keys with TTLs of 5-40 ms,
// random hold times, ctx cancellations, duplicate/stale/foreign/wrong-key unlocks. The hook
// points lock.enqueue / lock.remove / lock.prune / lock.enqueue.retired / lock.remove.miss run
// under q.mu, so their order in the log is the real order; API-level events (Lock returned,
// Unlock returned) are logged by the calling goroutine. Per key the trace is (a) judged by the
// property oracle on the observations alone (two holders, grant to a non-head, release by a
// foreign/stale id) and (b) replayed through the model. A Lock that has not returned 5 s after
// every other caller is gone is a stuck waiter. Also: serialised random op sequences of <= 3
// callers on one key, and the gateway TTL floor / non-cancellable wait on the real gateway.
package main

import (
	"context"
	"fmt"
	"os"
	"path/filepath"
	"strings"
	"sync"
	"sync/atomic"
	"time"

	"github.com/google/uuid"
	"github.com/hydraide/hydraide/app/core/hydra/lock"
	"github.com/hydraide/hydraide/app/verifhook"
	hydrapb "github.com/hydraide/hydraide/sdk/go/hydraidego/v3/hydraidepbgo"
	"verif/harness/common"
	"verif/harness/rig"
)

type lcase struct {
	mu      sync.Mutex
	l       lock.Lock
	nkeys   int
	ntok    []int    // per key: number of Lock calls (tokens) so far
	recs    [][]*rec // per key: observed events
	contend bool
	// TTL accounting (all under mu): the queue of each key as the hook events show it, the instant
	// at which each caller's ready channel was (about to be) closed, the TTL each caller asked for,
	// and for every caller removed by its TTL watchdog how long after that instant it happened
	q       [][]int
	readyAt []map[int]time.Time
	ttl     []map[int]time.Duration
	lives   [][]string
	livesH  [][]string
}

// one observed event; pruned is set when the lock.prune point is passed in the same critical
// section as this (lock.removed) event: the EPrune event is emitted right behind it, which is its
// real position - the new queue of the key has another mutex, so the log order of the prune
// point relative to events on the new queue means nothing
type rec struct {
	term, human string
	pruned      bool
}

func (c *lcase) flat(key int) (terms, human []string) {
	for _, r := range c.recs[key] {
		terms = append(terms, r.term)
		human = append(human, r.human)
		if r.pruned {
			terms = append(terms, "EPrune")
			human = append(human, "queue retired and map entry dropped (same critical section)")
		}
	}
	return
}

func (c *lcase) newTok(key int) int {
	c.mu.Lock()
	defer c.mu.Unlock()
	t := c.ntok[key]
	c.ntok[key]++
	return t
}

func (c *lcase) log(key int, term, human string) *rec {
	r := &rec{term: term, human: human}
	c.mu.Lock()
	c.recs[key] = append(c.recs[key], r)
	c.mu.Unlock()
	return r
}

// what the goroutine gid is doing right now (set by the goroutine itself before the call)
type activity struct {
	c      *lcase
	inLock bool
	key    int
	tok    int // Lock call: its token
	idtok  int // Unlock call: token whose id is used, -1 = foreign id
}

type lastRemoved struct {
	c *lcase
	r *rec
}

type callerRef struct {
	c   *lcase
	key int
	tok int
	gid int64 // goroutine of the Lock call
}

var (
	acts    sync.Map // gid -> *activity
	callers sync.Map // cref -> *callerRef
	lastRem sync.Map // gid -> *callerRef of the lock.removed event of the current critical section
)

func optTok(t int) string {
	if t < 0 {
		return "None"
	}
	return common.Some(common.Nat(t))
}

func controller(site string, gid int64, args []int64) {
	var a *activity
	if v, ok := acts.Load(gid); ok {
		a = v.(*activity)
	}
	switch site {
	case "lock.enqueue":
		if a == nil || !a.inLock {
			return
		}
		callers.Store(args[1], &callerRef{a.c, a.key, a.tok, gid})
		a.c.mu.Lock()
		if args[2] > 1 {
			a.c.contend = true
		} else {
			a.c.readyAt[a.key][a.tok] = time.Now() // enqueued on an empty queue: ready is closed right away
		}
		a.c.q[a.key] = append(a.c.q[a.key], a.tok)
		a.c.mu.Unlock()
		a.c.log(a.key, common.App("EEnq", common.Nat(a.tok), common.Nat(int(args[2]))), fmt.Sprintf("enqueue caller %d, queue length %d", a.tok, args[2]))
	case "lock.enqueue.retired":
		if a == nil || !a.inLock {
			return
		}
		a.c.log(a.key, common.App("EEnqRetired", common.Nat(a.tok)), fmt.Sprintf("caller %d found its queue retired, retries", a.tok))
	case "lock.prune":
		// same critical section (and goroutine) as the preceding lock.removed event
		if v, ok := lastRem.LoadAndDelete(gid); ok {
			lr := v.(*lastRemoved)
			lr.c.mu.Lock()
			lr.r.pruned = true
			lr.c.mu.Unlock()
		}
	case "lock.removed":
		v, ok := callers.Load(args[1])
		if !ok {
			return
		}
		cr := v.(*callerRef)
		who := "WWatchdog"
		whoH := "ttl watchdog"
		if a != nil {
			if a.inLock {
				who, whoH = "WCancel", "the caller itself (ctx cancelled)"
			} else {
				who, whoH = common.App("WUnlock", optTok(a.idtok)), fmt.Sprintf("Unlock with the id of caller %d (-1 = foreign)", a.idtok)
			}
		}
		now := time.Now() // taken under q.mu, before the next waiter is woken
		cr.c.mu.Lock()
		kq := cr.c.q[cr.key]
		for i, t := range kq {
			if t == cr.tok {
				kq = append(kq[:i:i], kq[i+1:]...)
				break
			}
		}
		cr.c.q[cr.key] = kq
		if args[2] == 0 && len(kq) > 0 {
			if _, seen := cr.c.readyAt[cr.key][kq[0]]; !seen {
				cr.c.readyAt[cr.key][kq[0]] = now // the new head's ready is closed in this critical section
			}
		}
		if who == "WWatchdog" {
			if t0, ok := cr.c.readyAt[cr.key][cr.tok]; ok {
				ttl := cr.c.ttl[cr.key][cr.tok]
				lived := now.Sub(t0)
				cr.c.lives[cr.key] = append(cr.c.lives[cr.key], fmt.Sprintf("(%s, %s, %s)", common.Nat(cr.tok), common.Z(ttl.Microseconds()), common.Z(lived.Microseconds())))
				cr.c.livesH[cr.key] = append(cr.c.livesH[cr.key], fmt.Sprintf("caller %d: ttl %v, removed by its watchdog %v after it became head (ready closed)", cr.tok, ttl, lived))
			}
		}
		cr.c.mu.Unlock()
		r := cr.c.log(cr.key, common.App("ERem", common.Nat(cr.tok), common.Nat(int(args[2])), common.Nat(int(args[3])), who),
			fmt.Sprintf("remove caller %d at index %d, length after %d, by %s", cr.tok, args[2], args[3], whoH))
		lastRem.Store(gid, &lastRemoved{cr.c, r})
	case "lock.remove.miss":
		if a != nil && !a.inLock {
			a.c.log(a.key, "ERemMiss", "remove: id not queued")
		}
	}
}

// ---- client behaviour ----------------------------------------------------------------------

type idBook struct {
	mu  sync.Mutex
	ids map[[2]int]string // (key, tok) -> lock id
}

func (b *idBook) put(key, tok int, id string) {
	b.mu.Lock()
	b.ids[[2]int{key, tok}] = id
	b.mu.Unlock()
}

// keyName: every second key is longer than the usual index limits (129+ bytes)
func keyName(k int) string {
	if k%2 == 1 {
		return fmt.Sprintf("key-%d/", k) + strings.Repeat("y", 130+37*k)
	}
	return fmt.Sprintf("key-%d", k)
}

func doLock(c *lcase, a *activity, key int, ttl time.Duration, cancelAfter time.Duration) (tok int, id string, ok bool) {
	tok = c.newTok(key)
	c.mu.Lock()
	c.ttl[key][tok] = ttl
	c.mu.Unlock()
	a.inLock, a.key, a.tok = true, key, tok
	ctx := context.Background()
	var cancel context.CancelFunc
	if cancelAfter >= 0 {
		ctx, cancel = context.WithTimeout(ctx, cancelAfter)
		defer cancel()
	}
	id, err := c.l.Lock(ctx, keyName(key), ttl)
	if err != nil {
		c.log(key, common.App("ECancelRet", common.Nat(tok)), fmt.Sprintf("Lock of caller %d returned error (cancelled)", tok))
		return tok, "", false
	}
	c.log(key, common.App("ELockRet", common.Nat(tok)), fmt.Sprintf("Lock of caller %d returned its id", tok))
	return tok, id, true
}

// unlockKey: the key the Unlock call addresses; logKey: the key whose trace records the result
func doUnlock(c *lcase, a *activity, unlockKey, logKey, idtok int, id string) bool {
	if unlockKey != logKey {
		idtok = -1 // tokens are per key: the id of a caller of another key is a foreign id here
	}
	a.inLock, a.key, a.idtok = false, unlockKey, idtok
	err := c.l.Unlock(keyName(unlockKey), id)
	tokS := optTok(idtok)
	c.log(unlockKey, common.App("EUnlockRet", tokS, common.Bool(err == nil)), fmt.Sprintf("Unlock(id of caller %d of key %d) on key %d -> ok=%v", idtok, logKey, unlockKey, err == nil))
	return err == nil
}

func spinSleep(d time.Duration) {
	if d <= 0 {
		return
	}
	time.Sleep(d)
}

type cres struct {
	keys    []string
	descr   map[string]interface{}
	hang    bool
	nontriv bool
}

func finish(c *lcase, hang bool, kind string) cres {
	// quiescence: every TTL has fired
	deadline := time.Now().Add(3 * time.Second)
	for {
		busy := false
		for k := 0; k < c.nkeys; k++ {
			if n, _ := lock.QueueLen(c.l, keyName(k)); n > 0 {
				busy = true
			}
		}
		if !busy || time.Now().After(deadline) {
			break
		}
		time.Sleep(2 * time.Millisecond)
	}
	time.Sleep(time.Millisecond)
	c.mu.Lock()
	defer c.mu.Unlock()
	res := cres{hang: hang, nontriv: c.contend}
	hum := map[string]interface{}{}
	for k := 0; k < c.nkeys; k++ {
		n, has := lock.QueueLen(c.l, keyName(k))
		terms, human := c.flat(k)
		res.keys = append(res.keys, fmt.Sprintf("(Build_kcase %s %s %s %s %s)", common.Nat(c.ntok[k]), common.List(terms), common.Bool(has), common.Nat(n), common.List(c.lives[k])))
		hum[keyName(k)] = map[string]interface{}{"lock_calls": c.ntok[k], "events": human, "ttl_releases": c.livesH[k], "entry_after_quiescence": has, "queued_after_quiescence": n}
	}
	res.descr = map[string]interface{}{"kind": kind, "keys": hum, "stuck_waiter": hang, "map_entries_after_quiescence": lock.QueueCount(c.l)}
	return res
}

// newCase: nkeys keys that are locked plus one more key (the last) that is never locked and only
// sees Unlock calls.
func newCase(nkeys int) *lcase {
	nkeys++
	c := &lcase{l: lock.New(), nkeys: nkeys, ntok: make([]int, nkeys), recs: make([][]*rec, nkeys),
		q: make([][]int, nkeys), readyAt: make([]map[int]time.Time, nkeys), ttl: make([]map[int]time.Duration, nkeys),
		lives: make([][]string, nkeys), livesH: make([][]string, nkeys)}
	for k := 0; k < nkeys; k++ {
		c.readyAt[k] = map[int]time.Time{}
		c.ttl[k] = map[int]time.Duration{}
	}
	return c
}

func concurrentCase(r *common.Rng) cres {
	nkeys := 1 + r.Intn(4)
	ngo := 8 + r.Intn(57)
	c := newCase(nkeys)
	book := &idBook{ids: map[[2]int]string{}}
	var wg sync.WaitGroup
	for g := 0; g < ngo; g++ {
		rr := r.Fork(fmt.Sprintf("g%d", g))
		wg.Add(1)
		go func() {
			defer wg.Done()
			gid := verifhook.GoID()
			a := &activity{c: c}
			acts.Store(gid, a)
			defer acts.Delete(gid)
			ncalls := 1 + rr.Intn(2)
			for i := 0; i < ncalls; i++ {
				key := rr.Intn(nkeys)
				ttl := time.Duration(5+rr.Intn(36)) * time.Millisecond
				cancelAfter := time.Duration(-1)
				if rr.Chance(25) {
					cancelAfter = time.Duration(rr.Intn(12000)) * time.Microsecond
				}
				if rr.Chance(8) {
					cancelAfter = 0 // the context is already done when Lock is called
				}
				tok, id, ok := doLock(c, a, key, ttl, cancelAfter)
				if !ok {
					continue
				}
				book.put(key, tok, id)
				switch b := rr.Intn(100); {
				case b < 55: // hold briefly, unlock
					spinSleep(time.Duration(rr.Intn(3000)) * time.Microsecond)
					doUnlock(c, a, key, key, tok, id)
				case b < 70: // hold beyond the TTL, then a stale unlock
					spinSleep(ttl + time.Duration(1+rr.Intn(5))*time.Millisecond)
					doUnlock(c, a, key, key, tok, id)
				case b < 80: // never unlock: the TTL releases
				case b < 90: // foreign id first, then the real unlock, then a duplicate
					doUnlock(c, a, key, key, -1, uuid.NewString())
					doUnlock(c, a, key, key, tok, id)
					doUnlock(c, a, key, key, tok, id)
				default: // own id on the wrong key, then the real unlock
					if nkeys > 1 && rr.Bool() {
						doUnlock(c, a, (key+1)%nkeys, key, tok, id)
					} else {
						doUnlock(c, a, nkeys, key, tok, id) // a key that nobody ever locks
					}
					spinSleep(time.Duration(rr.Intn(1000)) * time.Microsecond)
					doUnlock(c, a, key, key, tok, id)
				}
			}
		}()
	}
	done := make(chan struct{})
	go func() { wg.Wait(); close(done) }()
	hang := false
	select {
	case <-done:
	case <-time.After(8 * time.Second):
		hang = true
	}
	return finish(c, hang, "concurrent")
}

// serialCase: up to 3 callers on one key, operations issued one at a time by the harness.
func serialCase(r *common.Rng) cres {
	c := newCase(1)
	type cl struct {
		started, returned bool
		ok                bool
		tok               int
		id                string
		cancel            context.CancelFunc
		done              chan struct{}
		unlocked          bool
	}
	ncl := 2 + r.Intn(2)
	cls := make([]*cl, ncl)
	for i := range cls {
		cls[i] = &cl{}
	}
	hgid := verifhook.GoID()
	ha := &activity{c: c}
	acts.Store(hgid, ha)
	defer acts.Delete(hgid)
	settle := func() { time.Sleep(300 * time.Microsecond) }
	nops := 4 + r.Intn(8)
	var ops []string
	for i := 0; i < nops; i++ {
		x := cls[r.Intn(ncl)]
		switch k := r.Intn(10); {
		case k < 4 && !x.started:
			x.started = true
			x.done = make(chan struct{})
			ttl := 10 * time.Second
			if r.Chance(30) {
				ttl = 8 * time.Millisecond
			}
			ctx, cancel := context.WithCancel(context.Background())
			x.cancel = cancel
			before := func() int { n, _ := lock.QueueLen(c.l, keyName(0)); return n }()
			evBefore := func() int { c.mu.Lock(); defer c.mu.Unlock(); return len(c.recs[0]) }()
			go func(x *cl) {
				gid := verifhook.GoID()
				a := &activity{c: c}
				acts.Store(gid, a)
				defer acts.Delete(gid)
				tok := c.newTok(0)
				c.mu.Lock()
				c.ttl[0][tok] = ttl
				c.mu.Unlock()
				a.inLock, a.key, a.tok = true, 0, tok
				x.tok = tok
				id, err := c.l.Lock(ctx, keyName(0), ttl)
				if err != nil {
					c.log(0, common.App("ECancelRet", common.Nat(tok)), fmt.Sprintf("Lock of caller %d returned error", tok))
				} else {
					c.log(0, common.App("ELockRet", common.Nat(tok)), fmt.Sprintf("Lock of caller %d returned its id", tok))
					x.id, x.ok = id, true
				}
				x.returned = true
				close(x.done)
			}(x)
			// wait for the enqueue to be logged
			for dl := time.Now().Add(2 * time.Second); time.Now().Before(dl); {
				c.mu.Lock()
				n := len(c.recs[0])
				c.mu.Unlock()
				if n > evBefore {
					break
				}
				time.Sleep(20 * time.Microsecond)
			}
			_ = before
			ops = append(ops, fmt.Sprintf("lock(ttl=%v)", ttl))
		case k < 6 && x.started:
			select {
			case <-x.done:
				if x.ok {
					doUnlock(c, ha, 0, 0, x.tok, x.id)
					ops = append(ops, fmt.Sprintf("unlock own/stale id of caller %d", x.tok))
				}
			default:
			}
		case k < 7:
			if r.Bool() {
				doUnlock(c, ha, 0, 0, -1, uuid.NewString())
				ops = append(ops, "unlock foreign id")
			} else {
				doUnlock(c, ha, 1, 0, -1, uuid.NewString())
				ops = append(ops, "unlock on a never-locked key")
			}
		case k < 9 && x.started:
			x.cancel()
			select {
			case <-x.done:
			case <-time.After(5 * time.Millisecond):
			}
			ops = append(ops, "cancel ctx")
		default:
			time.Sleep(12 * time.Millisecond)
			ops = append(ops, "wait 12ms (short TTLs fire)")
		}
		settle()
	}
	// drain: cancel everybody that still waits, unlock everybody that holds
	hang := false
	for round := 0; round < 8; round++ {
		for _, x := range cls {
			if !x.started {
				continue
			}
			select {
			case <-x.done:
				if x.ok && !x.unlocked {
					x.unlocked = true
					doUnlock(c, ha, 0, 0, x.tok, x.id)
				}
			case <-time.After(3 * time.Millisecond):
			}
		}
	}
	for _, x := range cls {
		if x.started {
			select {
			case <-x.done:
				if x.ok && !x.unlocked {
					x.unlocked = true
					doUnlock(c, ha, 0, 0, x.tok, x.id)
				}
			case <-time.After(5 * time.Second):
				hang = true
				x.cancel()
			}
		}
	}
	res := finish(c, hang, "serial")
	res.descr["ops"] = ops
	res.nontriv = res.nontriv || len(ops) > 3
	return res
}

// ---- gateway: TTL floor and non-cancellable wait -------------------------------------------

func ttlProbe(srv *rig.Server, i int, asked int64) (early, later bool, waited time.Duration) {
	key := fmt.Sprintf("c14-ttl-%d", i)
	ctx := context.Background()
	_, err := srv.GW.Lock(ctx, &hydrapb.LockRequest{Key: key, TTL: asked})
	if err != nil {
		return false, false, 0
	}
	t0 := time.Now()
	// the second caller's context is cancelled after 100 ms: the gateway must keep waiting
	ctx2, cancel := context.WithTimeout(ctx, 100*time.Millisecond)
	defer cancel()
	resp, err := srv.GW.Lock(ctx2, &hydrapb.LockRequest{Key: key, TTL: 1000})
	waited = time.Since(t0)
	if err != nil {
		return false, false, waited
	}
	srv.GW.Unlock(ctx, &hydrapb.UnlockRequest{Key: key, LockID: resp.GetLockID()})
	floor := asked
	if floor < 1000 {
		floor = 1000
	}
	early = waited < time.Duration(floor-60)*time.Millisecond
	later = waited < time.Duration(floor+1500)*time.Millisecond
	return
}

// ttlProbeQueued: the TTL of a lock that was waited for runs from the grant, not from the arrival
// of the request. A holds the key; B queues with TTL asked and waits waitMs; A unlocks, B is
// granted and never unlocks; C queues behind B: C must be let in about max(asked,1000) ms after
// B's Lock RETURNED (not earlier), and not much later.
func ttlProbeQueued(srv *rig.Server, i int, asked int64, waitMs int) (early, later bool, waited time.Duration) {
	key := fmt.Sprintf("c14-ttlq-%d", i)
	ctx := context.Background()
	ra, err := srv.GW.Lock(ctx, &hydrapb.LockRequest{Key: key, TTL: 5000})
	if err != nil {
		return false, false, 0
	}
	bDone := make(chan time.Time, 1)
	go func() {
		if _, err := srv.GW.Lock(ctx, &hydrapb.LockRequest{Key: key, TTL: asked}); err != nil {
			bDone <- time.Time{}
			return
		}
		bDone <- time.Now()
	}()
	time.Sleep(time.Duration(waitMs) * time.Millisecond)
	srv.GW.Unlock(ctx, &hydrapb.UnlockRequest{Key: key, LockID: ra.GetLockID()})
	tB := <-bDone
	if tB.IsZero() {
		return false, false, 0
	}
	rc, err := srv.GW.Lock(ctx, &hydrapb.LockRequest{Key: key, TTL: 1000})
	waited = time.Since(tB)
	if err != nil {
		return false, false, waited
	}
	srv.GW.Unlock(ctx, &hydrapb.UnlockRequest{Key: key, LockID: rc.GetLockID()})
	floor := asked
	if floor < 1000 {
		floor = 1000
	}
	early = waited < time.Duration(floor-60)*time.Millisecond
	later = waited < time.Duration(floor+1500)*time.Millisecond
	return
}

func main() {
	a := common.ParseArgs()
	run := common.NewRun(a, "C14", "HV.Conc.BLock")
	run.Shard = 40
	run.Meta.Rule = "concurrent: 8-64 goroutines, 1-4 keys, TTL 5-40 ms, random holds, cancellations, stale/duplicate/foreign/wrong-key unlocks on one real lock; the per-key hook+API trace is judged by the oracle and replayed through Conc/BLock.v; non-trivial = at least one caller was enqueued behind another (contention); serial: random op sequences over <= 3 callers on one key; ttl: real gateway with a TTL below/above the floor and a cancelled waiting context"
	rng := common.NewRng(a.Seed, "C14")
	rig.Quiet()
	verifhook.Install(controller)
	thorough := a.Tier == "thorough"

	nconc, nser := 120, 300
	if thorough {
		nconc, nser = 1500, 3000
	}
	type job struct {
		r    *common.Rng
		kind int
	}
	var jobs []job
	for i := 0; i < nconc; i++ {
		jobs = append(jobs, job{rng.Fork(fmt.Sprintf("conc%d", i)), 0})
	}
	for i := 0; i < nser; i++ {
		jobs = append(jobs, job{rng.Fork(fmt.Sprintf("ser%d", i)), 1})
	}
	res := make([]cres, len(jobs))
	common.Parallel(len(jobs), 6, func(i int) {
		if jobs[i].kind == 0 {
			res[i] = concurrentCase(jobs[i].r)
		} else {
			res[i] = serialCase(jobs[i].r)
		}
	})
	var locks, events int64
	for i, r := range res {
		idx := run.Add(common.App("KTrace", common.List(r.keys)), r.descr, r.nontriv)
		if jobs[i].kind == 0 {
			run.Hist("concurrent")
		} else {
			run.Hist("serial")
		}
		if r.hang {
			run.Violate(idx, "no waiter is left blocked once all holders are gone", "lock_waiter_left_blocked", "a Lock call had not returned 5 s after all other callers were gone")
		}
		_ = atomic.AddInt64(&locks, 0)
	}
	_ = events

	// gateway probes
	root := filepath.Join(a.Out, "root")
	os.RemoveAll(root)
	srv := rig.Start(root, true)
	asked := []int64{0, 1, 5, 500, 1000, 1400}
	type tr struct {
		early, later bool
		waited       time.Duration
	}
	trs := make([]tr, len(asked))
	common.Parallel(len(asked), len(asked), func(i int) {
		e, l, w := ttlProbe(srv, i, asked[i])
		trs[i] = tr{e, l, w}
	})
	for i, t := range trs {
		run.Add(common.App("KTtl", common.Z(asked[i]), common.Bool(t.early), common.Bool(t.later)),
			map[string]interface{}{"kind": "gateway-ttl", "asked_ttl_ms": asked[i], "second_lock_waited_ms": t.waited.Milliseconds(),
				"released_before_floor": t.early, "released_by_ttl": t.later, "second_waiter_ctx_cancelled_after_ms": 100}, true)
		run.Hist("gateway_ttl")
	}
	type qp struct {
		asked int64
		wait  int
	}
	qps := []qp{{1000, 700}, {1200, 1100}, {300, 400}}
	qrs := make([]tr, len(qps))
	common.Parallel(len(qps), len(qps), func(i int) {
		e, l, w := ttlProbeQueued(srv, i, qps[i].asked, qps[i].wait)
		qrs[i] = tr{e, l, w}
	})
	for i, t := range qrs {
		run.Add(common.App("KTtl", common.Z(qps[i].asked), common.Bool(t.early), common.Bool(t.later)),
			map[string]interface{}{"kind": "gateway-ttl-after-queueing", "asked_ttl_ms": qps[i].asked, "holder_waited_in_queue_ms": qps[i].wait,
				"next_caller_waited_ms_after_the_holders_Lock_returned": t.waited.Milliseconds(),
				"released_before_ttl_since_grant":                       t.early, "released_by_ttl": t.later}, true)
		run.Hist("gateway_ttl_after_queueing")
	}
	srv.Stop()
	os.RemoveAll(root)
	verifhook.Install(nil)
	run.Meta.Traces = run.Meta.Evaluations
	run.Finish("check_all")
}
