// c16: acknowledged writes survive eviction, auto-destroy and shutdown — correspondence check
// against Conc/Lifecycle.v.
//
// Every case is one swamp of a real in-process engine (persistent V2 swamps, gateway calls):
//   - forced witnesses (model -> impl): the two refutation schedules of Conc/Lifecycle.v are
//     forced through the lifecycle hook points (auto-destroy decision vs. a concurrent insert;
//     idle-close check with a stale lastInteractionTime vs. a request between SummonSwamp and
//     BeginVigil), in the immediate-write and the interval-write configuration;
//   - serial cases: random request sequences (set / delete / delete-last / destroy) with idle
//     closes and write ticks between the requests (the hypothesis of the partial theorem);
//   - stress: writers and deleters on a few swamps with 1 s idle close.
// After all cases the engine is stopped gracefully and a fresh engine is started on the same
// root; the reloaded key set of every swamp is compared (in Coq) with the acknowledged
// operations: every acknowledged write that is not followed by an acknowledged remove of the
// key must be present. For forced and serial cases the model also predicts the reloaded set.
package main

import (
	"context"
	"fmt"
	"os"
	"sort"
	"strings"
	"sync"
	"time"

	"github.com/hydraide/hydraide/app/core/hydra"
	"github.com/hydraide/hydraide/app/verifhook"
	hydrapb "github.com/hydraide/hydraide/sdk/go/hydraidego/v3/hydraidepbgo"
	"verif/harness/common"
	lib "verif/harness/lib/c18"
	"verif/harness/rig"
)

type ack struct {
	Del bool
	Key int
}

type caseRec struct {
	kind    string
	name    string
	wi      int // write interval seconds of the pattern
	acks    []ack
	flags   int // 1 = auto-destroy decision overlapped an insert; 2 = idle close between summon and vigil
	script  []string
	modelOp []string // Coq ops for the model replay (forced/serial cases)
	nontriv bool
}

type env struct {
	srv *rig.Server
}

func key(k int) string { return fmt.Sprintf("k%d", k) }

func (e *env) set(ctx context.Context, name string, k int) (string, error) {
	v := int64(k + 1)
	resp, err := e.srv.GW.Set(ctx, &hydrapb.SetRequest{Swamps: []*hydrapb.SwampRequest{{
		IslandID: 1, SwampName: name, CreateIfNotExist: true, Overwrite: true,
		KeyValues: []*hydrapb.KeyValuePair{{Key: key(k), Int64Val: &v}}}}})
	if err != nil || resp == nil || len(resp.Swamps) == 0 || len(resp.Swamps[0].KeysAndStatuses) == 0 {
		return "", fmt.Errorf("set failed: %v", err)
	}
	return resp.Swamps[0].KeysAndStatuses[0].Status.String(), nil
}

func (e *env) del(ctx context.Context, name string, k int) (string, error) {
	resp, err := e.srv.GW.Delete(ctx, &hydrapb.DeleteRequest{Swamps: []*hydrapb.DeleteRequest_SwampKeys{{
		IslandID: 1, SwampName: name, Keys: []string{key(k)}}}})
	if err != nil || resp == nil || len(resp.Responses) == 0 {
		return "", fmt.Errorf("delete failed: %v", err)
	}
	r := resp.Responses[0]
	if r.ErrorCode != nil || len(r.KeyStatuses) == 0 {
		return "NOSWAMP", nil
	}
	return r.KeyStatuses[0].Status.String(), nil
}

func (e *env) destroy(ctx context.Context, name string) error {
	_, err := e.srv.GW.Destroy(ctx, &hydrapb.DestroyRequest{IslandID: 1, SwampName: name})
	return err
}

// reload returns which of the keys 0..n-1 exist in the swamp (fresh engine).
func (e *env) reload(name string, n int) []int {
	var out []int
	ex, err := e.srv.GW.IsSwampExist(context.Background(), &hydrapb.IsSwampExistRequest{IslandID: 1, SwampName: name})
	if err != nil || ex == nil || !ex.IsExist {
		return out
	}
	keys := make([]string, n)
	for i := range keys {
		keys[i] = key(i)
	}
	resp, err := e.srv.GW.AreKeysExist(context.Background(), &hydrapb.AreKeysExistRequest{IslandID: 1, SwampName: name, Keys: keys})
	if err != nil || resp == nil {
		return out
	}
	for ks, ex := range resp.Results {
		if ex {
			var k int
			fmt.Sscanf(ks, "k%d", &k)
			out = append(out, k)
		}
	}
	sort.Ints(out)
	return out
}

func (e *env) instID(name string) int64 {
	o := hydra.VerifMapEntry(e.srv.Zeus.GetHydra(), rig.Name(name).Get())
	if o == nil {
		return 0
	}
	return verifhook.ID(o)
}

const settle = 300 * time.Millisecond

// witness (i): W1 deletes the last record and decides to auto-destroy while W2 inserts.
func (e *env) witnessAutoDestroy(name string, wi int) caseRec {
	c := caseRec{kind: "witness_autodestroy", name: name, wi: wi, flags: 1, nontriv: true}
	ctx := context.Background()
	st, _ := e.set(ctx, name, 0)
	c.script = append(c.script, "set k0 -> "+st)
	c.acks = append(c.acks, ack{false, 0})
	if wi > 0 {
		time.Sleep(time.Duration(wi)*time.Second + 300*time.Millisecond) // let the write ticker flush k0
	}
	ctl := lib.New()
	ctl.Park["swamp.autodestroy"] = true
	ctl.Install()
	var dst string
	ctl.Spawn(1, func() { dst, _ = e.del(ctx, name, 0) })
	ctl.Settle(settle)
	s1, site, _ := ctl.State(1)
	c.script = append(c.script, fmt.Sprintf("delete k0 parked=%v at %s", s1 == lib.Parked, site))
	var sst string
	ctl.Spawn(2, func() { sst, _ = e.set(ctx, name, 1) })
	ctl.Settle(settle)
	s2, _, _ := ctl.State(2)
	c.script = append(c.script, fmt.Sprintf("set k1 finished=%v -> %s", s2 == lib.Finished, sst))
	ctl.Step(1, 2*time.Second)
	s1, _, _ = ctl.State(1)
	c.script = append(c.script, fmt.Sprintf("delete released finished=%v -> %s", s1 == lib.Finished, dst))
	ctl.Uninstall()
	if dst == "DELETED" {
		c.acks = append(c.acks, ack{true, 0})
	}
	if s2 == lib.Finished && (sst == "NEW" || sst == "UPDATED") {
		c.acks = append(c.acks, ack{false, 1})
	}
	c.modelOp = []string{"witness_i"}
	return c
}

// witness (ii): the idle listener read lastInteractionTime, a Set summons the swamp (refresh),
// the listener passes its checks with the stale value and closes; the Set then writes into the
// closed instance.
func (e *env) witnessIdleClose(name string, wi int) caseRec {
	c := caseRec{kind: "witness_idleclose", name: name, wi: wi, flags: 2, nontriv: true}
	ctx := context.Background()
	st, _ := e.set(ctx, name, 0)
	c.script = append(c.script, "set k0 -> "+st)
	c.acks = append(c.acks, ack{false, 0})
	id := e.instID(name)
	// place the last interaction half a second after the start of the listener's 1 s ticker, so
	// that the ticks are far away from the idle threshold (1 s idle + 1 s gap): 1.5 s / 2.5 s
	time.Sleep(500 * time.Millisecond)
	e.set(ctx, name, 0)
	last := time.Now()
	ctl := lib.New()
	ctl.Park["swamp.idle.read"] = true
	ctl.Park["gateway.set.summoned"] = true
	ctl.Adopt("swamp.idle.read", func(a []int64) bool { return len(a) > 0 && a[0] == id }, 9)
	ctl.Foreign = os.Getenv("C16_DEBUG") != ""
	ctl.Install()
	// let the listener tick until the tick at which the idle condition holds
	deadline := time.Now().Add(8 * time.Second)
	ok := false
	for time.Now().Before(deadline) {
		s9, _, _ := ctl.State(9)
		if s9 == lib.Parked {
			if time.Since(last) > 2150*time.Millisecond {
				ok = true
				break
			}
			ctl.Step(9, 10*time.Millisecond)
		}
		time.Sleep(5 * time.Millisecond)
	}
	c.script = append(c.script, fmt.Sprintf("listener parked after stale read=%v idle=%v", ok, time.Since(last).Round(time.Millisecond)))
	if os.Getenv("C16_DEBUG") != "" {
		for _, ev := range ctl.Log() {
			c.script = append(c.script, fmt.Sprintf("   ev t%d %s %v", ev.Tid, ev.Site, ev.Args))
		}
	}
	var sst string
	ctl.Spawn(2, func() { sst, _ = e.set(ctx, name, 1) })
	ctl.Settle(settle)
	s2, site, _ := ctl.State(2)
	c.script = append(c.script, fmt.Sprintf("set k1 parked=%v at %s", s2 == lib.Parked, site))
	// the listener continues: lock, checks, Close
	n := ctl.LogLen()
	ctl.Step(9, settle)
	time.Sleep(50 * time.Millisecond)
	closed := false
	for _, ev := range ctl.Log()[n:] {
		if ev.Site == "swamp.idle.close" {
			closed = true
		}
	}
	c.script = append(c.script, fmt.Sprintf("listener closed the instance=%v map entry now=%d (was %d)", closed, e.instID(name), id))
	ctl.Step(2, 2*time.Second)
	s2, _, _ = ctl.State(2)
	c.script = append(c.script, fmt.Sprintf("set k1 finished=%v -> %s", s2 == lib.Finished, sst))
	ctl.Uninstall()
	if s2 == lib.Finished && (sst == "NEW" || sst == "UPDATED") {
		c.acks = append(c.acks, ack{false, 1})
	}
	if !closed {
		c.flags = 0
	}
	c.modelOp = []string{"witness_ii"}
	return c
}

// serial: requests one after the other on one swamp (no lifecycle step inside a request)
func (e *env) serial(name string, wi int, rng *common.Rng, idleGap bool) caseRec {
	c := caseRec{kind: "serial", name: name, wi: wi}
	if idleGap {
		c.kind = "serial_idle"
	}
	ctx := context.Background()
	n := 6 + rng.Intn(9)
	for j := 0; j < n; j++ {
		k := rng.Intn(6)
		if rng.Chance(65) {
			st, err := e.set(ctx, name, k)
			c.script = append(c.script, fmt.Sprintf("set k%d -> %s", k, st))
			if err == nil && (st == "NEW" || st == "UPDATED" || st == "NOTHING_CHANGED") {
				c.acks = append(c.acks, ack{false, k})
			}
		} else {
			st, err := e.del(ctx, name, k)
			c.script = append(c.script, fmt.Sprintf("delete k%d -> %s", k, st))
			if err == nil && st == "DELETED" {
				c.acks = append(c.acks, ack{true, k})
				c.nontriv = true
			}
		}
		if idleGap && j == n/2 {
			time.Sleep(3500 * time.Millisecond) // the idle listener closes the swamp here
			c.script = append(c.script, fmt.Sprintf("idle 3.5 s, instance in map afterwards: %v", e.instID(name) != 0))
			c.nontriv = true
		}
	}
	return c
}

// stress: writers (each owns its keys) on one swamp with 1 s idle close and 1 s write interval;
// an anchor key is never deleted, so the swamp never becomes empty (no auto-destroy here: that
// race is covered by the forced witness, a free-running hit could not be classified)
func (e *env) stress(name string, rng *common.Rng, dur time.Duration) caseRec {
	c := caseRec{kind: "stress", name: name, wi: 1, nontriv: true}
	ctx := context.Background()
	e.set(ctx, name, 0)
	c.acks = append(c.acks, ack{false, 0})
	var mu sync.Mutex
	var wg sync.WaitGroup
	stop := time.Now().Add(dur)
	for g := 0; g < 4; g++ {
		wg.Add(1)
		r := rng.Fork(fmt.Sprintf("g%d", g))
		go func(g int) {
			defer wg.Done()
			var mine []ack
			for time.Now().Before(stop) {
				k := 1 + g*2 + r.Intn(2)
				if r.Chance(70) {
					if st, err := e.set(ctx, name, k); err == nil && st != "" {
						mine = append(mine, ack{false, k})
					}
				} else {
					if st, err := e.del(ctx, name, k); err == nil && st == "DELETED" {
						mine = append(mine, ack{true, k})
					}
				}
				if r.Chance(8) {
					time.Sleep(time.Duration(2200+r.Intn(600)) * time.Millisecond) // let it idle-close
				} else {
					time.Sleep(time.Duration(r.Intn(40)) * time.Millisecond)
				}
			}
			mu.Lock()
			c.acks = append(c.acks, mine...) // keys are owned per goroutine: per-key order is preserved
			mu.Unlock()
		}(g)
	}
	wg.Wait()
	c.script = append(c.script, fmt.Sprintf("%d acknowledged operations by 4 writers", len(c.acks)))
	return c
}

func main() {
	a := common.ParseArgs()
	run := common.NewRun(a, "C16", "HV.Conc.Lifecycle")
	run.Meta.Rule = "a case = one persistent V2 swamp of a real in-process engine driven through the gateway: the acknowledged set/delete operations, and the key set found after GracefulStop + a fresh engine on the same root. Forced witnesses: the two refutation schedules of Conc/Lifecycle.v forced through the hooks swamp.autodestroy / swamp.idle.read / gateway.set.summoned in immediate-write and 1 s-interval mode (the model predicts the reloaded set). Serial: random request sequences without/with an idle close in the middle. Stress: 4 writers per swamp with idle closes. Non-trivial = a forced race, an acknowledged delete, or an idle close happened"
	rng := common.NewRng(a.Seed, "C16")
	rig.Quiet()
	root, _ := os.MkdirTemp("", "c16")
	defer os.RemoveAll(root)
	srv := rig.Start(root, true)
	reg := func(s *rig.Server) {
		s.Register("c16a/*/*", false, 3600, 0, 65536) // immediate write, no idle close
		s.Register("c16b/*/*", false, 3600, 1, 65536) // 1 s write interval, no idle close
		s.Register("c16c/*/*", false, 1, 0, 65536)    // immediate write, idle close after 1 s
		s.Register("c16d/*/*", false, 1, 1, 65536)    // 1 s write interval, idle close after 1 s
	}
	reg(srv)
	e := &env{srv: srv}
	var cases []caseRec
	model := map[string]int{}
	w := e.witnessAutoDestroy("c16a/w/i0", 0)
	model[w.name] = 1
	cases = append(cases, w)
	w = e.witnessAutoDestroy("c16b/w/i1", 1)
	model[w.name] = 2
	cases = append(cases, w)
	w = e.witnessIdleClose("c16c/w/ii0", 0)
	if w.flags == 2 {
		model[w.name] = 3
	}
	cases = append(cases, w)
	w = e.witnessIdleClose("c16d/w/ii1", 1)
	if w.flags == 2 {
		model[w.name] = 4
	}
	cases = append(cases, w)
	nser, nidle, nstress, sdur := 160, 24, 6, 7*time.Second
	if a.Tier == "thorough" {
		nser, nidle, nstress, sdur = 1200, 120, 16, 60*time.Second
	}
	ser := make([]caseRec, nser+nidle+nstress)
	rngs := make([]*common.Rng, len(ser))
	for i := range rngs {
		rngs[i] = rng.Fork(fmt.Sprintf("c%d", i))
	}
	common.Parallel(len(ser), 32, func(i int) {
		switch {
		case i < nser:
			pat, wi := "c16a", 0
			if i%2 == 1 {
				pat, wi = "c16b", 1
			}
			ser[i] = e.serial(fmt.Sprintf("%s/s/n%d", pat, i), wi, rngs[i], false)
		case i < nser+nidle:
			pat, wi := "c16c", 0
			if i%2 == 1 {
				pat, wi = "c16d", 1
			}
			ser[i] = e.serial(fmt.Sprintf("%s/i/n%d", pat, i), wi, rngs[i], true)
		default:
			ser[i] = e.stress(fmt.Sprintf("c16d/x/n%d", i), rngs[i], sdur)
		}
	})
	cases = append(cases, ser...)
	// graceful stop, fresh engine on the same root, compare
	e.srv = srv.Restart()
	reg(e.srv)
	for _, c := range cases {
		got := e.reload(c.name, 12)
		as := make([]string, len(c.acks))
		for i, x := range c.acks {
			wflag := 1
			if x.Del {
				wflag = 0
			}
			as[i] = fmt.Sprintf("(Pa %d %d)", wflag, x.Key)
		}
		gs := make([]string, len(got))
		for i, k := range got {
			gs[i] = fmt.Sprintf("%d", k)
		}
		term := fmt.Sprintf("(Cc %s %s %d %d)", common.List(as), common.List(gs), c.flags, model[c.name])
		d := map[string]interface{}{"kind": c.kind, "swamp": c.name, "write_interval_s": c.wi, "acks": fmt.Sprint(c.acks),
			"reloaded": got, "forced_race": c.flags}
		if len(c.script) <= 40 {
			d["script"] = c.script
		}
		run.Add(term, d, c.nontriv)
		run.Hist(c.kind)
		run.HistN("acked_ops", len(c.acks))
		if strings.HasPrefix(c.kind, "witness") && c.flags == 0 {
			run.Hist("witness_not_forced")
		}
	}
	e.srv.Stop()
	run.Meta.Traces = run.Meta.Evaluations
	run.Finish("check_all")
}
