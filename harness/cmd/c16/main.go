// c16: acknowledged writes survive eviction, auto-destroy and shutdown — correspondence check
// against Conc/Lifecycle.v (whole lifecycle, witnesses) and Conc/Buffer.v (write buffer).
//
// Every case is one persistent V2 swamp of a real in-process engine driven through the gateway.
// Every write carries a fresh value, so a lost UPDATE is as visible as a lost insert.
//   - forced (one shared schedule controller, all scenarios in parallel):
//       witnesses    the two refutation schedules of Conc/Lifecycle.v (known findings);
//       flush window a Save / Delete sequence is acknowledged while a flush (write tick or the
//                    write-through of an immediate-write Save) is parked before collecting,
//                    after dequeuing (entry of chronicler.Write) or after writing its batch; the hook events and the queue
//                    length after every step are replayed by Conc/Buffer.v (trace acceptance)
//                    and the model predicts the reloaded content;
//       close in window  Close() of the instance (GracefulStop does not wait for a running flush)
//                    inside the flush window, after Saves the running flush has not collected;
//       delete window a Set / a second delete is acknowledged while a Delete or ShiftByKeys of the
//                    last record(s) is parked at the begin / end of swamp.deleteHandler;
//       teardown     a Set arrives while Destroy / auto-destroy / idle Close of the previous
//                    instance is parked between the context cancel and the close callback
//                    (close event arriving late), then another Set;
//   - serial: random request sequences without / with an idle close in the middle;
//   - stress: writers and deleters with idle closes and auto-destroys; a lost write is
//     classified from the hook log (which lifecycle decision overlapped the request).
// After all cases: GracefulStop, fresh engine on the same root, and for every swamp the reloaded
// key -> value map is compared (in Coq) with the acknowledged operations.
package main

import (
	"context"
	"fmt"
	"os"
	"sort"
	"strings"
	"sync"
	"sync/atomic"
	"time"

	"github.com/hydraide/hydraide/app/core/hydra"
	"github.com/hydraide/hydraide/app/core/hydra/swamp"
	"github.com/hydraide/hydraide/app/verifhook"
	hydrapb "github.com/hydraide/hydraide/sdk/go/hydraidego/v3/hydraidepbgo"
	"verif/harness/common"
	lib "verif/harness/lib/c18"
	"verif/harness/rig"
)

type ack struct {
	Del bool
	Key int
	Val int64
}

type caseRec struct {
	kind    string
	name    string
	wi      int
	acks    []ack
	flags   int // forced/observed race: 1 auto-destroy decision vs insert, 2 idle close between summon and vigil
	model   int // Conc/Lifecycle.v witness selector
	script  []string
	bprogs  []string // Conc/Buffer.v thread programs (Pb ...)
	btrace  []string // observed flush-window trace (Ob ...)
	nontriv bool
	hung    string
}

type env struct {
	srv  *rig.Server
	ctl  *lib.Ctl
	tids int64
}

func (e *env) tid() int { return int(atomic.AddInt64(&e.tids, 1)) }

func key(k int) string { return fmt.Sprintf("k%d", k) }

func (e *env) set(name string, k int, v int64) string {
	resp, err := e.srv.GW.Set(context.Background(), &hydrapb.SetRequest{Swamps: []*hydrapb.SwampRequest{{
		IslandID: 1, SwampName: name, CreateIfNotExist: true, Overwrite: true,
		KeyValues: []*hydrapb.KeyValuePair{{Key: key(k), Int64Val: &v}}}}})
	if err != nil || resp == nil || len(resp.Swamps) == 0 || len(resp.Swamps[0].KeysAndStatuses) == 0 {
		return ""
	}
	return resp.Swamps[0].KeysAndStatuses[0].Status.String()
}

func okSet(st string) bool { return st == "NEW" || st == "UPDATED" }

func (e *env) del(name string, k int) string {
	resp, err := e.srv.GW.Delete(context.Background(), &hydrapb.DeleteRequest{Swamps: []*hydrapb.DeleteRequest_SwampKeys{{
		IslandID: 1, SwampName: name, Keys: []string{key(k)}}}})
	if err != nil || resp == nil || len(resp.Responses) == 0 {
		return ""
	}
	r := resp.Responses[0]
	if r.ErrorCode != nil || len(r.KeyStatuses) == 0 {
		return "NOSWAMP"
	}
	return r.KeyStatuses[0].Status.String()
}

// shift removes the key through ShiftByKeys (CloneAndDeleteTreasuresByKeys); true = it was returned.
func (e *env) shift(name string, k int) bool {
	resp, err := e.srv.GW.ShiftByKeys(context.Background(), &hydrapb.ShiftByKeysRequest{IslandID: 1, SwampName: name, Keys: []string{key(k)}})
	return err == nil && resp != nil && len(resp.Treasures) > 0
}

func (e *env) destroy(name string) {
	e.srv.GW.Destroy(context.Background(), &hydrapb.DestroyRequest{IslandID: 1, SwampName: name})
}

const nkeys = 16

// reload: key -> value of the swamp on the fresh engine
func (e *env) reload(name string) map[int]int64 {
	out := map[int]int64{}
	ex, err := e.srv.GW.IsSwampExist(context.Background(), &hydrapb.IsSwampExistRequest{IslandID: 1, SwampName: name})
	if err != nil || ex == nil || !ex.IsExist {
		return out
	}
	keys := make([]string, nkeys)
	for i := range keys {
		keys[i] = key(i)
	}
	resp, err := e.srv.GW.Get(context.Background(), &hydrapb.GetRequest{Swamps: []*hydrapb.GetSwamp{{IslandID: 1, SwampName: name, Keys: keys}}})
	if err != nil || resp == nil || len(resp.Swamps) == 0 {
		return out
	}
	for _, t := range resp.Swamps[0].Treasures {
		if t.IsExist && t.Int64Val != nil {
			var k int
			fmt.Sscanf(t.Key, "k%d", &k)
			out[k] = *t.Int64Val
		}
	}
	return out
}

func (e *env) inst(name string) swamp.Swamp {
	return hydra.VerifMapEntry(e.srv.Zeus.GetHydra(), rig.Name(name).Get())
}

func (e *env) instID(name string) int64 {
	if o := e.inst(name); o != nil {
		return verifhook.ID(o)
	}
	return 0
}

// generous: every wait returns as soon as the thread has settled; the limit only matters on an
// overloaded machine or for a real hang
const stepTO = 15 * time.Second

// runToEnd steps a thread through every park site until it finishes (false = it did not).
func (e *env) runToEnd(tid int, timeout time.Duration) bool {
	deadline := time.Now().Add(timeout)
	for time.Now().Before(deadline) {
		switch e.ctl.WaitThread(tid, 20*time.Millisecond) {
		case lib.Finished:
			return true
		case lib.Parked:
			e.ctl.StepThread(tid, 20*time.Millisecond)
		}
	}
	return false
}

// runAllToEnd steps several threads through every park site until all have finished.
func (e *env) runAllToEnd(tids []int, timeout time.Duration) bool {
	deadline := time.Now().Add(timeout)
	for time.Now().Before(deadline) {
		done := 0
		for _, t := range tids {
			switch e.ctl.WaitThread(t, 2*time.Millisecond) {
			case lib.Finished:
				done++
			case lib.Parked:
				e.ctl.StepThread(t, 2*time.Millisecond)
			}
		}
		if done == len(tids) {
			return true
		}
	}
	return false
}

// runUntil steps a thread until it is parked at site (true) or finished / timed out (false).
func (e *env) runUntil(tid int, site string, timeout time.Duration) bool {
	deadline := time.Now().Add(timeout)
	for time.Now().Before(deadline) {
		st := e.ctl.WaitThread(tid, 20*time.Millisecond)
		if st == lib.Finished {
			return false
		}
		if st == lib.Parked {
			if _, s, _ := e.ctl.State(tid); s == site {
				return true
			}
			e.ctl.StepThread(tid, 20*time.Millisecond)
		}
	}
	return false
}

// waitParked waits until an (adopted) thread exists and is parked.
func (e *env) waitParked(tid int, timeout time.Duration) (bool, string) {
	deadline := time.Now().Add(timeout)
	for time.Now().Before(deadline) {
		if st, s, _ := e.ctl.State(tid); st == lib.Parked {
			return true, s
		}
		time.Sleep(200 * time.Microsecond)
	}
	return false, ""
}

// ---- witnesses of Conc/Lifecycle.v -------------------------------------------------------------

func (e *env) witnessAutoDestroy(name string, wi int) caseRec {
	c := caseRec{kind: "witness_autodestroy", name: name, wi: wi, flags: 1, nontriv: true, model: 1 + wi}
	t0, t1, t2 := e.tid(), e.tid(), e.tid()
	var st string
	e.ctl.Spawn(t0, func() { st = e.set(name, 0, 1) })
	e.runToEnd(t0, stepTO)
	c.script = append(c.script, "set k0=1 -> "+st)
	c.acks = append(c.acks, ack{false, 0, 1})
	if wi > 0 {
		time.Sleep(time.Duration(wi)*time.Second + 300*time.Millisecond)
	}
	var dst, sst string
	e.ctl.Spawn(t1, func() { dst = e.del(name, 0) })
	parked := e.runUntil(t1, "swamp.autodestroy", stepTO)
	c.script = append(c.script, fmt.Sprintf("delete k0 parked at the auto-destroy decision=%v", parked))
	e.ctl.Spawn(t2, func() { sst = e.set(name, 1, 2) })
	fin := e.runToEnd(t2, stepTO)
	c.script = append(c.script, fmt.Sprintf("set k1=2 finished=%v -> %s", fin, sst))
	e.runToEnd(t1, stepTO)
	c.script = append(c.script, "delete released -> "+dst)
	if dst == "DELETED" {
		c.acks = append(c.acks, ack{true, 0, 0})
	}
	if fin && okSet(sst) {
		c.acks = append(c.acks, ack{false, 1, 2})
	}
	if !parked {
		c.flags, c.model = 0, 0
	}
	return c
}

func (e *env) witnessIdleClose(name string, wi int) caseRec {
	c := caseRec{kind: "witness_idleclose", name: name, wi: wi, flags: 2, nontriv: true, model: 3 + wi}
	t0, tl, t2 := e.tid(), e.tid(), e.tid()
	var st string
	e.ctl.Spawn(t0, func() { st = e.set(name, 0, 1) })
	e.runToEnd(t0, stepTO)
	c.script = append(c.script, "set k0=1 -> "+st)
	c.acks = append(c.acks, ack{false, 0, 1})
	id := e.instID(name)
	// place the last interaction half a second after the start of the listener's 1 s ticker, so
	// that the ticks are far away from the idle threshold (1 s idle + 1 s gap): 1.5 s / 2.5 s
	time.Sleep(500 * time.Millisecond)
	t0b := e.tid()
	e.ctl.Spawn(t0b, func() { e.set(name, 0, 2) })
	e.runToEnd(t0b, stepTO)
	c.acks = append(c.acks, ack{false, 0, 2})
	last := time.Now()
	e.ctl.Adopt("swamp.idle.read", func(a []int64) bool { return len(a) > 0 && a[0] == id }, tl)
	deadline := time.Now().Add(8 * time.Second)
	ok := false
	for time.Now().Before(deadline) {
		if s, _, _ := e.ctl.State(tl); s == lib.Parked {
			if time.Since(last) > 2150*time.Millisecond {
				ok = true
				break
			}
			e.ctl.StepThread(tl, 5*time.Millisecond)
		}
		time.Sleep(2 * time.Millisecond)
	}
	c.script = append(c.script, fmt.Sprintf("listener parked after its read=%v idle=%v", ok, time.Since(last).Round(time.Millisecond)))
	var sst string
	e.ctl.Spawn(t2, func() { sst = e.set(name, 1, 3) })
	p2 := e.runUntil(t2, "gateway.set.summoned", stepTO)
	c.script = append(c.script, fmt.Sprintf("set k1=3 parked between SummonSwamp and BeginVigil=%v", p2))
	// the listener continues: lock, checks, Close (it parks at the close callback and is stepped through)
	closed := false
	if ok {
		closed = e.runUntil(tl, "swamp.callback", stepTO)
		if closed {
			e.ctl.StepThread(tl, 100*time.Millisecond)
			time.Sleep(20 * time.Millisecond)
		}
	}
	c.script = append(c.script, fmt.Sprintf("listener closed the instance=%v, instance in map now=%d (was %d)", closed, e.instID(name), id))
	fin := e.runToEnd(t2, stepTO)
	c.script = append(c.script, fmt.Sprintf("set k1 finished=%v -> %s", fin, sst))
	if fin && okSet(sst) {
		c.acks = append(c.acks, ack{false, 1, 3})
	}
	if !closed || !p2 {
		c.flags, c.model = 0, 0
	}
	return c
}

// ---- flush window: trace acceptance against Conc/Buffer.v ---------------------------------------

type opSpec struct {
	Del   bool
	K     int
	Close bool // swamp.Close() on the instance (what GracefulStop does), not a request
}

func (o opSpec) String() string {
	if o.Close {
		return "Close()"
	}
	if o.Del {
		return fmt.Sprintf("delete k%d", o.K)
	}
	return fmt.Sprintf("set k%d", o.K)
}

// park sites inside a flush and the observation kind they stand for (7 = before the collect: no model step)
var flushSites = map[string]int{"swamp.flush.begin": 7, "chronicler.write.begin": 5, "swamp.flush.wrote": 3}

func (e *env) flushWindow(name string, wi int, park string, ops, post []opSpec) caseRec {
	c := caseRec{kind: "flush_window", name: name, wi: wi, nontriv: true}
	th := 0
	if wi == 0 {
		th = 1
	}
	var obj swamp.Swamp
	var val int64
	closed := false
	mtid := 0 // model thread number
	qlen := func() int {
		if obj == nil {
			return 1000
		}
		return obj.CountTreasuresWaitingForWriter()
	}
	ob := func(t, kind, a int) {
		c.btrace = append(c.btrace, fmt.Sprintf("(Buffer.Ob %d %d %d %d)", t, kind, a, qlen()))
	}
	// advance steps a thread through park sites that are not flush sites; it returns when the thread
	// is parked at a flush site or has finished
	advance := func(tid int) int {
		deadline := time.Now().Add(stepTO)
		for time.Now().Before(deadline) {
			st := e.ctl.WaitThread(tid, 20*time.Millisecond)
			if st == lib.Finished {
				return st
			}
			if st == lib.Parked {
				if _, site, _ := e.ctl.State(tid); flushSites[site] != 0 {
					return st
				}
				e.ctl.StepThread(tid, 20*time.Millisecond)
			}
		}
		return -1
	}
	// follow reports every flush site the thread parks at; it stops (thread still parked) at
	// [until], or when the thread has finished (until = ""). resume: the thread is parked at a site
	// that was already reported.
	follow := func(tid, mt int, until string, resume bool) bool {
		if resume {
			e.ctl.StepThread(tid, 20*time.Millisecond)
		}
		deadline := time.Now().Add(stepTO)
		for time.Now().Before(deadline) {
			st := advance(tid)
			if st == lib.Finished {
				return until == ""
			}
			if st != lib.Parked {
				return false
			}
			_, site, args := e.ctl.State(tid)
			k := flushSites[site]
			a := 0
			if k == 5 && len(args) > 0 {
				a = int(args[0])
			}
			if k != 7 {
				ob(mt, k, a)
			}
			c.script = append(c.script, fmt.Sprintf("  t%d %s q=%d", mt, site, qlen()))
			if site == until {
				return true
			}
			e.ctl.StepThread(tid, 20*time.Millisecond)
		}
		return false
	}
	// one request as a thread: its Save/Delete step, then (immediate-write Save) its inline flush,
	// step by step to the end
	request := func(o opSpec, controlled bool) {
		mt := mtid
		mtid++
		tid := e.tid()
		var st string
		var v int64
		if o.Close {
			// the close-write is one more flusher of this instance; afterwards the instance is gone
			c.bprogs = append(c.bprogs, "(Pb 3 0 0 0)")
			target := obj
			e.ctl.Spawn(tid, func() {
				target.StopSendingInformation()
				target.StopSendingEvents()
				target.Close()
			})
			state := advance(tid)
			if state == lib.Parked {
				if !follow(tid, mt, "", false) {
					c.hung = "Close did not finish"
				}
			} else if state != lib.Finished {
				c.hung = "Close did not settle"
			}
			ob(mt, 4, 0)
			closed = true
			c.script = append(c.script, fmt.Sprintf("Close() of the instance, instance in map afterwards=%v", e.instID(name) != 0))
			return
		}
		if o.Del {
			c.bprogs = append(c.bprogs, fmt.Sprintf("(Pb 2 %d 0 0)", o.K))
			e.ctl.Spawn(tid, func() { st = e.del(name, o.K) })
		} else {
			val++
			v = val
			c.bprogs = append(c.bprogs, fmt.Sprintf("(Pb 1 %d %d %d)", o.K, v, th))
			e.ctl.Spawn(tid, func() { st = e.set(name, o.K, v) })
		}
		if !controlled {
			e.runToEnd(tid, stepTO)
			c.btrace = append(c.btrace, fmt.Sprintf("(Buffer.Ob %d 0 0 1000)", mt))
			if !o.Del && th == 1 {
				c.btrace = append(c.btrace, fmt.Sprintf("(Buffer.Ob %d 3 0 1000)", mt))
			}
		} else {
			state := advance(tid)
			if obj == nil {
				obj = e.inst(name)
			}
			ob(mt, 0, 0)
			if state == lib.Parked {
				if !follow(tid, mt, "", false) {
					c.hung = "request did not finish"
				}
				ob(mt, 4, 0)
			} else if state != lib.Finished {
				c.hung = "request did not settle"
			} else if !o.Del && th == 1 {
				ob(mt, 4, 0) // write-through found an empty queue
			}
		}
		c.script = append(c.script, fmt.Sprintf("%s -> %s", o, st))
		if o.Del && st == "DELETED" {
			c.acks = append(c.acks, ack{true, o.K, 0})
		}
		if !o.Del && okSet(st) {
			c.acks = append(c.acks, ack{false, o.K, v})
		}
	}
	// the flusher whose window is used: the write-through of the first Save (wi = 0) or the write tick
	if wi == 0 {
		fmt0 := mtid
		mtid++
		ftid := e.tid()
		val++
		v := val
		c.bprogs = append(c.bprogs, fmt.Sprintf("(Pb 1 0 %d 1)", v))
		var st string
		e.ctl.Spawn(ftid, func() { st = e.set(name, 0, v) })
		if advance(ftid) != lib.Parked {
			c.hung = "first save did not reach its write-through"
			return c
		}
		obj = e.inst(name)
		ob(fmt0, 0, 0)
		if !follow(ftid, fmt0, park, false) {
			c.hung = "first save did not reach " + park
			return c
		}
		nacks := len(c.acks)
		for _, o := range ops {
			request(o, true)
		}
		if !follow(ftid, fmt0, "", true) {
			c.hung = "first save did not finish"
		}
		ob(fmt0, 4, 0)
		c.script = append(c.script, "set k0 (first) -> "+st)
		if okSet(st) {
			// it was saved before the operations inside its window although acknowledged after them
			c.acks = append(c.acks[:nacks:nacks], append([]ack{{false, 0, v}}, c.acks[nacks:]...)...)
		}
	} else {
		// the write tick of this swamp becomes a logical thread the first time it finds something to
		// write (the rule is registered before the first Save, so no tick can slip through)
		ftid := e.tid()
		e.ctl.Adopt("swamp.flush.begin", func(a []int64) bool {
			o := e.inst(name)
			return o != nil && len(a) > 0 && verifhook.ID(o) == a[0]
		}, ftid)
		request(opSpec{K: 0}, true)
		if obj == nil {
			c.hung = "no instance"
			return c
		}
		fmt0 := mtid
		mtid++
		c.bprogs = append(c.bprogs, "(Pb 3 0 0 0)")
		if ok, _ := e.waitParked(ftid, 2500*time.Millisecond); !ok {
			c.hung = "write tick did not arrive"
			return c
		}
		if !follow(ftid, fmt0, park, false) {
			c.hung = "write tick did not reach " + park
			return c
		}
		for _, o := range ops {
			request(o, true)
		}
		if park != "swamp.flush.wrote" && !follow(ftid, fmt0, "swamp.flush.wrote", true) {
			c.hung = "write tick did not finish"
		}
		e.ctl.StepThread(ftid, 5*time.Millisecond)
		time.Sleep(30 * time.Millisecond) // Sync
		ob(fmt0, 4, 0)
		// from here on the ticker goroutine runs freely (it stays a logical thread: release it whenever it parks)
		go func() {
			for i := 0; i < 1500; i++ {
				e.ctl.StepThread(ftid, time.Millisecond)
				time.Sleep(5 * time.Millisecond)
			}
		}()
	}
	if closed {
		// the instance was closed inside the window: later requests get a new instance (not part of
		// the buffer model of the closed one); one acknowledged Set on a fresh key
		tid := e.tid()
		var st string
		e.ctl.Spawn(tid, func() { st = e.set(name, 7, 7000) })
		if e.runToEnd(tid, stepTO) && okSet(st) {
			c.acks = append(c.acks, ack{false, 7, 7000})
		}
		c.script = append(c.script, "set k7=7000 (after the close) -> "+st)
		c.kind = "flush_window_close"
	} else {
		for _, o := range post {
			request(o, wi == 0)
		}
	}
	// delete + re-create of a key inside the window (known finding: the old record object is
	// written after the new one)
	deleted := map[int]bool{}
	for _, o := range ops {
		if o.Del {
			deleted[o.K] = true
		} else if deleted[o.K] {
			c.flags = 3
		}
	}
	return c
}

// ---- teardown: a Set arrives while the previous instance is between cancel and callback ------------

func (e *env) teardown(name string, wi int, closer string, site string) caseRec {
	c := caseRec{kind: "teardown_" + closer, name: name, wi: wi, nontriv: true}
	t0, tc, tw, t3 := e.tid(), e.tid(), e.tid(), e.tid()
	var st string
	e.ctl.Spawn(t0, func() { st = e.set(name, 0, 1) })
	e.runToEnd(t0, stepTO)
	c.script = append(c.script, "set k0=1 -> "+st)
	c.acks = append(c.acks, ack{false, 0, 1})
	id := e.instID(name)
	var dst string
	switch closer {
	case "destroy":
		e.ctl.Spawn(tc, func() { e.destroy(name) })
		c.acks = append(c.acks, ack{true, 0, 0})
	case "autodestroy":
		e.ctl.Spawn(tc, func() { dst = e.del(name, 0) })
		c.acks = append(c.acks, ack{true, 0, 0})
	case "idleclose":
		e.ctl.Adopt("swamp.idle.read", func(a []int64) bool { return len(a) > 0 && a[0] == id }, tc)
	}
	parked := false
	if closer == "idleclose" {
		deadline := time.Now().Add(8 * time.Second)
		for time.Now().Before(deadline) && !parked {
			if s, sname, _ := e.ctl.State(tc); s == lib.Parked {
				if sname == site {
					parked = true
					break
				}
				e.ctl.StepThread(tc, 5*time.Millisecond)
			}
			time.Sleep(2 * time.Millisecond)
		}
	} else {
		parked = e.runUntil(tc, site, stepTO)
	}
	c.script = append(c.script, fmt.Sprintf("%s parked at %s=%v", closer, site, parked))
	var sst string
	e.ctl.Spawn(tw, func() { sst = e.set(name, 1, 2) })
	// give the request time to get through if it (wrongly) can
	early := false
	deadline := time.Now().Add(150 * time.Millisecond)
	for time.Now().Before(deadline) {
		s := e.ctl.WaitThread(tw, 5*time.Millisecond)
		if s == lib.Parked {
			e.ctl.StepThread(tw, 5*time.Millisecond)
		}
		if s == lib.Finished {
			early = true
			break
		}
	}
	c.script = append(c.script, fmt.Sprintf("set k1=2 finished while the teardown is parked=%v", early))
	if closer == "idleclose" {
		// the adopted listener goroutine never "finishes": one step takes it past the callback. (Do
		// not wait here: the request below must not sit between SummonSwamp and BeginVigil of the NEW
		// instance long enough for that instance to idle-close - that is the known race (ii).)
		e.ctl.StepThread(tc, 20*time.Millisecond)
	} else {
		e.runAllToEnd([]int{tc, tw}, stepTO)
	}
	c.script = append(c.script, "teardown released "+dst)
	fin := e.runToEnd(tw, stepTO)
	c.script = append(c.script, fmt.Sprintf("set k1=2 finished=%v -> %s", fin, sst))
	if fin && okSet(sst) {
		c.acks = append(c.acks, ack{false, 1, 2})
	}
	if !fin {
		c.hung = "set during teardown did not finish"
	}
	var s3 string
	e.ctl.Spawn(t3, func() { s3 = e.set(name, 2, 3) })
	if e.runToEnd(t3, stepTO) && okSet(s3) {
		c.acks = append(c.acks, ack{false, 2, 3})
	}
	c.script = append(c.script, "set k2=3 -> "+s3)
	return c
}

// ---- delete window: requests acknowledged while a delete of the last record(s) is inside deleteHandler ----

// via: "delete" (gateway.Delete -> DeleteTreasure) or "shift" (ShiftByKeys -> CloneAndDeleteTreasuresByKeys);
// site: the deleter is parked at the begin or at the end of swamp.deleteHandler;
// double: the swamp holds two records and a second request deletes the other one meanwhile (both
// deletes see the swamp become empty), otherwise one record and a Set of a new key meanwhile.
func (e *env) deleteWindow(name string, wi int, via, site string, double bool) caseRec {
	c := caseRec{kind: "delete_window", name: name, wi: wi, nontriv: true}
	remove := func(k int) bool {
		if via == "shift" {
			return e.shift(name, k)
		}
		return e.del(name, k) == "DELETED"
	}
	t0 := e.tid()
	e.ctl.Spawn(t0, func() {
		e.set(name, 0, 1)
		if double {
			e.set(name, 1, 2)
		}
	})
	e.runToEnd(t0, stepTO)
	c.acks = append(c.acks, ack{false, 0, 1})
	if double {
		c.acks = append(c.acks, ack{false, 1, 2})
	}
	td, tw := e.tid(), e.tid()
	var d1 bool
	e.ctl.Spawn(td, func() { d1 = remove(0) })
	parked := e.runUntil(td, site, stepTO)
	c.script = append(c.script, fmt.Sprintf("%s k0 parked at %s=%v", via, site, parked))
	var sst string
	var d2 bool
	if double {
		e.ctl.Spawn(tw, func() { d2 = remove(1) })
	} else {
		e.ctl.Spawn(tw, func() { sst = e.set(name, 1, 2) })
	}
	// the second request runs as far as it can (a second delete that empties the swamp waits in
	// Destroy for the vigil of the first)
	fin := false
	deadline := time.Now().Add(300 * time.Millisecond)
	for time.Now().Before(deadline) && !fin {
		st := e.ctl.WaitThread(tw, 5*time.Millisecond)
		if st == lib.Parked {
			e.ctl.StepThread(tw, 5*time.Millisecond)
		}
		fin = st == lib.Finished
	}
	c.script = append(c.script, fmt.Sprintf("second request finished inside the window=%v", fin))
	// both requests are released together: either may have to wait for the other one's vigil
	if !e.runAllToEnd([]int{td, tw}, stepTO) {
		c.hung = "the two requests did not finish"
	}
	if c.hung != "" {
		return c
	}
	c.script = append(c.script, fmt.Sprintf("first %s -> %v, second -> %v %s", via, d1, d2, sst))
	if d1 {
		c.acks = append(c.acks, ack{true, 0, 0})
	}
	if double && d2 {
		c.acks = append(c.acks, ack{true, 1, 0})
	}
	if !double && okSet(sst) {
		c.acks = append(c.acks, ack{false, 1, 2})
	}
	t3 := e.tid()
	var s3 string
	e.ctl.Spawn(t3, func() { s3 = e.set(name, 2, 3) })
	if e.runToEnd(t3, stepTO) && okSet(s3) {
		c.acks = append(c.acks, ack{false, 2, 3})
	}
	c.script = append(c.script, "set k2=3 -> "+s3)
	return c
}

// ---- serial and stress ---------------------------------------------------------------------------

func (e *env) serial(name string, wi int, rng *common.Rng, idleGap bool) caseRec {
	c := caseRec{kind: "serial", name: name, wi: wi}
	if idleGap {
		c.kind = "serial_idle"
	}
	n := 6 + rng.Intn(9)
	var val int64
	for j := 0; j < n; j++ {
		k := rng.Intn(6)
		if rng.Chance(65) {
			val++
			st := e.set(name, k, val)
			c.script = append(c.script, fmt.Sprintf("set k%d=%d -> %s", k, val, st))
			if okSet(st) {
				c.acks = append(c.acks, ack{false, k, val})
			}
		} else {
			st := e.del(name, k)
			c.script = append(c.script, fmt.Sprintf("delete k%d -> %s", k, st))
			if st == "DELETED" {
				c.acks = append(c.acks, ack{true, k, 0})
				c.nontriv = true
			}
		}
		if idleGap && j == n/2 {
			time.Sleep(3500 * time.Millisecond)
			c.script = append(c.script, fmt.Sprintf("idle 3.5 s, instance in map afterwards: %v", e.instID(name) != 0))
			c.nontriv = true
		}
	}
	return c
}

type opRec struct {
	a          ack
	gid        int64
	start, end int64 // sequence numbers of the marker events
	lost       bool
}

// stress: 4 writers per swamp (each owns its keys, so the per-key order is the program order),
// deletes may empty the swamp (auto-destroy), pauses let it idle-close. Returns the case and the
// per-operation records for the classification of lost writes.
func (e *env) stress(name string, rng *common.Rng, dur time.Duration, opSeq *int64) (caseRec, []*opRec) {
	c := caseRec{kind: "stress", name: name, wi: 1, nontriv: true}
	var mu sync.Mutex
	var wg sync.WaitGroup
	var all []*opRec
	stop := time.Now().Add(dur)
	for g := 0; g < 4; g++ {
		wg.Add(1)
		r := rng.Fork(fmt.Sprintf("g%d", g))
		go func(g int) {
			defer wg.Done()
			gid := verifhook.GoID()
			var mine []*opRec
			var val int64 = int64(g) * 1000000
			for time.Now().Before(stop) {
				k := g*2 + r.Intn(2)
				id := atomic.AddInt64(opSeq, 1)
				rec := &opRec{gid: gid}
				verifhook.Point("c16.op.start", id)
				if r.Chance(75) {
					val++
					if st := e.set(name, k, val); okSet(st) {
						rec.a = ack{false, k, val}
						mine = append(mine, rec)
					}
				} else {
					if st := e.del(name, k); st == "DELETED" {
						rec.a = ack{true, k, 0}
						mine = append(mine, rec)
					}
				}
				verifhook.Point("c16.op.end", id)
				rec.start = id
				if r.Chance(6) {
					time.Sleep(time.Duration(2200+r.Intn(600)) * time.Millisecond)
				} else {
					time.Sleep(time.Duration(r.Intn(30)) * time.Millisecond)
				}
			}
			mu.Lock()
			all = append(all, mine...)
			mu.Unlock()
		}(g)
	}
	wg.Wait()
	for _, r := range all {
		c.acks = append(c.acks, r.a)
	}
	c.script = append(c.script, fmt.Sprintf("%d acknowledged operations by 4 writers", len(c.acks)))
	return c, all
}

// classify decides from the hook log which lifecycle decision overlapped a lost write:
// 1 = an auto-destroy decision on the instance the write went to was pending during the request,
// 2 = the idle listener closed that instance between the request's SummonSwamp and its end,
// 0 = neither.
func classify(evs []verifhook.Event, rec *opRec) int {
	// locate the request: markers of its goroutine
	s, t := -1, -1
	for i, ev := range evs {
		if ev.Gid == rec.gid && len(ev.Args) > 0 && ev.Args[0] == rec.start {
			if ev.Site == "c16.op.start" {
				s = i
			}
			if ev.Site == "c16.op.end" {
				t = i
			}
		}
	}
	if s < 0 || t < 0 {
		return 0
	}
	var inst int64
	summoned := -1
	for i := s; i <= t; i++ {
		ev := evs[i]
		if ev.Gid == rec.gid && ev.Site == "gateway.set.summoned" && len(ev.Args) > 0 {
			inst, summoned = ev.Args[0], i
		}
	}
	if inst == 0 {
		return 0
	}
	// auto-destroy decision on inst before the end of the request whose teardown ended after its start
	for i := 0; i <= t; i++ {
		if evs[i].Site == "swamp.autodestroy" && len(evs[i].Args) > 0 && evs[i].Args[0] == inst {
			for j := i; j < len(evs); j++ {
				if evs[j].Site == "swamp.callback.done" && len(evs[j].Args) > 0 && evs[j].Args[0] == inst {
					if j >= s {
						return 1
					}
					break
				}
			}
		}
	}
	// idle close: the close gate of inst lies between the request's summon and its end, and the
	// listener's read came before the summon
	for i := summoned; i <= t; i++ {
		if evs[i].Site == "swamp.idle.close" && len(evs[i].Args) > 0 && evs[i].Args[0] == inst {
			return 2
		}
	}
	return 0
}

func main() {
	a := common.ParseArgs()
	run := common.NewRun(a, "C16", "HV.Conc.LifecycleCheck")
	run.Shard = 60
	run.Meta.Rule = "a case = one persistent V2 swamp of a real in-process engine driven through the gateway (every write a fresh value): the acknowledged operations and the key->value map found after GracefulStop + a fresh engine. Forced: the two Lifecycle.v witnesses; flush-window schedules (operations acknowledged while a write tick / write-through is parked after collect, dequeue or write; hook events and queue length replayed by Buffer.v, which also predicts the reloaded content); teardown schedules (a Set while Destroy / auto-destroy / idle Close is parked between cancel and callback). Serial: random request sequences without/with an idle close. Stress: 4 writers per swamp with deletes, auto-destroys and idle closes, lost writes classified from the hook log. Non-trivial = forced schedule, acknowledged delete, idle close, or stress"
	rng := common.NewRng(a.Seed, "C16")
	rig.Quiet()
	root, _ := os.MkdirTemp("", "c16")
	defer os.RemoveAll(root)
	srv := rig.Start(root, true)
	reg := func(s *rig.Server) {
		s.Register("c16a/*/*", false, 3600, 0, 65536) // immediate write, no idle close
		s.Register("c16b/*/*", false, 3600, 1, 65536) // 1 s write interval, no idle close
		s.Register("c16c/*/*", false, 1, 0, 65536)    // immediate write, idle close after 1 s
		s.Register("c16d/*/*", false, 1, 1, 65536)    // 1 s write interval, idle close after 1 s
	}
	reg(srv)
	e := &env{srv: srv}
	pat := func(wi int, idle bool) string {
		switch {
		case !idle && wi == 0:
			return "c16a"
		case !idle:
			return "c16b"
		case wi == 0:
			return "c16c"
		}
		return "c16d"
	}

	// ---- phase 1: forced scenarios, all in parallel under one controller
	e.ctl = lib.New()
	for _, s := range []string{"swamp.autodestroy", "swamp.idle.read", "gateway.set.summoned", "swamp.flush.begin",
		"chronicler.write.begin", "swamp.flush.wrote", "swamp.destroy.cancelled", "swamp.callback",
		"swamp.deletehandler.begin", "swamp.deletehandler.end", "gateway.set.key"} {
		e.ctl.Park[s] = true
	}
	e.ctl.Keep = func(site string) bool { return !strings.HasPrefix(site, "summon.") }
	e.ctl.Install()
	var scen []func() caseRec
	for wi := 0; wi <= 1; wi++ {
		wi := wi
		scen = append(scen, func() caseRec { return e.witnessAutoDestroy(fmt.Sprintf("%s/w/i%d", pat(wi, false), wi), wi) })
		scen = append(scen, func() caseRec { return e.witnessIdleClose(fmt.Sprintf("%s/w/ii%d", pat(wi, true), wi), wi) })
	}
	opsets := [][]opSpec{
		{{Del: false, K: 0}},                         // update of the key that is being flushed
		{{Del: false, K: 1}},                         // another key
		{{Del: false, K: 0}, {Del: false, K: 0}},             // two updates
		{{Del: false, K: 1}, {Del: true, K: 0}},              // delete of the key that is being flushed
		{{Del: false, K: 1}, {Del: true, K: 1}},              // insert and delete inside the window
		{{Del: false, K: 0}, {Del: false, K: 1}, {Del: false, K: 0}}, // interleaved
		{{Del: false, K: 1}, {Del: true, K: 0}, {Del: false, K: 0}},  // delete and re-create inside the window
	}
	posts := [][]opSpec{nil, {{Del: false, K: 2}}, {{Del: false, K: 0}}}
	n := 0
	for wi := 0; wi <= 1; wi++ {
		for _, park := range []string{"swamp.flush.begin", "chronicler.write.begin", "swamp.flush.wrote"} {
			for oi, ops := range opsets {
				_ = oi
				wi, park, ops, post := wi, park, ops, posts[(n)%len(posts)]
				nm := fmt.Sprintf("%s/f/n%d", pat(wi, false), n)
				n++
				scen = append(scen, func() caseRec { return e.flushWindow(nm, wi, park, ops, post) })
			}
		}
	}
	// a Close() of the instance (what GracefulStop does, it does not wait for a running flush)
	// inside the flush window, after a Save that the running flush has not collected
	closesets := [][]opSpec{
		{{Close: true}},
		{{K: 1}, {Close: true}},
		{{K: 0}, {Close: true}},
		{{K: 1}, {Del: true, K: 1}, {K: 2}, {Close: true}},
	}
	for wi := 0; wi <= 1; wi++ {
		for _, park := range []string{"swamp.flush.begin", "chronicler.write.begin", "swamp.flush.wrote"} {
			for _, ops := range closesets {
				wi, park, ops := wi, park, ops
				nm := fmt.Sprintf("%s/fc/n%d", pat(wi, false), n)
				n++
				scen = append(scen, func() caseRec { return e.flushWindow(nm, wi, park, ops, nil) })
			}
		}
	}
	for wi := 0; wi <= 1; wi++ {
		for _, snap := range []bool{false, true} {
			wi, snap := wi, snap
			nm := fmt.Sprintf("%s/v/n%d", pat(wi, true), n)
			n++
			scen = append(scen, func() caseRec { return e.vigilIdle(nm, wi, snap) })
		}
	}
	for wi := 0; wi <= 1; wi++ {
		for _, via := range []string{"delete", "shift"} {
			for _, site := range []string{"swamp.deletehandler.begin", "swamp.deletehandler.end"} {
				for _, double := range []bool{false, true} {
					wi, via, site, double := wi, via, site, double
					nm := fmt.Sprintf("%s/d/n%d", pat(wi, false), n)
					n++
					scen = append(scen, func() caseRec { return e.deleteWindow(nm, wi, via, site, double) })
				}
			}
		}
	}
	for wi := 0; wi <= 1; wi++ {
		for _, cl := range []string{"destroy", "autodestroy"} {
			for _, site := range []string{"swamp.destroy.cancelled", "swamp.callback"} {
				wi, cl, site := wi, cl, site
				nm := fmt.Sprintf("%s/t/n%d", pat(wi, false), n)
				n++
				scen = append(scen, func() caseRec { return e.teardown(nm, wi, cl, site) })
			}
		}
		wi := wi
		nm := fmt.Sprintf("%s/t/n%d", pat(wi, true), n)
		n++
		scen = append(scen, func() caseRec { return e.teardown(nm, wi, "idleclose", "swamp.callback") })
	}
	forced := make([]caseRec, len(scen))
	common.Parallel(len(scen), 40, func(i int) { forced[i] = scen[i]() })
	e.ctl.Uninstall()
	time.Sleep(50 * time.Millisecond)

	// ---- phase 2: serial, idle-serial and stress, free running
	nser, nidle, nstress, sdur := 160, 24, 6, 7*time.Second
	if a.Tier == "thorough" {
		nser, nidle, nstress, sdur = 1200, 120, 16, 60*time.Second
	}
	nshift := 60
	if a.Tier == "thorough" {
		nshift = 600
	}
	free := make([]caseRec, nser+nidle+nstress+nshift)
	recs := make([][]*opRec, len(free))
	rngs := make([]*common.Rng, len(free))
	for i := range rngs {
		rngs[i] = rng.Fork(fmt.Sprintf("c%d", i))
	}
	var opSeq int64
	verifhook.StartLog()
	common.Parallel(len(free), 40, func(i int) {
		switch {
		case i < nser:
			free[i] = e.serial(fmt.Sprintf("%s/s/n%d", pat(i%2, false), i), i%2, rngs[i], false)
		case i < nser+nidle:
			free[i] = e.serial(fmt.Sprintf("%s/i/n%d", pat(i%2, true), i), i%2, rngs[i], true)
		case i >= nser+nidle+nstress:
			free[i] = e.indexShift(fmt.Sprintf("%s/x/n%d", pat(i%2, false), i), i%2, rngs[i])
		default:
			free[i], recs[i] = e.stress(fmt.Sprintf("c16d/x/n%d", i), rngs[i], sdur, &opSeq)
		}
	})
	evs := verifhook.StopLog()

	// ---- graceful stop, fresh engine on the same root, compare
	e.srv = srv.Restart()
	reg(e.srv)
	emit := func(c caseRec, got map[int]int64) {
		as := make([]string, len(c.acks))
		for i, x := range c.acks {
			w := 1
			if x.Del {
				w = 0
			}
			as[i] = fmt.Sprintf("(Pa %d %d %d)", w, x.Key, x.Val)
		}
		var ks []int
		for k := range got {
			ks = append(ks, k)
		}
		sort.Ints(ks)
		gs := make([]string, len(ks))
		for i, k := range ks {
			gs[i] = fmt.Sprintf("(Pr %d %d)", k, got[k])
		}
		bp, bt := c.bprogs, c.btrace
		if c.hung != "" {
			bp, bt = nil, nil
		}
		term := fmt.Sprintf("(Cc %s %s %d %d %s %s)", common.List(as), common.List(gs), c.flags, c.model, common.List(bp), common.List(bt))
		d := map[string]interface{}{"kind": c.kind, "swamp": c.name, "write_interval_s": c.wi, "reloaded": fmt.Sprint(got), "forced_race": c.flags}
		if len(c.acks) <= 40 {
			d["acks"] = fmt.Sprint(c.acks)
		}
		if len(c.script) <= 60 {
			d["script"] = c.script
		}
		idx := run.Add(term, d, c.nontriv)
		run.Hist(c.kind)
		run.HistN("acked_ops", len(c.acks))
		if len(c.btrace) > 0 {
			run.HistN("buffer_trace_events", len(c.btrace))
		}
		if c.hung != "" {
			run.Violate(idx, "forced schedule", "forced_case_hung", c.hung)
		}
		if strings.HasPrefix(c.kind, "witness") && c.flags == 0 {
			run.Hist("witness_not_forced")
		}
	}
	for _, c := range forced {
		emit(c, e.reload(c.name))
	}
	for i, c := range free {
		got := e.reload(c.name)
		if c.kind == "stress" {
			// classify lost writes: last acknowledged operation per key
			last := map[int]*opRec{}
			for _, r := range recs[i] {
				last[r.a.Key] = r
			}
			cls := -1
			for k, r := range last {
				if r.a.Del {
					continue
				}
				if v, ok := got[k]; !ok || v != r.a.Val {
					cl := classify(evs, r)
					run.Hist(fmt.Sprintf("stress_lost_class_%d", cl))
					if cls == -1 || cl == 0 {
						cls = cl
					}
				}
			}
			if cls > 0 {
				c.flags = cls
			}
		}
		emit(c, got)
	}
	e.srv.Stop()
	run.Meta.Traces = run.Meta.Evaluations
	run.Finish("check_all")
}
