// Round-4 families of the C16 harness: a vigil held across the idle threshold, and shifts
// through an index that covers only a part of the swamp.
package main

import (
	"context"
	"fmt"
	"time"

	hydrapb "github.com/hydraide/hydraide/sdk/go/hydraidego/v3/hydraidepbgo"
	"google.golang.org/protobuf/types/known/timestamppb"
	"verif/harness/common"
	lib "verif/harness/lib/c18"
)

// setAttr: one record with an optional time attribute (attr: 0 none, 1 ExpiredAt in the past,
// 2 CreatedAt, 3 UpdatedAt)
func (e *env) setAttr(name string, k int, v int64, attr int) string {
	kv := &hydrapb.KeyValuePair{Key: key(k), Int64Val: &v}
	ts := timestamppb.New(time.Now().Add(-time.Hour))
	switch attr {
	case 1:
		kv.ExpiredAt = ts
	case 2:
		kv.CreatedAt = ts
	case 3:
		kv.UpdatedAt = ts
	}
	resp, err := e.srv.GW.Set(context.Background(), &hydrapb.SetRequest{Swamps: []*hydrapb.SwampRequest{{
		IslandID: 1, SwampName: name, CreateIfNotExist: true, Overwrite: true, KeyValues: []*hydrapb.KeyValuePair{kv}}}})
	if err != nil || resp == nil || len(resp.Swamps) == 0 || len(resp.Swamps[0].KeysAndStatuses) == 0 {
		return ""
	}
	return resp.Swamps[0].KeysAndStatuses[0].Status.String()
}

// setMany: several keys in ONE request (one vigil); returns the status per key.
func (e *env) setMany(name string, ks []int, vs []int64) []string {
	kvs := make([]*hydrapb.KeyValuePair, len(ks))
	for i := range ks {
		v := vs[i]
		kvs[i] = &hydrapb.KeyValuePair{Key: key(ks[i]), Int64Val: &v}
	}
	resp, err := e.srv.GW.Set(context.Background(), &hydrapb.SetRequest{Swamps: []*hydrapb.SwampRequest{{
		IslandID: 1, SwampName: name, CreateIfNotExist: true, Overwrite: true, KeyValues: kvs}}})
	out := make([]string, len(ks))
	if err != nil || resp == nil || len(resp.Swamps) == 0 {
		return out
	}
	for _, st := range resp.Swamps[0].KeysAndStatuses {
		for i := range ks {
			if st.Key == key(ks[i]) {
				out[i] = st.Status.String()
			}
		}
	}
	return out
}

// shiftIndex removes records through an index that covers only the records having the attribute:
// via 0 = ShiftMatchingTreasures (all records whose value is > 0), 1 = ShiftExpiredTreasures.
// It returns the keys that were handed out.
func (e *env) shiftIndex(name string, via int, idx hydrapb.IndexType_Type) []int {
	var trs []*hydrapb.Treasure
	if via == 1 {
		r, err := e.srv.GW.ShiftExpiredTreasures(context.Background(), &hydrapb.ShiftExpiredTreasuresRequest{IslandID: 1, SwampName: name, HowMany: 0})
		if err == nil && r != nil {
			trs = r.Treasures
		}
	} else {
		r, err := e.srv.GW.ShiftMatchingTreasures(context.Background(), &hydrapb.ShiftMatchingTreasuresRequest{IslandID: 1, SwampName: name,
			IndexType: idx, OrderType: hydrapb.OrderType_ASC, HowMany: 0,
			Filters: &hydrapb.FilterGroup{Logic: hydrapb.FilterLogic_AND, Filters: []*hydrapb.TreasureFilter{{
				Operator: hydrapb.Relational_GREATER_THAN, CompareValue: &hydrapb.TreasureFilter_Int64Val{Int64Val: 0}}}}})
		if err == nil && r != nil {
			trs = r.Treasures
		}
	}
	var out []int
	for _, t := range trs {
		var k int
		if _, err := fmt.Sscanf(t.Key, "k%d", &k); err == nil {
			out = append(out, k)
		}
	}
	return out
}

// vigilIdle: one Set request with three keys on a swamp that idle-closes after 1 s.
// snapshot = false: the request is held (inside its vigil, before its second key) for 3.4 s while
// the idle listener ticks freely. snapshot = true: the listener is parked right after its
// per-tick reads at a tick at which the swamp is idle; the request then summons, begins its
// vigil and is held before its first key; the listener continues (it has to see the vigil under
// closeWriteMutex). All three keys are acknowledged and must survive.
func (e *env) vigilIdle(name string, wi int, snapshot bool) caseRec {
	c := caseRec{kind: "vigil_idle", name: name, wi: wi, nontriv: true}
	if snapshot {
		c.kind = "vigil_idle_snapshot"
	}
	t0 := e.tid()
	e.ctl.Spawn(t0, func() { e.set(name, 9, 9) })
	e.runToEnd(t0, stepTO)
	c.acks = append(c.acks, ack{false, 9, 9})
	id := e.instID(name)
	tl, tr := e.tid(), e.tid()
	var sts []string
	req := func() { sts = e.setMany(name, []int{0, 1, 2}, []int64{1, 2, 3}) }
	if snapshot {
		time.Sleep(500 * time.Millisecond)
		tb := e.tid()
		e.ctl.Spawn(tb, func() { e.set(name, 9, 10) })
		e.runToEnd(tb, stepTO)
		c.acks = append(c.acks, ack{false, 9, 10})
		last := time.Now()
		e.ctl.Adopt("swamp.idle.read", func(a []int64) bool { return len(a) > 0 && a[0] == id }, tl)
		ok := false
		deadline := time.Now().Add(8 * time.Second)
		for time.Now().Before(deadline) {
			if st, _, _ := e.ctl.State(tl); st == lib.Parked {
				if time.Since(last) > 2150*time.Millisecond {
					ok = true
					break
				}
				e.ctl.StepThread(tl, 5*time.Millisecond)
			}
			time.Sleep(2 * time.Millisecond)
		}
		c.script = append(c.script, fmt.Sprintf("listener parked after its per-tick reads at an idle tick=%v", ok))
		e.ctl.Spawn(tr, req)
		held := e.runUntil(tr, "gateway.set.key", stepTO)
		c.script = append(c.script, fmt.Sprintf("request holds its vigil (parked before its first key)=%v", held))
		// the listener continues through its check (and, if it wrongly closes, through Close)
		closed := false
		dl := time.Now().Add(400 * time.Millisecond)
		first := true
		for time.Now().Before(dl) {
			if st, site, _ := e.ctl.State(tl); st == lib.Parked {
				if site == "swamp.idle.read" && !first {
					break // next tick: the check of this tick is over
				}
				if site == "swamp.callback" {
					closed = true
				}
				first = false
				e.ctl.StepThread(tl, 5*time.Millisecond)
			}
			time.Sleep(2 * time.Millisecond)
		}
		c.script = append(c.script, fmt.Sprintf("listener closed the instance although the request holds a vigil=%v; same instance in map=%v", closed, e.instID(name) == id))
	} else {
		e.ctl.Spawn(tr, req)
		n := 0
		deadline := time.Now().Add(stepTO)
		for time.Now().Before(deadline) && n < 2 {
			st := e.ctl.WaitThread(tr, 20*time.Millisecond)
			if st == lib.Finished {
				break
			}
			if st == lib.Parked {
				if _, site, _ := e.ctl.State(tr); site == "gateway.set.key" {
					n++
					if n == 2 {
						break
					}
				}
				e.ctl.StepThread(tr, 20*time.Millisecond)
			}
		}
		c.script = append(c.script, fmt.Sprintf("request held inside its vigil before its second key=%v", n == 2))
		time.Sleep(3400 * time.Millisecond)
		c.script = append(c.script, fmt.Sprintf("after 3.4 s: same instance still in map=%v", e.instID(name) == id))
	}
	if !e.runToEnd(tr, stepTO) {
		c.hung = "request did not finish"
		return c
	}
	c.script = append(c.script, fmt.Sprintf("request -> %v", sts))
	for i, st := range sts {
		if okSet(st) {
			c.acks = append(c.acks, ack{false, i, int64(i + 1)})
		}
	}
	return c
}

// indexShift: records with and without a time attribute, then a shift over the index of that
// attribute (ShiftMatchingTreasures over EXPIRATION_TIME / CREATION_TIME / UPDATE_TIME, or
// ShiftExpiredTreasures): the records that are not in the index must survive.
func (e *env) indexShift(name string, wi int, rng *common.Rng) caseRec {
	c := caseRec{kind: "index_shift", name: name, wi: wi, nontriv: true}
	attr := 1 + rng.Intn(3)
	idx := []hydrapb.IndexType_Type{hydrapb.IndexType_EXPIRATION_TIME, hydrapb.IndexType_CREATION_TIME, hydrapb.IndexType_UPDATE_TIME}[attr-1]
	via := 0
	if attr == 1 && rng.Chance(50) {
		via = 1
	}
	nidx, nplain := 1+rng.Intn(3), 1+rng.Intn(3)
	if rng.Chance(15) {
		nplain = 0 // every record is indexed: the shift really empties the swamp
	}
	var val int64
	order := rng.Intn(2)
	put := func(k, a int) {
		val++
		if st := e.setAttr(name, k, val, a); okSet(st) {
			c.acks = append(c.acks, ack{false, k, val})
		}
	}
	if order == 0 {
		for k := 0; k < nidx; k++ {
			put(k, attr)
		}
	}
	for k := 0; k < nplain; k++ {
		put(8+k, 0)
	}
	if order == 1 {
		for k := 0; k < nidx; k++ {
			put(k, attr)
		}
	}
	got := e.shiftIndex(name, via, idx)
	for _, k := range got {
		c.acks = append(c.acks, ack{true, k, 0})
	}
	c.script = append(c.script, fmt.Sprintf("%d records with attribute %d, %d without; shift via %d over index %v handed out %v", nidx, attr, nplain, via, idx, got))
	if rng.Chance(50) {
		put(12, 0)
	}
	return c
}
