// c29: correspondence check for "fast swamp-name discovery agrees with the stored name".
//
// Every directory case builds a data directory of real .hyd files – written by the real engine
// (fresh, appended over several sessions, compacted through Compactor.ForceCompact,
// CompactFromIndex and the chronicler's ForceCompaction, still open in a writer) or laid out in
// the legacy V2 format (name in an OpMetadata entry; no V2 writer exists in the tree any more,
// so the harness lays the blocks out with the engine's own CompressEntries/Serialize) and then
// appended to / compacted by the current engine.  For every file it records v2.ReadSwampName,
// NewFileReader().GetSwampName(), LoadIndex's name and the first bytes of the file (CaseFile);
// for the directory it runs the real explorer scan and records the listing (CaseDir).
// Storage/C29Check.v compares with the names used to write and replays the header/name model.
package main

import (
	"context"
	"fmt"
	"io"
	"log/slog"
	"os"
	"path/filepath"
	"sort"
	"strings"

	"github.com/hydraide/hydraide/app/core/hydra/swamp/beacon"
	"github.com/hydraide/hydraide/app/core/hydra/swamp/chronicler"
	v2 "github.com/hydraide/hydraide/app/core/hydra/swamp/chronicler/v2"
	"github.com/hydraide/hydraide/app/core/hydra/swamp/treasure"
	"github.com/hydraide/hydraide/app/core/hydra/swamp/treasure/guard"
	"github.com/hydraide/hydraide/app/server/explorer"
	"verif/harness/common"
)

var modes = []string{"fresh", "appended", "force-compact", "compact-from-index", "chronicler", "v2-legacy", "v2-appended", "v2-compacted", "open-writer",
	"chron-life", "chron-life", "compact-if-needed", "compact-directory"}

type fileSpec struct {
	Mode    string `json:"mode"`
	Name    string `json:"-"`
	NameLen int    `json:"name_len"`
	NameStr string `json:"name,omitempty"`
	Rel     string `json:"path"`
	// observations
	Exists  bool    `json:"exists"`
	Version uint16  `json:"version"`
	Fast    *string `json:"-"`
	Rdr     *string `json:"-"`
	Li      *string `json:"-"`
	FastErr string  `json:"fast_err,omitempty"`
	prefix  []byte
	entries []v2.Entry
	open    *v2.FileWriter
	sumEnt  uint64
	nBlocks uint64
}

func randName(rng *common.Rng, pool, swampPool []string) string {
	part := func() string {
		// most names of one directory share sanctuaries and realms, as real data does
		if len(pool) > 0 && rng.Chance(70) {
			return pool[rng.Intn(len(pool))]
		}
		return freshPart(rng)
	}
	if rng.Chance(12) {
		// a long name: total length around the limits a reader could be written against
		// (one 4096-byte page holds the 64-byte header + 4032 name bytes; 16-bit length field)
		targets := []int{301 + rng.Intn(1700), 4028 + rng.Intn(12), 4090 + rng.Intn(12), 8120 + rng.Intn(100),
			16380 + rng.Intn(10), 32760 + rng.Intn(16), 65530 + rng.Intn(6)}
		n := targets[rng.Intn(len(targets))]
		head := part() + "/" + part() + "/"
		var sb strings.Builder
		sb.WriteString(head)
		for sb.Len() < n {
			switch rng.Intn(20) {
			case 0:
				sb.WriteString("é")
			case 1:
				sb.WriteString("水")
			default:
				sb.WriteByte("abcdefghijklmnopqrstuvwxyz0123456789"[rng.Intn(36)])
			}
		}
		return sb.String()[:n] // may cut a multi-byte character: names are byte strings to the engine
	}
	switch r := rng.Intn(100); {
	case r < 3:
		return ""
	case r < 6:
		return part()
	case r < 10:
		return part() + "/" + part()
	case r < 16:
		return part() + "/" + part() + "/" + freshPart(rng) + "/" + freshPart(rng) // the swamp part may contain '/'
	case r < 19:
		return part() + "//" + freshPart(rng)
	}
	if len(swampPool) > 0 && rng.Chance(60) {
		return part() + "/" + part() + "/" + swampPool[rng.Intn(len(swampPool))]
	}
	return part() + "/" + part() + "/" + freshPart(rng)
}

// relatedPool returns names of which one is a prefix of the others, continued by bytes that sort
// below, at and above '/', by case variants and by multi-byte characters: orders by component and
// by the joined "sanctuary/realm/swamp" string differ on such names (shop, shop-eu, shop.de ...)
func relatedPool(rng *common.Rng) []string {
	base := freshPart(rng)
	if len(base) > 8 {
		base = base[:1+rng.Intn(6)]
	}
	sufs := []string{"-eu", ".de", " x", "+", "!", "0", "a", "_", "~", "\x01", "é", "-", ".", "A", "z9"}
	pool := []string{base}
	for len(pool) < 3+rng.Intn(3) {
		pool = append(pool, base+sufs[rng.Intn(len(sufs))])
	}
	if rng.Chance(30) {
		pool = append(pool, strings.ToUpper(base))
	}
	return pool
}

func freshPart(rng *common.Rng) string {
	{
		n := 1 + rng.Intn(12)
		if rng.Chance(8) {
			n = 60 + rng.Intn(60)
		}
		var sb strings.Builder
		for i := 0; i < n; i++ {
			switch rng.Intn(12) {
			case 0:
				sb.WriteString("é")
			case 1:
				sb.WriteString("水")
			case 2:
				sb.WriteString("-")
			default:
				sb.WriteByte("abcdefghijklmnopqrstuvwxyz0123456789"[rng.Intn(36)])
			}
		}
		return sb.String()
	}
}

func someEntries(rng *common.Rng, n int) []v2.Entry {
	var es []v2.Entry
	for i := 0; i < n; i++ {
		k := fmt.Sprintf("k%d", rng.Intn(6))
		switch rng.Intn(4) {
		case 0:
			es = append(es, v2.Entry{Operation: v2.OpDelete, Key: k})
		default:
			es = append(es, v2.Entry{Operation: uint8(1 + rng.Intn(2)), Key: k, Data: rng.Bytes(1 + rng.Intn(40))})
		}
	}
	// make sure something stays alive so that compaction keeps the file
	es = append(es, v2.Entry{Operation: v2.OpInsert, Key: "alive", Data: []byte("x")})
	return es
}

func writeSessions(path, name string, rng *common.Rng, sessions int) error {
	for s := 0; s < sessions; s++ {
		nm := name
		if s > 0 && rng.Bool() {
			nm = "other/name/ignored" // the name passed when re-opening an existing file is ignored
		}
		fw, err := v2.NewFileWriterWithName(path, []int{64, 1024, 16384}[rng.Intn(3)], nm)
		if err != nil {
			return err
		}
		for _, e := range someEntries(rng, 1+rng.Intn(12)) {
			if err := fw.WriteEntry(e); err != nil {
				fw.Close()
				return err
			}
		}
		if err := fw.Close(); err != nil {
			return err
		}
	}
	return nil
}

// legacy layout: version 2 header, NameLength 0, first entry of the first block is the metadata entry
func writeV2Legacy(path, name string, rng *common.Rng) error {
	return writeV2LegacyEntries(path, name, rng, someEntries(rng, 1+rng.Intn(10)))
}

// fragmented returns a log of nkeys keys each written `rounds` times (and some deleted): enough
// dead entries for every fragmentation-triggered compaction (Load self-heal needs >= 100 entries
// in the header and more than 30% dead)
func fragmented(rng *common.Rng) []v2.Entry {
	nkeys := 34 + rng.Intn(30)
	rounds := 3 + rng.Intn(2)
	var es []v2.Entry
	for r := 0; r < rounds; r++ {
		for k := 0; k < nkeys; k++ {
			es = append(es, v2.Entry{Operation: uint8(1 + rng.Intn(2)), Key: fmt.Sprintf("key-%d", k), Data: mustTreasureBytes(fmt.Sprintf("key-%d", k), fmt.Sprintf("v%d-%d", r, k))})
		}
	}
	es = append(es, v2.Entry{Operation: v2.OpDelete, Key: "key-0"})
	return es
}

func newTreasure(key, content string) treasure.Treasure {
	tr := treasure.New(nil)
	g := tr.StartTreasureGuard(false, guard.BodyAuthID)
	tr.BodySetKey(g, key)
	tr.SetContentString(g, content)
	tr.ReleaseTreasureGuard(g)
	return tr
}

// entries of files a chronicler will Load must hold decodable treasures
func mustTreasureBytes(key, content string) []byte {
	tr := newTreasure(key, content)
	g := tr.StartTreasureGuard(true, guard.BodyAuthID)
	defer tr.ReleaseTreasureGuard(g)
	b, err := tr.ConvertToByte(g)
	if err != nil {
		return []byte("x")
	}
	return b
}

func writeV2LegacyEntries(path, name string, rng *common.Rng, entries []v2.Entry) error {
	all := append([]v2.Entry{{Operation: v2.OpMetadata, Key: v2.MetadataEntryKey, Data: []byte(name)}}, entries...)
	var body []byte
	var bc, ec uint64
	for len(all) > 0 {
		n := 1 + rng.Intn(len(all))
		bh, comp, err := v2.CompressEntries(all[:n])
		if err != nil {
			return err
		}
		body = append(body, bh.Serialize()...)
		body = append(body, comp...)
		bc++
		ec += uint64(n)
		all = all[n:]
	}
	h := v2.FileHeader{Magic: [4]byte{'H', 'Y', 'D', 'R'}, Version: v2.Version2, CreatedAt: 1, ModifiedAt: 1,
		BlockSize: v2.DefaultMaxBlockSize, EntryCount: ec, BlockCount: bc}
	return os.WriteFile(path, append(h.Serialize(), body...), 0o644)
}

func build(f *fileSpec, path string, rng *common.Rng) error {
	name := f.Name
	switch f.Mode {
	case "fresh":
		return writeSessions(path, name, rng, 1)
	case "appended":
		return writeSessions(path, name, rng, 2+rng.Intn(3))
	case "force-compact":
		if err := writeSessions(path, name, rng, 1+rng.Intn(2)); err != nil {
			return err
		}
		_, err := v2.NewCompactor(path, 1024, 0.3).ForceCompact()
		return err
	case "compact-from-index":
		if err := writeSessions(path, name, rng, 1+rng.Intn(2)); err != nil {
			return err
		}
		fr, err := v2.NewFileReader(path)
		if err != nil {
			return err
		}
		idx, nm, err := fr.LoadIndex()
		fr.Close()
		if err != nil {
			return err
		}
		_, err = v2.CompactFromIndex(path, 1024, nm, idx, 100)
		return err
	case "chronicler":
		c := chronicler.NewV2WithName(strings.TrimSuffix(path, ".hyd"), 3, name)
		c.CreateDirectoryIfNotExists()
		var ts []treasure.Treasure
		for i := 0; i < 3+rng.Intn(8); i++ {
			tr := treasure.New(nil)
			g := tr.StartTreasureGuard(false, guard.BodyAuthID)
			tr.BodySetKey(g, fmt.Sprintf("k%d", rng.Intn(4)))
			tr.SetContentString(g, fmt.Sprintf("v%d", i))
			tr.ReleaseTreasureGuard(g)
			ts = append(ts, tr)
		}
		c.Write(ts)
		if rng.Bool() {
			if err := c.ForceCompaction(); err != nil {
				return err
			}
			c.Write(ts[:1])
		}
		return c.Close()
	case "chron-life":
		// A fragmented file under a name, then one to three chronicler objects in a row, each
		// built by one of the constructors - with the name, or without one (NewV2 /
		// NewV2WithConfig: the chronicler learns the name from the file in Load) - that load,
		// write, compact through whatever trigger fires (Load self-heal, inline on Write/Close,
		// ForceCompaction) and close.
		base := strings.TrimSuffix(path, ".hyd")
		switch rng.Intn(3) {
		case 0:
			fw, err := v2.NewFileWriterWithName(path, 16384, name)
			if err != nil {
				return err
			}
			for _, e := range fragmented(rng) {
				if err := fw.WriteEntry(e); err != nil {
					fw.Close()
					return err
				}
			}
			if err := fw.Close(); err != nil {
				return err
			}
		case 1:
			if err := writeV2LegacyEntries(path, name, rng, fragmented(rng)); err != nil {
				return err
			}
		case 2:
			c := chronicler.NewV2WithName(base, 3, name)
			c.CreateDirectoryIfNotExists()
			for r := 0; r < 3; r++ {
				var ts []treasure.Treasure
				for k := 0; k < 40; k++ {
					ts = append(ts, newTreasure(fmt.Sprintf("key-%d", k), fmt.Sprintf("c%d-%d", r, k)))
				}
				c.Write(ts)
			}
			if err := c.Close(); err != nil {
				return err
			}
		}
		if _, err := os.Stat(path); err != nil {
			return nil // the name was refused: nothing to load
		}
		for life := 0; life < 1+rng.Intn(3); life++ {
			var c chronicler.Chronicler
			switch rng.Intn(4) {
			case 0:
				c = chronicler.NewV2WithName(base, 3, name)
			case 1:
				c = chronicler.NewV2(base, 3)
			default:
				c = chronicler.NewV2WithConfig(base, 3, []int{1024, 16384}[rng.Intn(2)], []float64{0.3, 0.1, 0.5}[rng.Intn(3)])
			}
			c.CreateDirectoryIfNotExists()
			b := beacon.New()
			if rng.Chance(70) {
				c.RegisterLiveCountFunction(b.Count)
			}
			if rng.Chance(85) {
				c.Load(b)
			}
			for w := 0; w < rng.Intn(4); w++ {
				var ts []treasure.Treasure
				for k := 0; k < 1+rng.Intn(60); k++ {
					ts = append(ts, newTreasure(fmt.Sprintf("key-%d", rng.Intn(40)), fmt.Sprintf("l%d-%d-%d", life, w, k)))
				}
				c.Write(ts)
				if rng.Chance(15) {
					c.Sync()
				}
			}
			if rng.Chance(30) {
				if err := c.ForceCompaction(); err != nil {
					return err
				}
			}
			if err := c.Close(); err != nil {
				return err
			}
		}
		return nil
	case "compact-if-needed":
		if err := writeSessions(path, name, rng, 1); err != nil {
			return err
		}
		fw, err := v2.NewFileWriter(path, 1024)
		if err != nil {
			return err
		}
		for _, e := range fragmented(rng) {
			if err := fw.WriteEntry(e); err != nil {
				fw.Close()
				return err
			}
		}
		if err := fw.Close(); err != nil {
			return err
		}
		_, err = v2.NewCompactor(path, 1024, []float64{0.1, 0.3, 0.9}[rng.Intn(3)]).CompactIfNeeded()
		return err
	case "compact-directory":
		if err := writeSessions(path, name, rng, 2); err != nil {
			return err
		}
		fw, err := v2.NewFileWriter(path, 16384)
		if err != nil {
			return err
		}
		for _, e := range fragmented(rng) {
			if err := fw.WriteEntry(e); err != nil {
				fw.Close()
				return err
			}
		}
		if err := fw.Close(); err != nil {
			return err
		}
		// compacts every .hyd file of the directory, i.e. also the neighbours written before
		res, err := v2.CompactDirectory(filepath.Dir(path), 16384, 0.2)
		if err != nil {
			return err
		}
		for _, r := range res {
			if r != nil && r.Error != nil {
				return r.Error
			}
		}
		return nil
	case "v2-legacy":
		return writeV2Legacy(path, name, rng)
	case "v2-appended":
		if err := writeV2Legacy(path, name, rng); err != nil {
			return err
		}
		return writeSessions(path, "ignored/on/existing", rng, 1+rng.Intn(2))
	case "v2-compacted":
		if err := writeV2Legacy(path, name, rng); err != nil {
			return err
		}
		_, err := v2.NewCompactor(path, 1024, 0.3).ForceCompact()
		return err
	case "open-writer":
		fw, err := v2.NewFileWriterWithName(path, 64, name)
		if err != nil {
			return err
		}
		for _, e := range someEntries(rng, 2+rng.Intn(8)) {
			if err := fw.WriteEntry(e); err != nil {
				fw.Close()
				return err
			}
		}
		if rng.Bool() {
			fw.Flush()
		}
		f.open = fw
		return nil
	}
	return fmt.Errorf("unknown mode")
}

func observe(f *fileSpec, path string) {
	if _, err := os.Stat(path); err != nil {
		return
	}
	f.Exists = true
	if s, err := v2.ReadSwampName(path); err == nil {
		f.Fast = &s
	} else {
		f.FastErr = err.Error()
	}
	if fr, err := v2.NewFileReader(path); err == nil {
		s := fr.GetSwampName()
		f.Rdr = &s
		f.Version = fr.GetHeader().Version
		if _, nm, err := fr.LoadIndex(); err == nil {
			f.Li = &nm
		}
		if blocks, err := fr.ReadAllBlocks(); err == nil {
			f.nBlocks = uint64(len(blocks))
			for i, b := range blocks {
				f.sumEnt += uint64(len(b.Entries))
				if i == 0 && f.Version == v2.Version2 {
					f.entries = b.Entries
					if len(f.entries) > 3 {
						f.entries = f.entries[:3]
					}
				}
			}
		}
		fr.Close()
	}
	raw, err := os.ReadFile(path)
	if err == nil {
		n := 64
		if len(raw) >= 64 && raw[4] == 3 {
			n += int(raw[44]) | int(raw[45])<<8
		}
		if n > len(raw) {
			n = len(raw)
		}
		f.prefix = raw[:n]
	}
}

func optBytes(s *string) string {
	if s == nil {
		return "None"
	}
	return common.Some(common.ByteList([]byte(*s)))
}

func main() {
	slog.SetDefault(slog.New(slog.NewTextHandler(io.Discard, nil)))
	a := common.ParseArgs()
	run := common.NewRun(a, "C29", "HV.Storage.C29Check")
	run.Meta.Rule = "a directory case is a data directory of 1..8 real .hyd files (fresh, appended, compacted through each entry point, chronicler-written, legacy V2 layout plain/appended/compacted, still open in a writer; fragmented files taken through one to three chronicler objects built with or without a name that Load/self-heal, write, compact inline, ForceCompaction and close; CompactIfNeeded; CompactDirectory) under random UTF-8 names (three-part, and two-/one-part/empty ones that the explorer must skip), scanned by the real explorer; a file case is one of those files with ReadSwampName / GetSwampName / LoadIndex observations and its header bytes; non-trivial file case = the file went through at least one append session, compaction or format upgrade, or is a legacy file; names of 301..65535 bytes with non-periodic content cluster around the 4096-byte page and the 16-bit field; junk (.hyd directories, empty/garbage/short .hyd files, swamp files under another extension) is mixed in; the SAME explorer then rescans after the directory changed (all or some swamps removed, swamps added, a file replaced or moved, nothing changed) and every scan is a directory case, about half of the directories use sanctuary/realm/swamp names that are prefixes of each other continued by bytes below, at and above '/', and a quarter hold 6..14 extra swamps; the other index views (pages of 1,2,3,5,7, sanctuary / realm / swamp-prefix filters walked page by page, sanctuaries, realms, details, sizes) are cross-checked against the full listing; non-trivial directory = at least 3 listed swamps and one skipped file, or a rescan"
	rng := common.NewRng(a.Seed, "C29")
	ndirs := 150
	if a.Tier == "thorough" {
		ndirs = 3000
	}
	tmpRoot := a.Out
	if st, e := os.Stat("/dev/shm"); e == nil && st.IsDir() {
		tmpRoot = "/dev/shm"
	}
	tmp, err := os.MkdirTemp(tmpRoot, "c29-files")
	if err != nil {
		fmt.Fprintln(os.Stderr, err)
		os.Exit(2)
	}
	defer os.RemoveAll(tmp)

	type round struct {
		what     string
		present  []*fileSpec // files on disk when the scan ran
		listing  []string
		viewsBad string // Go-side: the other listing views disagree with ListSwamps
	}
	type dirJob struct {
		files   []*fileSpec // every file ever created in this directory (file cases)
		rounds  []*round
		details map[string]*explorer.SwampDetail // from the first scan
		errs    []string
	}
	jobs := make([]*dirJob, ndirs)
	seeds := make([]*common.Rng, ndirs)
	for i := range jobs {
		seeds[i] = rng.Fork("dir")
	}
	common.Parallel(ndirs, 16, func(i int) {
		r := seeds[i]
		d := &dirJob{details: map[string]*explorer.SwampDetail{}}
		jobs[i] = d
		root := filepath.Join(tmp, fmt.Sprintf("d%d", i))
		pool := []string{freshPart(r), freshPart(r), freshPart(r)}
		if r.Chance(50) {
			pool = relatedPool(r)
		}
		var swampPool []string
		if r.Chance(40) {
			swampPool = relatedPool(r)
		}
		used := map[string]bool{}
		var present []*fileSpec
		serial := 0
		cheap := false // extra files that only widen the listing
		addFile := func(nm string, rel string) {
			if used[nm] {
				return
			}
			used[nm] = true
			f := &fileSpec{Mode: modes[r.Intn(len(modes))], Name: nm, NameLen: len(nm)}
			if cheap {
				f.Mode = "fresh"
			}
			if len(nm) <= 300 {
				f.NameStr = nm
			}
			if nm == "" && strings.HasPrefix(f.Mode, "v2") {
				f.Mode = "fresh" // a legacy file always carries its name
			}
			if len(nm) > 20000 && f.Mode == "chronicler" {
				f.Mode = "appended"
			}
			serial++
			if f.Mode == "compact-directory" {
				// CompactDirectory rewrites every .hyd file next to this one: give it a directory of its own
				if rel != "" {
					f.Mode = "compact-if-needed"
				} else {
					rel = filepath.Join(fmt.Sprintf("%d", 100+r.Intn(3)), fmt.Sprintf("cd%d", serial), fmt.Sprintf("f%d.hyd", serial))
				}
			}
			if rel == "" {
				rel = filepath.Join(fmt.Sprintf("%d", 100+r.Intn(3)), fmt.Sprintf("%02x", r.Intn(256)), fmt.Sprintf("f%d.hyd", serial))
			}
			f.Rel = rel
			path := filepath.Join(root, f.Rel)
			os.MkdirAll(filepath.Dir(path), 0o755)
			if err := build(f, path, r); err != nil {
				d.errs = append(d.errs, fmt.Sprintf("%s(name %d bytes): %v", f.Mode, len(nm), err))
			}
			observe(f, path)
			d.files = append(d.files, f)
			if f.Exists {
				present = append(present, f)
			}
		}
		removeFile := func(k int) string {
			f := present[k]
			if f.open != nil {
				f.open.Close()
				f.open = nil
			}
			os.Remove(filepath.Join(root, f.Rel))
			present = append(present[:k:k], present[k+1:]...)
			return f.Rel
		}
		junk := func() {
			dir := filepath.Join(root, fmt.Sprintf("%d", 100+r.Intn(3)), "zz")
			os.MkdirAll(dir, 0o755)
			switch r.Intn(5) {
			case 0:
				os.WriteFile(filepath.Join(dir, fmt.Sprintf("empty%d.hyd", serial)), nil, 0o644)
			case 1:
				os.WriteFile(filepath.Join(dir, fmt.Sprintf("garbage%d.hyd", serial)), r.Bytes(10+r.Intn(200)), 0o644)
			case 2:
				os.MkdirAll(filepath.Join(dir, fmt.Sprintf("dir%d.hyd", serial)), 0o755)
			case 3:
				// a perfectly good swamp file under a name the scan must ignore
				tmpf := &fileSpec{Mode: "fresh", Name: "ghost/of/backup"}
				build(tmpf, filepath.Join(dir, fmt.Sprintf("copy%d.hyd.bak", serial)), r)
			case 4:
				os.WriteFile(filepath.Join(dir, fmt.Sprintf("short%d.hyd", serial)), []byte("HYDR\x03\x00"), 0o644)
			}
			serial++
		}
		nf := 1 + r.Intn(8)
		for k := 0; k < nf; k++ {
			nm := randName(r, pool, swampPool)
			if i%40 == 7 && k == 0 {
				nm = "s/r/" + strings.Repeat("n", 65535-4)
			}
			if i%40 == 9 && k == 0 {
				nm = "s/r/" + strings.Repeat("n", 65536-4)
			}
			addFile(nm, "")
		}
		if r.Chance(25) {
			// a listing deep enough for several pages per sanctuary
			cheap = true
			for k := 0; k < 6+r.Intn(9); k++ {
				addFile(randName(r, pool, swampPool), "")
			}
			cheap = false
		}
		if r.Chance(40) {
			junk()
		}
		ex := explorer.New(root)
		everListed := map[string]bool{}
		scan := func(what string) {
			rd := &round{what: what, present: append([]*fileSpec{}, present...)}
			d.rounds = append(d.rounds, rd)
			if err := ex.Scan(context.Background()); err != nil {
				d.errs = append(d.errs, "scan: "+err.Error())
			}
			res := ex.ListSwamps(&explorer.SwampFilter{Limit: 100000})
			now := map[string]bool{}
			for _, sd := range res.Swamps {
				full := sd.Sanctuary + "/" + sd.Realm + "/" + sd.Swamp
				rd.listing = append(rd.listing, full)
				now[full] = true
				if len(d.rounds) == 1 {
					d.details[full] = sd
				}
			}
			// the other views of the same index must describe the same set
			bad := func(f string, a ...interface{}) {
				if rd.viewsBad == "" {
					rd.viewsBad = fmt.Sprintf(f, a...)
				}
			}
			if res.Total != int64(len(res.Swamps)) {
				bad("ListSwamps Total %d but %d swamps returned", res.Total, len(res.Swamps))
			}
			// every paged and every filtered view must show exactly the matching part of the full
			// listing, each swamp once, whatever the page size
			fullName := func(sd *explorer.SwampDetail) string { return sd.Sanctuary + "/" + sd.Realm + "/" + sd.Swamp }
			walk := func(f explorer.SwampFilter, size int64) (names []string, total int64) {
				total = -1
				for off := int64(0); ; off += size {
					f.Offset, f.Limit = off, size
					pg := ex.ListSwamps(&f)
					if total == -1 {
						total = pg.Total
					} else if pg.Total != total {
						bad("Total changes between pages (%d, %d)", total, pg.Total)
					}
					for _, sd := range pg.Swamps {
						names = append(names, fullName(sd))
					}
					if len(pg.Swamps) == 0 || off > int64(len(rd.listing))+size {
						return
					}
				}
			}
			same := func(what string, got []string, want []string, total int64) {
				g := append([]string{}, got...)
				w := append([]string{}, want...)
				sort.Strings(g)
				sort.Strings(w)
				if strings.Join(g, "\x00") != strings.Join(w, "\x00") {
					bad("%s: %d swamps over the pages, %d expected (some missing or shown twice)", what, len(g), len(w))
				} else if total != int64(len(w)) {
					bad("%s: Total %d, %d swamps", what, total, len(w))
				}
			}
			for _, size := range []int64{1, 2, 3, 5, 7} {
				got, total := walk(explorer.SwampFilter{}, size)
				same(fmt.Sprintf("pages of %d", size), got, rd.listing, total)
			}
			if pg := ex.ListSwamps(&explorer.SwampFilter{Offset: int64(len(rd.listing)) + 3, Limit: 4}); len(pg.Swamps) != 0 {
				bad("a page behind the end is not empty")
			}
			// Limit 0 means the default page size: still a prefix-free part of the listing, each swamp once
			if pg := ex.ListSwamps(&explorer.SwampFilter{}); pg.Total != int64(len(rd.listing)) || int64(len(pg.Swamps)) > pg.Total {
				bad("default page: Total %d, %d swamps, listing %d", pg.Total, len(pg.Swamps), len(rd.listing))
			}
			bySan, byRealm := map[string][]string{}, map[[2]string][]string{}
			for _, sd := range res.Swamps {
				bySan[sd.Sanctuary] = append(bySan[sd.Sanctuary], fullName(sd))
				byRealm[[2]string{sd.Sanctuary, sd.Realm}] = append(byRealm[[2]string{sd.Sanctuary, sd.Realm}], fullName(sd))
			}
			for san, want := range bySan {
				if san == "" {
					continue // an empty filter field means "all"
				}
				got, total := walk(explorer.SwampFilter{Sanctuary: san}, 2)
				same("sanctuary filter, pages of 2", got, want, total)
			}
			for sr, want := range byRealm {
				if sr[0] == "" || sr[1] == "" {
					continue
				}
				got, total := walk(explorer.SwampFilter{Sanctuary: sr[0], Realm: sr[1]}, 3)
				same("sanctuary+realm filter, pages of 3", got, want, total)
			}
			if len(res.Swamps) > 0 {
				sd := res.Swamps[len(res.Swamps)/2]
				if len(sd.Swamp) > 0 {
					prefix := sd.Swamp[:1+len(sd.Swamp)/3]
					var want []string
					for _, x := range res.Swamps {
						if strings.HasPrefix(x.Swamp, prefix) {
							want = append(want, fullName(x))
						}
					}
					got, total := walk(explorer.SwampFilter{SwampPrefix: prefix}, 2)
					same("swamp-prefix filter, pages of 2", got, want, total)
					if sd.Sanctuary != "" {
						want = nil
						for _, x := range res.Swamps {
							if x.Sanctuary == sd.Sanctuary && strings.HasPrefix(x.Swamp, prefix) {
								want = append(want, fullName(x))
							}
						}
						got, total = walk(explorer.SwampFilter{Sanctuary: sd.Sanctuary, SwampPrefix: prefix}, 1)
						same("sanctuary + swamp-prefix filter, pages of 1", got, want, total)
					}
				}
			}
			var viaTree int64
			nsan := 0
			for _, si := range ex.ListSanctuaries() {
				nsan++
				viaTree += si.SwampCount
				var viaRealms int64
				for _, ri := range ex.ListRealms(si.Name) {
					viaRealms += ri.SwampCount
				}
				if viaRealms != si.SwampCount || int64(len(ex.ListAllSwamps(si.Name, ""))) != si.SwampCount {
					bad("sanctuary view: %d swamps, realms sum %d, ListAllSwamps %d", si.SwampCount, viaRealms, len(ex.ListAllSwamps(si.Name, "")))
				}
			}
			if viaTree != int64(len(rd.listing)) {
				bad("ListSanctuaries counts %d swamps, ListSwamps %d", viaTree, len(rd.listing))
			}
			for _, sd := range res.Swamps {
				if got, err := ex.GetSwampDetail(sd.Sanctuary, sd.Realm, sd.Swamp); err != nil || got.FilePath != sd.FilePath {
					bad("GetSwampDetail of a listed swamp fails or names another file")
				}
			}
			for full := range everListed {
				if !now[full] {
					parts := strings.SplitN(full, "/", 3)
					if _, err := ex.GetSwampDetail(parts[0], parts[1], parts[2]); err == nil {
						bad("GetSwampDetail still answers for a swamp that is no longer listed")
					}
					if parts[0] != "" {
						if sz, err := ex.GetSize(parts[0], parts[1], parts[2]); err == nil && sz.FileCount > 0 {
							bad("GetSize still counts a swamp that is no longer listed")
						}
					}
				}
			}
			for full := range now {
				everListed[full] = true
			}
		}
		scan("first scan")
		// second and later use of the same Explorer after the directory changed
		if r.Chance(65) {
			for step := 0; step < 1+r.Intn(3); step++ {
				what := ""
				switch q := r.Intn(100); {
				case q < 25 && len(present) > 0:
					what = "all swamps removed"
					for len(present) > 0 {
						removeFile(0)
					}
					if r.Bool() {
						os.RemoveAll(root)
						os.MkdirAll(root, 0o755)
					}
				case q < 50 && len(present) > 0:
					what = "some swamps removed"
					for k := 0; k < 1+r.Intn(len(present)); k++ {
						if len(present) > 0 {
							removeFile(r.Intn(len(present)))
						}
					}
				case q < 65 && len(present) > 0:
					what = "a file replaced by another swamp at the same path"
					rel := removeFile(r.Intn(len(present)))
					addFile(randName(r, pool, swampPool), rel)
				case q < 75 && len(present) > 0:
					what = "a file moved to another island"
					f := present[r.Intn(len(present))]
					if f.open == nil {
						nrel := filepath.Join("7"+fmt.Sprint(step), "mv", filepath.Base(f.Rel))
						os.MkdirAll(filepath.Dir(filepath.Join(root, nrel)), 0o755)
						if os.Rename(filepath.Join(root, f.Rel), filepath.Join(root, nrel)) == nil {
							f.Rel = nrel
						}
					}
				case q < 85:
					what = "nothing changed"
				default:
					what = "swamps added"
					for k := 0; k < 1+r.Intn(3); k++ {
						addFile(randName(r, pool, swampPool), "")
					}
				}
				if what == "" {
					what = "swamps added"
					addFile(randName(r, pool, swampPool), "")
				}
				if r.Chance(25) {
					junk()
				}
				scan("rescan: " + what)
			}
		}
		for _, f := range d.files {
			if f.open != nil {
				f.open.Close()
			}
		}
		os.RemoveAll(root)
	})

	for _, d := range jobs {
		ids := map[string]uint64{}
		id := func(s string) uint64 {
			if v, ok := ids[s]; ok {
				return v
			}
			v := uint64(len(ids) + 1)
			ids[s] = v
			return v
		}
		for _, f := range d.files {
			run.Hist("mode_" + f.Mode)
			switch {
			case f.NameLen > 4032:
				run.Hist("name_len>4032")
			case f.NameLen > 300:
				run.Hist("name_len_301..4032")
			}
			if !f.Exists {
				run.Hist("file_not_created")
				if f.NameLen <= 300 {
					// the engine refused to create a file for an acceptable name: report as a file case
					// that cannot match (fast = None)
					run.Add(common.App("CaseFile", "[]", "0", common.ByteList([]byte(f.Name)), "None", "None", "None", "[]"),
						map[string]interface{}{"kind": "file", "spec": f, "errors": d.errs}, false)
				} else if f.NameLen <= 65535 {
					run.Add(common.App("CaseBig", "[]", "0", common.N(uint64(f.NameLen)), "false", "false", "false"),
						map[string]interface{}{"kind": "file-long-name", "spec": f, "errors": d.errs}, false)
				}
				continue
			}
			has3 := strings.Count(f.Name, "/") >= 2
			var ents []string
			for _, e := range f.entries {
				ents = append(ents, common.Pair(common.Pair(common.N(uint64(e.Operation)), common.ByteList([]byte(e.Key))), common.ByteList(e.Data)))
			}
			var idx int
			if f.NameLen > 300 {
				eq := func(p *string) bool { return p != nil && *p == f.Name }
				hdr := f.prefix
				if len(hdr) > 64 {
					hdr = hdr[:64]
				}
				idx = run.Add(common.App("CaseBig", common.ByteList(hdr), common.N(uint64(f.Version)), common.N(uint64(f.NameLen)), common.Bool(eq(f.Fast)), common.Bool(eq(f.Rdr)), common.Bool(eq(f.Li))),
					map[string]interface{}{"kind": "file-long-name", "spec": f}, true)
			} else {
				term := common.App("CaseFile", common.ByteList(f.prefix), common.N(uint64(f.Version)), common.ByteList([]byte(f.Name)),
					optBytes(f.Fast), optBytes(f.Rdr), optBytes(f.Li), common.List(ents))
				idx = run.Add(term, map[string]interface{}{"kind": "file", "spec": f}, f.Mode != "fresh")
			}
			// Go-side: the explorer's counts agree with the lifter (first scan only: later rounds may
			// have replaced the file)
			if sd := d.details[f.Name]; sd != nil && has3 && len(d.rounds) > 0 {
				inFirst := false
				for _, p := range d.rounds[0].present {
					inFirst = inFirst || p == f
				}
				if inFirst && (sd.EntryCount != f.sumEnt || sd.BlockCount != f.nBlocks || sd.Version != f.Version) {
					run.Violate(idx, "listing describes the swamps on disk", "listing_counts_differ",
						fmt.Sprintf("mode %s: explorer entry/block/version %d/%d/%d, file has %d/%d/%d", f.Mode, sd.EntryCount, sd.BlockCount, sd.Version, f.sumEnt, f.nBlocks, f.Version))
				}
			}
		}
		for ri, rd := range d.rounds {
			var written []string
			listedWant, skipped := 0, 0
			for _, f := range rd.present {
				has3 := strings.Count(f.Name, "/") >= 2
				if has3 {
					listedWant++
				} else {
					skipped++
				}
				written = append(written, common.Pair(common.N(id(f.Name)), common.Bool(has3)))
			}
			var listing []string
			for _, l := range rd.listing {
				v, ok := ids[l]
				if !ok {
					v = 999999
				}
				listing = append(listing, common.N(v))
			}
			var specs []interface{}
			for _, f := range rd.present {
				specs = append(specs, f)
			}
			idx := run.Add(common.App("CaseDir", common.List(written), common.List(listing)),
				map[string]interface{}{"kind": "directory", "scan": ri + 1, "what": rd.what, "files_on_disk": specs, "listing": len(rd.listing), "errors": d.errs},
				(listedWant >= 3 && skipped >= 1) || ri > 0)
			if ri == 0 {
				run.Hist("directories")
			} else {
				run.Hist(rd.what)
			}
			if rd.viewsBad != "" {
				run.Violate(idx, "listing contains exactly the swamps present on disk", "listing_views_disagree", rd.what+": "+rd.viewsBad)
			}
		}
	}
	run.Meta.Traces = run.Meta.Evaluations
	run.Finish("check_all")
}
