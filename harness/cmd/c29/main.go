// c29: correspondence check for "fast swamp-name discovery agrees with the stored name".
//
// Every directory case builds a data directory of real .hyd files – written by the real engine
// (fresh, appended over several sessions, compacted through Compactor.ForceCompact,
// CompactFromIndex and the chronicler's ForceCompaction, still open in a writer) or laid out in
// the legacy V2 format (name in an OpMetadata entry; no V2 writer exists in the tree any more,
// so the harness lays the blocks out with the engine's own CompressEntries/Serialize) and then
// appended to / compacted by the current engine.  For every file it records v2.ReadSwampName,
// NewFileReader().GetSwampName(), LoadIndex's name and the first bytes of the file (CaseFile);
// for the directory it runs the real explorer scan and records the listing (CaseDir).
// Storage/C29Check.v compares with the names used to write and replays the header/name model.
package main

import (
	"context"
	"fmt"
	"io"
	"log/slog"
	"os"
	"path/filepath"
	"strings"

	"github.com/hydraide/hydraide/app/core/hydra/swamp/chronicler"
	v2 "github.com/hydraide/hydraide/app/core/hydra/swamp/chronicler/v2"
	"github.com/hydraide/hydraide/app/core/hydra/swamp/treasure"
	"github.com/hydraide/hydraide/app/core/hydra/swamp/treasure/guard"
	"github.com/hydraide/hydraide/app/server/explorer"
	"verif/harness/common"
)

var modes = []string{"fresh", "appended", "force-compact", "compact-from-index", "chronicler", "v2-legacy", "v2-appended", "v2-compacted", "open-writer"}

type fileSpec struct {
	Mode    string `json:"mode"`
	Name    string `json:"-"`
	NameLen int    `json:"name_len"`
	NameStr string `json:"name,omitempty"`
	Rel     string `json:"path"`
	// observations
	Exists  bool    `json:"exists"`
	Version uint16  `json:"version"`
	Fast    *string `json:"-"`
	Rdr     *string `json:"-"`
	Li      *string `json:"-"`
	FastErr string  `json:"fast_err,omitempty"`
	prefix  []byte
	entries []v2.Entry
	open    *v2.FileWriter
	sumEnt  uint64
	nBlocks uint64
}

func randName(rng *common.Rng, pool []string) string {
	part := func() string {
		// most names of one directory share sanctuaries and realms, as real data does
		if len(pool) > 0 && rng.Chance(70) {
			return pool[rng.Intn(len(pool))]
		}
		return freshPart(rng)
	}
	switch r := rng.Intn(100); {
	case r < 3:
		return ""
	case r < 6:
		return part()
	case r < 10:
		return part() + "/" + part()
	case r < 16:
		return part() + "/" + part() + "/" + freshPart(rng) + "/" + freshPart(rng) // the swamp part may contain '/'
	case r < 19:
		return part() + "//" + freshPart(rng)
	}
	return part() + "/" + part() + "/" + freshPart(rng)
}

func freshPart(rng *common.Rng) string {
	{
		n := 1 + rng.Intn(12)
		if rng.Chance(8) {
			n = 60 + rng.Intn(60)
		}
		var sb strings.Builder
		for i := 0; i < n; i++ {
			switch rng.Intn(12) {
			case 0:
				sb.WriteString("é")
			case 1:
				sb.WriteString("水")
			case 2:
				sb.WriteString("-")
			default:
				sb.WriteByte("abcdefghijklmnopqrstuvwxyz0123456789"[rng.Intn(36)])
			}
		}
		return sb.String()
	}
}

func someEntries(rng *common.Rng, n int) []v2.Entry {
	var es []v2.Entry
	for i := 0; i < n; i++ {
		k := fmt.Sprintf("k%d", rng.Intn(6))
		switch rng.Intn(4) {
		case 0:
			es = append(es, v2.Entry{Operation: v2.OpDelete, Key: k})
		default:
			es = append(es, v2.Entry{Operation: uint8(1 + rng.Intn(2)), Key: k, Data: rng.Bytes(1 + rng.Intn(40))})
		}
	}
	// make sure something stays alive so that compaction keeps the file
	es = append(es, v2.Entry{Operation: v2.OpInsert, Key: "alive", Data: []byte("x")})
	return es
}

func writeSessions(path, name string, rng *common.Rng, sessions int) error {
	for s := 0; s < sessions; s++ {
		nm := name
		if s > 0 && rng.Bool() {
			nm = "other/name/ignored" // the name passed when re-opening an existing file is ignored
		}
		fw, err := v2.NewFileWriterWithName(path, []int{64, 1024, 16384}[rng.Intn(3)], nm)
		if err != nil {
			return err
		}
		for _, e := range someEntries(rng, 1+rng.Intn(12)) {
			if err := fw.WriteEntry(e); err != nil {
				fw.Close()
				return err
			}
		}
		if err := fw.Close(); err != nil {
			return err
		}
	}
	return nil
}

// legacy layout: version 2 header, NameLength 0, first entry of the first block is the metadata entry
func writeV2Legacy(path, name string, rng *common.Rng) error {
	all := append([]v2.Entry{{Operation: v2.OpMetadata, Key: v2.MetadataEntryKey, Data: []byte(name)}}, someEntries(rng, 1+rng.Intn(10))...)
	var body []byte
	var bc, ec uint64
	for len(all) > 0 {
		n := 1 + rng.Intn(len(all))
		bh, comp, err := v2.CompressEntries(all[:n])
		if err != nil {
			return err
		}
		body = append(body, bh.Serialize()...)
		body = append(body, comp...)
		bc++
		ec += uint64(n)
		all = all[n:]
	}
	h := v2.FileHeader{Magic: [4]byte{'H', 'Y', 'D', 'R'}, Version: v2.Version2, CreatedAt: 1, ModifiedAt: 1,
		BlockSize: v2.DefaultMaxBlockSize, EntryCount: ec, BlockCount: bc}
	return os.WriteFile(path, append(h.Serialize(), body...), 0o644)
}

func build(f *fileSpec, path string, rng *common.Rng) error {
	name := f.Name
	switch f.Mode {
	case "fresh":
		return writeSessions(path, name, rng, 1)
	case "appended":
		return writeSessions(path, name, rng, 2+rng.Intn(3))
	case "force-compact":
		if err := writeSessions(path, name, rng, 1+rng.Intn(2)); err != nil {
			return err
		}
		_, err := v2.NewCompactor(path, 1024, 0.3).ForceCompact()
		return err
	case "compact-from-index":
		if err := writeSessions(path, name, rng, 1+rng.Intn(2)); err != nil {
			return err
		}
		fr, err := v2.NewFileReader(path)
		if err != nil {
			return err
		}
		idx, nm, err := fr.LoadIndex()
		fr.Close()
		if err != nil {
			return err
		}
		_, err = v2.CompactFromIndex(path, 1024, nm, idx, 100)
		return err
	case "chronicler":
		c := chronicler.NewV2WithName(strings.TrimSuffix(path, ".hyd"), 3, name)
		c.CreateDirectoryIfNotExists()
		var ts []treasure.Treasure
		for i := 0; i < 3+rng.Intn(8); i++ {
			tr := treasure.New(nil)
			g := tr.StartTreasureGuard(false, guard.BodyAuthID)
			tr.BodySetKey(g, fmt.Sprintf("k%d", rng.Intn(4)))
			tr.SetContentString(g, fmt.Sprintf("v%d", i))
			tr.ReleaseTreasureGuard(g)
			ts = append(ts, tr)
		}
		c.Write(ts)
		if rng.Bool() {
			if err := c.ForceCompaction(); err != nil {
				return err
			}
			c.Write(ts[:1])
		}
		return c.Close()
	case "v2-legacy":
		return writeV2Legacy(path, name, rng)
	case "v2-appended":
		if err := writeV2Legacy(path, name, rng); err != nil {
			return err
		}
		return writeSessions(path, "ignored/on/existing", rng, 1+rng.Intn(2))
	case "v2-compacted":
		if err := writeV2Legacy(path, name, rng); err != nil {
			return err
		}
		_, err := v2.NewCompactor(path, 1024, 0.3).ForceCompact()
		return err
	case "open-writer":
		fw, err := v2.NewFileWriterWithName(path, 64, name)
		if err != nil {
			return err
		}
		for _, e := range someEntries(rng, 2+rng.Intn(8)) {
			if err := fw.WriteEntry(e); err != nil {
				fw.Close()
				return err
			}
		}
		if rng.Bool() {
			fw.Flush()
		}
		f.open = fw
		return nil
	}
	return fmt.Errorf("unknown mode")
}

func observe(f *fileSpec, path string) {
	if _, err := os.Stat(path); err != nil {
		return
	}
	f.Exists = true
	if s, err := v2.ReadSwampName(path); err == nil {
		f.Fast = &s
	} else {
		f.FastErr = err.Error()
	}
	if fr, err := v2.NewFileReader(path); err == nil {
		s := fr.GetSwampName()
		f.Rdr = &s
		f.Version = fr.GetHeader().Version
		if _, nm, err := fr.LoadIndex(); err == nil {
			f.Li = &nm
		}
		if blocks, err := fr.ReadAllBlocks(); err == nil {
			f.nBlocks = uint64(len(blocks))
			for i, b := range blocks {
				f.sumEnt += uint64(len(b.Entries))
				if i == 0 && f.Version == v2.Version2 {
					f.entries = b.Entries
					if len(f.entries) > 3 {
						f.entries = f.entries[:3]
					}
				}
			}
		}
		fr.Close()
	}
	raw, err := os.ReadFile(path)
	if err == nil {
		n := 64
		if len(raw) >= 64 && raw[4] == 3 {
			n += int(raw[44]) | int(raw[45])<<8
		}
		if n > len(raw) {
			n = len(raw)
		}
		f.prefix = raw[:n]
	}
}

func optBytes(s *string) string {
	if s == nil {
		return "None"
	}
	return common.Some(common.ByteList([]byte(*s)))
}

func main() {
	slog.SetDefault(slog.New(slog.NewTextHandler(io.Discard, nil)))
	a := common.ParseArgs()
	run := common.NewRun(a, "C29", "HV.Storage.C29Check")
	run.Meta.Rule = "a directory case is a data directory of 1..8 real .hyd files (fresh, appended, compacted through each entry point, chronicler-written, legacy V2 layout plain/appended/compacted, still open in a writer) under random UTF-8 names (three-part, and two-/one-part/empty ones that the explorer must skip), scanned by the real explorer; a file case is one of those files with ReadSwampName / GetSwampName / LoadIndex observations and its header bytes; non-trivial file case = the file went through at least one append session, compaction or format upgrade, or is a legacy file; non-trivial directory = at least 3 listed swamps and one skipped file"
	rng := common.NewRng(a.Seed, "C29")
	ndirs := 150
	if a.Tier == "thorough" {
		ndirs = 3000
	}
	tmpRoot := a.Out
	if st, e := os.Stat("/dev/shm"); e == nil && st.IsDir() {
		tmpRoot = "/dev/shm"
	}
	tmp, err := os.MkdirTemp(tmpRoot, "c29-files")
	if err != nil {
		fmt.Fprintln(os.Stderr, err)
		os.Exit(2)
	}
	defer os.RemoveAll(tmp)

	type dirJob struct {
		files   []*fileSpec
		listing []string
		details map[string]*explorer.SwampDetail
		errs    []string
	}
	jobs := make([]*dirJob, ndirs)
	seeds := make([]*common.Rng, ndirs)
	for i := range jobs {
		seeds[i] = rng.Fork("dir")
	}
	common.Parallel(ndirs, 16, func(i int) {
		r := seeds[i]
		d := &dirJob{details: map[string]*explorer.SwampDetail{}}
		jobs[i] = d
		root := filepath.Join(tmp, fmt.Sprintf("d%d", i))
		nf := 1 + r.Intn(8)
		pool := []string{freshPart(r), freshPart(r), freshPart(r)}
		used := map[string]bool{}
		for k := 0; k < nf; k++ {
			nm := randName(r, pool)
			if i%40 == 7 && k == 0 {
				nm = "s/r/" + strings.Repeat("n", 65535-4)
			}
			if i%40 == 9 && k == 0 {
				nm = "s/r/" + strings.Repeat("n", 65536-4)
			}
			if used[nm] {
				continue
			}
			used[nm] = true
			f := &fileSpec{Mode: modes[r.Intn(len(modes))], Name: nm, NameLen: len(nm)}
			if len(nm) > 300 {
				f.Mode = "fresh"
			} else {
				f.NameStr = nm
			}
			if nm == "" && strings.HasPrefix(f.Mode, "v2") {
				f.Mode = "fresh" // a legacy file always carries its name
			}
			f.Rel = filepath.Join(fmt.Sprintf("%d", 100+r.Intn(3)), fmt.Sprintf("%02x", r.Intn(256)), fmt.Sprintf("f%d.hyd", k))
			path := filepath.Join(root, f.Rel)
			os.MkdirAll(filepath.Dir(path), 0o755)
			if err := build(f, path, r); err != nil {
				d.errs = append(d.errs, fmt.Sprintf("%s(name %d bytes): %v", f.Mode, len(nm), err))
			}
			observe(f, path)
			d.files = append(d.files, f)
		}
		ex := explorer.New(root)
		if err := ex.Scan(context.Background()); err != nil {
			d.errs = append(d.errs, "scan: "+err.Error())
		}
		res := ex.ListSwamps(&explorer.SwampFilter{Limit: 100000})
		for _, sd := range res.Swamps {
			full := sd.Sanctuary + "/" + sd.Realm + "/" + sd.Swamp
			d.listing = append(d.listing, full)
			d.details[full] = sd
		}
		for _, f := range d.files {
			if f.open != nil {
				f.open.Close()
			}
		}
		os.RemoveAll(root)
	})

	for _, d := range jobs {
		ids := map[string]uint64{}
		id := func(s string) uint64 {
			if v, ok := ids[s]; ok {
				return v
			}
			v := uint64(len(ids) + 1)
			ids[s] = v
			return v
		}
		var written []string
		listedWant, skipped := 0, 0
		for _, f := range d.files {
			run.Hist("mode_" + f.Mode)
			if !f.Exists {
				run.Hist("file_not_created")
				if f.NameLen <= 300 {
					// the engine refused to create a file for an acceptable name: report as a file case
					// that cannot match (fast = None)
					run.Add(common.App("CaseFile", "[]", "0", common.ByteList([]byte(f.Name)), "None", "None", "None", "[]"),
						map[string]interface{}{"kind": "file", "spec": f, "errors": d.errs}, false)
				}
				continue
			}
			has3 := strings.Count(f.Name, "/") >= 2
			if has3 {
				listedWant++
			} else {
				skipped++
			}
			written = append(written, common.Pair(common.N(id(f.Name)), common.Bool(has3)))
			var ents []string
			for _, e := range f.entries {
				ents = append(ents, common.Pair(common.Pair(common.N(uint64(e.Operation)), common.ByteList([]byte(e.Key))), common.ByteList(e.Data)))
			}
			if f.NameLen > 300 {
				eq := func(p *string) bool { return p != nil && *p == f.Name }
				hdr := f.prefix
				if len(hdr) > 64 {
					hdr = hdr[:64]
				}
				run.Add(common.App("CaseBig", common.ByteList(hdr), common.N(uint64(f.NameLen)), common.Bool(eq(f.Fast)), common.Bool(eq(f.Rdr)), common.Bool(eq(f.Li))),
					map[string]interface{}{"kind": "file-long-name", "spec": f}, true)
				continue
			}
			term := common.App("CaseFile", common.ByteList(f.prefix), common.N(uint64(f.Version)), common.ByteList([]byte(f.Name)),
				optBytes(f.Fast), optBytes(f.Rdr), optBytes(f.Li), common.List(ents))
			idx := run.Add(term, map[string]interface{}{"kind": "file", "spec": f}, f.Mode != "fresh")
			// Go-side: the explorer's counts agree with the lifter
			if sd := d.details[f.Name]; sd != nil && has3 {
				if sd.EntryCount != f.sumEnt || sd.BlockCount != f.nBlocks || sd.Version != f.Version {
					run.Violate(idx, "listing describes the swamps on disk", "listing_counts_differ",
						fmt.Sprintf("mode %s: explorer entry/block/version %d/%d/%d, file has %d/%d/%d", f.Mode, sd.EntryCount, sd.BlockCount, sd.Version, f.sumEnt, f.nBlocks, f.Version))
				}
			}
		}
		var listing []string
		for _, l := range d.listing {
			v, ok := ids[l]
			if !ok {
				v = 999999
			}
			listing = append(listing, common.N(v))
		}
		var specs []interface{}
		for _, f := range d.files {
			specs = append(specs, f)
		}
		run.Add(common.App("CaseDir", common.List(written), common.List(listing)),
			map[string]interface{}{"kind": "directory", "files": specs, "listing": len(d.listing), "errors": d.errs},
			listedWant >= 3 && skipped >= 1)
		run.Hist("directories")
	}
	run.Meta.Traces = run.Meta.Evaluations
	run.Finish("check_all")
}
