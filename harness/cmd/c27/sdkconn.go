package main

// The real SDK on a bufconn connection to the in-process gateway, like rig.Server.SDK(), plus a
// unary client interceptor that records every catalog call Hydrex issues (per case: the realm
// of the swamp name carries the case number).

import (
	"context"
	"net"
	"strings"
	"sync"

	"github.com/hydraide/hydraide/sdk/go/hydraidego/v3"
	"github.com/hydraide/hydraide/sdk/go/hydraidego/v3/client"
	hydrapb "github.com/hydraide/hydraide/sdk/go/hydraidego/v3/hydraidepbgo"
	sdkname "github.com/hydraide/hydraide/sdk/go/hydraidego/v3/name"
	"google.golang.org/grpc"
	"google.golang.org/grpc/credentials/insecure"
	"google.golang.org/grpc/test/bufconn"
	"verif/harness/rig"
)

type fakeClient struct{ sc hydrapb.HydraideServiceClient }

func (f *fakeClient) Connect(bool) error { return nil }
func (f *fakeClient) CloseConnection()   {}
func (f *fakeClient) GetServiceClient(sdkname.Name) hydrapb.HydraideServiceClient {
	return f.sc
}
func (f *fakeClient) GetServiceClientAndHost(sdkname.Name) *client.ServiceClient {
	return &client.ServiceClient{GrpcClient: f.sc, Host: "bufconn"}
}
func (f *fakeClient) GetUniqueServiceClients() []hydrapb.HydraideServiceClient {
	return []hydrapb.HydraideServiceClient{f.sc}
}
func (f *fakeClient) GetAllIslands() uint64 { return 1000 }

// one recorded catalog call on one swamp
type call struct {
	Kind   string            `json:"kind"` // read | set | del | destroy
	Swamp  string            `json:"swamp"`
	Keys   []string          `json:"keys,omitempty"`
	Vals   map[string]string `json:"vals,omitempty"`
	Status []string          `json:"status,omitempty"`
	Err    string            `json:"err,omitempty"`
}

type recorder struct {
	mu   sync.Mutex
	logs map[string][]call // case tag ("c12") -> calls
}

func caseTag(swamp string) string {
	p := strings.Split(swamp, "/")
	if len(p) != 3 {
		return ""
	}
	x := strings.Index(p[1], "x")
	if x < 0 {
		return ""
	}
	return p[1][:x]
}

func (r *recorder) add(c call) {
	tag := caseTag(c.Swamp)
	r.mu.Lock()
	r.logs[tag] = append(r.logs[tag], c)
	r.mu.Unlock()
}

func sval(p *string) string {
	if p == nil {
		return ""
	}
	return *p
}

func (r *recorder) intercept(ctx context.Context, method string, req, reply any, cc *grpc.ClientConn, invoker grpc.UnaryInvoker, opts ...grpc.CallOption) error {
	err := invoker(ctx, method, req, reply, cc, opts...)
	es := ""
	if err != nil {
		es = err.Error()
	}
	switch q := req.(type) {
	case *hydrapb.GetByIndexRequest:
		c := call{Kind: "read", Swamp: q.GetSwampName(), Vals: map[string]string{}, Err: es}
		if err == nil {
			for _, t := range reply.(*hydrapb.GetByIndexResponse).GetTreasures() {
				if !t.GetIsExist() {
					continue
				}
				c.Keys = append(c.Keys, t.GetKey())
				c.Vals[t.GetKey()] = sval(t.StringVal)
			}
		}
		r.add(c)
	case *hydrapb.SetRequest:
		if err != nil {
			for _, sw := range q.GetSwamps() {
				r.add(call{Kind: "set-failed", Swamp: sw.GetSwampName(), Err: es})
			}
			break
		}
		resp := reply.(*hydrapb.SetResponse).GetSwamps()
		for i, sw := range q.GetSwamps() {
			c := call{Kind: "set", Swamp: sw.GetSwampName(), Vals: map[string]string{}}
			for _, kv := range sw.GetKeyValues() {
				c.Keys = append(c.Keys, kv.GetKey())
				c.Vals[kv.GetKey()] = sval(kv.StringVal)
			}
			if i < len(resp) {
				for _, ks := range resp[i].GetKeysAndStatuses() {
					c.Status = append(c.Status, ks.GetStatus().String())
				}
			}
			r.add(c)
		}
	case *hydrapb.DeleteRequest:
		if err != nil {
			for _, sw := range q.GetSwamps() {
				r.add(call{Kind: "del-failed", Swamp: sw.GetSwampName(), Err: es})
			}
			break
		}
		resp := reply.(*hydrapb.DeleteResponse).GetResponses()
		for i, sw := range q.GetSwamps() {
			c := call{Kind: "del", Swamp: sw.GetSwampName(), Keys: sw.GetKeys()}
			if i < len(resp) {
				if resp[i].ErrorCode != nil {
					c.Status = append(c.Status, "swamp:"+resp[i].GetErrorCode().String())
				}
				for _, ks := range resp[i].GetKeyStatuses() {
					c.Status = append(c.Status, ks.GetStatus().String())
				}
			}
			r.add(c)
		}
	case *hydrapb.DestroyRequest:
		k := "destroy"
		if err != nil {
			k = "destroy-failed"
		}
		r.add(call{Kind: k, Swamp: q.GetSwampName(), Err: es})
	}
	return err
}

func connect(s *rig.Server) (hydraidego.Hydraidego, *recorder, func()) {
	rec := &recorder{logs: map[string][]call{}}
	lis := bufconn.Listen(4 << 20)
	gs := grpc.NewServer(grpc.MaxRecvMsgSize(1<<30), grpc.MaxSendMsgSize(1<<30))
	hydrapb.RegisterHydraideServiceServer(gs, s.GW)
	go func() { _ = gs.Serve(lis) }()
	conn, err := grpc.NewClient("passthrough:///bufnet",
		grpc.WithContextDialer(func(ctx context.Context, _ string) (net.Conn, error) { return lis.DialContext(ctx) }),
		grpc.WithTransportCredentials(insecure.NewCredentials()),
		grpc.WithUnaryInterceptor(rec.intercept),
		grpc.WithDefaultCallOptions(grpc.MaxCallRecvMsgSize(1<<30), grpc.MaxCallSendMsgSize(1<<30)))
	if err != nil {
		panic(err)
	}
	sc := hydrapb.NewHydraideServiceClient(conn)
	return hydraidego.New(&fakeClient{sc: sc}), rec, func() { conn.Close(); gs.Stop(); lis.Close() }
}
