// c27: correspondence check for Hydrex (sdk/go/hydraidego/hydrex) against Sdk/Hydrex.v.
//
// The real hydrex.New runs on the real Go SDK, connected over bufconn to the in-process gateway
// and engine.  A case is a sequence of 1..40 Save/Destroy calls over 2 index names x 3 domains x
// 4 keys (values drawn from a small set, so that unchanged, changed, added and removed keys all
// occur), followed by GetCoreData for every (index, domain) and GetIndexData for every
// (index, key).  The case term carries the operations and the observations; Sdk/Hydrex.v
// evaluates the two clauses of the property on the observations alone and replays the
// operations on the model.
package main

import (
	"context"
	"fmt"
	"os"
	"sort"
	"strconv"
	"strings"
	"time"

	"github.com/hydraide/hydraide/sdk/go/hydraidego/v3/hydrex"
	"verif/harness/common"
	"verif/harness/rig"
)

const (
	nIdx = 2
	nDom = 3
	nKey = 4
	nVal = 4
)

type hop struct {
	Save  bool        `json:"save"`
	I     int         `json:"i"`
	D     int         `json:"d"`
	Items map[int]int `json:"items,omitempty"` // key id -> value id
	Old   []int       `json:"-"`
	New   []int       `json:"-"`
	Pause bool        `json:"pause_before,omitempty"` // sleep > idle-close time before this op
}

type hcase struct {
	Ops    []hop  `json:"ops"`
	Kind   string `json:"kind"`
	Scheme int    `json:"naming_scheme"` // index into namings
}

type obs struct {
	core  map[[2]int]map[int]string // (i,d) -> key -> value string
	coreN map[[2]int]int            // number of rows returned
	index map[[2]int][]int          // (i,k) -> domains
	bad   []string
}

// The model abstracts strings to ids; it is sound only if Hydrex treats DIFFERENT strings as
// different names.  So the strings behind the ids are chosen to be as confusable as possible:
// variants in letter case, surrounding / inner whitespace, punctuation, prefixes of each other,
// long names, non-ASCII letters.
type naming struct {
	Idx, Dom, Key, Val []string
}

var long200 = strings.Repeat("k", 200)

var namings = []naming{
	{Idx: []string{"0", "1"}, Dom: []string{"dom0", "dom1", "dom2"}, Key: []string{"key0", "key1", "key2", "key3"}, Val: []string{"val0", "val1", "val2", "val3"}},
	{Idx: []string{"a", "A"}, Dom: []string{"site", "SITE", "Site"}, Key: []string{"seo", "SEO", "Seo", "sEO"}, Val: []string{"on", "ON", "On", "oN"}},
	{Idx: []string{"p-q", "p_q"}, Dom: []string{"d e", "d  e", " d e"}, Key: []string{"tag", "tag ", " tag", "t ag"}, Val: []string{"y", " y", "y ", "y\t"}},
	{Idx: []string{"n", "nn"}, Dom: []string{"d", "dd", "d.d"}, Key: []string{"k", "kk", long200, "k\u00e9"}, Val: []string{"v", "vv", "\u00e9", "\u00c9"}},
	{Idx: []string{"I\u0307", "i"}, Dom: []string{"\u00c4b", "\u00e4b", "ab"}, Key: []string{"Stra\u00dfe", "STRASSE", "strasse", "Strasse"}, Val: []string{"0", "00", "+0", "0.0"}},
}

func (c *hcase) nm() naming             { return namings[c.Scheme%len(namings)] }
func (c *hcase) idxName(ci, i int) string { return fmt.Sprintf("c%dx%s", ci, c.nm().Idx[i]) }
func (c *hcase) domName(d int) string     { return c.nm().Dom[d] }
func (c *hcase) keyName(k int) string     { return c.nm().Key[k] }
func (c *hcase) valName(v int) string     { return c.nm().Val[v] }

func idOf(list []string, s string) int {
	for i, x := range list {
		if x == s {
			return i
		}
	}
	return -1
}

func parseSuffix(s, prefix string) int {
	if !strings.HasPrefix(s, prefix) {
		return -1
	}
	n, err := strconv.Atoi(s[len(prefix):])
	if err != nil {
		return -1
	}
	return n
}

func perm(r *common.Rng, n int) []int {
	p := make([]int, n)
	for i := range p {
		p[i] = i
	}
	for i := n - 1; i > 0; i-- {
		j := r.Intn(i + 1)
		p[i], p[j] = p[j], p[i]
	}
	return p
}

func genCase(r *common.Rng, maxOps int, allowPause bool) hcase {
	n := 1 + r.Intn(maxOps)
	// concentrate some cases on one (index, domain) so that long per-domain histories occur
	focus := r.Chance(35)
	fi, fd := r.Intn(nIdx), r.Intn(nDom)
	c := hcase{Kind: "random"}
	if focus {
		c.Kind = "focused"
	}
	if !r.Chance(30) { // 70%: names that differ only in case / whitespace / punctuation / length / non-ASCII letters
		c.Scheme = 1 + r.Intn(len(namings)-1)
	}
	for j := 0; j < n; j++ {
		o := hop{I: r.Intn(nIdx), D: r.Intn(nDom)}
		if focus && r.Chance(75) {
			o.I, o.D = fi, fd
		}
		o.Save = r.Chance(82)
		if o.Save {
			o.Items = map[int]int{}
			if !r.Chance(8) { // 8%: empty map
				p := 25 + r.Intn(60)
				for k := 0; k < nKey; k++ {
					if r.Chance(p) {
						o.Items[k] = r.Intn(nVal)
					}
				}
			}
		}
		o.Old, o.New = perm(r, nKey), perm(r, nKey)
		if allowPause && r.Chance(3) {
			o.Pause = true
		}
		c.Ops = append(c.Ops, o)
	}
	return c
}

// the refutation witness of Sdk/HydrexProofs.v (old code) and a few fixed shapes
func corpus() []hcase {
	sv := func(i, d int, kv ...int) hop {
		m := map[int]int{}
		for j := 0; j+1 < len(kv); j += 2 {
			m[kv[j]] = kv[j+1]
		}
		return hop{Save: true, I: i, D: d, Items: m, Old: []int{0, 1, 2, 3}, New: []int{0, 1, 2, 3}}
	}
	ds := func(i, d int) hop { return hop{I: i, D: d, Old: []int{}, New: []int{}} }
	cs := []hcase{
		{Kind: "corpus", Ops: []hop{sv(0, 0, 0, 0), sv(0, 0, 0, 1)}},                          // k0:a then k0:b
		{Kind: "corpus", Ops: []hop{sv(0, 0, 0, 0, 1, 1), sv(0, 1, 0, 2), sv(0, 0, 1, 3, 2, 0)}}, // add/remove/change
		{Kind: "corpus", Ops: []hop{sv(0, 0, 0, 0, 1, 1), sv(0, 1, 0, 0), ds(0, 0), sv(0, 0, 1, 2)}},
		{Kind: "corpus", Ops: []hop{sv(1, 2, 0, 0, 1, 1, 2, 2, 3, 3), sv(1, 2), sv(1, 2, 3, 1)}},
		{Kind: "corpus", Ops: []hop{ds(0, 0), sv(0, 0, 2, 2), sv(0, 0, 2, 2), sv(0, 0, 2, 3), sv(0, 0, 2, 2)}},
	}
	// confusable names must stay distinct: per naming scheme, (a) a domain holds all key variants and a
	// later Save drops some; (b) domain variants share a key and one is destroyed; (c) index-name
	// variants hold the same domain/key and one is destroyed; (d) a value changes to a variant of itself
	for sc := 1; sc < len(namings); sc++ {
		cs = append(cs,
			hcase{Kind: "corpus-names", Scheme: sc, Ops: []hop{sv(0, 0, 0, 0, 1, 1, 2, 2, 3, 3), sv(0, 0, 1, 1, 3, 3), sv(0, 0, 3, 3)}},
			hcase{Kind: "corpus-names", Scheme: sc, Ops: []hop{sv(0, 0, 0, 0), sv(0, 1, 0, 0), sv(0, 2, 0, 0), ds(0, 1), sv(0, 2)}},
			hcase{Kind: "corpus-names", Scheme: sc, Ops: []hop{sv(0, 0, 0, 0, 1, 0), sv(1, 0, 0, 0, 1, 0), ds(1, 0), sv(0, 0, 1, 0)}},
			hcase{Kind: "corpus-names", Scheme: sc, Ops: []hop{sv(0, 0, 0, 0, 1, 1), sv(0, 0, 0, 1, 1, 2), sv(0, 0, 0, 2, 1, 3), sv(0, 0, 0, 3, 1, 0)}})
	}
	return cs
}

func runCase(hx hydrex.Hydrex, ci int, c hcase) obs {
	ctx, cancel := context.WithTimeout(context.Background(), 120*time.Second)
	defer cancel()
	for _, o := range c.Ops {
		if o.Pause {
			time.Sleep(1300 * time.Millisecond) // CloseAfterIdle of the Hydrex patterns is 1 s
		}
		if o.Save {
			items := map[string]*hydrex.CoreData{}
			for k, v := range o.Items {
				items[c.keyName(k)] = &hydrex.CoreData{Key: c.keyName(k), Value: c.valName(v), CreatedAt: time.Now()}
			}
			hx.Save(ctx, c.idxName(ci, o.I), c.domName(o.D), items)
		} else {
			hx.Destroy(ctx, c.idxName(ci, o.I), c.domName(o.D))
		}
	}
	ob := obs{core: map[[2]int]map[int]string{}, coreN: map[[2]int]int{}, index: map[[2]int][]int{}}
	for i := 0; i < nIdx; i++ {
		for d := 0; d < nDom; d++ {
			rows := hx.GetCoreData(ctx, c.idxName(ci, i), c.domName(d))
			m := map[int]string{}
			for _, row := range rows {
				k := idOf(c.nm().Key, row.Key)
				if k < 0 {
					ob.bad = append(ob.bad, fmt.Sprintf("core (%d,%d): foreign key %q", i, d, row.Key))
					k = 1000 + len(ob.bad)
				}
				if _, dup := m[k]; dup {
					ob.bad = append(ob.bad, fmt.Sprintf("core (%d,%d): key %q twice", i, d, row.Key))
				}
				m[k] = row.Value
			}
			ob.core[[2]int{i, d}] = m
			ob.coreN[[2]int{i, d}] = len(rows)
		}
		for k := 0; k < nKey; k++ {
			rows := hx.GetIndexData(ctx, c.idxName(ci, i), c.keyName(k))
			var ds []int
			for _, row := range rows {
				d := idOf(c.nm().Dom, row.Domain)
				if d < 0 {
					ob.bad = append(ob.bad, fmt.Sprintf("index (%d,%d): foreign domain %q", i, k, row.Domain))
					d = 1000 + len(ob.bad)
				}
				ds = append(ds, d) // duplicates are kept: the Coq side checks NoDup
			}
			sort.Ints(ds)
			ob.index[[2]int{i, k}] = ds
		}
	}
	return ob
}

func nlist(xs []int) string {
	s := make([]string, len(xs))
	for i, x := range xs {
		s[i] = strconv.Itoa(x)
	}
	return common.List(s)
}

func rangeList(n int) string {
	xs := make([]int, n)
	for i := range xs {
		xs[i] = i
	}
	return nlist(xs)
}

func (hc *hcase) valID(s string) int {
	v := idOf(hc.nm().Val, s)
	if v < 0 {
		return 999 // a value Hydrex never was given
	}
	return v
}

// "hydraideCoreData/c12x<idx>/<domain>" -> Coq sname; ok=false for names Hydrex should never touch
func (hc *hcase) snameTerm(sw string) (string, bool) {
	p := strings.SplitN(sw, "/", 3)
	if len(p) != 3 {
		return "", false
	}
	x := strings.Index(p[1], "x")
	if x < 0 {
		return "", false
	}
	i := idOf(hc.nm().Idx, p[1][x+1:])
	if i < 0 {
		return "", false
	}
	switch p[0] {
	case "hydraideCoreData":
		if d := idOf(hc.nm().Dom, p[2]); d >= 0 {
			return fmt.Sprintf("(core_name %d %d)", i, d), true
		}
	case "hydraideIndex":
		if k := idOf(hc.nm().Key, p[2]); k >= 0 {
			return fmt.Sprintf("(idx_name %d %d)", i, k), true
		}
	}
	return "", false
}

func (hc *hcase) rowID(sw, key string) int {
	if strings.HasPrefix(sw, "hydraideCoreData/") {
		if k := idOf(hc.nm().Key, key); k >= 0 {
			return k
		}
	} else if d := idOf(hc.nm().Dom, key); d >= 0 {
		return d
	}
	return 998
}

func (hc *hcase) rowVal(sw, v string) int {
	if strings.HasPrefix(sw, "hydraideCoreData/") {
		return hc.valID(v)
	}
	return 0
}

func (hc *hcase) logTerm(log []call) (string, []string) {
	var out, bad []string
	for _, c := range log {
		sn, ok := hc.snameTerm(c.Swamp)
		if !ok {
			bad = append(bad, fmt.Sprintf("call on a swamp that is none of the case's names: %q", c.Swamp))
			continue
		}
		switch c.Kind {
		case "read":
			if c.Err != "" {
				continue // swamp not found etc.: no rows; Hydrex ignores it
			}
			rows := make([]string, len(c.Keys))
			for i, k := range c.Keys {
				rows[i] = common.Pair(strconv.Itoa(hc.rowID(c.Swamp, k)), strconv.Itoa(hc.rowVal(c.Swamp, c.Vals[k])))
			}
			out = append(out, "CRead "+sn+" "+common.List(rows))
		case "set":
			rows := make([]string, len(c.Keys))
			for i, k := range c.Keys {
				rows[i] = common.Pair(strconv.Itoa(hc.rowID(c.Swamp, k)), strconv.Itoa(hc.rowVal(c.Swamp, c.Vals[k])))
			}
			out = append(out, "CSet "+sn+" "+common.List(rows))
		case "del":
			ks := make([]int, len(c.Keys))
			for i, k := range c.Keys {
				ks[i] = hc.rowID(c.Swamp, k)
			}
			out = append(out, "CDel "+sn+" "+nlist(ks))
		case "destroy":
			out = append(out, "CDestroy "+sn)
		}
	}
	return common.List(out), bad
}

func caseTerm(c hcase, ob obs, log []call) (string, []string) {
	var ops []string
	for j, o := range c.Ops {
		if o.Save {
			keys := make([]int, 0, len(o.Items))
			for k := range o.Items {
				keys = append(keys, k)
			}
			sort.Ints(keys)
			its := make([]string, len(keys))
			for x, k := range keys {
				its[x] = common.Pair(strconv.Itoa(k), strconv.Itoa(o.Items[k]))
			}
			ops = append(ops, fmt.Sprintf("OSave %d %d %s {| o_old := %s; o_new := %s; o_now := %d |}",
				o.I, o.D, common.List(its), nlist(o.Old), nlist(o.New), j+1))
		} else {
			ops = append(ops, fmt.Sprintf("ODestroy %d %d", o.I, o.D))
		}
	}
	var core, index []string
	for i := 0; i < nIdx; i++ {
		for d := 0; d < nDom; d++ {
			m := ob.core[[2]int{i, d}]
			keys := make([]int, 0, len(m))
			for k := range m {
				keys = append(keys, k)
			}
			sort.Ints(keys)
			its := make([]string, 0, len(keys))
			for _, k := range keys {
				its = append(its, common.Pair(strconv.Itoa(k), strconv.Itoa(c.valID(m[k]))))
			}
			// a key returned twice is reported by repeating it (NoDup check on the Coq side)
			for x := len(m); x < ob.coreN[[2]int{i, d}] && len(keys) > 0; x++ {
				its = append(its, common.Pair(strconv.Itoa(keys[0]), strconv.Itoa(c.valID(m[keys[0]]))))
			}
			core = append(core, fmt.Sprintf("((%d, %d), %s)", i, d, common.List(its)))
		}
		for k := 0; k < nKey; k++ {
			index = append(index, fmt.Sprintf("((%d, %d), %s)", i, k, nlist(ob.index[[2]int{i, k}])))
		}
	}
	lt, bad := c.logTerm(log)
	return fmt.Sprintf("{| c_ops := %s;\n     c_idx := %s; c_dom := %s; c_key := %s;\n     c_core := %s;\n     c_index := %s;\n     c_log := %s |}",
		common.List(ops), rangeList(nIdx), rangeList(nDom), rangeList(nKey), common.List(core), common.List(index), lt), bad
}

// classify the history with a trivial Go-side reference (only for the histogram and the
// non-triviality rule; all judgements are made on the Coq side)
func classify(run *common.Run, c hcase) bool {
	cur := map[[2]int]map[int]int{}
	changed, removed, added, destroyedNonEmpty, same := 0, 0, 0, 0, 0
	for _, o := range c.Ops {
		id := [2]int{o.I, o.D}
		if !o.Save {
			if len(cur[id]) > 0 {
				destroyedNonEmpty++
			}
			delete(cur, id)
			continue
		}
		old := cur[id]
		for k, v := range o.Items {
			if ov, ok := old[k]; !ok {
				added++
			} else if ov != v {
				changed++
			} else {
				same++
			}
		}
		for k := range old {
			if _, ok := o.Items[k]; !ok {
				removed++
			}
		}
		m := map[int]int{}
		for k, v := range o.Items {
			m[k] = v
		}
		cur[id] = m
	}
	run.HistN("keys_added", added)
	run.HistN("keys_value_changed", changed)
	run.HistN("keys_unchanged", same)
	run.HistN("keys_removed", removed)
	run.HistN("destroy_of_nonempty_domain", destroyedNonEmpty)
	run.HistN("ops", len(c.Ops))
	return changed+removed+destroyedNonEmpty > 0
}

func main() {
	args := common.ParseArgs()
	rig.Quiet()
	run := common.NewRun(args, "C27", "HV.Sdk.Hydrex")
	run.Shard = 100
	run.Meta.Rule = "non-trivial: the history changes the value of an existing key, removes a key by a later Save, or destroys a non-empty domain"
	root, err := os.MkdirTemp("", "c27-")
	if err != nil {
		panic(err)
	}
	defer os.RemoveAll(root)
	srv := rig.Start(root, true)
	sdk, rec, done := connect(srv)
	hx := hydrex.New(sdk)

	rng := common.NewRng(args.Seed, "C27")
	n := 320
	if args.Tier == "thorough" {
		n = 1500
	}
	cases := corpus()
	for len(cases) < n {
		maxOps := 40
		if rng.Chance(30) {
			maxOps = 8
		}
		cases = append(cases, genCase(rng.Fork("case"), maxOps, true))
	}
	res := make([]obs, len(cases))
	// a second Hydrex instance on the same SDK (registers the patterns again): every third case uses it
	hx2 := hydrex.New(sdk)
	common.Parallel(len(cases), 16, func(i int) {
		h := hx
		if i%3 == 2 {
			h = hx2
		}
		res[i] = runCase(h, i, cases[i])
	})
	for i, c := range cases {
		nt := classify(run, c)
		run.Hist("kind_" + c.Kind)
		run.Hist(fmt.Sprintf("naming_scheme_%d", c.Scheme))
		log := rec.logs[fmt.Sprintf("c%d", i)]
		term, bad := caseTerm(c, res[i], log)
		run.HistN("catalog_calls", len(log))
		idx := run.Add(term, map[string]any{"case": c, "catalog_calls": log}, nt)
		for _, b := range append(bad, res[i].bad...) {
			run.Violate(idx, "well-formed answer", "foreign_row_or_swamp", b)
		}
	}
	run.Meta.Traces = len(cases)
	done()
	srv.Stop()
	run.Finish("check_all")
}
